import Pendulum.Proofs.WeekNav
/-! closed forms of `first_of` / `last_of` / `nth_of` (Date level) in terms of the unit's interval -/
namespace Pendulum.WeekNav
open Pendulum Pendulum.Cal

theorem firstOfMonth_none (o : Int) : firstOfMonth o none = uLo .month o := by
  unfold firstOfMonth uLo; rfl

theorem firstOfMonth_some (o wd : Int) (hwd : 0 ≤ wd ∧ wd ≤ 6) :
    firstOfMonth o (some wd) = firstIn (uLo .month o) wd := by
  obtain ⟨y, m, d, hf, hv, he⟩ := fields_of o
  simp only [firstOfMonth, uLo, hf]
  rw [ord_eq]; exact (firstDom_eq y m wd hwd).1

theorem lastOfMonth_none (o : Int) : lastOfMonth o none = uHi .month o := by
  obtain ⟨y, m, d, hf, hv, he⟩ := fields_of o
  simp only [lastOfMonth, uHi, hf]
  rw [ord_eq]

theorem lastOfMonth_some (o wd : Int) (hwd : 0 ≤ wd ∧ wd ≤ 6) :
    lastOfMonth o (some wd) = lastIn (uHi .month o) wd := by
  obtain ⟨y, m, d, hf, hv, he⟩ := fields_of o
  simp only [lastOfMonth, uHi, hf]
  rw [ord_eq]; exact (lastDom_eq y m wd hwd).1

/-- month interval of the first day of a month -/
theorem uLo_month_first (y m : Int) (hm : 1 ≤ m ∧ m ≤ 12) :
    uLo .month (ymd2ord y m 1) = ymd2ord y m 1 ∧
    uHi .month (ymd2ord y m 1) = ymd2ord y m 1 + daysInMonth y m - 1 := by
  have := ord2ymd_ymd2ord y m 1 (valid_first y m hm)
  simp only [uLo, uHi, this, and_self]

theorem uLo_month_any (y m d : Int) (hv : validDate y m d) :
    uLo .month (ymd2ord y m d) = ymd2ord y m 1 ∧
    uHi .month (ymd2ord y m d) = ymd2ord y m 1 + daysInMonth y m - 1 := by
  have := ord2ymd_ymd2ord y m d hv
  simp only [uLo, uHi, this, and_self]

theorem firstOfQuarter_eq (o : Int) (wd : Option Int) (hwd : ∀ w, wd = some w → 0 ≤ w ∧ w ≤ 6) :
    firstOfQuarter o wd = match wd with
      | none => uLo .quarter o
      | some w => firstIn (uLo .quarter o) w := by
  obtain ⟨y, m, d, hf, hv, he⟩ := fields_of o
  have hq := quarter_bounds m ⟨hv.1, hv.2.1⟩
  have hu := uLo_month_first y (quarter m * 3 - 2) ⟨hq.1, by omega⟩
  simp only [firstOfQuarter, uLo, hf]
  cases wd with
  | none => rw [firstOfMonth_none, hu.1]
  | some w => rw [firstOfMonth_some _ _ (hwd w rfl), hu.1]

theorem lastOfQuarter_eq (o : Int) (wd : Option Int) (hwd : ∀ w, wd = some w → 0 ≤ w ∧ w ≤ 6) :
    lastOfQuarter o wd = match wd with
      | none => uHi .quarter o
      | some w => lastIn (uHi .quarter o) w := by
  obtain ⟨y, m, d, hf, hv, he⟩ := fields_of o
  have hq := quarter_bounds m ⟨hv.1, hv.2.1⟩
  have hu := uLo_month_first y (quarter m * 3) ⟨by omega, hq.2.1⟩
  simp only [lastOfQuarter, uHi, hf]
  cases wd with
  | none => rw [lastOfMonth_none, hu.2]
  | some w => rw [lastOfMonth_some _ _ (hwd w rfl), hu.2]

theorem valid_jan (y m d : Int) (hv : validDate y m d) : validDate y 1 d ∧ validDate y 12 d := by
  obtain ⟨h1, h2, h3, h4⟩ := hv
  have := dimL_pos (isLeap y) m; rw [← daysInMonth_eq] at this
  have e1 : daysInMonth y 1 = 31 := by unfold daysInMonth; rfl
  have e12 : daysInMonth y 12 = 31 := by unfold daysInMonth; rfl
  exact ⟨⟨by omega, by omega, h3, by omega⟩, ⟨by omega, by omega, h3, by omega⟩⟩

theorem firstOfYear_eq (o : Int) (wd : Option Int) (hwd : ∀ w, wd = some w → 0 ≤ w ∧ w ≤ 6) :
    firstOfYear o wd = match wd with
      | none => uLo .year o
      | some w => firstIn (uLo .year o) w := by
  obtain ⟨y, m, d, hf, hv, he⟩ := fields_of o
  have hu := uLo_month_any y 1 d (valid_jan y m d hv).1
  simp only [firstOfYear, uLo, hf]
  cases wd with
  | none => rw [firstOfMonth_none, hu.1]
  | some w => rw [firstOfMonth_some _ _ (hwd w rfl), hu.1]

theorem lastOfYear_eq (o : Int) (wd : Option Int) (hwd : ∀ w, wd = some w → 0 ≤ w ∧ w ≤ 6) :
    lastOfYear o wd = match wd with
      | none => uHi .year o
      | some w => lastIn (uHi .year o) w := by
  obtain ⟨y, m, d, hf, hv, he⟩ := fields_of o
  have hu := uLo_month_any y 12 d (valid_jan y m d hv).2
  have e : daysInMonth y 12 = 31 := by unfold daysInMonth; rfl
  simp only [lastOfYear, uHi, hf]
  have e2 : ymd2ord y 12 1 + 31 - 1 = ymd2ord y 12 1 + 30 := by omega
  cases wd with
  | none => rw [lastOfMonth_none, hu.2, e, e2]
  | some w => rw [lastOfMonth_some _ _ (hwd w rfl), hu.2, e, e2]

theorem firstOf_eq (u : Unit') (o : Int) (wd : Option Int) (hwd : ∀ w, wd = some w → 0 ≤ w ∧ w ≤ 6) :
    firstOf u o wd = match wd with
      | none => uLo u o
      | some w => firstIn (uLo u o) w := by
  cases u with
  | month => cases wd with
    | none => exact firstOfMonth_none o
    | some w => exact firstOfMonth_some o w (hwd w rfl)
  | quarter => exact firstOfQuarter_eq o wd hwd
  | year => exact firstOfYear_eq o wd hwd

theorem lastOf_eq (u : Unit') (o : Int) (wd : Option Int) (hwd : ∀ w, wd = some w → 0 ≤ w ∧ w ≤ 6) :
    lastOf u o wd = match wd with
      | none => uHi u o
      | some w => lastIn (uHi u o) w := by
  cases u with
  | month => cases wd with
    | none => exact lastOfMonth_none o
    | some w => exact lastOfMonth_some o w (hwd w rfl)
  | quarter => exact lastOfQuarter_eq o wd hwd
  | year => exact lastOfYear_eq o wd hwd

theorem firstOf_some (u : Unit') (o wd : Int) (hwd : 0 ≤ wd ∧ wd ≤ 6) :
    firstOf u o (some wd) = firstIn (uLo u o) wd :=
  firstOf_eq u o (some wd) (by intro w h; cases h; exact hwd)

theorem firstOf_none (u : Unit') (o : Int) : firstOf u o none = uLo u o :=
  firstOf_eq u o none (by intro w h; cases h)

theorem lastOf_some (u : Unit') (o wd : Int) (hwd : 0 ≤ wd ∧ wd ≤ 6) :
    lastOf u o (some wd) = lastIn (uHi u o) wd :=
  lastOf_eq u o (some wd) (by intro w h; cases h; exact hwd)

theorem lastOf_none (u : Unit') (o : Int) : lastOf u o none = uHi u o :=
  lastOf_eq u o none (by intro w h; cases h)

/-- the value every `_nth_of_*` is shown to compute -/
def nthSpec (lo hi wd : Int) (nth : Nat) : Option Int :=
  if firstIn lo wd + 7 * ((nth : Int) - 1) ≤ hi then some (firstIn lo wd + 7 * ((nth : Int) - 1)) else none

theorem nthSpec_one (lo hi wd : Int) (hwd : 0 ≤ wd ∧ wd ≤ 6) (hlen : lo + 27 ≤ hi) :
    nthSpec lo hi wd 1 = some (firstIn lo wd) := by
  have := firstIn_spec lo wd hwd
  unfold nthSpec
  have h : firstIn lo wd + 7 * (((1 : Nat) : Int) - 1) ≤ hi := by omega
  rw [if_pos h]; congr 1; omega

theorem nthOfMonth_eq (o : Int) (nth : Nat) (wd : Int) (hn : 1 ≤ nth) (hwd : 0 ≤ wd ∧ wd ≤ 6) :
    nthOfMonth o nth wd = nthSpec (uLo .month o) (uHi .month o) wd nth := by
  have hlen := unit_len .month o
  unfold nthOfMonth
  by_cases h1 : nth = 1
  · subst h1; rw [if_pos rfl, firstOfMonth_some o wd hwd, nthSpec_one _ _ _ hwd hlen]
  · rw [if_neg h1]
    obtain ⟨y, m, d, hf, hv, he⟩ := fields_of o
    have hm : 1 ≤ m ∧ m ≤ 12 := ⟨hv.1, hv.2.1⟩
    have hlo : firstOfMonth o none = ymd2ord y m 1 := by simp only [firstOfMonth, hf]
    have hlo' : uLo .month o = ymd2ord y m 1 := by simp only [uLo, hf]
    have hhi' : uHi .month o = ymd2ord y m 1 + daysInMonth y m - 1 := by simp only [uHi, hf]
    simp only [hf, hlo, ord2ymd_ymd2ord y m 1 (valid_first y m hm)]
    rw [iterNext_nth _ wd nth hn hwd, hlo', hhi']
    unfold nthSpec
    have hfi := firstIn_spec (ymd2ord y m 1) wd hwd
    generalize hr : firstIn (ymd2ord y m 1) wd + 7 * ((nth : Int) - 1) = r
    have hge : ymd2ord y m 1 ≤ r := by omega
    by_cases hin : r ≤ ymd2ord y m 1 + daysInMonth y m - 1
    · rw [if_pos hin, day_in_month y m r hm ⟨hge, hin⟩]
      simp only [and_self, if_true]
      rw [ord_eq]; congr 1; omega
    · rw [if_neg hin]
      have : ¬ ((ord2ymd r).1 = y ∧ (ord2ymd r).2.1 = m) := fun h => hin ((in_month_iff y m r hm).mp h).2
      rw [if_neg this]

theorem nthOfQuarter_eq (o : Int) (nth : Nat) (wd : Int) (hn : 1 ≤ nth) (hwd : 0 ≤ wd ∧ wd ≤ 6) :
    nthOfQuarter o nth wd = nthSpec (uLo .quarter o) (uHi .quarter o) wd nth := by
  have hlen := unit_len .quarter o
  unfold nthOfQuarter
  by_cases h1 : nth = 1
  · subst h1
    rw [if_pos rfl, firstOfQuarter_eq o (some wd) (by intro w hw; cases hw; exact hwd), nthSpec_one _ _ _ hwd hlen]
  · rw [if_neg h1]
    obtain ⟨y, m, d, hf, hv, he⟩ := fields_of o
    have hm : 1 ≤ m ∧ m ≤ 12 := ⟨hv.1, hv.2.1⟩
    have hq := quarter_bounds m hm
    have hlo' : uLo .quarter o = ymd2ord y (quarter m * 3 - 2) 1 := by simp only [uLo, hf]
    have hhi' : uHi .quarter o = ymd2ord y (quarter m * 3) 1 + daysInMonth y (quarter m * 3) - 1 := by simp only [uHi, hf]
    have hl3 := ord2ymd_ymd2ord y (quarter m * 3) 1 (valid_first y _ ⟨by omega, hq.2.1⟩)
    have hfq : firstOfQuarter (ymd2ord y (quarter m * 3) 1) none = ymd2ord y (quarter m * 3 - 2) 1 := by
      have hqq : quarter (quarter m * 3) = quarter m := by unfold quarter; omega
      simp only [firstOfQuarter, hl3, hqq]
      rw [firstOfMonth_none, (uLo_month_first y _ ⟨hq.1, by omega⟩).1]
    simp only [hf, hl3, hfq]
    rw [iterNext_nth _ wd nth hn hwd, hlo', hhi']
    unfold nthSpec
    have hfi := firstIn_spec (ymd2ord y (quarter m * 3 - 2) 1) wd hwd
    generalize hr : firstIn (ymd2ord y (quarter m * 3 - 2) 1) wd + 7 * ((nth : Int) - 1) = r
    have hge : ymd2ord y (quarter m * 3 - 2) 1 ≤ r := by omega
    obtain ⟨y', m', d', hf', hv', he'⟩ := fields_of r
    have hiq := in_quarter_iff y (quarter m * 3 - 2) r ⟨hq.1, by omega⟩
    have e2 : quarter m * 3 - 2 + 2 = quarter m * 3 := by omega
    rw [e2, hf'] at hiq
    simp only [] at hiq
    rw [hf']; simp only []
    by_cases hin : r ≤ ymd2ord y (quarter m * 3) 1 + daysInMonth y (quarter m * 3) - 1
    · rw [if_pos hin]
      obtain ⟨a, b, c⟩ := hiq.mpr ⟨hge, hin⟩
      have : ¬ (quarter m * 3 < m' ∨ y ≠ y') := by omega
      rw [if_neg this, ← a, he']
    · rw [if_neg hin]
      have : quarter m * 3 < m' ∨ y ≠ y' := by
        by_cases hy : y = y'
        · left
          rcases (by omega : quarter m * 3 < m' ∨ m' ≤ quarter m * 3) with h | h
          · exact h
          · exfalso
            -- m' ≤ 3q and same year, r ≥ qLo, so m' ≥ 3q - 2 as well
            have hm'lo : quarter m * 3 - 2 ≤ m' := by
              rcases (by omega : m' < quarter m * 3 - 2 ∨ quarter m * 3 - 2 ≤ m') with g | g
              · have := month_order y' m' (quarter m * 3 - 2) hv'.1 g (by omega)
                rw [ord_eq] at he'
                have := hv'.2.2.2
                subst hy; omega
              · exact g
            exact hin (hiq.mp ⟨hy.symm, hm'lo, h⟩).2
        · right; exact hy
      rw [if_pos this]

theorem nthOfYear_eq (o : Int) (nth : Nat) (wd : Int) (hn : 1 ≤ nth) (hwd : 0 ≤ wd ∧ wd ≤ 6) :
    nthOfYear o nth wd = nthSpec (uLo .year o) (uHi .year o) wd nth := by
  have hlen := unit_len .year o
  unfold nthOfYear
  by_cases h1 : nth = 1
  · subst h1
    rw [if_pos rfl, firstOfYear_eq o (some wd) (by intro w hw; cases hw; exact hwd), nthSpec_one _ _ _ hwd hlen]
  · rw [if_neg h1]
    obtain ⟨y, m, d, hf, hv, he⟩ := fields_of o
    have hlo' : uLo .year o = ymd2ord y 1 1 := by simp only [uLo, hf]
    have hhi' : uHi .year o = ymd2ord y 12 1 + 30 := by simp only [uHi, hf]
    have hfy : firstOfYear o none = ymd2ord y 1 1 := by
      rw [firstOfYear_eq o none (by intro w hw; cases hw)]; exact hlo'
    have hj := ord2ymd_ymd2ord y 1 1 (valid_first y 1 (by omega))
    simp only [hf, hfy, hj]
    rw [iterNext_nth _ wd nth hn hwd, hlo', hhi']
    unfold nthSpec
    have hfi := firstIn_spec (ymd2ord y 1 1) wd hwd
    generalize hr : firstIn (ymd2ord y 1 1) wd + 7 * ((nth : Int) - 1) = r
    have hge : ymd2ord y 1 1 ≤ r := by omega
    obtain ⟨y', m', d', hf', hv', he'⟩ := fields_of r
    have hiy := in_year_iff y r
    rw [hf', jan1, dec31] at *
    simp only [] at hiy ⊢
    by_cases hin : r ≤ daysBeforeYear (y + 1)
    · rw [if_pos hin]
      have a := hiy.mpr ⟨hge, hin⟩
      have : ¬ (y ≠ y') := by omega
      rw [if_neg this, ← a, he']
    · rw [if_neg hin]
      have : y ≠ y' := by intro h; exact hin (hiy.mp h.symm).2
      rw [if_pos this]

theorem nthOf_eq (u : Unit') (o : Int) (nth : Nat) (wd : Int) (hn : 1 ≤ nth) (hwd : 0 ≤ wd ∧ wd ≤ 6) :
    nthOf u o nth wd = nthSpec (uLo u o) (uHi u o) wd nth := by
  cases u with
  | month => exact nthOfMonth_eq o nth wd hn hwd
  | quarter => exact nthOfQuarter_eq o nth wd hn hwd
  | year => exact nthOfYear_eq o nth wd hn hwd

end Pendulum.WeekNav
