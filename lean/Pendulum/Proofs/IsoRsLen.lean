import Pendulum.Proofs.IsoRsTime
/-! The hand model of the compiled date/time parser never lengthens the remaining input (used for the fuel bounds of the
regenerated parser's tie, `Proofs/IsoRsGlue.lean`). -/
namespace Pendulum.IsoRsGen
open Pendulum Pendulum.RsStd Pendulum.Gen.IsoRs Pendulum.Iso
set_option linter.unusedSimpArgs false

/-! ### the hand model never lengthens the remaining input -/

theorem optChar_len (ch : Char) (r : List Char) : (optChar ch r).2.length ≤ r.length := by
  cases r with
  | nil => simp [optChar]
  | cons c cs => rw [optChar_cons]; split <;> simp

theorem withRest_len {e : Except Kind (Int × Int × Int)} {ext : Bool} {r : List Char} {t : Int × Int × Int} {e' : Bool} {r' : List Char}
    (h : withRest e ext r = .ok (t, e', r')) : r' = r := by
  cases e with
  | error k => simp [withRest] at h
  | ok t0 => simp [withRest] at h; exact h.2.2.symm

theorem weekTail_len (year : Nat) (ext : Bool) (r : List Char) (t : Int × Int × Int) (e' : Bool) (r' : List Char)
    (h : rsWeekTail year ext r = .ok (t, e', r')) : r'.length ≤ r.length := by
  unfold rsWeekTail at h
  cases hx : exactN .rust 2 0 r with
  | none => simp [hx] at h
  | some x =>
    obtain ⟨w, r1⟩ := x
    have l1 := exactN_length _ _ _ _ _ _ hx
    simp only [hx] at h
    by_cases hs : atSep r1 = true
    · simp only [hs, if_true] at h
      have := withRest_len h; subst this; omega
    · simp only [hs, if_false] at h
      cases ext with
      | true =>
        simp only [if_true] at h
        by_cases ho : (optChar '-' r1).1 = true
        · simp only [ho, if_true] at h
          cases hx2 : exactN .rust 1 0 (optChar '-' r1).2 with
          | none => simp [hx2] at h
          | some x2 =>
            obtain ⟨d, r3⟩ := x2
            have l2 := exactN_length _ _ _ _ _ _ hx2
            have l3 := optChar_len '-' r1
            simp only [hx2] at h
            have := withRest_len h; subst this; omega
        · simp [ho] at h
      | false =>
        simp only [Bool.false_eq_true, if_false] at h
        cases hx2 : exactN .rust 1 0 r1 with
        | none => simp [hx2] at h
        | some x2 =>
          obtain ⟨d, r3⟩ := x2
          have l2 := exactN_length _ _ _ _ _ _ hx2
          simp only [hx2] at h
          have := withRest_len h; subst this; omega

theorem monthTailExt_len (year : Nat) (r : List Char) (t : Int × Int × Int) (e' : Bool) (r' : List Char)
    (h : rsMonthTailExt year r = .ok (t, e', r')) : r'.length ≤ r.length := by
  unfold rsMonthTailExt at h
  cases hx : exactN .rust 2 0 r with
  | none => simp [hx] at h
  | some x =>
    obtain ⟨mo, r1⟩ := x
    have l1 := exactN_length _ _ _ _ _ _ hx
    simp only [hx] at h
    by_cases hs : atSep r1 = true
    · simp only [hs, if_true] at h
      injection h with h; injection h with _ h; injection h with _ h; subst h; omega
    · simp only [hs, if_false] at h
      by_cases ho : (optChar '-' r1).1 = true
      · simp only [ho, if_true] at h
        cases hx2 : exactN .rust 2 0 (optChar '-' r1).2 with
        | none => simp [hx2] at h
        | some x2 =>
          obtain ⟨d, r3⟩ := x2
          have l2 := exactN_length _ _ _ _ _ _ hx2
          have l3 := optChar_len '-' r1
          simp only [hx2] at h
          injection h with h; injection h with _ h; injection h with _ h; subst h; omega
      · simp only [ho, if_false] at h
        cases hx2 : exactN .rust 1 0 r1 with
        | none => simp [hx2] at h
        | some x2 =>
          obtain ⟨o, r3⟩ := x2
          have l2 := exactN_length _ _ _ _ _ _ hx2
          simp only [hx2] at h
          have := withRest_len h; subst this; omega

theorem basicTail_len (year : Nat) (r : List Char) (t : Int × Int × Int) (e' : Bool) (r' : List Char)
    (h : rsBasicTail year r = .ok (t, e', r')) : r'.length ≤ r.length := by
  unfold rsBasicTail at h
  cases hx : exactN .rust 2 0 r with
  | none => simp [hx] at h
  | some x =>
    obtain ⟨mo, r1⟩ := x
    have l1 := exactN_length _ _ _ _ _ _ hx
    simp only [hx] at h
    cases hx1 : exactN .rust 1 0 r1 with
    | none => simp [hx1] at h
    | some x1 =>
      obtain ⟨o, r2⟩ := x1
      have l2 := exactN_length _ _ _ _ _ _ hx1
      simp only [hx1] at h
      by_cases hs : atSep r2 = true
      · simp only [hs, if_true] at h
        have := withRest_len h; subst this; omega
      · simp only [hs, if_false] at h
        cases hx2 : exactN .rust 1 0 r2 with
        | none => simp [hx2] at h
        | some x2 =>
          obtain ⟨d2, r3⟩ := x2
          have l3 := exactN_length _ _ _ _ _ _ hx2
          simp only [hx2] at h
          injection h with h; injection h with _ h; injection h with _ h; subst h; omega

theorem dateRest_len (year : Nat) (r : List Char) (t : Int × Int × Int) (e' : Bool) (r' : List Char)
    (h : rsDateRest year r = .ok (t, e', r')) : r'.length ≤ r.length := by
  unfold rsDateRest at h
  have a := optChar_len '-' r
  have b := optChar_len 'W' (optChar '-' r).2
  have c := optChar_len 'W' r
  split at h
  · split at h
    · have := weekTail_len _ _ _ _ _ _ h; omega
    · have := monthTailExt_len _ _ _ _ _ h; omega
  · split at h
    · have := weekTail_len _ _ _ _ _ _ h; omega
    · exact basicTail_len _ _ _ _ _ h


theorem afterDigs_len (r : List Char) : (afterDigs r).length ≤ r.length := by
  have := congrArg List.length (digs_append_afterDigs r)
  simp at this; omega

theorem fracOpt_len (r : List Char) (us : Nat) (r' : List Char) (h : rsFracOpt r = .ok (us, r')) : r'.length ≤ r.length := by
  rw [rsFracOpt_eq] at h
  cases r with
  | nil => simp at h; rw [h.2]; exact Nat.le_refl _
  | cons c r1 =>
    simp only [] at h
    split at h
    · split at h
      · cases h
      · injection h with h; injection h with _ h; subst h; have := afterDigs_len r1; simp; omega
    · injection h with h; injection h with _ h; subst h; exact Nat.le_refl _

theorem secFrac_len (bad : Bool) (mi : Nat) (r : List Char) (x : Nat × Nat × Nat × List Char) (h : rsSecFrac bad mi r = .ok x) :
    x.2.2.2.length ≤ r.length := by
  unfold rsSecFrac at h
  cases hx : exactN .rust 2 0 r with
  | none => simp [hx] at h
  | some y =>
    obtain ⟨s, r3⟩ := y
    have l1 := exactN_length _ _ _ _ _ _ hx
    simp only [hx] at h
    cases hf : rsFracOpt r3 with
    | error k => simp [hf] at h
    | ok z =>
      obtain ⟨us, r4⟩ := z
      have l2 := fracOpt_len _ _ _ hf
      simp only [hf] at h
      split at h
      · cases h
      · injection h with h; subst h; simp; omega

theorem minSec_len (hasDate ext : Bool) (r : List Char) (x : Nat × Nat × Nat × List Char) (h : rsMinSec hasDate ext r = .ok x) :
    x.2.2.2.length ≤ r.length := by
  unfold rsMinSec at h
  split at h
  · split at h
    · have lo := optChar_len ':' r
      cases hx : exactN .rust 2 0 (optChar ':' r).2 with
      | none => simp [hx] at h
      | some y =>
        obtain ⟨mi, r1⟩ := y
        have l1 := exactN_length _ _ _ _ _ _ hx
        simp only [hx] at h
        split at h
        · split at h
          · have := secFrac_len _ _ _ _ h
            have lo2 := optChar_len ':' r1
            omega
          · cases h
        · injection h with h; subst h; simp; omega
    · cases hx : exactN .rust 2 0 r with
      | none => simp [hx] at h
      | some y =>
        obtain ⟨mi, r1⟩ := y
        have l1 := exactN_length _ _ _ _ _ _ hx
        simp only [hx] at h
        split at h
        · cases hs : rsSecFrac false mi r1 with
          | error k => simp [hs] at h
          | ok z =>
            have := secFrac_len _ _ _ _ hs
            simp only [hs] at h
            split at h
            · cases h
            · injection h with h; subst h; omega
        · split at h
          · cases h
          · injection h with h; subst h; simp; omega
  · injection h with h; subst h; exact Nat.le_refl _

theorem tzFin_len (neg : Bool) (hh mm : Nat) (r : List Char) (x : Option Int × List Char) (h : rsTzFin neg hh mm r = .ok x) : x.2 = r := by
  unfold rsTzFin at h
  by_cases hg : ((mm : Int) + (hh : Int) * 60) * (if neg = true then -1 else 1) > 24 * 60
  · simp only [hg, if_true] at h; cases h
  · simp only [hg, if_false] at h
    injection h with h; subst h; rfl

theorem tz_len (r : List Char) (x : Option Int × List Char) (h : rsTz r = .ok x) : x.2.length ≤ r.length := by
  unfold rsTz at h
  cases r with
  | nil => simp at h; subst h; exact Nat.le_refl _
  | cons c r1 =>
    simp only [] at h
    split at h
    · injection h with h; subst h; simp
    · split at h
      · cases hx : exactN .rust 2 0 r1 with
        | none => simp [hx] at h
        | some y =>
          obtain ⟨hh, r2⟩ := y
          have l1 := exactN_length _ _ _ _ _ _ hx
          simp only [hx] at h
          split at h
          · have := tzFin_len _ _ _ _ _ h; rw [this]; simp
          · split at h
            · cases h
            · have lo := optChar_len ':' r2
              cases hx2 : exactN .rust 2 0 (optChar ':' r2).2 with
              | none => simp [hx2] at h
              | some z =>
                obtain ⟨mm, r3⟩ := z
                have l2 := exactN_length _ _ _ _ _ _ hx2
                simp only [hx2] at h
                have := tzFin_len _ _ _ _ _ h; rw [this]; simp; omega
      · injection h with h; subst h; exact Nat.le_refl _

theorem time_len (hasDate ext : Bool) (skip : Option Nat) (r : List Char) (x : TimeRes × List Char)
    (h : rsTime hasDate ext skip r = .ok x) : x.2.length ≤ r.length := by
  unfold rsTime at h
  simp only [] at h
  have key : ∀ (hr : Nat) (r0 : List Char), r0.length ≤ r.length →
      (match rsMinSec hasDate ext r0 with
        | .error e => (.error e : Except Kind (TimeRes × List Char))
        | .ok (mi, s, us, r1) =>
          match rsTz r1 with
          | .error e => .error e
          | .ok (off, r2) => .ok (⟨hr, mi, s, us, off⟩, r2)) = .ok x → x.2.length ≤ r.length := by
    intro hr r0 hl hh
    cases hm : rsMinSec hasDate ext r0 with
    | error k => simp [hm] at hh
    | ok y =>
      obtain ⟨mi, s, us, r1⟩ := y
      have l1 := minSec_len _ _ _ _ hm
      simp only [hm] at hh
      cases ht : rsTz r1 with
      | error k => simp [ht] at hh
      | ok z =>
        obtain ⟨off, r2⟩ := z
        have l2 := tz_len _ _ ht
        simp only [ht] at hh
        injection hh with hh; subst hh; simp at l1 l2 ⊢; omega
  cases skip with
  | some hr => exact key hr r (Nat.le_refl _) h
  | none =>
    cases r with
    | nil => cases h
    | cons c r1 =>
      by_cases hc : c = 'T' ∨ c = ' '
      · simp only [hc, if_true] at h
        cases hx : exactN .rust 2 0 r1 with
        | none => simp only [hx] at h; cases h
        | some y =>
          obtain ⟨hr, r2⟩ := y
          have l1 := exactN_length _ _ _ _ _ _ hx
          simp only [hx] at h
          exact key hr r2 (by simp; omega) h
      · simp only [hc, if_false] at h; cases h

end Pendulum.IsoRsGen
