import Pendulum.Proofs.GettersGen
/-! The hypotheses of the tie theorems of `Proofs/GettersGen.lean` are jointly satisfiable: `refExt` is a concrete
parameter record (datetime objects = UTC instants in µs; the standard library = the reference calendar `Cal`; intervals,
`add`, comparisons by ordinal / instant arithmetic) for which `StdOk`, `DateOk` and `DtOk` hold. -/
set_option linter.unusedSimpArgs false
set_option linter.unusedVariables false
namespace Pendulum.GettersGen
open Pendulum Pendulum.Cal Pendulum.Getters
open Pendulum.Gen.Getters

def DAYus : Int := 86400000000
def dayOrd (o : Int) : Int := o / DAYus + epochOrd

/-- an injective rendering of an integer (stands for `strftime("%Y-%m-%d")`, which is injective in the date) -/
def enc (n : Int) : String := String.ofList (List.replicate n.toNat 'a' ++ List.replicate (-n).toNat 'b')

theorem enc_inj (a b : Int) (h : enc a = enc b) : a = b := by
  have hl := String.ofList_injective h
  have ha := congrArg (List.count 'a') hl
  have hb := congrArg (List.count 'b') hl
  simp [List.count_append, List.count_replicate] at ha hb
  omega

def refView (o : Int) : Inst Int :=
  { obj := o, clsname := "DateTime",
    year := (ord2ymd (dayOrd o)).1, month := (ord2ymd (dayOrd o)).2.1, day := (ord2ymd (dayOrd o)).2.2,
    hour := o % DAYus / 3600000000, minute := o % DAYus / 60000000 % 60, second := o % DAYus / 1000000 % 60,
    microsecond := o % 1000000, fold := false, tzinfo := TzInfo.utc, utcoffset := some 0, dst := some 0, timestamp := o }

def sgn (abs : Bool) (v : Int) : Int := if abs then absI v else v

def refExt : Ext Int where
  view := refView
  weekday := fun d => Cal.isoweekday d.year d.month d.day - 1
  isoweekday := fun d => Cal.isoweekday d.year d.month d.day
  isocalendar := fun d => isoCalendar d.year d.month d.day
  monthrange := fun y m => (Cal.isoweekday y m 1 - 1, daysInMonth y m)
  isleap := isLeap
  date_today := ⟨2024, 2, 29⟩
  date_cmp := fun a b => sign (ordD a - ordD b)
  date_strftime := fun d _ => enc (ordD d)
  date_isoformat := fun d => enc (ordD d)
  date_toordinal := ordD
  date_format := fun d _ _ => enc (ordD d)
  date_clsname := "Date"
  date_add_days := fun a n => dOf (ordD a + n)
  ivd_in_years := fun a b ab => sgn ab (b.year - a.year)
  ivd_in_months := fun a b ab => sgn ab ((b.year - a.year) * 12 + (b.month - a.month))
  ivd_in_weeks := fun a b ab => sgn ab (ordD b - ordD a) / 7
  ivd_in_days := fun a b ab => sgn ab (ordD b - ordD a)
  ivd_in_hours := fun a b ab => sgn ab (ordD b - ordD a) * 24
  ivd_in_minutes := fun a b ab => sgn ab (ordD b - ordD a) * 1440
  ivd_in_seconds := fun a b ab => sgn ab (ordD b - ordD a) * 86400
  ivd_microseconds := fun _ _ _ => 0
  ivt_in_years := fun _ _ _ => 0
  ivt_in_months := fun _ _ _ => 0
  ivt_in_weeks := fun a b ab => sgn ab (b - a) / (7 * DAYus)
  ivt_in_days := fun a b ab => sgn ab (b - a) / DAYus
  ivt_in_hours := fun a b ab => sgn ab (b - a) / 3600000000
  ivt_in_minutes := fun a b ab => sgn ab (b - a) / 60000000
  ivt_in_seconds := fun a b ab => sgn ab (b - a) / 1000000
  ivt_microseconds := fun a b ab => sgn ab (b - a) % 1000000
  dt_cmp := fun a b => sign (a - b)
  dt_eq := fun a b => a == b
  ivt_eq := fun a b p c d q => a == c && b == d && p == q
  ivt_cmp := fun a b p c d q => sign (sgn p (b - a) - sgn q (d - c))
  dt_isocalendar := fun o => isoCalendar (ord2ymd (dayOrd o)).1 (ord2ymd (dayOrd o)).2.1 (ord2ymd (dayOrd o)).2.2
  dt_strftime := fun o _ => enc (dayOrd o)
  dt_isoformat := fun o _ => enc o
  dt_format := fun o _ _ => enc o
  dt_add_microseconds := fun a n => a + n
  dt_now := fun _ => 1709208000000000
  dt_instance := fun a => a
  dt_in_timezone := fun a _ => a
  dt_create := fun y m d h mi s us _ => (ymd2ord y m d - epochOrd) * DAYus + ((h * 60 + mi) * 60 + s) * 1000000 + us
  local_timezone := TzInfo.utc
  tz_repr := fun _ => "Timezone('UTC')"
  week_starts_at := 0
  week_ends_at := 6

theorem refExt_std : StdOk refExt where
  weekday := fun _ _ => rfl
  isoweekday := fun _ _ => rfl
  isocalendar := fun _ _ => rfl
  monthrange := fun _ _ _ _ _ _ => rfl
  isleap := fun _ => rfl

theorem refExt_date : DateOk refExt (fun a b => b.year - a.year) where
  in_seconds := fun _ _ _ _ => rfl
  in_days := fun _ _ _ _ => rfl
  in_years := fun _ _ _ _ => rfl
  add_days := fun _ _ _ _ => rfl
  cmp := fun _ _ _ _ => rfl
  today := by decide

theorem ord2ymd_inj (a b : Int) (h1 : (ord2ymd a).1 = (ord2ymd b).1) (h2 : (ord2ymd a).2.1 = (ord2ymd b).2.1)
    (h3 : (ord2ymd a).2.2 = (ord2ymd b).2.2) : a = b := by
  have ha := (ymd2ord_ord2ymd a).1
  have hb := (ymd2ord_ord2ymd b).1
  rw [h1, h2, h3] at ha
  omega

theorem refExt_dt : DtOk refExt (fun o => o) where
  iv_eq := by
    intro s c c'
    show (c == c' && s == s && true == true) = (c == c')
    simp
  iv_cmp := by
    intro s c c'
    show sign (sgn true (s - c) - sgn true (s - c')) = _
    simp only [sgn, if_true]
  eq_instant := by
    intro a b h
    have h' : (a == b) = true := h
    simpa using h'
  iv := by
    intro a b
    show sgn false (b - a) / 1000000 * 1000000 + sgn false (b - a) % 1000000 = b - a
    simp only [sgn, Bool.false_eq_true, if_false]
    omega
  add_us := fun _ _ => rfl
  instance_instant := fun _ => rfl
  create_dec28 := by
    intro y tz h1 h2
    show isoCalendar (ord2ymd (dayOrd _)).1 (ord2ymd (dayOrd _)).2.1 (ord2ymd (dayOrd _)).2.2 = _
    have e : dayOrd (refExt.dt_create y 12 28 0 0 0 0 tz) = ymd2ord y 12 28 := by
      show dayOrd ((ymd2ord y 12 28 - epochOrd) * DAYus + ((0 * 60 + 0) * 60 + 0) * 1000000 + 0) = _
      unfold dayOrd DAYus; omega
    have hv : validDate y 12 28 := by unfold validDate daysInMonth; simp
    rw [e, ord2ymd_ymd2ord y 12 28 hv]
  strftime_ymd := by
    intro a b
    show (enc (dayOrd a) = enc (dayOrd b)) ↔ _
    constructor
    · intro h
      have := enc_inj _ _ h
      simp only [refExt, refView, this, and_self]
    · intro ⟨h1, h2, h3⟩
      have := ord2ymd_inj (dayOrd a) (dayOrd b) h1 h2 h3
      rw [this]

/-- the coherence hypothesis `E.view self.obj = self` of `dt_same_day_eq` holds for every view of `refExt` -/
theorem refExt_view_obj (o : Int) : refExt.view (refExt.view o).obj = refExt.view o := rfl

end Pendulum.GettersGen
