import Pendulum.Proofs.ParseAllPy
/-! C17: totality of the whole pipeline, the strict gate, and which stage accepted a string. -/
namespace Pendulum.ParseAll
open Pendulum Pendulum.Iso

variable (rk : IsoDur.Parsed → Bool)

theorem parseIso_VEI (b : Backend) (cs : List Char) (hP : cs.head? ≠ some 'P') : VEI (parseIso b cs) := by
  cases b with
  | rust => exact rsParse_VEI cs hP
  | py => exact VEI_of_VE (pyParse_VE cs hP)

/-- `parse_iso8601` fails only with `ValueError` kinds -/
theorem isoAny_VE (b : Backend) (cs : List Char) : VE (isoAny rk b cs) := by
  intro k h
  unfold isoAny at h
  split at h
  · cases b <;> simp only at h <;> repeat' split at h
    all_goals first | (cases h; exact Or.inr rfl) | (cases h; exact Or.inl rfl) | cases h
  · rename_i hP
    split at h
    · cases h
    · rename_i n heq
      rcases parseIso_VEI b cs hP _ heq with h1 | h1 | h1
      · cases h1
      · cases h1
      · injection h1 with h1
        subst h1
        rw [if_pos rfl] at h
        cases h; exact Or.inr rfl
    · rename_i k' hno heq
      cases h
      rcases parseIso_VEI b cs hP _ heq with h1 | h1 | h1
      · exact Or.inl h1
      · exact Or.inr h1
      · exact absurd h1 (hno "Interval")

/-- a string that starts with `P` is a duration or nothing -/
theorem isoAny_P (b : Backend) (cs : List Char) (hP : cs.head? = some 'P') (r : IsoRes) (h : isoAny rk b cs = .ok r) :
    ∃ p, r = .dur p := by
  unfold isoAny at h
  rw [if_pos hP] at h
  cases b <;> simp only at h <;> repeat' split at h
  all_goals first | (cases h; exact ⟨_, rfl⟩) | cases h

/-- … and a string that does not is a date/time value or nothing -/
theorem isoAny_notP (b : Backend) (cs : List Char) (hP : cs.head? ≠ some 'P') (r : IsoRes) (h : isoAny rk b cs = .ok r) :
    ∃ v, r = .val v := by
  unfold isoAny at h
  rw [if_neg hP] at h
  repeat' split at h
  all_goals first | (cases h; exact ⟨_, rfl⟩) | cases h

theorem intervalHalves_VE (cs : List Char) : VE (intervalHalves cs) := by
  intro k h
  unfold intervalHalves at h
  repeat' split at h
  all_goals first | (cases h; exact Or.inr rfl) | (cases h; exact Or.inl rfl) | cases h

/-- `_parse_iso8601_interval` fails only with `ValueError` kinds: the attribute errors of the unrepaired code cannot occur -/
theorem parseIntervalRaw_VE (b : Backend) (cs : List Char) : VE (parseIntervalRaw rk b cs) := by
  intro k h
  unfold parseIntervalRaw at h
  split at h
  · rename_i heq; cases h; exact intervalHalves_VE _ k heq
  · rename_i first last heq
    split at h
    · rename_i hP
      split at h
      · rename_i heq1; cases h; exact isoAny_VE rk _ _ k heq1
      · rename_i d heq1
        obtain ⟨p, hp⟩ := isoAny_P rk b first hP d heq1
        subst hp
        repeat' split at h
        all_goals first
          | (cases h; exact Or.inl rfl)
          | (rename_i heq2; cases h; exact isoAny_VE rk _ _ k heq2)
          | (cases h; done)
          | (rename_i heq2; cases heq2; done)
    · split at h
      · rename_i hP1 hP
        split at h
        · rename_i heq1; cases h; exact isoAny_VE rk _ _ k heq1
        · split at h
          · rename_i heq2; cases h; exact isoAny_VE rk _ _ k heq2
          · rename_i s heq1 d heq2
            obtain ⟨p, hp⟩ := isoAny_P rk b last hP d heq2
            subst hp
            repeat' split at h
            all_goals first | (cases h; exact Or.inl rfl) | (cases h; done) | (rename_i heq3; cases heq3; done)
      · repeat' split at h
        all_goals first
          | (cases h; exact Or.inl rfl)
          | (rename_i heq2; cases h; exact isoAny_VE rk _ _ k heq2)
          | cases h

theorem instanceDT_VE (tz : TzOpt) (v : Value) : VE (instanceDT tz v) := by
  intro k h
  unfold instanceDT at h
  repeat' split at h
  all_goals first | (cases h; exact Or.inr rfl) | cases h

/-- inside `_interval` only ValueError and OverflowError can be raised -/
theorem assembleRaw_kinds (b : Backend) (tz : TzOpt) (r : IntervalRaw) (k : Kind)
    (h : assembleRaw b tz r = .error k) : k = .parserError ∨ k = .valueError ∨ k = .other "OverflowError" := by
  unfold assembleRaw at h
  repeat' split at h
  all_goals first
    | (cases h; exact Or.inr (Or.inr rfl))
    | (cases h; exact Or.inr (Or.inl rfl))
    | (cases h; exact Or.inl rfl)
    | (rename_i heq; cases h; rcases instanceDT_VE _ _ k heq with h1 | h1
       · exact Or.inl h1
       · exact Or.inr (Or.inl h1))
    | cases h

/-- … and `parse()` turns both into a `ParserError` -/
theorem assemble_PE (b : Backend) (tz : TzOpt) (r : IntervalRaw) (k : Kind) (h : assemble b tz r = .error k) :
    k = .parserError := by
  unfold assemble at h
  split at h
  · cases h
  · cases h; rfl
  · cases h; rfl
  · rename_i n heq
    rcases assembleRaw_kinds b tz r _ heq with h1 | h1 | h1
    · cases h1
    · cases h1
    · injection h1 with h1
      subst h1
      rw [if_pos rfl] at h
      cases h; rfl

theorem wrap_VE (exact : Bool) (tz : Option Int) (now : Int × Int × Int) (v : Value) : VE (wrap exact tz now v) := by
  intro k h
  unfold wrap at h
  simp only at h
  repeat' split at h
  all_goals first | (cases h; exact Or.inr rfl) | cases h

theorem wrapTz_VE (exact : Bool) (tz : TzOpt) (now : Int × Int × Int) (v : Value) : VE (wrapTz exact tz now v) := by
  intro k h
  unfold wrapTz at h
  split at h
  · exact wrap_VE _ _ _ _ k h
  · exact wrap_VE _ _ _ _ k h
  · exact wrap_VE _ _ _ _ k h
  · repeat' split at h
    all_goals first | (cases h; exact Or.inr rfl) | cases h

theorem finishOut_VE (b : Backend) (o : Options) (p : Parsed1) : VE (finishOut rk b o p) := by
  intro k h
  unfold finishOut at h
  repeat' split at h
  all_goals first
    | (cases h; exact Or.inl rfl)
    | (rename_i heq; cases h; exact wrapTz_VE _ _ _ _ k heq)
    | (exact Or.inl (assemble_PE _ _ _ k h))
    | cases h

/-- the assumption on dateutil: it fails with `ValueError` kinds or with a subclass of `ArithmeticError`
    (`OverflowError`, `decimal.InvalidOperation`; both observed), which the repaired code catches as well -/
def DuOk (du : Dateutil) : Prop :=
  ∀ df yf cs k, du df yf cs = .error k → k = .parserError ∨ k = .valueError ∨ ∃ n, k = .other n ∧ isArithmetic n = true

theorem dateutilStep_PE (du : Dateutil) (hdu : DuOk du) (o : Options) (cs : List Char) (k : Kind)
    (h : dateutilStep du o cs = .error k) : k = .parserError := by
  unfold dateutilStep at h
  split at h
  · cases h
  · cases h; rfl
  · cases h; rfl
  · rename_i n heq
    rcases hdu _ _ _ _ heq with h1 | h1 | ⟨n', h1, h2⟩
    · cases h1
    · cases h1
    · injection h1 with h1
      subst h1
      rw [if_pos h2] at h
      cases h; rfl

theorem baseParse_VE (b : Backend) (o : Options) (du : Dateutil) (hdu : DuOk du) (cs : List Char) : VE (baseParse rk b o du cs) := by
  intro k h
  unfold baseParse at h
  split at h
  · cases h
  · rename_i n heq
    rcases isoAny_VE rk b cs _ heq with h1 | h1 <;> cases h1
  · split at h
    · cases h
    · rename_i n heq
      rcases parseIntervalRaw_VE rk b cs _ heq with h1 | h1 <;> cases h1
    · split at h
      · cases h
      · split at h
        · cases h; exact Or.inl rfl
        · exact Or.inl (dateutilStep_PE du hdu o cs k h)
      · rename_i e hne heq
        cases h
        exact commonParseDF_VE _ _ k heq

/-- **totality on the model**: whatever the string, the options and the (well-behaved) dateutil, `parse()` returns one of
    the five kinds of value or raises a `ValueError` kind -/
theorem parseAll_VE (b : Backend) (o : Options) (du : Dateutil) (hdu : DuOk du) (cs : List Char) : VE (parseAllG rk b o du cs) := by
  intro k h
  unfold parseAllG at h
  split at h
  · cases h
  · split at h
    · rename_i heq; cases h; exact baseParse_VE rk b o du hdu cs k heq
    · exact finishOut_VE rk _ _ _ k h

/-! ### the strict gate -/

/-- with `strict=True` dateutil is never consulted: the result does not depend on it -/
theorem baseParse_strict (b : Backend) (o : Options) (hs : o.strict = true) (du du' : Dateutil) (cs : List Char) :
    baseParse rk b o du cs = baseParse rk b o du' cs := by
  unfold baseParse
  simp only [hs, if_true]

theorem parseAll_strict (b : Backend) (o : Options) (hs : o.strict = true) (du du' : Dateutil) (cs : List Char) :
    parseAllG rk b o du cs = parseAllG rk b o du' cs := by
  unfold parseAllG
  rw [baseParse_strict rk b o hs du du' cs]

/-- accepted by one of the three documented parsers -/
def Documented (b : Backend) (o : Options) (cs : List Char) : Prop :=
  (∃ r, isoAny rk b cs = .ok r) ∨ (∃ r, parseIntervalRaw rk b cs = .ok r) ∨ (∃ v, commonParseDF o.dayFirst cs = .ok v)

theorem baseParse_strict_documented (b : Backend) (o : Options) (hs : o.strict = true) (du : Dateutil) (cs : List Char)
    (p : Parsed1) (h : baseParse rk b o du cs = .ok p) : Documented rk b o cs := by
  unfold baseParse at h
  split at h
  · rename_i r heq; exact Or.inl ⟨r, heq⟩
  · cases h
  · split at h
    · rename_i r heq; exact Or.inr (Or.inl ⟨r, heq⟩)
    · cases h
    · split at h
      · rename_i v heq; exact Or.inr (Or.inr ⟨v, heq⟩)
      · rw [if_pos hs] at h; cases h
      · cases h

end Pendulum.ParseAll
