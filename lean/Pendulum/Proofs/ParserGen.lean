import Pendulum.Model.ParseAll
import Pendulum.Proofs.ParseAllTop
import Pendulum.Proofs.GenTie
import Pendulum.Gen.Parser
/-! Tie between the *generated* translation of the Python front end of `pendulum.parse()` (`Pendulum.Gen.Parser`, regenerated
from `parser.py` and `parsing/__init__.py` on every run by tools/gen_parser.py) and the hand model `Model/ParseAll.lean` the
C17 theorems are stated about.

Interface between the two vocabularies (hand-written, small):
* `kx` / `liftE`: the model's exception kinds and results as the generated code's `Exc` / `Except Exc`;
* `objOf`: a model `Value` as the flat Python object `Obj`; `durObj`: the object `parse_iso8601` returns for the duration
  components `p` (hypothesis `DurObjOk`: its class, years, months, and that its remaining components add up to the rest);
* `PV`: the pendulum values the generated code handles (a DateTime with its wall clock / awareness / source value, a Date,
  a finished result), `PV.toOut`: such a value as a result of `parse()`;
* `extRef`: what the hand model says about every external callee (`Ext`) — the hypothesis `ExtOk` of the tie theorems is
  `ext = extRef …` field by field; `CommonOk`: what it says about `COMMON.match`.
Everything is proved over a generic range predicate `rk` (see Model/ParseAll.lean) and instantiated with `durOk` by
application in Props/C17.lean. -/
set_option linter.unusedSimpArgs false
set_option linter.unusedVariables false
namespace Pendulum.ParserGen
open Pendulum Pendulum.Iso Pendulum.ParseAll
open Pendulum.Gen.Parser (Exc ExcClass PKind Obj IntervalObj Parsed PyClass TzVal NowV Dict Groups Ext Kw8 bindE tryExcept)
open Pendulum.GenTie

/-- run the tactics without error recovery and cut the error message short: the check keeps only the tail of the build log,
    and the name of the broken tie theorem (logged by `gen_tie` right after) must stay in it -/
elab "short_err " t:tacticSeq : tactic => do
  try
    Lean.Elab.Tactic.withoutRecover (Lean.Elab.Tactic.evalTactic t)
  catch e =>
    if e.isRuntime || !(e matches .error ..) then throw e
    let msg ← e.toMessageData.toString
    let msg := if msg.length > 600 then (msg.take 600).toString ++ " …" else msg
    throwError "{msg}"

/-- `ptie "theorem" "source" => tacs` = `gen_tie` (Proofs/GenTie.lean) around `short_err tacs` -/
macro "ptie " n:str src:str " => " t:tacticSeq : tactic => `(tactic| gen_tie $n $src => short_err $t)

/-! ## vocabulary -/

def kx : Kind → Exc
  | .parserError => .ParserError
  | .valueError => .ValueError
  | .other n => .other n

def liftE {α β : Type} (f : α → β) : Except Kind α → Except Exc β
  | .ok v => .ok (f v)
  | .error k => .error (kx k)

def pkind : VKind → PKind
  | .date => .date
  | .time => .time
  | .datetime => .datetime

def objOf (v : Value) : Obj :=
  { kind := pkind v.kind, year := v.y, month := v.m, day := v.d, hour := v.h, minute := v.mi, second := v.s,
    microsecond := v.us, tzinfo := v.off }

/-- the date/time value a Python object denotes (duration objects: a time, never used) -/
def valOf (o : Obj) : Value :=
  ⟨match o.kind with | .datetime => .datetime | .date => .date | _ => .time,
    o.year, o.month, o.day, o.hour, o.minute, o.second, o.microsecond, o.tzinfo⟩

theorem valOf_objOf (v : Value) : valOf (objOf v) = v := by
  obtain ⟨k, _⟩ := v
  cases k <;> rfl

def tzOf : TzVal → TzOpt
  | .UTC => .default
  | .None => .naive
  | .fixed o => .fixed o
  | .shared o => .shared o

def nowOf (n : NowV) : Int × Int × Int := (n.year, n.month, n.day)

/-- the model options a user dictionary `u` stands for (`today` = the date of `datetime.now()`) -/
def optsOf (u : Dict) (today : NowV) : Options :=
  { exact := u.exact.getD false, strict := u.strict.getD true, dayFirst := u.day_first.getD false,
    yearFirst := u.year_first.getD true,
    tz := match u.tz with | some t => tzOf t | none => .default,
    now := match u.now with | some (some n) => nowOf n | _ => nowOf today }

/-- a value built by one of the three CPython constructors (fields in range, unused fields 0) -/
def WF (v : Value) : Prop :=
  mkDate v.y v.m v.d = .ok v ∨ mkTime v.h v.mi v.s v.us v.off = .ok v ∨ mkDateTime v.y v.m v.d v.h v.mi v.s v.us v.off = .ok v

theorem WF_mkDate {y m d : Int} {v : Value} (h : mkDate y m d = .ok v) : WF v := by
  left
  unfold mkDate at h ⊢
  split at h
  · rename_i hh; cases h; exact if_pos hh
  · cases h

theorem WF_mkTime {a b c d : Int} {o : Option Int} {v : Value} (h : mkTime a b c d o = .ok v) : WF v := by
  right; left
  unfold mkTime at h ⊢
  split at h
  · rename_i hh; cases h; exact if_pos hh
  · cases h

theorem WF_mkDateTime {y m d a b c e : Int} {o : Option Int} {v : Value} (h : mkDateTime y m d a b c e o = .ok v) : WF v := by
  right; right
  unfold mkDateTime at h ⊢
  split at h
  · rename_i hh; cases h; exact if_pos hh
  · cases h

/-! ## the exception monad of the generated code -/

@[simp] theorem bindE_ok {α β : Type} (v : α) (f : α → Except Exc β) : bindE (.ok v) f = f v := rfl
@[simp] theorem bindE_error {α β : Type} (e : Exc) (f : α → Except Exc β) : bindE (.error e : Except Exc α) f = .error e := rfl

theorem bindE_liftE {α β γ : Type} (f : α → β) (x : Except Kind α) (g : β → Except Exc γ) :
    bindE (liftE f x) g = (match x with | .ok v => g (f v) | .error k => .error (kx k)) := by
  cases x <;> rfl

theorem bindE_ok_eta {α : Type} (x : Except Exc α) : bindE x (fun v => .ok v) = x := by
  cases x <;> rfl

/-- `suppress(ValueError)` / `except ValueError` catches the two `ValueError` kinds and nothing else -/
theorem isa_ValueError (arith : String → Bool) (k : Kind) :
    (kx k).isa arith .ValueError = (match k with | .other _ => false | _ => true) := by
  cases k <;> rfl

theorem isa_ParserError (arith : String → Bool) (k : Kind) :
    (kx k).isa arith .ParserError = (match k with | .parserError => true | _ => false) := by
  cases k <;> rfl

/-! ## `int()`, padding, `split` -/

def digitsVal (ds : List Nat) : Nat := ds.foldl (fun a d => 10 * a + d) 0

theorem py_int_cons (d : Nat) (ds : List Nat) : Gen.Parser.py_int (some (d :: ds)) = .ok (Int.ofNat (digitsVal (d :: ds))) := rfl

/-- `int(f"{s[:6]:0<6}")` is the model's `microAcc 6 0` (first six digits, right-padded with zeros) -/
theorem ljust_micro (ds : List Nat) :
    Gen.Parser.py_int (some (Gen.Parser.py_ljust (ds.take 6) 6 0)) = .ok (Int.ofNat (microAcc 6 0 ds)) := by
  rcases ds with _ | ⟨a, _ | ⟨b, _ | ⟨c, _ | ⟨d, _ | ⟨e, _ | ⟨f, r⟩⟩⟩⟩⟩⟩ <;>
    simp [Gen.Parser.py_ljust, Gen.Parser.py_int, microAcc, List.replicate, List.take]
  all_goals omega

theorem split_noslash (cs : List Char) (h : cs.contains '/' = false) : Gen.Parser.py_split '/' cs = [cs] := by
  induction cs with
  | nil => rfl
  | cons c cs ih =>
    simp only [List.contains_cons, Bool.or_eq_false_iff, beq_eq_false_iff_ne, ne_eq] at h
    have hc : ¬ c = '/' := fun e => h.1 e.symm
    simp only [Gen.Parser.py_split, hc, if_false, ih h.2]

theorem split_ne_nil (cs : List Char) : Gen.Parser.py_split '/' cs ≠ [] := by
  cases cs with
  | nil => simp [Gen.Parser.py_split]
  | cons c cs =>
    simp only [Gen.Parser.py_split]
    split
    · simp
    · split <;> simp

theorem split_len (cs : List Char) (h : cs.contains '/' = true) : 2 ≤ (Gen.Parser.py_split '/' cs).length := by
  induction cs with
  | nil => simp at h
  | cons c cs ih =>
    simp only [Gen.Parser.py_split]
    by_cases hc : c = '/'
    · simp only [hc, if_true, List.length_cons]
      have := split_ne_nil cs
      cases hs : Gen.Parser.py_split '/' cs with
      | nil => exact absurd hs this
      | cons _ _ => simp
    · simp only [hc, if_false]
      have h2 : cs.contains '/' = true := by
        simp only [List.contains_cons, Bool.or_eq_true, beq_iff_eq] at h
        rcases h with h | h
        · exact absurd h.symm hc
        · exact h
      have := ih h2
      cases hs : Gen.Parser.py_split '/' cs with
      | nil => rw [hs] at this; simp at this
      | cons p ps => rw [hs] at this; simpa using this

/-- `first, last = text.split("/")` succeeds exactly when the model's `splitSlash` does, with the same halves -/
theorem split_two (cs : List Char) :
    (match Gen.Parser.py_split '/' cs with | [a, b] => some (a, b) | _ => none) = IsoDur.splitSlash cs := by
  induction cs with
  | nil => rfl
  | cons c cs ih =>
    simp only [Gen.Parser.py_split, IsoDur.splitSlash]
    by_cases hc : c = '/'
    · simp only [hc, if_true]
      cases hs : cs.contains '/' with
      | false => simp only [split_noslash cs hs, Bool.false_eq_true, if_false]
      | true =>
        have := split_len cs hs
        simp only [if_true]
        rcases hq : Gen.Parser.py_split '/' cs with _ | ⟨p, _ | ⟨q, r⟩⟩
        · simp [hq] at this
        · simp [hq] at this
        · rfl
    · simp only [hc, if_false]
      rw [← ih]
      rcases hq : Gen.Parser.py_split '/' cs with _ | ⟨p, _ | ⟨q, _ | ⟨r, t⟩⟩⟩ <;> simp

theorem take1_P (l : List Char) : (List.take 1 l == ['P']) = decide (l.head? = some 'P') := by
  rcases l with _ | ⟨c, r⟩
  · rfl
  · simp [List.take]
    rfl

/-! ## `COMMON.match` and `_parse_common`

The hand model `commonParseDF` recognises and converts in one pass. `cmMatchRef` is its recogniser alone (what matched:
year, month/day, the time groups — as numbers, the fraction as its digits), `cmBuildM` the conversion; the hypothesis on the
parameter `COMMON.match` (`CommonOk`) is stated against `cmMatchRef`, the tie covers the conversion. -/

structure CmM where
  date : Option (Nat × Option (Nat × Nat))
  time : Option (Nat × Option Nat × Option Nat × Option (List Nat))

def cmTryM (dt : Option (Nat × Option (Nat × Nat))) (rest : List Char) : Option CmM :=
  match rest with
  | [] => some ⟨dt, none⟩
  | _ =>
    match cmTimeMatch rest with
    | some t => some ⟨dt, some t⟩
    | none => none

def cmMatchRef (cs0 : List Char) : Option CmM :=
  let cs := stripNl cs0
  let withDate : Option CmM :=
    match exactN .py 4 0 cs with
    | none => none
    | some (y, r) =>
      (match exactN .py 2 0 (optSep r) with
        | none => none
        | some (mo, r2) =>
          match exactN .py 2 0 (optSep r2) with
          | none => none
          | some (d, r4) => cmTryM (some (y, some (mo, d))) r4)
      <|> cmTryM (some (y, none)) r
  withDate <|> cmTryM none cs

def cmDate (df : Bool) : Option (Nat × Option (Nat × Nat)) → Option (Int × Int × Int)
  | none => none
  | some (y, none) => some (y, 1, 1)
  | some (y, some (mo, d)) => some (if df then (y, d, mo) else (y, mo, d))

def cmBuildM (df : Bool) (m : CmM) : R := cmBuild (cmDate df m.date) m.time

theorem cmTry_eq (df : Bool) (dt : Option (Nat × Option (Nat × Nat))) (rest : List Char) :
    cmTry (cmDate df dt) rest = (cmTryM dt rest).map (cmBuildM df) := by
  cases rest with
  | nil => rfl
  | cons c r =>
    simp only [cmTry, cmTryM]
    cases cmTimeMatch (c :: r) <;> rfl

theorem map_orElse' {α β : Type} (f : α → β) (a b : Option α) : (a <|> b).map f = (a.map f <|> b.map f) := by
  cases a <;> rfl

/-- the hand model of `_parse_common` = recognise (`cmMatchRef`), then convert (`cmBuildM`) -/
theorem commonParseDF_eq (df : Bool) (cs : List Char) :
    commonParseDF df cs = (match cmMatchRef cs with | some m => cmBuildM df m | none => .error .parserError) := by
  have e0 := cmTry_eq df none (stripNl cs)
  have key : ∀ (a : Option R) (a' : Option CmM), a = a'.map (cmBuildM df) →
      (match a <|> cmTry none (stripNl cs) with | some r => r | none => .error .parserError) =
      (match a' <|> cmTryM none (stripNl cs) with | some m => cmBuildM df m | none => (.error .parserError : R)) := by
    intro a a' h
    subst h
    change (match _ <|> cmTry (cmDate df none) (stripNl cs) with | some r => r | none => _) = _
    rw [e0, ← map_orElse']
    cases (a' <|> cmTryM none (stripNl cs)) <;> rfl
  unfold commonParseDF cmMatchRef
  simp only
  apply key
  cases h4 : exactN .py 4 0 (stripNl cs) with
  | none => rfl
  | some yr =>
    obtain ⟨y, r⟩ := yr
    simp only
    have e1 := cmTry_eq df (some (y, none)) r
    change cmTry (some ((y : Int), 1, 1)) r = _ at e1
    rw [map_orElse', ← e1]
    congr 1
    cases h2 : exactN .py 2 0 (optSep r) with
    | none => rfl
    | some mr =>
      obtain ⟨mo, r2⟩ := mr
      simp only
      cases h3 : exactN .py 2 0 (optSep r2) with
      | none => rfl
      | some dr =>
        obtain ⟨d, r4⟩ := dr
        simp only
        exact cmTry_eq df (some (y, some (mo, d))) r4

/-- the named groups `g` of a match denote what the model's recogniser found: which groups took part (truth values), the
    `int()` of every number group, the digits of the fraction -/
def Denotes (g : Groups) (m : CmM) : Prop :=
  Gen.Parser.Grp.truthy g.date = m.date.isSome ∧
  (∀ y md, m.date = some (y, md) → Gen.Parser.py_int g.year = .ok (y : Int) ∧ Gen.Parser.Grp.truthy g.monthday = md.isSome ∧
      ∀ mo d, md = some (mo, d) → Gen.Parser.py_int g.month = .ok (mo : Int) ∧ Gen.Parser.py_int g.day = .ok (d : Int)) ∧
  Gen.Parser.Grp.truthy g.time = m.time.isSome ∧
  (∀ h mi s fr, m.time = some (h, mi, s, fr) →
      Gen.Parser.py_int g.hour = .ok (h : Int) ∧
      Gen.Parser.py_int g.minute = (match mi with | some v => .ok (v : Int) | none => .error (.other "TypeError")) ∧
      Gen.Parser.Grp.truthy g.second = s.isSome ∧ (∀ v, s = some v → Gen.Parser.py_int g.second = .ok (v : Int)) ∧
      Gen.Parser.Grp.truthy g.subsecondsection = fr.isSome ∧ (∀ ds, fr = some ds → g.subsecond = some ds))

/-- hypothesis on the parameter `COMMON.match`: it matches exactly when the model's recogniser does, with groups that denote
    what the recogniser found -/
def CommonOk (cm : List Char → Option Groups) : Prop :=
  ∀ cs, match cmMatchRef cs with
    | none => cm cs = none
    | some m => ∃ g, cm cs = some g ∧ Denotes g m

/-- hypothesis on the stdlib constructors: range checks as in the model (`mkDate`, `mkTime`, `mkDateTime`), naive values -/
structure StdOk {V : Type} (ext : Ext V) : Prop where
  date : ∀ y m d, ext.std_date y m d = liftE objOf (mkDate y m d)
  time : ∀ h mi s us, ext.std_time h mi s us = liftE objOf (mkTime h mi s us none)
  datetime : ∀ y m d h mi s us, ext.std_datetime y m d h mi s us = liftE objOf (mkDateTime y m d h mi s us none)

theorem parse_common_eq {V : Type} (ext : Ext V) (hcm : CommonOk ext.COMMON_match) (hstd : StdOk ext)
    (cs : List Char) (o : Dict) (df : Bool) (hdf : o.day_first = some df) :
    Gen.Parser.parsing_p_parse_common ext cs o = liftE objOf (commonParseDF df cs) := by
  ptie "Pendulum.ParserGen.parse_common_eq" "parsing/__init__.py::_parse_common (Gen.Parser.parsing_p_parse_common)" =>
    rw [commonParseDF_eq]
    have hm := hcm cs
    cases hc : cmMatchRef cs with
    | none =>
      rw [hc] at hm
      simp only [Gen.Parser.parsing_p_parse_common, hm]
      rfl
    | some m =>
      rw [hc] at hm
      obtain ⟨g, hg, h1, h2, h3, h4⟩ := hm
      obtain ⟨dt, tm⟩ := m
      simp only at h1 h2 h3 h4
      simp only [Gen.Parser.parsing_p_parse_common, hg, cmBuildM, hstd.date, hstd.time, hstd.datetime, hdf,
        Gen.Parser.Dict.getitem, bindE_ok]
      rcases dt with _ | ⟨y, _ | ⟨mo, d⟩⟩ <;> rcases tm with _ | ⟨h, mi, s, fr⟩
      all_goals simp only [Option.isSome_none, Option.isSome_some] at h1 h3
      all_goals simp only [h1, h3, if_true, if_false, Bool.not_true, Bool.not_false, Bool.false_eq_true, cmDate, cmBuild]
      all_goals (try (obtain ⟨hy, hmd, hmod⟩ := h2 _ _ rfl))
      all_goals (try (obtain ⟨hmo, hd⟩ := hmod _ _ rfl))
      all_goals (try (obtain ⟨hh, hmi, hs, hsv, hf, hfd⟩ := h4 _ _ _ _ rfl))
      all_goals (try (rcases mi with _ | mi <;> rcases s with _ | s <;> rcases fr with _ | ds))
      all_goals (try simp only [Option.isSome_none, Option.isSome_some] at hmd)
      all_goals (try simp only [Option.isSome_none, Option.isSome_some] at hs hf)
      all_goals (try (have hsv' := hsv _ rfl))
      all_goals (try (have hfd' := hfd _ rfl))
      all_goals cases df
      all_goals simp only [*, bindE_ok, bindE_error, if_true, if_false, Bool.not_true, Bool.not_false, Bool.false_eq_true,
        Gen.Parser.py_slice_to, ljust_micro, Option.getD, liftE, kx, Int.ofNat_eq_natCast, Int.natCast_zero, Int.cast_ofNat_Int]

/-! ## `parse_iso8601` (parameter) and `_parse_iso8601_interval` -/

variable (rk : IsoDur.Parsed → Bool)

/-- hypothesis on the object `parse_iso8601` returns for the duration components `p`: its class (the compiled backend returns a
    `_pendulum.Duration`, the pure-Python one a `pendulum.Duration`), its years and months, and that the components read by
    `_interval` (`weeks`, `remaining_days`, `hours`, `minutes`, `remaining_seconds`, `microseconds`) add up to the rest;
    the compiled `Duration` exposes the raw components -/
structure DurObjOk (b : Backend) (durObj : IsoDur.Parsed → Obj) : Prop where
  kind : ∀ p, (durObj p).kind = (match b with | .rust => PKind.rustDuration | .py => PKind.duration)
  years : ∀ p, (durObj p).years = p.y
  months : ∀ p, (durObj p).months = p.mo
  rest : ∀ p, (durObj p).weeks * IsoDur.usW + (durObj p).remaining_days * IsoDur.usD + (durObj p).hours * IsoDur.usH +
      (durObj p).minutes * IsoDur.usMi + (durObj p).remaining_seconds * IsoDur.usS + (durObj p).microseconds = p.restUs
  raw : b = .rust → ∀ p, (durObj p).weeks = p.w ∧ (durObj p).days = p.d ∧ (durObj p).hours = p.h ∧
      (durObj p).minutes = p.mi ∧ (durObj p).seconds = p.s ∧ (durObj p).microseconds = p.us

/-- a `durObj` satisfying the hypothesis: the raw components, for either backend -/
def rawDurObj (b : Backend) (p : IsoDur.Parsed) : Obj :=
  { kind := (match b with | .rust => PKind.rustDuration | .py => PKind.duration),
    years := p.y, months := p.mo, weeks := p.w, days := p.d, hours := p.h, minutes := p.mi, seconds := p.s,
    microseconds := p.us, remaining_days := p.d, remaining_seconds := p.s }

theorem rawDurObj_ok (b : Backend) : DurObjOk b (rawDurObj b) :=
  ⟨fun _ => rfl, fun _ => rfl, fun _ => rfl, fun _ => rfl, fun _ _ => ⟨rfl, rfl, rfl, rfl, rfl, rfl⟩⟩

def isoObj (durObj : IsoDur.Parsed → Obj) : IsoRes → Obj
  | .val v => objOf v
  | .dur p => durObj p

/-- hypothesis on the parameter `parse_iso8601`: it is the model's `isoAny` -/
def IsoOk {V : Type} (b : Backend) (durObj : IsoDur.Parsed → Obj) (ext : Ext V) : Prop :=
  ∀ cs, ext.parse_iso8601 cs = liftE (isoObj durObj) (isoAny rk b cs)

def ivOf (durObj : IsoDur.Parsed → Obj) : IntervalRaw → IntervalObj
  | .durEnd p e => ⟨none, some (objOf e), some (durObj p)⟩
  | .startDur s p => ⟨some (objOf s), none, some (durObj p)⟩
  | .startEnd s e => ⟨some (objOf s), some (objOf e), none⟩

theorem isinstance_objOf_datetime (v : Value) : (objOf v).isinstance .datetime = decide (v.kind = .datetime) := by
  obtain ⟨k, _⟩ := v
  cases k <;> rfl

theorem isinstance_objOf_date (v : Value) : (objOf v).isinstance .date = isDateLike v := by
  obtain ⟨k, _⟩ := v
  cases k <;> rfl

theorem isinstance_objOf_time (v : Value) : (objOf v).isinstance .time = decide (v.kind = .time) := by
  obtain ⟨k, _⟩ := v
  cases k <;> rfl

theorem isinstance_durObj {b : Backend} {durObj : IsoDur.Parsed → Obj} (hd : DurObjOk b durObj) (p : IsoDur.Parsed) :
    (durObj p).isinstance .datetime = false ∧ (durObj p).isinstance .date = false ∧ (durObj p).isinstance .time = false ∧
    (durObj p).isinstance .Duration = decide (b = .py) ∧ (durObj p).isinstance .RustDuration = decide (b = .rust) := by
  have := hd.kind p
  cases b <;> simp only at this <;> simp [Obj.isinstance, this]

theorem parse_interval_eq {V : Type} (b : Backend) (durObj : IsoDur.Parsed → Obj) (hd : DurObjOk b durObj) (ext : Ext V)
    (hiso : IsoOk rk b durObj ext) (cs : List Char) :
    Gen.Parser.parsing_p_parse_iso8601_interval ext cs = liftE (ivOf durObj) (parseIntervalRaw rk b cs) := by
  ptie "Pendulum.ParserGen.parse_interval_eq" "parsing/__init__.py::_parse_iso8601_interval (Gen.Parser.parsing_p_parse_iso8601_interval)" =>
    unfold Gen.Parser.parsing_p_parse_iso8601_interval parseIntervalRaw intervalHalves
    cases hs : cs.contains '/' with
    | false => simp only [hs, Bool.not_false, if_true, Bool.false_eq_true, if_false]; rfl
    | true =>
      simp only [hs, Bool.not_true, Bool.false_eq_true, if_false, if_true]
      have h2 := split_two cs
      cases hsp : IsoDur.splitSlash cs with
      | none =>
        rw [hsp] at h2
        simp only
        split
        · rename_i a c heq; rw [heq] at h2; cases h2
        · rfl
      | some pr =>
        obtain ⟨first, last⟩ := pr
        rw [hsp] at h2
        simp only
        split
        · rename_i a c heq
          rw [heq] at h2
          cases h2
          simp only [take1_P, hiso first, hiso last, decide_eq_true_eq]
          by_cases hf : first.head? = some 'P'
          · simp only [hf, if_true]
            cases h1 : isoAny rk b first with
            | error k => rfl
            | ok d =>
              obtain ⟨p, rfl⟩ := isoAny_P rk b first hf d h1
              cases h3 : isoAny rk b last with
              | error k => rfl
              | ok e =>
                cases e with
                | dur q => simp [liftE, kx, isoObj, Gen.Parser.OptObj.isinstance, (isinstance_durObj hd q).1]
                | val ve =>
                  simp only [liftE, isoObj, bindE_ok, Gen.Parser.OptObj.isinstance, isinstance_objOf_datetime, Bool.not_false,
                    if_true]
                  by_cases hk : ve.kind = .datetime <;> simp [hk, ivOf, liftE, kx]
          · simp only [hf, if_false]
            by_cases hl : last.head? = some 'P'
            · simp only [hl, if_true]
              cases h1 : isoAny rk b first with
              | error k => rfl
              | ok s' =>
                cases h3 : isoAny rk b last with
                | error k => cases s' <;> rfl
                | ok d =>
                  obtain ⟨p, rfl⟩ := isoAny_P rk b last hl d h3
                  cases s' with
                  | dur q => simp [liftE, kx, isoObj, Gen.Parser.OptObj.isinstance, (isinstance_durObj hd q).1]
                  | val vs =>
                    simp only [liftE, isoObj, bindE_ok, Gen.Parser.OptObj.isinstance, isinstance_objOf_datetime, Bool.not_false,
                      if_true]
                    by_cases hk : vs.kind = .datetime <;> simp [hk, ivOf, liftE, kx]
            · simp only [hl, if_false]
              cases h1 : isoAny rk b first with
              | error k => rfl
              | ok s' =>
                cases h3 : isoAny rk b last with
                | error k => cases s' <;> rfl
                | ok e =>
                  cases s' <;> cases e <;>
                    simp [liftE, kx, isoObj, bindE_ok, isinstance_objOf_date, (isinstance_durObj hd _).2.1, ivOf]
                  rename_i vs ve
                  cases isDateLike vs <;> cases isDateLike ve <;> simp [liftE, kx, ivOf]
        · rename_i hne
          rcases hq : Gen.Parser.py_split '/' cs with _ | ⟨a, _ | ⟨c, _ | ⟨e, t⟩⟩⟩ <;> rw [hq] at h2 <;> simp at h2
          exact absurd hq (hne _ _)

/-! ## `parsing._parse`: the chain ISO 8601 → interval → COMMON → strict gate → dateutil -/

def parsedOf (durObj : IsoDur.Parsed → Obj) : Parsed1 → Parsed
  | .iso r => .obj (isoObj durObj r)
  | .interval r => .interval (ivOf durObj r)

/-- hypothesis on the parameter `dateutil.parser.parse`: it is the model's parameter `du` -/
def DuExtOk {V : Type} (du : Dateutil) (ext : Ext V) : Prop :=
  ∀ cs df yf, ext.dateutil_parse cs df yf = liftE objOf (du df yf cs)

theorem tryExcept_ok {α : Type} (arith : String → Bool) (v : α) (cl : List ExcClass) (h : Except Exc α) :
    tryExcept arith (.ok v) cl h = .ok v := rfl

theorem tryExcept_error {α : Type} (arith : String → Bool) (e : Exc) (cl : List ExcClass) (h : Except Exc α) :
    tryExcept arith (.error e) cl h = if cl.any (e.isa arith) then h else .error e := rfl

theorem parse_chain_eq {V : Type} (b : Backend) (durObj : IsoDur.Parsed → Obj) (hd : DurObjOk b durObj) (du : Dateutil)
    (ext : Ext V) (hiso : IsoOk rk b durObj ext) (hcm : CommonOk ext.COMMON_match) (hstd : StdOk ext) (hdu : DuExtOk du ext)
    (harith : ext.issubclass_ArithmeticError = isArithmetic)
    (cs : List Char) (d : Dict) (o : Options) (h1 : d.strict = some o.strict) (h2 : d.day_first = some o.dayFirst)
    (h3 : d.year_first = some o.yearFirst) :
    Gen.Parser.parsing_p_parse ext cs d = liftE (parsedOf durObj) (baseParse rk b o du cs) := by
  ptie "Pendulum.ParserGen.parse_chain_eq" "parsing/__init__.py::_parse (Gen.Parser.parsing_p_parse)" =>
    unfold Gen.Parser.parsing_p_parse baseParse
    rw [hiso cs, parse_interval_eq rk b durObj hd ext hiso cs, parse_common_eq ext hcm hstd cs d o.dayFirst h2, harith]
    simp only [h1, h2, h3, Gen.Parser.Dict.getitem, bindE_ok, Option.getD_some, hdu cs o.dayFirst o.yearFirst, dateutilStep]
    cases isoAny rk b cs with
    | ok r => rfl
    | error k =>
      cases k <;> try rfl
      all_goals
        cases parseIntervalRaw rk b cs with
        | ok r => rfl
        | error k2 =>
          cases k2 <;> try rfl
          all_goals
            cases commonParseDF o.dayFirst cs with
            | ok v => rfl
            | error k3 =>
              cases k3 <;> try rfl
              all_goals
                cases o.strict <;> try rfl
                all_goals
                  cases du o.dayFirst o.yearFirst cs with
                  | ok v => rfl
                  | error k4 =>
                    cases k4 <;> try rfl
                    all_goals
                      rename_i n
                      simp only [liftE, kx, bindE_error, tryExcept_error, tryExcept_ok, bindE_ok, List.any, Gen.Parser.Exc.isa,
                        Bool.false_or, Bool.or_false, Bool.false_eq_true, if_false, if_true, Bool.true_or]
                      cases isArithmetic n <;> rfl

/-! ## pendulum values and constructors (parameters) -/

/-- the pendulum values the generated code handles: a DateTime (`t` = wall clock and offset, `aware`, the parsed value `src`
    it was made from and the `tz` it was made with — what the model's `needUtc` looks at), a Date, or a finished result -/
inductive PV
  | dt (t : IsoInterval.DT) (aware : Bool) (src : Value) (tz : TzOpt)
  | date (v : Value)
  | out (o : Out)

/-- such a value as a result of `parse()` -/
def PV.toOut : PV → Out
  | .dt t aw _ _ => .dateTime (ofDTa aw t)
  | .date v => .date v
  | .out o => o

def mapE {α β : Type} (f : α → β) : Except Exc α → Except Exc β
  | .ok v => .ok (f v)
  | .error e => .error e

def kwRest (kw : Kw8) : Nat :=
  kw.weeks * IsoDur.usW + kw.days * IsoDur.usD + kw.hours * IsoDur.usH + kw.minutes * IsoDur.usMi + kw.seconds * IsoDur.usS +
    kw.microseconds

/-- `pendulum.instance(obj, tz=tz)`: a datetime → the model's `instanceDT` (`tz = dt.tzinfo or tz`); a date → a Date -/
def instRef (v : Value) (tz : TzOpt) : Except Exc PV :=
  match v.kind with
  | .datetime => liftE (fun t => PV.dt t (isAware tz v) v tz) (instanceDT tz v)
  | .date => .ok (.date v)
  | .time => .ok (.out (.time v))

/-- `DateTime.add(**kw)` / `subtract(**kw)`: the model's `IsoInterval.add` / `sub` of (years, months, the rest in µs); an
    aware DateTime goes through UTC (`utcOk`); everything that fails is an OverflowError -/
def shiftRef (f : IsoInterval.DT → IsoDur.Dur → Except IsoDur.Kind IsoInterval.DT) (v : PV) (kw : Kw8) : Except Exc PV :=
  match v with
  | .dt t aw s tz =>
    match f t ⟨kw.years, kw.months, kwRest kw⟩ with
    | .error _ => .error (.other "OverflowError")
    | .ok t2 => if !aw || (utcOk t && utcOk t2) then .ok (.dt t2 aw s tz) else .error (.other "OverflowError")
  | _ => .error (.other "AttributeError")

/-- `pendulum.interval(start, end)` (`Interval.__new__`): two Dates; two DateTimes (naive with aware: TypeError; the UTC
    instants must be representable where the model's `needUtc` says they are computed); anything else: ValueError -/
def intervalRef (b : Backend) (a c : PV) : Except Exc PV :=
  match a, c with
  | .date s, .date e => .ok (.out (.interval s e))
  | .dt ts as s tz, .dt te ae e _ =>
    if as != ae then .error (.other "TypeError")
    else if as && needUtc b tz s e ts te && !(utcOk ts && utcOk te) then .error (.other "OverflowError")
    else .ok (.out (.interval (ofDTa as ts) (ofDTa ae te)))
  | _, _ => .error .ValueError

/-- hypothesis on the pendulum constructors and methods the front end calls: what the hand model says about them -/
structure PendOk (b : Backend) (ext : Ext PV) : Prop where
  now : ext.pendulum_now = .ok (.out .now)
  inst : ∀ o tz, ext.pendulum_instance (some o) tz = instRef (valOf o) (tzOf (tz.getD .UTC))
  datetime : ∀ y m d h mi s us tz,
    ext.pendulum_datetime y m d h mi s us tz = .ok (.out (.dateTime ⟨.datetime, y, m, d, h, mi, s, us, (tzOf tz).fill⟩))
  date : ∀ y m d, ext.pendulum_date y m d = .ok (.out (.date ⟨.date, y, m, d, 0, 0, 0, 0, none⟩))
  time : ∀ h mi s us, ext.pendulum_time h mi s us = .ok (.out (.time ⟨.time, 0, 0, 0, h, mi, s, us, none⟩))
  duration : ∀ kw, ext.pendulum_duration kw =
    if rk ⟨kw.years, kw.months, kw.weeks, kw.days, kw.hours, kw.minutes, kw.seconds, kw.microseconds⟩
    then .ok (.out (.duration ⟨kw.years, kw.months, kwRest kw⟩)) else .error (.other "OverflowError")
  interval : ∀ a c, ext.pendulum_interval a c = intervalRef b a c
  add : ∀ v kw, ext.dt_add v kw = shiftRef IsoInterval.add v kw
  subtract : ∀ v kw, ext.dt_subtract v kw = shiftRef IsoInterval.sub v kw
  is_datetime : ∀ v, ext.v_is_datetime v = (match v with | .dt .. => true | _ => false)
  tz_none : ∀ t aw s tz, ext.v_tzinfo_is_none (.dt t aw s tz) = !aw
  ret_duration : ∀ o, ext.ret_duration o = .out (.duration ⟨o.years, o.months,
    o.weeks * IsoDur.usW + o.remaining_days * IsoDur.usD + o.hours * IsoDur.usH + o.minutes * IsoDur.usMi +
      o.remaining_seconds * IsoDur.usS + o.microseconds⟩)
  rust : b = .rust → ext.RustDuration_available = true

/-! ## `parser._interval`: the three shapes -/

theorem instanceDT_err (tz : TzOpt) (v : Value) (k : Kind) (h : instanceDT tz v = .error k) : k = .valueError := by
  unfold instanceDT at h
  split at h
  · split at h <;> cases h
    rfl
  · cases h

/-- what `_parse_iso8601_interval` guarantees about the element a duration is applied to -/
def RawOk : IntervalRaw → Prop
  | .startDur s _ => s.kind = .datetime
  | .durEnd _ e => e.kind = .datetime
  | .startEnd _ _ => True

theorem interval_eq (b : Backend) (durObj : IsoDur.Parsed → Obj) (hd : DurObjOk b durObj) (ext : Ext PV)
    (hp : PendOk rk b ext) (tz : TzVal) (r : IntervalRaw) (hr : RawOk r) :
    mapE PV.toOut (Gen.Parser.parser_p_interval ext (ivOf durObj r) tz) = liftE id (assembleRaw b (tzOf tz) r) := by
  ptie "Pendulum.ParserGen.interval_eq" "parser.py::_interval (Gen.Parser.parser_p_interval)" =>
    cases r with
    | startDur s p =>
      simp only [RawOk] at hr
      simp only [Gen.Parser.parser_p_interval, ivOf, hp.inst, hp.add, hp.interval, valOf_objOf, Option.getD_some, instRef, hr,
        assembleRaw, hd.years, hd.months]
      have hrest : kwRest (Kw8.mk p.y p.mo (durObj p).weeks (durObj p).remaining_days (durObj p).hours (durObj p).minutes
          (durObj p).remaining_seconds (durObj p).microseconds) = p.restUs := hd.rest p
      cases hi : instanceDT (tzOf tz) s with
      | error k => rfl
      | ok t =>
        simp only [liftE, bindE_ok, shiftRef, hrest, durOf]
        cases ha : IsoInterval.add t ⟨p.y, p.mo, p.restUs⟩ with
        | error k => rfl
        | ok t2 =>
          simp only [bindE_ok]
          cases hc : (!isAware (tzOf tz) s || (utcOk t && utcOk t2)) with
          | false => rfl
          | true =>
            simp only [if_true, bindE_ok, intervalRef, bne_self_eq_false, Bool.false_eq_true, if_false]
            cases haw : isAware (tzOf tz) s with
            | false => rfl
            | true =>
              rw [haw] at hc
              simp only [Bool.not_true, Bool.false_or] at hc
              simp only [hc, Bool.not_true, Bool.and_false, Bool.false_eq_true, if_false]
              rfl
    | durEnd p e =>
      simp only [RawOk] at hr
      simp only [Gen.Parser.parser_p_interval, ivOf, hp.inst, hp.subtract, hp.interval, valOf_objOf, Option.getD_some, instRef, hr,
        assembleRaw, hd.years, hd.months]
      have hrest : kwRest (Kw8.mk p.y p.mo (durObj p).weeks (durObj p).remaining_days (durObj p).hours (durObj p).minutes
          (durObj p).remaining_seconds (durObj p).microseconds) = p.restUs := hd.rest p
      cases hi : instanceDT (tzOf tz) e with
      | error k => rfl
      | ok t =>
        simp only [liftE, bindE_ok, shiftRef, hrest, durOf]
        cases ha : IsoInterval.sub t ⟨p.y, p.mo, p.restUs⟩ with
        | error k => rfl
        | ok t2 =>
          simp only [bindE_ok]
          cases hc : (!isAware (tzOf tz) e || (utcOk t && utcOk t2)) with
          | false => rfl
          | true =>
            simp only [if_true, bindE_ok, intervalRef, bne_self_eq_false, Bool.false_eq_true, if_false]
            cases haw : isAware (tzOf tz) e with
            | false => rfl
            | true =>
              rw [haw] at hc
              simp only [Bool.not_true, Bool.false_or, Bool.and_eq_true] at hc
              simp only [hc.1, hc.2, Bool.and_self, Bool.not_true, Bool.and_false, Bool.false_eq_true, if_false]
              rfl
    | startEnd s e =>
      simp only [Gen.Parser.parser_p_interval, ivOf, hp.inst, hp.interval, valOf_objOf, Option.getD_some, instRef, assembleRaw]
      cases hks : s.kind <;> cases hke : e.kind <;> simp only [bindE_ok, hp.is_datetime, Bool.false_and, Bool.and_false,
        Bool.false_eq_true, if_false, intervalRef, reduceCtorEq, and_self, and_false, false_and, if_true, liftE, kx, id, mapE,
        PV.toOut, true_and, bindE_liftE]
      all_goals first
        | rfl
        | (cases hi : instanceDT (tzOf tz) e with
            | error k => have := instanceDT_err _ _ _ hi; subst this; rfl
            | ok t => rfl)
        | (cases hi : instanceDT (tzOf tz) s with
            | error k => have := instanceDT_err _ _ _ hi; subst this; rfl
            | ok t => rfl)
        | (cases hs' : instanceDT (tzOf tz) s with
            | error k => rfl
            | ok ts =>
              simp only
              cases he' : instanceDT (tzOf tz) e with
              | error k => rfl
              | ok te =>
                cases isAware (tzOf tz) s <;> cases isAware (tzOf tz) e <;>
                  simp [intervalRef, mapE, PV.toOut, kx, hp.tz_none]
                all_goals
                  by_cases hcond : needUtc b (tzOf tz) s e ts te = true ∧ (utcOk ts = false ∨ utcOk te = false)
                  · simp only [if_pos hcond]
                  · simp only [if_neg hcond])

/-! ## `_normalize` and the type dispatch of `parser._parse`

The hand model has both in one function (`wrapTz`); `normalizeM` / `dispatchM` are its two halves (`wrapTz_split`). -/

def normalizeM (exact : Bool) (now : Int × Int × Int) (v : Value) : Value :=
  if exact then v else
  match v.kind with
  | .time => ⟨.datetime, now.1, now.2.1, now.2.2, v.h, v.mi, v.s, v.us, none⟩
  | .date => ⟨.datetime, v.y, v.m, v.d, 0, 0, 0, 0, none⟩
  | .datetime => v

def dispatchM (tz : TzOpt) (v : Value) : R :=
  match v.kind with
  | .datetime =>
    match v.off with
    | some o => if -86400 < o ∧ o < 86400 then .ok v else .error .valueError
    | none => .ok ⟨.datetime, v.y, v.m, v.d, v.h, v.mi, v.s, v.us, tz.fill⟩
  | .date => .ok ⟨.date, v.y, v.m, v.d, 0, 0, 0, 0, none⟩
  | .time => .ok ⟨.time, 0, 0, 0, v.h, v.mi, v.s, v.us, none⟩

theorem WF_date (v : Value) (h : WF v) (hk : v.kind = .date) :
    dateOk v.y v.m v.d ∧ v.h = 0 ∧ v.mi = 0 ∧ v.s = 0 ∧ v.us = 0 ∧ v.off = none := by
  obtain ⟨k, y, m, d, hh, mi, s, us, off⟩ := v
  simp only at hk
  subst hk
  simp only [WF, mkDate, mkTime, mkDateTime] at h
  rcases h with h | h | h <;> split at h <;> simp at h
  rename_i hd
  obtain ⟨a, b, c, e, f⟩ := h
  subst a b c e f
  exact ⟨hd, rfl, rfl, rfl, rfl, rfl⟩

theorem WF_time (v : Value) (h : WF v) (hk : v.kind = .time) :
    timeOk v.h v.mi v.s v.us ∧ v.y = 0 ∧ v.m = 0 ∧ v.d = 0 := by
  obtain ⟨k, y, m, d, hh, mi, s, us, off⟩ := v
  simp only at hk
  subst hk
  simp only [WF, mkDate, mkTime, mkDateTime] at h
  rcases h with h | h | h <;> split at h <;> simp at h
  rename_i hd
  obtain ⟨a, b, c⟩ := h
  subst a b c
  exact ⟨hd, rfl, rfl, rfl⟩

theorem wrapTz_split (exact : Bool) (tz : TzOpt) (now : Int × Int × Int) (v : Value) (hv : WF v) :
    wrapTz exact tz now v = dispatchM tz (normalizeM exact now v) := by
  rcases hk : v.kind with _ | _ | _
  · obtain ⟨_, h1, h2, h3, h4, h5⟩ := WF_date v hv hk
    obtain ⟨k, y, m, d, hh, mi, s, us, off⟩ := v
    simp only at hk h1 h2 h3 h4 h5
    subst hk h1 h2 h3 h4 h5
    cases tz <;> cases exact <;> rfl
  · obtain ⟨_, h1, h2, h3⟩ := WF_time v hv hk
    obtain ⟨k, y, m, d, hh, mi, s, us, off⟩ := v
    simp only at hk h1 h2 h3
    subst hk h1 h2 h3
    cases tz <;> cases exact <;> rfl
  · obtain ⟨k, y, m, d, hh, mi, s, us, off⟩ := v
    simp only at hk
    subst hk
    cases tz <;> cases exact <;> cases off <;> rfl

theorem timeOk_zero : timeOk 0 0 0 0 := by decide

/-- `_normalize` on a date/time value: `exact` → unchanged; a time gets the date of `now` (the `now` option, or
    `datetime.now()`), a date becomes midnight, both through the stdlib `datetime(...)` constructor (naive) -/
theorem normalize_val_eq {V : Type} (ext : Ext V) (hstd : StdOk ext) (v : Value) (hv : WF v) (d : Dict) (n : Option NowV)
    (hn : d.now = some n)
    (hnow : dateOk (nowOf (n.getD ext.datetime_now)).1 (nowOf (n.getD ext.datetime_now)).2.1 (nowOf (n.getD ext.datetime_now)).2.2) :
    Gen.Parser.parsing_p_normalize ext (.obj (objOf v)) d =
      .ok (.obj (objOf (normalizeM (Gen.Parser.py_truthy_optbool d.exact) (nowOf (n.getD ext.datetime_now)) v))) := by
  ptie "Pendulum.ParserGen.normalize_val_eq" "parsing/__init__.py::_normalize (Gen.Parser.parsing_p_normalize)" =>
    unfold Gen.Parser.parsing_p_normalize normalizeM
    cases hex : Gen.Parser.py_truthy_optbool d.exact with
    | true => rfl
    | false =>
      simp only [Bool.false_eq_true, if_false, Gen.Parser.Parsed.isinstance, isinstance_objOf_time, isinstance_objOf_date,
        isinstance_objOf_datetime, Gen.Parser.Parsed.asObj, hn, Gen.Parser.Dict.getitem, bindE_ok, hstd.datetime, isDateLike]
      rcases hk : v.kind with _ | _ | _
      · obtain ⟨hd, _⟩ := WF_date v hv hk
        simp only [reduceCtorEq, decide_false, decide_true, Bool.false_eq_true, if_false, Bool.or_false, Bool.not_false,
          Bool.and_self, if_true, objOf, mkDateTime, hd, timeOk_zero, and_self, liftE, bindE_ok]
      · obtain ⟨ht, _⟩ := WF_time v hv hk
        simp only [nowOf] at hnow
        simp only [decide_true, if_true, objOf, mkDateTime, nowOf, hnow, ht, and_self, liftE, bindE_ok]
      · simp only [reduceCtorEq, decide_false, decide_true, Bool.false_eq_true, if_false, Bool.or_true, Bool.not_true,
          Bool.and_false]

/-- `_normalize` leaves everything that is neither a time nor a date alone -/
theorem normalize_other_eq {V : Type} (ext : Ext V) (p : Parsed) (d : Dict) (h1 : p.isinstance .time = false)
    (h2 : p.isinstance .date = false) : Gen.Parser.parsing_p_normalize ext p d = .ok p := by
  ptie "Pendulum.ParserGen.normalize_other_eq" "parsing/__init__.py::_normalize (Gen.Parser.parsing_p_normalize)" =>
    unfold Gen.Parser.parsing_p_normalize
    simp only [h1, h2, Bool.false_eq_true, if_false, Bool.false_and]
    split <;> rfl

/-- the type dispatch of `parser._parse` on a date/time value: aware datetime → `pendulum.instance(parsed)`, naive →
    `pendulum.datetime(<7 fields>, tz=options.get("tz", UTC))`, date → `pendulum.date`, time → `pendulum.time` -/
theorem dispatch_val_eq (b : Backend) (ext : Ext PV) (hp : PendOk rk b ext) (text : List Char) (v : Value) (d : Dict) :
    mapE PV.toOut (Gen.Parser.parser_p_parse_dispatch ext text (.obj (objOf v)) d) =
      liftE outOfValue (dispatchM (tzOf (d.tz.getD .UTC)) v) := by
  ptie "Pendulum.ParserGen.dispatch_val_eq" "parser.py::_parse, the type dispatch (Gen.Parser.parser_p_parse_dispatch)" =>
    unfold Gen.Parser.parser_p_parse_dispatch dispatchM
    simp only [Gen.Parser.Parsed.isinstance, isinstance_objOf_time, isinstance_objOf_date, isinstance_objOf_datetime,
      Gen.Parser.Parsed.asObj, hp.inst, hp.datetime, hp.date, hp.time, valOf_objOf, isDateLike]
    obtain ⟨k, y, m, dd, hh, mi, s, us, off⟩ := v
    cases k
    · simp [objOf, mapE, PV.toOut, liftE, outOfValue]
    · simp [objOf, mapE, PV.toOut, liftE, outOfValue]
    · cases off with
      | none => simp [objOf, mapE, PV.toOut, liftE, outOfValue]
      | some o =>
        simp only [decide_true, if_true, objOf, Option.isNone_some, Bool.not_false, Option.getD_none, tzOf, instRef,
          instanceDT, endOff, offOk]
        by_cases h1 : -86400 < o <;> by_cases h2 : o < 86400 <;>
          simp [h1, h2, liftE, mapE, PV.toOut, kx, outOfValue, ofDTa, toDT, isAware, endOff]

theorem mapE_tryExcept {α β : Type} (f : α → β) (arith : String → Bool) (x : Except Exc α) (cl : List ExcClass) (e : Exc) :
    mapE f (tryExcept arith x cl (.error e)) = tryExcept arith (mapE f x) cl (.error e) := by
  cases x with
  | ok v => rfl
  | error e' =>
    by_cases h : cl.any (e'.isa arith) = true <;> simp [tryExcept_error, h, mapE]

theorem isinstance_Interval (o : Obj) : o.isinstance .Interval = false := rfl

/-- the dispatch on an `_Interval`: `_interval(parsed, options.get("tz", UTC))` inside
    `try … except (OverflowError, ValueError): raise ParserError` -/
theorem dispatch_interval_eq (b : Backend) (durObj : IsoDur.Parsed → Obj) (hd : DurObjOk b durObj) (ext : Ext PV)
    (hp : PendOk rk b ext) (text : List Char) (d : Dict) (r : IntervalRaw) (hr : RawOk r) :
    mapE PV.toOut (Gen.Parser.parser_p_parse_dispatch ext text (.interval (ivOf durObj r)) d) =
      liftE id (assemble b (tzOf (d.tz.getD .UTC)) r) := by
  ptie "Pendulum.ParserGen.dispatch_interval_eq" "parser.py::_parse, the type dispatch (Gen.Parser.parser_p_parse_dispatch)" =>
    unfold Gen.Parser.parser_p_parse_dispatch assemble
    simp only [Gen.Parser.Parsed.isinstance, reduceCtorEq, decide_false, decide_true, Bool.false_eq_true, if_false, if_true,
      Gen.Parser.Parsed.asInterval, mapE_tryExcept, interval_eq rk b durObj hd ext hp _ r hr]
    cases assembleRaw b (tzOf (d.tz.getD .UTC)) r with
    | ok o => rfl
    | error k =>
      cases k with
      | parserError => rfl
      | valueError => rfl
      | other n =>
        simp only [liftE, kx, tryExcept_error, List.any, Gen.Parser.Exc.isa, Bool.or_false, beq_iff_eq]
        by_cases hn : n = "OverflowError"
        · simp only [hn, if_true]
        · simp only [hn, if_false]

/-- the dispatch on a duration: a `pendulum.Duration` is returned as it is; the components of a compiled `Duration` go to
    `pendulum.duration(years=…, …, microseconds=…)` inside `try … except OverflowError: raise ParserError` -/
theorem dispatch_dur_eq (b : Backend) (durObj : IsoDur.Parsed → Obj) (hd : DurObjOk b durObj) (ext : Ext PV)
    (hp : PendOk rk b ext) (text : List Char) (d : Dict) (p : IsoDur.Parsed) (hpy : b = .py → rk p = true) :
    mapE PV.toOut (Gen.Parser.parser_p_parse_dispatch ext text (.obj (durObj p)) d) =
      liftE id (if rk p then .ok (.duration (durOf p)) else .error .parserError) := by
  ptie "Pendulum.ParserGen.dispatch_dur_eq" "parser.py::_parse, the type dispatch (Gen.Parser.parser_p_parse_dispatch)" =>
    unfold Gen.Parser.parser_p_parse_dispatch
    obtain ⟨i1, i2, i3, i4, i5⟩ := isinstance_durObj hd p
    simp only [Gen.Parser.Parsed.isinstance, i1, i2, i3, i4, i5, isinstance_Interval, Bool.false_eq_true, if_false,
      Gen.Parser.Parsed.asObj, reduceCtorEq, decide_false]
    cases b with
    | py =>
      simp only [decide_true, if_true, hpy rfl, hp.ret_duration, mapE, PV.toOut, liftE, id, durOf, hd.years, hd.months, hd.rest]
    | rust =>
      obtain ⟨r1, r2, r3, r4, r5, r6⟩ := hd.raw rfl p
      simp only [reduceCtorEq, decide_false, Bool.false_eq_true, if_false, hp.rust rfl, Bool.not_true, Bool.not_false,
        Bool.true_and, decide_true, if_true, mapE_tryExcept, hp.duration, hd.years, hd.months, r1, r2, r3, r4, r5, r6]
      cases hr : rk p with
      | true => simp only [hr, if_true]; rfl
      | false =>
        have : rk ⟨p.y, p.mo, p.w, p.d, p.h, p.mi, p.s, p.us⟩ = false := hr
        simp only [this, Bool.false_eq_true, if_false]
        rfl

/-- `_normalize` followed by the type dispatch of `parser._parse`, on a date/time value = the model's `wrapTz` -/
theorem wrap_eq (b : Backend) (ext : Ext PV) (hstd : StdOk ext) (hp : PendOk rk b ext) (text : List Char) (v : Value)
    (hv : WF v) (d o : Dict) (n : Option NowV) (hn : d.now = some n)
    (hnow : dateOk (nowOf (n.getD ext.datetime_now)).1 (nowOf (n.getD ext.datetime_now)).2.1 (nowOf (n.getD ext.datetime_now)).2.2) :
    mapE PV.toOut (bindE (Gen.Parser.parsing_p_normalize ext (.obj (objOf v)) d) fun p =>
        Gen.Parser.parser_p_parse_dispatch ext text p o) =
      liftE outOfValue (wrapTz (Gen.Parser.py_truthy_optbool d.exact) (tzOf (o.tz.getD .UTC)) (nowOf (n.getD ext.datetime_now)) v) := by
  rw [normalize_val_eq ext hstd v hv d n hn hnow, bindE_ok, dispatch_val_eq rk b ext hp, wrapTz_split _ _ _ v hv]

deriving instance DecidableEq for PV

/-! ## what the model parsers return is well formed (every value is built by `mkDate` / `mkTime` / `mkDateTime`) -/

theorem rsEnd_WF (rest : List Char) (r : R) (v : Value) (hr : ∀ w, r = .ok w → WF w) (h : rsEnd rest r = .ok v) : WF v := by
  unfold rsEnd at h
  split at h
  · exact hr v h
  · split at h <;> cases h

theorem rsTimeOnly_WF (ext : Bool) (skip : Option Nat) (cs : List Char) (v : Value) (h : rsTimeOnly ext skip cs = .ok v) :
    WF v := by
  unfold rsTimeOnly at h
  repeat' split at h
  all_goals first | cases h | exact WF_mkTime h

theorem rsFinish_WF (x : Except Kind ((Int × Int × Int) × Bool × List Char)) (v : Value) (h : rsFinish x = .ok v) : WF v := by
  unfold rsFinish at h
  repeat' split at h
  all_goals first | (cases h; done) | exact WF_mkDate h | exact rsEnd_WF _ _ _ (fun w hw => WF_mkDateTime hw) h

theorem rsParse_WF (cs : List Char) (v : Value) (h : rsParse cs = .ok v) : WF v := by
  unfold rsParse at h
  split at h
  · cases h
  · split at h
    · exact rsTimeOnly_WF _ _ _ _ h
    · unfold rsMain at h
      repeat' split at h
      all_goals first | (cases h; done) | exact rsTimeOnly_WF _ _ _ _ h | exact rsFinish_WF _ _ h

theorem pyParse_WF (cs : List Char) (v : Value) (h : pyParse cs = .ok v) : WF v := by
  unfold pyParse at h
  repeat' split at h
  all_goals first
    | (cases h; done) | exact WF_mkDate h | exact WF_mkTime h | exact WF_mkDateTime h
    | (unfold pyAmbiguousTime at h; exact WF_mkTime h)

theorem parseIso_WF (b : Backend) (cs : List Char) (v : Value) (h : parseIso b cs = .ok v) : WF v := by
  cases b with
  | rust => exact rsParse_WF cs v h
  | py => exact pyParse_WF cs v h

theorem isoAny_val (b : Backend) (cs : List Char) (v : Value) (h : isoAny rk b cs = .ok (.val v)) : parseIso b cs = .ok v := by
  unfold isoAny at h
  split at h
  · cases b <;> simp only at h <;> repeat' split at h
    all_goals cases h
  · repeat' split at h
    all_goals first | (cases h; done) | (cases h; assumption)

theorem isoAny_py_dur (cs : List Char) (p : IsoDur.Parsed) (h : isoAny rk .py cs = .ok (.dur p)) : rk p = true := by
  unfold isoAny at h
  split at h
  · simp only at h
    repeat' split at h
    all_goals first | (cases h; done) | (cases h; assumption)
  · repeat' split at h
    all_goals cases h

theorem cmBuild_WF (dt : Option (Int × Int × Int)) (t : Option (Nat × Option Nat × Option Nat × Option (List Nat))) (v : Value)
    (h : cmBuild dt t = .ok v) : WF v := by
  unfold cmBuild at h
  repeat' split at h
  all_goals first | (cases h; done) | exact WF_mkDate h | exact WF_mkTime h | exact WF_mkDateTime h

theorem cmTry_WF (dt : Option (Int × Int × Int)) (rest : List Char) (r : R) (v : Value) (h : cmTry dt rest = some r)
    (hv : r = .ok v) : WF v := by
  unfold cmTry at h
  repeat' split at h
  all_goals first | (cases h; done) | (cases h; exact cmBuild_WF _ _ _ hv)

theorem commonParseDF_WF (df : Bool) (cs : List Char) (v : Value) (h : commonParseDF df cs = .ok v) : WF v := by
  unfold commonParseDF at h
  simp only at h
  split at h
  · rename_i r heq
    rcases orElse_some _ _ _ heq with h1 | h1
    · split at h1
      · cases h1
      · rcases orElse_some _ _ _ h1 with h2 | h2
        · repeat' split at h2
          all_goals first | (cases h2; done) | exact cmTry_WF _ _ _ _ h2 h
        · exact cmTry_WF _ _ _ _ h2 h
    · exact cmTry_WF _ _ _ _ h1 h
  · cases h

/-- hypothesis on dateutil: what it returns is a real `datetime` (fields in range) -/
def DuWF (du : Dateutil) : Prop := ∀ df yf cs v, du df yf cs = .ok v → WF v

theorem baseParse_val_WF (b : Backend) (o : Options) (du : Dateutil) (hdu : DuWF du) (cs : List Char) (v : Value)
    (h : baseParse rk b o du cs = .ok (.iso (.val v))) : WF v := by
  unfold baseParse at h
  split at h
  · rename_i r heq
    cases h
    exact parseIso_WF b cs v (isoAny_val rk b cs v heq)
  · cases h
  · split at h
    · cases h
    · cases h
    · split at h
      · rename_i w heq
        cases h
        exact commonParseDF_WF _ _ _ heq
      · split at h
        · cases h
        · unfold dateutilStep at h
          split at h
          · rename_i w heq
            cases h
            exact hdu _ _ _ _ heq
          · cases h
          · cases h
          · split at h <;> cases h
      · cases h

theorem parseIntervalRaw_RawOk (b : Backend) (cs : List Char) (r : IntervalRaw) (h : parseIntervalRaw rk b cs = .ok r) :
    RawOk r := by
  unfold parseIntervalRaw at h
  repeat' split at h
  all_goals first | (cases h; done) | (cases h; assumption) | (cases h; trivial)

theorem baseParse_interval_RawOk (b : Backend) (o : Options) (du : Dateutil) (cs : List Char) (r : IntervalRaw)
    (h : baseParse rk b o du cs = .ok (.interval r)) : RawOk r := by
  unfold baseParse at h
  split at h
  · cases h
  · cases h
  · split at h
    · rename_i r' heq
      cases h
      exact parseIntervalRaw_RawOk rk b cs r heq
    · cases h
    · split at h
      · cases h
      · split at h
        · cases h
        · unfold dateutilStep at h
          repeat' split at h
          all_goals cases h
      · cases h

theorem baseParse_py_dur (o : Options) (du : Dateutil) (cs : List Char) (p : IsoDur.Parsed)
    (h : baseParse rk .py o du cs = .ok (.iso (.dur p))) : rk p = true := by
  unfold baseParse at h
  split at h
  · rename_i r heq
    cases h
    exact isoAny_py_dur rk cs p heq
  · cases h
  · split at h
    · cases h
    · cases h
    · split at h
      · cases h
      · split at h
        · cases h
        · unfold dateutilStep at h
          repeat' split at h
          all_goals cases h
      · cases h

/-! ## the whole front end -/

/-- all hypotheses on the parameters of the generated front end -/
structure ExtOk (b : Backend) (durObj : IsoDur.Parsed → Obj) (du : Dateutil) (ext : Ext PV) : Prop where
  dur : DurObjOk b durObj
  iso : IsoOk rk b durObj ext
  common : CommonOk ext.COMMON_match
  std : StdOk ext
  dateutil : DuExtOk du ext
  arith : ext.issubclass_ArithmeticError = isArithmetic
  pend : PendOk rk b ext

/-- the dictionary `parsing.parse` works with: `DEFAULT_OPTIONS` updated with the caller's options (after `parser.parse` has
    set `options["now"] = options.get("now")`) -/
def mergedOf (u : Dict) : Dict :=
  Gen.Parser.Dict.update Gen.Parser.DEFAULT_OPTIONS { u with now := some (Option.getD u.now none) }

theorem merged_fields (u : Dict) :
    (mergedOf u).strict = some (u.strict.getD true) ∧ (mergedOf u).day_first = some (u.day_first.getD false) ∧
    (mergedOf u).year_first = some (u.year_first.getD true) ∧ (mergedOf u).exact = some (u.exact.getD false) ∧
    (mergedOf u).now = some (u.now.getD none) := by
  ptie "Pendulum.ParserGen.merged_fields" "DEFAULT_OPTIONS of parsing/__init__.py / the `now` bookkeeping of parser.py::parse (Gen.Parser.DEFAULT_OPTIONS)" =>
    obtain ⟨a, b, c, d, e, f⟩ := u
    cases a <;> cases b <;> cases c <;> cases d <;> exact ⟨rfl, rfl, rfl, rfl, rfl⟩

theorem optsOf_exact (u : Dict) (today : NowV) :
    Gen.Parser.py_truthy_optbool (mergedOf u).exact = (optsOf u today).exact := by
  rw [(merged_fields u).2.2.2.1]
  simp only [Gen.Parser.py_truthy_optbool, optsOf]
  cases u.exact.getD false <;> rfl

theorem optsOf_now (u : Dict) (today : NowV) : nowOf ((u.now.getD none).getD today) = (optsOf u today).now := by
  simp only [optsOf]
  rcases u.now with _ | _ | n <;> rfl

theorem optsOf_tz (u : Dict) (today : NowV) : tzOf (u.tz.getD .UTC) = (optsOf u today).tz := by
  simp only [optsOf]
  cases u.tz <;> rfl

/-- **the generated front end = the hand model.** `parser.parse` as translated from the source (the `now` bookkeeping, the
    "now" special case, the defaults, the suppress/try chain ISO 8601 → interval → COMMON → strict gate → dateutil, `_normalize`,
    the type dispatch with its `tz` handling, `_interval`) returns what `parseAllG` returns, for every string and every
    options dictionary, under the hypotheses `ExtOk` on the external callees -/
theorem front_end_eq (b : Backend) (durObj : IsoDur.Parsed → Obj) (du : Dateutil) (ext : Ext PV)
    (h : ExtOk rk b durObj du ext) (hduwf : DuWF du) (u : Dict) (cs : List Char)
    (hnow : dateOk (optsOf u ext.datetime_now).now.1 (optsOf u ext.datetime_now).now.2.1 (optsOf u ext.datetime_now).now.2.2) :
    mapE PV.toOut (Gen.Parser.parser_parse ext cs u) = liftE id (parseAllG rk b (optsOf u ext.datetime_now) du cs) := by
  ptie "Pendulum.ParserGen.front_end_eq" "parser.py::parse/_parse + parsing/__init__.py::parse (Gen.Parser.parser_parse, parser_p_parse, parsing_parse)" =>
    unfold Gen.Parser.parser_parse Gen.Parser.parser_p_parse Gen.Parser.parsing_parse parseAllG
    simp only [beq_iff_eq, eq_comm (a := ['n', 'o', 'w'])]
    by_cases hc : cs = ['n', 'o', 'w']
    · simp only [hc, if_true, h.pend.now]
      rfl
    · simp only [hc, if_false]
      obtain ⟨m1, m2, m3, m4, m5⟩ := merged_fields u
      have hm : Gen.Parser.Dict.update Gen.Parser.DEFAULT_OPTIONS { u with now := some (Option.getD u.now none) } = mergedOf u := rfl
      rw [hm, parse_chain_eq rk b durObj h.dur du ext h.iso h.common h.std h.dateutil h.arith cs (mergedOf u)
        (optsOf u ext.datetime_now) m1 m2 m3]
      cases hb : baseParse rk b (optsOf u ext.datetime_now) du cs with
      | error k => rfl
      | ok p1 =>
        simp only [liftE, bindE_ok]
        cases p1 with
        | iso r =>
          cases r with
          | val v =>
            have hv := baseParse_val_WF rk b _ du hduwf cs v hb
            have hn' : dateOk (nowOf ((u.now.getD none).getD ext.datetime_now)).1 (nowOf ((u.now.getD none).getD ext.datetime_now)).2.1
                (nowOf ((u.now.getD none).getD ext.datetime_now)).2.2 := by rw [optsOf_now]; exact hnow
            simp only [parsedOf, isoObj, normalize_val_eq ext h.std v hv (mergedOf u) (u.now.getD none) m5 hn', bindE_ok,
              dispatch_val_eq rk b ext h.pend, finishOut, optsOf_exact u ext.datetime_now, optsOf_now,
              optsOf_tz u ext.datetime_now, wrapTz_split _ _ _ v hv]
            cases dispatchM (optsOf u ext.datetime_now).tz
              (normalizeM (optsOf u ext.datetime_now).exact (optsOf u ext.datetime_now).now v) <;> rfl
          | dur p =>
            obtain ⟨i1, i2, i3, _, _⟩ := isinstance_durObj h.dur p
            have hpy : b = .py → rk p = true := by
              intro hb'
              subst hb'
              exact baseParse_py_dur rk _ du cs p hb
            simp only [parsedOf, isoObj, normalize_other_eq ext (.obj (durObj p)) (mergedOf u) i3 i2, bindE_ok,
              dispatch_dur_eq rk b durObj h.dur ext h.pend _ _ p hpy, finishOut]
            rfl
        | interval r =>
          have hr := baseParse_interval_RawOk rk b _ du cs r hb
          simp only [parsedOf, normalize_other_eq ext (.interval (ivOf durObj r)) (mergedOf u) rfl rfl, bindE_ok,
            dispatch_interval_eq rk b durObj h.dur ext h.pend _ _ r hr, finishOut, optsOf_tz u ext.datetime_now]
          rfl

/-- corollary: the generated front end raises nothing but `ParserError` / `ValueError` (C17 `parse_total`, over the source as
    translated) -/
theorem front_end_total (b : Backend) (durObj : IsoDur.Parsed → Obj) (du : Dateutil) (ext : Ext PV)
    (h : ExtOk rk b durObj du ext) (hduwf : DuWF du) (hdu : DuOk du) (u : Dict) (cs : List Char)
    (hnow : dateOk (optsOf u ext.datetime_now).now.1 (optsOf u ext.datetime_now).now.2.1 (optsOf u ext.datetime_now).now.2.2)
    (e : Exc) (he : Gen.Parser.parser_parse ext cs u = .error e) : e = .ParserError ∨ e = .ValueError := by
  have hf := front_end_eq rk b durObj du ext h hduwf u cs hnow
  rw [he] at hf
  cases hm : parseAllG rk b (optsOf u ext.datetime_now) du cs with
  | ok o => rw [hm] at hf; cases hf
  | error k =>
    rw [hm] at hf
    simp only [mapE, liftE] at hf
    injection hf with hf
    rcases parseAll_VE rk b _ du hdu cs k hm with hk | hk <;> subst hk <;> subst hf
    · exact Or.inl rfl
    · exact Or.inr rfl

/-! ## the hypotheses are satisfiable -/

/-- the external callees as the hand model describes them -/
def extRef (b : Backend) (durObj : IsoDur.Parsed → Obj) (du : Dateutil) (cm : List Char → Option Groups) (today : NowV) : Ext PV where
  parse_iso8601 cs := liftE (isoObj durObj) (isoAny rk b cs)
  COMMON_match := cm
  dateutil_parse cs df yf := liftE objOf (du df yf cs)
  issubclass_ArithmeticError := isArithmetic
  std_date y m d := liftE objOf (mkDate y m d)
  std_time h mi s us := liftE objOf (mkTime h mi s us none)
  std_datetime y m d h mi s us := liftE objOf (mkDateTime y m d h mi s us none)
  datetime_now := today
  RustDuration_available := true
  pendulum_now := .ok (.out .now)
  pendulum_instance o tz :=
    match o with
    | some o => instRef (valOf o) (tzOf (tz.getD .UTC))
    | none => .error (.other "AttributeError")
  pendulum_datetime y m d h mi s us tz := .ok (.out (.dateTime ⟨.datetime, y, m, d, h, mi, s, us, (tzOf tz).fill⟩))
  pendulum_date y m d := .ok (.out (.date ⟨.date, y, m, d, 0, 0, 0, 0, none⟩))
  pendulum_time h mi s us := .ok (.out (.time ⟨.time, 0, 0, 0, h, mi, s, us, none⟩))
  pendulum_duration kw :=
    if rk ⟨kw.years, kw.months, kw.weeks, kw.days, kw.hours, kw.minutes, kw.seconds, kw.microseconds⟩
    then .ok (.out (.duration ⟨kw.years, kw.months, kwRest kw⟩)) else .error (.other "OverflowError")
  pendulum_interval a c := intervalRef b a c
  dt_add v kw := shiftRef IsoInterval.add v kw
  dt_subtract v kw := shiftRef IsoInterval.sub v kw
  v_is_datetime v := match v with | .dt .. => true | _ => false
  v_tzinfo_is_none v := match v with | .dt _ aw _ _ => !aw | _ => false
  ret_duration o := .out (.duration ⟨o.years, o.months,
    o.weeks * IsoDur.usW + o.remaining_days * IsoDur.usD + o.hours * IsoDur.usH + o.minutes * IsoDur.usMi +
      o.remaining_seconds * IsoDur.usS + o.microseconds⟩)

theorem extRef_ok (b : Backend) (durObj : IsoDur.Parsed → Obj) (hd : DurObjOk b durObj) (du : Dateutil)
    (cm : List Char → Option Groups) (hcm : CommonOk cm) (today : NowV) :
    ExtOk rk b durObj du (extRef rk b durObj du cm today) where
  dur := hd
  iso := fun _ => rfl
  common := hcm
  std := ⟨fun _ _ _ => rfl, fun _ _ _ _ => rfl, fun _ _ _ _ _ _ _ => rfl⟩
  dateutil := fun _ _ _ => rfl
  arith := rfl
  pend := ⟨rfl, fun _ _ => rfl, fun _ _ _ _ _ _ _ _ => rfl, fun _ _ _ => rfl, fun _ _ _ _ => rfl, fun _ => rfl, fun _ _ => rfl,
    fun _ _ => rfl, fun _ _ => rfl, fun _ => rfl, fun _ _ _ _ => rfl, fun _ => rfl, fun _ => rfl⟩

/-- a `COMMON.match` satisfying `CommonOk`: the model's recogniser, each number group rendered as one "digit" carrying the
    whole number (`int()` of a digit string is its base-10 value), the fraction as its digits -/
def cmRef (cs : List Char) : Option Groups :=
  (cmMatchRef cs).map fun m =>
    { date := m.date.map fun _ => ['x'], classic := none,
      year := m.date.map fun p => [p.1],
      monthday := m.date.bind fun p => p.2.map fun _ => ['x'], monthsep := none,
      month := m.date.bind fun p => p.2.map fun q => [q.1], daysep := none,
      day := m.date.bind fun p => p.2.map fun q => [q.2],
      time := m.time.map fun _ => ['x'], timesep := none,
      hour := m.time.map fun t => [t.1],
      minute := m.time.bind fun t => t.2.1.map fun v => [v],
      second := m.time.bind fun t => t.2.2.1.map fun v => [v],
      subsecondsection := m.time.bind fun t => t.2.2.2.map fun _ => ['x'],
      subsecond := m.time.bind fun t => t.2.2.2 }

theorem cmRef_ok : CommonOk cmRef := by
  intro cs
  unfold cmRef
  cases cmMatchRef cs with
  | none => rfl
  | some m =>
    refine ⟨_, rfl, ?_⟩
    obtain ⟨dt, tm⟩ := m
    refine ⟨?_, ?_, ?_, ?_⟩
    · cases dt <;> rfl
    · intro y md hy
      simp only at hy
      subst hy
      refine ⟨by simp [Gen.Parser.py_int], ?_, ?_⟩
      · cases md <;> rfl
      · intro mo d hmd
        subst hmd
        exact ⟨by simp [Gen.Parser.py_int], by simp [Gen.Parser.py_int]⟩
    · cases tm <;> rfl
    · intro hh mi s fr ht
      simp only at ht
      subst ht
      refine ⟨by simp [Gen.Parser.py_int], ?_, ?_, ?_, ?_, ?_⟩
      · cases mi <;> simp [Gen.Parser.py_int]
      · cases s <;> rfl
      · intro v hv; subst hv; simp [Gen.Parser.py_int]
      · cases fr <;> rfl
      · intro ds hds; subst hds; rfl

end Pendulum.ParserGen
