import Pendulum.Proofs.FormatterGen
/-! Tie of the generated `_check_parsed` (`Gen.Formatter.check_parsed` and its join points `check_parsed_after_*`) to
`Fmt.checkParsed`: the model is cut into the same stages (`quarterM`, `doyM`, `dowM`, `merM`, `finalM`), each generated join
point is shown equal to the composition of the remaining stages. -/
set_option linter.unusedSimpArgs false
set_option linter.unusedVariables false
namespace Pendulum.FormatterGen
open Pendulum Pendulum.Fmt
open Pendulum.Gen.Formatter (bindE pyFor pyWhile hasKey dictGet FMatch Segs PatEl FPart LocArg PTok PDict VDict Time7 Ops PyQ)

/-! ### the model by stages (`Fmt.checkQuarter`, `checkDayOfYear`, `checkDayOfWeek`, `checkMeridiem`, `checkFinal`) -/

theorem bind_eq_bindE {α β : Type} (x : Except String α) (f : α → Except String β) : (x >>= f) = bindE x f := by
  cases x <;> rfl

theorem bindE_ite {α β : Type} (c : Prop) [Decidable c] (a b : Except String α) (f : α → Except String β) :
    bindE (if c then a else b) f = if c then bindE a f else bindE b f := by
  split <;> rfl

def tailMer (p : Parsed) (now : Now) (year : Int) (month day : Option Int) : Except String Result :=
  bindE (checkMeridiem p) fun hour => .ok (checkFinal p now year month day hour)

def tailDow (p : Parsed) (now : Now) (year : Int) (month day : Option Int) : Except String Result :=
  bindE (checkDayOfWeek p now year month day) fun r => tailMer p now r.1 r.2.1 r.2.2

def tailDoy (p : Parsed) (now : Now) (year : Option Int) (month day : Option Int) : Except String Result :=
  bindE (checkDayOfYear p (year.getD now.year) month day) fun r => tailDow p now (year.getD now.year) r.1 r.2

theorem checkParsed_staged (p : Parsed) (now : Now) (h : p.timestamp = none) :
    checkParsed p now = bindE (checkQuarter p now) fun r => tailDoy p now r.1 r.2.1 r.2.2 := by
  unfold checkParsed
  simp only [h, bind_eq_bindE, pure, Except.pure, tailDoy, tailDow, tailMer]

/-! ### the generated join points -/

/-- the `validated` dictionary on the path without a timestamp: only year, month, day and hour ever change -/
def mkV (g : PDict (Int × Int) TzP) (y m d h : Option Int) : VDict TzP :=
  { year := y, month := m, day := d, hour := h, minute := g.minute, second := g.second, microsecond := g.microsecond,
    tz := none }

theorem optIntOr_eq_orNow (x : Option Int) (n : Int) : Gen.Formatter.optIntOr x n = orNow x n := by
  cases x with
  | none => rfl
  | some v => by_cases h : v = 0 <;> simp [Gen.Formatter.optIntOr, orNow, h]

theorem optIntOr_zero (x : Option Int) : Gen.Formatter.optIntOr x 0 = orZero x := by
  cases x with
  | none => rfl
  | some v => by_cases h : v = 0 <;> simp [Gen.Formatter.optIntOr, orZero, h]

/-! the last statements of `_check_parsed` one by one (the generated join point is their composition, by `rfl`) -/

def stMonth (g : PDict (Int × Int) TzP) (nowm : Int) (v : VDict TzP) : VDict TzP :=
  match v.month with
  | none =>
    (match g.year with
     | none => { v with month := some (Gen.Formatter.optIntOr g.month nowm) }
     | some _ => { v with month := some (Gen.Formatter.optIntOr g.month 1) })
  | some _ => v

def stDay (g : PDict (Int × Int) TzP) (nowd : Int) (v : VDict TzP) : VDict TzP :=
  match v.day with
  | none =>
    if ((!(Option.isNone g.year)) || (!(Option.isNone g.month))) then { v with day := some (Gen.Formatter.optIntOr g.day 1) }
    else { v with day := some (Gen.Formatter.optIntOr g.day nowd) }
  | some _ => v

def stHour (v : VDict TzP) : VDict TzP := match v.hour with | none => { v with hour := some 0 } | some _ => v
def stMinute (v : VDict TzP) : VDict TzP := match v.minute with | none => { v with minute := some 0 } | some _ => v
def stSecond (v : VDict TzP) : VDict TzP := match v.second with | none => { v with second := some 0 } | some _ => v
def stMicro (v : VDict TzP) : VDict TzP := match v.microsecond with | none => { v with microsecond := some 0 } | some _ => v

section
variable (re : Str → Segs) (L : Loc) (find : String → Option Loc) (deflt : String) (now : Now) (fuel : Nat)
  (g : PDict (Int × Int) TzP)

@[simp] theorem toParsed_year : (toParsed g).year = g.year := rfl
@[simp] theorem toParsed_month : (toParsed g).month = g.month := rfl
@[simp] theorem toParsed_day : (toParsed g).day = g.day := rfl
@[simp] theorem toParsed_hour : (toParsed g).hour = g.hour := rfl
@[simp] theorem toParsed_minute : (toParsed g).minute = g.minute := rfl
@[simp] theorem toParsed_second : (toParsed g).second = g.second := rfl
@[simp] theorem toParsed_microsecond : (toParsed g).microsecond = g.microsecond := rfl
@[simp] theorem toParsed_tz : (toParsed g).tz = g.tz := rfl
@[simp] theorem toParsed_quarter : (toParsed g).quarter = g.quarter := rfl
@[simp] theorem toParsed_day_of_week : (toParsed g).day_of_week = g.day_of_week := rfl
@[simp] theorem toParsed_day_of_year : (toParsed g).day_of_year = g.day_of_year := rfl
@[simp] theorem toParsed_meridiem : (toParsed g).meridiem = g.meridiem.map (fun s => s == "pm".toList) := rfl
@[simp] theorem toParsed_timestamp : (toParsed g).timestamp = g.timestamp := rfl

theorem after_meridiem_steps (v : VDict TzP) :
    Gen.Formatter.check_parsed_after_meridiem (refOps re L find deflt now) fuel g (DV.ofNow now) v =
      .ok { stMicro (stSecond (stMinute (stHour (stDay g now.day (stMonth g now.month v))))) with tz := g.tz } := by
  ftie "Pendulum.Props.C08.check_parsed_source_eq_model" "Formatter._check_parsed (defaults and returned dictionary)" =>
    rfl

theorem stMonth_mkV (y m d h : Option Int) : stMonth g now.month (mkV g y m d h) = mkV g y (some (match m with
      | some m => m
      | none => if g.year.isSome then orNow g.month 1 else orNow g.month now.month)) d h := by
  cases m <;> cases hy : g.year <;> simp [stMonth, mkV, optIntOr_eq_orNow, hy]

theorem stDay_mkV (y m d h : Option Int) : stDay g now.day (mkV g y m d h) = mkV g y m (some (match d with
      | some d => d
      | none => if g.year.isSome || g.month.isSome then orNow g.day 1 else orNow g.day now.day)) h := by
  cases d <;> cases hy : g.year <;> cases hm : g.month <;> simp [stDay, mkV, optIntOr_eq_orNow, hy, hm]

theorem stHour_mkV (y m d h : Option Int) : stHour (mkV g y m d h) = mkV g y m d (some (h.getD 0)) := by
  cases h <;> rfl

theorem after_meridiem_eq (y : Int) (m d h : Option Int) :
    Gen.Formatter.check_parsed_after_meridiem (refOps re L find deflt now) fuel g (DV.ofNow now) (mkV g (some y) m d h) =
      .ok (ofResult (checkFinal (toParsed g) now y m d h)) := by
  ftie "Pendulum.Props.C08.check_parsed_source_eq_model" "Formatter._check_parsed (defaults and returned dictionary)" =>
    rw [after_meridiem_steps, stMonth_mkV, stDay_mkV, stHour_mkV]
    cases hmi : g.minute <;> cases hs : g.second <;> cases hus : g.microsecond <;>
      simp [stMinute, stSecond, stMicro, mkV, ofResult, checkFinal, toParsed, hmi, hs, hus] <;> exact ⟨rfl, rfl⟩

theorem tuple_ge_eq (h : Int) (mi s us : Option Int) :
    Gen.Formatter.py_tuple_ge [h, Gen.Formatter.optIntOr mi 0, Gen.Formatter.optIntOr s 0, Gen.Formatter.optIntOr us 0] [13, 0, 0, 0] =
      meridiemTooLate h mi s us := by
  simp only [optIntOr_zero, Gen.Formatter.py_tuple_ge, meridiemTooLate]
  by_cases c : orZero us > 0
  · have : orZero us ≥ 0 := by omega
    simp [c, this]
  · by_cases c2 : orZero us < 0
    · have : ¬ orZero us ≥ 0 := by omega
      simp [c, c2, this]
    · have : orZero us ≥ 0 := by omega
      simp [c, c2, this]

theorem after_day_of_week_eq (y : Int) (m d : Option Int) :
    Gen.Formatter.check_parsed_after_day_of_week (refOps re L find deflt now) fuel g (DV.ofNow now) (mkV g (some y) m d g.hour) =
      mapE ofResult (tailMer (toParsed g) now y m d) := by
  ftie "Pendulum.Props.C08.check_parsed_source_eq_model" "Formatter._check_parsed (meridiem block)" =>
    unfold Gen.Formatter.check_parsed_after_day_of_week tailMer checkMeridiem
    simp only [toParsed_meridiem, toParsed_hour, toParsed_minute, toParsed_second, toParsed_microsecond]
    cases hmer : g.meridiem with
    | none =>
      simp only [Option.map_none, bindE_ok, mapE_ok]
      exact after_meridiem_eq re L find deflt now fuel g y m d g.hour
    | some mer =>
      cases hh : g.hour with
      | none => simp [mkV]
      | some h =>
        have e : (mkV g (some y) m d (some h)).minute = g.minute ∧ (mkV g (some y) m d (some h)).second = g.second ∧
            (mkV g (some y) m d (some h)).microsecond = g.microsecond ∧ (mkV g (some y) m d (some h)).hour = some h :=
          ⟨rfl, rfl, rfl, rfl⟩
        simp only [Option.map_some, e.1, e.2.1, e.2.2.1, e.2.2.2, tuple_ge_eq]
        clear e
        by_cases hl : meridiemTooLate h g.minute g.second g.microsecond = true
        · simp [hl]
        · simp only [hl, Bool.false_eq_true, if_false, bindE_ok, mapE_ok, Gen.Formatter.py_as_int]
          by_cases hp : (mer == "pm".toList) = true
          · simp only [hp, if_true]
            exact after_meridiem_eq re L find deflt now fuel g y m d (some (h % 12 + 12))
          · simp only [hp, if_false, Bool.false_eq_true, Int.add_zero]
            exact after_meridiem_eq re L find deflt now fuel g y m d (some (h % 12))

theorem mkV_upd_year (a b c h x : Option Int) : { mkV g a b c h with year := x } = mkV g x b c h := rfl
theorem mkV_upd_month (a b c h x : Option Int) : { mkV g a b c h with month := x } = mkV g a x c h := rfl
theorem mkV_upd_day (a b c h x : Option Int) : { mkV g a b c h with day := x } = mkV g a b x h := rfl
@[simp] theorem mkV_year (a b c h : Option Int) : (mkV g a b c h).year = a := rfl
@[simp] theorem mkV_month (a b c h : Option Int) : (mkV g a b c h).month = b := rfl
@[simp] theorem mkV_day (a b c h : Option Int) : (mkV g a b c h).day = c := rfl
@[simp] theorem mkV_hour (a b c h : Option Int) : (mkV g a b c h).hour = h := rfl

@[simp] theorem DV_ofYMD_ord (a b c : Int) : (DV.ofYMD a b c).ord = Cal.ymd2ord a b c := rfl
@[simp] theorem DV_ofYMD_y (a b c : Int) : (DV.ofYMD a b c).y = a := rfl
@[simp] theorem DV_ofYMD_m (a b c : Int) : (DV.ofYMD a b c).m = b := rfl
@[simp] theorem DV_ofYMD_d (a b c : Int) : (DV.ofYMD a b c).d = c := rfl
@[simp] theorem DV_ofOrd_ord (o : Int) : (DV.ofOrd o).ord = o := rfl
@[simp] theorem DV_ofOrd_y (o : Int) : (DV.ofOrd o).y = (Cal.ord2ymd o).1 := rfl
@[simp] theorem DV_ofOrd_m (o : Int) : (DV.ofOrd o).m = (Cal.ord2ymd o).2.1 := rfl
@[simp] theorem DV_ofOrd_d (o : Int) : (DV.ofOrd o).d = (Cal.ord2ymd o).2.2 := rfl
@[simp] theorem DV_ofNow_y : (DV.ofNow now).y = now.year := rfl
@[simp] theorem DV_ofNow_m : (DV.ofNow now).m = now.month := rfl
@[simp] theorem DV_ofNow_d : (DV.ofNow now).d = now.day := rfl

theorem after_day_of_year_eq (y : Int) (m d : Option Int) :
    Gen.Formatter.check_parsed_after_day_of_year (refOps re L find deflt now) fuel g (DV.ofNow now) (mkV g (some y) m d g.hour) =
      mapE ofResult (tailDow (toParsed g) now y m d) := by
  ftie "Pendulum.Props.C08.check_parsed_source_eq_model" "Formatter._check_parsed (day-of-week block)" =>
    unfold Gen.Formatter.check_parsed_after_day_of_year tailDow checkDayOfWeek
    simp only [toParsed_day_of_week]
    cases hdow : g.day_of_week with
    | none =>
      simp only [bindE_ok]
      exact after_day_of_week_eq re L find deflt now fuel g y m d
    | some dow =>
      simp only [mkV_year, mkV_month, mkV_day, Gen.Formatter.py_as_int, bindE_ok, optIntOr_eq_orNow, refOps_dt_month,
        refOps_dt_day, refOps_pendulum_datetime, refOps_dt_start_of, refOps_dt_subtract_days, refOps_dt_next, refOps_dt_year,
        DV_ofNow_m, DV_ofNow_d, show ("week" == "year") = false from by decide, show ("week" == "week") = true from by decide]
      by_cases hv : validYMD y (orNow m now.month) (orNow d now.day) = true
      · simp only [hv, if_true, bindE_ok, Bool.not_true, Bool.false_eq_true, if_false, DV_ofYMD_ord, DV_ofOrd_ord]
        obtain ⟨ord, hord⟩ : ∃ o, Cal.ymd2ord y (orNow m now.month) (orNow d now.day) = o := ⟨_, rfl⟩
        simp only [hord]
        by_cases h1 : ord - (ord + 6) % 7 - 1 < 1
        · simp [h1]
        · simp only [h1, decide_false, Bool.false_eq_true, if_false, bindE_ok, DV_ofOrd_ord]
          by_cases h2 : dow < 0 ∨ dow > 6
          · simp [h2]
          · simp only [h2, decide_false, Bool.false_eq_true, if_false]
            have e : ord - (ord + 6) % 7 - 1 + ((dow - (ord - (ord + 6) % 7 - 1 + 6) % 7 - 1) % 7 + 1) =
                ord - (ord + 6) % 7 + dow := by omega
            simp only [e]
            by_cases h3 : ord - (ord + 6) % 7 + dow > 3652059
            · simp [h3]
            · simp only [h3, decide_false, Bool.false_eq_true, if_false, bindE_ok, DV_ofOrd_y, DV_ofOrd_m, DV_ofOrd_d,
                mkV_upd_year, mkV_upd_month, mkV_upd_day]
              exact after_day_of_week_eq re L find deflt now fuel g _ _ _
      · simp [hv]

theorem after_quarter_eq' (y : Int) (y' : Option Int) (hy : y'.getD now.year = y) (m d : Option Int) :
    Gen.Formatter.check_parsed_after_quarter (refOps re L find deflt now) fuel g (DV.ofNow now) (mkV g y' m d g.hour) =
      mapE ofResult (bindE (checkDayOfYear (toParsed g) y m d) fun r => tailDow (toParsed g) now y r.1 r.2) := by
  ftie "Pendulum.Props.C08.check_parsed_source_eq_model" "Formatter._check_parsed (year default and day-of-year block)" =>
    unfold Gen.Formatter.check_parsed_after_quarter checkDayOfYear
    have e : (match (mkV g y' m d g.hour).year with
        | none => { mkV g y' m d g.hour with year := some ((refOps re L find deflt now).dt_year (DV.ofNow now)) }
        | some _ => mkV g y' m d g.hour) = mkV g (some y) m d g.hour := by
      cases y' with
      | none => simp only [Option.getD_none] at hy; subst hy; rfl
      | some v => simp only [Option.getD_some] at hy; subst hy; rfl
    refine Eq.trans (b := (match g.day_of_year with
      | none => Gen.Formatter.check_parsed_after_day_of_year (refOps re L find deflt now) fuel g (DV.ofNow now) (mkV g (some y) m d g.hour)
      | some doy =>
        bindE ((refOps re L find deflt now).pendulum_parse [FPart.val (mkV g (some y) m d g.hour).year "", FPart.lit "-", FPart.val (some doy) ">03d"]) fun dt =>
          Gen.Formatter.check_parsed_after_day_of_year (refOps re L find deflt now) fuel g (DV.ofNow now)
            { { mkV g (some y) m d g.hour with month := some ((refOps re L find deflt now).dt_month dt) } with
              day := some ((refOps re L find deflt now).dt_day dt) })) ?_ ?_
    · rw [← e]; rfl
    · simp only [toParsed_day_of_year]
      cases hdoy : g.day_of_year with
      | none =>
        simp only [bindE_ok]
        exact after_day_of_year_eq re L find deflt now fuel g _ m d
      | some doy =>
        simp only [mkV_year, refOps_pendulum_parse, refOps_dt_month, refOps_dt_day, Bool.and_eq_true, decide_eq_true_eq]
        by_cases hc : (1 ≤ doy ∧ doy ≤ Cal.daysInYear y) ∧ 1000 ≤ y ∧ y ≤ 9999
        · simp only [hc, and_self, if_true, bindE_ok, DV_ofOrd_m, DV_ofOrd_d, mkV_upd_month, mkV_upd_day]
          exact after_day_of_year_eq re L find deflt now fuel g _ _ _
        · simp only [hc, if_false, bindE_error, mapE_error]

theorem after_quarter_eq (y m d : Option Int) :
    Gen.Formatter.check_parsed_after_quarter (refOps re L find deflt now) fuel g (DV.ofNow now) (mkV g y m d g.hour) =
      mapE ofResult (tailDoy (toParsed g) now y m d) :=
  after_quarter_eq' re L find deflt now fuel g _ y rfl m d

/-! the quarter loop: `while dt.quarter != q: dt = dt.add(months=3)` from the first of January -/

def qCond (q : Int) : DV → Bool := fun dt => ((refOps re L find deflt now).dt_quarter dt) != q
def qBody : DV → Except String DV := fun dt =>
  bindE ((refOps re L find deflt now).dt_add_months dt 3) fun dt_26 => .ok dt_26

theorem quarter_loop_found (q : Int) (hq : 1 ≤ q ∧ q ≤ 4) (y : Int) (hy : 1 ≤ y ∧ y ≤ 9999) :
    ∀ (f : Nat) (m : Int), (m = 1 ∨ m = 4 ∨ m = 7 ∨ m = 10) → m ≤ 3 * q - 2 → (3 * q - 2 - m) / 3 + 1 ≤ (f : Int) →
      pyWhile f (DV.ofYMD y m 1) (qCond re L find deflt now q) (qBody re L find deflt now) = .ok (DV.ofYMD y (3 * q - 2) 1) := by
  intro f
  induction f with
  | zero => intro m _ _ h; omega
  | succ f ih =>
    intro m hm hle hf
    unfold pyWhile
    by_cases hc : (m + 2) / 3 = q
    · have : m = 3 * q - 2 := by omega
      subst this
      simp [qCond, hc]
    · have c : qCond re L find deflt now q (DV.ofYMD y m 1) = true := by simp [qCond, hc]
      have h1 : (m + 3 - 1) / 12 = 0 := by omega
      have h2 : (m + 3 - 1) % 12 + 1 = m + 3 := by omega
      have hb : qBody re L find deflt now (DV.ofYMD y m 1) = .ok (DV.ofYMD y (m + 3) 1) := by
        have : ¬ (y < 1 ∨ y > 9999) := by omega
        simp [qBody, h1, h2, this]
      rw [if_pos c, hb, bindE_ok]
      exact ih (m + 3) (by omega) (by omega) (by omega)

theorem quarter_loop_overflow (q : Int) (hq : ¬ (1 ≤ q ∧ q ≤ 4)) :
    ∀ (f : Nat) (y m : Int), (1 ≤ y ∧ y ≤ 9999) → (m = 1 ∨ m = 4 ∨ m = 7 ∨ m = 10) →
      4 * (9999 - y) + (10 - m) / 3 + 1 ≤ (f : Int) →
      pyWhile f (DV.ofYMD y m 1) (qCond re L find deflt now q) (qBody re L find deflt now) = .error "ValueError" := by
  intro f
  induction f with
  | zero => intro y m hy hm h; omega
  | succ f ih =>
    intro y m hy hm hf
    unfold pyWhile
    have hc : ¬ (m + 2) / 3 = q := by omega
    have c : qCond re L find deflt now q (DV.ofYMD y m 1) = true := by simp [qCond, hc]
    rw [if_pos c]
    by_cases h10 : m = 10
    · subst h10
      by_cases hy9 : y = 9999
      · subst hy9
        simp [qBody]
      · have hb : qBody re L find deflt now (DV.ofYMD y 10 1) = .ok (DV.ofYMD (y + 1) 1 1) := by
          have : ¬ (y + 1 < 1 ∨ y + 1 > 9999) := by omega
          simp [qBody, this]
        rw [hb, bindE_ok]
        exact ih (y + 1) 1 (by omega) (by omega) (by omega)
    · have h1 : (m + 3 - 1) / 12 = 0 := by omega
      have h2 : (m + 3 - 1) % 12 + 1 = m + 3 := by omega
      have hb : qBody re L find deflt now (DV.ofYMD y m 1) = .ok (DV.ofYMD y (m + 3) 1) := by
        have : ¬ (y < 1 ∨ y > 9999) := by omega
        simp [qBody, h1, h2, this]
      rw [hb, bindE_ok]
      exact ih y (m + 3) hy (by omega) (by omega)

theorem validYMD_jan1 (y : Int) : validYMD y 1 1 = decide (1 ≤ y ∧ y ≤ 9999) := by
  have : Cal.validDate y 1 1 := by
    unfold Cal.validDate Cal.daysInMonth
    simp
  simp [validYMD, this]

theorem after_year_eq (hf : 40000 ≤ fuel) (q : Int) (dt : DV) (y : Int) (hdt : dt.y = y) (hy : 1 ≤ y ∧ y ≤ 9999)
    (y0 m d : Option Int) :
    Gen.Formatter.check_parsed_after_year (refOps re L find deflt now) fuel g (DV.ofNow now) (mkV g y0 m d g.hour) q dt =
      if 1 ≤ q ∧ q ≤ 4 then
        mapE ofResult (tailDoy (toParsed g) now (some y) (some (3 * q - 2)) (some 1))
      else .error "ValueError" := by
  ftie "Pendulum.Props.C08.check_parsed_source_eq_model" "Formatter._check_parsed (quarter loop)" =>
    unfold Gen.Formatter.check_parsed_after_year
    simp only [refOps_dt_start_of, show ("year" == "year") = true from by decide, if_true, bindE_ok, hdt]
    have hloop : pyWhile fuel (DV.ofYMD y 1 1) (fun dt => ((refOps re L find deflt now).dt_quarter dt) != q)
        (fun dt => bindE ((refOps re L find deflt now).dt_add_months dt 3) fun dt_26 => .ok dt_26) =
        if 1 ≤ q ∧ q ≤ 4 then .ok (DV.ofYMD y (3 * q - 2) 1) else .error "ValueError" := by
      by_cases hq : 1 ≤ q ∧ q ≤ 4
      · rw [if_pos hq]
        exact quarter_loop_found re L find deflt now q hq y hy fuel 1 (by omega) (by omega) (by omega)
      · rw [if_neg hq]
        exact quarter_loop_overflow re L find deflt now q hq fuel y 1 hy (by omega) (by omega)
    rw [hloop]
    by_cases hq : 1 ≤ q ∧ q ≤ 4
    · simp only [hq, and_self, if_true, bindE_ok, refOps_dt_year, refOps_dt_month, refOps_dt_day, DV_ofYMD_y, DV_ofYMD_m,
        DV_ofYMD_d, mkV_upd_year, mkV_upd_month, mkV_upd_day]
      exact after_quarter_eq re L find deflt now fuel g _ _ _
    · simp only [hq, if_false, bindE_error]

theorem pyFmtD6_facts (u : Int) (hu : 0 ≤ u) :
    (pyFmtD 6 u).takeWhile (· != '.') = pyFmtD 6 u ∧ Gen.Formatter.py_ljust (pyFmtD 6 u) 6 '0' = pyFmtD 6 u := by
  constructor
  · apply takeWhile_all
    have h := pyFmtD_all_digit 6 u hu
    rw [List.all_eq_true] at h ⊢
    intro c hc
    have := h c hc
    have : c ≠ '.' := by
      intro e; subst e; exact absurd this (by decide)
    simpa using this
  · have hl : 6 ≤ (pyFmtD 6 u).length := by
      rw [pyFmtD_nonneg 6 u hu, digitsW_length]; omega
    unfold Gen.Formatter.py_ljust
    rw [show 6 - (pyFmtD 6 u).length = 0 by omega]
    simp

/-- **`_check_parsed`**: the generated method equals the hand model, for every state of the `parsed` dictionary whose
    timestamp (if any) has its microseconds in range, every `now` with a year in 1..9999 and enough loop fuel -/
theorem check_parsed_tie (hf : 40000 ≤ fuel) (hnow : 1 ≤ now.year ∧ now.year ≤ 9999)
    (hts : ∀ f, g.timestamp = some f → 0 ≤ f.2 ∧ f.2 < 1000000) :
    Gen.Formatter.check_parsed (refOps re L find deflt now) fuel g (DV.ofNow now) =
      mapE ofResult (checkParsed (toParsed g) now) := by
  ftie "Pendulum.Props.C08.check_parsed_source_eq_model" "Formatter._check_parsed (timestamp branch and quarter block)" =>
    unfold Gen.Formatter.check_parsed
    cases hT : g.timestamp with
    | none =>
      rw [checkParsed_staged _ _ (by simp [hT])]
      have hv : (VDict.mk g.year g.month g.day g.hour g.minute g.second g.microsecond none : VDict TzP) =
          mkV g g.year g.month g.day g.hour := rfl
      simp only [hv, checkQuarter, toParsed_quarter, toParsed_year, toParsed_month, toParsed_day, mkV_year]
      cases hq : g.quarter with
      | none =>
        simp only [bindE_ok]
        exact after_quarter_eq re L find deflt now fuel g _ _ _
      | some q =>
        obtain ⟨yo, hyo⟩ : ∃ yo, g.year = yo := ⟨_, rfl⟩
        cases yo with
        | none =>
          simp only [hyo, Option.getD_none]
          rw [after_year_eq re L find deflt now fuel g hf q (DV.ofNow now) now.year rfl hnow]
          by_cases hq' : 1 ≤ q ∧ q ≤ 4
          · simp [hq', hnow]
          · simp [hq']
        | some yr =>
          simp only [hyo, Option.getD_some, refOps_pendulum_datetime, validYMD_jan1]
          by_cases hyr : 1 ≤ yr ∧ yr ≤ 9999
          · simp only [hyr, and_self, decide_true, if_true, bindE_ok]
            rw [after_year_eq re L find deflt now fuel g hf q (DV.ofYMD yr 1 1) yr rfl hyr]
            by_cases hq' : 1 ≤ q ∧ q ≤ 4
            · simp [hq']
            · simp [hq']
          · simp [hyr]
    | some f =>
      obtain ⟨secs, us⟩ := f
      obtain ⟨h0, h1⟩ := hts (secs, us) hT
      have hu : 0 ≤ fracDigits (secs, us) := by
        unfold fracDigits; split <;> (simp only []; omega)
      obtain ⟨e1, e2⟩ := pyFmtD6_facts _ hu
      have hmic : (if (decide (secs < 0) && (fracDigits (secs, us) != 0)) = true then 1000000 - fracDigits (secs, us)
          else fracDigits (secs, us)) = us := by
        unfold fracDigits
        by_cases a : secs < 0 <;> by_cases b : us = 0 <;> simp [a, b] <;> omega
      have hd : ∀ R : Str, List.dropWhile (fun x => x != '.') ('0' :: '.' :: R) = '.' :: R := by
        intro R; simp [List.dropWhile]
      have hfin : Gen.Formatter.check_parsed_after_str_us (refOps re L find deflt now) fuel g (DV.ofNow now)
          (VDict.mk g.year g.month g.day g.hour g.minute g.second g.microsecond none) (secs, us) us =
          mapE ofResult (checkParsed (toParsed g) now) := by
        unfold Gen.Formatter.check_parsed_after_str_us checkParsed
        simp only [toParsed_timestamp, hT, refOps_local_time]
        rfl
      simp only [refOps_float_str, List.contains_cons, Gen.Formatter.py_split_at1, refOps_py_int, refOps_float_lt0, hd, e1, e2,
        intOf_pyFmtD, bindE_ok, show ('.' == '.') = true from by decide, Bool.true_or, Bool.or_true, if_true]
      by_cases hc : (decide (secs < 0) && fracDigits (secs, us) != 0) = true
      · simp only [hc, if_true] at hmic ⊢
        rw [hmic]; exact hfin
      · simp only [hc, if_false, Bool.false_eq_true] at hmic ⊢
        rw [hmic]; exact hfin
end


end Pendulum.FormatterGen
