import Pendulum.Proofs.ZoneOps
import Pendulum.Model.Interval
/-! helper lemmas for Props/C05 -/
namespace Pendulum.Interval
open Pendulum Pendulum.Zone Pendulum.DTOps Pendulum.AddDur

theorem naive_offset (v : V) (h : aware v = false) : v.offset = 0 := by
  unfold aware at h
  unfold V.offset ZRef.table
  cases hz : v.z <;> simp [hz] at h ⊢

theorem strip_ok (v : V) (x : Int) (h : strip v = .ok x) : x = v.instant := by
  unfold strip at h
  unfold V.instant
  cases ha : aware v
  · simp only [ha, Bool.false_eq_true, if_false, Except.ok.injEq] at h
    rw [naive_offset v ha]; omega
  · simp only [ha, if_true] at h
    split at h
    · simp only [Except.ok.injEq] at h; omega
    · cases h

theorem delta_ok (s e : V) (same : Bool) (r : Int) (h : delta s e same = .ok r) : r = e.instant - s.instant := by
  unfold delta at h
  cases same
  · simp only [Bool.false_eq_true, if_false, Except.ok.injEq] at h
    unfold V.instant; omega
  · simp only [if_true] at h
    cases hs : strip s with
    | error x => simp [hs] at h
    | ok us =>
      cases he : strip e with
      | error x => simp [hs, he] at h
      | ok ue =>
        simp only [hs, he, Except.ok.injEq] at h
        rw [strip_ok s us hs, strip_ok e ue he] at h; omega

theorem delta_swap (s e : V) (same : Bool) (r : Int) (h : delta s e same = .ok r) : delta e s same = .ok (-r) := by
  unfold delta at h ⊢
  cases same
  · simp only [Bool.false_eq_true, if_false, Except.ok.injEq] at h ⊢; omega
  · simp only [if_true] at h ⊢
    cases hs : strip s with
    | error x => simp [hs] at h
    | ok us =>
      cases he : strip e with
      | error x => simp [hs, he] at h
      | ok ue =>
        simp only [hs, he, Except.ok.injEq] at h ⊢; omega

/-- the rendering of an instant in a well-formed zone denotes that instant -/
theorem rendered_instant (z : Z) (hz : z.WF) (u : Int) :
    (⟨.named z, (fromUtc z u).w, (fromUtc z u).fold⟩ : V).instant = u := by
  have := toUtc_fromUtc z hz u
  unfold toUtc at this
  unfold V.instant V.offset ZRef.table
  simpa using this

/-- wall order = instant order as soon as ONE of the two rendered wall values is not repeated -/
theorem wall_order_of_unique (z : Z) (hz : z.WF) (u u' : Int)
    (hu : z.woff false (fromUtc z u').w = z.woff true (fromUtc z u').w) :
    ((fromUtc z u).w > (fromUtc z u').w ↔ u > u') := by
  have hpre := (preimage_char z.trs z.init (u' + z.off u') u' hz).mp rfl
  have hg := hpre.1
  have hrt := toUtc_fromUtc z hz u'
  unfold toUtc at hrt
  unfold fromUtc at *
  unfold Z.woff Z.off at *
  simp only [] at *
  have hT : (u' + offAt z.init z.trs u') - wallOff false z.init z.trs (u' + offAt z.init z.trs u') = u' := by
    cases hf : foldAt z.init z.trs u' <;> (unfold Z.foldOf at hrt; rw [hf] at hrt) <;> omega
  constructor
  · intro hw
    rcases Int.lt_trichotomy u u' with h | h | h
    · have := lt_of_lt_unique z.trs z.init _ u hz hg hu (by omega); omega
    · subst h; omega
    · exact h
  · intro h
    exact gt_of_gt_unique z.trs z.init _ u hz hg hu (by omega)

/-- a valid (not skipped) in-range native value is taken over unchanged by `instance()` up to the fold bit of fixed zones -/
theorem instanceOf_instant (n o : V)
    (hvalid : ∀ z, n.z = .named z → ¬ (z.woff true n.w > z.woff false n.w))
    (h : instanceOf n = .ok o) : o.instant = n.instant := by
  unfold instanceOf create at h
  cases hz : n.z with
  | naive =>
    simp only [hz, Except.ok.injEq] at h
    rw [← h]; unfold V.instant V.offset ZRef.table; simp [hz]
  | fixed off =>
    simp only [hz, Except.ok.injEq] at h
    rw [← h]; unfold V.instant V.offset ZRef.table fixedZ Z.woff; simp [hz, wallOff]
  | named z =>
    have hv := hvalid z hz
    simp only [hz] at h
    unfold convertNaive at h
    simp only [hv, if_false, Bool.false_eq_true, and_false] at h
    split at h
    · simp only [Except.ok.injEq] at h
      rw [← h]; unfold V.instant V.offset ZRef.table; simp [hz]
    · cases h

/-- truncation toward zero of a non-positive amount -/
theorem tdiv_nonpos (len U : Int) (h : len ≤ 0) : Int.tdiv len U = -((-len) / U) := by
  have hn : 0 ≤ -len := by omega
  have := Int.neg_tdiv (-len) U
  rw [Int.neg_neg] at this
  rw [this, Int.tdiv_eq_ediv_of_nonneg hn]

/-! ### naive endpoints -/

theorem naive_not_aware (v : V) (h : v.z = .naive) : aware v = false := by
  unfold aware; rw [h]

theorem naive_instant (v : V) (h : v.z = .naive) : v.instant = v.w := by
  unfold V.instant; rw [naive_offset v (naive_not_aware v h)]; omega

theorem naive_strip (v : V) (h : v.z = .naive) : strip v = .ok v.w := by
  unfold strip; rw [naive_not_aware v h]; rfl

/-- two naive values (they share the tzinfo `None`): the subtraction never fails -/
theorem naive_delta (s e : V) (hs : s.z = .naive) (he : e.z = .naive) : delta s e true = .ok (e.w - s.w) := by
  unfold delta
  simp only [if_true, naive_strip s hs, naive_strip e he]

/-! ### calendar day counts -/

/-- the swap + sign of `precise_diff` cancels: `total_days` is the plain difference of the day numbers
    (operands that compare equal have equal day numbers) -/
theorem totalDays_plain (k1 k2 n1 n2 : Int) (heq : k1 = k2 → n1 = n2) : totalDays k1 k2 n1 n2 = n2 - n1 := by
  unfold totalDays
  by_cases c : k1 = k2
  · have := heq c; simp only [c, if_true]; omega
  · simp only [c, if_false]
    by_cases g : k1 > k2
    · simp only [g, decide_true, if_true]; omega
    · simp only [g, decide_false, Bool.false_eq_true, if_false]; omega

theorem dayOf_mono (a b : Int) (h : a ≤ b) : dayOf a ≤ dayOf b := by
  unfold dayOf DAY; omega

/-- Europe/Paris around 2013 (µs): CET, CEST from 2013-03-31T01:00Z, CET from 2013-10-27T01:00Z -/
def parisZ : Z := ⟨3600000000, [⟨1364691600000000, 7200000000⟩, ⟨1382835600000000, 3600000000⟩]⟩

theorem parisZ_wf : parisZ.WF := by unfold Z.WF parisZ; simp [Zone.WF, absI]

def lenOf : Except DTOps.Err Int → Option Int
  | .ok r => some r
  | .error _ => none

end Pendulum.Interval
