import Pendulum.Proofs.AddDur
/-! C04 additions to Proofs/AddDur.lean: `add_duration` (Model/AddDur.lean) equals the clean calendar
specification `calSpec`, and depends on the fixed-length amounts only through their total. -/
namespace Pendulum.AddDur
open Pendulum Pendulum.Cal

instance exceptDecEq {ε α : Type} [DecidableEq ε] [DecidableEq α] : DecidableEq (Except ε α)
  | .ok a, .ok b => if h : a = b then isTrue (by rw [h]) else isFalse (by intro e; cases e; exact h rfl)
  | .error a, .error b => if h : a = b then isTrue (by rw [h]) else isFalse (by intro e; cases e; exact h rfl)
  | .ok _, .error _ => isFalse (by intro e; cases e)
  | .error _, .ok _ => isFalse (by intro e; cases e)

/-- `normTime_total` with the projections spelled out -/
theorem normTime_total' (d h mi s us : Int) :
    totalUs (normTime d h mi s us).1 (normTime d h mi s us).2.1 (normTime d h mi s us).2.2.1
      (normTime d h mi s us).2.2.2.1 (normTime d h mi s us).2.2.2.2 = totalUs d h mi s us :=
  normTime_total d h mi s us

theorem addYMspec_month (y m years months : Int) :
    1 ≤ (addYMspec y m years months).2 ∧ (addYMspec y m years months).2 ≤ 12 := by
  unfold addYMspec; simp only []; omega

theorem wallToFields_tod (w : Int) : 0 ≤ (wallToFields w).2.2.2 ∧ (wallToFields w).2.2.2 < DAY := by
  unfold wallToFields DAY; simp only []; omega

/-- a valid date and a time of day are recovered from the wall value they denote -/
theorem wallToFields_fieldsToWall (y m d tod : Int) (hv : validDate y m d) (ht : 0 ≤ tod ∧ tod < DAY) :
    wallToFields (fieldsToWall y m d tod) = (y, m, d, tod) := by
  unfold wallToFields fieldsToWall
  have e1 : ((ymd2ord y m d - epochOrd) * DAY + tod) / DAY + epochOrd = ymd2ord y m d := by unfold DAY at *; omega
  have e2 : ((ymd2ord y m d - epochOrd) * DAY + tod) % DAY = tod := by unfold DAY at *; omega
  simp only [e1, e2, ord2ymd_ymd2ord y m d hv]

/-! ### `add_duration` = the calendar specification -/

/-- the property's own reading of `add_duration` on civil fields: month-index arithmetic for years and
    months, the day clamped to the reference length of the target month, then weeks, days and every time
    unit added on the calendar as one linear amount -/
def calSpec (w years months weeks days hours minutes seconds micros : Int) : Except Err Int :=
  let f := wallToFields w
  let ym := addYMspec f.1 f.2.1 years months
  if ym.1 < 1 ∨ ym.1 > 9999 then .error .valueError
  else
    let r := fieldsToWall ym.1 ym.2 (min f.2.2.1 (daysInMonth ym.1 ym.2)) f.2.2.2
              + (weeks * 7 + days) * DAY + hours * HOUR + minutes * MINUTE + seconds * US + micros
    if r < minWall ∨ r > maxWall then .error .overflow else .ok r

theorem addDuration_eq_calSpec (w years months weeks days hours minutes seconds micros : Int) :
    addDuration w years months weeks days hours minutes seconds micros
      = calSpec w years months weeks days hours minutes seconds micros := by
  have hv := wallToFields_valid w
  have nt := normTime_total' (days + weeks * 7) hours minutes seconds micros
  unfold addDuration calSpec
  generalize wallToFields w = f at hv
  obtain ⟨y, m, d, tod⟩ := f
  simp only [] at hv ⊢
  rw [addYM_spec y m years months ⟨hv.1, hv.2.1⟩]
  have hm2 := addYMspec_month y m years months
  generalize addYMspec y m years months = ym at hm2
  obtain ⟨y2, m2⟩ := ym
  simp only [] at hm2 ⊢
  rw [daysPerMonth_eq y2 m2 hm2, nt, Int.min_comm]
  have : totalUs (days + weeks * 7) hours minutes seconds micros =
      (weeks * 7 + days) * DAY + hours * HOUR + minutes * MINUTE + seconds * US + micros := by
    unfold totalUs DAY HOUR MINUTE US; omega
  rw [this]
  have e : ∀ a : Int, a + ((weeks * 7 + days) * DAY + hours * HOUR + minutes * MINUTE + seconds * US + micros)
      = a + (weeks * 7 + days) * DAY + hours * HOUR + minutes * MINUTE + seconds * US + micros := by intro a; omega
  simp only [e]

/-- the result of `add_duration` depends on (weeks, days, h, m, s, µs) only through their total -/
theorem addDuration_congr (w years months weeks days h mi s us weeks' days' h' mi' s' us' : Int)
    (e : totalUs (days + weeks * 7) h mi s us = totalUs (days' + weeks' * 7) h' mi' s' us') :
    addDuration w years months weeks days h mi s us = addDuration w years months weeks' days' h' mi' s' us' := by
  rw [addDuration_eq_calSpec, addDuration_eq_calSpec]
  unfold calSpec
  have : ∀ a : Int, a + (weeks * 7 + days) * DAY + h * HOUR + mi * MINUTE + s * US + us
      = a + (weeks' * 7 + days') * DAY + h' * HOUR + mi' * MINUTE + s' * US + us' := by
    intro a; unfold totalUs at e; unfold DAY HOUR MINUTE US; omega
  simp only [this]

end Pendulum.AddDur
