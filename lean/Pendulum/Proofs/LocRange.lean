import Pendulum.Proofs.Diff
import Pendulum.Gen.Locales
/-! Range of the regenerated CLDR `plural` / `ordinal` lambdas, one lemma per shipped locale (all `n : Int`),
and the lifting of per-locale facts to `∀ ℓ ∈ Gen.Locales.all`.  The list of locales is fixed here on purpose:
a locale added to or removed from `src/pendulum/locales` changes `Gen.Locales.all` and breaks `mem_all`. -/
namespace Pendulum.Loc.Range
open Pendulum.Loc Pendulum.Gen.Locales

theorem plural_cs (n : Int) : L_cs.loc.plural n ∈ L_cs.loc.pluralClasses := by
  show L_cs.plural n ∈ _
  unfold L_cs.plural
  repeat' split
  all_goals decide

theorem ordinal_cs (n : Int) : L_cs.loc.ordinal n ∈ L_cs.loc.ordinalClasses := by
  show L_cs.ordinal n ∈ _
  unfold L_cs.ordinal
  repeat' split
  all_goals decide

theorem plural_da (n : Int) : L_da.loc.plural n ∈ L_da.loc.pluralClasses := by
  show L_da.plural n ∈ _
  unfold L_da.plural
  repeat' split
  all_goals decide

theorem ordinal_da (n : Int) : L_da.loc.ordinal n ∈ L_da.loc.ordinalClasses := by
  show L_da.ordinal n ∈ _
  unfold L_da.ordinal
  repeat' split
  all_goals decide

theorem plural_de (n : Int) : L_de.loc.plural n ∈ L_de.loc.pluralClasses := by
  show L_de.plural n ∈ _
  unfold L_de.plural
  repeat' split
  all_goals decide

theorem ordinal_de (n : Int) : L_de.loc.ordinal n ∈ L_de.loc.ordinalClasses := by
  show L_de.ordinal n ∈ _
  unfold L_de.ordinal
  repeat' split
  all_goals decide

theorem plural_en (n : Int) : L_en.loc.plural n ∈ L_en.loc.pluralClasses := by
  show L_en.plural n ∈ _
  unfold L_en.plural
  repeat' split
  all_goals decide

theorem ordinal_en (n : Int) : L_en.loc.ordinal n ∈ L_en.loc.ordinalClasses := by
  show L_en.ordinal n ∈ _
  unfold L_en.ordinal
  repeat' split
  all_goals decide

theorem plural_en_gb (n : Int) : L_en_gb.loc.plural n ∈ L_en_gb.loc.pluralClasses := by
  show L_en_gb.plural n ∈ _
  unfold L_en_gb.plural
  repeat' split
  all_goals decide

theorem ordinal_en_gb (n : Int) : L_en_gb.loc.ordinal n ∈ L_en_gb.loc.ordinalClasses := by
  show L_en_gb.ordinal n ∈ _
  unfold L_en_gb.ordinal
  repeat' split
  all_goals decide

theorem plural_en_us (n : Int) : L_en_us.loc.plural n ∈ L_en_us.loc.pluralClasses := by
  show L_en_us.plural n ∈ _
  unfold L_en_us.plural
  repeat' split
  all_goals decide

theorem ordinal_en_us (n : Int) : L_en_us.loc.ordinal n ∈ L_en_us.loc.ordinalClasses := by
  show L_en_us.ordinal n ∈ _
  unfold L_en_us.ordinal
  repeat' split
  all_goals decide

theorem plural_es (n : Int) : L_es.loc.plural n ∈ L_es.loc.pluralClasses := by
  show L_es.plural n ∈ _
  unfold L_es.plural
  repeat' split
  all_goals decide

theorem ordinal_es (n : Int) : L_es.loc.ordinal n ∈ L_es.loc.ordinalClasses := by
  show L_es.ordinal n ∈ _
  unfold L_es.ordinal
  repeat' split
  all_goals decide

theorem plural_fa (n : Int) : L_fa.loc.plural n ∈ L_fa.loc.pluralClasses := by
  show L_fa.plural n ∈ _
  unfold L_fa.plural
  repeat' split
  all_goals decide

theorem ordinal_fa (n : Int) : L_fa.loc.ordinal n ∈ L_fa.loc.ordinalClasses := by
  show L_fa.ordinal n ∈ _
  unfold L_fa.ordinal
  repeat' split
  all_goals decide

theorem plural_fo (n : Int) : L_fo.loc.plural n ∈ L_fo.loc.pluralClasses := by
  show L_fo.plural n ∈ _
  unfold L_fo.plural
  repeat' split
  all_goals decide

theorem ordinal_fo (n : Int) : L_fo.loc.ordinal n ∈ L_fo.loc.ordinalClasses := by
  show L_fo.ordinal n ∈ _
  unfold L_fo.ordinal
  repeat' split
  all_goals decide

theorem plural_fr (n : Int) : L_fr.loc.plural n ∈ L_fr.loc.pluralClasses := by
  show L_fr.plural n ∈ _
  unfold L_fr.plural
  repeat' split
  all_goals decide

theorem ordinal_fr (n : Int) : L_fr.loc.ordinal n ∈ L_fr.loc.ordinalClasses := by
  show L_fr.ordinal n ∈ _
  unfold L_fr.ordinal
  repeat' split
  all_goals decide

theorem plural_he (n : Int) : L_he.loc.plural n ∈ L_he.loc.pluralClasses := by
  show L_he.plural n ∈ _
  unfold L_he.plural
  repeat' split
  all_goals decide

theorem ordinal_he (n : Int) : L_he.loc.ordinal n ∈ L_he.loc.ordinalClasses := by
  show L_he.ordinal n ∈ _
  unfold L_he.ordinal
  repeat' split
  all_goals decide

theorem plural_id (n : Int) : L_id.loc.plural n ∈ L_id.loc.pluralClasses := by
  show L_id.plural n ∈ _
  unfold L_id.plural
  repeat' split
  all_goals decide

theorem ordinal_id (n : Int) : L_id.loc.ordinal n ∈ L_id.loc.ordinalClasses := by
  show L_id.ordinal n ∈ _
  unfold L_id.ordinal
  repeat' split
  all_goals decide

theorem plural_it (n : Int) : L_it.loc.plural n ∈ L_it.loc.pluralClasses := by
  show L_it.plural n ∈ _
  unfold L_it.plural
  repeat' split
  all_goals decide

theorem ordinal_it (n : Int) : L_it.loc.ordinal n ∈ L_it.loc.ordinalClasses := by
  show L_it.ordinal n ∈ _
  unfold L_it.ordinal
  repeat' split
  all_goals decide

theorem plural_ja (n : Int) : L_ja.loc.plural n ∈ L_ja.loc.pluralClasses := by
  show L_ja.plural n ∈ _
  unfold L_ja.plural
  repeat' split
  all_goals decide

theorem ordinal_ja (n : Int) : L_ja.loc.ordinal n ∈ L_ja.loc.ordinalClasses := by
  show L_ja.ordinal n ∈ _
  unfold L_ja.ordinal
  repeat' split
  all_goals decide

theorem plural_ko (n : Int) : L_ko.loc.plural n ∈ L_ko.loc.pluralClasses := by
  show L_ko.plural n ∈ _
  unfold L_ko.plural
  repeat' split
  all_goals decide

theorem ordinal_ko (n : Int) : L_ko.loc.ordinal n ∈ L_ko.loc.ordinalClasses := by
  show L_ko.ordinal n ∈ _
  unfold L_ko.ordinal
  repeat' split
  all_goals decide

theorem plural_lt (n : Int) : L_lt.loc.plural n ∈ L_lt.loc.pluralClasses := by
  show L_lt.plural n ∈ _
  unfold L_lt.plural
  repeat' split
  all_goals decide

theorem ordinal_lt (n : Int) : L_lt.loc.ordinal n ∈ L_lt.loc.ordinalClasses := by
  show L_lt.ordinal n ∈ _
  unfold L_lt.ordinal
  repeat' split
  all_goals decide

theorem plural_nb (n : Int) : L_nb.loc.plural n ∈ L_nb.loc.pluralClasses := by
  show L_nb.plural n ∈ _
  unfold L_nb.plural
  repeat' split
  all_goals decide

theorem ordinal_nb (n : Int) : L_nb.loc.ordinal n ∈ L_nb.loc.ordinalClasses := by
  show L_nb.ordinal n ∈ _
  unfold L_nb.ordinal
  repeat' split
  all_goals decide

theorem plural_nl (n : Int) : L_nl.loc.plural n ∈ L_nl.loc.pluralClasses := by
  show L_nl.plural n ∈ _
  unfold L_nl.plural
  repeat' split
  all_goals decide

theorem ordinal_nl (n : Int) : L_nl.loc.ordinal n ∈ L_nl.loc.ordinalClasses := by
  show L_nl.ordinal n ∈ _
  unfold L_nl.ordinal
  repeat' split
  all_goals decide

theorem plural_nn (n : Int) : L_nn.loc.plural n ∈ L_nn.loc.pluralClasses := by
  show L_nn.plural n ∈ _
  unfold L_nn.plural
  repeat' split
  all_goals decide

theorem ordinal_nn (n : Int) : L_nn.loc.ordinal n ∈ L_nn.loc.ordinalClasses := by
  show L_nn.ordinal n ∈ _
  unfold L_nn.ordinal
  repeat' split
  all_goals decide

theorem plural_pl (n : Int) : L_pl.loc.plural n ∈ L_pl.loc.pluralClasses := by
  show L_pl.plural n ∈ _
  unfold L_pl.plural
  repeat' split
  all_goals decide

theorem ordinal_pl (n : Int) : L_pl.loc.ordinal n ∈ L_pl.loc.ordinalClasses := by
  show L_pl.ordinal n ∈ _
  unfold L_pl.ordinal
  repeat' split
  all_goals decide

theorem plural_pt_br (n : Int) : L_pt_br.loc.plural n ∈ L_pt_br.loc.pluralClasses := by
  show L_pt_br.plural n ∈ _
  unfold L_pt_br.plural
  repeat' split
  all_goals decide

theorem ordinal_pt_br (n : Int) : L_pt_br.loc.ordinal n ∈ L_pt_br.loc.ordinalClasses := by
  show L_pt_br.ordinal n ∈ _
  unfold L_pt_br.ordinal
  repeat' split
  all_goals decide

theorem plural_ru (n : Int) : L_ru.loc.plural n ∈ L_ru.loc.pluralClasses := by
  show L_ru.plural n ∈ _
  unfold L_ru.plural
  repeat' split
  all_goals decide

theorem ordinal_ru (n : Int) : L_ru.loc.ordinal n ∈ L_ru.loc.ordinalClasses := by
  show L_ru.ordinal n ∈ _
  unfold L_ru.ordinal
  repeat' split
  all_goals decide

theorem plural_sk (n : Int) : L_sk.loc.plural n ∈ L_sk.loc.pluralClasses := by
  show L_sk.plural n ∈ _
  unfold L_sk.plural
  repeat' split
  all_goals decide

theorem ordinal_sk (n : Int) : L_sk.loc.ordinal n ∈ L_sk.loc.ordinalClasses := by
  show L_sk.ordinal n ∈ _
  unfold L_sk.ordinal
  repeat' split
  all_goals decide

theorem plural_sv (n : Int) : L_sv.loc.plural n ∈ L_sv.loc.pluralClasses := by
  show L_sv.plural n ∈ _
  unfold L_sv.plural
  repeat' split
  all_goals decide

theorem ordinal_sv (n : Int) : L_sv.loc.ordinal n ∈ L_sv.loc.ordinalClasses := by
  show L_sv.ordinal n ∈ _
  unfold L_sv.ordinal
  repeat' split
  all_goals decide

theorem plural_tr (n : Int) : L_tr.loc.plural n ∈ L_tr.loc.pluralClasses := by
  show L_tr.plural n ∈ _
  unfold L_tr.plural
  repeat' split
  all_goals decide

theorem ordinal_tr (n : Int) : L_tr.loc.ordinal n ∈ L_tr.loc.ordinalClasses := by
  show L_tr.ordinal n ∈ _
  unfold L_tr.ordinal
  repeat' split
  all_goals decide

theorem plural_ua (n : Int) : L_ua.loc.plural n ∈ L_ua.loc.pluralClasses := by
  show L_ua.plural n ∈ _
  unfold L_ua.plural
  repeat' split
  all_goals decide

theorem ordinal_ua (n : Int) : L_ua.loc.ordinal n ∈ L_ua.loc.ordinalClasses := by
  show L_ua.ordinal n ∈ _
  unfold L_ua.ordinal
  repeat' split
  all_goals decide

theorem plural_zh (n : Int) : L_zh.loc.plural n ∈ L_zh.loc.pluralClasses := by
  show L_zh.plural n ∈ _
  unfold L_zh.plural
  repeat' split
  all_goals decide

theorem ordinal_zh (n : Int) : L_zh.loc.ordinal n ∈ L_zh.loc.ordinalClasses := by
  show L_zh.ordinal n ∈ _
  unfold L_zh.ordinal
  repeat' split
  all_goals decide

/-- case analysis over the shipped locales -/
theorem mem_all {P : Locale → Prop} (h_cs : P L_cs.loc) (h_da : P L_da.loc) (h_de : P L_de.loc) (h_en : P L_en.loc) (h_en_gb : P L_en_gb.loc) (h_en_us : P L_en_us.loc) (h_es : P L_es.loc) (h_fa : P L_fa.loc) (h_fo : P L_fo.loc) (h_fr : P L_fr.loc) (h_he : P L_he.loc) (h_id : P L_id.loc) (h_it : P L_it.loc) (h_ja : P L_ja.loc) (h_ko : P L_ko.loc) (h_lt : P L_lt.loc) (h_nb : P L_nb.loc) (h_nl : P L_nl.loc) (h_nn : P L_nn.loc) (h_pl : P L_pl.loc) (h_pt_br : P L_pt_br.loc) (h_ru : P L_ru.loc) (h_sk : P L_sk.loc) (h_sv : P L_sv.loc) (h_tr : P L_tr.loc) (h_ua : P L_ua.loc) (h_zh : P L_zh.loc) :
    ∀ ℓ ∈ Gen.Locales.all, P ℓ := by
  intro ℓ hℓ
  simp only [Gen.Locales.all, List.mem_cons, List.not_mem_nil, or_false] at hℓ
  rcases hℓ with rfl | rfl | rfl | rfl | rfl | rfl | rfl | rfl | rfl | rfl | rfl | rfl | rfl | rfl | rfl | rfl | rfl | rfl | rfl | rfl | rfl | rfl | rfl | rfl | rfl | rfl | rfl
  all_goals assumption

theorem plural_range_all : ∀ ℓ ∈ Gen.Locales.all, ∀ n, ℓ.plural n ∈ ℓ.pluralClasses :=
  mem_all plural_cs plural_da plural_de plural_en plural_en_gb plural_en_us plural_es plural_fa plural_fo plural_fr plural_he plural_id plural_it plural_ja plural_ko plural_lt plural_nb plural_nl plural_nn plural_pl plural_pt_br plural_ru plural_sk plural_sv plural_tr plural_ua plural_zh

theorem ordinal_range_all : ∀ ℓ ∈ Gen.Locales.all, ∀ n, ℓ.ordinal n ∈ ℓ.ordinalClasses :=
  mem_all ordinal_cs ordinal_da ordinal_de ordinal_en ordinal_en_gb ordinal_en_us ordinal_es ordinal_fa ordinal_fo ordinal_fr ordinal_he ordinal_id ordinal_it ordinal_ja ordinal_ko ordinal_lt ordinal_nb ordinal_nl ordinal_nn ordinal_pl ordinal_pt_br ordinal_ru ordinal_sk ordinal_sv ordinal_tr ordinal_ua ordinal_zh

end Pendulum.Loc.Range
