import Pendulum.Proofs.IntervalGen
/-! Tie of `Gen.Interval.new` (`Interval.__new__`) to `Model/Interval.lean` (C05): `new_eq_spec` is the syntactic step (generated
definition = the structured `newSpec`, for every class of endpoint), `coreNew_eq` / `new_eq` / `new_date_eq` / `new_raises` the semantic one. -/
set_option linter.unusedSimpArgs false
namespace Pendulum.IntervalGen
open Pendulum Pendulum.DTOps Pendulum.AddDur
open Pendulum.Gen.Interval (Ep Kind Cls Env Ops Self PDt InitRes Method EqRes isinst)

/-! ## `Interval.__new__` -/

def rebuiltNew (a : Ep) : Ep :=
  match a.kind with
  | .pdt => ⟨.ndt, a.year, a.month, a.day, a.hour, a.minute, a.second, a.microsecond, a.fold, a.tz⟩
  | .pdate => ⟨.ndate, a.year, a.month, a.day, 0, 0, 0, 0, false, 0⟩
  | _ => a

def shiftUtc (env : Env) (orig n : Ep) : Except String Ep :=
  match env.sub_td n (env.utcoffset orig) with
  | .error err => .error err
  | .ok t => .ok { t with tz := 0 }

def subM (env : Env) (a b : Ep) : Except String Int :=
  match env.sub a b with
  | .error err => .error err
  | .ok d => .ok d

def tailNew (env : Env) (e e' s'' : Ep) : Except String Int :=
  if (isinst e.kind .datetime && decide (e'.tz ≠ 0)) = true then
    match shiftUtc env e e' with
    | .error err => .error err
    | .ok e'' => subM env e'' s''
  else subM env e' s''

def coreNew (env : Env) (s e : Ep) : Except String Int :=
  if (isinst (rebuiltNew s).kind .datetime && isinst (rebuiltNew e).kind .datetime && decide ((rebuiltNew s).tz = (rebuiltNew e).tz)) = true then
    if decide ((rebuiltNew s).tz ≠ 0) = true then
      match shiftUtc env s (rebuiltNew s) with
      | .error err => .error err
      | .ok s'' => tailNew env e (rebuiltNew e) s''
    else tailNew env e (rebuiltNew e) (rebuiltNew s)
  else subM env (rebuiltNew e) (rebuiltNew s)

def newSpec (env : Env) (A B : Ep) (absolute : Bool) : Except String Int :=
  if (isinst A.kind .datetime != isinst B.kind .datetime) = true then .error "ValueError"
  else if (isinst A.kind .datetime && isinst B.kind .datetime && ((decide (A.tz = 0) && decide (B.tz ≠ 0)) || (decide (A.tz ≠ 0) && decide (B.tz = 0)))) = true then .error "TypeError"
  else if (absolute && env.gt A B) = true then coreNew env B A else coreNew env A B


theorem rebuiltNew_dt (A : Ep) (h : isinst A.kind .datetime = true) :
    rebuiltNew A = ⟨.ndt, A.year, A.month, A.day, A.hour, A.minute, A.second, A.microsecond, A.fold, A.tz⟩ := by
  obtain ⟨k, y, mo, d, hh, mi, s, us, f, tz⟩ := A
  cases k <;> simp [isinst] at h <;> rfl

theorem subM_ok (env : Env) (ok : EnvOk env) (a b : Ep) (hc : Compat a b) :
    subM env a b = .ok (if a.tz = b.tz then wallOf a - wallOf b else instOf env a - instOf env b) := by
  unfold subM; rw [ok.sub_ok a b hc]

theorem shiftUtc_spec (env : Env) (ok : EnvOk env) (orig n : Ep) (v : V) (hw : wallOf n = v.w)
    (ho : env.utcoffset orig = v.offset) (haw : Interval.aware v = true) :
    (∃ r, shiftUtc env orig n = .ok r ∧ wallOf r = v.w - v.offset ∧ r.tz = 0 ∧ Interval.strip v = .ok (v.w - v.offset)) ∨
    (shiftUtc env orig n = .error "OverflowError" ∧ Interval.strip v = .error .overflow) := by
  obtain ⟨h1, h2⟩ := ok.sub_td_ok n (env.utcoffset orig)
  rw [hw, ho] at h1 h2
  unfold shiftUtc Interval.strip
  rw [ho]
  simp only [haw, if_true]
  cases hr : inRange (v.w - v.offset)
  · right
    rw [h2 hr]
    simp
  · left
    obtain ⟨r, e1, e2⟩ := h1 hr
    rw [e1]
    exact ⟨_, rfl, by rw [wallOf_tz0, e2], rfl, by simp⟩

theorem coreNew_eq (env : Env) (ok : EnvOk env) (A B : Ep) (s e : V)
    (hA : Rep env A s) (hB : Rep env B e)
    (hdA : isinst A.kind .datetime = true) (hdB : isinst B.kind .datetime = true)
    (haw : Interval.aware s = Interval.aware e) :
    coreNew env A B = liftE (Interval.delta s e (decide (A.tz = B.tz))) := by
  have hA' := rebuiltNew_dt A hdA
  have hB' := rebuiltNew_dt B hdB
  have hz1 := rep_tz0 env A s hA
  have hz2 := rep_tz0 env B e hB
  have hwA : wallOf (rebuiltNew A) = s.w := by rw [hA']; exact hA.wall
  have hwB : wallOf (rebuiltNew B) = e.w := by rw [hB']; exact hB.wall
  have hiA : instOf env (rebuiltNew A) = s.instant := by
    rw [hA', instOf_kind env ok .ndt A.kind]; exact rep_instant env A s hA
  have hiB : instOf env (rebuiltNew B) = e.instant := by
    rw [hB', instOf_kind env ok .ndt B.kind]; exact rep_instant env B e hB
  have htA : (rebuiltNew A).tz = A.tz := by rw [hA']
  have htB : (rebuiltNew B).tz = B.tz := by rw [hB']
  have hkA : (rebuiltNew A).kind = .ndt := by rw [hA']
  have hkB : (rebuiltNew B).kind = .ndt := by rw [hB']
  unfold coreNew
  rw [hkA, hkB, htA, htB]
  simp only [isinst, Bool.true_and, hdB]
  by_cases h12 : A.tz = B.tz
  · simp only [h12, decide_true, if_true]
    unfold Interval.delta
    simp only [if_true]
    by_cases h0 : B.tz = 0
    · -- both naive
      have a1 : Interval.aware s = false := hz1.mp (by rw [h12]; exact h0)
      have a2 : Interval.aware e = false := hz2.mp h0
      simp only [h0, ne_eq, not_true_eq_false, decide_false, Bool.false_eq_true, if_false, tailNew, htB, Bool.and_false]
      rw [subM_ok env ok _ _ (by unfold Compat; rw [htA, htB, h12]), htA, htB, h12, if_pos rfl, hwA, hwB]
      unfold Interval.strip
      simp [a1, a2, liftE]
    · have a2 : Interval.aware e = true := by
        cases h : Interval.aware e
        · exact absurd (hz2.mpr h) h0
        · rfl
      have a1 : Interval.aware s = true := by rw [haw]; exact a2
      have ho1 : env.utcoffset A = s.offset := by
        have := hA.off; unfold offOf at this; rw [if_neg (by rw [h12]; exact h0)] at this; exact this
      have ho2 : env.utcoffset B = e.offset := by
        have := hB.off; unfold offOf at this; rw [if_neg h0] at this; exact this
      simp only [ne_eq, h0, not_false_eq_true, decide_true, if_true]
      rcases shiftUtc_spec env ok A (rebuiltNew A) s hwA ho1 a1 with ⟨r, e1, w1, t1, m1⟩ | ⟨e1, m1⟩
      · rw [e1, m1]
        simp only [tailNew, htB, hdB, ne_eq, h0, not_false_eq_true, decide_true, Bool.and_self, if_true]
        rcases shiftUtc_spec env ok B (rebuiltNew B) e hwB ho2 a2 with ⟨r2, e2, w2, t2, m2⟩ | ⟨e2, m2⟩
        · rw [e2, m2]
          simp only []
          rw [subM_ok env ok _ _ (by unfold Compat; rw [t1, t2]), t1, t2, if_pos rfl, w1, w2]
          rfl
        · rw [e2, m2]; rfl
      · rw [e1, m1]; rfl
  · simp only [h12, decide_false, Bool.false_eq_true, if_false]
    have hc : Compat (rebuiltNew B) (rebuiltNew A) := by
      unfold Compat; rw [htA, htB, hz1, hz2, haw]
    rw [subM_ok env ok _ _ hc, htA, htB, if_neg (fun h => h12 h.symm), hiA, hiB]
    unfold Interval.delta V.instant liftE
    simp only [Bool.false_eq_true, if_false]
    congr 1; omega

theorem new_eq_spec (env : Env) (A B : Ep) (absolute : Bool) :
    Gen.Interval.new env A B absolute = newSpec env A B absolute := by
  gen_tie "Pendulum.IntervalGen.new_eq_spec (under Props.C05.new_source_eq_model, neg_abs_source_eq_model)" "Gen/Interval.lean `new` (Interval.__new__ of interval.py)" =>
    cases hgt : env.gt A B <;>
    obtain ⟨kA, y1, mo1, d1, h1, mi1, s1, us1, f1, tz1⟩ := A <;>
    obtain ⟨kB, y2, mo2, d2, h2, mi2, s2, us2, f2, tz2⟩ := B <;>
    cases kA <;> cases kB <;> cases absolute <;>
      simp only [Gen.Interval.new, newSpec, coreNew, tailNew, subM, rebuiltNew, shiftUtc, isinst, hgt, Bool.false_and, Bool.true_and, Bool.and_true, Bool.and_false,
        Bool.not_true, Bool.not_false, Bool.or_false, Bool.false_or, bne_self_eq_false, Bool.false_eq_true, if_false, if_true,
        Bool.bne_true, Bool.bne_false, Bool.and_self] <;>
      (try rfl) <;>
      (by_cases h1 : tz1 = 0 <;> by_cases h2 : tz2 = 0 <;> by_cases h12 : tz1 = tz2 <;>
        (try simp only [h1, h2, h12, decide_true, decide_false, ne_eq, not_true_eq_false, not_false_eq_true, Bool.false_eq_true, if_false,
          if_true, Bool.and_self, Bool.and_false, Bool.false_and, Bool.or_self, Bool.or_false, Bool.false_or, Bool.true_and,
          Bool.and_true, Bool.not_true, Bool.not_false]) <;> (try rfl) <;> (try omega))
    done


/-! ### `new`: the source is the model -/

theorem compat_of (env : Env) (A B : Ep) (s e : V) (hA : Rep env A s) (hB : Rep env B e)
    (haw : Interval.aware s = Interval.aware e) : Compat A B := by
  unfold Compat
  rw [rep_tz0 env A s hA, rep_tz0 env B e hB, haw]

theorem compat_symm (A B : Ep) (h : Compat A B) : Compat B A := by unfold Compat at *; exact h.symm

/-- datetimes (either class), both naive or both aware: `Interval.__new__` as written is the model's `new` -/
theorem new_eq (env : Env) (ok : EnvOk env) (A B : Ep) (absolute : Bool) (s e : V)
    (hA : Rep env A s) (hB : Rep env B e)
    (hdA : isinst A.kind .datetime = true) (hdB : isinst B.kind .datetime = true)
    (haw : Interval.aware s = Interval.aware e) :
    Gen.Interval.new env A B absolute = liftE (Interval.new s e (decide (A.tz = B.tz)) absolute) := by
  have hc := compat_of env A B s e hA hB haw
  rw [new_eq_spec]
  unfold newSpec
  have c1 : (isinst A.kind Cls.datetime != isinst B.kind Cls.datetime) = false := by rw [hdA, hdB]; rfl
  have c2 : (isinst A.kind Cls.datetime && isinst B.kind Cls.datetime &&
      ((decide (A.tz = 0) && decide (B.tz ≠ 0)) || (decide (A.tz ≠ 0) && decide (B.tz = 0)))) = false := by
    unfold Compat at hc
    by_cases h : A.tz = 0
    · have := hc.mp h; simp [h, this]
    · have : ¬ B.tz = 0 := fun x => h (hc.mpr x)
      simp [h, this]
  rw [c1, c2]
  simp only [Bool.false_eq_true, if_false]
  have hgt : env.gt A B = Interval.gt s e (decide (A.tz = B.tz)) := by
    rw [ok.gt_ok A B hc, rep_instant env A s hA, rep_instant env B e hB, hA.wall, hB.wall]
    unfold Interval.gt
    by_cases h : A.tz = B.tz <;> simp [h]
  rw [hgt]
  unfold Interval.new
  cases hsw : (absolute && Interval.gt s e (decide (A.tz = B.tz)))
  · simp only [Bool.false_eq_true, if_false]
    exact coreNew_eq env ok A B s e hA hB hdA hdB haw
  · simp only [if_true]
    have := coreNew_eq env ok B A e s hB hA hdB hdA haw.symm
    rw [this]
    have e1 : decide (B.tz = A.tz) = decide (A.tz = B.tz) := by
      by_cases h : A.tz = B.tz
      · simp [h]
      · have : ¬ B.tz = A.tz := fun x => h x.symm
        simp [h, this]
    rw [e1]

/-- which exception when: exactly one endpoint is a datetime → ValueError; two datetimes, one naive and one aware → TypeError -/
theorem new_raises (env : Env) (A B : Ep) (absolute : Bool) :
    (isinst A.kind .datetime ≠ isinst B.kind .datetime → Gen.Interval.new env A B absolute = .error "ValueError") ∧
    (isinst A.kind .datetime = true → isinst B.kind .datetime = true → ¬ Compat A B →
      Gen.Interval.new env A B absolute = .error "TypeError") := by
  rw [new_eq_spec]
  unfold newSpec
  constructor
  · intro h
    have : (isinst A.kind Cls.datetime != isinst B.kind Cls.datetime) = true := by
      cases h1 : isinst A.kind Cls.datetime <;> cases h2 : isinst B.kind Cls.datetime <;> simp_all
    rw [this]; rfl
  · intro h1 h2 h3
    rw [h1, h2]
    unfold Compat at h3
    by_cases ha : A.tz = 0 <;> by_cases hb : B.tz = 0 <;> simp_all

/-- a `Date` endpoint (either class) denoting day number `a`: no tzinfo, midnight -/
structure DateRep (A : Ep) (a : Int) : Prop where
  kind : isinst A.kind .datetime = false
  tz : A.tz = 0
  tod : todOf A = 0
  wall : wallOf A = a * DAY

theorem rebuiltNew_date (A : Ep) (a : Int) (h : DateRep A a) :
    isinst (rebuiltNew A).kind .datetime = false ∧ (rebuiltNew A).tz = 0 ∧ wallOf (rebuiltNew A) = a * DAY := by
  obtain ⟨hk, htz, htod, hw⟩ := h
  obtain ⟨k, y, mo, d, hh, mi, s, us, f, tz⟩ := A
  cases k <;> simp [isinst] at hk
  · refine ⟨rfl, rfl, ?_⟩
    rw [← hw]
    unfold wallOf rebuiltNew
    simp only []
    rw [htod]; rfl
  · exact ⟨rfl, htz, hw⟩

/-- Date pairs: the length is the model's `dateNew` on day numbers -/
theorem new_date_eq (env : Env) (ok : EnvOk env) (A B : Ep) (absolute : Bool) (a b : Int)
    (hA : DateRep A a) (hB : DateRep B b) :
    Gen.Interval.new env A B absolute = .ok (Interval.dateNew a b absolute) := by
  rw [new_eq_spec]
  unfold newSpec
  have hc : Compat A B := by unfold Compat; rw [hA.tz, hB.tz]
  rw [hA.kind, hB.kind]
  simp only [bne_self_eq_false, Bool.false_and, Bool.false_eq_true, if_false]
  have hgt : env.gt A B = decide (a > b) := by
    rw [ok.gt_ok A B hc, hA.tz, hB.tz, if_pos rfl, hA.wall, hB.wall]
    unfold DAY
    by_cases h : a > b
    · have : a * 86400000000 > b * 86400000000 := by omega
      simp [h, this]
    · have : ¬ a * 86400000000 > b * 86400000000 := by omega
      simp [h, this]
  rw [hgt]
  obtain ⟨ka, ta, wa⟩ := rebuiltNew_date A a hA
  obtain ⟨kb, tb, wb⟩ := rebuiltNew_date B b hB
  have core : ∀ (X Y : Ep) (x y : Int), isinst (rebuiltNew X).kind .datetime = false → (rebuiltNew X).tz = 0 →
      wallOf (rebuiltNew X) = x * DAY → (rebuiltNew Y).tz = 0 → wallOf (rebuiltNew Y) = y * DAY →
      coreNew env X Y = .ok ((y - x) * DAY) := by
    intro X Y x y k1 t1 w1 t2 w2
    unfold coreNew
    rw [k1]
    simp only [Bool.false_and, Bool.false_eq_true, if_false]
    rw [subM_ok env ok _ _ (by unfold Compat; rw [t1, t2]), t1, t2, if_pos rfl, w1, w2]
    congr 1; unfold DAY; omega
  unfold Interval.dateNew
  cases hsw : (absolute && decide (a > b))
  · simp only [Bool.false_eq_true, if_false]
    exact core A B a b ka ta wa tb wb
  · simp only [if_true]
    exact core B A b a kb tb wb ta wa


end Pendulum.IntervalGen
