import Pendulum.Proofs.IntervalGen
/-! Tie of the component properties of `Gen.Interval` to `IntervalPD.Iv.components` (C06). -/
set_option linter.unusedSimpArgs false
namespace Pendulum.IntervalGen
open Pendulum Pendulum.DTOps Pendulum.AddDur
open Pendulum.Gen.Interval (Ep Kind Cls Env Ops Self PDt InitRes Method EqRes isinst)

/-! ## component properties, `in_*` -/

def pdtOf (p : PreciseDiff.PD) : PDt := ⟨p.years, p.months, p.days, p.hours, p.minutes, p.seconds, p.micros, p.totalDays⟩

/-- the ten getters as written in the source are the model's `Iv.components`; `hdays`: the sign of `Duration._days` is the
    sign the model derives from the elapsed microseconds -/
theorem components_eq {α : Type} (self : Self α) (i : IntervalPD.Iv) (hd : self.delta = pdtOf i.delta)
    (hdays : self.days < 0 ↔ i.elapsed ≤ -86400000000) :
    [Gen.Interval.p_years self, Gen.Interval.p_months self, Gen.Interval.p_weeks self, Gen.Interval.p_remaining_days self,
     Gen.Interval.p_hours self, Gen.Interval.p_minutes self, Gen.Interval.p_remaining_seconds self,
     Gen.Interval.p_microseconds self, Gen.Interval.in_months self, Gen.Interval.in_days self] = i.components := by
  gen_tie "Pendulum.IntervalGen.components_eq (under Props.C06.components_source_eq_model)" "Gen/Interval.lean component properties (years … microseconds, in_months, in_days)" =>
    simp only [Gen.Interval.p_years, Gen.Interval.p_months, Gen.Interval.p_weeks, Gen.Interval.p_remaining_days,
      Gen.Interval.p_hours, Gen.Interval.p_minutes, Gen.Interval.p_remaining_seconds, Gen.Interval.p_microseconds,
      Gen.Interval.in_months, Gen.Interval.in_days, Gen.Interval.intAbs, Gen.Interval.sign, hd, pdtOf, IntervalPD.Iv.components,
      PreciseDiff.weeksOf, PreciseDiff.remainingDaysOf, PreciseDiff.inMonthsOf, PreciseDiff.absI, PreciseDiff.sgn, decide_eq_true_eq]
    by_cases h1 : i.delta.days < 0 <;> by_cases h2 : self.days < 0 <;> by_cases h3 : i.elapsed ≤ -86400000000 <;>
      (try (exfalso; exact absurd (hdays.mp h2) h3)) <;> (try (exfalso; exact h2 (hdays.mpr h3))) <;>
      simp only [h1, h2, h3, if_true, if_false, List.cons.injEq, and_true, true_and] <;>
      (repeat' apply And.intro) <;> omega
    done

/-- the hypothesis `hdays` holds for the `_days` that `Duration.__new__` computes (model: `Pickle.normState`) -/
theorem days_sign_satisfiable (el : Int) : (Pickle.normState el 0 0).days < 0 ↔ el ≤ -86400000000 := by
  unfold Pickle.normState Pickle.sgn Pickle.absI
  simp only []
  by_cases h : el < 0
  · simp only [h, if_true]; omega
  · simp only [h, if_false]; omega


end Pendulum.IntervalGen
