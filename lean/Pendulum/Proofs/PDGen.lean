import Pendulum.Gen.PreciseDiff
import Pendulum.Model.PreciseDiff
/-! Tie between the *generated* translation of `_helpers.precise_diff` (`Pendulum.Gen.PreciseDiff`, regenerated from the
source on every run by tools/gen_precisediff.py) and the hand model `Pendulum.PreciseDiff.preciseDiffPy` the C06
theorems are stated about. Every generated definition is proved equal to its model counterpart for all integers;
`sourcePreciseDiff` chains the generated pieces with the three object-level operations the translator does not
express (`==`, `>` of `datetime`, `d - d.utcoffset()` on a naive copy), which stay hand-modelled (`pyEq`, `pyGt`,
`pyShift`) and are tied by the correspondence run only. -/
namespace Pendulum.PDGen
open Pendulum Pendulum.PreciseDiff

theorem ite_fst {α β} (c : Prop) [Decidable c] (a b : α × β) : (if c then a else b).1 = if c then a.1 else b.1 := by
  split <;> rfl
theorem ite_snd {α β} (c : Prop) [Decidable c] (a b : α × β) : (if c then a else b).2 = if c then a.2 else b.2 := by
  split <;> rfl

/-- the model's encoding convention for a `date` endpoint: its time-of-day fields are 0 (the model's `decompose`
    subtracts them where the code reads `d2.hour` alone) -/
def DateZero (e : E) : Prop := e.isDt = false → e.h = 0 ∧ e.mi = 0 ∧ e.s = 0 ∧ e.us = 0

/-- `sign = 1; if d1 > d2: …; sign = -1` -/
theorem sign_of_eq (sw : Bool) : Gen.PreciseDiff.sign_of sw = if sw then -1 else 1 := by
  first
    | (cases sw <;> rfl
       done)
    | (exfalso; fail "TIE BROKEN PDGen.sign_of_eq: `sign = 1; if d1 > d2: ...; sign = -1` of _helpers.precise_diff changed")

/-- `if d1 == d2: return PreciseDiff(0, …)` -/
theorem equal_result_eq : Gen.PreciseDiff.equal_result = PD.zero.toList := by
  first
    | rfl
    | (exfalso; fail "TIE BROKEN PDGen.equal_result_eq: the `d1 == d2` return of _helpers.precise_diff is no longer the zero tuple")

theorem total_days_eq (y1 m1 d1 y2 m2 d2 : Int) :
    Gen.PreciseDiff.total_days y1 m1 d1 y2 m2 d2 = Gen.day_number y2 m2 d2 - Gen.day_number y1 m1 d1 := by
  first
    | rfl
    | (simp only [Gen.PreciseDiff.total_days]; omega)
    | (exfalso; fail "TIE BROKEN PDGen.total_days_eq: `total_days = _day_number(d2...) - _day_number(d1...)` of _helpers.precise_diff changed")

/-- how the zone tag of the model (0 naive/`date`, > 0 a tzinfo with that name, < 0 an aware tzinfo without a name)
    appears to the zone-name block: truthiness of the tzinfo, result of `_get_tzinfo_name` -/
def tzTruthy (tag : Int) : Bool := decide (tag ≠ 0)
def tzName (tag : Int) : Option Nat := if tag > 0 then some tag.toNat else none

/-- the zone-name block computes the model's `sameTz` -/
theorem in_same_tz_eq (t1 t2 : Int) :
    Gen.PreciseDiff.in_same_tz (tzTruthy t1) (tzTruthy t2) (tzName t1) (tzName t2) =
      (decide (t1 = t2) && decide (t1 > 0)) := by
  first
    | (simp only [Gen.PreciseDiff.in_same_tz, tzTruthy, tzName]
       by_cases h1 : t1 > 0 <;> by_cases h2 : t2 > 0 <;> by_cases h3 : t1 = 0 <;> by_cases h4 : t2 = 0 <;>
         by_cases h5 : t1 = t2 <;> simp [h1, h2, h3, h4, h5] <;> omega
       done)
    | (exfalso; fail "TIE BROKEN PDGen.in_same_tz_eq: the zone-name block of _helpers.precise_diff (in_same_tz) is no longer the model's sameTz")

/-- the UTC shift is taken exactly when both values are datetimes and (`not in_same_tz or total_days == 0`) -/
theorem shift_taken_eq (dt1 dt2 same : Bool) (total : Int) :
    Gen.PreciseDiff.shift_taken dt1 dt2 same total = (dt2 && dt1 && (!same || decide (total = 0))) := by
  first
    | (simp only [Gen.PreciseDiff.shift_taken]
       cases dt1 <;> cases dt2 <;> cases same <;> by_cases h : total = 0 <;> simp [h]
       done)
    | (exfalso; fail "TIE BROKEN PDGen.shift_taken_eq: condition/position of the UTC shift in _helpers.precise_diff is no longer `both datetimes and (not in_same_tz or total_days == 0)`")

/-- the integer core (borrow cascade, month borrow with the table lookups, year borrow, signed tuple) is the model's
    `decompose` scaled by the sign — for ALL integer field values -/
theorem core_eq (e1 e2 : E) (sign total : Int) (hz : DateZero e1) :
    Gen.PreciseDiff.core e1.isDt e2.isDt sign total e1.y e1.m e1.d e1.h e1.mi e1.s e1.us
        e2.y e2.m e2.d e2.h e2.mi e2.s e2.us =
      ((decompose dimPy e1 e2 total).scale sign).toList := by
  obtain ⟨y1, m1, d1, h1, mi1, s1, us1, off1, tz1, dt1⟩ := e1
  obtain ⟨y2, m2, d2, h2, mi2, s2, us2, off2, tz2, dt2⟩ := e2
  simp only [DateZero] at hz
  simp only [Gen.PreciseDiff.core, decompose, timeDiff, dateDiff, PD.scale, PD.toList, dimPy, AddDur.daysPerMonth,
    ite_fst, ite_snd]
  first
    | (cases dt1 <;> cases dt2 <;> (try (obtain ⟨rfl, rfl, rfl, rfl⟩ := hz rfl)) <;> grind
       done)
    | (exfalso; fail "TIE BROKEN PDGen.core_eq: the integer core of _helpers.precise_diff (Gen.PreciseDiff.core) is no longer the model's decompose/timeDiff/dateDiff")

theorem pyShift_isDt (e : E) : (pyShift e).isDt = e.isDt := by
  unfold pyShift; split <;> rfl

/-- `precise_diff` as assembled from the generated definitions; hand-modelled: `pyEq`, `pyGt`, `pyShift` -/
def sourcePreciseDiff (a b : E) : List Int :=
  if pyEq a b then Gen.PreciseDiff.equal_result else
  let sw := pyGt a b
  let d1 := if sw then b else a
  let d2 := if sw then a else b
  let total := Gen.PreciseDiff.total_days d1.y d1.m d1.d d2.y d2.m d2.d
  let same := Gen.PreciseDiff.in_same_tz (tzTruthy d1.tz) (tzTruthy d2.tz) (tzName d1.tz) (tzName d2.tz)
  let sh := Gen.PreciseDiff.shift_taken d1.isDt d2.isDt same total
  let s1 := if sh then pyShift d1 else d1
  let s2 := if sh then pyShift d2 else d2
  Gen.PreciseDiff.core s1.isDt s2.isDt (Gen.PreciseDiff.sign_of sw) total s1.y s1.m s1.d s1.h s1.mi s1.s s1.us
    s2.y s2.m s2.d s2.h s2.mi s2.s s2.us

theorem source_eq_model (a b : E) (ha : DateZero a) (hb : DateZero b) :
    sourcePreciseDiff a b = (preciseDiffPy a b).toList := by
  unfold sourcePreciseDiff preciseDiffPy
  by_cases he : pyEq a b = true
  · simp only [he, if_true, equal_result_eq]
  · simp only [he, if_false, Bool.false_eq_true]
    simp only [total_days_eq, in_same_tz_eq, shift_taken_eq, sign_of_eq]
    apply core_eq
    intro hd
    by_cases hs : pyGt a b = true
    · simp only [hs, if_true] at hd ⊢
      split at hd
      · rename_i hc; rw [pyShift_isDt] at hd; simp [hd] at hc
      · split
        · rename_i hc; simp [hd] at hc
        · exact hb hd
    · simp only [hs, if_false, Bool.false_eq_true] at hd ⊢
      split at hd
      · rename_i hc; rw [pyShift_isDt] at hd; simp [hd] at hc
      · split
        · rename_i hc; simp [hd] at hc
        · exact ha hd

/-- the statements the translator records verbatim — tzinfo extraction and the naive/aware guard; the body of the UTC
    shift — as they were when the model (`pyShift`, the `E.tz` convention) was written -/
def expectedPrelude : String :=
  "tzinfo1: datetime.tzinfo | None = d1.tzinfo if isinstance(d1, datetime.datetime) else None\ntzinfo2: datetime.tzinfo | None = d2.tzinfo if isinstance(d2, datetime.datetime) else None\nif tzinfo1 is None and tzinfo2 is not None or (tzinfo2 is None and tzinfo1 is not None):\n    raise ValueError('Comparison between naive and aware datetimes is not supported')"
def expectedShiftBody : String :=
  "offset1 = d1.utcoffset()\noffset2 = d2.utcoffset()\nif offset1:\n    d1 = d1.replace(tzinfo=None) - offset1\nif offset2:\n    d2 = d2.replace(tzinfo=None) - offset2"

theorem prelude_pinned : Gen.PreciseDiff.preludeSource = expectedPrelude := by
  first
    | rfl
    | (exfalso; fail "TIE BROKEN PDGen.prelude_pinned: the tzinfo extraction / naive-aware guard of _helpers.precise_diff was edited (Gen.PreciseDiff.preludeSource)")
theorem shift_body_pinned : Gen.PreciseDiff.shiftSource = expectedShiftBody := by
  first
    | rfl
    | (exfalso; fail "TIE BROKEN PDGen.shift_body_pinned: the body of the UTC-shift block of _helpers.precise_diff was edited (Gen.PreciseDiff.shiftSource)")

end Pendulum.PDGen
