import Pendulum.Gen.WeekNav
import Pendulum.Proofs.WeekNav2
import Pendulum.Proofs.StartOfGen
import Pendulum.Proofs.GenTie
/-! Tie between the *generated* translation of the Date-level weekday navigation of date.py (`Pendulum.Gen.WeekNav`,
regenerated from the source on every run by tools/gen_weeknav.py) and the hand model `Pendulum.WeekNav`
(Model/WeekNav.lean, Date level: ordinals) the C16 theorems are stated about.

`env` is the reading of the generated parameter record: `weekday` / `add_days` are ordinal arithmetic,
`monthrange1` is the reference `daysInMonth`, `monthcalendar y m r c` is the model's `mcal` (a negative row counts
from `mrows`). A generated Date `D` denotes the ordinal `ordD`; `dOf` is the Date of an ordinal. Hypotheses, stated
explicitly: the instance is a valid date, weekdays are in 0..6, the `while` loops get an iteration bound ≥ 6. -/
set_option linter.unusedSimpArgs false
namespace Pendulum.WeekNavGen
open Pendulum Pendulum.Cal Pendulum.WeekNav
open Pendulum.Gen.WeekNav

def ordD (d : D) : Int := ymd2ord d.year d.month d.day
def dOf (o : Int) : D := ⟨(ord2ymd o).1, (ord2ymd o).2.1, (ord2ymd o).2.2⟩
def validD (d : D) : Prop := validDate d.year d.month d.day

def env : Env where
  weekday := fun d => dow (ordD d)
  monthrange1 := daysInMonth
  monthcalendar := fun y m r c =>
    mcal (dow (ymd2ord y m 1)) (daysInMonth y m)
      (if r < 0 then mrows (dow (ymd2ord y m 1)) (daysInMonth y m) + r else r) c
  add_days := fun d n => dOf (ordD d + n)

theorem ordD_dOf (o : Int) : ordD (dOf o) = o := (ymd2ord_ord2ymd o).1
theorem validD_dOf (o : Int) : validD (dOf o) := (ymd2ord_ord2ymd o).2
theorem dOf_ordD (d : D) (hv : validD d) : dOf (ordD d) = d := by
  gen_tie "Pendulum.WeekNavGen.dOf_ordD" "Gen/WeekNav.lean (regenerated from date.py / datetime.py)" =>
    unfold dOf ordD; rw [ord2ymd_ymd2ord _ _ _ hv]
theorem fields_ordD (d : D) (hv : validD d) : ord2ymd (ordD d) = (d.year, d.month, d.day) :=
  ord2ymd_ymd2ord _ _ _ hv

/-! ### `replace` / `set` -/

theorem set_eq (E : Env) (d : D) (oy om od : Option Int) :
    date_set E d oy om od = ⟨oy.getD d.year, om.getD d.month, od.getD d.day⟩ := by
  gen_tie "Pendulum.WeekNavGen.set_eq" "Gen/WeekNav.lean (regenerated from date.py / datetime.py)" =>
    simp only [date_set, date_replace]

/-! ### `next` / `previous`: the `while` loops -/

theorem next_loop_hit (wd : Int) (k : Nat) : ∀ (fuel : Nat) (o : Int), k ≤ fuel →
    (∀ j : Nat, j < k → dow (o + j) ≠ wd) → dow (o + k) = wd →
    date_next_loop env wd fuel (dOf o) = dOf (o + k) := by
  gen_tie "Pendulum.WeekNavGen.next_loop_hit" "Gen/WeekNav.lean (regenerated from date.py / datetime.py)" =>
    induction k with
    | zero =>
      intro fuel o _ _ h
      simp only [Int.natCast_zero, Int.add_zero] at h ⊢
      cases fuel <;> simp [date_next_loop, env, ordD_dOf, h]
    | succ k ih =>
      intro fuel o hf hne h
      cases fuel with
      | zero => omega
      | succ f =>
        have h0 := hne 0 (by omega)
        simp only [Int.natCast_zero, Int.add_zero] at h0
        have e : (decide (env.weekday (dOf o) ≠ wd)) = true := by simp [env, ordD_dOf, h0]
        have a : env.add_days (dOf o) 1 = dOf (o + 1) := by simp [env, ordD_dOf]
        simp only [date_next_loop, e, if_true, a]
        rw [ih f (o + 1) (by omega)
          (by intro j hj; have := hne (j + 1) (by omega); rw [show o + 1 + (j : Int) = o + ((j + 1 : Nat) : Int) by omega]; exact this)
          (by rw [show o + 1 + (k : Int) = o + ((k + 1 : Nat) : Int) by omega]; exact h)]
        congr 1; omega

theorem previous_loop_hit (wd : Int) (k : Nat) : ∀ (fuel : Nat) (o : Int), k ≤ fuel →
    (∀ j : Nat, j < k → dow (o - j) ≠ wd) → dow (o - k) = wd →
    date_previous_loop env wd fuel (dOf o) = dOf (o - k) := by
  gen_tie "Pendulum.WeekNavGen.previous_loop_hit" "Gen/WeekNav.lean (regenerated from date.py / datetime.py)" =>
    induction k with
    | zero =>
      intro fuel o _ _ h
      simp only [Int.natCast_zero, Int.sub_zero] at h ⊢
      cases fuel <;> simp [date_previous_loop, env, ordD_dOf, h]
    | succ k ih =>
      intro fuel o hf hne h
      cases fuel with
      | zero => omega
      | succ f =>
        have h0 := hne 0 (by omega)
        simp only [Int.natCast_zero, Int.sub_zero] at h0
        have e : (decide (env.weekday (dOf o) ≠ wd)) = true := by simp [env, ordD_dOf, h0]
        have a : env.add_days (dOf o) (-1) = dOf (o - 1) := by simp [env, ordD_dOf]; rfl
        simp only [date_previous_loop, e, if_true, a]
        rw [ih f (o - 1) (by omega)
          (by intro j hj; have := hne (j + 1) (by omega); rw [show o - 1 - (j : Int) = o - ((j + 1 : Nat) : Int) by omega]; exact this)
          (by rw [show o - 1 - (k : Int) = o - ((k + 1 : Nat) : Int) by omega]; exact h)]
        congr 1; omega

/-- `Date.next(wd)` is the model's `next` on ordinals -/
theorem next_eq (d : D) (wd : Int) (fuel : Nat) (hf : 6 ≤ fuel) (hwd : 0 ≤ wd ∧ wd ≤ 6) :
    date_next env fuel d (some wd) = .ok (dOf (WeekNav.next (ordD d) wd)) := by
  gen_tie "Pendulum.WeekNavGen.next_eq" "Gen/WeekNav.lean (regenerated from date.py / datetime.py)" =>
    have hg : ((decide (wd < 0)) || (decide (wd > 6))) = false := by simp; omega
    have a : env.add_days d 1 = dOf (ordD d + 1) := rfl
    simp only [date_next, Option.getD, hg, Bool.false_eq_true, if_false, a]
    congr 1
    rw [next_closed _ _ hwd]
    have hk : ∃ k : Nat, k ≤ 6 ∧ (k : Int) = (wd - dow (ordD d + 1)) % 7 :=
      ⟨((wd - dow (ordD d + 1)) % 7).toNat, by omega, by omega⟩
    obtain ⟨k, hk6, hk⟩ := hk
    rw [next_loop_hit wd k fuel _ (by omega)
      (by intro j hj; unfold dow at hk ⊢; omega) (by unfold dow at hk ⊢; omega)]
    unfold firstIn; rw [hk]

theorem previous_eq (d : D) (wd : Int) (fuel : Nat) (hf : 6 ≤ fuel) (hwd : 0 ≤ wd ∧ wd ≤ 6) :
    date_previous env fuel d (some wd) = .ok (dOf (WeekNav.previous (ordD d) wd)) := by
  gen_tie "Pendulum.WeekNavGen.previous_eq" "Gen/WeekNav.lean (regenerated from date.py / datetime.py)" =>
    have hg : ((decide (wd < 0)) || (decide (wd > 6))) = false := by simp; omega
    have a : env.add_days d (-1) = dOf (ordD d - 1) := rfl
    simp only [date_previous, Option.getD, hg, Bool.false_eq_true, if_false, a]
    congr 1
    rw [previous_closed _ _ hwd]
    have hk : ∃ k : Nat, k ≤ 6 ∧ (k : Int) = (dow (ordD d - 1) - wd) % 7 :=
      ⟨((dow (ordD d - 1) - wd) % 7).toNat, by omega, by omega⟩
    obtain ⟨k, hk6, hk⟩ := hk
    rw [previous_loop_hit wd k fuel _ (by omega)
      (by intro j hj; unfold dow at hk ⊢; omega) (by unfold dow at hk ⊢; omega)]
    unfold lastIn; rw [hk]

/-- an out-of-range weekday raises ValueError -/
theorem next_invalid (d : D) (wd : Int) (fuel : Nat) (hwd : wd < 0 ∨ 6 < wd) :
    date_next env fuel d (some wd) = .error "ValueError" ∧ date_previous env fuel d (some wd) = .error "ValueError" := by
  gen_tie "Pendulum.WeekNavGen.next_invalid" "Gen/WeekNav.lean (regenerated from date.py / datetime.py)" =>
    have hg : ((decide (wd < 0)) || (decide (wd > 6))) = true := by simp; omega
    simp only [date_next, date_previous, Option.getD, hg, if_true, and_self]

/-! ### `_first_of_*` / `_last_of_*` -/

theorem first_of_month_eq (d : D) (hv : validD d) (wd : Option Int) :
    ordD (date_first_of_month env d wd) = firstOfMonth (ordD d) wd := by
  gen_tie "Pendulum.WeekNavGen.first_of_month_eq" "Gen/WeekNav.lean (regenerated from date.py / datetime.py)" =>
    simp only [firstOfMonth, fields_ordD d hv]
    cases wd with
    | none => simp only [date_first_of_month, set_eq, Option.getD, ordD]
    | some w =>
      simp only [date_first_of_month, set_eq, Option.getD, ordD, firstDom, env]
      simp

theorem last_of_month_eq (d : D) (hv : validD d) (wd : Option Int) :
    ordD (date_last_of_month env d wd) = lastOfMonth (ordD d) wd := by
  gen_tie "Pendulum.WeekNavGen.last_of_month_eq" "Gen/WeekNav.lean (regenerated from date.py / datetime.py)" =>
    simp only [lastOfMonth, fields_ordD d hv]
    cases wd with
    | none => simp only [date_last_of_month, set_eq, Option.getD, ordD, env]
    | some w =>
      simp only [date_last_of_month, set_eq, Option.getD, ordD, lastDom, env]
      have e1 : mrows (dow (ymd2ord d.year d.month 1)) (daysInMonth d.year d.month) + -1 =
          mrows (dow (ymd2ord d.year d.month 1)) (daysInMonth d.year d.month) - 1 := by omega
      have e2 : mrows (dow (ymd2ord d.year d.month 1)) (daysInMonth d.year d.month) + -2 =
          mrows (dow (ymd2ord d.year d.month 1)) (daysInMonth d.year d.month) - 2 := by omega
      simp [e1, e2]

theorem month_of_valid (d : D) (hv : validD d) : 1 ≤ d.month ∧ d.month ≤ 12 := ⟨hv.1, hv.2.1⟩

theorem first_of_quarter_eq (d : D) (hv : validD d) (wd : Option Int) :
    ordD (date_first_of_quarter env d wd) = firstOfQuarter (ordD d) wd := by
  gen_tie "Pendulum.WeekNavGen.first_of_quarter_eq" "Gen/WeekNav.lean (regenerated from date.py / datetime.py)" =>
    have hq := quarter_bounds d.month (month_of_valid d hv)
    have hv' : validD ⟨d.year, quarter d.month * 3 - 2, 1⟩ := valid_first d.year (quarter d.month * 3 - 2) ⟨hq.1, by omega⟩
    simp only [firstOfQuarter, fields_ordD d hv, date_first_of_quarter, set_eq, Option.getD]
    exact first_of_month_eq _ hv' wd

theorem last_of_quarter_eq (d : D) (hv : validD d) (wd : Option Int) :
    ordD (date_last_of_quarter env d wd) = lastOfQuarter (ordD d) wd := by
  gen_tie "Pendulum.WeekNavGen.last_of_quarter_eq" "Gen/WeekNav.lean (regenerated from date.py / datetime.py)" =>
    have hq := quarter_bounds d.month (month_of_valid d hv)
    have hv' : validD ⟨d.year, quarter d.month * 3, 1⟩ := valid_first d.year (quarter d.month * 3) ⟨by omega, hq.2.1⟩
    simp only [lastOfQuarter, fields_ordD d hv, date_last_of_quarter, set_eq, Option.getD]
    exact last_of_month_eq _ hv' wd

theorem first_of_year_eq (d : D) (hv : validD d) (wd : Option Int) :
    ordD (date_first_of_year env d wd) = firstOfYear (ordD d) wd := by
  gen_tie "Pendulum.WeekNavGen.first_of_year_eq" "Gen/WeekNav.lean (regenerated from date.py / datetime.py)" =>
    have hv' : validD ⟨d.year, 1, d.day⟩ := (valid_jan _ _ _ hv).1
    simp only [firstOfYear, fields_ordD d hv, date_first_of_year, set_eq, Option.getD]
    exact first_of_month_eq _ hv' wd

theorem last_of_year_eq (d : D) (hv : validD d) (wd : Option Int) :
    ordD (date_last_of_year env d wd) = lastOfYear (ordD d) wd := by
  gen_tie "Pendulum.WeekNavGen.last_of_year_eq" "Gen/WeekNav.lean (regenerated from date.py / datetime.py)" =>
    have hv' : validD ⟨d.year, 12, d.day⟩ := (valid_jan _ _ _ hv).2
    simp only [lastOfYear, fields_ordD d hv, date_last_of_year, set_eq, Option.getD]
    exact last_of_month_eq _ hv' wd

/-! ### `_nth_of_*`: the `for _ in range(...)` loops -/

/-- ordinal reading of a `Self | None` result -/
def resOrd : Except String (Option D) → Option (Option Int)
  | .ok r => some (r.map ordD)
  | .error _ => none

theorem nth_month_loop (wd : Int) (fuel : Nat) (hf : 6 ≤ fuel) (hwd : 0 ≤ wd ∧ wd ≤ 6) (n : Nat) : ∀ o : Int,
    date_nth_of_month_loop env fuel wd n (dOf o) = .ok (dOf (iterNext n o wd)) := by
  gen_tie "Pendulum.WeekNavGen.nth_month_loop" "Gen/WeekNav.lean (regenerated from date.py / datetime.py)" =>
    induction n with
    | zero => intro o; simp only [date_nth_of_month_loop, iterNext]
    | succ n ih => intro o; simp only [date_nth_of_month_loop, next_eq _ wd fuel hf hwd, ordD_dOf, iterNext, ih]

theorem nth_quarter_loop (wd : Int) (fuel : Nat) (hf : 6 ≤ fuel) (hwd : 0 ≤ wd ∧ wd ≤ 6) (n : Nat) : ∀ o : Int,
    date_nth_of_quarter_loop env fuel wd n (dOf o) = .ok (dOf (iterNext n o wd)) := by
  gen_tie "Pendulum.WeekNavGen.nth_quarter_loop" "Gen/WeekNav.lean (regenerated from date.py / datetime.py)" =>
    induction n with
    | zero => intro o; simp only [date_nth_of_quarter_loop, iterNext]
    | succ n ih => intro o; simp only [date_nth_of_quarter_loop, next_eq _ wd fuel hf hwd, ordD_dOf, iterNext, ih]

theorem nth_year_loop (wd : Int) (fuel : Nat) (hf : 6 ≤ fuel) (hwd : 0 ≤ wd ∧ wd ≤ 6) (n : Nat) : ∀ o : Int,
    date_nth_of_year_loop env fuel wd n (dOf o) = .ok (dOf (iterNext n o wd)) := by
  gen_tie "Pendulum.WeekNavGen.nth_year_loop" "Gen/WeekNav.lean (regenerated from date.py / datetime.py)" =>
    induction n with
    | zero => intro o; simp only [date_nth_of_year_loop, iterNext]
    | succ n ih => intro o; simp only [date_nth_of_year_loop, next_eq _ wd fuel hf hwd, ordD_dOf, iterNext, ih]

theorem weekday_dOf (o : Int) : env.weekday (dOf o) = dow o := by simp only [env, ordD_dOf]

/-- the final `if <still inside the unit> then some … else none`, read on ordinals -/
theorem fin_eq (c : Bool) (p : Prop) [Decidable p] (hc : c = true ↔ p) (r : D) (k : Int) (hr : p → ordD r = k) :
    resOrd (if c then .ok (some r) else .ok none) = some (if p then some k else none) := by
  gen_tie "Pendulum.WeekNavGen.fin_eq" "Gen/WeekNav.lean (regenerated from date.py / datetime.py)" =>
    by_cases h : p
    · simp [resOrd, hc.mpr h, h, hr h]
    · have : c = false := by cases c <;> simp_all
      simp [resOrd, this, h]

theorem fin_eq' (c : Bool) (p : Prop) [Decidable p] (hc : c = true ↔ p) (r : D) (k : Int) (hr : ¬ p → ordD r = k) :
    resOrd (if c then .ok none else .ok (some r)) = some (if p then none else some k) := by
  gen_tie "Pendulum.WeekNavGen.fin_eq" "Gen/WeekNav.lean (regenerated from date.py / datetime.py)" =>
    by_cases h : p
    · simp [resOrd, hc.mpr h, h]
    · have : c = false := by cases c <;> simp_all
      simp [resOrd, this, h, hr h]

theorem count_eq (nth : Nat) (c : Prop) [Decidable c] :
    Int.toNat ((nth : Int) - (if (decide c) then (1 : Int) else 0)) = nth - (if c then 1 else 0) := by
  gen_tie "Pendulum.WeekNavGen.count_eq" "Gen/WeekNav.lean (regenerated from date.py / datetime.py)" =>
    by_cases h : c <;> simp [h] <;> omega

theorem nth_of_month_eq (d : D) (hv : validD d) (nth : Nat) (wd : Int) (fuel : Nat) (hf : 6 ≤ fuel)
    (hwd : 0 ≤ wd ∧ wd ≤ 6) :
    resOrd (date_nth_of_month env fuel d nth wd) = some (nthOfMonth (ordD d) nth wd) := by
  gen_tie "Pendulum.WeekNavGen.nth_of_month_eq" "Gen/WeekNav.lean (regenerated from date.py / datetime.py)" =>
    unfold date_nth_of_month nthOfMonth
    by_cases h1 : nth = 1
    · subst h1
      simp only [Int.natCast_one, decide_true, if_true, resOrd, Option.map, first_of_month_eq d hv]
    · have h1' : ((nth : Int) = 1) = False := by simp; omega
      have hm := month_of_valid d hv
      have hv1 : validD ⟨d.year, d.month, 1⟩ := valid_first d.year d.month hm
      have hdt : date_first_of_month env d none = dOf (ymd2ord d.year d.month 1) := by
        have := dOf_ordD ⟨d.year, d.month, 1⟩ hv1
        simp only [date_first_of_month, set_eq, Option.getD]; exact this.symm
      have hfo : firstOfMonth (ordD d) none = ymd2ord d.year d.month 1 := by
        simp only [firstOfMonth, fields_ordD d hv]
      simp only [h1', decide_false, Bool.false_eq_true, if_false, h1, hdt, weekday_dOf, count_eq,
        nth_month_loop wd fuel hf hwd, fields_ordD d hv, hfo, ord2ymd_ymd2ord _ _ _ hv1]
      generalize iterNext _ _ wd = K
      apply fin_eq
      · simp only [dOf, ord2ymd_ymd2ord _ _ _ hv1, Bool.and_eq_true, decide_eq_true_eq]
      · intro _; simp only [set_eq, Option.getD, ordD, dOf]

theorem nth_of_quarter_eq (d : D) (hv : validD d) (nth : Nat) (wd : Int) (fuel : Nat) (hf : 6 ≤ fuel)
    (hwd : 0 ≤ wd ∧ wd ≤ 6) :
    resOrd (date_nth_of_quarter env fuel d nth wd) = some (nthOfQuarter (ordD d) nth wd) := by
  gen_tie "Pendulum.WeekNavGen.nth_of_quarter_eq" "Gen/WeekNav.lean (regenerated from date.py / datetime.py)" =>
    unfold date_nth_of_quarter nthOfQuarter
    by_cases h1 : nth = 1
    · subst h1
      simp only [Int.natCast_one, decide_true, if_true, resOrd, Option.map, first_of_quarter_eq d hv]
    · have h1' : ((nth : Int) = 1) = False := by simp; omega
      have hm := month_of_valid d hv
      have hq := quarter_bounds d.month hm
      have hvq : validD ⟨d.year, quarter d.month * 3, 1⟩ := valid_first d.year (quarter d.month * 3) ⟨by omega, hq.2.1⟩
      have hvq1 : validD ⟨d.year, quarter (quarter d.month * 3) * 3 - 2, 1⟩ :=
        valid_first d.year (quarter (quarter d.month * 3) * 3 - 2) (by unfold quarter; omega)
      have hrep : date_replace env d (some d.year) (some ((d.month + 2) / 3 * 3)) (some 1) = ⟨d.year, quarter d.month * 3, 1⟩ := by
        simp only [date_replace, Option.getD, quarter]
      have hfq : date_first_of_quarter env ⟨d.year, quarter d.month * 3, 1⟩ none =
          dOf (ymd2ord d.year (quarter (quarter d.month * 3) * 3 - 2) 1) := by
        have := dOf_ordD ⟨d.year, quarter (quarter d.month * 3) * 3 - 2, 1⟩ hvq1
        simp only [date_first_of_quarter, date_first_of_month, set_eq, Option.getD]; exact this.symm
      have hfo : firstOfQuarter (ymd2ord d.year (quarter d.month * 3) 1) none =
          ymd2ord d.year (quarter (quarter d.month * 3) * 3 - 2) 1 := by
        simp only [firstOfQuarter, firstOfMonth, ord2ymd_ymd2ord _ _ _ hvq, ord2ymd_ymd2ord _ _ _ hvq1]
      simp only [h1', decide_false, Bool.false_eq_true, if_false, h1, hrep, hfq, weekday_dOf, count_eq,
        nth_quarter_loop wd fuel hf hwd, fields_ordD d hv, hfo, ord2ymd_ymd2ord _ _ _ hvq]
      generalize iterNext _ _ wd = K
      apply fin_eq'
      · simp only [dOf, ord2ymd_ymd2ord _ _ _ hvq, Bool.or_eq_true]
        exact ⟨fun h => h.elim (fun a => Or.inl (of_decide_eq_true a)) (fun a => Or.inr (of_decide_eq_true a)),
          fun h => h.elim (fun a => Or.inl (decide_eq_true a)) (fun a => Or.inr (decide_eq_true a))⟩
      · intro _; simp only [set_eq, Option.getD, ordD, dOf]

theorem nth_of_year_eq (d : D) (hv : validD d) (nth : Nat) (wd : Int) (fuel : Nat) (hf : 6 ≤ fuel)
    (hwd : 0 ≤ wd ∧ wd ≤ 6) :
    resOrd (date_nth_of_year env fuel d nth wd) = some (nthOfYear (ordD d) nth wd) := by
  gen_tie "Pendulum.WeekNavGen.nth_of_year_eq" "Gen/WeekNav.lean (regenerated from date.py / datetime.py)" =>
    unfold date_nth_of_year nthOfYear
    by_cases h1 : nth = 1
    · subst h1
      simp only [Int.natCast_one, decide_true, if_true, resOrd, Option.map, first_of_year_eq d hv]
    · have h1' : ((nth : Int) = 1) = False := by simp; omega
      have hvj : validD ⟨d.year, 1, d.day⟩ := (valid_jan _ _ _ hv).1
      have hv1 : validD ⟨d.year, 1, 1⟩ := valid_first d.year 1 (by omega)
      have hfy : date_first_of_year env d none = dOf (ymd2ord d.year 1 1) := by
        have := dOf_ordD ⟨d.year, 1, 1⟩ hv1
        simp only [date_first_of_year, date_first_of_month, set_eq, Option.getD]; exact this.symm
      have hfo : firstOfYear (ordD d) none = ymd2ord d.year 1 1 := by
        simp only [firstOfYear, firstOfMonth, fields_ordD d hv, ord2ymd_ymd2ord _ _ _ hvj]
      simp only [h1', decide_false, Bool.false_eq_true, if_false, h1, hfy, weekday_dOf, count_eq,
        nth_year_loop wd fuel hf hwd, fields_ordD d hv, hfo, ord2ymd_ymd2ord _ _ _ hv1]
      generalize iterNext _ _ wd = K
      apply fin_eq'
      · simp only [dOf, ord2ymd_ymd2ord _ _ _ hv1, decide_eq_true_eq]
      · intro _; simp only [set_eq, Option.getD, ordD, dOf]

/-! ### the dispatchers -/

def unitName : Unit' → String
  | .month => "month" | .quarter => "quarter" | .year => "year"

def unitOf? : String → Option Unit'
  | "month" => some .month | "quarter" => some .quarter | "year" => some .year | _ => none

theorem unitOf_none (s : String) (h1 : s ≠ "month") (h2 : s ≠ "quarter") (h3 : s ≠ "year") : unitOf? s = none := by
  gen_tie "Pendulum.WeekNavGen.unitOf_none" "Gen/WeekNav.lean (regenerated from date.py / datetime.py)" =>
    unfold unitOf?
    split <;> first | rfl | contradiction

def firstGen (E : Env) (d : D) (wd : Option Int) : Unit' → D
  | .month => date_first_of_month E d wd | .quarter => date_first_of_quarter E d wd | .year => date_first_of_year E d wd
def lastGen (E : Env) (d : D) (wd : Option Int) : Unit' → D
  | .month => date_last_of_month E d wd | .quarter => date_last_of_quarter E d wd | .year => date_last_of_year E d wd
def nthGen (E : Env) (fuel : Nat) (d : D) (nth wd : Int) : Unit' → Except String (Option D)
  | .month => date_nth_of_month E fuel d nth wd | .quarter => date_nth_of_quarter E fuel d nth wd
  | .year => date_nth_of_year E fuel d nth wd

syntax "dispatch3 " ident " with " term,* : tactic
macro_rules
  | `(tactic| dispatch3 $s with $[$defs],*) => `(tactic|
    (by_cases h1 : $s = "month"
     · subst h1; rfl
     by_cases h2 : $s = "quarter"
     · subst h2; rfl
     by_cases h3 : $s = "year"
     · subst h3; rfl
     rw [unitOf_none $s h1 h2 h3]
     simp [$[$defs:term],*, h1, h2, h3]))

theorem first_of_dispatch (E : Env) (d : D) (s : String) (wd : Option Int) :
    date_first_of E d s wd = (match unitOf? s with | some u => .ok (firstGen E d wd u) | none => .error "ValueError") := by
  gen_tie "Pendulum.WeekNavGen.first_of_dispatch" "Gen/WeekNav.lean (regenerated from date.py / datetime.py)" =>
    dispatch3 s with date_first_of

theorem last_of_dispatch (E : Env) (d : D) (s : String) (wd : Option Int) :
    date_last_of E d s wd = (match unitOf? s with | some u => .ok (lastGen E d wd u) | none => .error "ValueError") := by
  gen_tie "Pendulum.WeekNavGen.last_of_dispatch" "Gen/WeekNav.lean (regenerated from date.py / datetime.py)" =>
    dispatch3 s with date_last_of

theorem nth_of_dispatch (E : Env) (fuel : Nat) (d : D) (s : String) (nth wd : Int) :
    date_nth_of E fuel d s nth wd =
      (match unitOf? s with
       | some u => (match nthGen E fuel d nth wd u with
                    | .error e => .error e | .ok none => .error "PendulumException" | .ok (some r) => .ok r)
       | none => .error "ValueError") := by
  gen_tie "Pendulum.WeekNavGen.nth_of_dispatch" "Gen/WeekNav.lean (regenerated from date.py / datetime.py)" =>
    dispatch3 s with date_nth_of

/-! ### DateTime level: `next`, `previous`, `_first_of_month`, `_last_of_month`

The translated methods run on `Gen.StartOf.Inst` (read by `StartOfGen.inst`, as for C12) and hand over a `DtReq`;
`run` is the constructor layer that is not pendulum source: `self.add(days=n)` (the model's `addDays`) and
`datetime.datetime(y, m, d, …)`'s date validation followed by `DateTime.create` (`DTOps.create`). -/
section dt
open Pendulum.DTOps Pendulum.AddDur
open Pendulum.StartOfGen (inst instF callWall boundary_eq boundary_wall)
open Pendulum.Gen.StartOf (Inst Call dt_boundary days_in_month)

def dtEnv : DtEnv := ⟨env.monthcalendar⟩

def run (v : V) : Except String DtReq → Except DTOps.Err V
  | .ok (.add_days n) => addDays v n
  | .ok (.create c) =>
    if validDate c.year c.month c.day then create v.z (callWall c) c.fold false else .error .valueError
  | .error _ => .error .valueError

theorem inst_ord (w : Int) :
    ymd2ord (wallToFields w).1 (wallToFields w).2.1 (wallToFields w).2.2.1 = dayOrd w := by
  gen_tie "Pendulum.WeekNavGen.inst_ord" "Gen/WeekNav.lean (regenerated from date.py / datetime.py)" =>
    rw [StartOf.wallToFields_eq]; exact StartOf.fields_ord w

theorem inst_ymd (w : Int) :
    ((wallToFields w).1, (wallToFields w).2.1, (wallToFields w).2.2.1) = ord2ymd (dayOrd w) := by
  gen_tie "Pendulum.WeekNavGen.inst_ymd" "Gen/WeekNav.lean (regenerated from date.py / datetime.py)" =>
    rw [StartOf.wallToFields_eq]; rfl

/-- a `_boundary(y, m, d)` request, run through the constructor layer, is the model's `boundaryYMD` -/
theorem run_boundary (v : V) (wks wke y m d : Int) :
    run v (.ok (.create (dt_boundary (inst v wks wke) y m d false))) = boundaryYMD v y m d := by
  gen_tie "Pendulum.WeekNavGen.run_boundary" "Gen/WeekNav.lean (regenerated from date.py / datetime.py)" =>
    obtain ⟨z, w, f⟩ := v
    obtain ⟨a, b, c, _, e⟩ := boundary_eq z (wallToFields w).1 (wallToFields w).2.1 (wallToFields w).2.2.1
      (wallToFields w).2.2.2 f wks wke y m d false
    have hw := boundary_wall z (wallToFields w).1 (wallToFields w).2.1 (wallToFields w).2.2.1
      (wallToFields w).2.2.2 f wks wke y m d false
    simp only [Bool.false_eq_true, if_false] at e hw
    simp only [run, inst, a, b, c, e, hw, boundaryYMD, boundaryOrd, StartOf.edge]
    have : fieldsToWall y m d 0 = wallOf (ymd2ord y m d) 0 := by simp only [fieldsToWall, wallOf, WeekNav.DAY, AddDur.DAY]
    rw [this]

theorem run_boundary_ord (v : V) (wks wke k : Int) :
    run v (.ok (.create (dt_boundary (inst v wks wke) (ord2ymd k).1 (ord2ymd k).2.1 (ord2ymd k).2.2 false))) =
      boundaryOrd v k := by
  gen_tie "Pendulum.WeekNavGen.run_boundary_ord" "Gen/WeekNav.lean (regenerated from date.py / datetime.py)" =>
    rw [run_boundary]
    simp only [boundaryYMD, (ymd2ord_ord2ymd k).2, if_true, (ymd2ord_ord2ymd k).1]

theorem inst_weekday (v : V) (wks wke n : Int) : (inst v wks wke).weekday_at n = dow (dayOrd v.w + n) := by
  gen_tie "Pendulum.WeekNavGen.inst_weekday" "Gen/WeekNav.lean (regenerated from date.py / datetime.py)" =>
    simp only [inst, instF, inst_ord, StartOf.dow, dow]

theorem inst_add_days (v : V) (wks wke n : Int) : (inst v wks wke).date_add_days n = ord2ymd (dayOrd v.w + n) := by
  gen_tie "Pendulum.WeekNavGen.inst_add_days" "Gen/WeekNav.lean (regenerated from date.py / datetime.py)" =>
    simp only [inst, instF, inst_ord]

/-- `DateTime.next(wd, keep_time)` -/
theorem dt_next_eq (v : V) (wks wke wd : Int) (keep : Bool) (hwd : 0 ≤ wd ∧ wd ≤ 6) :
    dtNext v wd keep = run v (dt_next dtEnv (inst v wks wke) (some wd) keep) := by
  gen_tie "Pendulum.WeekNavGen.dt_next_eq" "Gen/WeekNav.lean (regenerated from date.py / datetime.py)" =>
    have hg : ((decide (wd < 0)) || (decide (wd > 6))) = false := by simp; omega
    simp only [dt_next, Option.getD, hg, Bool.false_eq_true, if_false, inst_weekday, inst_add_days, dtNext, vdow,
      Int.add_zero, Int.zero_add]
    cases keep
    · simp only [Bool.false_eq_true, if_false, run_boundary_ord]
    · simp only [if_true, run]

/-- `DateTime.previous(wd, keep_time)` -/
theorem dt_previous_eq (v : V) (wks wke wd : Int) (keep : Bool) (hwd : 0 ≤ wd ∧ wd ≤ 6) :
    dtPrevious v wd keep = run v (dt_previous dtEnv (inst v wks wke) (some wd) keep) := by
  gen_tie "Pendulum.WeekNavGen.dt_previous_eq" "Gen/WeekNav.lean (regenerated from date.py / datetime.py)" =>
    have hg : ((decide (wd < 0)) || (decide (wd > 6))) = false := by simp; omega
    simp only [dt_previous, Option.getD, hg, Bool.false_eq_true, if_false, inst_weekday, inst_add_days, dtPrevious, vdow,
      Int.add_zero, Int.zero_sub]
    cases keep
    · simp only [Bool.false_eq_true, if_false, run_boundary_ord]
      congr 1
    · simp only [if_true, run]

theorem inst_fields (v : V) (wks wke : Int) :
    (inst v wks wke).year = (ymdOf v).1 ∧ (inst v wks wke).month = (ymdOf v).2.1 := by
  gen_tie "Pendulum.WeekNavGen.inst_fields" "Gen/WeekNav.lean (regenerated from date.py / datetime.py)" =>
    have := inst_ymd v.w
    simp only [inst, instF, ymdOf, ← this, and_self]

/-- `DateTime._first_of_month(wd)` / `_last_of_month(wd)` -/
theorem dt_first_of_month_eq (v : V) (wks wke : Int) (wd : Option Int) :
    dtFirstOfMonth v wd = run v (.ok (dt_first_of_month dtEnv (inst v wks wke) wd)) := by
  gen_tie "Pendulum.WeekNavGen.dt_first_of_month_eq" "Gen/WeekNav.lean (regenerated from date.py / datetime.py)" =>
    obtain ⟨hy, hm⟩ := inst_fields v wks wke
    cases wd with
    | none => simp only [dt_first_of_month, run_boundary, hy, hm, dtFirstOfMonth]
    | some w =>
      simp only [dt_first_of_month, run_boundary, hy, hm, dtFirstOfMonth, firstDom, dtEnv, env]
      simp

theorem dt_last_of_month_eq (v : V) (wks wke : Int) (wd : Option Int) :
    dtLastOfMonth v wd = run v (.ok (dt_last_of_month dtEnv (inst v wks wke) wd)) := by
  gen_tie "Pendulum.WeekNavGen.dt_last_of_month_eq" "Gen/WeekNav.lean (regenerated from date.py / datetime.py)" =>
    obtain ⟨hy, hm⟩ := inst_fields v wks wke
    have hd : days_in_month (inst v wks wke) = daysInMonth (ymdOf v).1 (ymdOf v).2.1 := by
      simp only [days_in_month, hy, hm]; rfl
    cases wd with
    | none => simp only [dt_last_of_month, run_boundary, hy, hm, hd, dtLastOfMonth]
    | some w =>
      simp only [dt_last_of_month, run_boundary, hy, hm, dtLastOfMonth, lastDom, dtEnv, env]
      have e1 : ∀ a : Int, a + -1 = a - 1 := by intro a; omega
      have e2 : ∀ a : Int, a + -2 = a - 2 := by intro a; omega
      simp [e1, e2]

end dt

end Pendulum.WeekNavGen
