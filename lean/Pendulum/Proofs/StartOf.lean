import Pendulum.Proofs.StartOfCal
import Pendulum.Proofs.StartOfZone
/-! What `edge` (`DateTime._boundary`) and `create` return for a named zone, in closed form, and the instant the
result denotes. -/
namespace Pendulum.StartOf
open Pendulum Pendulum.Zone Pendulum.DTOps Pendulum.AddDur

/-- value built by `_boundary(…, last=False)` for boundary label `T` -/
def startVal (zt : Z) (T : Int) (f : Bool) : V :=
  if zt.woff true T > zt.woff false T then ⟨.named zt, T + (zt.woff true T - zt.woff false T), false⟩
  else if zt.woff false T > zt.woff true T then ⟨.named zt, T, false⟩
  else ⟨.named zt, T, f⟩

/-- value built by `_boundary(…, last=True)` -/
def endVal (zt : Z) (T : Int) (f : Bool) : V :=
  if zt.woff true T > zt.woff false T then ⟨.named zt, T - (zt.woff true T - zt.woff false T), false⟩
  else if zt.woff false T > zt.woff true T then ⟨.named zt, T, true⟩
  else ⟨.named zt, T, f⟩

theorem edge_start_eq (zt : Z) (T : Int) (f : Bool) :
    edge (.named zt) T false f =
      if inRange (startVal zt T f).w then .ok (startVal zt T f) else .error .overflow := by
  unfold edge edgeFold create convertNaive startVal
  by_cases c1 : zt.woff true T > zt.woff false T
  · have c0 : zt.woff false T ≠ zt.woff true T := by omega
    simp [c0, c1]
  · by_cases c2 : zt.woff false T > zt.woff true T
    · have c0 : zt.woff false T ≠ zt.woff true T := by omega
      simp [c0, c1, c2]
    · have c0 : zt.woff false T = zt.woff true T := by omega
      simp [c0]

theorem edge_end_eq (zt : Z) (T : Int) (f : Bool) :
    edge (.named zt) T true f =
      if inRange (endVal zt T f).w then .ok (endVal zt T f) else .error .overflow := by
  unfold edge edgeFold create convertNaive endVal
  by_cases c1 : zt.woff true T > zt.woff false T
  · have c0 : zt.woff false T ≠ zt.woff true T := by omega
    simp [c0, c1]
    have e : T + (zt.woff false T - zt.woff true T) = T - (zt.woff true T - zt.woff false T) := by omega
    rw [e]
  · by_cases c2 : zt.woff false T > zt.woff true T
    · have c0 : zt.woff false T ≠ zt.woff true T := by omega
      simp [c0, c1, c2]
    · have c0 : zt.woff false T = zt.woff true T := by omega
      simp [c0]

theorem named_instant (zt : Z) (w : Int) (f : Bool) : (⟨.named zt, w, f⟩ : V).instant = w - zt.woff f w := rfl

/-- the forward resolution of a skipped value reads the post-gap offset back -/
theorem woff_after_gap (zt : Z) (h : zt.WF) (T : Int) (hs : zt.skipped T = true) :
    zt.woff false (T + (zt.woff true T - zt.woff false T)) = zt.woff true T := by
  obtain ⟨s1, s2, _, _, _, _⟩ := gap_shift zt.trs zt.init T h hs
  have hr := roundtrip zt.trs zt.init (T - wallOff false zt.init zt.trs T) h
  rw [s1, s2] at hr
  unfold Z.woff
  have e : T + (wallOff true zt.init zt.trs T - wallOff false zt.init zt.trs T) =
      T - wallOff false zt.init zt.trs T + wallOff true zt.init zt.trs T := by omega
  rw [e]; exact hr

theorem woff_before_gap (zt : Z) (h : zt.WF) (T : Int) (hs : zt.skipped T = true) :
    zt.woff false (T - (zt.woff true T - zt.woff false T)) = zt.woff false T := by
  obtain ⟨_, _, s3, s4, _, _⟩ := gap_shift zt.trs zt.init T h hs
  have hr := roundtrip zt.trs zt.init (T - wallOff true zt.init zt.trs T) h
  rw [s3, s4] at hr
  unfold Z.woff
  have e : T - (wallOff true zt.init zt.trs T - wallOff false zt.init zt.trs T) =
      T - wallOff true zt.init zt.trs T + wallOff false zt.init zt.trs T := by omega
  rw [e]; exact hr

/-- the instant denoted by the start value is `T - utcoffset(T, fold=0)` in every case -/
theorem startVal_instant (zt : Z) (h : zt.WF) (T : Int) (f : Bool) :
    (startVal zt T f).instant = T - zt.woff false T := by
  unfold startVal
  by_cases c1 : zt.woff true T > zt.woff false T
  · have hs := (skipped_iff zt h T).mpr c1
    simp only [c1, if_true, named_instant]
    rw [woff_after_gap zt h T hs]; omega
  · by_cases c2 : zt.woff false T > zt.woff true T
    · simp only [c1, c2, if_true, if_false, named_instant]
    · simp only [c1, c2, if_false, named_instant]
      cases f
      · rfl
      · have : zt.woff false T = zt.woff true T := by omega
        rw [this]

/-- the instant denoted by the end value is `T - utcoffset(T, fold=1)` in every case -/
theorem endVal_instant (zt : Z) (h : zt.WF) (T : Int) (f : Bool) :
    (endVal zt T f).instant = T - zt.woff true T := by
  unfold endVal
  by_cases c1 : zt.woff true T > zt.woff false T
  · have hs := (skipped_iff zt h T).mpr c1
    simp only [c1, if_true, named_instant]
    rw [woff_before_gap zt h T hs]; omega
  · by_cases c2 : zt.woff false T > zt.woff true T
    · simp only [c1, c2, if_true, if_false, named_instant]
    · simp only [c1, c2, if_false, named_instant]
      cases f
      · have : zt.woff false T = zt.woff true T := by omega
        rw [this]
      · rfl

theorem startVal_w_ge (zt : Z) (T : Int) (f : Bool) : T ≤ (startVal zt T f).w := by
  unfold startVal; split
  · simp only []; omega
  · split <;> simp

theorem endVal_w_le (zt : Z) (T : Int) (f : Bool) : (endVal zt T f).w ≤ T := by
  unfold endVal; split
  · simp only []; omega
  · split <;> simp

/-- the start value is a genuine local time: the rendering of its own instant -/
theorem startVal_render (zt : Z) (h : zt.WF) (T : Int) (f : Bool) :
    (startVal zt T f).w = (T - zt.woff false T) + zt.off (T - zt.woff false T) := by
  unfold startVal
  by_cases c1 : zt.woff true T > zt.woff false T
  · have hs := (skipped_iff zt h T).mpr c1
    obtain ⟨s1, _⟩ := gap_shift zt.trs zt.init T h hs
    simp only [c1, if_true]
    unfold Z.off Z.woff at *; rw [s1]; omega
  · have hns : zt.skipped T = false := not_skipped_of_le zt h T c1
    have hp := pre false zt.trs zt.init T h hns
    have e : (if zt.woff false T > zt.woff true T then (⟨.named zt, T, false⟩ : V) else ⟨.named zt, T, f⟩).w = T := by
      split <;> rfl
    simp only [c1, if_false, e]
    unfold Z.off Z.woff at *; rw [hp]; omega

theorem endVal_render (zt : Z) (h : zt.WF) (T : Int) (f : Bool) :
    (endVal zt T f).w = (T - zt.woff true T) + zt.off (T - zt.woff true T) := by
  unfold endVal
  by_cases c1 : zt.woff true T > zt.woff false T
  · have hs := (skipped_iff zt h T).mpr c1
    obtain ⟨_, _, s3, _⟩ := gap_shift zt.trs zt.init T h hs
    simp only [c1, if_true]
    unfold Z.off Z.woff at *; rw [s3]; omega
  · have hns : zt.skipped T = false := not_skipped_of_le zt h T c1
    have hp := pre true zt.trs zt.init T h hns
    have e : (if zt.woff false T > zt.woff true T then (⟨.named zt, T, true⟩ : V) else ⟨.named zt, T, f⟩).w = T := by
      split <;> rfl
    simp only [c1, if_false, e]
    unfold Z.off Z.woff at *; rw [hp]; omega

/-- `create` on an ordinary wall value returns it unchanged -/
theorem create_unique (zt : Z) (T : Int) (f : Bool) (hu : zt.unique T) :
    create (.named zt) T f false = if inRange T then .ok ⟨.named zt, T, f⟩ else .error .overflow := by
  unfold create convertNaive
  have : zt.woff true T = zt.woff false T := hu.2.symm
  simp [this]

theorem unique_instant (zt : Z) (T : Int) (f : Bool) (hu : zt.unique T) :
    (⟨.named zt, T, f⟩ : V).instant = T - zt.woff false T := by
  rw [named_instant]; cases f
  · rfl
  · rw [hu.2]

end Pendulum.StartOf
