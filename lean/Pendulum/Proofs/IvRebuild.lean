import Pendulum.Proofs.MonthIndex
import Pendulum.Proofs.RangeAdd
/-! C06 at the level of pendulum values: `interval.start + interval` (`Iv.rebuild`, i.e. `DateTime.add` of the ten
getters) returns the end **as a value** (zone, wall time, instant) for intervals whose endpoints share a tzinfo with
a constant UTC offset: naive, UTC / any named zone without transitions, `FixedTimezone`. -/
namespace Pendulum.IntervalPD
open Pendulum Pendulum.Cal Pendulum.AddDur Pendulum.DTOps Pendulum.PreciseDiff

/-- a zone reference whose UTC offset never changes -/
inductive ConstZone : ZRef → Int → Prop
  | naive : ConstZone .naive 0
  | fixed (off : Int) : ConstZone (.fixed off) off
  | named (off : Int) : ConstZone (.named ⟨off, []⟩) off

theorem constZone_offset (z : ZRef) (off : Int) (h : ConstZone z off) (w : Int) (f : Bool) :
    (⟨z, w, f⟩ : V).offset = off ∧
    (match z.table with | some zt => zt.woff false w | none => 0) = off := by
  cases h <;> exact ⟨rfl, rfl⟩

theorem offset_of (v : V) (off : Int) (h : ConstZone v.z off) : v.offset = off :=
  (constZone_offset v.z off h v.w v.fold).1

/-- `DateTime.create` in a constant-offset zone keeps the wall time -/
theorem create_const (z : ZRef) (off : Int) (h : ConstZone z off) (w : Int) (f : Bool) (hr : inRange w = true) :
    ∃ r, create z w f false = .ok r ∧ r.z = z ∧ r.w = w := by
  cases h with
  | naive => exact ⟨_, rfl, rfl, rfl⟩
  | fixed off => exact ⟨_, rfl, rfl, rfl⟩
  | named off =>
    refine ⟨⟨.named ⟨off, []⟩, w, f⟩, ?_, rfl, rfl⟩
    simp [create, Zone.convertNaive, Zone.Z.woff, Zone.wallOff, hr]

/-- the fields `Interval.__init__` hands to `precise_diff` -/
theorem native_dt (e : EP) (hdt : e.isDt = true) :
    e.native = ⟨(wallToFields e.v.w).1, (wallToFields e.v.w).2.1, (wallToFields e.v.w).2.2.1,
      (wallToFields e.v.w).2.2.2 / HOUR, (wallToFields e.v.w).2.2.2 % HOUR / MINUTE,
      (wallToFields e.v.w).2.2.2 % MINUTE / US, (wallToFields e.v.w).2.2.2 % US,
      (match e.v.z.table with | some z => z.woff false e.v.w | none => 0) / US, e.tag, true⟩ := by
  unfold EP.native
  simp only [hdt, if_true]
  rfl

theorem native_facts (e : EP) (hdt : e.isDt = true) :
    e.native.Valid ∧ e.native.wallUs = e.v.w ∧ e.native.tz = e.tag ∧ e.native.isDt = true ∧
    e.native.y = (wallToFields e.v.w).1 ∧ e.native.m = (wallToFields e.v.w).2.1 ∧
    e.native.d = (wallToFields e.v.w).2.2.1 ∧ e.native.tod = (wallToFields e.v.w).2.2.2 := by
  have hv := wallToFields_valid e.v.w
  have ht := wallToFields_tod e.v.w
  have hrt := fieldsToWall_wallToFields e.v.w
  rw [native_dt e hdt]
  have htod : (⟨(wallToFields e.v.w).1, (wallToFields e.v.w).2.1, (wallToFields e.v.w).2.2.1,
      (wallToFields e.v.w).2.2.2 / HOUR, (wallToFields e.v.w).2.2.2 % HOUR / MINUTE,
      (wallToFields e.v.w).2.2.2 % MINUTE / US, (wallToFields e.v.w).2.2.2 % US,
      (match e.v.z.table with | some z => z.woff false e.v.w | none => 0) / US, e.tag, true⟩ : E).tod
      = (wallToFields e.v.w).2.2.2 := by
    unfold E.tod HOUR MINUTE US; simp only []; unfold DAY at ht; omega
  refine ⟨⟨hv, ?_⟩, ?_, rfl, rfl, rfl, rfl, rfl, htod⟩
  · unfold E.timeOK HOUR MINUTE US; simp only []; unfold DAY at ht; omega
  · unfold E.wallUs; rw [htod]; exact hrt

end Pendulum.IntervalPD

namespace Pendulum.PreciseDiff
open Pendulum Pendulum.Cal Pendulum.AddDur

theorem E.tod_range (x : E) (hx : x.Valid) : 0 ≤ x.tod ∧ x.tod < 86400000000 := by
  obtain ⟨_, t1, t2, t3, t4, t5, t6, t7, t8⟩ := hx
  unfold E.tod; omega

theorem E.tod_sec (x : E) : x.tod = x.secOfDay * 1000000 + x.us := by
  unfold E.tod E.secOfDay; omega

/-- order of the wall values ⇒ order of the field tuples, and back -/
theorem le_of_wallUs (x y : E) (hx : x.Valid) (hy : y.Valid) (h : x.wallUs ≤ y.wallUs) : x.le y := by
  have tx := E.tod_range x hx
  have ty := E.tod_range y hy
  unfold E.wallUs fieldsToWall DAY at h
  constructor
  · exact dateLe_of_ord_le _ _ _ _ _ _ hx.1 hy.1 (by omega)
  · rintro ⟨e1, e2, e3⟩
    rw [e1, e2, e3] at h; omega

theorem wallUs_of_le (x y : E) (hx : x.Valid) (hy : y.Valid) (h : x.le y) : x.wallUs ≤ y.wallUs := by
  have tx := E.tod_range x hx
  have ty := E.tod_range y hy
  obtain ⟨h1, h2⟩ := h
  unfold E.wallUs fieldsToWall DAY
  unfold dateLe at h1
  by_cases c : x.y = y.y ∧ x.m = y.m ∧ x.d = y.d
  · have := h2 c
    obtain ⟨e1, e2, e3⟩ := c
    rw [e1, e2, e3]; omega
  · have := ord_lt_of_lex x.y x.m x.d y.y y.m y.d hx.1 hy.1 (by omega)
    omega

/-- the UTC shift moves the wall value by the offset -/
theorem pyShift_wallUs (x : E) (hx : x.Valid) : (pyShift x).wallUs = x.wallUs - x.off * 1000000 := by
  obtain ⟨_, hi, hu⟩ := pyShift_spec x hx
  unfold E.wallUs fieldsToWall DAY
  rw [E.tod_sec, E.tod_sec, hu]
  unfold E.instSec at hi
  omega

theorem year_range_of_wallUs (x : E) (hx : x.Valid) (hr : minWall ≤ x.wallUs ∧ x.wallUs ≤ maxWall) :
    1 ≤ x.y ∧ x.y ≤ 9999 := by
  have tx := E.tod_range x hx
  have hw := wallToFields_fieldsToWall x.y x.m x.d x.tod hx.1 tx
  have := year_in_range x.wallUs hr
  unfold E.wallUs at this
  rw [hw] at this
  exact ⟨this.1, this.2.1⟩

/-- a same-offset pair that falls on one wall-clock day is decomposed after the UTC shift -/
theorem pd_same_day_shift (a b : E) (hda : a.isDt = true) (hdb : b.isDt = true)
    (hday : Gen.day_number b.y b.m b.d - Gen.day_number a.y a.m a.d = 0)
    (hgt : pyGt a b = false) (hne : pyEq a b = false) :
    preciseDiffPy a b = decompose dimPy (pyShift a) (pyShift b) 0 := by
  unfold preciseDiffPy
  simp only [hne, hgt, Bool.false_eq_true, if_false]
  rw [scale_one, hday]
  simp only [hda, hdb, decide_true, Bool.or_true, Bool.and_self, if_true]

/-- if adding canonical components to `wa − δ` gives `wb − δ` less than a day later, the components hold no years or
    months, so adding them to `wa` gives `wb` -/
theorem same_day_transfer (wa wb δ : Int) (Y M W D ho mi s us : Int)
    (hY : 0 ≤ Y) (hM : 0 ≤ M) (hW : 0 ≤ W) (hD : 0 ≤ D) (hh : 0 ≤ ho) (hmi : 0 ≤ mi) (hs : 0 ≤ s) (hus : 0 ≤ us)
    (h : addDuration (wa - δ) Y M W D ho mi s us = .ok (wb - δ)) (hlt : wb - wa < DAY)
    (hra : minWall ≤ wa ∧ wa ≤ maxWall) (hrb : minWall ≤ wb ∧ wb ≤ maxWall) :
    Y = 0 ∧ M = 0 ∧ addDuration wa Y M W D ho mi s us = .ok wb := by
  rw [addDuration_shift] at h
  have hT : 0 ≤ totalUs (D + W * 7) ho mi s us := by unfold totalUs; omega
  split at h
  · cases h
  · split at h
    · cases h
    · injection h with h
      have hn : Y * 12 + M = 0 := by
        by_cases c : Y * 12 + M = 0
        · exact c
        · have := shiftMonths_lt (wa - δ) 0 (Y * 12 + M) (by omega)
          rw [shiftMonths_zero] at this
          omega
      have hY0 : Y = 0 := by omega
      have hM0 : M = 0 := by omega
      refine ⟨hY0, hM0, ?_⟩
      rw [hn, shiftMonths_zero] at h
      rw [addDuration_shift, hn, shiftMonths_zero]
      have yr := year_in_range wa hra
      have c1 : ¬ ((monthIdx wa + 0) / 12 < 1 ∨ (monthIdx wa + 0) / 12 > 9999) := by
        rw [Int.add_zero]; omega
      have e : wa + totalUs (D + W * 7) ho mi s us = wb := by omega
      rw [if_neg c1, e]
      have c2 : ¬ (wb < minWall ∨ wb > maxWall) := by omega
      rw [if_neg c2]

end Pendulum.PreciseDiff

namespace Pendulum.IntervalPD
open Pendulum Pendulum.Cal Pendulum.AddDur Pendulum.DTOps Pendulum.PreciseDiff

theorem inRange_iff (w : Int) : inRange w = true ↔ (minWall ≤ w ∧ w ≤ maxWall) := by
  unfold inRange; simp

theorem native_off (e : EP) (hdt : e.isDt = true) (z : ZRef) (off : Int) (hcz : ConstZone z off) (hz : e.v.z = z) :
    e.native.off = off / US := by
  rw [native_dt e hdt]
  simp only []
  rw [hz, (constZone_offset z off hcz e.v.w false).2]

/-- from `helpers.add_duration` on the wall clock to `DateTime.add` in a constant-offset zone: if the components take the
    wall time `v.w` to `wb`, `v.add(...)` is the value with wall time `wb` in the same zone — through either branch of
    `add` (calendar units present: wall-clock arithmetic + `create`; absent: UTC arithmetic + conversion back) -/
theorem add_of_addDuration (v : V) (z : ZRef) (off : Int) (hcz : ConstZone z off) (hz : v.z = z)
    (Y M W D ho mi s us wb : Int)
    (h : addDuration v.w Y M W D ho mi s us = .ok wb)
    (hra : inRange v.w = true) (hrb : inRange wb = true)
    (hua : inRange (v.w - off) = true) (hub : inRange (wb - off) = true) :
    ∃ r, add v Y M W D ho mi s us = .ok r ∧ r.z = z ∧ r.w = wb := by
  have hoffv : v.offset = off := offset_of v off (by rw [hz]; exact hcz)
  unfold add
  by_cases hvar : Y ≠ 0 ∨ M ≠ 0 ∨ W ≠ 0 ∨ D ≠ 0
  · simp only [if_pos hvar, h]
    rw [hz]
    exact create_const z off hcz wb true hrb
  · have hY : Y = 0 := by omega
    have hM : M = 0 := by omega
    have hW : W = 0 := by omega
    have hD : D = 0 := by omega
    subst hY; subst hM; subst hW; subst hD
    rw [Range.addDuration_time v.w 0 0 ho mi s us ((inRange_iff _).mp hra)] at h
    have hb' := (inRange_iff _).mp hrb
    have hub' := (inRange_iff _).mp hub
    split at h
    · cases h
    · injection h with h
      simp only [if_neg hvar, hoffv]
      rw [Range.addDuration_time (v.w - off) 0 0 ho mi s us ((inRange_iff _).mp hua)]
      have c : ¬ (v.w - off + totalUs (0 + 0 * 7) ho mi s us < minWall ∨
          v.w - off + totalUs (0 + 0 * 7) ho mi s us > maxWall) := by omega
      rw [if_neg c]
      have e : v.w - off + totalUs (0 + 0 * 7) ho mi s us = wb - off := by omega
      rw [e]
      simp only []
      cases hcz with
      | naive =>
        simp only [hz]
        exact ⟨_, rfl, rfl, by simp⟩
      | fixed off =>
        simp only [hz]
        have e2 : wb - off + off = wb := by omega
        rw [e2, hrb]
        exact ⟨_, rfl, rfl, rfl⟩
      | named off =>
        simp only [hz, Zone.fromUtc, Zone.Z.off, Zone.offAt]
        have e2 : wb - off + off = wb := by omega
        rw [e2, hrb]
        exact ⟨_, rfl, rfl, rfl⟩

end Pendulum.IntervalPD

namespace Pendulum.PreciseDiff
open Pendulum Pendulum.Cal Pendulum.AddDur

/-- a `date` pair is decomposed like the pair of its midnights -/
theorem pd_date_as_datetime (y1 m1 d1 y2 m2 d2 : Int) :
    preciseDiffPy ⟨y1, m1, d1, 0, 0, 0, 0, 0, 0, false⟩ ⟨y2, m2, d2, 0, 0, 0, 0, 0, 0, false⟩ =
    preciseDiffPy ⟨y1, m1, d1, 0, 0, 0, 0, 0, 0, true⟩ ⟨y2, m2, d2, 0, 0, 0, 0, 0, 0, true⟩ := by
  have e1 : pyEq ⟨y1, m1, d1, 0, 0, 0, 0, 0, 0, false⟩ ⟨y2, m2, d2, 0, 0, 0, 0, 0, 0, false⟩ =
      pyEq ⟨y1, m1, d1, 0, 0, 0, 0, 0, 0, true⟩ ⟨y2, m2, d2, 0, 0, 0, 0, 0, 0, true⟩ := rfl
  have e2 : pyGt ⟨y1, m1, d1, 0, 0, 0, 0, 0, 0, false⟩ ⟨y2, m2, d2, 0, 0, 0, 0, 0, 0, false⟩ =
      pyGt ⟨y1, m1, d1, 0, 0, 0, 0, 0, 0, true⟩ ⟨y2, m2, d2, 0, 0, 0, 0, 0, 0, true⟩ := rfl
  unfold preciseDiffPy
  rw [e1, e2]
  cases pyEq ⟨y1, m1, d1, 0, 0, 0, 0, 0, 0, true⟩ ⟨y2, m2, d2, 0, 0, 0, 0, 0, 0, true⟩
  · cases pyGt ⟨y1, m1, d1, 0, 0, 0, 0, 0, 0, true⟩ ⟨y2, m2, d2, 0, 0, 0, 0, 0, 0, true⟩ <;>
      simp [decompose, timeDiff, pyShift]
  · rfl

/-- … and has no time components -/
theorem pd_date_time_zero (y1 m1 d1 y2 m2 d2 : Int) :
    (preciseDiffPy ⟨y1, m1, d1, 0, 0, 0, 0, 0, 0, false⟩ ⟨y2, m2, d2, 0, 0, 0, 0, 0, 0, false⟩).hours = 0 ∧
    (preciseDiffPy ⟨y1, m1, d1, 0, 0, 0, 0, 0, 0, false⟩ ⟨y2, m2, d2, 0, 0, 0, 0, 0, 0, false⟩).minutes = 0 ∧
    (preciseDiffPy ⟨y1, m1, d1, 0, 0, 0, 0, 0, 0, false⟩ ⟨y2, m2, d2, 0, 0, 0, 0, 0, 0, false⟩).seconds = 0 ∧
    (preciseDiffPy ⟨y1, m1, d1, 0, 0, 0, 0, 0, 0, false⟩ ⟨y2, m2, d2, 0, 0, 0, 0, 0, 0, false⟩).micros = 0 := by
  unfold preciseDiffPy
  cases pyEq ⟨y1, m1, d1, 0, 0, 0, 0, 0, 0, false⟩ ⟨y2, m2, d2, 0, 0, 0, 0, 0, 0, false⟩
  · cases pyGt ⟨y1, m1, d1, 0, 0, 0, 0, 0, 0, false⟩ ⟨y2, m2, d2, 0, 0, 0, 0, 0, 0, false⟩ <;>
      simp [decompose, PD.scale]
  · simp [PD.zero]

end Pendulum.PreciseDiff

namespace Pendulum.IntervalPD
open Pendulum Pendulum.Cal Pendulum.AddDur Pendulum.DTOps Pendulum.PreciseDiff

/-- the fields `Interval.__init__` hands to `precise_diff` for a `Date` -/
theorem native_date (e : EP) (hdt : e.isDt = false) :
    e.native = ⟨(wallToFields e.v.w).1, (wallToFields e.v.w).2.1, (wallToFields e.v.w).2.2.1, 0, 0, 0, 0, 0, 0, false⟩ := by
  unfold EP.native
  simp only [hdt, Bool.false_eq_true, if_false]

/-- the midnight `DateTime` of a `Date` endpoint has the same fields with `isDt = true` -/
theorem native_midnight (e : EP) (hmid : e.v.w % DAY = 0) (hz : e.v.z = .naive) :
    (⟨e.v, 0, true⟩ : EP).native =
      ⟨(wallToFields e.v.w).1, (wallToFields e.v.w).2.1, (wallToFields e.v.w).2.2.1, 0, 0, 0, 0, 0, 0, true⟩ := by
  rw [native_dt ⟨e.v, 0, true⟩ rfl]
  have ht : (wallToFields e.v.w).2.2.2 = 0 := by
    have : (wallToFields e.v.w).2.2.2 = e.v.w % DAY := rfl
    rw [this, hmid]
  simp only [ht, hz, ZRef.table]
  rfl

end Pendulum.IntervalPD

namespace Pendulum.IntervalPD
open Pendulum Pendulum.Cal Pendulum.AddDur Pendulum.DTOps Pendulum.PreciseDiff

theorem wallToFields_ord (w : Int) :
    ymd2ord (wallToFields w).1 (wallToFields w).2.1 (wallToFields w).2.2.1 = w / DAY + epochOrd := by
  unfold wallToFields; exact (ymd2ord_ord2ymd (w / DAY + epochOrd)).1

/-- the interval built with the compiled `precise_diff` rebuilds like the pure-Python one whenever the two helpers agree -/
theorem rebuild_rs_eq (a b : EP) (absolute : Bool)
    (h : ∀ x y : EP, (x = a ∧ y = b) ∨ (x = b ∧ y = a) → preciseDiffRs x.native y.native = preciseDiffPy x.native y.native) :
    (mk true a b absolute).rebuild = (mk false a b absolute).rebuild := by
  unfold Iv.rebuild mk
  simp only [Bool.false_eq_true, if_true, if_false]
  by_cases c : (absolute && gtEP a b) = true
  · simp only [c, if_true, h b a (Or.inr ⟨rfl, rfl⟩)]
  · simp only [c, Bool.false_eq_true, if_false, h a b (Or.inl ⟨rfl, rfl⟩)]

end Pendulum.IntervalPD
