import Pendulum.Proofs.ParseAllTop
/-! C17: what `parse()` does with a duration string (`P…`, no `/`) and with a string the ISO parser accepts — the bridge to the
value theorems of C13 (`Props/C13.lean`) and C07 (`Props/C07.lean`). -/
namespace Pendulum.ParseAll
open Pendulum Pendulum.Iso

variable (rk : IsoDur.Parsed → Bool)

/-- the backend names of the two parser models -/
def bd : Backend → IsoDur.Backend
  | .rust => .rust
  | .py => .py

theorem finish_eq (p : IsoDur.Parsed) :
    IsoDur.finish p = if durOk p then .ok (durOf p) else .error .tooLarge := by
  unfold durOk IsoDur.finish
  split <;> simp [durOf, Except.toBool]

theorem stripNl_head_P (cs : List Char) (hP : cs.head? = some 'P') : (stripNl cs).head? = some 'P' := by
  unfold stripNl
  split
  · cases cs with
    | nil => cases hP
    | cons c r =>
      simp only [List.head?_cons, Option.some.injEq] at hP
      subst hP
      cases r with
      | nil => rename_i hl; simp at hl
      | cons c2 r2 => simp [List.dropLast]
  · exact hP

theorem exactN_P (k : Nat) (r : List Char) : exactN .py (k + 1) 0 ('P' :: r) = none := by
  have : dv .py 'P' = none := by decide
  simp [exactN, this]

theorem cmTimeMatch_P (r : List Char) : cmTimeMatch ('P' :: r) = none := by
  have h1 : dv .py 'P' = none := by decide
  have h2 : up2 .py ('P' :: r) = (0, 0, 'P' :: r) := by simp [up2, h1]
  have h3 : optChar ' ' ('P' :: r) = (false, 'P' :: r) := by simp [optChar]
  unfold cmTimeMatch
  simp [h2, h3]

/-- the COMMON expression cannot match a string that starts with `P` -/
theorem commonParseDF_P (df : Bool) (cs : List Char) (hP : cs.head? = some 'P') : commonParseDF df cs = .error .parserError := by
  have h := stripNl_head_P cs hP
  unfold commonParseDF
  cases hs : stripNl cs with
  | nil => rw [hs] at h; cases h
  | cons c r =>
    rw [hs] at h
    simp only [List.head?_cons, Option.some.injEq] at h
    subst h
    simp [exactN_P, cmTry, cmTimeMatch_P]

theorem intervalRaw_noslash (b : Backend) (cs : List Char) (hs : cs.contains '/' = false) :
    parseIntervalRaw rk b cs = .error .parserError := by
  have hs' : ¬ '/' ∈ cs := by simpa using hs
  unfold parseIntervalRaw intervalHalves
  simp [hs']

/-- **a duration string under `strict=True`** (generic range predicate): the components the duration parser of C13 reads, range
    checked; every rejection is a `ParserError` -/
theorem parseAllG_duration (b : Backend) (o : Options) (du : Dateutil) (cs : List Char) (hP : cs.head? = some 'P')
    (hslash : cs.contains '/' = false) (hstrict : o.strict = true) (hascii : asciiDigits cs = cs) :
    parseAllG rk b o du cs = match IsoDur.parseParsed (bd b) cs with
      | .ok p => if rk p then .ok (.duration (durOf p)) else .error .parserError
      | .error _ => .error .parserError := by
  have hnow : cs ≠ ['n', 'o', 'w'] := by
    intro h; subst h; simp at hP
  unfold parseAllG
  rw [if_neg hnow]
  unfold baseParse isoAny
  rw [if_pos hP]
  cases b with
  | rust =>
    simp only [bd]
    cases hp : IsoDur.parseParsed .rust cs with
    | error e =>
      simp only [intervalRaw_noslash rk .rust cs hslash, commonParseDF_P _ cs hP, hstrict, if_true]
    | ok p =>
      simp only [finishOut]
  | py =>
    simp only [bd, hascii]
    cases hp : IsoDur.parseParsed .py cs with
    | error e =>
      simp only [intervalRaw_noslash rk .py cs hslash, commonParseDF_P _ cs hP, hstrict, if_true]
    | ok p =>
      cases hd : rk p
      · simp only [hd, Bool.false_eq_true, if_false, intervalRaw_noslash rk .py cs hslash, commonParseDF_P _ cs hP, hstrict, if_true]
      · simp only [if_true, finishOut, hd]

/-- `IsoDur.parse` (the entry point the theorems of `Props/C13.lean` are about) in terms of the components and `durOk` -/
theorem isoDur_parse_ok (b : IsoDur.Backend) (cs : List Char) (d : IsoDur.Dur) (h : IsoDur.parse b cs = .ok d) :
    ∃ p, IsoDur.parseParsed b cs = .ok p ∧ durOk p = true ∧ d = durOf p := by
  unfold IsoDur.parse at h
  cases hp : IsoDur.parseParsed b cs with
  | error e => rw [hp] at h; cases h
  | ok p =>
    rw [hp] at h
    have h' : IsoDur.finish p = .ok d := h
    rw [finish_eq] at h'
    cases hd : durOk p
    · rw [hd] at h'; cases h'
    · rw [hd] at h'
      have h'' : (Except.ok (durOf p) : Except IsoDur.Kind IsoDur.Dur) = .ok d := h'
      cases h''
      exact ⟨p, rfl, hd, rfl⟩

theorem isoDur_parse_err (b : IsoDur.Backend) (cs : List Char) (k : IsoDur.Kind) (h : IsoDur.parse b cs = .error k) :
    (∃ e, IsoDur.parseParsed b cs = .error e) ∨ ∃ p, IsoDur.parseParsed b cs = .ok p ∧ durOk p = false := by
  unfold IsoDur.parse at h
  cases hp : IsoDur.parseParsed b cs with
  | error e => exact Or.inl ⟨e, rfl⟩
  | ok p =>
    rw [hp] at h
    have h' : IsoDur.finish p = .error k := h
    rw [finish_eq] at h'
    cases hd : durOk p
    · exact Or.inr ⟨p, rfl, hd⟩
    · rw [hd] at h'
      have h'' : (Except.ok (durOf p) : Except IsoDur.Kind IsoDur.Dur) = .error k := h'
      cases h''

/-- **no wrap-around for durations**: under `strict=True`, if the C13 duration parser returns `d` for the string then `parse()`
    returns the Duration `d`, and if it rejects the string `parse()` raises `ParserError` -/
theorem parseAll_duration_value (b : Backend) (o : Options) (du : Dateutil) (cs : List Char) (hP : cs.head? = some 'P')
    (hslash : cs.contains '/' = false) (hstrict : o.strict = true) (hascii : asciiDigits cs = cs) :
    (∀ d, IsoDur.parse (bd b) cs = .ok d → parseAll b o du cs = .ok (.duration d)) ∧
    (∀ k, IsoDur.parse (bd b) cs = .error k → parseAll b o du cs = .error .parserError) := by
  have key := parseAllG_duration durOk b o du cs hP hslash hstrict hascii
  refine ⟨fun d h => ?_, fun k h => ?_⟩
  · obtain ⟨p, hp, hd, he⟩ := isoDur_parse_ok _ _ _ h
    show parseAllG durOk b o du cs = _
    rw [key, hp]
    subst he
    show (if durOk p = true then _ else _) = _
    rw [if_pos hd]
  · show parseAllG durOk b o du cs = _
    rw [key]
    rcases isoDur_parse_err _ _ _ h with ⟨e, he⟩ | ⟨p, hp, hd⟩
    · rw [he]
    · rw [hp]
      show (if durOk p = true then _ else _) = _
      rw [if_neg (by rw [hd]; exact Bool.false_ne_true)]

/-! ### strings accepted by the ISO date/time parser -/

theorem isoAny_of_iso (b : Backend) (cs : List Char) (v : Value) (h : parseIso b cs = .ok v) : isoAny rk b cs = .ok (.val v) := by
  have hP : cs.head? ≠ some 'P' := by
    intro hP
    cases b with
    | rust => simp [parseIso, rsParse, hP] at h
    | py => simp [parseIso, pyParse, hP] at h
  unfold isoAny
  rw [if_neg hP, h]

/-- `parse()` of a string that the ISO date/time parser of the backend accepts = that value, typed by `exact` / `tz` / `now` -/
theorem parseAllG_of_iso (b : Backend) (o : Options) (du : Dateutil) (cs : List Char) (v : Value)
    (h : parseIso b cs = .ok v) (hn : cs ≠ ['n', 'o', 'w']) :
    parseAllG rk b o du cs = finishOut rk b o (.iso (.val v)) := by
  unfold parseAllG
  rw [if_neg hn]
  unfold baseParse
  rw [isoAny_of_iso rk b cs v h]

/-- the typing step for a date/time value does not look at the backend or at the range predicate -/
theorem finishOut_val (b b' : Backend) (o : Options) (v : Value) :
    finishOut rk b o (.iso (.val v)) = finishOut rk b' o (.iso (.val v)) := by
  simp only [finishOut]

theorem parseAll_of_iso (b : Backend) (o : Options) (du : Dateutil) (cs : List Char) (v : Value)
    (h : parseIso b cs = .ok v) (hn : cs ≠ ['n', 'o', 'w']) :
    parseAll b o du cs = finishOut durOk b o (.iso (.val v)) :=
  parseAllG_of_iso durOk b o du cs v h hn

/-! ### ASCII strings are not changed by the digit normalisation -/

theorem ndDigit_ascii : ∀ n, n < 128 → ndDigit n = (if 48 ≤ n ∧ n ≤ 57 then some (n - 48) else none) := by
  decide +kernel

theorem asciiDigits_ascii (cs : List Char) (h : ∀ c ∈ cs, c.toNat < 128) : asciiDigits cs = cs := by
  unfold asciiDigits
  induction cs with
  | nil => rfl
  | cons c r ih =>
    have hc := h c (List.mem_cons_self ..)
    have hr := ih (fun x hx => h x (List.mem_cons_of_mem _ hx))
    simp only [List.map_cons, hr]
    congr 1
    simp only [dv, ndDigit_ascii c.toNat hc]
    split
    · rename_i d hd
      split at hd
      · rename_i hrange
        injection hd with hd
        subst hd
        unfold digitChar
        have : 48 + (c.toNat - 48) = c.toNat := by omega
        rw [this]
        exact Char.ofNat_toNat c
      · cases hd
    · rfl

end Pendulum.ParseAll
