import Pendulum.Model.TimeOfDay
/-! helper lemmas for C20: the carry normalisation of `add_duration` preserves the total -/
namespace Pendulum.TimeOfDay

theorem carry_total (x lim base next : Int) :
    (carry x lim base next).1 + base * (carry x lim base next).2 = x + base * next := by
  unfold carry
  by_cases hbig : absI x > lim
  · simp only [hbig, if_true]
    unfold sgn
    by_cases hneg : x < 0
    · simp only [hneg, if_true]
      have h1 := Int.emod_add_mul_ediv (x * -1) base
      have e1 : x * -1 % base * -1 = -(x * -1 % base) := by omega
      have e2 : base * (next + x * -1 / base * -1) = base * next - base * (x * -1 / base) := by
        rw [Int.mul_add, Int.mul_comm (x * -1 / base) (-1), ← Int.mul_assoc, Int.mul_neg_one, Int.neg_mul]; omega
      rw [e1, e2]; omega
    · simp only [hneg, if_false, Int.mul_one]
      have h1 := Int.emod_add_mul_ediv x base
      rw [Int.mul_add]; omega
  · simp only [hbig, if_false]

/-- the normalised components denote the same number of microseconds as the arguments -/
theorem normTime_total (h mi s us : Int) :
    totalUs (normTime h mi s us).1 (normTime h mi s us).2.1 (normTime h mi s us).2.2.1
      (normTime h mi s us).2.2.2.1 (normTime h mi s us).2.2.2.2 = amount h mi s us := by
  have c1 := carry_total us 999999 1000000 s
  have c2 := carry_total (carry us 999999 1000000 s).2 59 60 mi
  have c3 := carry_total (carry (carry us 999999 1000000 s).2 59 60 mi).2 59 60 h
  have c4 := carry_total (carry (carry (carry us 999999 1000000 s).2 59 60 mi).2 59 60 h).2 23 24 0
  simp only [normTime, amount, totalUs]
  omega

theorem add_eq (t h mi s us : Int) :
    add t h mi s us =
      (if epochOrd + (t + amount h mi s us) / DAY < 1 ∨ epochOrd + (t + amount h mi s us) / DAY > maxOrd
       then .error .overflowError else .ok ((t + amount h mi s us) % DAY)) := by
  have hn := normTime_total h mi s us
  unfold add
  simp only [← hn]

end Pendulum.TimeOfDay
