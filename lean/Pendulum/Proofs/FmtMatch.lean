import Pendulum.Proofs.FmtDigits
/-! Matching lemmas: the depth-first matcher takes the rendered pieces when every element's first candidate
is the piece it rendered; first-candidate lemmas for the digit recognisers. -/
namespace Pendulum.Fmt

/-- every element's first candidate on (its piece ++ all later pieces) is the length of its piece -/
def Good : List El → List Str → Prop
  | [], [] => True
  | e :: es, r :: rs => (∃ more, e (r ++ rs.flatten) = r.length :: more) ∧ Good es rs
  | _, _ => False

theorem dfs_good : ∀ (es : List El) (rs : List Str), Good es rs →
    dfs (fun s => s.isEmpty) es rs.flatten = some (rs.map List.length) := by
  intro es
  induction es with
  | nil =>
    intro rs h
    cases rs with
    | nil => simp [dfs]
    | cons r rs => simp [Good] at h
  | cons e es ih =>
    intro rs h
    cases rs with
    | nil => simp [Good] at h
    | cons r rs =>
      obtain ⟨⟨more, hm⟩, hg⟩ := h
      simp only [List.flatten_cons, dfs, hm, firstSome, List.drop_left, ih rs hg, Option.map_some, List.map_cons]

/-- the group values cut out by the chosen lengths are the pieces of the token elements -/
def tokPieces : List PEl → List Str → List (String × Str)
  | PEl.tok t :: es, r :: rs => (t, r) :: tokPieces es rs
  | PEl.lit _ :: es, _ :: rs => tokPieces es rs
  | _, _ => []

theorem groupValues_pieces : ∀ (pes : List PEl) (rs : List Str), pes.length = rs.length →
    groupValues pes (rs.map List.length) rs.flatten = tokPieces pes rs := by
  intro pes
  induction pes with
  | nil => intro rs _; cases rs <;> simp [groupValues, tokPieces]
  | cons p pes ih =>
    intro rs hl
    cases rs with
    | nil => simp at hl
    | cons r rs =>
      have hl' : pes.length = rs.length := by simpa using hl
      cases p with
      | lit c => simp [groupValues, tokPieces, ih rs hl']
      | tok t => simp [groupValues, tokPieces, ih rs hl']

/-! ### digit runs -/

theorem digitRun_nil : digitRun [] = 0 := rfl

theorem digitRun_cons_nondigit (c : Char) (s : Str) (h : c.isDigit = false) : digitRun (c :: s) = 0 := by
  simp [digitRun, List.takeWhile, h]

theorem digitRun_append (r rest : Str) (h : r.all Char.isDigit = true) :
    digitRun (r ++ rest) = r.length + digitRun rest := by
  induction r with
  | nil => simp
  | cons c cs ih =>
    simp only [List.all_cons, Bool.and_eq_true] at h
    have := ih h.2
    simp only [digitRun] at this ⊢
    simp [h.1, this]
    omega

theorem rangeDown_head (hi lo : Nat) (h : lo ≤ hi) : ∃ more, rangeDown hi lo = hi :: more := by
  unfold rangeDown
  have e : hi + 1 - lo = (hi - lo) + 1 := by omega
  rw [if_neg (by omega), e, List.range_succ_eq_map]
  refine ⟨List.map (fun i => hi - i) (List.map Nat.succ (List.range (hi - lo))), ?_⟩
  simp only [List.map_cons, Nat.sub_zero]

/-- bounded `\d{lo,hi}` on a piece of exactly `hi` digits: the first candidate is `hi`, whatever follows -/
theorem lensD_fixed (lo hi : Nat) (r rest : Str) (hall : r.all Char.isDigit = true) (hlen : r.length = hi)
    (hlo : lo ≤ hi) (hpos : hi ≠ 0) : ∃ more, lensD lo hi (r ++ rest) = hi :: more := by
  unfold lensD
  rw [digitRun_append r rest hall, hlen]
  simp only [beq_iff_eq, hpos, if_false]
  rw [show min (hi + digitRun rest) hi = hi by omega]
  exact rangeDown_head hi lo hlo

/-- `\d{lo,hi}` (`hi = 0`: unbounded) on a piece of digits followed by a non-digit: the first candidate is the piece -/
theorem lensD_sep (lo hi : Nat) (r rest : Str) (hall : r.all Char.isDigit = true) (hrest : digitRun rest = 0)
    (hlo : lo ≤ r.length) (hhi : hi = 0 ∨ r.length ≤ hi) : ∃ more, lensD lo hi (r ++ rest) = r.length :: more := by
  unfold lensD
  rw [digitRun_append r rest hall, hrest]
  rcases hhi with h | h
  · subst h; simp only [beq_self_eq_true, if_true, Nat.add_zero]
    exact rangeDown_head _ lo hlo
  · by_cases h0 : hi = 0
    · subst h0; simp only [beq_self_eq_true, if_true, Nat.add_zero]
      exact rangeDown_head _ lo hlo
    · simp only [beq_iff_eq, h0, if_false, Nat.add_zero]
      rw [show min r.length hi = r.length by omega]
      exact rangeDown_head _ lo hlo

theorem head_append {α} (a : α) (more l2 : List α) : ∃ more', (a :: more) ++ l2 = a :: more' := ⟨more ++ l2, rfl⟩

end Pendulum.Fmt
