import Pendulum.Proofs.DiffSpec
/-! C18, direction of the *rendered* phrase: the text `DifferenceFormatter.format` returns for `invert = True` differs from
the text it returns for `invert = False`, for every count — not only the templates (`markersOK`).

A chain of templates applied to one argument is flattened into a *symbolic string* (`Sym`): literal characters and
occurrences of the argument. Two symbolic strings are compared from the left (`symNe`); the only fact used about the
argument is that it is non-empty and starts with a digit or `-` (a rendered integer). -/
namespace Pendulum.Loc

/-- a string with occurrences (`none`) of one unknown argument -/
abbrev Sym := List (Option Char)

def evalSym : Sym → Str → Str
  | [], _ => []
  | some c :: r, a => c :: evalSym r a
  | none :: r, a => a ++ evalSym r a

theorem evalSym_append (x y : Sym) (a : Str) : evalSym (x ++ y) a = evalSym x a ++ evalSym y a := by
  induction x with
  | nil => rfl
  | cons h t ih =>
    cases h with
    | none => simp [evalSym, ih]
    | some c => simp [evalSym, ih]

/-- a template whose holes are filled with the symbolic string `inner` -/
def substSym : List Seg → Sym → Sym
  | [], _ => []
  | .lit s :: r, inner => s.toList.map some ++ substSym r inner
  | .hole _ :: r, inner => inner ++ substSym r inner

theorem evalSym_lits (l : Str) (a : Str) : evalSym (l.map some) a = l := by
  induction l with
  | nil => rfl
  | cons c t ih => simp [evalSym, ih]

theorem evalSym_subst (segs : List Seg) (inner : Sym) (a : Str) :
    evalSym (substSym segs inner) a = fill segs (evalSym inner a) := by
  induction segs with
  | nil => rfl
  | cons sg r ih =>
    cases sg with
    | lit s => simp [substSym, fill, evalSym_append, evalSym_lits, ih]
    | hole f => simp [substSym, fill, evalSym_append, ih]

/-- flatten a chain of `.format` calls; `none` when a step raised or is not a well-formed template -/
def symGo : List Step → Sym → Option Sym
  | [], acc => some acc
  | .error _ :: _, _ => none
  | .ok segs :: r, acc => if wfGo segs .unset then symGo r (substSym segs acc) else none

theorem runSteps_sym (steps : List Step) : ∀ (acc x : Sym) (a : Str), symGo steps acc = some x →
    runSteps steps (evalSym acc a) = .ok (evalSym x a) := by
  induction steps with
  | nil => intro acc x a h; simp only [symGo, Option.some.injEq] at h; subst h; rfl
  | cons st r ih =>
    intro acc x a h
    cases st with
    | error e => simp [symGo] at h
    | ok segs =>
      simp only [symGo] at h
      split at h
      · rename_i hwf
        simp only [runSteps, fmtSegs_of_wf hwf]
        rw [← evalSym_subst]
        exact ih _ _ a h
      · cases h

/-- first character of a rendered integer -/
def argHead (c : Char) : Bool := c.isDigit || c == '-'

/-- what is known about the argument: non-empty, starts like a rendered integer -/
def ArgOK (a : Str) : Prop := ∃ h t, a = h :: t ∧ argHead h = true

/-- the two symbolic strings differ for every such argument: read both from the left — equal literals and aligned
    argument occurrences are skipped; a literal that differs from the other literal, or that cannot start an integer
    where the other side has the argument, or one side ending first, decides -/
def symNe : Sym → Sym → Bool
  | [], [] => false
  | [], _ :: _ => true
  | _ :: _, [] => true
  | some a :: x, some b :: y => if a = b then symNe x y else true
  | none :: x, none :: y => symNe x y
  | some a :: _, none :: _ => !argHead a
  | none :: _, some b :: _ => !argHead b

theorem evalSym_cons_ne_nil (h : Option Char) (t : Sym) {a : Str} (ha : ArgOK a) : evalSym (h :: t) a ≠ [] := by
  obtain ⟨c, r, rfl, _⟩ := ha
  cases h <;> simp [evalSym]

theorem symNe_sound : ∀ (x y : Sym), symNe x y = true → ∀ a, ArgOK a → evalSym x a ≠ evalSym y a
  | [], [], h, _, _ => by simp [symNe] at h
  | [], hy :: y, _, a, ha => by
    intro e; exact evalSym_cons_ne_nil hy y ha (by rw [← e]; rfl)
  | hx :: x, [], _, a, ha => by
    intro e; exact evalSym_cons_ne_nil hx x ha (by rw [e]; rfl)
  | some p :: x, some q :: y, h, a, ha => by
    simp only [symNe] at h
    simp only [evalSym, ne_eq, List.cons.injEq, not_and]
    intro hpq
    rw [if_pos hpq] at h
    exact symNe_sound x y h a ha
  | none :: x, none :: y, h, a, ha => by
    simp only [symNe] at h
    simp only [evalSym, ne_eq, List.append_cancel_left_eq]
    exact symNe_sound x y h a ha
  | some p :: x, none :: y, h, a, ha => by
    obtain ⟨c, r, rfl, hc⟩ := ha
    simp only [symNe, Bool.not_eq_true'] at h
    simp only [evalSym, List.cons_append, ne_eq, List.cons.injEq, not_and]
    intro hpc; rw [hpc, hc] at h; cases h
  | none :: x, some q :: y, h, a, ha => by
    obtain ⟨c, r, rfl, hc⟩ := ha
    simp only [symNe, Bool.not_eq_true'] at h
    simp only [evalSym, List.cons_append, ne_eq, List.cons.injEq, not_and]
    intro hpc; rw [← hpc, hc] at h; cases h

theorem showNat_argOK (n : Nat) : ArgOK (showNat n) := by
  have hne := showNat_ne_nil n
  cases hs : showNat n with
  | nil => exact absurd hs hne
  | cons c r =>
    refine ⟨c, r, rfl, ?_⟩
    have hm : c ∈ Nat.toDigits 10 n := by
      have : c ∈ showNat n := by rw [hs]; simp
      exact this
    have := Nat.isDigit_of_mem_toDigits (b := 10) (n := n) (by decide) (by decide) hm
    simp [argHead, this]

theorem showInt_argOK (n : Int) : ArgOK (showInt n) := by
  cases n with
  | ofNat n => exact showNat_argOK n
  | negSucc n => exact ⟨'-', showNat (n + 1), rfl, by decide⟩

/-! ### the table check -/

/-- for unit `u`, plural class `pc`: both directions yield well-formed chains whose flattened texts differ -/
def dirNeOK (ℓ : Locale) (u pc : String) (isNow : Bool) : Bool :=
  match stepsUC ℓ u pc true isNow false, stepsUC ℓ u pc false isNow false with
  | .ok sF, .ok sP =>
    match symGo sF [none], symGo sP [none] with
    | some x, some y => symNe x y
    | _, _ => false
  | _, _ => false

def mainDirOK (ℓ : Locale) : Bool :=
  TUnit.all.all fun u => ℓ.pluralClasses.all fun pc => [false, true].all fun isNow => dirNeOK ℓ u.key pc isNow

def exNe (a b : Except Err Str) : Bool :=
  match a, b with
  | .ok x, .ok y => x != y
  | _, _ => false

/-- the "few seconds" text wrapped by `from_now`/`ago` (now) and `after`/`before` (other) -/
def fewDirOK (ℓ : Locale) : Bool :=
  match ℓ.get ["custom", "units", "few_second"] with
  | .error _ => false
  | .ok none => true
  | .ok (some node) =>
    match nodeStr node with
    | .error _ => false
    | .ok time =>
      [false, true].all fun isNow =>
        exNe (runSteps [tmplAt ℓ ["custom", if isNow then nowKey true else relKey true]] time)
             (runSteps [tmplAt ℓ ["custom", if isNow then nowKey false else relKey false]] time)

def dirOK (ℓ : Locale) : Bool := mainDirOK ℓ && fewDirOK ℓ

theorem exNe_ne {a b : Except Err Str} (h : exNe a b = true) : a ≠ b := by
  cases a <;> cases b <;> simp_all [exNe]

theorem evalSym_arg (a : Str) : evalSym [none] a = a := by simp [evalSym]

theorem mainPlan_dir_ne {ℓ : Locale} (hOK : mainDirOK ℓ = true) (hpl : ∀ n, ℓ.plural n ∈ ℓ.pluralClasses)
    (u : TUnit) (n : Int) (isNow : Bool) :
    (match mainPlan ℓ u n true isNow false with | .error e => Except.error e | .ok p => p.run) ≠
    (match mainPlan ℓ u n false isNow false with | .error e => Except.error e | .ok p => p.run) := by
  have h1 := List.all_eq_true.mp hOK u u.mem_all
  have h2 := List.all_eq_true.mp h1 _ (hpl (fixCount n))
  have h3 := all_bool h2 isNow
  unfold dirNeOK at h3
  unfold mainPlan
  simp only
  cases hF : stepsUC ℓ u.key (ℓ.plural (fixCount n)) true isNow false with
  | error e => simp [hF] at h3
  | ok sF =>
    cases hP : stepsUC ℓ u.key (ℓ.plural (fixCount n)) false isNow false with
    | error e => simp [hF, hP] at h3
    | ok sP =>
      simp only [hF, hP] at h3
      cases hx : symGo sF [none] with
      | none => simp [hx] at h3
      | some x =>
        cases hy : symGo sP [none] with
        | none => simp [hx, hy] at h3
        | some y =>
          simp only [hx, hy] at h3
          have e1 := runSteps_sym sF [none] x (showInt (fixCount n)) hx
          have e2 := runSteps_sym sP [none] y (showInt (fixCount n)) hy
          rw [evalSym_arg] at e1 e2
          simp only [Plan.run, e1, e2, ne_eq, Except.ok.injEq]
          exact symNe_sound x y h3 _ (showInt_argOK _)

theorem format_dir_ne_of {ℓ : Locale} (hOK : dirOK ℓ = true) (hpl : ∀ n, ℓ.plural n ∈ ℓ.pluralClasses)
    (c : Comps) (isNow : Bool) :
    format ℓ { c with invert := true } isNow false ≠ format ℓ { c with invert := false } isNow false := by
  simp only [dirOK, Bool.and_eq_true] at hOK
  obtain ⟨hM, hF⟩ := hOK
  have hsel1 : selectUnit { c with invert := true } = selectUnit c := rfl
  have hsel2 : selectUnit { c with invert := false } = selectUnit c := rfl
  unfold format plan
  rw [hsel1, hsel2]
  cases hsel : selectUnit c with
  | some un =>
    obtain ⟨u, n⟩ := un
    exact mainPlan_dir_ne hM hpl u n isNow
  | none =>
    simp only
    unfold fewPlan
    unfold fewDirOK at hF
    cases hget : ℓ.get ["custom", "units", "few_second"] with
    | error e => simp [hget] at hF
    | ok o =>
      cases o with
      | none => exact mainPlan_dir_ne hM hpl .second c.seconds isNow
      | some node =>
        rw [hget] at hF
        simp only at hF ⊢
        cases hns : nodeStr node with
        | error e => simp [hns] at hF
        | ok time =>
          simp only [hns] at hF
          have := exNe_ne (all_bool hF isNow)
          simpa [Plan.run] using this

end Pendulum.Loc
