import Pendulum.Proofs.IsoRsDate
/-! Tie between the regenerated compiled time parser (`Gen/IsoRs.lean`: `parse_time` with its fraction loops, minute/second and
offset statements) and the hand model `Model/Iso.lean` (`rsFracOpt`, `rsMinSec`, `rsTz`, `rsTime`). -/
namespace Pendulum.IsoRsGen
open Pendulum Pendulum.RsStd Pendulum.Gen.IsoRs Pendulum.Iso Pendulum.GenTie
set_option linter.unusedSimpArgs false

theorem exactN_length (b : Backend) : ∀ (k acc : Nat) (r : List Char) (v : Nat) (r' : List Char),
    exactN b k acc r = some (v, r') → r'.length + k = r.length := by
  intro k
  induction k with
  | zero => intro acc r v r' h; simp [exactN] at h; simp [h.2]
  | succ k ih =>
    intro acc r v r' h
    cases r with
    | nil => simp [exactN] at h
    | cons c cs =>
      simp only [exactN] at h
      cases hd : dv b c with
      | none => rw [hd] at h; simp at h
      | some d => rw [hd] at h; have := ih _ cs v r' h; simp; omega

theorem spanD_eq (cs : List Char) : spanD .rust cs = ((digs cs).map dval, afterDigs cs) := by
  induction cs with
  | nil => simp [spanD, digs, afterDigs]
  | cons c r ih =>
    by_cases hc : isAsciiDigit c = true
    · simp [spanD, dv_rust, hc, ih, digs_cons_pos c r hc, afterDigs_cons_pos c r hc, dval]
    · have hc' : isAsciiDigit c = false := by simpa using hc
      simp [spanD, dv_rust, hc', digs_cons_neg c r hc', afterDigs_cons_neg c r hc']

theorem microAcc_nil (s acc : Nat) : microAcc s acc [] = acc * 10 ^ s := by
  induction s generalizing acc with
  | zero => simp [microAcc]
  | succ s ih => simp [microAcc, ih, Nat.pow_succ]; rw [Nat.mul_assoc]; congr 1; omega

theorem afterDigs_idem (q : List Char) : afterDigs (afterDigs q) = afterDigs q := by
  induction q with
  | nil => rfl
  | cons c r ih =>
    by_cases hc : isAsciiDigit c = true
    · rw [afterDigs_cons_pos c r hc]; exact ih
    · have hc' : isAsciiDigit c = false := by simpa using hc
      rw [afterDigs_cons_neg c r hc', afterDigs_cons_neg c r hc']

/-- first fraction loop: up to six digits are accumulated -/
theorem tloop1 (fuel : Nat) : ∀ (s : Nat) (q : List Char) (n : Nat) (self : Parser) (dt : ParsedDateTime) (acc : Nat),
    At self q → s ≤ 6 → s + 1 ≤ n → dt.microsecond = (acc : Int) →
    (s = 6 ∧ digs q = [] → ∃ e, Parser.parse_time_loop1 fuel n self dt ((6 : Int) - s) = .error (.fail e)) ∧
    (¬ (s = 6 ∧ digs q = []) → ∃ (self' : Parser) (us' : Nat) (i' : Int) (q' : List Char),
      Parser.parse_time_loop1 fuel n self dt ((6 : Int) - s) = .ok (self', { dt with microsecond := (us' : Int) }, i') ∧
      At self' q' ∧ afterDigs q' = afterDigs q ∧ 0 ≤ i' ∧ i' ≤ 6 ∧
      us' * 10 ^ (6 - i').toNat = microAcc s acc ((digs q).map dval) ∧ q'.length ≤ q.length) := by
  gen_tie "Pendulum.IsoRsGen.tloop1" "rust/src/parsing.rs Parser::parse_time" =>
    intro s
    induction s with
    | zero =>
      intro q n self dt acc h hs hn hus
      obtain ⟨n, rfl⟩ : ∃ m, n = m + 1 := ⟨n - 1, by omega⟩
      refine ⟨fun hh => by omega, fun _ => ⟨self, acc, 6, q, ?_, h, rfl, by omega, by omega, by simp [microAcc], Nat.le_refl _⟩⟩
      simp [Parser.parse_time_loop1, ← hus]
    | succ s ih =>
      intro q n self dt acc h hs hn hus
      obtain ⟨n, rfl⟩ : ∃ m, n = m + 1 := ⟨n - 1, by omega⟩
      have hi : ((6 : Int) - ((s + 1 : Nat) : Int)) < 6 := by omega
      cases q with
      | nil =>
        have hd : toDigit10 self.current = none := by rw [h.cur]; simp [toDigit10_eq]
        constructor
        · intro hh
          have : ((6 : Int) - ((s + 1 : Nat) : Int)) = 0 := by omega
          simp only [Parser.parse_time_loop1, hi, decide_true, if_true, hd, this, beq_self_eq_true]
          exact ⟨_, rfl⟩
        · intro hh
          have hne : ((6 : Int) - ((s + 1 : Nat) : Int)) ≠ 0 := by
            intro h0; apply hh; exact ⟨by omega, rfl⟩
          refine ⟨self, acc, (6 : Int) - ((s + 1 : Nat) : Int), [], ?_, h, rfl, by omega, by omega, ?_, Nat.le_refl _⟩
          · have : (((6 : Int) - ((s + 1 : Nat) : Int)) == 0) = false := by simpa using hne
            simp only [Parser.parse_time_loop1, hi, decide_true, if_true, hd, this, Bool.false_eq_true, if_false, ← hus]
          · have : (6 - ((6 : Int) - ((s + 1 : Nat) : Int))).toNat = s + 1 := by omega
            rw [this]; simp [digs, microAcc_nil]
      | cons c r =>
        by_cases hc : isAsciiDigit c = true
        · have hd : toDigit10 self.current = some ((dval c : Nat) : Int) := by rw [h.cur]; simp [toDigit10_eq, hc, dval]
          have hnot : ¬ (s + 1 = 6 ∧ digs (c :: r) = []) := by rw [digs_cons_pos c r hc]; simp
          have ih' := ih r n (Parser.inc self).2 { dt with microsecond := dt.microsecond * 10 + ((dval c : Nat) : Int) } (acc * 10 + dval c)
            h.inc (by omega) (by omega) (by simp [hus])
          have hs5 : ¬ (s = 6 ∧ digs r = []) := by omega
          obtain ⟨self', us', i', q', he, hA, hq, h0, h6, hv, hl⟩ := ih'.2 hs5
          refine ⟨fun hh => absurd hh hnot, fun _ => ⟨self', us', i', q', ?_, hA, ?_, h0, h6, ?_, by simp; omega⟩⟩
          · have e : (6 : Int) - ((s + 1 : Nat) : Int) + 1 = (6 : Int) - (s : Int) := by omega
            simp only [Parser.parse_time_loop1, hi, decide_true, if_true, hd, e]
            exact he
          · rw [hq, afterDigs_cons_pos c r hc]
          · rw [hv, digs_cons_pos c r hc]; simp [microAcc]
        · have hc' : isAsciiDigit c = false := by simpa using hc
          have hd : toDigit10 self.current = none := by rw [h.cur]; simp [toDigit10_eq, hc']
          constructor
          · intro hh
            have : ((6 : Int) - ((s + 1 : Nat) : Int)) = 0 := by omega
            simp only [Parser.parse_time_loop1, hi, decide_true, if_true, hd, this, beq_self_eq_true]
            exact ⟨_, rfl⟩
          · intro hh
            have hne : ((6 : Int) - ((s + 1 : Nat) : Int)) ≠ 0 := by
              intro h0; apply hh; exact ⟨by omega, digs_cons_neg c r hc'⟩
            refine ⟨self, acc, (6 : Int) - ((s + 1 : Nat) : Int), c :: r, ?_, h, rfl, by omega, by omega, ?_, Nat.le_refl _⟩
            · have : (((6 : Int) - ((s + 1 : Nat) : Int)) == 0) = false := by simpa using hne
              simp only [Parser.parse_time_loop1, hi, decide_true, if_true, hd, this, Bool.false_eq_true, if_false, ← hus]
            · have : (6 - ((6 : Int) - ((s + 1 : Nat) : Int))).toNat = s + 1 := by omega
              rw [this, digs_cons_neg c r hc']; simp [microAcc_nil]


/-- second fraction loop: the remaining digits are dropped -/
theorem tloop2 (fuel : Nat) : ∀ (q : List Char) (n : Nat) (self : Parser), At self q → q.length + 1 ≤ n →
    ∃ self', Parser.parse_time_loop2 fuel n self = .ok self' ∧ At self' (afterDigs q) := by
  gen_tie "Pendulum.IsoRsGen.tloop2" "rust/src/parsing.rs Parser::parse_time" =>
    intro q
    induction q with
    | nil =>
      intro n self h hn
      obtain ⟨n, rfl⟩ : ∃ m, n = m + 1 := ⟨n - 1, by omega⟩
      exact ⟨self, by simp [Parser.parse_time_loop2, h.cur], h⟩
    | cons c r ih =>
      intro n self h hn
      obtain ⟨n, rfl⟩ : ∃ m, n = m + 1 := ⟨n - 1, by simp at hn; omega⟩
      by_cases hc : isAsciiDigit c = true
      · obtain ⟨self', he, hA⟩ := ih n (Parser.inc self).2 h.inc (by simp at hn; omega)
        exact ⟨self', by simp [Parser.parse_time_loop2, h.cur, hc, he], by rw [afterDigs_cons_pos c r hc]; exact hA⟩
      · have hc' : isAsciiDigit c = false := by simpa using hc
        exact ⟨self, by simp [Parser.parse_time_loop2, h.cur, hc'], by rw [afterDigs_cons_neg c r hc']; exact h⟩

/-- third fraction loop: the microseconds are padded to six digits -/
theorem tloop3 (fuel : Nat) : ∀ (k : Nat) (n : Nat) (dt : ParsedDateTime) (i : Int) (us : Nat), (6 - i).toNat = k → i ≤ 6 → k + 1 ≤ n →
    dt.microsecond = (us : Int) →
    Parser.parse_time_loop3 fuel n dt i = .ok ({ dt with microsecond := ((us * 10 ^ k : Nat) : Int) }, 6) := by
  gen_tie "Pendulum.IsoRsGen.tloop3" "rust/src/parsing.rs Parser::parse_time" =>
    intro k
    induction k with
    | zero =>
      intro n dt i us hk hi hn hus
      obtain ⟨n, rfl⟩ : ∃ m, n = m + 1 := ⟨n - 1, by omega⟩
      have : i = 6 := by omega
      subst this
      simp [Parser.parse_time_loop3, ← hus]
    | succ k ih =>
      intro n dt i us hk hi hn hus
      obtain ⟨n, rfl⟩ : ∃ m, n = m + 1 := ⟨n - 1, by omega⟩
      have hlt : i < 6 := by omega
      have := ih n { dt with microsecond := dt.microsecond * 10 } (i + 1) (us * 10) (by omega) (by omega) (by omega) (by simp [hus])
      simp only [Parser.parse_time_loop3, hlt, decide_true, if_true, this]
      have e : us * 10 * 10 ^ k = us * 10 ^ (k + 1) := by rw [Nat.pow_succ]; rw [Nat.mul_assoc]; congr 1; omega
      simp [e]

/-- first fraction loop: up to six digits are accumulated -/
theorem tloop4 (fuel : Nat) : ∀ (s : Nat) (q : List Char) (n : Nat) (self : Parser) (dt : ParsedDateTime) (acc : Nat),
    At self q → s ≤ 6 → s + 1 ≤ n → dt.microsecond = (acc : Int) →
    (s = 6 ∧ digs q = [] → ∃ e, Parser.parse_time_loop4 fuel n self dt ((6 : Int) - s) = .error (.fail e)) ∧
    (¬ (s = 6 ∧ digs q = []) → ∃ (self' : Parser) (us' : Nat) (i' : Int) (q' : List Char),
      Parser.parse_time_loop4 fuel n self dt ((6 : Int) - s) = .ok (self', { dt with microsecond := (us' : Int) }, i') ∧
      At self' q' ∧ afterDigs q' = afterDigs q ∧ 0 ≤ i' ∧ i' ≤ 6 ∧
      us' * 10 ^ (6 - i').toNat = microAcc s acc ((digs q).map dval) ∧ q'.length ≤ q.length) := by
  gen_tie "Pendulum.IsoRsGen.tloop4" "rust/src/parsing.rs Parser::parse_time" =>
    intro s
    induction s with
    | zero =>
      intro q n self dt acc h hs hn hus
      obtain ⟨n, rfl⟩ : ∃ m, n = m + 1 := ⟨n - 1, by omega⟩
      refine ⟨fun hh => by omega, fun _ => ⟨self, acc, 6, q, ?_, h, rfl, by omega, by omega, by simp [microAcc], Nat.le_refl _⟩⟩
      simp [Parser.parse_time_loop4, ← hus]
    | succ s ih =>
      intro q n self dt acc h hs hn hus
      obtain ⟨n, rfl⟩ : ∃ m, n = m + 1 := ⟨n - 1, by omega⟩
      have hi : ((6 : Int) - ((s + 1 : Nat) : Int)) < 6 := by omega
      cases q with
      | nil =>
        have hd : toDigit10 self.current = none := by rw [h.cur]; simp [toDigit10_eq]
        constructor
        · intro hh
          have : ((6 : Int) - ((s + 1 : Nat) : Int)) = 0 := by omega
          simp only [Parser.parse_time_loop4, hi, decide_true, if_true, hd, this, beq_self_eq_true]
          exact ⟨_, rfl⟩
        · intro hh
          have hne : ((6 : Int) - ((s + 1 : Nat) : Int)) ≠ 0 := by
            intro h0; apply hh; exact ⟨by omega, rfl⟩
          refine ⟨self, acc, (6 : Int) - ((s + 1 : Nat) : Int), [], ?_, h, rfl, by omega, by omega, ?_, Nat.le_refl _⟩
          · have : (((6 : Int) - ((s + 1 : Nat) : Int)) == 0) = false := by simpa using hne
            simp only [Parser.parse_time_loop4, hi, decide_true, if_true, hd, this, Bool.false_eq_true, if_false, ← hus]
          · have : (6 - ((6 : Int) - ((s + 1 : Nat) : Int))).toNat = s + 1 := by omega
            rw [this]; simp [digs, microAcc_nil]
      | cons c r =>
        by_cases hc : isAsciiDigit c = true
        · have hd : toDigit10 self.current = some ((dval c : Nat) : Int) := by rw [h.cur]; simp [toDigit10_eq, hc, dval]
          have hnot : ¬ (s + 1 = 6 ∧ digs (c :: r) = []) := by rw [digs_cons_pos c r hc]; simp
          have ih' := ih r n (Parser.inc self).2 { dt with microsecond := dt.microsecond * 10 + ((dval c : Nat) : Int) } (acc * 10 + dval c)
            h.inc (by omega) (by omega) (by simp [hus])
          have hs5 : ¬ (s = 6 ∧ digs r = []) := by omega
          obtain ⟨self', us', i', q', he, hA, hq, h0, h6, hv, hl⟩ := ih'.2 hs5
          refine ⟨fun hh => absurd hh hnot, fun _ => ⟨self', us', i', q', ?_, hA, ?_, h0, h6, ?_, by simp; omega⟩⟩
          · have e : (6 : Int) - ((s + 1 : Nat) : Int) + 1 = (6 : Int) - (s : Int) := by omega
            simp only [Parser.parse_time_loop4, hi, decide_true, if_true, hd, e]
            exact he
          · rw [hq, afterDigs_cons_pos c r hc]
          · rw [hv, digs_cons_pos c r hc]; simp [microAcc]
        · have hc' : isAsciiDigit c = false := by simpa using hc
          have hd : toDigit10 self.current = none := by rw [h.cur]; simp [toDigit10_eq, hc']
          constructor
          · intro hh
            have : ((6 : Int) - ((s + 1 : Nat) : Int)) = 0 := by omega
            simp only [Parser.parse_time_loop4, hi, decide_true, if_true, hd, this, beq_self_eq_true]
            exact ⟨_, rfl⟩
          · intro hh
            have hne : ((6 : Int) - ((s + 1 : Nat) : Int)) ≠ 0 := by
              intro h0; apply hh; exact ⟨by omega, digs_cons_neg c r hc'⟩
            refine ⟨self, acc, (6 : Int) - ((s + 1 : Nat) : Int), c :: r, ?_, h, rfl, by omega, by omega, ?_, Nat.le_refl _⟩
            · have : (((6 : Int) - ((s + 1 : Nat) : Int)) == 0) = false := by simpa using hne
              simp only [Parser.parse_time_loop4, hi, decide_true, if_true, hd, this, Bool.false_eq_true, if_false, ← hus]
            · have : (6 - ((6 : Int) - ((s + 1 : Nat) : Int))).toNat = s + 1 := by omega
              rw [this, digs_cons_neg c r hc']; simp [microAcc_nil]


/-- second fraction loop: the remaining digits are dropped -/
theorem tloop5 (fuel : Nat) : ∀ (q : List Char) (n : Nat) (self : Parser), At self q → q.length + 1 ≤ n →
    ∃ self', Parser.parse_time_loop5 fuel n self = .ok self' ∧ At self' (afterDigs q) := by
  gen_tie "Pendulum.IsoRsGen.tloop5" "rust/src/parsing.rs Parser::parse_time" =>
    intro q
    induction q with
    | nil =>
      intro n self h hn
      obtain ⟨n, rfl⟩ : ∃ m, n = m + 1 := ⟨n - 1, by omega⟩
      exact ⟨self, by simp [Parser.parse_time_loop5, h.cur], h⟩
    | cons c r ih =>
      intro n self h hn
      obtain ⟨n, rfl⟩ : ∃ m, n = m + 1 := ⟨n - 1, by simp at hn; omega⟩
      by_cases hc : isAsciiDigit c = true
      · obtain ⟨self', he, hA⟩ := ih n (Parser.inc self).2 h.inc (by simp at hn; omega)
        exact ⟨self', by simp [Parser.parse_time_loop5, h.cur, hc, he], by rw [afterDigs_cons_pos c r hc]; exact hA⟩
      · have hc' : isAsciiDigit c = false := by simpa using hc
        exact ⟨self, by simp [Parser.parse_time_loop5, h.cur, hc'], by rw [afterDigs_cons_neg c r hc']; exact h⟩

/-- third fraction loop: the microseconds are padded to six digits -/
theorem tloop6 (fuel : Nat) : ∀ (k : Nat) (n : Nat) (dt : ParsedDateTime) (i : Int) (us : Nat), (6 - i).toNat = k → i ≤ 6 → k + 1 ≤ n →
    dt.microsecond = (us : Int) →
    Parser.parse_time_loop6 fuel n dt i = .ok ({ dt with microsecond := ((us * 10 ^ k : Nat) : Int) }, 6) := by
  gen_tie "Pendulum.IsoRsGen.tloop6" "rust/src/parsing.rs Parser::parse_time" =>
    intro k
    induction k with
    | zero =>
      intro n dt i us hk hi hn hus
      obtain ⟨n, rfl⟩ : ∃ m, n = m + 1 := ⟨n - 1, by omega⟩
      have : i = 6 := by omega
      subst this
      simp [Parser.parse_time_loop6, ← hus]
    | succ k ih =>
      intro n dt i us hk hi hn hus
      obtain ⟨n, rfl⟩ : ∃ m, n = m + 1 := ⟨n - 1, by omega⟩
      have hlt : i < 6 := by omega
      have := ih n { dt with microsecond := dt.microsecond * 10 } (i + 1) (us * 10) (by omega) (by omega) (by omega) (by simp [hus])
      simp only [Parser.parse_time_loop6, hlt, decide_true, if_true, this]
      have e : us * 10 * 10 ^ k = us * 10 ^ (k + 1) := by rw [Nat.pow_succ]; rw [Nat.mul_assoc]; congr 1; omega
      simp [e]

theorem rsFracOpt_eq (cs : List Char) : rsFracOpt cs =
    (match cs with
      | c :: r => if c = '.' ∨ c = ',' then (if digs r = [] then .error .valueError
          else .ok (microAcc 6 0 ((digs r).map dval), afterDigs r)) else .ok (0, cs)
      | [] => .ok (0, [])) := by
  cases cs with
  | nil => rfl
  | cons c r =>
    simp only [rsFracOpt, spanD_eq]
    by_cases h : c = '.' ∨ c = ','
    · simp [h]
    · simp [h]

/-- the three fraction loops after the separator -/
theorem frac_block (fuel : Nat) (q : List Char) (self : Parser) (dt : ParsedDateTime) (h : At self q) (hf : q.length + 8 ≤ fuel) :
    (digs q = [] → ∃ e, Parser.parse_time_loop1 fuel fuel self { dt with microsecond := 0 } 0 = .error (.fail e)) ∧
    (digs q ≠ [] → ∃ self1 self2 dt1 i1,
      Parser.parse_time_loop1 fuel fuel self { dt with microsecond := 0 } 0 = .ok (self1, dt1, i1) ∧
      Parser.parse_time_loop2 fuel fuel self1 = .ok self2 ∧
      Parser.parse_time_loop3 fuel fuel dt1 i1 = .ok ({ dt with microsecond := ((microAcc 6 0 ((digs q).map dval) : Nat) : Int) }, 6) ∧
      At self2 (afterDigs q)) := by
  gen_tie "Pendulum.IsoRsGen.frac_block" "rust/src/parsing.rs Parser::parse_time" =>
    have l1 := tloop1 fuel 6 q fuel self { dt with microsecond := 0 } 0 h (Nat.le_refl 6) (by omega) rfl
    constructor
    · intro hd
      exact l1.1 ⟨rfl, hd⟩
    · intro hd
      obtain ⟨self1, us', i', q', he, hA, hq, h0, h6, hv, hlen⟩ := l1.2 (fun hh => hd hh.2)
      obtain ⟨self2, he2, hA2⟩ := tloop2 fuel q' fuel self1 hA (by omega)
      have he3 := tloop3 fuel (6 - i').toNat fuel { dt with microsecond := (us' : Int) } i' us' rfl h6 (by omega) rfl
      refine ⟨self1, self2, _, i', he, he2, ?_, by rw [← hq]; exact hA2⟩
      rw [he3, hv]


/-- the three fraction loops after the separator -/
theorem frac_block2 (fuel : Nat) (q : List Char) (self : Parser) (dt : ParsedDateTime) (h : At self q) (hf : q.length + 8 ≤ fuel) :
    (digs q = [] → ∃ e, Parser.parse_time_loop4 fuel fuel self { dt with microsecond := 0 } 0 = .error (.fail e)) ∧
    (digs q ≠ [] → ∃ self1 self2 dt1 i1,
      Parser.parse_time_loop4 fuel fuel self { dt with microsecond := 0 } 0 = .ok (self1, dt1, i1) ∧
      Parser.parse_time_loop5 fuel fuel self1 = .ok self2 ∧
      Parser.parse_time_loop6 fuel fuel dt1 i1 = .ok ({ dt with microsecond := ((microAcc 6 0 ((digs q).map dval) : Nat) : Int) }, 6) ∧
      At self2 (afterDigs q)) := by
  gen_tie "Pendulum.IsoRsGen.frac_block2" "rust/src/parsing.rs Parser::parse_time" =>
    have l1 := tloop4 fuel 6 q fuel self { dt with microsecond := 0 } 0 h (Nat.le_refl 6) (by omega) rfl
    constructor
    · intro hd
      exact l1.1 ⟨rfl, hd⟩
    · intro hd
      obtain ⟨self1, us', i', q', he, hA, hq, h0, h6, hv, hlen⟩ := l1.2 (fun hh => hd hh.2)
      obtain ⟨self2, he2, hA2⟩ := tloop5 fuel q' fuel self1 hA (by omega)
      have he3 := tloop6 fuel (6 - i').toNat fuel { dt with microsecond := (us' : Int) } i' us' rfl h6 (by omega) rfl
      refine ⟨self1, self2, _, i', he, he2, ?_, by rw [← hq]; exact hA2⟩
      rw [he3, hv]


def FracAgree (x : Except (Err ParseError) (Parser × ParsedDateTime)) (dt : ParsedDateTime)
    (m : Except Kind (Nat × List Char)) : Prop :=
  match m with
  | .ok (us, r') => ∃ self', x = .ok (self', { dt with microsecond := (us : Int) }) ∧ At self' r'
  | .error _ => ∃ e, x = .error (.fail e)

/-- the optional fractional second (first copy: extended format) = `Iso.rsFracOpt` -/
theorem fracOpt1 (fuel : Nat) (s5 : Parser) (q : List Char) (dt : ParsedDateTime) (h : At s5 q) (hf : q.length + 8 ≤ fuel)
    (hus : dt.microsecond = 0) :
    FracAgree (Parser.parse_time_s1 fuel s5 dt) dt (rsFracOpt q) := by
  gen_tie "Pendulum.IsoRsGen.fracOpt1" "rust/src/parsing.rs Parser::parse_time" =>
    unfold Parser.parse_time_s1
    have hdt : dt = { dt with microsecond := ((0 : Nat) : Int) } := by cases dt; simp_all
    rw [rsFracOpt_eq, h.cur]
    cases q with
    | nil =>
      simp only [List.headD_nil, show ('\x00' == '.') = false by decide, show ('\x00' == ',') = false by decide, Bool.or_self,
        Bool.false_eq_true, if_false]
      exact ⟨s5, by rw [← hdt], h⟩
    | cons c r =>
      simp only [List.headD_cons]
      by_cases hc : c = '.' ∨ c = ','
      · have hb : (c == '.' || c == ',') = true := by simpa using hc
        simp only [hb, hc, if_true]
        obtain ⟨b1, b2⟩ := frac_block fuel r (Parser.inc s5).2 dt h.inc (by simp at hf; omega)
        by_cases hd : digs r = []
        · obtain ⟨e, he⟩ := b1 hd
          simp only [hd, if_true, he]
          exact ⟨_, rfl⟩
        · obtain ⟨self1, self2, dt1, i1, e1, e2, e3, hA⟩ := b2 hd
          simp only [hd, if_false, e1, e2, e3]
          exact ⟨self2, rfl, hA⟩
      · have hb : (c == '.' || c == ',') = false := by simpa using hc
        simp only [hb, hc, Bool.false_eq_true, if_false]
        exact ⟨s5, by rw [← hdt], h⟩

/-- the optional fractional second (second copy: basic format) = `Iso.rsFracOpt` -/
theorem fracOpt2 (fuel : Nat) (s5 : Parser) (q : List Char) (dt : ParsedDateTime) (h : At s5 q) (hf : q.length + 8 ≤ fuel)
    (hus : dt.microsecond = 0) :
    FracAgree (Parser.parse_time_s2 fuel s5 dt) dt (rsFracOpt q) := by
  gen_tie "Pendulum.IsoRsGen.fracOpt2" "rust/src/parsing.rs Parser::parse_time" =>
    unfold Parser.parse_time_s2
    have hdt : dt = { dt with microsecond := ((0 : Nat) : Int) } := by cases dt; simp_all
    rw [rsFracOpt_eq, h.cur]
    cases q with
    | nil =>
      simp only [List.headD_nil, show ('\x00' == '.') = false by decide, show ('\x00' == ',') = false by decide, Bool.or_self,
        Bool.false_eq_true, if_false]
      exact ⟨s5, by rw [← hdt], h⟩
    | cons c r =>
      simp only [List.headD_cons]
      by_cases hc : c = '.' ∨ c = ','
      · have hb : (c == '.' || c == ',') = true := by simpa using hc
        simp only [hb, hc, if_true]
        obtain ⟨b1, b2⟩ := frac_block2 fuel r (Parser.inc s5).2 dt h.inc (by simp at hf; omega)
        by_cases hd : digs r = []
        · obtain ⟨e, he⟩ := b1 hd
          simp only [hd, if_true, he]
          exact ⟨_, rfl⟩
        · obtain ⟨self1, self2, dt1, i1, e1, e2, e3, hA⟩ := b2 hd
          simp only [hd, if_false, e1, e2, e3]
          exact ⟨self2, rfl, hA⟩
      · have hb : (c == '.' || c == ',') = false := by simpa using hc
        simp only [hb, hc, Bool.false_eq_true, if_false]
        exact ⟨s5, by rw [← hdt], h⟩

/-- `!self.end() && self.current != 'Z' && self.current != '+' && self.current != '-'` -/
theorem more_eq {self : Parser} {r : List Char} (h : At self r) :
    ((((!(Parser.end_ self)) && (self.current != 'Z')) && (self.current != '+')) && (self.current != '-')) = more r := by
  rw [h.end_, h.cur]
  cases r with
  | nil => rfl
  | cons c cs => simp [more, bne]


def MinSecAgree (x : Except (Err ParseError) (Parser × ParsedDateTime)) (dt : ParsedDateTime)
    (m : Except Kind (Nat × Nat × Nat × List Char)) : Prop :=
  match m with
  | .ok (mi, sec, us, r') =>
    ∃ self', x = .ok (self', { dt with minute := (mi : Int), second := (sec : Int), microsecond := (us : Int) }) ∧ At self' r'
  | .error _ => ∃ e, x = .error (.fail e)

/-- **minutes / seconds / fraction of `parse_time`** (the statement after the hour) = `Iso.rsMinSec` -/
theorem minsec_spec (fuel : Nat) (self : Parser) (r : List Char) (h : At self r) (hf : r.length + 8 ≤ fuel) (dt : ParsedDateTime)
    (hmi : dt.minute = 0) (hs : dt.second = 0) (hus : dt.microsecond = 0) :
    MinSecAgree (Parser.parse_time_top3 fuel self dt) dt (rsMinSec dt.has_date dt.extended_date_format r) := by
  gen_tie "Pendulum.IsoRsGen.minsec_spec" "rust/src/parsing.rs Parser::parse_time" =>
    obtain ⟨y0, m0, d0, hh0, mi0, s0, us0, off0, ho0, tzn0, hd0, ht0, ext0, mid0⟩ := dt
    simp only at hmi hs hus
    subst hmi; subst hs; subst hus
    let dt : ParsedDateTime := ⟨y0, m0, d0, hh0, 0, 0, 0, off0, ho0, tzn0, hd0, ht0, ext0, mid0⟩
    show MinSecAgree (Parser.parse_time_top3 fuel self dt) dt (rsMinSec hd0 ext0 r)
    unfold Parser.parse_time_top3 rsMinSec
    rw [more_eq h]
    by_cases hm : more r = true
    · simp only [hm, if_true, h.cur]
      cases r with
      | nil => simp [more] at hm
      | cons c r1 =>
        simp only [List.headD_cons, optChar_cons]
        by_cases hc : c = ':'
        · subst hc
          have h1 := h.inc
          simp only [beq_self_eq_true, if_true]
          cases hx : exactN .rust 2 0 r1 with
          | none =>
            obtain ⟨e, he⟩ := pi_err2 h1 "minute" hx
            simp only [he]
            exact ⟨_, rfl⟩
          | some x =>
            obtain ⟨mi, r2⟩ := x
            obtain ⟨s2, he, h2⟩ := pi_ok2 h1 "minute" hx
            have hl2 : r2.length ≤ r1.length := by have := exactN_length _ _ _ _ _ _ hx; omega
            simp only [he, more_eq h2]
            by_cases hm2 : more r2 = true
            · simp only [hm2, if_true, h2.cur]
              cases r2 with
              | nil => simp [more] at hm2
              | cons c2 r3 =>
                simp only [List.headD_cons, optChar_cons]
                by_cases hc2 : c2 = ':'
                · subst hc2
                  have h3 := h2.inc
                  simp only [bne_self_eq_false, Bool.false_eq_true, if_false, if_true, rsSecFrac]
                  cases hx2 : exactN .rust 2 0 r3 with
                  | none =>
                    obtain ⟨e, he2⟩ := pi_err2 h3 "second" hx2
                    simp only [he2]
                    exact ⟨_, rfl⟩
                  | some x2 =>
                    obtain ⟨sec, r4⟩ := x2
                    obtain ⟨s4, he2, h4⟩ := pi_ok2 h3 "second" hx2
                    have hl4 : r4.length ≤ r3.length := by have := exactN_length _ _ _ _ _ _ hx2; omega
                    simp only [he2]
                    have fo := fracOpt1 fuel s4 r4 { dt with minute := (mi : Int), second := (sec : Int) } h4
                      (by simp at hf hl2 hl4 ⊢; omega) rfl
                    cases hfo : rsFracOpt r4 with
                    | error k =>
                      rw [hfo] at fo
                      obtain ⟨e, he3⟩ := fo
                      simp only [he3]
                      exact ⟨_, rfl⟩
                    | ok x3 =>
                      obtain ⟨us, r5⟩ := x3
                      rw [hfo] at fo
                      obtain ⟨s5, he3, h5⟩ := fo
                      simp only [he3]
                      cases hd0 <;> cases ext0 <;> first | exact ⟨_, rfl⟩ | exact ⟨s5, rfl, h5⟩
                · have : (c2 != ':') = true := by simpa using hc2
                  simp only [this, hc2, if_true, if_false, Bool.false_eq_true]
                  exact ⟨_, rfl⟩
            · have hm2' : more r2 = false := by simpa using hm2
              simp only [hm2', Bool.false_eq_true, if_false]
              exact ⟨s2, rfl, h2⟩
        · have hcb : (c == ':') = false := by simpa using hc
          simp only [hcb, hc, Bool.false_eq_true, if_false]
          cases hx : exactN .rust 2 0 (c :: r1) with
          | none =>
            obtain ⟨e, he⟩ := pi_err2 h "minute" hx
            simp only [he]
            exact ⟨_, rfl⟩
          | some x =>
            obtain ⟨mi, r2⟩ := x
            obtain ⟨s2, he, h2⟩ := pi_ok2 h "minute" hx
            have hl2 : r2.length ≤ (c :: r1).length := by have := exactN_length _ _ _ _ _ _ hx; omega
            simp only [he, more_eq h2]
            by_cases hm2 : more r2 = true
            · simp only [hm2, if_true, rsSecFrac]
              cases hx2 : exactN .rust 2 0 r2 with
              | none =>
                obtain ⟨e, he2⟩ := pi_err2 h2 "second" hx2
                simp only [he2]
                exact ⟨_, rfl⟩
              | some x2 =>
                obtain ⟨sec, r4⟩ := x2
                obtain ⟨s4, he2, h4⟩ := pi_ok2 h2 "second" hx2
                have hl4 : r4.length ≤ r2.length := by have := exactN_length _ _ _ _ _ _ hx2; omega
                simp only [he2]
                have fo := fracOpt2 fuel s4 r4 { dt with minute := (mi : Int), second := (sec : Int) } h4
                  (by simp at hf hl2 hl4 ⊢; omega) rfl
                cases hfo : rsFracOpt r4 with
                | error k =>
                  rw [hfo] at fo
                  obtain ⟨e, he3⟩ := fo
                  simp only [he3]
                  exact ⟨_, rfl⟩
                | ok x3 =>
                  obtain ⟨us, r5⟩ := x3
                  rw [hfo] at fo
                  obtain ⟨s5, he3, h5⟩ := fo
                  simp only [he3]
                  cases hd0 <;> cases ext0 <;> first | exact ⟨_, rfl⟩ | exact ⟨s5, rfl, h5⟩
            · have hm2' : more r2 = false := by simpa using hm2
              simp only [hm2', Bool.false_eq_true, if_false]
              cases hd0 <;> cases ext0 <;> first | exact ⟨_, rfl⟩ | exact ⟨s2, rfl, h2⟩
    · have hm' : more r = false := by simpa using hm
      simp only [hm', Bool.false_eq_true, if_false]
      exact ⟨self, rfl, h⟩


def OffAgree (x : Except (Err ParseError) (Parser × ParsedDateTime)) (dt : ParsedDateTime)
    (m : Except Kind (Option Int × List Char)) : Prop :=
  match m with
  | .ok (off, r') => ∃ self' tzn, x = .ok (self', { dt with offset := off, tzname := tzn }) ∧ At self' r'
  | .error _ => ∃ e, x = .error (.fail e)

theorem tzfin_eq (neg : Bool) (hh mm : Nat) (r : List Char) (self : Parser) (dt : ParsedDateTime) (h : At self r) (tzn : Option String)
    (sign : Int) (hsign : sign = if neg then -1 else 1) :
    OffAgree (if (decide ((((mm : Int) + ((hh : Int) * 60)) * sign) > (24 * 60))) then
        (.error (.fail (Parser.parse_error self "Timezone offset is too large")))
      else .ok (self, { dt with offset := some ((((mm : Int) + ((hh : Int) * 60)) * sign) * 60), tzname := tzn })) dt
      (rsTzFin neg hh mm r) := by
  gen_tie "Pendulum.IsoRsGen.tzfin_eq" "rust/src/parsing.rs Parser::parse_time" =>
    subst hsign
    unfold rsTzFin
    by_cases hgt : ((mm : Int) + (hh : Int) * 60) * (if neg = true then -1 else 1) > 24 * 60
    · simp only [hgt, decide_true, if_true]
      exact ⟨_, rfl⟩
    · simp only [hgt, decide_false, Bool.false_eq_true, if_false]
      exact ⟨self, tzn, rfl, h⟩

/-- **the UTC designator / offset statement of `parse_time`** = `Iso.rsTz` -/
theorem offset_spec (self : Parser) (r : List Char) (h : At self r) (dt : ParsedDateTime) (hoff : dt.offset = none) :
    OffAgree (Parser.parse_time_top5 self dt) dt (rsTz r) := by
  gen_tie "Pendulum.IsoRsGen.offset_spec" "rust/src/parsing.rs Parser::parse_time" =>
    obtain ⟨y0, m0, d0, hh0, mi0, s0, us0, off0, ho0, tzn0, hd0, ht0, ext0, mid0⟩ := dt
    simp only at hoff
    subst hoff
    let dt : ParsedDateTime := ⟨y0, m0, d0, hh0, mi0, s0, us0, none, ho0, tzn0, hd0, ht0, ext0, mid0⟩
    show OffAgree (Parser.parse_time_top5 self dt) dt (rsTz r)
    unfold Parser.parse_time_top5 rsTz
    rw [h.cur]
    cases r with
    | nil =>
      simp only [List.headD_nil, show ('\x00' == 'Z') = false by decide, show ('\x00' == '+') = false by decide,
        show ('\x00' == '-') = false by decide, Bool.or_self, Bool.false_eq_true, if_false]
      exact ⟨self, tzn0, rfl, h⟩
    | cons c r1 =>
      simp only [List.headD_cons]
      by_cases hz : c = 'Z'
      · subst hz
        simp only [beq_self_eq_true, if_true]
        exact ⟨_, some "UTC", rfl, h.inc⟩
      · have hzb : (c == 'Z') = false := by simpa using hz
        simp only [hzb, hz, Bool.false_eq_true, if_false]
        by_cases hpm : c = '+' ∨ c = '-'
        · have hb : (c == '+' || c == '-') = true := by simpa using hpm
          have h1 := h.inc
          simp only [hb, hpm, if_true]
          cases hx : exactN .rust 2 0 r1 with
          | none =>
            obtain ⟨e, he⟩ := pi_err2 h1 "timezone hour" hx
            simp only [he]
            exact ⟨_, rfl⟩
          | some x =>
            obtain ⟨hh, r2⟩ := x
            obtain ⟨s2, he, h2⟩ := pi_ok2 h1 "timezone hour" hx
            have hsign : (if (c == '+') = true then (1 : Int) else -1) = if (decide (c = '-')) = true then -1 else 1 := by
              rcases hpm with h | h <;> subst h <;> decide
            simp only [he, h2.cur]
            cases r2 with
            | nil =>
              simp only [List.headD_nil, show ('\x00' == ':') = false by decide, Bool.false_eq_true, if_false, h2.end_,
                List.isEmpty_nil, if_true]
              exact tzfin_eq (decide (c = '-')) hh 0 [] s2 dt h2 tzn0 _ hsign
            | cons c2 r3 =>
              simp only [List.headD_cons, optChar_cons, List.isEmpty_cons, Bool.false_eq_true, if_false]
              by_cases hc2 : c2 = ':'
              · subst hc2
                have h3 := h2.inc
                simp only [beq_self_eq_true, if_true, h3.end_]
                cases r3 with
                | nil =>
                  simp only [List.isEmpty_nil, if_true]
                  exact ⟨_, rfl⟩
                | cons c3 r4 =>
                  simp only [List.isEmpty_cons, Bool.false_eq_true, if_false]
                  simp only [h3.end_, List.isEmpty_cons, Bool.false_eq_true, if_false]
                  cases hx2 : exactN .rust 2 0 (c3 :: r4) with
                  | none =>
                    obtain ⟨e, he2⟩ := pi_err2 h3 "timezone minute" hx2
                    simp only [he2]
                    exact ⟨_, rfl⟩
                  | some x2 =>
                    obtain ⟨mm, r5⟩ := x2
                    obtain ⟨s5, he2, h5⟩ := pi_ok2 h3 "timezone minute" hx2
                    simp only [he2]
                    exact tzfin_eq (decide (c = '-')) hh mm r5 s5 dt h5 tzn0 _ hsign
              · have hcb : (c2 == ':') = false := by simpa using hc2
                simp only [hcb, hc2, Bool.false_eq_true, if_false, h2.end_, List.isEmpty_cons]
                cases hx2 : exactN .rust 2 0 (c2 :: r3) with
                | none =>
                  obtain ⟨e, he2⟩ := pi_err2 h2 "timezone minute" hx2
                  simp only [he2]
                  exact ⟨_, rfl⟩
                | some x2 =>
                  obtain ⟨mm, r5⟩ := x2
                  obtain ⟨s5, he2, h5⟩ := pi_ok2 h2 "timezone minute" hx2
                  simp only [he2]
                  exact tzfin_eq (decide (c = '-')) hh mm r5 s5 dt h5 tzn0 _ hsign
        · have hb : (c == '+' || c == '-') = false := by simpa using hpm
          simp only [hb, hpm, Bool.false_eq_true, if_false]
          exact ⟨self, tzn0, rfl, h⟩


theorem midnight_spec (dt : ParsedDateTime) : ∃ mid, Parser.parse_time_top4 dt = .ok { dt with time_is_midnight := mid } := by
  gen_tie "Pendulum.IsoRsGen.midnight_spec" "rust/src/parsing.rs Parser::parse_time" =>
    unfold Parser.parse_time_top4
    split
    · exact ⟨true, rfl⟩
    · exact ⟨dt.time_is_midnight, rfl⟩

/-- the fields `parse_time` sets -/
def setTime (dt : ParsedDateTime) (t : TimeRes) (tzn : Option String) (mid : Bool) : ParsedDateTime :=
  { dt with has_time := true, hour := (t.h : Int), minute := (t.mi : Int), second := (t.s : Int), microsecond := (t.us : Int), offset := t.off, tzname := tzn, time_is_midnight := mid }

def TimeAgree (x : Except (Err ParseError) (Parser × ParsedDateTime)) (dt : ParsedDateTime)
    (m : Except Kind (TimeRes × List Char)) : Prop :=
  match m with
  | .ok (t, r') => ∃ self' tzn mid, x = .ok (self', setTime dt t tzn mid) ∧ At self' r'
  | .error _ => ∃ e, x = .error (.fail e)

/-- **`Parser::parse_time`** = `Iso.rsTime` (`skip = some hour` is the `skip_hour` entry) -/
theorem time_spec (fuel : Nat) (self : Parser) (r : List Char) (h : At self r) (hf : r.length + 8 ≤ fuel) (dt : ParsedDateTime)
    (skip : Option Nat) (hsk : ∀ hr, skip = some hr → dt.hour = (hr : Int))
    (hmi : dt.minute = 0) (hs : dt.second = 0) (hus : dt.microsecond = 0) (hoff : dt.offset = none) :
    TimeAgree (Parser.parse_time fuel self dt skip.isSome) dt (rsTime dt.has_date dt.extended_date_format skip r) := by
  gen_tie "Pendulum.IsoRsGen.time_spec" "rust/src/parsing.rs Parser::parse_time" =>
    obtain ⟨y0, m0, d0, hh0, mi0, s0, us0, off0, ho0, tzn0, hd0, ht0, ext0, mid0⟩ := dt
    simp only at hmi hs hus hoff hsk
    subst hmi; subst hs; subst hus; subst hoff
    -- after the hour
    have rest : ∀ (s0 : Parser) (r0 : List Char) (hr : Nat) (hh1 : Int) (ht1 : Bool), At s0 r0 → r0.length + 8 ≤ fuel →
        TimeAgree (match (Parser.parse_time_top3 fuel s0 ⟨y0, m0, d0, (hr : Int), 0, 0, 0, none, ho0, tzn0, hd0, true, ext0, mid0⟩) with
          | .error e => .error e
          | .ok (self, datetime) =>
            match (Parser.parse_time_top4 datetime) with
            | .error e => .error e
            | .ok datetime => (Parser.parse_time_top5 self datetime)) ⟨y0, m0, d0, hh1, 0, 0, 0, none, ho0, tzn0, hd0, ht1, ext0, mid0⟩
          (match rsMinSec hd0 ext0 r0 with
            | .error e => .error e
            | .ok (mi, s, us, r1) =>
              match rsTz r1 with
              | .error e => .error e
              | .ok (off, r2) => .ok (⟨hr, mi, s, us, off⟩, r2)) := by
      intro s0 r0 hr hh1 ht1 h0 hf0
      have ms := minsec_spec fuel s0 r0 h0 hf0 ⟨y0, m0, d0, (hr : Int), 0, 0, 0, none, ho0, tzn0, hd0, true, ext0, mid0⟩ rfl rfl rfl
      simp only at ms
      cases hm : rsMinSec hd0 ext0 r0 with
      | error k =>
        rw [hm] at ms
        obtain ⟨e, he⟩ := ms
        simp only [he]
        exact ⟨_, rfl⟩
      | ok x =>
        obtain ⟨mi, sec, us, r1⟩ := x
        rw [hm] at ms
        obtain ⟨s1, he, h1⟩ := ms
        obtain ⟨mid, hmid⟩ := midnight_spec ⟨y0, m0, d0, (hr : Int), (mi : Int), (sec : Int), (us : Int), none, ho0, tzn0, hd0, true, ext0, mid0⟩
        have os := offset_spec s1 r1 h1 ⟨y0, m0, d0, (hr : Int), (mi : Int), (sec : Int), (us : Int), none, ho0, tzn0, hd0, true, ext0, mid⟩ rfl
        simp only [he, hmid]
        cases ho : rsTz r1 with
        | error k =>
          rw [ho] at os
          obtain ⟨e, he2⟩ := os
          simp only [he2]
          exact ⟨_, rfl⟩
        | ok y =>
          obtain ⟨off, r2⟩ := y
          rw [ho] at os
          obtain ⟨s2, tzn, he2, h2⟩ := os
          simp only [he2]
          exact ⟨s2, tzn, mid, rfl, h2⟩
    unfold Parser.parse_time rsTime
    cases skip with
    | some hr =>
      have hh := hsk hr rfl
      subst hh
      simp only [Option.isSome_some, Bool.not_true, Bool.and_false, Bool.false_eq_true, if_false, Parser.parse_time_top2]
      exact rest self r hr _ _ h hf
    | none =>
      simp only [Option.isSome_none, Bool.not_false, Bool.and_true]
      generalize Parser.parse_error self _ = E
      rw [h.cur]
      cases r with
      | nil =>
        have hb : (('\x00' : Char) != 'T' && ('\x00' : Char) != ' ') = true := by decide
        simp only [List.headD_nil, hb, if_true]
        exact ⟨_, rfl⟩
      | cons c r1 =>
        simp only [List.headD_cons]
        by_cases hc : c = 'T' ∨ c = ' '
        · have hb : (c != 'T' && c != ' ') = false := by
            rcases hc with h | h <;> subst h <;> decide
          have h1 := h.inc
          simp only [hb, hc, Bool.false_eq_true, if_false, if_true, Parser.parse_time_top2, Bool.not_false]
          cases hx : exactN .rust 2 0 r1 with
          | none =>
            obtain ⟨e, he⟩ := pi_err2 h1 "hour" hx
            simp only [he]
            exact ⟨_, rfl⟩
          | some x =>
            obtain ⟨hr, r2⟩ := x
            obtain ⟨s2, he, h2⟩ := pi_ok2 h1 "hour" hx
            have hl := exactN_length _ _ _ _ _ _ hx
            simp only [he]
            exact rest s2 r2 hr _ _ h2 (by simp at hf; omega)
        · have hb : (c != 'T' && c != ' ') = true := by
            simp only [not_or] at hc
            simp [bne, hc.1, hc.2]
          simp only [hb, hc, if_true, if_false]
          exact ⟨_, rfl⟩

end Pendulum.IsoRsGen
