import Pendulum.Model.Diff
/-! Lemmas about the template engine and the decidable table checks used by `Props/C18.lean`.

`locOK ℓ`, `wordsOK ℓ`, `tokOK ℓ` are Boolean checks over a locale's generated table; the lemmas below lift them to
statements about every count / component tuple / argument string. -/
namespace Pendulum.Loc

/-! ### strings -/

/-- no brace is left in the string -/
def Clean (s : Str) : Prop := '{' ∉ s ∧ '}' ∉ s

def cleanB (s : Str) : Bool := !(s.contains '{') && !(s.contains '}')

theorem clean_of_cleanB {s : Str} (h : cleanB s = true) : Clean s := by
  simp [cleanB] at h
  exact ⟨h.1, h.2⟩

theorem Clean.append {a b : Str} (ha : Clean a) (hb : Clean b) : Clean (a ++ b) := by
  unfold Clean at *
  simp [List.mem_append]
  exact ⟨⟨ha.1, hb.1⟩, ⟨ha.2, hb.2⟩⟩

theorem clean_nil : Clean [] := by simp [Clean]

/-- what a computation returns when it is total, non-empty and fully substituted -/
def Good (r : Except Err Str) : Prop := ∃ s, r = .ok s ∧ s ≠ [] ∧ Clean s

/-- decidable "returns exactly this text" (for examples) -/
def okIs (r : Except Err Str) (s : String) : Bool :=
  match r with
  | .ok x => x == s.toList
  | .error _ => false

theorem showNat_ne_nil (n : Nat) : showNat n ≠ [] := Nat.toDigits_ne_nil

theorem showNat_clean (n : Nat) : Clean (showNat n) := by
  constructor <;> intro h <;>
    have := Nat.isDigit_of_mem_toDigits (b := 10) (n := n) (by decide) (by decide) h <;>
    simp [Char.isDigit] at this <;> revert this <;> decide

theorem showInt_ne_nil (n : Int) : showInt n ≠ [] := by
  cases n with
  | ofNat n => exact showNat_ne_nil n
  | negSucc n => simp [showInt]

theorem showInt_clean (n : Int) : Clean (showInt n) := by
  cases n with
  | ofNat n => exact showNat_clean n
  | negSucc n =>
    have h := showNat_clean (n + 1)
    unfold Clean at *
    simp only [showInt, List.mem_cons, not_or]
    exact ⟨⟨by decide, h.1⟩, ⟨by decide, h.2⟩⟩

theorem fmtMicro_ne_nil (x : Nat) : fmtMicro x ≠ [] := by
  simp [fmtMicro]

theorem fmtMicro_clean (x : Nat) : Clean (fmtMicro x) := by
  unfold fmtMicro
  simp only
  refine Clean.append (Clean.append (Clean.append (showNat_clean _) ?_) (showNat_clean _)) (showNat_clean _)
  simp [Clean]

/-! ### templates -/

/-- the text a well-formed template produces -/
def fill : List Seg → Str → Str
  | [], _ => []
  | .lit s :: r, arg => s.toList ++ fill r arg
  | .hole _ :: r, arg => arg ++ fill r arg

/-- every replacement field is `{}` (once) or `{0}`, never mixed: exactly the fields one positional argument serves -/
def wfGo : List Seg → Numbering → Bool
  | [], _ => true
  | .lit _ :: r, st => wfGo r st
  | .hole f :: r, st =>
    if f == "" then
      match st with
      | .unset => wfGo r (.auto 1)
      | _ => false
    else if f == "0" then
      match st with
      | .auto _ => false
      | _ => wfGo r .manual
    else false

def litsClean : List Seg → Bool
  | [] => true
  | .lit s :: r => cleanB s.toList && litsClean r
  | .hole _ :: r => litsClean r

def hasLit : List Seg → Bool
  | [] => false
  | .lit s :: r => !s.toList.isEmpty || hasLit r
  | .hole _ :: r => hasLit r

def hasHole : List Seg → Bool
  | [] => false
  | .lit _ :: r => hasHole r
  | .hole _ :: _ => true

theorem fmtGo_of_wf (segs : List Seg) : ∀ (st : Numbering) (arg acc : Str), wfGo segs st = true →
    fmtGo segs st arg acc = .ok (acc ++ fill segs arg) := by
  induction segs with
  | nil => intro st arg acc _; simp [fmtGo, fill]
  | cons sg r ih =>
    intro st arg acc h
    cases sg with
    | lit s =>
      simp only [wfGo] at h
      simp only [fmtGo, fill]
      rw [ih st arg _ h, List.append_assoc]
    | hole f =>
      simp only [wfGo] at h
      simp only [fmtGo, fill]
      cases hf : (f == "") with
      | true =>
        simp only [hf, if_true] at h ⊢
        cases st with
        | unset => simp only at h ⊢; rw [ih _ arg _ h, List.append_assoc]
        | auto k => simp at h
        | manual => simp at h
      | false =>
        simp only [hf, Bool.false_eq_true, if_false] at h ⊢
        cases hf0 : (f == "0") with
        | true =>
          simp only [hf0, if_true] at h ⊢
          cases st with
          | unset => simp only at h ⊢; rw [ih _ arg _ h, List.append_assoc]
          | auto k => simp at h
          | manual => simp only at h ⊢; rw [ih _ arg _ h, List.append_assoc]
        | false => simp [hf0] at h

theorem fmtSegs_of_wf {segs : List Seg} (h : wfGo segs .unset = true) (arg : Str) :
    fmtSegs segs arg = .ok (fill segs arg) := by
  unfold fmtSegs
  rw [fmtGo_of_wf segs _ arg [] h]
  simp

theorem fill_clean {segs : List Seg} {arg : Str} (hl : litsClean segs = true) (ha : Clean arg) :
    Clean (fill segs arg) := by
  induction segs with
  | nil => exact clean_nil
  | cons sg r ih =>
    cases sg with
    | lit s =>
      simp only [litsClean, Bool.and_eq_true] at hl
      exact Clean.append (clean_of_cleanB hl.1) (ih hl.2)
    | hole f =>
      simp only [litsClean] at hl
      exact Clean.append ha (ih hl)

theorem fill_ne_nil_of_lit {segs : List Seg} {arg : Str} (h : hasLit segs = true) : fill segs arg ≠ [] := by
  induction segs with
  | nil => simp [hasLit] at h
  | cons sg r ih =>
    cases sg with
    | lit s =>
      simp only [hasLit, Bool.or_eq_true] at h
      simp only [fill, ne_eq, List.append_eq_nil_iff, not_and]
      intro hs
      rcases h with h | h
      · simp [hs] at h
      · exact ih h
    | hole f =>
      simp only [hasLit] at h
      simp only [fill, ne_eq, List.append_eq_nil_iff, not_and]
      intro _
      exact ih h

theorem fill_ne_nil_of_hole {segs : List Seg} {arg : Str} (h : hasHole segs = true) (ha : arg ≠ []) :
    fill segs arg ≠ [] := by
  induction segs with
  | nil => simp [hasHole] at h
  | cons sg r ih =>
    cases sg with
    | lit s =>
      simp only [hasHole] at h
      simp only [fill, ne_eq, List.append_eq_nil_iff, not_and]
      intro _
      exact ih h
    | hole f =>
      simp only [fill, ne_eq, List.append_eq_nil_iff, not_and]
      intro h'
      exact absurd h' ha

/-! ### chains of templates -/

def tmplOK (segs : List Seg) : Bool := wfGo segs .unset && litsClean segs

def neAfter (ne : Bool) (segs : List Seg) : Bool := hasLit segs || (hasHole segs && ne)

/-- every step is a well-formed template and the final text is non-empty (given whether the first argument is) -/
def stepsOK : Bool → List Step → Bool
  | ne, [] => ne
  | _, .error _ :: _ => false
  | ne, .ok segs :: r => tmplOK segs && stepsOK (neAfter ne segs) r

theorem runSteps_good (steps : List Step) : ∀ (ne : Bool) (arg : Str), stepsOK ne steps = true →
    (ne = true → arg ≠ []) → Clean arg → Good (runSteps steps arg) := by
  induction steps with
  | nil =>
    intro ne arg h hne hc
    simp only [stepsOK] at h
    exact ⟨arg, rfl, hne h, hc⟩
  | cons st r ih =>
    intro ne arg h hne hc
    cases st with
    | error e => simp [stepsOK] at h
    | ok segs =>
      simp only [stepsOK, tmplOK, Bool.and_eq_true] at h
      obtain ⟨⟨hwf, hlc⟩, hr⟩ := h
      simp only [runSteps, fmtSegs_of_wf hwf]
      apply ih (neAfter ne segs) _ hr
      · intro hn
        simp only [neAfter, Bool.or_eq_true, Bool.and_eq_true] at hn
        rcases hn with hn | ⟨hh, hn⟩
        · exact fill_ne_nil_of_lit hn
        · exact fill_ne_nil_of_hole hh (hne hn)
      · exact fill_clean hlc hc

/-! ### the per-locale table checks -/

theorem all_bool {p : Bool → Bool} (h : [false, true].all p = true) (b : Bool) : p b = true := by
  simp only [List.all_cons, List.all_nil, Bool.and_true, Bool.and_eq_true] at h
  cases b
  · exact h.1
  · exact h.2

/-- all 8 flag combinations for unit `u` and plural class `pc` -/
def ucOK (ℓ : Locale) (u pc : String) : Bool :=
  [false, true].all fun inv => [false, true].all fun isNow => [false, true].all fun ab =>
    match stepsUC ℓ u pc inv isNow ab with
    | .ok steps => stepsOK true steps
    | .error _ => false

def mainOK (ℓ : Locale) : Bool :=
  TUnit.all.all fun u => ℓ.pluralClasses.all fun pc => ucOK ℓ u.key pc

def fewOK (ℓ : Locale) : Bool :=
  match ℓ.get ["custom", "units", "few_second"] with
  | .error _ => false
  | .ok none => true
  | .ok (some node) =>
    match nodeStr node with
    | .error _ => false
    | .ok time =>
      cleanB time && !time.isEmpty &&
      [false, true].all fun inv => [false, true].all fun isNow =>
        stepsOK true [tmplAt ℓ ["custom", if isNow then nowKey inv else relKey inv]]

/-- the `keys_total` check of one locale for `DifferenceFormatter.format` -/
def locOK (ℓ : Locale) : Bool := mainOK ℓ && fewOK ℓ

theorem TUnit.mem_all (u : TUnit) : u ∈ TUnit.all := by
  cases u <;> simp [TUnit.all]

theorem mainPlan_good {ℓ : Locale} (hOK : mainOK ℓ = true) (hpl : ∀ n, ℓ.plural n ∈ ℓ.pluralClasses)
    (u : TUnit) (n : Int) (inv isNow ab : Bool) :
    ∃ p, mainPlan ℓ u n inv isNow ab = .ok p ∧ Good p.run := by
  have h1 := List.all_eq_true.mp hOK u u.mem_all
  have h2 := List.all_eq_true.mp h1 _ (hpl (fixCount n))
  have h3 := all_bool (all_bool (all_bool h2 inv) isNow) ab
  unfold mainPlan
  simp only
  cases hs : stepsUC ℓ u.key (ℓ.plural (fixCount n)) inv isNow ab with
  | error e => simp [hs] at h3
  | ok steps =>
    simp only [hs] at h3
    refine ⟨_, rfl, ?_⟩
    exact runSteps_good steps true _ h3 (fun _ => showInt_ne_nil _) (showInt_clean _)

theorem format_good_of {ℓ : Locale} (hOK : locOK ℓ = true) (hpl : ∀ n, ℓ.plural n ∈ ℓ.pluralClasses)
    (c : Comps) (isNow ab : Bool) : Good (format ℓ c isNow ab) := by
  simp only [locOK, Bool.and_eq_true] at hOK
  obtain ⟨hM, hF⟩ := hOK
  unfold format plan
  cases hsel : selectUnit c with
  | some un =>
    obtain ⟨u, n⟩ := un
    obtain ⟨p, hp, hg⟩ := mainPlan_good hM hpl u n c.invert isNow ab
    simp only [hp]
    exact hg
  | none =>
    simp only
    unfold fewPlan
    unfold fewOK at hF
    cases hget : ℓ.get ["custom", "units", "few_second"] with
    | error e => simp [hget] at hF
    | ok o =>
      cases o with
      | none =>
        obtain ⟨p, hp, hg⟩ := mainPlan_good hM hpl .second c.seconds c.invert isNow ab
        simp only [hp]
        exact hg
      | some node =>
        rw [hget] at hF
        simp only at hF ⊢
        cases hns : nodeStr node with
        | error e => simp [hns] at hF
        | ok time =>
          simp only [hns, Bool.and_eq_true] at hF
          obtain ⟨⟨hcl, hne⟩, hall⟩ := hF
          have hne' : time ≠ [] := by
            intro h; simp [h] at hne
          simp only
          by_cases hab : ab = true
          · simp only [hab, if_true]
            exact ⟨time, rfl, hne', clean_of_cleanB hcl⟩
          · simp only [hab, Bool.false_eq_true, if_false]
            have := all_bool (all_bool hall c.invert) isNow
            exact runSteps_good _ true _ this (fun _ => hne') (clean_of_cleanB hcl)

/-! ### in_words -/

def wordsOK (ℓ : Locale) : Bool :=
  (unitNames ++ ["microsecond"]).all fun u => ℓ.pluralClasses.all fun pc =>
    stepsOK true [tmplAt ℓ ["translations", "units", u, pc]]

theorem wordsPart_good {ℓ : Locale} (hOK : wordsOK ℓ = true) (hpl : ∀ n, ℓ.plural n ∈ ℓ.pluralClasses)
    {u : String} (hu : u ∈ unitNames ++ ["microsecond"]) (k : Int) {arg : Str} (hne : arg ≠ []) (hc : Clean arg) :
    Good (wordsPart ℓ u k arg) := by
  have h1 := List.all_eq_true.mp hOK u hu
  have h2 := List.all_eq_true.mp h1 _ (hpl k)
  unfold wordsPart
  cases ht : tmplAt ℓ ["translations", "units", u, ℓ.plural k] with
  | error e => simp [ht, stepsOK] at h2
  | ok segs =>
    simp only [ht] at h2
    obtain ⟨s, hs, hne', hcl⟩ := runSteps_good _ true arg h2 (fun _ => hne) hc
    simp only [runSteps] at hs
    cases hfm : fmtSegs segs arg with
    | error e => simp [hfm] at hs
    | ok s' =>
      simp only [hfm, Except.ok.injEq] at hs
      exact ⟨s', hfm, hs ▸ hne', hs ▸ hcl⟩

theorem joinSep_ne_nil {sep : Str} {p : Str} {ps : List Str} (hp : p ≠ []) : joinSep sep (p :: ps) ≠ [] := by
  cases ps with
  | nil => simpa [joinSep] using hp
  | cons q r => simp [joinSep, hp]

theorem joinSep_clean {sep : Str} (hs : Clean sep) : ∀ (ps : List Str), (∀ p ∈ ps, Clean p) → Clean (joinSep sep ps)
  | [], _ => clean_nil
  | [p], h => by simpa [joinSep] using h p (by simp)
  | p :: q :: r, h => by
    simp only [joinSep]
    exact Clean.append (Clean.append (h p (by simp)) hs) (joinSep_clean hs (q :: r) (fun x hx => h x (by simp [hx])))

theorem wordsParts_good {ℓ : Locale} (hOK : wordsOK ℓ = true) (hpl : ∀ n, ℓ.plural n ∈ ℓ.pluralClasses) :
    ∀ (ivs : List (String × Int)), (∀ p ∈ ivs, p.1 ∈ unitNames ++ ["microsecond"]) →
      ∃ ss, wordsParts ℓ ivs = .ok ss ∧ ∀ s ∈ ss, s ≠ [] ∧ Clean s := by
  intro ivs
  induction ivs with
  | nil => intro _; exact ⟨[], rfl, by simp⟩
  | cons p r ih =>
    intro hmem
    obtain ⟨u, n⟩ := p
    obtain ⟨ss, hss, hall⟩ := ih (fun q hq => hmem q (by simp [hq]))
    unfold wordsParts
    by_cases hn : n = 0
    · simp only [hn, if_true]
      exact ⟨ss, hss, hall⟩
    · simp only [hn, if_false]
      obtain ⟨s, hs, hne, hcl⟩ := wordsPart_good hOK hpl (hmem (u, n) (by simp)) n.natAbs (showInt_ne_nil n) (showInt_clean n)
      simp only [hs, hss]
      refine ⟨s :: ss, rfl, ?_⟩
      intro x hx
      simp only [List.mem_cons] at hx
      rcases hx with rfl | hx
      · exact ⟨hne, hcl⟩
      · exact hall x hx

theorem inWords_good_of {ℓ : Locale} (hOK : wordsOK ℓ = true) (hpl : ∀ n, ℓ.plural n ∈ ℓ.pluralClasses)
    (c : Comps) (us : Int) (sep : Str) :
    ∃ s, inWords ℓ c us sep = .ok s ∧ s ≠ [] ∧ (Clean sep → Clean s) := by
  unfold inWords
  obtain ⟨ss, hss, hall⟩ := wordsParts_good hOK hpl
    [("year", c.years), ("month", c.months), ("week", c.weeks), ("day", c.days),
     ("hour", c.hours), ("minute", c.minutes), ("second", c.seconds)]
    (by intro p hp; simp only [List.mem_cons, List.not_mem_nil, or_false] at hp
        rcases hp with rfl | rfl | rfl | rfl | rfl | rfl | rfl <;> simp [unitNames])
  simp only [hss]
  cases ss with
  | nil =>
    simp only
    by_cases hus : us = 0
    · simp only [hus, ne_eq, not_true_eq_false, if_false]
      obtain ⟨s, hs, hne, hcl⟩ := wordsPart_good hOK hpl (u := "microsecond") (by simp [unitNames]) 0
        (showInt_ne_nil 0) (showInt_clean 0)
      exact ⟨s, hs, hne, fun _ => hcl⟩
    · simp only [ne_eq, hus, not_false_eq_true, if_true]
      obtain ⟨s, hs, hne, hcl⟩ := wordsPart_good hOK hpl (u := "second") (by simp [unitNames]) 1
        (fmtMicro_ne_nil us.natAbs) (fmtMicro_clean us.natAbs)
      exact ⟨s, hs, hne, fun _ => hcl⟩
  | cons p ps =>
    simp only
    refine ⟨_, rfl, joinSep_ne_nil (hall p (by simp)).1, fun hsep => ?_⟩
    exact joinSep_clean hsep _ (fun x hx => (hall x hx).2)

end Pendulum.Loc
