import Lean.Elab.Tactic
/-! `gen_tie "Namespace.theorem" "what was regenerated" => tacs`: run `tacs`; when they fail, say which generated-model tie
theorem broke. Lean's own messages carry positions only, so an extra error naming the theorem is logged right after
Lean's own (detailed) message. Same purpose as `tie` in Proofs/TimeGen.lean, under another keyword so that both can be
imported together. -/
namespace Pendulum.GenTie
open Lean Elab Tactic

elab "gen_tie " n:str src:str " => " t:tacticSeq : tactic => do
  let note : MessageData :=
    m!"GENERATED-MODEL TIE BROKEN: theorem {n.getString} — {src.getString} no longer equals the hand model (details: the error just above)"
  let before := (← getThe Core.State).messages.hasErrors
  try
    evalTactic t
  catch e =>
    if e.isRuntime then throw e
    if e matches .error .. then
      logException e
      logError note
      throwAbortTactic
    logError note
    throw e
  if !before && (← getThe Core.State).messages.hasErrors then
    logError note

end Pendulum.GenTie
