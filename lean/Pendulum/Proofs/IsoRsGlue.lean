import Pendulum.Proofs.IsoRsLen
import Pendulum.Proofs.IsoRsDur
import Pendulum.Model.ParseAll
/-! Tie between the regenerated `Parser::parse_datetime` / `Parser::parse` / PyO3 glue `parse_iso8601` (`Gen/IsoRs.lean`) and the hand
models `Iso.rsParse` (`Model/Iso.lean`) and `ParseAll.isoAny _ .rust` (`Model/ParseAll.lean`). -/
namespace Pendulum.IsoRsGen
open Pendulum Pendulum.RsStd Pendulum.Gen.IsoRs Pendulum.Iso Pendulum.GenTie
set_option linter.unusedSimpArgs false

/-- what the glue builds from a parsed element (the CPython constructors as in the hand model) -/
def toR (dt : ParsedDateTime) : Iso.R :=
  if dt.has_date then
    (if dt.has_time then mkDateTime dt.year dt.month dt.day dt.hour dt.minute dt.second dt.microsecond dt.offset
     else mkDate dt.year dt.month dt.day)
  else (if dt.has_time then mkTime dt.hour dt.minute dt.second dt.microsecond dt.offset else .error .valueError)

/-- where `parse_datetime` stores a finished element -/
def store (parsed : Gen.IsoRs.Parsed) (dt : ParsedDateTime) : Gen.IsoRs.Parsed :=
  match parsed.datetime with
  | some _ => { parsed with second_datetime := some dt }
  | none =>
    match parsed.duration with
    | some _ => { parsed with second_datetime := some dt }
    | none => { parsed with datetime := some dt }

/-- the hand model of `parse_datetime` for one element -/
def rsDT (cs : List Char) : Iso.R := if cs.head? = some 'T' then rsTimeOnly false none cs else rsMain cs

theorem store_eq (parsed : Gen.IsoRs.Parsed) (dt : ParsedDateTime) :
    (match parsed.datetime with
      | some _ => (.ok { parsed with second_datetime := some dt } : Except (Err ParseError) Gen.IsoRs.Parsed)
      | none =>
        match parsed.duration with
        | some _ => .ok { parsed with second_datetime := some dt }
        | none => .ok { parsed with datetime := some dt }) = .ok (store parsed dt) := by
  unfold store
  cases parsed.datetime <;> cases parsed.duration <;> rfl

theorem top9_eq (parsed : Gen.IsoRs.Parsed) (dt : ParsedDateTime) : Parser.parse_datetime_top9 parsed dt = .ok (store parsed dt) := by
  gen_tie "Pendulum.IsoRsGen.top9_eq" "rust/src/parsing.rs parse_datetime / rust/src/python/parsing.rs parse_iso8601" =>
    unfold Parser.parse_datetime_top9 store
    cases parsed.datetime <;> cases parsed.duration <;> rfl


theorem toOption_error {α : Type} (k : Kind) : (Except.error k : Except Kind α).toOption = none := rfl

/-- the end of an element that was followed by nothing / by something -/
theorem finish_elem (fuel depth : Nat) (parsed : Gen.IsoRs.Parsed) (s5 : Parser) (r4 : List Char) (h5 : At s5 r4) (dt5 : ParsedDateTime)
    (v : Iso.R) (hv : (toR dt5).toOption = v.toOption) :
    let X : Except (Err ParseError) (Parser × Gen.IsoRs.Parsed) :=
      if (!(Parser.end_ s5)) then (
        if (((s5.current == '/') && (parsed.datetime).isNone) && (parsed.duration).isNone) then (
            if ((Parser.inc s5).2.current == 'P') then (
                (Parser.parse_duration fuel (Parser.inc s5).2 { parsed with datetime := (some dt5) })
            ) else (
                (Parser.parse_datetime fuel depth (Parser.inc s5).2 { parsed with datetime := (some dt5) })
            )
        ) else
        .error (.fail (Parser.parse_error s5 "Unconverted data remains"))
      ) else
      match (Parser.parse_datetime_top9 parsed dt5) with
      | .error e => .error e
      | .ok parsed => .ok (s5, parsed)
    ((∃ e, X = .error (.fail e)) ∧ (rsEnd r4 v).toOption = none) ∨
    (∃ self' dt, X = .ok (self', store parsed dt) ∧ (toR dt).toOption = (rsEnd r4 v).toOption) ∨
    (parsed.datetime = none ∧ parsed.duration = none ∧ (rsEnd r4 v).toOption = none ∧
      ∃ s1 q dt, At s1 q ∧ q.length < r4.length ∧
        X = (if s1.current == 'P' then Parser.parse_duration fuel s1 { parsed with datetime := some dt }
             else Parser.parse_datetime fuel depth s1 { parsed with datetime := some dt })) := by
  gen_tie "Pendulum.IsoRsGen.finish_elem" "rust/src/parsing.rs parse_datetime / rust/src/python/parsing.rs parse_iso8601" =>
    intro X
    cases r4 with
    | nil =>
      refine Or.inr (Or.inl ⟨s5, dt5, ?_, hv⟩)
      simp only [X, h5.end_, List.isEmpty_nil, Bool.not_true, Bool.false_eq_true, if_false, top9_eq]
    | cons c r5 =>
      have hne : (rsEnd (c :: r5) v).toOption = none := by
        simp only [rsEnd]; split <;> rfl
      by_cases hg : (((s5.current == '/') && (parsed.datetime).isNone) && (parsed.duration).isNone) = true
      · refine Or.inr (Or.inr ⟨?_, ?_, hne, (Parser.inc s5).2, r5, dt5, h5.inc, by simp, ?_⟩)
        · simp only [Bool.and_eq_true, Option.isNone_iff_eq_none] at hg; exact hg.1.2
        · simp only [Bool.and_eq_true, Option.isNone_iff_eq_none] at hg; exact hg.2
        · simp only [X, h5.end_, List.isEmpty_cons, Bool.not_false, if_true, hg]
      · have hg' : (((s5.current == '/') && (parsed.datetime).isNone) && (parsed.duration).isNone) = false := by
          cases hb : (((s5.current == '/') && (parsed.datetime).isNone) && (parsed.duration).isNone) with
          | false => rfl
          | true => exact absurd hb hg
        refine Or.inl ⟨⟨Parser.parse_error s5 "Unconverted data remains", ?_⟩, hne⟩
        simp only [X, h5.end_, List.isEmpty_cons, Bool.not_false, if_true, hg', Bool.false_eq_true, if_false]


def Outcome (fuel depth : Nat) (parsed : Gen.IsoRs.Parsed) (r : List Char) (X : Except (Err ParseError) (Parser × Gen.IsoRs.Parsed))
    (m : Iso.R) : Prop :=
  ((∃ e, X = .error (.fail e)) ∧ m.toOption = none) ∨
  (∃ self' dt, X = .ok (self', store parsed dt) ∧ (toR dt).toOption = m.toOption) ∨
  (parsed.datetime = none ∧ parsed.duration = none ∧ m.toOption = none ∧
    ∃ s1 q dt, At s1 q ∧ q.length < r.length ∧
      X = (if s1.current == 'P' then Parser.parse_duration fuel s1 { parsed with datetime := some dt }
           else Parser.parse_datetime fuel depth s1 { parsed with datetime := some dt }))

/-- a stand-alone time (`T…` or `hh:…`): the two first exits of `parse_datetime` -/
theorem time_only (fuel depth : Nat) (parsed : Gen.IsoRs.Parsed) (r : List Char) (self : Parser) (q : List Char) (h : At self q)
    (hf : q.length + 8 ≤ fuel) (dt : ParsedDateTime) (skip : Option Nat) (hsk : ∀ hr, skip = some hr → dt.hour = (hr : Int))
    (hmi : dt.minute = 0) (hs : dt.second = 0) (hus : dt.microsecond = 0) (hoff : dt.offset = none) (hd : dt.has_date = false) :
    Outcome fuel depth parsed r
      (match (Parser.parse_time fuel self dt skip.isSome) with
        | .error e => .error e
        | .ok (self, datetime) =>
        if (!(Parser.end_ self)) then (
            .error (.fail (Parser.parse_error self "Unconverted data remains"))
        ) else
        match ((
            match parsed.datetime with
            | (some _) => .ok { parsed with second_datetime := (some datetime) }
            | none => (
                match parsed.duration with
                | (some _) => .ok { parsed with second_datetime := (some datetime) }
                | none => .ok { parsed with datetime := (some datetime) }
              )
            ) : Except (Err ParseError) (Gen.IsoRs.Parsed)) with
        | .error e => .error e
        | .ok parsed => .ok (self, parsed))
      (rsTimeOnly dt.extended_date_format skip q) := by
  gen_tie "Pendulum.IsoRsGen.time_only" "rust/src/parsing.rs parse_datetime / rust/src/python/parsing.rs parse_iso8601" =>
    have ts := time_spec fuel self q h hf dt skip hsk hmi hs hus hoff
    rw [hd] at ts
    unfold rsTimeOnly
    cases hm : rsTime false dt.extended_date_format skip q with
    | error k =>
      rw [hm] at ts
      obtain ⟨e, he⟩ := ts
      exact Or.inl ⟨⟨e, by simp only [he]⟩, rfl⟩
    | ok x =>
      obtain ⟨t, rest⟩ := x
      rw [hm] at ts
      obtain ⟨s1, tzn, mid, he, h1⟩ := ts
      simp only [he, h1.end_]
      cases rest with
      | nil =>
        refine Or.inr (Or.inl ⟨s1, setTime dt t tzn mid, ?_, ?_⟩)
        · simp only [List.isEmpty_nil, Bool.not_true, Bool.false_eq_true, if_false, store_eq]
        · simp [toR, setTime, hd]
      | cons c rest' =>
        refine Or.inl ⟨⟨Parser.parse_error s1 "Unconverted data remains", ?_⟩, rfl⟩
        simp only [List.isEmpty_cons, Bool.not_false, if_true]


/-- **`Parser::parse_datetime`** for one element = `Iso.rsDT` (`rsTimeOnly` / `rsMain`); an interval is left to the next call -/
theorem datetime_spec (fuel depth : Nat) (self : Parser) (r : List Char) (h : At self r) (hf : r.length + 8 ≤ fuel)
    (parsed : Gen.IsoRs.Parsed) :
    Outcome fuel depth parsed r (Parser.parse_datetime fuel (depth + 1) self parsed) (rsDT r) := by
  gen_tie "Pendulum.IsoRsGen.datetime_spec" "rust/src/parsing.rs parse_datetime / rust/src/python/parsing.rs parse_iso8601" =>
    unfold Parser.parse_datetime rsDT
    simp only [ParsedDateTime.new]
    rw [h.cur]
    by_cases hT : r.head? = some 'T'
    · obtain ⟨r0, rfl⟩ : ∃ r0, r = 'T' :: r0 := by
        cases r with
        | nil => simp at hT
        | cons c r0 => simp at hT; exact ⟨r0, by rw [hT]⟩
      simp only [List.headD_cons, beq_self_eq_true, if_true, List.head?_cons]
      exact time_only fuel depth parsed _ self _ h hf ⟨0, 1, 1, 0, 0, 0, 0, none, false, none, false, false, false, false⟩ none
        (fun hr hh => by cases hh) rfl rfl rfl rfl rfl
    · have hTb : (r.headD '\x00' == 'T') = false := by
        cases r with
        | nil => decide
        | cons c r0 => simp at hT; simpa using hT
      simp only [hTb, hT, Bool.false_eq_true, if_false]
      unfold rsMain
      cases hx : exactN .rust 2 0 r with
      | none =>
        obtain ⟨e, he⟩ := pi_err2 h "year" hx
        exact Or.inl ⟨⟨e, by simp only [he]⟩, rfl⟩
      | some x =>
        obtain ⟨yy, r1⟩ := x
        obtain ⟨s1, he, h1⟩ := pi_ok2 h "year" hx
        have hl1 := exactN_length _ _ _ _ _ _ hx
        simp only [he, h1.cur]
        by_cases hc : (optChar ':' r1).1 = true
        · obtain ⟨r2, rfl⟩ : ∃ r2, r1 = ':' :: r2 := by
            cases r1 with
            | nil => simp [optChar] at hc
            | cons c r2 =>
              rw [optChar_cons] at hc
              by_cases h' : c = ':'
              · exact ⟨r2, by rw [h']⟩
              · simp [h'] at hc
          simp only [List.headD_cons, beq_self_eq_true, if_true, hc]
          exact time_only fuel depth parsed _ s1 _ h1 (by omega) ⟨0, 1, 1, (yy : Int), 0, 0, 0, none, false, none, false, false, true, false⟩
            (some yy) (fun hr hh => by cases hh; rfl) rfl rfl rfl rfl rfl
        · have hcb : (r1.headD '\x00' == ':') = false := by
            cases r1 with
            | nil => decide
            | cons c r2 =>
              rw [optChar_cons] at hc
              by_cases h' : c = ':'
              · simp [h'] at hc
              · simpa using h'
          simp only [hcb, hc, Bool.false_eq_true, if_false]
          cases hx2 : exactN .rust 2 0 r1 with
          | none =>
            obtain ⟨e, he2⟩ := pi_err2 h1 "year" hx2
            exact Or.inl ⟨⟨e, by simp only [he2]⟩, rfl⟩
          | some x2 =>
            obtain ⟨yy2, r2⟩ := x2
            obtain ⟨s2, he2, h2⟩ := pi_ok2 h1 "year" hx2
            have hl2 := exactN_length _ _ _ _ _ _ hx2
            simp only [he2]
            have hyear : ((yy : Int) * 100 + (yy2 : Int)) = ((yy * 100 + yy2 : Nat) : Int) := by simp
            rw [hyear]
            have ds := date_spec s2 r2 h2 ⟨((yy * 100 + yy2 : Nat) : Int), 1, 1, 0, 0, 0, 0, none, false, none, true, false, false, false⟩
              (yy * 100 + yy2) rfl rfl
            unfold rsFinish
            cases hm : rsDateRest (yy * 100 + yy2) r2 with
            | error k =>
              rw [hm] at ds
              obtain ⟨e, he3⟩ := ds
              exact Or.inl ⟨⟨e, by simp only [he3]⟩, rfl⟩
            | ok x3 =>
              obtain ⟨⟨y, m, d⟩, ext, r3⟩ := x3
              rw [hm] at ds
              obtain ⟨s3, he3, h3⟩ := ds
              have hl3 : r3.length ≤ r2.length := dateRest_len _ _ _ _ _ hm
              simp only [he3, h3.end_]
              cases r3 with
              | nil =>
                simp only [List.isEmpty_nil, Bool.not_true, Bool.false_eq_true, if_false, h3.end_]
                refine Or.inr (Or.inl ⟨s3, setYmd ⟨((yy * 100 + yy2 : Nat) : Int), 1, 1, 0, 0, 0, 0, none, false, none, true, false, false, false⟩ (y, m, d) ext, ?_, ?_⟩)
                · simp only [top9_eq]
                · simp [toR, setYmd]
              | cons c3 r4 =>
                simp only [List.isEmpty_cons, Bool.not_false, if_true]
                have ts := time_spec fuel s3 (c3 :: r4) h3 (by simp at hl3 ⊢; omega)
                  (setYmd ⟨((yy * 100 + yy2 : Nat) : Int), 1, 1, 0, 0, 0, 0, none, false, none, true, false, false, false⟩ (y, m, d) ext)
                  none (fun hr hh => by cases hh) rfl rfl rfl rfl
                simp only [setYmd] at ts
                cases hm2 : rsTime true ext none (c3 :: r4) with
                | error k =>
                  rw [hm2] at ts
                  obtain ⟨e, he4⟩ := ts
                  exact Or.inl ⟨⟨e, by simp only [Option.isSome_none, setYmd] at he4 ⊢; simp only [he4]⟩, rfl⟩
                | ok x4 =>
                  obtain ⟨t, r5⟩ := x4
                  rw [hm2] at ts
                  obtain ⟨s5, tzn, mid, he4, h5⟩ := ts
                  simp only [Option.isSome_none, setYmd] at he4 ⊢
                  simp only [he4]
                  have hl5 := time_len _ _ _ _ _ hm2
                  have fe := finish_elem fuel depth parsed s5 r5 h5
                    (setTime ⟨y, m, d, 0, 0, 0, 0, none, false, none, true, false, ext, false⟩ t tzn mid)
                    (mkDateTime y m d t.h t.mi t.s t.us t.off) (by simp [toR, setTime])
                  simp only [setTime] at fe
                  rcases fe with ⟨⟨e, hx⟩, hn⟩ | ⟨self', dt, hx, hv⟩ | ⟨hp1, hp2, hn, s1', q, dt, hA, hq, hx⟩
                  · exact Or.inl ⟨⟨e, hx⟩, hn⟩
                  · exact Or.inr (Or.inl ⟨self', dt, hx, hv⟩)
                  · exact Or.inr (Or.inr ⟨hp1, hp2, hn, s1', q, dt, hA, by simp at hl5 hl3 ⊢; omega, hx⟩)


/-- a call of `parse_datetime` / `parse_duration` after a first element: an error, or a second element / a duration is added -/
def Second (parsed : Gen.IsoRs.Parsed) (X : Except (Err ParseError) (Parser × Gen.IsoRs.Parsed)) : Prop :=
  (∃ e, X = .error (.fail e)) ∨
  (∃ self' p', X = .ok (self', p') ∧ p'.datetime = parsed.datetime ∧ (p'.second_datetime.isSome ∨ p'.duration.isSome))

theorem nested_datetime (fuel depth : Nat) (self : Parser) (r : List Char) (h : At self r) (hf : r.length + 8 ≤ fuel)
    (parsed : Gen.IsoRs.Parsed) (d0 : ParsedDateTime) (hp : parsed.datetime = some d0) :
    Second parsed (Parser.parse_datetime fuel (depth + 1) self parsed) := by
  gen_tie "Pendulum.IsoRsGen.nested_datetime" "rust/src/parsing.rs parse_datetime / rust/src/python/parsing.rs parse_iso8601" =>
    rcases datetime_spec fuel depth self r h hf parsed with ⟨⟨e, hx⟩, _⟩ | ⟨self', dt, hx, _⟩ | ⟨hn, _⟩
    · exact Or.inl ⟨e, hx⟩
    · refine Or.inr ⟨self', store parsed dt, hx, ?_, Or.inl ?_⟩ <;> simp [store, hp]
    · rw [hp] at hn; cases hn

theorem nested_duration (fuel : Nat) (self : Parser) (q : List Char) (h : At self q) (hf : q.length + 8 ≤ fuel)
    (hP : (self.current == 'P') = true) (parsed : Gen.IsoRs.Parsed) :
    Second parsed (Parser.parse_duration fuel self parsed) := by
  gen_tie "Pendulum.IsoRsGen.nested_duration" "rust/src/parsing.rs parse_datetime / rust/src/python/parsing.rs parse_iso8601" =>
    obtain ⟨pre, rfl⟩ := h
    obtain ⟨cs, rfl⟩ : ∃ cs, q = 'P' :: cs := by
      cases q with
      | nil => simp at hP
      | cons c cs => simp at hP; exact ⟨cs, by rw [hP]⟩
    obtain ⟨hv, hk⟩ := parse_duration_eq_model fuel pre cs parsed (by simp at hf; omega)
    cases hx : Parser.parse_duration fuel (stAt pre ('P' :: cs)) parsed with
    | error e =>
      cases e with
      | fail e => exact Or.inl ⟨e, rfl⟩
      | fuel => rw [hx] at hv; simp [durView] at hv
    | ok y =>
      obtain ⟨self', p'⟩ := y
      obtain ⟨a, b, c⟩ := hk self' p' hx
      exact Or.inr ⟨self', p', rfl, a, Or.inr c⟩

/-- what the glue makes of the result of `Parser::parse` for a date/time string; `none` = a loop was cut -/
def dtView (x : Except (Err ParseError) (Parser × Gen.IsoRs.Parsed)) : Option (Option Value) :=
  match x with
  | .error .fuel => none
  | .error (.fail _) => some none
  | .ok (_, ⟨some dt, none, none⟩) => some (toR dt).toOption
  | .ok _ => some none

theorem dtView_second (parsed : Gen.IsoRs.Parsed) (X : Except (Err ParseError) (Parser × Gen.IsoRs.Parsed)) (h : Second parsed X) :
    dtView X = some none := by
  rcases h with ⟨e, rfl⟩ | ⟨self', p', rfl, _, hs⟩
  · rfl
  · obtain ⟨a, b, c⟩ := p'
    simp only at hs
    cases a <;> cases b <;> cases c <;> simp_all [dtView]

/-- **`Parser::parse_datetime` on a fresh `Parsed`** = the hand model `rsDT` (through the constructors `toR`), never cut -/
theorem parse_datetime_eq_model (fuel depth : Nat) (self : Parser) (r : List Char) (h : At self r) (hf : r.length + 8 ≤ fuel) :
    dtView (Parser.parse_datetime fuel (depth + 2) self Parsed.new) = some (rsDT r).toOption ∧
    (∀ self' p', Parser.parse_datetime fuel (depth + 2) self Parsed.new = .ok (self', p') → p'.datetime.isSome) := by
  gen_tie "Pendulum.IsoRsGen.parse_datetime_eq_model" "rust/src/parsing.rs parse_datetime / rust/src/python/parsing.rs parse_iso8601" =>
    rcases datetime_spec fuel (depth + 1) self r h hf Parsed.new with ⟨⟨e, hx⟩, hn⟩ | ⟨self', dt, hx, hv⟩ | ⟨_, _, hn, s1, q, dt, hA, hq, hx⟩
    · rw [hx, hn]; exact ⟨rfl, fun _ _ hh => by cases hh⟩
    · rw [hx, ← hv]; exact ⟨rfl, fun _ _ hh => by cases hh; rfl⟩
    · rw [hx, hn]
      have key : ∀ X, Second ({ Parsed.new with datetime := some dt }) X → dtView X = some none ∧
          (∀ self' p', X = .ok (self', p') → p'.datetime.isSome) := by
        intro X hS
        refine ⟨dtView_second _ _ hS, fun self' p' hh => ?_⟩
        rcases hS with ⟨e, he⟩ | ⟨s2, p2, he, hd, _⟩
        · rw [he] at hh; cases hh
        · rw [he] at hh; cases hh; rw [hd]; rfl
      by_cases hP : (s1.current == 'P') = true
      · simp only [hP, if_true]
        exact key _ (nested_duration fuel s1 q hA (by omega) hP _)
      · simp only [hP, if_false]
        exact key _ (nested_datetime fuel depth s1 q hA (by omega) _ dt rfl)


/-! ### the PyO3 glue -/

variable {Obj : Type}

/-- the PyO3 constructors are the CPython ones of the hand model (`mkDateTime`, `mkDate`, `mkTime`: range checks, else an
exception), `obj` being the Python object for a value; the name of a `FixedTimezone` plays no role; a `Duration` object is
determined by its eight fields -/
structure ExtOk (ext : Ext Obj) (obj : Value → Obj) (objDur : IsoDur.Parsed → Obj) : Prop where
  datetime : ∀ (y m d h mi s us : Int) (tz : Option FixedTimezone),
    (ext.PyDateTime_new_bound y m d h mi s us tz).toOption = (mkDateTime y m d h mi s us (tz.map (·.offset))).toOption.map obj
  date : ∀ (y m d : Int), (ext.PyDate_new_bound y m d).toOption = (mkDate y m d).toOption.map obj
  time : ∀ (h mi s us : Int) (tz : Option FixedTimezone),
    (ext.PyTime_new_bound h mi s us tz).toOption = (mkTime h mi s us (tz.map (·.offset))).toOption.map obj
  dur : ∀ d : Duration, ext.duration_to_object d =
    objDur ⟨d.years, d.months, d.weeks, d.days, d.hours, d.minutes, d.seconds, d.microseconds⟩

/-- result of `parse_iso8601`: `some (some o)` = the object, `some none` = an exception, `none` = a loop was cut -/
def glueView (x : Except (Err PyErr) Obj) : Option (Option Obj) :=
  match x with
  | .ok o => some (some o)
  | .error (.fail _) => some none
  | .error .fuel => none

def objOf (obj : Value → Obj) (objDur : IsoDur.Parsed → Obj) : ParseAll.IsoRes → Obj
  | .val v => obj v
  | .dur p => objDur p

theorem glueView_lift (x : Except PyErr Obj) :
    glueView (match x with | .error e => (.error (.fail e) : Except (Err PyErr) Obj) | .ok v => .ok v) = some x.toOption := by
  cases x <;> rfl

theorem rsParse_eq_rsDT (cs : List Char) (h : cs.head? ≠ some 'P') : rsParse cs = rsDT cs := by
  simp [rsParse, rsDT, h]

/-- the conversion of one parsed element -/
theorem glue_elem (ext : Ext Obj) (obj : Value → Obj) (objDur : IsoDur.Parsed → Obj) (hext : ExtOk ext obj objDur) (datetime : ParsedDateTime) :
    glueView (match (datetime.has_date, datetime.has_time) with
          | (true, true) => (
              match datetime.offset with
              | (some offset) => (
                  match (ext.PyDateTime_new_bound datetime.year datetime.month datetime.day datetime.hour datetime.minute datetime.second datetime.microsecond (some (FixedTimezone.new offset datetime.tzname))) with
                  | .error e => .error (.fail e)
                  | .ok dt => .ok dt
                )
              | none =>
                  match (ext.PyDateTime_new_bound datetime.year datetime.month datetime.day datetime.hour datetime.minute datetime.second datetime.microsecond none) with
                  | .error e => .error (.fail e)
                  | .ok dt => .ok dt
            )
          | (true, false) => (
              match (ext.PyDate_new_bound datetime.year datetime.month datetime.day) with
              | .error e => .error (.fail e)
              | .ok dt => .ok dt
            )
          | (false, true) => (
              match datetime.offset with
              | (some offset) => (
                  match (ext.PyTime_new_bound datetime.hour datetime.minute datetime.second datetime.microsecond (some (FixedTimezone.new offset datetime.tzname))) with
                  | .error e => .error (.fail e)
                  | .ok dt => .ok dt
                )
              | none =>
                  match (ext.PyTime_new_bound datetime.hour datetime.minute datetime.second datetime.microsecond none) with
                  | .error e => .error (.fail e)
                  | .ok dt => .ok dt
            )
          | (_, _) => (.error (.fail (PyErr.valueError "Parsing error")) : Except (Err PyErr) Obj)) =
      some ((toR datetime).toOption.map obj) := by
  gen_tie "Pendulum.IsoRsGen.glue_elem" "rust/src/parsing.rs parse_datetime / rust/src/python/parsing.rs parse_iso8601" =>
    unfold toR
    cases hd : datetime.has_date <;> cases ht : datetime.has_time <;> cases ho : datetime.offset <;>
      simp only [Bool.false_eq_true, if_false, if_true, glueView_lift, hext.datetime, hext.date, hext.time, Option.map_none,
        Option.map_some, FixedTimezone.new] <;> rfl


/-- **`parse_iso8601` of rust/src/python/parsing.rs over `Parser::parse`, as regenerated, = the hand model `ParseAll.isoAny _ .rust`**
on every string, for every fuel exceeding the input's length by 8: a `date`/`time`/`datetime` object, a `Duration` with the raw
components, or an exception; no loop is cut. -/
theorem parse_iso8601_eq_model (rk : IsoDur.Parsed → Bool) (ext : Ext Obj) (obj : Value → Obj) (objDur : IsoDur.Parsed → Obj)
    (hext : ExtOk ext obj objDur) (input : List Char) (fuel : Nat) (hf : input.length + 8 ≤ fuel) :
    glueView (parse_iso8601 fuel ext input) = some ((ParseAll.isoAny rk .rust input).toOption.map (objOf obj objDur)) := by
  gen_tie "Pendulum.IsoRsGen.parse_iso8601_eq_model" "rust/src/parsing.rs parse_datetime / rust/src/python/parsing.rs parse_iso8601" =>
    have hA := At.new input
    unfold parse_iso8601 Parser.parse
    simp only [Parsed.new]
    rw [hA.cur]
    by_cases hP : input.head? = some 'P'
    · obtain ⟨cs, rfl⟩ : ∃ cs, input = 'P' :: cs := by
        cases input with
        | nil => simp at hP
        | cons c cs => simp at hP; exact ⟨cs, by rw [hP]⟩
      obtain ⟨pre, hpre⟩ := hA
      obtain ⟨hv, hk⟩ := parse_duration_eq_model fuel pre cs ⟨none, none, none⟩ (by simp at hf; omega)
      simp only [List.headD_cons, beq_self_eq_true, if_true, hpre, ParseAll.isoAny, List.head?_cons]
      cases hx : Parser.parse_duration fuel (stAt pre ('P' :: cs)) ⟨none, none, none⟩ with
      | error e =>
        rw [hx] at hv
        cases e with
        | fuel => simp [durView] at hv
        | fail e =>
          simp only [durView, Option.some.injEq] at hv
          cases hm : IsoDur.parseParsed .rust ('P' :: cs) with
          | ok p => rw [hm] at hv; simp [Except.toOption] at hv
          | error k => simp [Except.map, glueView, Except.toOption]
      | ok y =>
        obtain ⟨self', p'⟩ := y
        obtain ⟨a, b, c⟩ := hk self' p' hx
        rw [hx] at hv
        obtain ⟨pd, pdur, ps⟩ := p'
        simp only at a b c
        subst a; subst b
        cases pdur with
        | none => simp at c
        | some du =>
          simp only [durView, Option.map_some, Option.some.injEq] at hv
          cases hm : IsoDur.parseParsed .rust ('P' :: cs) with
          | error k => rw [hm] at hv; simp [Except.toOption] at hv
          | ok p =>
            rw [hm] at hv
            simp only [Except.toOption, Option.some.injEq] at hv
            simp [Except.map, glueView, Except.toOption, objOf, hext.dur, Duration.new, ← hv, toParsed]
    · have hPb : (input.headD '\x00' == 'P') = false := by
        cases input with
        | nil => decide
        | cons c cs => simp at hP; simpa using hP
      obtain ⟨depth, rfl⟩ : ∃ depth, fuel = depth + 2 := ⟨fuel - 2, by omega⟩
      obtain ⟨hv, hsome⟩ := parse_datetime_eq_model (depth + 2) depth (Parser.new input) input hA hf
      simp only [Parsed.new] at hv hsome
      have hiso : (ParseAll.isoAny rk .rust input).toOption = (rsDT input).toOption.map ParseAll.IsoRes.val := by
        simp only [ParseAll.isoAny, hP, if_false, parseIso, rsParse_eq_rsDT input hP]
        cases rsDT input with
        | ok v => rfl
        | error k =>
          cases k with
          | other n => simp only []; split <;> rfl
          | parserError => rfl
          | valueError => rfl
      simp only [hPb, Bool.false_eq_true, if_false, hiso, Option.map_map]
      cases hx : Parser.parse_datetime (depth + 2) (depth + 2) (Parser.new input) ⟨none, none, none⟩ with
      | error e =>
        rw [hx] at hv
        cases e with
        | fuel => simp [dtView] at hv
        | fail e =>
          simp only [dtView, Option.some.injEq] at hv
          simp [Except.map, glueView, ← hv]
      | ok y =>
        obtain ⟨self', p'⟩ := y
        rw [hx] at hv
        obtain ⟨pd, pdur, ps⟩ := p'
        cases pd with
        | none => have := hsome _ _ hx; simp at this
        | some dt =>
          cases pdur with
          | some du =>
            have : (rsDT input).toOption = none := by cases ps <;> simp_all [dtView]
            cases ps <;> simp [Except.map, glueView, this]
          | none =>
            cases ps with
            | some d2 =>
              have : (rsDT input).toOption = none := by simp_all [dtView]
              simp [Except.map, glueView, this]
            | none =>
              simp only [dtView, Option.some.injEq] at hv
              simp only [Except.map]
              refine (glue_elem ext obj objDur hext dt).trans ?_
              rw [hv]
              cases (rsDT input).toOption <;> rfl


/-! ### the getters Python reads, and the parts of the glue recorded verbatim -/

/-- `Duration.remaining_days` / `remaining_seconds` (read by `parser.py`) return the `days` / `seconds` fields unchanged -/
theorem duration_getters (d : Duration) :
    Duration.remaining_days d = .ok d.days ∧ Duration.remaining_seconds d = .ok d.seconds := by
  gen_tie "Pendulum.IsoRsGen.duration_getters" "rust/src/python/types/duration.rs (getters)" =>
    exact ⟨rfl, rfl⟩

/-- `Duration::new(Some(a), …)` stores its eight arguments -/
theorem duration_new (a b c d e f g h : Nat) :
    Duration.new (some a) (some b) (some c) (some d) (some e) (some f) (some g) (some h) = ⟨a, b, c, d, e, f, g, h⟩ := by
  gen_tie "Pendulum.IsoRsGen.duration_new" "rust/src/python/types/duration.rs (Duration::new)" =>
    rfl

/-- `FixedTimezone.utcoffset` is `timedelta(0, offset, 0)`, `dst` is `timedelta(0)` -/
theorem timezone_getters (ext : Ext Obj) (tz : FixedTimezone) (dt : Obj) :
    glueView (FixedTimezone.utcoffset ext tz dt) = some (ext.PyDelta_new_bound 0 tz.offset 0 true).toOption ∧
    glueView (FixedTimezone.dst ext tz dt) = some (ext.PyDelta_new_bound 0 0 0 true).toOption ∧
    FixedTimezone.new tz.offset tz.name = tz := by
  gen_tie "Pendulum.IsoRsGen.timezone_getters" "rust/src/python/types/timezone.rs (utcoffset, dst, new)" =>
    exact ⟨glueView_lift _, glueView_lift _, rfl⟩

/-- the verbatim parts of the glue the correspondence run was made with: field lists of `Duration` / `FixedTimezone`, PyO3 attributes of
the translated functions, the untranslated `FixedTimezone` methods -/
def pinnedGlue : String × String × String × String :=
  ("# [ pyclass ( module = \"_pendulum\" ) ] || # [ pyo3 ( get , set ) ] years : u64 ; # [ pyo3 ( get , set ) ] months : u64 ; # [ pyo3 ( get , set ) ] weeks : u64 ; # [ pyo3 ( get , set ) ] days : u64 ; # [ pyo3 ( get , set ) ] hours : u64 ; # [ pyo3 ( get , set ) ] minutes : u64 ; # [ pyo3 ( get , set ) ] seconds : u64 ; # [ pyo3 ( get , set ) ] microseconds : u64",
   "# [ pyclass ( module = \"_pendulum\" , extends = PyTzInfo ) ] | # [ derive ( Clone ) ] ||  offset : i32 ;  name : Option<String>",
   "Duration::new # [ new ] # [ pyo3 ( signature = ( years = 0 , months = 0 , weeks = 0 , days = 0 , hours = 0 , minutes = 0 , seconds = 0 , microseconds = 0 ) ) ] # [ allow ( clippy :: too_many_arguments ) ] | Duration::remaining_days # [ getter ] | Duration::remaining_seconds # [ getter ] | FixedTimezone::new # [ new ] # [ pyo3 ( signature = ( offset , name = None ) ) ] | FixedTimezone::utcoffset  | FixedTimezone::dst  | parse_iso8601 # [ pyfunction ]",
   "fn tzname ( & self , _dt : & Bound < PyAny > ) -> String { self . __str__ ( ) }\nfn __repr__ ( & self ) -> String { format ! ( \"FixedTimezone({}, name=\\\"{}\\\")\" , self . offset , self . __str__ ( ) ) }\nfn __str__ ( & self ) -> String { if let Some ( n ) = & self . name { n . clone ( ) } else { let sign = if self . offset < 0 { \"-\" } else { \"+\" } ; let minutes = self . offset . abs ( ) / 60 ; let ( hour , minute ) = ( minutes / 60 , minutes % 60 ) ; format ! ( \"{sign}{hour:.2}:{minute:.2}\" ) } }\nfn __deepcopy__ ( & self , py : Python , _memo : & Bound < PyDict > ) -> PyResult < Py < Self > > { Py :: new ( py , self . clone ( ) ) }")

/-- the untranslated parts of the glue (PyO3 attributes, field lists, the other `FixedTimezone` methods) are the recorded ones -/
theorem glue_pinned :
    (durationFieldsSource, timezoneFieldsSource, glueAttrsSource, timezoneOtherSource) = pinnedGlue := by
  gen_tie "Pendulum.IsoRsGen.glue_pinned" "the verbatim parts of rust/src/python/types/{duration,timezone}.rs, python/parsing.rs" =>
    rfl

end Pendulum.IsoRsGen
