import Pendulum.Model.Dur
/-! helper lemmas for C09/C10: the float-style expressions of `Duration.__new__` in closed integer form,
    floor-division/modulo bounds, round-half-even characterisation -/
namespace Pendulum.Dur

theorem fmod_pos_lit (t : Int) : Int.fmod t 1000000 = t % 1000000 := by
  rw [Int.fmod_eq_emod]; simp

theorem fmod_neg_lit (t : Int) : Int.fmod t (-1000000) = -((-t) % 1000000) := by
  rw [Int.fmod_eq_emod]
  have e : t % (-1000000 : Int) = t % 1000000 := Int.emod_neg t 1000000
  by_cases h : (1000000 : Int) ∣ t
  · have h' : (-1000000 : Int) ∣ t := Int.neg_dvd.mpr h
    simp [h']; omega
  · have h' : ¬ ((-1000000 : Int) ∣ t) := fun x => h (Int.neg_dvd.mp x)
    simp [h']; omega

theorem tdiv_lit_nonneg {t : Int} (h : 0 ≤ t) (k : Int) : Int.tdiv t k = t / k := Int.tdiv_eq_ediv_of_nonneg h

theorem tdiv_lit_neg (t k : Int) : Int.tdiv t k = -(Int.tdiv (-t) k) := by
  rw [Int.neg_tdiv]; omega


/-- the shadow breakdown of `Duration.__new__` for a given `_total` (µs), in closed form -/
structure Shadow where
  micros : Int
  seconds : Int
  days : Int
  weeks : Int
  rdays : Int
deriving DecidableEq

def shadow (T : Int) : Shadow :=
  let m := sgn T
  let A := absI T
  let S := A / 1000000
  let days := S / 86400 * m
  { micros := A % 1000000 * m, seconds := S % 86400 * m, days := days,
    weeks := absI days / 7 * m, rdays := absI days % 7 * m }

theorem mk_total (a : Args) : (mk a).total = a.part := by
  simp only [mk, Args.part, Td.ofArgs]; omega

theorem mk_native (a : Args) : (mk a).native = a.part + (a.y * 365 + a.mo * 30) * 86400000000 := by
  simp only [mk, Args.part, Td.ofArgs]; omega

theorem mk_shadow (a : Args) :
    (mk a).micros = (shadow a.part).micros ∧ (mk a).seconds = (shadow a.part).seconds ∧
    (mk a).days = (shadow a.part).days ∧ (mk a).weeks = (shadow a.part).weeks ∧
    (mk a).rdays = (shadow a.part).rdays := by
  have ht := mk_total a
  simp only [mk] at ht ⊢
  rw [ht]
  generalize a.part = T
  simp only [shadow, sgn, absI]
  by_cases h : T < 0
  · simp only [h, if_true]
    have e1 : Int.fmod T (-1 * 1000000) = -((-T) % 1000000) := by
      rw [show (-1 * 1000000 : Int) = -1000000 by decide]; exact fmod_neg_lit T
    have e2 : Int.tdiv T 1000000 = -((-T) / 1000000) := by
      rw [tdiv_lit_neg, tdiv_lit_nonneg (by omega)]
    rw [e1, e2]
    refine ⟨by omega, ?_, ?_, ?_, ?_⟩ <;> (repeat' split) <;> omega
  · simp only [h, if_false]
    have e1 : Int.fmod T (1 * 1000000) = T % 1000000 := by
      rw [show (1 * 1000000 : Int) = 1000000 by decide]; exact fmod_pos_lit T
    have e2 : Int.tdiv T 1000000 = T / 1000000 := tdiv_lit_nonneg (by omega) _
    rw [e1, e2]
    refine ⟨by omega, ?_, ?_, ?_, ?_⟩ <;> (repeat' split) <;> omega


/-- `Duration.__new__` depends on its arguments only through years, months and the rest as one length -/
def canon (y mo T : Int) : D :=
  { native := T + (y * 365 + mo * 30) * 86400000000, total := T, years := y, months := mo,
    weeks := (shadow T).weeks, days := (shadow T).days, rdays := (shadow T).rdays,
    seconds := (shadow T).seconds, micros := (shadow T).micros }

theorem mk_eq (a : Args) : mk a = canon a.y a.mo a.part := by
  obtain ⟨h1, h2, h3, h4, h5⟩ := mk_shadow a
  have h6 := mk_total a
  have h7 := mk_native a
  have hy : (mk a).years = a.y := rfl
  have hm : (mk a).months = a.mo := rfl
  cases hmk : mk a with
  | mk n t y mo w d rd s us =>
    rw [hmk] at h1 h2 h3 h4 h5 h6 h7 hy hm
    simp only at h1 h2 h3 h4 h5 h6 h7 hy hm
    simp only [canon, h1, h2, h3, h4, h5, h6, h7, hy, hm]

/-- the six components of the canonical form, unfolded for `omega` -/
theorem canon_sum (y mo T : Int) : compTotal (canon y mo T) = T := by
  simp only [compTotal, canon, shadow, hours, minutes, remainingSeconds, sgn, absI]
  by_cases h : T < 0
  · simp only [h, if_true]; (repeat' split) <;> omega
  · simp only [h, if_false]; (repeat' split) <;> omega

theorem canon_toUs (y mo T : Int) : toUs (canon y mo T) = T := by
  simp only [toUs, canon, shadow, sgn, absI]
  by_cases h : T < 0
  · simp only [h, if_true]; (repeat' split) <;> omega
  · simp only [h, if_false]; (repeat' split) <;> omega

theorem canon_ranges (y mo T : Int) :
    let c := canon y mo T
    let s := sgn T
    0 ≤ c.weeks * s ∧ 0 ≤ c.rdays * s ∧ c.rdays * s < 7 ∧ 0 ≤ hours c * s ∧ hours c * s < 24 ∧
    0 ≤ minutes c * s ∧ minutes c * s < 60 ∧ 0 ≤ remainingSeconds c * s ∧ remainingSeconds c * s < 60 ∧
    0 ≤ c.micros * s ∧ c.micros * s < 1000000 := by
  simp only [canon, shadow, hours, minutes, remainingSeconds, sgn, absI]
  by_cases h : T < 0
  · simp only [h, if_true]; (repeat' split) <;> omega
  · simp only [h, if_false]; (repeat' split) <;> omega


/-! ### Python floor division / modulo and round-half-even -/

theorem fmod_neg_bounds (a : Int) {b : Int} (hb : b < 0) : b < Int.fmod a b ∧ Int.fmod a b ≤ 0 := by
  rw [Int.fmod_eq_emod]
  have h0 : 0 ≤ a % b := Int.emod_nonneg a (by omega)
  have h1 : a % b < -b := by
    have := Int.emod_lt a (b := b) (by omega)
    omega
  by_cases hd : b ∣ a
  · have : a % b = 0 := Int.emod_eq_zero_of_dvd hd
    simp [hd, this]; omega
  · have hne : a % b ≠ 0 := fun h => hd (Int.dvd_of_emod_eq_zero h)
    have : ¬ (0 ≤ b ∨ b ∣ a) := by intro h; rcases h with h | h; omega; exact hd h
    simp only [this, if_false]; omega

theorem divNear_nearest (a b : Int) (hb : b ≠ 0) :
    let q := Td.divNear a b
    2 * absI (q * b - a) ≤ absI b ∧ (2 * absI (q * b - a) = absI b → q % 2 = 0) := by
  have hdm : b * Int.fdiv a b + Int.fmod a b = a := Int.mul_fdiv_add_fmod a b
  unfold Td.divNear absI
  simp only []
  generalize Int.fdiv a b = q at *
  by_cases hpos : b > 0
  · have h1 := Int.fmod_nonneg_of_pos a hpos
    have h2 := Int.fmod_lt_of_pos a hpos
    generalize Int.fmod a b = r at *
    have e : q * b = b * q := Int.mul_comm q b
    have e' : (q + 1) * b = b * q + b := by rw [Int.add_mul, Int.mul_comm q b, Int.one_mul]
    simp only [hpos, if_true]
    repeat' split
    all_goals (simp_all <;> omega)
  · have hneg : b < 0 := by omega
    have h1 : Int.fmod a b ≤ 0 := (fmod_neg_bounds a hneg).2
    have h2 : b < Int.fmod a b := (fmod_neg_bounds a hneg).1
    generalize Int.fmod a b = r at *
    have e : q * b = b * q := Int.mul_comm q b
    have e' : (q + 1) * b = b * q + b := by rw [Int.add_mul, Int.mul_comm q b, Int.one_mul]
    simp only [hpos, if_false]
    repeat' split
    all_goals (simp_all <;> omega)

theorem divNear_zero (b : Int) : Td.divNear 0 b = 0 := by
  unfold Td.divNear
  simp only [Int.zero_fdiv, Int.zero_fmod, Int.mul_zero]
  by_cases h : b > 0
  · have : ¬ (0 > b) := by omega
    have h2 : ¬ ((0 : Int) = b) := by omega
    simp [h, this]
  · simp [h]

/-! ### the operators in canonical form -/

theorem ofNative_eq (n : Int) : ofNative n = canon 0 0 n := by
  have h : ({ d := Td.days n, s := Td.seconds n, us := Td.micros n } : Args).part = n := by
    simp only [Args.part, Td.ofArgs, Td.days, Td.seconds, Td.micros]; omega
  rw [ofNative, mk_eq, h]

theorem ofUs_eq (n : Int) : ofUs n = canon 0 0 n := by
  have h : ({ us := n } : Args).part = n := by
    simp only [Args.part, Td.ofArgs]; omega
  rw [ofUs, mk_eq, h]

theorem canon_days_split (y mo T : Int) :
    (canon y mo T).days = (canon y mo T).weeks * 7 + (canon y mo T).rdays := by
  simp only [canon, shadow, sgn, absI]
  by_cases h : T < 0
  · simp only [h, if_true]; (repeat' split) <;> omega
  · simp only [h, if_false]; (repeat' split) <;> omega

theorem negArgs_part (c : D) :
    (Args.mk (-c.years) (-c.months) (-c.weeks) (-c.rdays) 0 0 (-c.seconds) 0 (-c.micros)).part =
      -((((c.weeks * 7 + c.rdays) * (24 * 3600)) + c.seconds) * 1000000 + c.micros) := by
  simp only [Args.part, Td.ofArgs]; omega

theorem neg_eq (a : Args) : neg (mk a) = canon (-a.y) (-a.mo) (-a.part) := by
  have hs := canon_toUs a.y a.mo a.part
  have hd := canon_days_split a.y a.mo a.part
  simp only [toUs] at hs
  have hn : neg (mk a) = mk (Args.mk (-(mk a).years) (-(mk a).months) (-(mk a).weeks) (-(mk a).rdays) 0 0
      (-(mk a).seconds) 0 (-(mk a).micros)) := rfl
  rw [hn, mk_eq (Args.mk _ _ _ _ _ _ _ _ _), negArgs_part, mk_eq a]
  have e : -((((canon a.y a.mo a.part).weeks * 7 + (canon a.y a.mo a.part).rdays) * (24 * 3600) +
      (canon a.y a.mo a.part).seconds) * 1000000 + (canon a.y a.mo a.part).micros) = -a.part := by omega
  rw [e]
  rfl

theorem mulInt_eq (a : Args) (k : Int) : mulInt (mk a) k = canon (a.y * k) (a.mo * k) (a.part * k) := by
  rw [mulInt, mk_eq]
  have hp : ({ y := (mk a).years * k, mo := (mk a).months * k, us := (mk a).total * k } : Args).part = a.part * k := by
    simp only [Args.part, Td.ofArgs, mk_total]; omega
  rw [hp]
  rfl

end Pendulum.Dur
