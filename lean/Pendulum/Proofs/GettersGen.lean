import Pendulum.Gen.Getters
import Pendulum.Gen.Helpers
import Pendulum.Model.Getters
import Pendulum.Proofs.Cycle400
import Pendulum.Proofs.CalRT
import Pendulum.Proofs.GenTie
/-! Tie between the *generated* translation of the calendar getters and small derived methods of date.py / datetime.py /
day.py / helpers.py (`Pendulum.Gen.Getters`, regenerated from the source on every run by tools/gen_getters.py) and their
specification: the reference calendar `Model/Cal.lean` (= the standard library's proleptic Gregorian answers, the hand model
the C15 driver answers `getters` requests with) and `Model/Getters.lean`.

The generated definitions take the standard library and the other pendulum modules as the parameter record `Ext O`; the
hypotheses of the tie theorems say what the hand models say about those parameters (`StdOk`: the calendar functions are
`Cal.*` on valid dates of years 1..9999; `IvdOk`, `IvtOk`, …) and are shown satisfiable by `refExt` at the end.
No proof ends in `rfl` over a whole generated body. -/
set_option linter.unusedSimpArgs false
set_option linter.unusedVariables false
namespace Pendulum.GettersGen
open Pendulum Pendulum.Cal Pendulum.Getters
open Pendulum.Gen.Getters
open Pendulum.GenTie

/-- run the tactics without error recovery and cut the error message short (the check keeps only the tail of the build
    log; the name of the broken tie theorem, logged by `gen_tie` right after, must stay in it) -/
elab "getters_short_err " t:tacticSeq : tactic => do
  try
    Lean.Elab.Tactic.withoutRecover (Lean.Elab.Tactic.evalTactic t)
    -- the tie tactics must close the goal themselves (otherwise Lean reports it at the theorem, outside `gen_tie`)
    let gs ← Lean.Elab.Tactic.getUnsolvedGoals
    if !gs.isEmpty then
      throwError "the tie tactics leave goals open: {Lean.Elab.goalsToMessageData gs}"
  catch e =>
    if e.isRuntime || !(e matches .error ..) then throw e
    let msg ← e.toMessageData.toString
    let msg := if msg.length > 500 then (msg.take 500).toString ++ " …" else msg
    throwError "{msg}"

/-- `gtie "theorem" "source" => tacs` = `gen_tie` (Proofs/GenTie.lean) around `getters_short_err tacs` -/
macro "gtie " n:str src:str " => " t:tacticSeq : tactic => `(tactic| gen_tie $n $src => getters_short_err $t)

variable {O : Type}

/-! ## the hypotheses on the parameters -/

/-- a date object the standard library can hold: year 1..9999, valid month and day -/
def ValidD (d : D) : Prop := 1 ≤ d.year ∧ d.year ≤ 9999 ∧ validDate d.year d.month d.day

instance (d : D) : Decidable (ValidD d) := by unfold ValidD; infer_instance

/-- the standard library's calendar functions are the reference calendar (on the values they accept) -/
structure StdOk (E : Ext O) : Prop where
  weekday : ∀ d, ValidD d → E.weekday d = isoweekday d.year d.month d.day - 1
  isoweekday : ∀ d, ValidD d → E.isoweekday d = Cal.isoweekday d.year d.month d.day
  isocalendar : ∀ d, ValidD d → E.isocalendar d = isoCalendar d.year d.month d.day
  monthrange : ∀ y m, 1 ≤ y → y ≤ 9999 → 1 ≤ m → m ≤ 12 →
    E.monthrange y m = (Cal.isoweekday y m 1 - 1, daysInMonth y m)
  isleap : ∀ y, E.isleap y = isLeap y

theorem dim_ge (y m : Int) : 28 ≤ daysInMonth y m := by
  unfold daysInMonth; split <;> (try split) <;> omega

theorem valid_first {d : D} (h : ValidD d) : ValidD ⟨d.year, d.month, 1⟩ := by
  have := dim_ge d.year d.month
  unfold ValidD validDate at *
  dsimp only at *
  omega

theorem valid_dec28 {d : D} (h : ValidD d) : ValidD ⟨d.year, 12, 28⟩ := by
  obtain ⟨h1, h2, _⟩ := h
  refine ⟨h1, h2, ?_⟩
  show validDate d.year 12 28
  unfold validDate daysInMonth
  simp

theorem isoweekday_range (y m d : Int) : 1 ≤ Cal.isoweekday y m d ∧ Cal.isoweekday y m d ≤ 7 := by
  unfold Cal.isoweekday isoweekdayOrd; omega

/-! ## day.py: the enum -/

/-- **`WeekDay`** has exactly the members MONDAY = 0 … SUNDAY = 6 -/
theorem weekday_members :
    ∀ p : String × Int, p ∈ WeekDay_members ↔
      p ∈ [("MONDAY", 0), ("TUESDAY", 1), ("WEDNESDAY", 2), ("THURSDAY", 3), ("FRIDAY", 4), ("SATURDAY", 5),
           ("SUNDAY", (6 : Int))] := by
  gtie "Pendulum.GettersGen.weekday_members" "day.py::WeekDay (Gen.Getters.WeekDay_members)" =>
    intro p
    simp only [WeekDay_members, List.mem_cons, List.mem_nil_iff, or_false]
    try (constructor <;> intro h <;> (rcases h with h|h|h|h|h|h|h <;> simp [h]))

/-- `WeekDay(v)` is `v` for 0..6 and raises ValueError otherwise -/
theorem weekday_call (v : Int) :
    WeekDay_call v = if 0 ≤ v ∧ v ≤ 6 then .ok v else .error "ValueError" := by
  gtie "Pendulum.GettersGen.weekday_call" "day.py::WeekDay (Gen.Getters.WeekDay_call)" =>
    by_cases h : 0 ≤ v ∧ v ≤ 6
    · rw [if_pos h]
      have : v = 0 ∨ v = 1 ∨ v = 2 ∨ v = 3 ∨ v = 4 ∨ v = 5 ∨ v = 6 := by omega
      rcases this with e|e|e|e|e|e|e <;> subst e <;> simp [WeekDay_call, WeekDay_members]
    · rw [if_neg h]
      have hn : (WeekDay_members.any fun p => p.2 == v) = false := by
        simp only [WeekDay_members, List.any_cons, List.any_nil, Bool.or_false, Bool.or_eq_false_iff, beq_eq_false_iff_ne]
        omega
      simp only [WeekDay_call, hn, Bool.false_eq_true, if_false]

/-! ## helpers.py: week_starts_at / week_ends_at, __init__.py: their initial values -/

theorem week_starts_at_eq (E : Ext O) (w : Int) :
    helpers_week_starts_at E w = match setWeekDay w with
      | some v => .ok ⟨"_WEEK_STARTS_AT", v⟩ | none => .error "ValueError" := by
  gtie "Pendulum.GettersGen.week_starts_at_eq" "helpers.py::week_starts_at (Gen.Getters.helpers_week_starts_at)" =>
    unfold helpers_week_starts_at setWeekDay
    by_cases h : 0 ≤ w ∧ w ≤ 6
    · have h1 : ¬ w < 0 := by omega
      have h2 : ¬ w > 6 := by omega
      simp [h, h1, h2]
    · by_cases h1 : w < 0
      · simp [h, h1]
      · have h2 : w > 6 := by omega
        simp [h, h1, h2]

theorem week_ends_at_eq (E : Ext O) (w : Int) :
    helpers_week_ends_at E w = match setWeekDay w with
      | some v => .ok ⟨"_WEEK_ENDS_AT", v⟩ | none => .error "ValueError" := by
  gtie "Pendulum.GettersGen.week_ends_at_eq" "helpers.py::week_ends_at (Gen.Getters.helpers_week_ends_at)" =>
    unfold helpers_week_ends_at setWeekDay
    by_cases h : 0 ≤ w ∧ w ≤ 6
    · have h1 : ¬ w < 0 := by omega
      have h2 : ¬ w > 6 := by omega
      simp [h, h1, h2]
    · by_cases h1 : w < 0
      · simp [h, h1]
      · have h2 : w > 6 := by omega
        simp [h, h1, h2]

/-- the initial week is Monday … Sunday -/
theorem week_globals_init : init_WEEK_STARTS_AT = 0 ∧ init_WEEK_ENDS_AT = 6 := by
  gtie "Pendulum.GettersGen.week_globals_init" "__init__.py::_WEEK_STARTS_AT/_WEEK_ENDS_AT (Gen.Getters.init_WEEK_*)" =>
    exact ⟨by decide, by decide⟩

/-! ## date.py: the calendar getters -/

theorem day_of_week_eq (E : Ext O) (hE : StdOk E) (d : D) (hv : ValidD d) :
    date_day_of_week E d = .ok (dayOfWeek d.year d.month d.day) := by
  gtie "Pendulum.GettersGen.day_of_week_eq" "date.py::Date.day_of_week (Gen.Getters.date_day_of_week)" =>
    have hr := isoweekday_range d.year d.month d.day
    simp only [date_day_of_week, hE.weekday d hv, weekday_call, dayOfWeek]
    rw [if_pos (by omega)]

theorem day_of_year_eq (E : Ext O) (hE : StdOk E) (d : D) (hv : ValidD d) :
    date_day_of_year E d = dayOfYear d.year d.month d.day := by
  gtie "Pendulum.GettersGen.day_of_year_eq" "date.py::Date.day_of_year (Gen.Getters.date_day_of_year)" =>
    obtain ⟨y, m, dd⟩ := d
    obtain ⟨_, _, h1, h2, _, _⟩ := hv
    simp only [] at h1 h2
    have : m = 1 ∨ m = 2 ∨ m = 3 ∨ m = 4 ∨ m = 5 ∨ m = 6 ∨ m = 7 ∨ m = 8 ∨ m = 9 ∨ m = 10 ∨ m = 11 ∨ m = 12 := by omega
    rcases this with h|h|h|h|h|h|h|h|h|h|h|h <;> subst h <;> cases hl : isLeap y <;>
      simp [date_day_of_year, date_is_leap_year, hE.isleap, hl, dayOfYear, daysBeforeMonth] <;> omega

theorem week_of_year_eq (E : Ext O) (hE : StdOk E) (d : D) (hv : ValidD d) :
    date_week_of_year E d = (isoCalendar d.year d.month d.day).2.1 := by
  gtie "Pendulum.GettersGen.week_of_year_eq" "date.py::Date.week_of_year (Gen.Getters.date_week_of_year)" =>
    simp only [date_week_of_year, hE.isocalendar d hv]

theorem days_in_month_eq (E : Ext O) (hE : StdOk E) (d : D) (hv : ValidD d) :
    date_days_in_month E d = daysInMonth d.year d.month := by
  gtie "Pendulum.GettersGen.days_in_month_eq" "date.py::Date.days_in_month (Gen.Getters.date_days_in_month)" =>
    obtain ⟨h1, h2, h3, h4, _⟩ := hv
    simp only [date_days_in_month, hE.monthrange d.year d.month h1 h2 h3 h4]

theorem week_of_month_eq (E : Ext O) (hE : StdOk E) (d : D) (hv : ValidD d) :
    date_week_of_month E d = weekOfMonth d.year d.month d.day := by
  gtie "Pendulum.GettersGen.week_of_month_eq" "date.py::Date.week_of_month, first_of, _first_of_month, set, replace (Gen.Getters.date_week_of_month)" =>
    have hr := isoweekday_range d.year d.month 1
    have h1 := hE.isoweekday _ (valid_first hv)
    simp only [] at h1
    simp only [date_week_of_month, h1, py_ceil_div, weekOfMonth]
    omega

theorem quarter_eq (E : Ext O) (d : D) : date_quarter E d = quarter d.month := by
  gtie "Pendulum.GettersGen.quarter_eq" "date.py::Date.quarter (Gen.Getters.date_quarter)" =>
    simp only [date_quarter, py_ceil_div, quarter]
    omega

theorem is_leap_year_eq (E : Ext O) (hE : StdOk E) (d : D) : date_is_leap_year E d = isLeap d.year := by
  gtie "Pendulum.GettersGen.is_leap_year_eq" "date.py::Date.is_leap_year (Gen.Getters.date_is_leap_year)" =>
    simp only [date_is_leap_year, hE.isleap]

/-! `is_long_year`: December 28th is always in the last ISO week of its year -/

theorem isoCal_week_periodic (y m d k : Int) :
    (isoCalendar (y + 400 * k) m d).2.1 = (isoCalendar y m d).2.1 := by
  unfold isoCalendar
  simp only []
  have e1 : y + 400 * k + 1 = (y + 1) + 400 * k := by omega
  have e2 : y + 400 * k - 1 = (y - 1) + 400 * k := by omega
  rw [e1, e2, ord_shift, w1_shift, w1_shift, w1_shift]
  have a1 : ymd2ord y m d + 146097 * k - (isoWeek1Monday y + 146097 * k) = ymd2ord y m d - isoWeek1Monday y := by omega
  have a2 : ymd2ord y m d + 146097 * k - (isoWeek1Monday (y - 1) + 146097 * k) = ymd2ord y m d - isoWeek1Monday (y - 1) := by omega
  have a3 : (ymd2ord y m d + 146097 * k ≥ isoWeek1Monday (y + 1) + 146097 * k) ↔ (ymd2ord y m d ≥ isoWeek1Monday (y + 1)) := by omega
  rw [a1, a2]
  simp only [a3]
  split <;> (try split) <;> rfl

def dec28Cycle : Bool := (List.range 400).all fun r =>
  let y : Int := (r : Int) + 400
  (isoCalendar y 12 28).2.1 == isoWeeksInYear y

theorem dec28Cycle_true : dec28Cycle = true := by decide +kernel

theorem dec28_week (y : Int) : (isoCalendar y 12 28).2.1 = isoWeeksInYear y := by
  rw [year_rep y, isoCal_week_periodic, weeks_periodic]
  have hr : (y % 400).toNat < 400 := by omega
  have h := all_range dec28Cycle_true _ hr
  simp only [beq_iff_eq] at h
  have e1 : ((y % 400).toNat : Int) = y % 400 := by omega
  rw [e1] at h
  exact h

def weeksCycle : Bool := (List.range 400).all fun r =>
  let y : Int := (r : Int) + 400
  isoWeeksInYear y == 52 || isoWeeksInYear y == 53

theorem weeksCycle_true : weeksCycle = true := by decide +kernel

/-- an ISO year has 52 or 53 weeks -/
theorem weeks_range (y : Int) : isoWeeksInYear y = 52 ∨ isoWeeksInYear y = 53 := by
  rw [year_rep y, weeks_periodic]
  have hr : (y % 400).toNat < 400 := by omega
  have h := all_range weeksCycle_true _ hr
  simp only [Bool.or_eq_true, beq_iff_eq] at h
  have e1 : ((y % 400).toNat : Int) = y % 400 := by omega
  rw [e1] at h
  exact h

theorem is_long_year_eq (E : Ext O) (hE : StdOk E) (d : D) (hv : ValidD d) :
    date_is_long_year E d = decide (isoWeeksInYear d.year = 53) := by
  gtie "Pendulum.GettersGen.is_long_year_eq" "date.py::Date.is_long_year (Gen.Getters.date_is_long_year)" =>
    have h1 := hE.isocalendar _ (valid_dec28 hv)
    simp only [] at h1
    simp only [date_is_long_year, h1, dec28_week]
    -- finished on the arithmetic level (52 or 53 weeks), so that `== 53`, `> 52`, `>= 53` are all accepted
    try (rcases weeks_range d.year with h | h <;> simp [h])

/-! ## date.py: comparisons, `closest` / `farthest` / `average`, `age` -/

/-- proleptic ordinal of a date object -/
def ordD (d : D) : Int := ymd2ord d.year d.month d.day
/-- the date object with a given ordinal -/
def dOf (o : Int) : D := ⟨(ord2ymd o).1, (ord2ymd o).2.1, (ord2ymd o).2.2⟩

def sign (x : Int) : Int := if x < 0 then -1 else if x = 0 then 0 else 1

/-- what the hand models say about `Interval` on dates (interval.py: absolute seconds, signed days, signed full years
    `yb`), `Date.add(days=n)` (helpers.add_duration), date comparison and `date.today()` -/
structure DateOk (E : Ext O) (yb : D → D → Int) : Prop where
  in_seconds : ∀ a b, ValidD a → ValidD b → E.ivd_in_seconds a b true = absI (ordD b - ordD a) * 86400
  in_days : ∀ a b, ValidD a → ValidD b → E.ivd_in_days a b false = ordD b - ordD a
  in_years : ∀ a b, ValidD a → ValidD b → E.ivd_in_years a b false = yb a b
  add_days : ∀ a n, ValidD a → ValidD (dOf (ordD a + n)) → E.date_add_days a n = dOf (ordD a + n)
  cmp : ∀ a b, ValidD a → ValidD b → E.date_cmp a b = sign (ordD a - ordD b)
  today : ValidD E.date_today

theorem D_eta (d : D) : D.mk d.year d.month d.day = d := by cases d; rfl

theorem ordD_inj {a b : D} (ha : ValidD a) (hb : ValidD b) (h : ordD a = ordD b) : a = b := by
  obtain ⟨y, m, d⟩ := a
  obtain ⟨y', m', d'⟩ := b
  obtain ⟨h1, h2, h3⟩ := ymd2ord_inj y m d y' m' d' ha.2.2 hb.2.2 h
  subst h1 h2 h3; rfl

/-- `Date.closest(dt1, dt2)`: `dt1` when it is strictly closer (in days), else `dt2` -/
theorem date_closest_eq (E : Ext O) (yb : D → D → Int) (hE : DateOk E yb) (self dt1 dt2 : D)
    (hs : ValidD self) (h1 : ValidD dt1) (h2 : ValidD dt2) :
    date_closest E self dt1 dt2 = (if absI (ordD dt1 - ordD self) < absI (ordD dt2 - ordD self) then dt1 else dt2) ∧
    ordD (date_closest E self dt1 dt2) = closestDate (ordD self) (ordD dt1) (ordD dt2) := by
  gtie "Pendulum.GettersGen.date_closest_eq" "date.py::Date.closest, Date.diff (Gen.Getters.date_closest)" =>
    have e : date_closest E self dt1 dt2 =
        (if absI (ordD dt1 - ordD self) < absI (ordD dt2 - ordD self) then dt1 else dt2) := by
      simp only [date_closest, D_eta, hE.in_seconds self dt1 hs h1, hE.in_seconds self dt2 hs h2]
      by_cases c : absI (ordD dt1 - ordD self) < absI (ordD dt2 - ordD self)
      · have c' : absI (ordD dt1 - ordD self) * 86400 < absI (ordD dt2 - ordD self) * 86400 := by omega
        simp only [c, c', decide_true, if_true]
      · have c' : ¬ absI (ordD dt1 - ordD self) * 86400 < absI (ordD dt2 - ordD self) * 86400 := by omega
        simp only [c, c', decide_false, if_false, Bool.false_eq_true]
    refine ⟨e, ?_⟩
    rw [e, closestDate]
    split <;> rfl

/-- `Date.farthest(dt1, dt2)`: `dt1` when it is strictly farther, else `dt2` -/
theorem date_farthest_eq (E : Ext O) (yb : D → D → Int) (hE : DateOk E yb) (self dt1 dt2 : D)
    (hs : ValidD self) (h1 : ValidD dt1) (h2 : ValidD dt2) :
    date_farthest E self dt1 dt2 = (if absI (ordD dt1 - ordD self) > absI (ordD dt2 - ordD self) then dt1 else dt2) ∧
    ordD (date_farthest E self dt1 dt2) = farthestDate (ordD self) (ordD dt1) (ordD dt2) := by
  gtie "Pendulum.GettersGen.date_farthest_eq" "date.py::Date.farthest, Date.diff (Gen.Getters.date_farthest)" =>
    have e : date_farthest E self dt1 dt2 =
        (if absI (ordD dt1 - ordD self) > absI (ordD dt2 - ordD self) then dt1 else dt2) := by
      simp only [date_farthest, D_eta, hE.in_seconds self dt1 hs h1, hE.in_seconds self dt2 hs h2]
      by_cases c : absI (ordD dt1 - ordD self) > absI (ordD dt2 - ordD self)
      · have c' : absI (ordD dt1 - ordD self) * 86400 > absI (ordD dt2 - ordD self) * 86400 := by omega
        simp only [c, c', decide_true, if_true]
      · have c' : ¬ absI (ordD dt1 - ordD self) * 86400 > absI (ordD dt2 - ordD self) * 86400 := by omega
        simp only [c, c', decide_false, if_false, Bool.false_eq_true]
    refine ⟨e, ?_⟩
    rw [e, farthestDate]
    split <;> rfl

/-- `Date.average(dt)`: the date half of the signed day difference away (rounded towards the instance); `dt=None` is today -/
theorem date_average_eq (E : Ext O) (yb : D → D → Int) (hE : DateOk E yb) (self : D) (dt : Option D)
    (hs : ValidD self) (hd : ValidD (dt.getD E.date_today))
    (hr : ValidD (dOf (averageDate (ordD self) (ordD (dt.getD E.date_today))))) :
    date_average E self dt = dOf (averageDate (ordD self) (ordD (dt.getD E.date_today))) := by
  gtie "Pendulum.GettersGen.date_average_eq" "date.py::Date.average, Date.diff, Date.today (Gen.Getters.date_average)" =>
    cases dt with
    | none =>
      simp only [Option.getD_none] at hd hr ⊢
      simp only [date_average, D_eta, hE.in_days self _ hs hd]
      exact hE.add_days self _ hs hr
    | some x =>
      simp only [Option.getD_some] at hd hr ⊢
      simp only [date_average, D_eta, hE.in_days self _ hs hd]
      exact hE.add_days self _ hs hr

/-- `Date.age`: the *signed* number of full years from the instance to today -/
theorem date_age_eq (E : Ext O) (yb : D → D → Int) (hE : DateOk E yb) (self : D) (hs : ValidD self) :
    date_age E self = yb self E.date_today := by
  gtie "Pendulum.GettersGen.date_age_eq" "date.py::Date.age, Date.diff, Date.today (Gen.Getters.date_age)" =>
    simp only [date_age, D_eta, hE.in_years self _ hs hE.today]

theorem sign_pos (x : Int) : (sign x > 0) = (x > 0) := by unfold sign; split <;> (try split) <;> simp <;> omega
theorem sign_neg (x : Int) : (sign x < 0) = (x < 0) := by unfold sign; split <;> (try split) <;> simp <;> omega
theorem sign_zero (x : Int) : (sign x = 0) = (x = 0) := by unfold sign; split <;> (try split) <;> simp <;> omega

/-- `is_future` / `is_past` compare with today; `is_same_day` is equality of the dates -/
theorem date_compare_eq (E : Ext O) (yb : D → D → Int) (hE : DateOk E yb) (self dt : D) (hs : ValidD self) (hd : ValidD dt) :
    date_is_future E self = decide (ordD self > ordD E.date_today) ∧
    date_is_past E self = decide (ordD self < ordD E.date_today) ∧
    date_is_same_day E self dt = decide (self = dt) := by
  gtie "Pendulum.GettersGen.date_compare_eq" "date.py::Date.is_future/is_past/is_same_day (Gen.Getters.date_is_future, …)" =>
    refine ⟨?_, ?_, ?_⟩
    · simp only [date_is_future, D_eta, hE.cmp self _ hs hE.today, sign_pos]
      congr 1; apply propext; omega
    · simp only [date_is_past, D_eta, hE.cmp self _ hs hE.today, sign_neg]
      congr 1; apply propext; omega
    · simp only [date_is_same_day, hE.cmp self dt hs hd, sign_zero]
      congr 1; apply propext
      constructor
      · intro h; exact ordD_inj hs hd (by omega)
      · intro h; subst h; omega

/-- `is_anniversary(dt)` / `is_birthday(dt)`: same month and same day; `dt=None` is today -/
theorem date_is_anniversary_eq (E : Ext O) (self : D) (dt : Option D) :
    date_is_anniversary E self dt =
      decide (self.month = (dt.getD E.date_today).month ∧ self.day = (dt.getD E.date_today).day) ∧
    date_is_birthday E self dt = date_is_anniversary E self dt := by
  gtie "Pendulum.GettersGen.date_is_anniversary_eq" "date.py::Date.is_anniversary / is_birthday (Gen.Getters.date_is_anniversary)" =>
    refine ⟨?_, ?_⟩
    · cases dt <;> simp only [date_is_anniversary, Option.getD_none, Option.getD_some, Bool.decide_and]
    · simp only [date_is_birthday]

/-- the string methods of `Date` hand the documented `strftime` patterns / `isoformat()` to the standard library -/
theorem date_strings_eq (E : Ext O) (self : D) (spec : String) :
    date_to_date_string E self = E.date_strftime self "%Y-%m-%d" ∧
    date_to_formatted_date_string E self = E.date_strftime self "%b %d, %Y" ∧
    date_repr E self = E.date_clsname ++ "(" ++ toString self.year ++ ", " ++ toString self.month ++ ", "
      ++ toString self.day ++ ")" ∧
    date_str E self = E.date_isoformat self ∧ date_for_json E self = E.date_isoformat self ∧
    date_format_spec E self spec =
      (if spec.length > 0 then (if py_str_contains spec "%" then E.date_strftime self spec else E.date_format self spec none)
       else E.date_isoformat self) := by
  gtie "Pendulum.GettersGen.date_strings_eq" "date.py / mixins/default.py string methods (Gen.Getters.date_to_date_string, …)" =>
    refine ⟨?_, ?_, ?_, ?_, ?_, ?_⟩
    · simp only [date_to_date_string]
    · simp only [date_to_formatted_date_string]
    · simp only [date_repr, String.append_assoc]
    · simp only [date_str]
    · simp only [date_for_json]
    · simp only [date_format_spec]
      by_cases h : spec.length > 0 <;> simp [h] <;> omega

/-! ## datetime.py: offsets, timezone, flags -/

/-- `get_offset` / `offset`: the UTC offset in whole seconds (truncated), `None` for a naive value;
    `offset_hours`: that number over 3600; `float_timestamp`: `timestamp()` -/
theorem dt_offset_eq (E : Ext O) (self : Inst O) :
    dt_get_offset E self = self.utcoffset.map (fun td => Int.tdiv td 1000000) ∧
    dt_offset E self = dt_get_offset E self ∧
    dt_offset_hours E self = self.utcoffset.map (fun td => ((Int.tdiv td 1000000, 3600) : Frac)) ∧
    dt_float_timestamp E self = ((self.timestamp, 1000000) : Frac) := by
  gtie "Pendulum.GettersGen.dt_offset_eq" "datetime.py::DateTime.get_offset/offset/offset_hours/float_timestamp (Gen.Getters.dt_get_offset, …)" =>
    have e : dt_get_offset E self = self.utcoffset.map (fun td => Int.tdiv td 1000000) := by
      simp only [dt_get_offset]; cases self.utcoffset <;> rfl
    refine ⟨e, ?_, ?_, ?_⟩
    · simp only [dt_offset]
    · simp only [dt_offset_hours, e]; cases self.utcoffset <;> rfl
    · simp only [dt_float_timestamp]

/-- `timezone` / `tz`: the tzinfo when it is a pendulum timezone, else `None`; `timezone_name`: its name -/
theorem dt_timezone_eq (E : Ext O) (self : Inst O) :
    dt_timezone E self = (if self.tzinfo.isPendulum then self.tzinfo else TzInfo.none) ∧
    dt_tz E self = dt_timezone E self ∧
    dt_timezone_name E self = (match self.tzinfo with | .pendulum n => some n | _ => none) := by
  gtie "Pendulum.GettersGen.dt_timezone_eq" "datetime.py::DateTime.timezone/tz/timezone_name (Gen.Getters.dt_timezone, …)" =>
    have e : dt_timezone E self = (if self.tzinfo.isPendulum then self.tzinfo else TzInfo.none) := by
      simp only [dt_timezone]; cases self.tzinfo <;> simp [TzInfo.isPendulum]
    refine ⟨e, ?_, ?_⟩
    · simp only [dt_tz]
    · simp only [dt_timezone_name, e]
      cases self.tzinfo <;> simp [TzInfo.isPendulum, TzInfo.isNone, TzInfo.name]

/-- `is_utc`: aware with a zero offset (in whole seconds); `is_dst`: `dst()` is not the zero timedelta (so a naive value,
    whose `dst()` is None, answers True); `is_local`: same offset as the value converted to the local timezone -/
theorem dt_flags_eq (E : Ext O) (self : Inst O) :
    dt_is_utc E self = (match self.utcoffset with | none => false | some td => decide (Int.tdiv td 1000000 = 0)) ∧
    dt_is_dst E self = (match self.dst with | none => true | some td => decide (td ≠ 0)) ∧
    dt_is_local E self =
      (dt_get_offset E self == dt_get_offset E (E.view (E.dt_in_timezone self.obj E.local_timezone))) := by
  gtie "Pendulum.GettersGen.dt_flags_eq" "datetime.py::DateTime.is_utc/is_dst/is_local (Gen.Getters.dt_is_utc, …)" =>
    refine ⟨?_, ?_, ?_⟩
    · simp only [dt_is_utc, dt_offset, (dt_offset_eq E self).1]
      generalize self.utcoffset = u
      cases u <;> simp <;> (rw [Bool.eq_iff_iff]; simp)
    · simp only [dt_is_dst]
      generalize self.dst = u
      cases u <;> simp <;> (rw [Bool.eq_iff_iff]; simp)
    · simp only [dt_is_local, dt_offset]

/-- `date()`: the calendar date of the wall clock -/
theorem dt_date_eq (E : Ext O) (self : Inst O) : dt_date E self = ⟨self.year, self.month, self.day⟩ := by
  gtie "Pendulum.GettersGen.dt_date_eq" "datetime.py::DateTime.date (Gen.Getters.dt_date)" =>
    simp only [dt_date]

/-- what the hand models say about datetimes: an instant (µs) per object; two absolute intervals ending at the
    same datetime are equal exactly when they start at equal datetimes and are ordered by their lengths (interval.py, C05);
    equal datetimes are the same instant; `Interval(a, b)` and `add(microseconds=n)` act on instants (C04/C05/C11); `instance(x)` keeps the instant and the civil date;
    `create(y, 12, 28, 0, 0, 0, tz=…)` is on December 28th; `strftime("%Y-%m-%d")` determines and is determined by the
    civil date -/
structure DtOk (E : Ext O) (instant : O → Int) : Prop where
  iv_eq : ∀ s c c', E.ivt_eq c s true c' s true = E.dt_eq c c'
  iv_cmp : ∀ s c c', E.ivt_cmp c s true c' s true = sign (absI (instant s - instant c) - absI (instant s - instant c'))
  eq_instant : ∀ a b, E.dt_eq a b = true → instant a = instant b
  iv : ∀ a b, E.ivt_in_seconds a b false * 1000000 + E.ivt_microseconds a b false = instant b - instant a
  add_us : ∀ a n, instant (E.dt_add_microseconds a n) = instant a + n
  instance_instant : ∀ a, instant (E.dt_instance a) = instant a
  create_dec28 : ∀ y tz, 1 ≤ y → y ≤ 9999 → E.dt_isocalendar (E.dt_create y 12 28 0 0 0 0 tz) = isoCalendar y 12 28
  strftime_ymd : ∀ a b, (E.dt_strftime a "%Y-%m-%d" = E.dt_strftime b "%Y-%m-%d") ↔
    ((E.view a).year = (E.view b).year ∧ (E.view a).month = (E.view b).month ∧ (E.view a).day = (E.view b).day)

/-- `DateTime.is_long_year`: the ISO year of the instance's year has 53 weeks -/
theorem dt_is_long_year_eq (E : Ext O) (instant : O → Int) (hE : DtOk E instant) (self : Inst O)
    (hy : 1 ≤ self.year ∧ self.year ≤ 9999) :
    dt_is_long_year E self = decide (isoWeeksInYear self.year = 53) := by
  gtie "Pendulum.GettersGen.dt_is_long_year_eq" "datetime.py::DateTime.is_long_year (Gen.Getters.dt_is_long_year)" =>
    simp only [dt_is_long_year, hE.create_dec28 self.year _ hy.1 hy.2, dec28_week]

/-- `DateTime.is_same_day(dt)`: same civil date as `instance(dt)`; `is_anniversary(dt)`: same month and day
    (`dt=None`: now in the instance's timezone) -/
theorem dt_same_day_eq (E : Ext O) (instant : O → Int) (hE : DtOk E instant) (self : Inst O) (hself : E.view self.obj = self)
    (dt : O) (odt : Option O) :
    dt_is_same_day E self dt = decide (self.year = (E.view (E.dt_instance dt)).year ∧
      self.month = (E.view (E.dt_instance dt)).month ∧ self.day = (E.view (E.dt_instance dt)).day) ∧
    dt_is_anniversary E self odt =
      decide (self.month = (E.view (E.dt_instance (odt.getD (E.dt_now (dt_tz E self))))).month ∧
              self.day = (E.view (E.dt_instance (odt.getD (E.dt_now (dt_tz E self))))).day) := by
  gtie "Pendulum.GettersGen.dt_same_day_eq" "datetime.py::DateTime.is_same_day / is_anniversary, Date.to_date_string (Gen.Getters.dt_is_same_day, dt_is_anniversary)" =>
    refine ⟨?_, ?_⟩
    · have h := hE.strftime_ymd self.obj (E.dt_instance dt)
      rw [hself] at h
      simp only [dt_is_same_day]
      by_cases c : E.dt_strftime self.obj "%Y-%m-%d" = E.dt_strftime (E.dt_instance dt) "%Y-%m-%d"
      · simp only [c, beq_self_eq_true]; exact (decide_eq_true (h.mp c)).symm
      · have : ¬ (self.year = (E.view (E.dt_instance dt)).year ∧ self.month = (E.view (E.dt_instance dt)).month ∧
            self.day = (E.view (E.dt_instance dt)).day) := fun hh => c (h.mpr hh)
        rw [decide_eq_false this]
        simpa using c
    · cases odt <;> simp only [dt_is_anniversary, Option.getD_none, Option.getD_some, Bool.decide_and]

/-- `is_future` / `is_past`: comparison with now in the instance's timezone; `age`: signed full years from the
    instance's date to today's date there -/
theorem dt_now_eq (E : Ext O) (yb : D → D → Int) (hD : DateOk E yb) (self : Inst O)
    (hs : ValidD ⟨self.year, self.month, self.day⟩)
    (hn : ValidD ⟨(E.view (E.dt_now (dt_tz E self))).year, (E.view (E.dt_now (dt_tz E self))).month,
      (E.view (E.dt_now (dt_tz E self))).day⟩) :
    dt_is_future E self = decide (E.dt_cmp self.obj (E.dt_now (dt_timezone E self)) > 0) ∧
    dt_is_past E self = decide (E.dt_cmp self.obj (E.dt_now (dt_timezone E self)) < 0) ∧
    dt_age E self = yb ⟨self.year, self.month, self.day⟩
      ⟨(E.view (E.dt_now (dt_tz E self))).year, (E.view (E.dt_now (dt_tz E self))).month,
       (E.view (E.dt_now (dt_tz E self))).day⟩ := by
  gtie "Pendulum.GettersGen.dt_now_eq" "datetime.py::DateTime.is_future/is_past/age (Gen.Getters.dt_is_future, …)" =>
    refine ⟨?_, ?_, ?_⟩
    · simp only [dt_is_future]
    · simp only [dt_is_past]
    · simp only [dt_age, dt_date]
      exact hD.in_years _ _ hs hn

/-! ### `closest` / `farthest`: Python's `min` / `max` over `(abs(self - dt), dt)` -/

theorem select_map {α β : Type} (f : α → β) (better : β → β → Bool) (mb : α → α → Bool)
    (h : ∀ x c, better (f x) (f c) = mb x c) :
    ∀ (l : List α) (c : α), (l.map f).foldl (fun cur item => if better item cur then item else cur) (f c) =
      f (l.foldl (fun cur x => if mb x cur then x else cur) c) := by
  intro l
  induction l with
  | nil => intro c; rfl
  | cons x xs ih =>
    intro c
    simp only [List.map_cons, List.foldl_cons, h]
    by_cases hb : mb x c = true
    · simp only [hb, if_true]; exact ih x
    · simp only [hb, if_false, Bool.false_eq_true]; exact ih c

/-- the tuple comparison of the source, under what the hand models say about intervals and datetimes: strictly smaller
    distance -/
theorem better_lt (ie e : Bool) (ic c dx dc : Int) (h1 : ie = e) (h2 : ic = sign (dx - dc)) (h3 : e = true → dx = dc) :
    (if !ie then decide (ic < 0) else (if !e then decide (c < 0) else false)) = decide (dx < dc) := by
  subst h1 h2
  cases he : ie
  · simp only [Bool.not_false, if_true, sign_neg]; congr 1; apply propext; omega
  · have := h3 he
    simp only [Bool.not_true, Bool.false_eq_true, if_false]
    rw [decide_eq_false (by omega)]

theorem better_gt (ie e : Bool) (ic c dx dc : Int) (h1 : ie = e) (h2 : ic = sign (dx - dc)) (h3 : e = true → dx = dc) :
    (if !ie then decide (ic > 0) else (if !e then decide (c > 0) else false)) = decide (dx > dc) := by
  subst h1 h2
  cases he : ie
  · simp only [Bool.not_false, if_true, sign_pos]; congr 1; apply propext; omega
  · have := h3 he
    simp only [Bool.not_true, Bool.false_eq_true, if_false]
    rw [decide_eq_false (by omega)]

theorem pickBy_fold {α : Type} (dist : α → Int) (far : Bool) (c : α) (rest : List α) :
    pickBy dist far (c :: rest) =
      some (rest.foldl (fun cur x => if (if far then decide (dist x > dist cur) else decide (dist x < dist cur)) then x else cur) c) := by
  simp only [pickBy]
  congr 1
  congr 1
  funext cur x
  cases far <;> simp

/-- **`DateTime.closest(*dts)`** returns the first candidate (after `instance()`) at the smallest elapsed-time distance;
    no candidate → ValueError -/
theorem dt_closest_eq (E : Ext O) (instant : O → Int) (hE : DtOk E instant) (self : Inst O) (dts : List O) :
    dt_closest E self dts =
      (match pickBy (fun c => absI (instant self.obj - instant c)) false (dts.map E.dt_instance) with
       | none => .error "ValueError" | some c => .ok c) := by
  gtie "Pendulum.GettersGen.dt_closest_eq" "datetime.py::DateTime.closest (Gen.Getters.dt_closest)" =>
    simp only [dt_closest]
    cases hl : dts.map E.dt_instance with
    | nil => simp only [List.map_nil, py_select, pickBy]
    | cons c rest =>
      rw [pickBy_fold]
      simp only [List.map_cons, py_select]
      rw [select_map (fun dt => ((dt, self.obj, true), dt)) _
        (fun x cur => decide (absI (instant self.obj - instant x) < absI (instant self.obj - instant cur)))]
      · simp only [Bool.false_eq_true, if_false]
      · intro x cur
        exact better_lt _ _ _ _ _ _ (hE.iv_eq self.obj x cur) (hE.iv_cmp self.obj x cur)
          (fun h => by rw [hE.eq_instant x cur h])

/-- **`DateTime.farthest(*dts)`**: the first candidate at the largest distance -/
theorem dt_farthest_eq (E : Ext O) (instant : O → Int) (hE : DtOk E instant) (self : Inst O) (dts : List O) :
    dt_farthest E self dts =
      (match pickBy (fun c => absI (instant self.obj - instant c)) true (dts.map E.dt_instance) with
       | none => .error "ValueError" | some c => .ok c) := by
  gtie "Pendulum.GettersGen.dt_farthest_eq" "datetime.py::DateTime.farthest (Gen.Getters.dt_farthest)" =>
    simp only [dt_farthest]
    cases hl : dts.map E.dt_instance with
    | nil => simp only [List.map_nil, py_select, pickBy]
    | cons c rest =>
      rw [pickBy_fold]
      simp only [List.map_cons, py_select]
      rw [select_map (fun dt => ((dt, self.obj, true), dt)) _
        (fun x cur => decide (absI (instant self.obj - instant x) > absI (instant self.obj - instant cur)))]
      · simp only [if_true]
      · intro x cur
        exact better_gt _ _ _ _ _ _ (hE.iv_eq self.obj x cur) (hE.iv_cmp self.obj x cur)
          (fun h => by rw [hE.eq_instant x cur h])

/-- what `pickBy` returns is a candidate at the smallest (largest) distance, and the first such one: every candidate
    before it in the list is strictly farther (closer) -/
theorem pickBy_spec {α : Type} (dist : α → Int) (far : Bool) (l : List α) (r : α)
    (h : pickBy dist far l = some r) :
    r ∈ l ∧ ∀ c ∈ l, (if far then dist c ≤ dist r else dist r ≤ dist c) := by
  cases l with
  | nil => simp [pickBy] at h
  | cons c rest =>
    simp only [pickBy, Option.some.injEq] at h
    have key : ∀ (rest : List α) (cur : α),
        let r := rest.foldl (fun cur x => if (if far then dist x > dist cur else dist x < dist cur) then x else cur) cur
        (r = cur ∨ r ∈ rest) ∧ (if far then dist cur ≤ dist r else dist r ≤ dist cur) ∧
        ∀ x ∈ rest, (if far then dist x ≤ dist r else dist r ≤ dist x) := by
      intro rest
      induction rest with
      | nil => intro cur; cases far <;> simp
      | cons x xs ih =>
        intro cur
        simp only [List.foldl_cons]
        by_cases hb : (if far then dist x > dist cur else dist x < dist cur)
        · simp only [hb, if_true]
          obtain ⟨m, le, all⟩ := ih x
          refine ⟨?_, ?_, ?_⟩
          · rcases m with m | m
            · right; rw [m]; exact List.mem_cons_self
            · right; exact List.mem_cons_of_mem _ m
          · cases far <;> simp only [Bool.false_eq_true, if_false, if_true] at le hb ⊢ <;> omega
          · intro y hy
            rcases List.mem_cons.mp hy with e | e
            · subst e; exact le
            · exact all y e
        · simp only [hb, if_false]
          obtain ⟨m, le, all⟩ := ih cur
          refine ⟨?_, le, ?_⟩
          · rcases m with m | m
            · left; exact m
            · right; exact List.mem_cons_of_mem _ m
          · intro y hy
            rcases List.mem_cons.mp hy with e | e
            · subst e
              cases far <;> simp only [Bool.false_eq_true, if_false, if_true] at le hb ⊢ <;> omega
            · exact all y e
    have hk := key rest c
    rw [h] at hk
    obtain ⟨m, le, all⟩ := hk
    refine ⟨?_, ?_⟩
    · rcases m with m | m
      · rw [m]; exact List.mem_cons_self
      · exact List.mem_cons_of_mem _ m
    · intro y hy
      rcases List.mem_cons.mp hy with e | e
      · subst e; exact le
      · exact all y e

/-- **`DateTime.average(dt)`**: the instance moved by half of the signed elapsed time to `dt`, rounded down to the
    microsecond (`dt=None`: now in the instance's timezone) -/
theorem dt_average_eq (E : Ext O) (instant : O → Int) (hE : DtOk E instant) (self : Inst O) (dt : Option O) :
    instant (dt_average E self dt) =
      averageInstant (instant self.obj) (instant (dt.getD (E.dt_now (dt_tz E self)))) := by
  gtie "Pendulum.GettersGen.dt_average_eq" "datetime.py::DateTime.average, DateTime.diff (Gen.Getters.dt_average)" =>
    cases dt <;>
      simp only [dt_average, Option.getD_none, Option.getD_some, hE.iv, hE.add_us, averageInstant]

/-- `__str__` is `isoformat(" ")`; `__repr__` shows the fields, the microsecond when it is not zero and the tzinfo when
    there is one -/
theorem dt_str_repr_eq (E : Ext O) (self : Inst O) :
    dt_str E self = E.dt_isoformat self.obj (some " ") ∧
    dt_repr E self = self.clsname ++ "(" ++ toString self.year ++ ", " ++ toString self.month ++ ", " ++ toString self.day
      ++ ", " ++ toString self.hour ++ ", " ++ toString self.minute ++ ", " ++ toString self.second
      ++ (if self.microsecond ≠ 0 then ", " ++ toString self.microsecond else "")
      ++ (if self.tzinfo.isNone then "" else ", tzinfo=" ++ E.tz_repr self.tzinfo) ++ ")" := by
  gtie "Pendulum.GettersGen.dt_str_repr_eq" "datetime.py::DateTime.__str__/__repr__ (Gen.Getters.dt_str, dt_repr)" =>
    refine ⟨by simp only [dt_str], ?_⟩
    simp only [dt_repr]
    by_cases h1 : self.microsecond ≠ 0 <;> cases h2 : self.tzinfo.isNone <;>
      simp [h1, h2, String.append_assoc]

end Pendulum.GettersGen
