import Pendulum.Model.Range
/-! The `Interval.range` loop = the `takeWhile inside` prefix of the candidates computed from the start. -/
namespace Pendulum.Range

theorem loop_shape {α : Type} (step : Int → α) (inside : α → Bool) (amount : Int) :
    ∀ (fuel k : Nat), rangeLoop step inside amount fuel (cand step amount k) (amount * (k + 1)) =
      ((List.range fuel).map (fun j => cand step amount (k + j))).takeWhile inside := by
  intro fuel
  induction fuel with
  | zero => intro k; simp [rangeLoop]
  | succ f ih =>
    intro k
    simp only [rangeLoop]
    rw [List.range_succ_eq_map, List.map_cons, List.map_map]
    by_cases h : inside (cand step amount k) = true
    · simp only [h, if_true, Nat.add_zero, List.takeWhile_cons]
      have e1 : step (amount * (↑k + 1)) = cand step amount (k + 1) := by
        unfold cand; congr 1
      have e2 : amount * (↑k + 1) + amount = amount * (((k + 1 : Nat) : Int) + 1) := by
        simp [Int.natCast_add, Int.mul_add]
      rw [e1, e2, ih (k + 1)]
      congr 2
      apply List.map_congr_left
      intro j _
      simp only [Function.comp]
      congr 1; omega
    · simp [h]

/-- candidates in the order they are tried -/
def cands {α : Type} (step : Int → α) (amount : Int) (fuel : Nat) : List α :=
  (List.range fuel).map (cand step amount)

theorem range_spec {α : Type} (step : Int → α) (inside : α → Bool) (amount : Int) (fuel : Nat) :
    range step inside amount fuel = (cands step amount fuel).takeWhile inside := by
  have h := loop_shape step inside amount fuel 0
  simp only [Nat.zero_add] at h
  unfold range cands
  have e0 : step 0 = cand step amount 0 := by unfold cand; simp
  have e1 : amount = amount * (((0 : Nat) : Int) + 1) := by simp
  rw [e0]
  conv => lhs; arg 6; rw [e1]
  exact h

theorem takeWhile_getElem? {α : Type} (p : α → Bool) : ∀ (l : List α) (k : Nat) (v : α),
    (l.takeWhile p)[k]? = some v → l[k]? = some v
  | [], k, v, h => by simp at h
  | x :: xs, k, v, h => by
    rw [List.takeWhile_cons] at h
    by_cases hx : p x = true
    · rw [if_pos hx] at h
      cases k with
      | zero => simpa using h
      | succ k => simp only [List.getElem?_cons_succ] at h ⊢; exact takeWhile_getElem? p xs k v h
    · rw [if_neg hx] at h; simp at h

theorem takeWhile_stop {α : Type} (p : α → Bool) : ∀ (l : List α),
    (l.takeWhile p).length < l.length → ∃ x, l[(l.takeWhile p).length]? = some x ∧ p x = false
  | [], h => by simp at h
  | x :: xs, h => by
    rw [List.takeWhile_cons] at h ⊢
    by_cases hx : p x = true
    · rw [if_pos hx] at h ⊢
      simp only [List.length_cons, Nat.add_lt_add_iff_right] at h
      obtain ⟨y, hy, hp⟩ := takeWhile_stop p xs h
      exact ⟨y, by simpa using hy, hp⟩
    · rw [if_neg hx]
      exact ⟨x, by simp, by simpa using hx⟩

theorem takeWhile_append_stop {α : Type} (p : α → Bool) : ∀ (l1 l2 : List α),
    (∃ x ∈ l1, p x = false) → (l1 ++ l2).takeWhile p = l1.takeWhile p
  | [], _, h => by obtain ⟨x, hx, _⟩ := h; simp at hx
  | x :: xs, l2, h => by
    simp only [List.cons_append, List.takeWhile_cons]
    by_cases hx : p x = true
    · simp only [hx, if_true]
      congr 1
      apply takeWhile_append_stop p xs l2
      obtain ⟨y, hy, hp⟩ := h
      rcases List.mem_cons.mp hy with rfl | hy'
      · rw [hx] at hp; exact absurd hp (by simp)
      · exact ⟨y, hy', hp⟩
    · simp [hx]

theorem takeWhile_all {α : Type} (p : α → Bool) : ∀ (l : List α) (k : Nat) (v : α),
    l[k]? = some v → (∀ j x, j ≤ k → l[j]? = some x → p x = true) → (l.takeWhile p)[k]? = some v
  | [], k, v, h, _ => by simp at h
  | x :: xs, k, v, h, hall => by
    have hx : p x = true := hall 0 x (Nat.zero_le _) (by simp)
    rw [List.takeWhile_cons, if_pos hx]
    cases k with
    | zero => simpa using h
    | succ k =>
      simp only [List.getElem?_cons_succ] at h ⊢
      apply takeWhile_all p xs k v h
      intro j y hj hy
      exact hall (j + 1) y (by omega) (by simpa using hy)

theorem mem_takeWhile_true {α : Type} (p : α → Bool) : ∀ (l : List α) (x : α), x ∈ l.takeWhile p → p x = true
  | [], x, h => by simp at h
  | y :: ys, x, h => by
    rw [List.takeWhile_cons] at h
    by_cases hy : p y = true
    · rw [if_pos hy] at h
      rcases List.mem_cons.mp h with rfl | h'
      · exact hy
      · exact mem_takeWhile_true p ys x h'
    · rw [if_neg hy] at h; simp at h

theorem length_takeWhile_le' {α : Type} (p : α → Bool) : ∀ (l : List α), (l.takeWhile p).length ≤ l.length
  | [] => by simp
  | y :: ys => by
    rw [List.takeWhile_cons]
    by_cases hy : p y = true
    · rw [if_pos hy]; simp only [List.length_cons]; have := length_takeWhile_le' p ys; omega
    · rw [if_neg hy]; simp

theorem cands_getElem? {α : Type} (step : Int → α) (amount : Int) (fuel k : Nat) (hk : k < fuel) :
    (cands step amount fuel)[k]? = some (cand step amount k) := by
  unfold cands; simp [hk]

theorem cands_getElem?_some {α : Type} (step : Int → α) (amount : Int) (fuel k : Nat) (v : α)
    (h : (cands step amount fuel)[k]? = some v) : v = cand step amount k ∧ k < fuel := by
  unfold cands at h
  simp only [List.getElem?_map, Option.map_eq_some_iff] at h
  obtain ⟨a, ha, hv⟩ := h
  have hk : k < fuel := by
    by_cases c : k < fuel
    · exact c
    · simp [c] at ha
  simp [hk] at ha
  subst ha
  exact ⟨hv.symm, hk⟩

/-- strictly increasing keys along the candidates -/
theorem key_mono {α : Type} (step : Int → α) (amount : Int) (key : α → Int)
    (hstep : ∀ k : Nat, key (cand step amount k) < key (cand step amount (k + 1))) :
    ∀ (i d : Nat), key (cand step amount i) + d ≤ key (cand step amount (i + d)) := by
  intro i d
  induction d with
  | zero => simp
  | succ d ih =>
    have := hstep (i + d)
    have e : i + (d + 1) = i + d + 1 := by omega
    rw [e]; push_cast; omega

end Pendulum.Range
