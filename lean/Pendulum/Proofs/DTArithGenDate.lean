import Pendulum.Proofs.DTArithGenOps
/-! ties for the `Date` arithmetic entry points (split out of the former Proofs/DTArithGen.lean so that a broken tie of one group of methods
does not stop the properties that only depend on another group) -/
set_option linter.unusedSimpArgs false
namespace Pendulum.DTArithGen
open Pendulum Pendulum.Cal Pendulum.AddDur Pendulum.Zone Pendulum.DTOps Pendulum.CalOps
open Pendulum.Gen.DTArith

/-! ### Date -/

/-- day number (days since 1970-01-01) of three civil fields, and back -/
def toDay (n : N3) : Int := ymd2ord n.year n.month n.day - epochOrd
def fromDay (k : Int) : N3 := ⟨(ord2ymd (k + epochOrd)).1, (ord2ymd (k + epochOrd)).2.1, (ord2ymd (k + epochOrd)).2.2⟩

theorem toDay_fromDay (k : Int) : toDay (fromDay k) = k := by
  have h := (ymd2ord_ord2ymd (k + epochOrd)).1
  simp only [toDay, fromDay, h]; omega

@[simp] theorem n3_eta (n : N3) : (⟨n.year, n.month, n.day⟩ : N3) = n := rfl

def liftAD3 : Except AddDur.Err Int → Except String N3
  | .ok w => .ok (fromDay (w / DAY))
  | .error .valueError => .error "ValueError"
  | .error .overflow => .error "OverflowError"

/-- callee link for a Date with day number `n`: `add_duration` on a native `date` is the model's on that day's midnight -/
structure DLinked (D : DateInst) (n : Int) : Prop where
  fields : toDay ⟨D.year, D.month, D.day⟩ = n
  add_duration : ∀ m y mo wk d, D.add_duration m y mo wk d 0 0 (.int 0) 0 =
    liftAD3 (addDuration (toDay m * DAY) y mo wk d 0 0 0 0)

def dinstOf (n : Int) : DateInst where
  year := (fromDay n).year
  month := (fromDay n).month
  day := (fromDay n).day
  add_duration := fun m y mo wk d h mi s us => liftAD3 (addDuration (toDay m * DAY) y mo wk d h mi (secS s) (us + secU s))

theorem dlinked_dinstOf (n : Int) : DLinked (dinstOf n) n where
  fields := toDay_fromDay n
  add_duration := fun _ _ _ _ _ => rfl

/-- the day number a Date request denotes -/
def dinterp : Except String Req → Except AddDur.Err Int
  | .ok (.date y m d) => .ok (toDay ⟨y, m, d⟩)
  | .ok _ => .error .valueError
  | .error s => .error (if s = "OverflowError" then .overflow else .valueError)

theorem date_add_eq (D : DateInst) (n : Int) (L : DLinked D n) (y mo wk d : Int) :
    dinterp (date_add D y mo wk d) = dateAdd n y mo wk d := by
  dta_tie "Pendulum.DTArithGen.date_add_eq" =>
    have hf := L.fields
    simp only [date_add, L.add_duration, hf, dateAdd]
    cases hA : addDuration (n * DAY) y mo wk d 0 0 0 0 with
    | error e => cases e <;> simp [liftAD3, dinterp]
    | ok r => simp [liftAD3, dinterp, toDay_fromDay]

theorem date_subtract_eq (D : DateInst) (y mo wk d : Int) :
    date_subtract D y mo wk d = date_add D (-y) (-mo) (-wk) (-d) := by
  dta_tie "Pendulum.DTArithGen.date_subtract_eq" =>
    simp only [date_subtract]

/-- `Date._add_timedelta` / `_subtract_timedelta`: a Duration (or Interval) travels as its calendar components (the
    time part is dropped), a plain timedelta as its `days` -/
theorem date_timedelta_eq (D : DateInst) (δ : Operand) :
    ((δ.kind = .duration ∨ δ.kind = .interval) →
      date_add_timedelta D δ = date_add D δ.years δ.months δ.weeks δ.remaining_days ∧
      date_subtract_timedelta D δ = date_subtract D δ.years δ.months δ.weeks δ.remaining_days) ∧
    (δ.kind = .timedelta →
      date_add_timedelta D δ = date_add D 0 0 0 δ.days ∧ date_subtract_timedelta D δ = date_subtract D 0 0 0 δ.days) := by
  dta_tie "Pendulum.DTArithGen.date_timedelta_eq" =>
    constructor
    · intro hk; rcases hk with hk | hk <;> simp [date_add_timedelta, date_subtract_timedelta, hk]
    · intro hk; simp [date_add_timedelta, date_subtract_timedelta, hk]

/-- `Date.__add__` / `Date.__sub__`: timedelta → the methods above; a date (or datetime) on the right of `-` →
    `Interval(<Date of its fields>, self, absolute=False)`; anything else → NotImplemented -/
theorem date_op_eq (D : DateInst) (o : Operand) :
    date_op_add D o = (if !isDelta o.kind then .ok .notImplemented else Except.map Res.value (date_add_timedelta D o)) ∧
    date_op_sub D o =
      (if isDelta o.kind then Except.map Res.value (date_subtract_timedelta D o)
       else if o.kind = .date ∨ o.kind = .datetime ∨ o.kind = .pendulumDT then
         .ok (.interval (.date o.year o.month o.day) (.as_date .self) false)
       else .ok .notImplemented) := by
  dta_tie "Pendulum.DTArithGen.date_op_eq" =>
    constructor <;> cases hk : o.kind <;> simp [date_op_add, date_op_sub, date_diff, isDelta, hk]

/-- Duration operands on the model level: `date ± d` are the model's `dateAddDur` / `dateSubDur` -/
theorem date_duration_model (D : DateInst) (n : Int) (L : DLinked D n) (d : Dur) :
    dinterp (date_add_timedelta D (opOfDur d)) = dateAddDur n d ∧
    dinterp (date_subtract_timedelta D (opOfDur d)) = dateSubDur n d := by
  have h := (date_timedelta_eq D (opOfDur d)).1 (Or.inl rfl)
  rw [h.1, h.2, date_subtract_eq, date_add_eq D n L, date_add_eq D n L]
  exact ⟨rfl, rfl⟩


end Pendulum.DTArithGen
