import Pendulum.Proofs.Zone
namespace Pendulum.Zone

/-- L2: before the (fold=1) threshold of the head, no gap of the list contains w -/
theorem noGap_before (l : List Tr) : ∀ (init w : Int), WF init l →
    (∀ tr rest, l = tr :: rest → w < thr true init tr) → inGap init l w = false := by
  induction l with
  | nil => intros; rfl
  | cons a rest ih =>
    intro init w hwf hlt
    have h := hlt a rest rfl
    unfold thr at h
    simp only [if_true] at h
    have htail : inGap a.off rest w = false := by
      apply ih a.off w (wf_tail hwf)
      intro b r hb
      subst hb
      have hsp := hwf.1
      unfold thr absI at *
      simp only [if_true]
      split at hsp <;> split at hsp <;> omega
    simp only [inGap, htail, Bool.or_false]
    by_cases c1 : init < a.off
    · have : ¬ (a.t + init ≤ w) := by omega
      simp [c1, this]
    · simp [c1]

/-- wallOff true scan stops at the head when w is below the head's fold=1 threshold -/
theorem wallOff_lt (f : Bool) (init : Int) (a : Tr) (rest : List Tr) (w : Int)
    (h : w < thr f init a) : wallOff f init (a :: rest) w = init := by
  simp [wallOff, h]

theorem wallOff_ge (f : Bool) (init : Int) (a : Tr) (rest : List Tr) (w : Int)
    (h : ¬ w < thr f init a) : wallOff f init (a :: rest) w = wallOff f a.off rest w := by
  simp [wallOff, h]

/-- in a WF list the next fold=1 threshold is beyond the current fold=0 threshold -/
theorem next_thr (init : Int) (a b : Tr) (r : List Tr) (hwf : WF init (a :: b :: r)) :
    thr false init a ≤ thr true a.off b := by
  have hsp := hwf.1
  unfold thr absI at *
  simp only [if_true, Bool.false_eq_true, if_false]
  split at hsp <;> split at hsp <;> omega

theorem thr_le (init : Int) (a : Tr) : thr true init a ≤ thr false init a := by
  unfold thr; simp only [if_true, Bool.false_eq_true, if_false]; omega

/-- D: a wall value is skipped iff the fold=1 offset exceeds the fold=0 offset -/
theorem gap_iff (l : List Tr) : ∀ (init w : Int), WF init l →
    (inGap init l w = true ↔ wallOff true init l w > wallOff false init l w) := by
  induction l with
  | nil => intro init w _; simp [inGap, wallOff]
  | cons a rest ih =>
    intro init w hwf
    have hBA := thr_le init a
    by_cases hB : w < thr true init a
    · -- below both thresholds
      have hA : w < thr false init a := by omega
      rw [wallOff_lt true init a rest w hB, wallOff_lt false init a rest w hA]
      have := noGap_before (a :: rest) init w hwf (by intro tr r h; cases h; exact hB)
      simp [this]
    · by_cases hA : w < thr false init a
      · -- between the two thresholds: fold=0 stops, fold=1 passes the head and stops at the next
        rw [wallOff_lt false init a rest w hA, wallOff_ge true init a rest w hB]
        have hstop : wallOff true a.off rest w = a.off := by
          cases rest with
          | nil => simp [wallOff]
          | cons b r =>
            have := next_thr init a b r hwf
            exact wallOff_lt true a.off b r w (by omega)
        rw [hstop]
        have htail : inGap a.off rest w = false := by
          apply noGap_before rest a.off w (wf_tail hwf)
          intro b r hb; subst hb
          have := next_thr init a b r hwf
          omega
        simp only [inGap, htail, Bool.or_false]
        unfold thr at hB hA
        simp only [if_true, Bool.false_eq_true, if_false] at hB hA
        by_cases c1 : init < a.off
        · have h2 : a.t + init ≤ w := by omega
          have h3 : w < a.t + a.off := by omega
          simp [c1, h2, h3]
        · simp [c1]
      · -- above both: recurse
        rw [wallOff_ge false init a rest w hA, wallOff_ge true init a rest w hB]
        have hhead : (decide (init < a.off) && decide (a.t + init ≤ w) && decide (w < a.t + a.off)) = false := by
          unfold thr at hA
          simp only [Bool.false_eq_true, if_false] at hA
          by_cases c1 : init < a.off
          · have : ¬ (w < a.t + a.off) := by omega
            simp [this]
          · simp [c1]
        simp only [inGap, hhead, Bool.false_or]
        exact ih a.off w (wf_tail hwf)


theorem wf_le {init : Int} {a b : Tr} {r : List Tr} (h : WF init (a :: b :: r)) : a.t ≤ b.t := by
  have hsp := h.1
  unfold absI at hsp
  split at hsp <;> split at hsp <;> omega

/-- noPre: a skipped wall value has no preimage -/
theorem noPre (l : List Tr) : ∀ (init w u : Int), WF init l → inGap init l w = true →
    u + offAt init l u ≠ w := by
  induction l with
  | nil => intro init w u _ h; simp [inGap] at h
  | cons a rest ih =>
    intro init w u hwf hg hpre
    simp only [inGap, Bool.or_eq_true, Bool.and_eq_true, decide_eq_true_eq] at hg
    by_cases hu : u < a.t
    · have ho : offAt init (a :: rest) u = init := by simp [offAt, hu]
      rw [ho] at hpre
      rcases hg with ⟨⟨_, h2⟩, _⟩ | htail
      · omega
      · have : inGap a.off rest w = false := by
          apply noGap_before rest a.off w (wf_tail hwf)
          intro b r hb; subst hb
          have h1 := next_thr init a b r hwf
          have : w < thr false init a := by
            unfold thr; simp only [Bool.false_eq_true, if_false]; omega
          omega
        rw [this] at htail; cases htail
    · have hu' : a.t ≤ u := by omega
      have hlow := wall_lower rest init a u hwf hu'
      rcases hg with ⟨⟨_, _⟩, h3⟩ | htail
      · omega
      · have ho : offAt init (a :: rest) u = offAt a.off rest u := by simp [offAt, hu]
        rw [ho] at hpre
        exact ih a.off w u (wf_tail hwf) htail hpre

/-- LB: outside gaps, once the scan has passed the head, the candidate instant is not before the head -/
theorem cand_lower (f : Bool) (rest : List Tr) : ∀ (init w : Int) (a : Tr), WF init (a :: rest) →
    inGap init (a :: rest) w = false → ¬ (w < thr f init a) →
    a.t ≤ w - wallOff f init (a :: rest) w := by
  induction rest with
  | nil =>
    intro init w a _ hg hp
    rw [wallOff_ge f init a [] w hp]
    simp only [wallOff]
    simp only [inGap, Bool.or_false, Bool.and_eq_false_iff, decide_eq_false_iff_not] at hg
    unfold thr at hp
    cases f <;> simp only [Bool.false_eq_true, if_false, if_true] at hp <;> omega
  | cons b r ih =>
    intro init w a hwf hg hp
    rw [wallOff_ge f init a (b :: r) w hp]
    simp only [inGap, Bool.or_eq_false_iff] at hg
    obtain ⟨hghead, hgtail⟩ := hg
    by_cases hb : w < thr f a.off b
    · rw [wallOff_lt f a.off b r w hb]
      simp only [Bool.and_eq_false_iff, decide_eq_false_iff_not] at hghead
      unfold thr at hp
      cases f <;> simp only [Bool.false_eq_true, if_false, if_true] at hp <;> omega
    · have hgt : inGap a.off (b :: r) w = false := by simpa [inGap] using hgtail
      have := ih a.off w b hwf.2 hgt hb
      have hab := wf_le hwf
      omega

/-- pre: outside gaps both candidates are genuine preimages -/
theorem pre (f : Bool) (l : List Tr) : ∀ (init w : Int), WF init l → inGap init l w = false →
    offAt init l (w - wallOff f init l w) = wallOff f init l w := by
  induction l with
  | nil => intro init w _ _; simp [offAt, wallOff]
  | cons a rest ih =>
    intro init w hwf hg
    by_cases hp : w < thr f init a
    · rw [wallOff_lt f init a rest w hp]
      have hlt : w - init < a.t := by
        simp only [inGap, Bool.or_eq_false_iff, Bool.and_eq_false_iff, decide_eq_false_iff_not] at hg
        unfold thr at hp
        cases f <;> simp only [Bool.false_eq_true, if_false, if_true] at hp <;> omega
      simp [offAt, hlt]
    · have hlow := cand_lower f rest init w a hwf hg hp
      rw [wallOff_ge f init a rest w hp] at hlow ⊢
      have hnlt : ¬ (w - wallOff f a.off rest w < a.t) := by omega
      have hgt : inGap a.off rest w = false := by
        simp only [inGap, Bool.or_eq_false_iff] at hg; exact hg.2
      simp only [offAt, hnlt, if_false]
      exact ih a.off w (wf_tail hwf) hgt

/-- preimage characterisation: the instants whose local rendering is w are exactly the (at most two)
    candidates w - utcoffset(fold=0), w - utcoffset(fold=1), and there are none iff w is skipped -/
theorem preimage_char (l : List Tr) (init w u : Int) (hwf : WF init l) :
    u + offAt init l u = w ↔
      (inGap init l w = false ∧ (u = w - wallOff false init l w ∨ u = w - wallOff true init l w)) := by
  constructor
  · intro h
    have hg : inGap init l w = false := by
      cases hc : inGap init l w with
      | false => rfl
      | true => exact absurd h (noPre l init w u hwf hc)
    refine ⟨hg, ?_⟩
    have hr := roundtrip l init u hwf
    rw [h] at hr
    cases hf : foldAt init l u with
    | false => rw [hf] at hr; left; omega
    | true => rw [hf] at hr; right; omega
  · rintro ⟨hg, h | h⟩
    · have := pre false l init w hwf hg; rw [h]; omega
    · have := pre true l init w hwf hg; rw [h]; omega

end Pendulum.Zone
