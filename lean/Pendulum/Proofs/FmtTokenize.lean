import Pendulum.Proofs.FmtMisc
/-! Tokenizing the format string assembled from a class item list gives back the items: `_FORMAT_RE` takes, at a
token's position, exactly that token (no longer alternative of `_TOKENS` continues into what follows, no earlier
alternative is a prefix of it), and copies a literal character no alternative starts with. -/
namespace Pendulum.Fmt

/-- the format string of a class format -/
def fmtChars : List FItem → Str
  | [] => []
  | .lit c :: r => c :: fmtChars r
  | .tok t :: r => t.str.toList ++ fmtChars r

/-- the characters that would continue the token text `t` into a longer alternative of `_TOKENS` -/
def nextBad (t : Str) : List Char := alts.filterMap (fun a => if t.isPrefixOf a then a[t.length]? else none)

/-- a literal character the tokenizer copies: not `[`, not `\`, and no token alternative starts with it -/
def litOK (c : Char) : Bool := c != '[' && c != '\\' && alts.all (fun a => a.head? != some c)

/-- every literal is copied, and the character after a token does not continue it into a longer token -/
def TokSep : List FItem → Bool
  | [] => true
  | .lit c :: r => litOK c && TokSep r
  | .tok t :: r => (match fmtChars r with | [] => true | c :: _ => !(nextBad t.str.toList).contains c) && TokSep r

/-! ### list facts -/

theorem find?_congr_mem {α} (p q : α → Bool) : ∀ (l : List α), (∀ x ∈ l, p x = q x) → l.find? p = l.find? q := by
  intro l
  induction l with
  | nil => intro _; rfl
  | cons a l ih =>
    intro h
    simp only [List.find?_cons, h a (by simp), ih (fun x hx => h x (by simp [hx]))]

/-- a prefix of `t ++ r` is a prefix of `t`, or continues `t` with the first character of `r` -/
theorem prefix_append_cases (a t r : Str) (h : a.isPrefixOf (t ++ r) = true) :
    a.isPrefixOf t = true ∨ ∃ c r', r = c :: r' ∧ t.isPrefixOf a = true ∧ a[t.length]? = some c := by
  rw [List.isPrefixOf_iff_prefix] at h
  obtain ⟨s, hs⟩ := h
  rcases List.append_eq_append_iff.mp hs with ⟨m, e1, _⟩ | ⟨m, e1, e2⟩
  · left; rw [List.isPrefixOf_iff_prefix]; exact ⟨m, e1.symm⟩
  · cases m with
    | nil =>
      left; rw [List.isPrefixOf_iff_prefix]
      simp only [List.append_nil] at e1; rw [e1]; exact List.prefix_refl _
    | cons c m' =>
      right
      refine ⟨c, m' ++ s, e2, ?_, ?_⟩
      · rw [List.isPrefixOf_iff_prefix]; exact ⟨c :: m', e1.symm⟩
      · rw [e1]; simp

theorem firstAlt_append (as : List Str) (t r : Str) (h1 : firstAlt as t = some t)
    (h2 : ∀ c r', r = c :: r' → ∀ a ∈ as, ¬ (t.isPrefixOf a = true ∧ a[t.length]? = some c)) :
    firstAlt as (t ++ r) = some t := by
  unfold firstAlt at *
  rw [find?_congr_mem (fun a => a.isPrefixOf (t ++ r)) (fun a => a.isPrefixOf t) as ?_]
  · exact h1
  · intro a ha
    cases hp : a.isPrefixOf t with
    | true =>
      rw [List.isPrefixOf_iff_prefix] at hp ⊢
      exact hp.trans (List.prefix_append _ _)
    | false =>
      cases hq : a.isPrefixOf (t ++ r) with
      | false => rfl
      | true =>
        rcases prefix_append_cases a t r hq with h | ⟨c, r', e, p1, p2⟩
        · rw [h] at hp; cases hp
        · exact absurd ⟨p1, p2⟩ (h2 c r' e a ha)

theorem nextBad_spec (t : Str) (c : Char) (h : (nextBad t).contains c = false) :
    ∀ a ∈ alts, ¬ (t.isPrefixOf a = true ∧ a[t.length]? = some c) := by
  intro a ha ⟨p1, p2⟩
  have : c ∈ nextBad t := by
    unfold nextBad
    rw [List.mem_filterMap]
    exact ⟨a, ha, by simp [p1, p2]⟩
  have : (nextBad t).contains c = true := by simpa using this
  rw [h] at this; cases this

/-! ### facts about the token alternation (regenerated data) -/

theorem alts_nonempty : ∀ a ∈ alts, a ≠ [] := by
  have : alts.all (fun a => !a.isEmpty) = true := by decide
  intro a ha e
  have := (List.all_eq_true.mp this) a ha
  rw [e] at this; cases this

theorem tok_first (t : NTok) : firstAlt alts t.str.toList = some t.str.toList := by cases t <;> decide

theorem tok_head (t : NTok) : ∃ c0 t', t.str.toList = c0 :: t' ∧ c0 ≠ '[' ∧ c0 ≠ '\\' := by
  cases t <;> exact ⟨_, _, rfl, by decide, by decide⟩

/-! ### one step of the tokenizer -/

theorem tokenizeAux_tok (f : Nat) (t r : Str) (c0 : Char) (t' : Str) (e : t = c0 :: t') (n1 : c0 ≠ '[') (n2 : c0 ≠ '\\')
    (hf : firstAlt alts (t ++ r) = some t) : tokenizeAux (f + 1) (t ++ r) = Item.tok t :: tokenizeAux f r := by
  subst e
  have b1 : (c0 == '[') = false := by simp [n1]
  have b2 : (c0 == '\\') = false := by simp [n2]
  have hf' : firstAlt alts (c0 :: (t' ++ r)) = some (c0 :: t') := hf
  have hd : List.drop (t'.length + 1) (c0 :: (t' ++ r)) = r := by simp
  simp only [List.cons_append, tokenizeAux, b1, b2, Bool.false_eq_true, if_false, hf', List.length_cons, hd]

theorem tokenizeAux_lit (f : Nat) (c : Char) (r : Str) (h : litOK c = true) :
    tokenizeAux (f + 1) (c :: r) = Item.lit [c] :: tokenizeAux f r := by
  simp only [litOK, Bool.and_eq_true, bne_iff_ne, ne_eq] at h
  obtain ⟨⟨n1, n2⟩, h3⟩ := h
  have b1 : (c == '[') = false := by simp [n1]
  have b2 : (c == '\\') = false := by simp [n2]
  have hno : firstAlt alts (c :: r) = none := by
    unfold firstAlt
    rw [List.find?_eq_none]
    intro a ha hp
    have hne := alts_nonempty a ha
    have hh := (List.all_eq_true.mp h3) a ha
    cases a with
    | nil => exact hne rfl
    | cons x xs =>
      simp only [List.isPrefixOf, Bool.and_eq_true, beq_iff_eq] at hp
      simp [hp.1] at hh
  simp only [tokenizeAux, b1, b2, Bool.false_eq_true, if_false, hno]

/-- **tokenization of class formats**: the tokenizer cuts the assembled format string back into the items -/
theorem tokenizeAux_class : ∀ (its : List FItem) (f : Nat), (fmtChars its).length < f → TokSep its = true →
    tokenizeAux f (fmtChars its) = its.map FItem.toItem := by
  intro its
  induction its with
  | nil =>
    intro f hf _
    cases f with
    | zero => rfl
    | succ f => rfl
  | cons i its ih =>
    intro f hf hs
    cases f with
    | zero => exact absurd hf (Nat.not_lt_zero _)
    | succ f =>
      cases i with
      | lit c =>
        simp only [TokSep, Bool.and_eq_true] at hs
        simp only [fmtChars, List.length_cons] at hf
        rw [show fmtChars (FItem.lit c :: its) = c :: fmtChars its from rfl, tokenizeAux_lit f c _ hs.1,
          ih f (by omega) hs.2]
        rfl
      | tok t =>
        simp only [TokSep, Bool.and_eq_true] at hs
        obtain ⟨c0, t', e, n1, n2⟩ := tok_head t
        have hlen : (fmtChars its).length < f := by
          have : (fmtChars (FItem.tok t :: its)).length = t.str.toList.length + (fmtChars its).length := by
            simp [fmtChars]
          rw [this, e] at hf
          simp only [List.length_cons] at hf
          omega
        have hfa : firstAlt alts (t.str.toList ++ fmtChars its) = some t.str.toList := by
          apply firstAlt_append alts _ _ (tok_first t)
          intro c r' er
          have h1 := hs.1
          rw [er] at h1
          simp only [Bool.not_eq_true'] at h1
          exact nextBad_spec _ c h1
        rw [show fmtChars (FItem.tok t :: its) = t.str.toList ++ fmtChars its from rfl,
          tokenizeAux_tok f _ _ c0 t' e n1 n2 hfa, ih f hlen hs.2]
        rfl

theorem tokenize_class (its : List FItem) (h : TokSep its = true) : tokenize (fmtChars its) = its.map FItem.toItem :=
  tokenizeAux_class its _ (Nat.lt_succ_self _) h

end Pendulum.Fmt
