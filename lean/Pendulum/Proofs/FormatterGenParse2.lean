import Pendulum.Proofs.FormatterGenParse
/-! Tie of the generated `Formatter.parse` (pattern assembly, duplicate check, dispatch) and `pendulum.from_format` to
`Fmt.parseItems` / `Fmt.parse`. -/
set_option linter.unusedSimpArgs false
set_option linter.unusedVariables false
namespace Pendulum.FormatterGen
open Pendulum Pendulum.Fmt
open Pendulum.Gen.Formatter (bindE pyFor pyWhile hasKey dictGet FMatch Segs PatEl FPart LocArg PTok PDict VDict Time7 Ops PyQ)

/-! ### tokens of the tokenizer are alternatives of `_TOKENS` -/

theorem tokenizeAux_toks : ∀ (f : Nat) (s : Str) (t : Str), Item.tok t ∈ tokenizeAux f s → t ∈ alts := by
  intro f
  induction f with
  | zero => intro s t h; simp [tokenizeAux] at h
  | succ f ih =>
    intro s t h
    cases s with
    | nil => simp [tokenizeAux] at h
    | cons c rest =>
      have key : ∀ (l : List Item), (l = (match firstAlt alts (c :: rest) with
            | some a => Item.tok a :: tokenizeAux f ((c :: rest).drop a.length)
            | none => Item.lit [c] :: tokenizeAux f rest)) → Item.tok t ∈ l → t ∈ alts := by
        intro l hl hm
        subst hl
        cases hfa : firstAlt alts (c :: rest) with
        | none =>
          rw [hfa] at hm
          rcases List.mem_cons.1 hm with e | e
          · cases e
          · exact ih _ _ e
        | some a =>
          rw [hfa] at hm
          rcases List.mem_cons.1 hm with e | e
          · cases e
            exact List.mem_of_find?_eq_some hfa
          · exact ih _ _ e
      unfold tokenizeAux at h
      simp only at h
      split at h
      · split at h
        · rcases List.mem_cons.1 h with e | e
          · cases e
          · exact ih _ _ e
        · exact key _ rfl h
      · split at h
        · split at h
          · split at h
            · rcases List.mem_cons.1 h with e | e
              · cases e
              · exact ih _ _ e
            · exact key _ rfl h
          · exact key _ rfl h
        · exact key _ rfl h

theorem tokenize_toks (fmt : Str) (t : Str) (h : Item.tok t ∈ tokenize fmt) : String.ofList t ∈ Gen.Format.tokenAlts := by
  have := tokenizeAux_toks _ _ _ h
  unfold alts at this
  obtain ⟨s, hs, e⟩ := List.mem_map.1 this
  subst e
  simpa using hs

/-! ### the pattern -/

def itemsOfMs (ms : List FMatch) : List Item :=
  ms.flatMap (fun m => m.before.map (fun c => Item.lit [c]) ++ [itemOfMatch m])

def pieceOf (L : Loc) (m : FMatch) : PatEl :=
  match m.g3 with
  | none => PatEl.esc (Gen.Formatter.optOr m.g1 (Gen.Formatter.optOr m.g2 []))
  | some t => PatEl.group t (altsOf L t)

def patOfMs (L : Loc) (ms : List FMatch) : List PatEl := ms.flatMap (fun m => [PatEl.esc m.before, pieceOf L m])

theorem pelsOf_append (a b : List Item) : pelsOf (a ++ b) = pelsOf a ++ pelsOf b := by
  induction a with
  | nil => rfl
  | cons it a ih => cases it <;> simp [pelsOf, ih]

theorem pelsOf_lits (s : Str) : pelsOf (s.map (fun c => Item.lit [c])) = s.map PEl.lit := by
  induction s with
  | nil => rfl
  | cons c s ih => simp [pelsOf, ih]

theorem pelsOfPat_append (a b : List PatEl) : pelsOfPat (a ++ b) = pelsOfPat a ++ pelsOfPat b := by
  induction a with
  | nil => rfl
  | cons x a ih => cases x <;> simp [pelsOfPat, ih]

theorem pels_match (L : Loc) (m : FMatch) :
    pelsOfPat [PatEl.esc m.before, pieceOf L m] = pelsOf (m.before.map (fun c => Item.lit [c]) ++ [itemOfMatch m]) := by
  rw [pelsOf_append, pelsOf_lits]
  unfold pieceOf itemOfMatch
  cases m.g3 with
  | none => simp [pelsOfPat, pelsOf]
  | some t => simp [pelsOfPat, pelsOf]

theorem pels_pat (L : Loc) : ∀ ms : List FMatch, pelsOfPat (patOfMs L ms) = pelsOf (itemsOfMs ms) := by
  intro ms
  induction ms with
  | nil => rfl
  | cons m ms ih =>
    unfold patOfMs itemsOfMs at ih ⊢
    rw [List.flatMap_cons, List.flatMap_cons, pelsOfPat_append, pelsOf_append, ih, pels_match]

theorem elsOf_append (L : Loc) (a b : List PEl) :
    elsOf L (a ++ b) = match elsOf L a with
      | .error k => .error k
      | .ok ea => (match elsOf L b with | .error k => .error k | .ok eb => .ok (ea ++ eb)) := by
  induction a with
  | nil => simp [elsOf]; cases elsOf L b <;> rfl
  | cons x a ih =>
    cases x with
    | lit c =>
      simp only [List.cons_append, elsOf, ih]
      cases elsOf L a <;> simp [Except.map]
      cases elsOf L b <;> simp [Except.map]
    | tok t =>
      simp only [List.cons_append, elsOf, ih]
      cases groupOf L t with
      | error k => rfl
      | lens f =>
        simp only
        cases elsOf L a <;> simp [Except.map]
        cases elsOf L b <;> simp [Except.map]

theorem elsOf_lits (L : Loc) (s : Str) : elsOf L (s.map PEl.lit) = .ok (s.map litEl) := by
  induction s with
  | nil => rfl
  | cons c s ih => simp [elsOf, ih, Except.map]

section
variable (re : Str → Segs) (L : Loc) (find : String → Option Loc) (deflt : String) (now : Now)

/-- the body of the `finditer` loop of `parse` -/
def loopBody : List PatEl → FMatch → Except String (List PatEl) := fun pattern m =>
  let pattern : List PatEl := pattern ++ [(PatEl.esc m.before)]
  (match m.g3 with
  | none =>
    let pattern : List PatEl := pattern ++ [(PatEl.esc (Gen.Formatter.optOr m.g1 (Gen.Formatter.optOr m.g2 [])))]
    .ok pattern
  | some group3_2 =>
    bindE (Gen.Formatter.replace_tokens (refOps re L find deflt now) group3_2 L) fun r_3 =>
    let pattern : List PatEl := pattern ++ [r_3]
    .ok pattern)

theorem loop_eq (hL : L.pm = L.am → L.pmLower = L.amLower) (hN : NamesOk L) :
    ∀ (ms : List FMatch) (acc : List PatEl), (∀ m ∈ ms, ∀ t, m.g3 = some t → t ∈ Gen.Format.tokenAlts) →
      (pyFor ms acc (loopBody re L find deflt now) =
        match elsOf L (pelsOf (itemsOfMs ms)) with
        | .error k => .error k
        | .ok _ => .ok (acc ++ patOfMs L ms)) ∧
      ((∃ e, elsOf L (pelsOf (itemsOfMs ms)) = .ok e) → altsOk L (patOfMs L ms) = true) := by
  ftie "Pendulum.Props.C08.parse_source_eq_model" "the finditer loop of Formatter.parse / _replace_tokens" =>
    intro ms
    induction ms with
    | nil => intro acc _; exact ⟨by simp [pyFor, itemsOfMs, patOfMs, pelsOf, elsOf], fun _ => rfl⟩
    | cons m ms ih =>
      intro acc hm
      have hm' : ∀ x ∈ ms, ∀ t, x.g3 = some t → t ∈ Gen.Format.tokenAlts := fun x hx => hm x (by simp [hx])
      have e1 : itemsOfMs (m :: ms) = (m.before.map (fun c => Item.lit [c]) ++ [itemOfMatch m]) ++ itemsOfMs ms := by
        simp [itemsOfMs]
      have e2 : patOfMs L (m :: ms) = [PatEl.esc m.before, pieceOf L m] ++ patOfMs L ms := by
        simp [patOfMs]
      rw [e1, e2, pelsOf_append, elsOf_append, pelsOf_append, elsOf_append, pelsOf_lits, elsOf_lits]
      simp only [pyFor, loopBody]
      cases h3 : m.g3 with
      | none =>
        have hi : itemOfMatch m = Item.lit (Gen.Formatter.optOr m.g1 (Gen.Formatter.optOr m.g2 [])) := by
          simp [itemOfMatch, h3]
        have hp : pieceOf L m = PatEl.esc (Gen.Formatter.optOr m.g1 (Gen.Formatter.optOr m.g2 [])) := by
          simp [pieceOf, h3]
        obtain ⟨ih1, ih2⟩ := ih (acc ++ [PatEl.esc m.before] ++ [PatEl.esc (Gen.Formatter.optOr m.g1 (Gen.Formatter.optOr m.g2 []))]) hm'
        simp only [hi, hp, pelsOf, List.append_nil, elsOf_lits, bindE_ok]
        rw [ih1]
        constructor
        · cases elsOf L (pelsOf (itemsOfMs ms)) <;> simp
        · intro ⟨e, he⟩
          cases hr : elsOf L (pelsOf (itemsOfMs ms)) with
          | error k => rw [hr] at he; simp at he
          | ok er => simp [altsOk, ih2 ⟨er, hr⟩]
      | some t =>
        have hi : itemOfMatch m = Item.tok t.toList := by simp [itemOfMatch, h3]
        have hp : pieceOf L m = PatEl.group t (altsOf L t) := by simp [pieceOf, h3]
        have hr := replace_tokens_tie re L find deflt now hL hN t (hm m (by simp) t h3)
        unfold ReplOk at hr
        simp only [hi, hp, pelsOf, String.ofList_toList, elsOf]
        cases hg : groupOf L t with
        | error k =>
          rw [hg] at hr
          simp only at hr
          simp [hr]
        | lens f =>
          rw [hg] at hr
          simp only at hr
          obtain ⟨ih1, ih2⟩ := ih (acc ++ [PatEl.esc m.before] ++ [PatEl.group t (altsOf L t)]) hm'
          simp only [hr.1, bindE_ok, Except.map]
          rw [ih1]
          constructor
          · cases elsOf L (pelsOf (itemsOfMs ms)) <;> simp
          · intro ⟨e, he⟩
            cases hr2 : elsOf L (pelsOf (itemsOfMs ms)) with
            | error k => rw [hr2] at he; simp at he
            | ok er => simp [altsOk, ih2 ⟨er, hr2⟩, hr.2]
end

section
variable (re : Str → Segs) (L : Loc) (find : String → Option Loc) (deflt : String) (now : Now)

/-- hypotheses of the `parse` tie about the values the final match hands to `_get_parsed_value(s)` (statements about the
    regular-expression engine, here about the model's matcher): an `a` value is already lower-case, a `Do` value starts with a
    digit, a timestamp read by `X` / `x` has at most six fraction digits -/
def MatchOk (time : Str) (items : List Item) : Prop :=
  ∀ els ns, elsOf L (pelsOf items) = .ok els → dfs (fun s => s.isEmpty) els time = some ns →
    GroupsOk re L find deflt now (groupValues (pelsOf items) ns time) ∧
    ∀ p f, applyGroups L (groupValues (pelsOf items) ns time) {} = .ok p → p.timestamp = some f → 0 ≤ f.2 ∧ f.2 < 1000000

theorem parse_unfold (fuel : Nat) (time fmt : Str) (locale : Option String) :
    Gen.Formatter.parse (refOps re L find deflt now) fuel time fmt (DV.ofNow now) locale =
      if (!(!(List.isEmpty (re fmt).ms))) then .error "ValueError" else
      bindE ((refOps re L find deflt now).Locale_load (LocArg.ofOptName
        (if (!(Gen.Formatter.optStringTruthy locale)) then some deflt else locale))) fun loc =>
      bindE (pyFor (re fmt).ms [] (fun pattern m =>
        let pattern : List PatEl := pattern ++ [(PatEl.esc m.before)]
        (match m.g3 with
        | none =>
          let pattern : List PatEl := pattern ++ [(PatEl.esc (Gen.Formatter.optOr m.g1 (Gen.Formatter.optOr m.g2 [])))]
          (Except.ok pattern : Except String (List PatEl))
        | some group3_2 =>
          bindE (Gen.Formatter.replace_tokens (refOps re L find deflt now) group3_2 loc) fun r_3 =>
          let pattern : List PatEl := pattern ++ [r_3]
          .ok pattern))) fun pattern =>
      bindE (refFullmatch L (pattern ++ [PatEl.esc (re fmt).tail]) time) fun mo =>
      match mo with
      | none => .error "ValueError"
      | some m =>
        bindE (Gen.Formatter.get_parsed_values (refOps re L find deflt now) m {} loc (DV.ofNow now)) fun parsed =>
        Gen.Formatter.check_parsed (refOps re L find deflt now) fuel parsed (DV.ofNow now) := by
  ftie "Pendulum.Props.C08.parse_source_eq_model" "Formatter.parse" =>
    rfl

theorem parse_tie (fuel : Nat) (hf : 40000 ≤ fuel) (hnow : 1 ≤ now.year ∧ now.year ≤ 9999)
    (hL : L.pm = L.am → L.pmLower = L.amLower) (hN : NamesOk L)
    (time fmt : Str) (locale : Option String)
    (hloc : find (Gen.Formatter.optStringOr locale deflt) = some L)
    (hseg : SegsOk re fmt) (hne : (re fmt).ms = [] → (re fmt).tail = [])
    (hmatch : MatchOk re L find deflt now time (tokenize fmt)) :
    Gen.Formatter.parse (refOps re L find deflt now) fuel time fmt (DV.ofNow now) locale =
      mapE ofResult (Fmt.parse L time fmt now) := by
  ftie "Pendulum.Props.C08.parse_source_eq_model" "Formatter.parse" =>
    rw [parse_unfold]
    unfold Fmt.parse parseItems
    have hitems : tokenize fmt = itemsOfMs (re fmt).ms ++ (re fmt).tail.map (fun c => Item.lit [c]) := hseg.1.symm
    by_cases hempty : (re fmt).ms = []
    · have ht := hne hempty
      have : tokenize fmt = [] := by rw [hitems, hempty, ht]; rfl
      simp [hempty, this]
    · have hne1 : (re fmt).ms.isEmpty = false := by
        cases hh : (re fmt).ms with
        | nil => exact absurd hh hempty
        | cons _ _ => rfl
      have hne2 : (tokenize fmt).isEmpty = false := by
        rw [hitems]
        cases hh : (re fmt).ms with
        | nil => exact absurd hh hempty
        | cons m ms => simp [itemsOfMs]
      have hload : (refOps re L find deflt now).Locale_load (LocArg.ofOptName
          (if (!Gen.Formatter.optStringTruthy locale) = true then some deflt else locale)) = .ok L := by
        simp only [refOps_Locale_load]
        cases locale with
        | none => simp [Gen.Formatter.optStringTruthy, LocArg.ofOptName, Gen.Formatter.optStringOr] at hloc ⊢; simp [hloc]
        | some s =>
          by_cases hs : s = ""
          · subst hs; simp [Gen.Formatter.optStringTruthy, LocArg.ofOptName, Gen.Formatter.optStringOr] at hloc ⊢; simp [hloc]
          · simp [Gen.Formatter.optStringTruthy, LocArg.ofOptName, Gen.Formatter.optStringOr, hs] at hloc ⊢; simp [hloc]
      have htoks : ∀ m ∈ (re fmt).ms, ∀ t, m.g3 = some t → t ∈ Gen.Format.tokenAlts := by
        intro m hm t ht
        have : Item.tok t.toList ∈ tokenize fmt := by
          rw [hitems]
          apply List.mem_append_left
          unfold itemsOfMs
          rw [List.mem_flatMap]
          exact ⟨m, hm, by simp [itemOfMatch, ht]⟩
        simpa using tokenize_toks fmt _ this
      obtain ⟨hloop, halts⟩ := loop_eq re L find deflt now hL hN (re fmt).ms [] htoks
      unfold loopBody at hloop
      rw [hne1, hne2, hload]
      simp only [Bool.not_false, Bool.not_true, Bool.false_eq_true, if_false, bindE_ok]
      rw [hloop]
      have hpes : pelsOf (tokenize fmt) = pelsOf (itemsOfMs (re fmt).ms) ++ (re fmt).tail.map PEl.lit := by
        rw [hitems, pelsOf_append, pelsOf_lits]
      cases hels : elsOf L (pelsOf (itemsOfMs (re fmt).ms)) with
      | error k =>
        have : elsOf L (pelsOf (tokenize fmt)) = .error k := by rw [hpes, elsOf_append, hels]
        simp [this]
      | ok els =>
        have hels2 : elsOf L (pelsOf (tokenize fmt)) = .ok (els ++ (re fmt).tail.map litEl) := by
          rw [hpes, elsOf_append, hels, elsOf_lits]
        have hpat : pelsOfPat (patOfMs L (re fmt).ms ++ [PatEl.esc (re fmt).tail]) = pelsOf (tokenize fmt) := by
          rw [pelsOfPat_append, pels_pat, hpes]; simp [pelsOfPat]
        have halt : altsOk L (patOfMs L (re fmt).ms ++ [PatEl.esc (re fmt).tail]) = true := by
          have h0 := halts ⟨els, hels⟩
          have : ∀ (a b : List PatEl), altsOk L a = true → altsOk L b = true → altsOk L (a ++ b) = true := by
            intro a b ha hb
            induction a with
            | nil => exact hb
            | cons x a ih =>
              cases x with
              | esc t => simp only [List.cons_append, altsOk] at ha ⊢; exact ih ha
              | raw t => simp only [List.cons_append, altsOk] at ha ⊢; exact ih ha
              | group n al =>
                simp only [List.cons_append, altsOk, Bool.and_eq_true] at ha ⊢
                exact ⟨ha.1, ih ha.2⟩
          exact this _ _ h0 rfl
        simp only [bindE_ok, List.nil_append, refFullmatch, halt, Bool.not_true, Bool.false_eq_true, if_false, hpat, hels2]
        by_cases hdup : hasDup (List.filterMap PEl.tokName? (pelsOf (tokenize fmt))) = true
        · simp [hdup]
        · simp only [hdup, Bool.false_eq_true, if_false]
          cases hd : dfs (fun s => s.isEmpty) (els ++ (re fmt).tail.map litEl) time with
          | none => simp
          | some ns =>
            simp only [bindE_ok]
            obtain ⟨hg, hts⟩ := hmatch _ ns hels2 hd
            have hgv := get_parsed_values_tie re L find deflt now hL (groupValues (pelsOf (tokenize fmt)) ns time) {} hg
            have h0 : toParsed ({} : PDict (Int × Int) TzP) = {} := rfl
            rw [h0] at hgv
            cases hgp : Gen.Formatter.get_parsed_values (refOps re L find deflt now)
                (groupValues (pelsOf (tokenize fmt)) ns time) {} L (DV.ofNow now) with
            | error e =>
              rw [hgp] at hgv
              simp only [mapE_error] at hgv
              simp [← hgv]
            | ok g' =>
              rw [hgp] at hgv
              simp only [mapE_ok] at hgv
              simp only [bindE_ok, ← hgv]
              exact check_parsed_tie re L find deflt now fuel g' hf hnow
                (fun f hf' => hts (toParsed g') f hgv.symm (by simpa using hf'))

/-- `pendulum.from_format(string, fmt, tz, locale)` as the model has it: `Formatter.parse` with `now = pendulum.now(tz)`,
    the `tz` argument where the string carried no zone, then the constructor -/
def fromFormatSpec (L : Loc) (string fmt : Str) (tz : TzP) (now : Now) : Except String DV :=
  mapE (fun r => DV.made (ofResult { r with tz := some (r.tz.getD tz) })) (Fmt.parse L string fmt now)

theorem from_format_tie (fuel : Nat) (hf : 40000 ≤ fuel) (hnow : 1 ≤ now.year ∧ now.year ≤ 9999)
    (hL : L.pm = L.am → L.pmLower = L.amLower) (hN : NamesOk L)
    (string fmt : Str) (tz : TzP) (locale : Option String)
    (hloc : find (Gen.Formatter.optStringOr locale deflt) = some L)
    (hseg : SegsOk re fmt) (hne : (re fmt).ms = [] → (re fmt).tail = [])
    (hmatch : MatchOk re L find deflt now string (tokenize fmt)) :
    Gen.Formatter.from_format (refOps re L find deflt now) fuel string fmt tz locale =
      fromFormatSpec L string fmt tz now := by
  ftie "Pendulum.Props.C08.from_format_wrapper_source_eq_model" "pendulum.from_format" =>
    unfold Gen.Formatter.from_format fromFormatSpec
    simp only [refOps_pendulum_now, bindE_ok, refOps_pendulum_datetime_kw]
    rw [parse_tie re L find deflt now fuel hf hnow hL hN string fmt locale hloc hseg hne hmatch]
    cases Fmt.parse L string fmt now with
    | error e => rfl
    | ok r =>
      simp only [mapE_ok, bindE_ok]
      cases hr : r.tz <;> simp [ofResult, hr]
end

/-! ### the hypotheses are satisfiable -/

/-- `SegsOk` for the segmentation read off the model's tokenizer -/
theorem refSegs_ok (fmt : Str) : SegsOk (fun f => refSegs (tokenize f)) fmt := by
  have h1 : ∀ items : List Item, itemsOfSegs (refSegs items) = items := by
    intro items
    unfold itemsOfSegs refSegs
    simp only [List.map_nil, List.append_nil]
    induction items with
    | nil => rfl
    | cons it items ih =>
      simp only [List.map_cons, List.flatMap_cons, ih]
      cases it with
      | lit s =>
        simp only [List.map_nil, List.nil_append, itemOfMatch, List.singleton_append, List.cons.injEq, and_true]
        cases s with
        | nil => rfl
        | cons c s => rfl
      | tok t => simp [itemOfMatch]
  refine ⟨h1 _, ?_⟩
  intro m hm
  unfold refSegs at hm
  simp only [List.mem_map] at hm
  obtain ⟨it, _, e⟩ := hm
  cases it with
  | lit s => left; rw [← e]
  | tok t => right; rw [← e]; exact ⟨rfl, rfl⟩

theorem refSegs_tail (fmt : Str) : (refSegs (tokenize fmt)).ms = [] → (refSegs (tokenize fmt)).tail = [] := fun _ => rfl

end Pendulum.FormatterGen
