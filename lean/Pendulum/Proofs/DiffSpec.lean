import Pendulum.Proofs.Diff
/-! Specification-side definitions for C18 (what "largest non-zero unit", "elapsed time" and "distinct markers" mean)
and the decidable table checks for markers and locale tokens. -/
namespace Pendulum.Loc

/-- the components of an absolute difference -/
def NonNeg (c : Comps) : Prop :=
  0 ≤ c.years ∧ 0 ≤ c.months ∧ 0 ≤ c.weeks ∧ 0 ≤ c.days ∧ 0 ≤ c.hours ∧ 0 ≤ c.minutes ∧ 0 ≤ c.seconds

/-- canonical components as `precise_diff` / `Duration` normalisation produce them -/
def Canon (c : Comps) : Prop :=
  NonNeg c ∧ c.months ≤ 11 ∧ c.days ≤ 6 ∧ c.hours ≤ 23 ∧ c.minutes ≤ 59 ∧ c.seconds ≤ 59

/-- the largest non-zero component (seconds only count from 1 s on) -/
def lead (c : Comps) : Option (TUnit × Int) :=
  if c.years ≠ 0 then some (.year, c.years)
  else if c.months ≠ 0 then some (.month, c.months)
  else if c.weeks ≠ 0 then some (.week, c.weeks)
  else if c.days ≠ 0 then some (.day, c.days)
  else if c.hours ≠ 0 then some (.hour, c.hours)
  else if c.minutes ≠ 0 then some (.minute, c.minutes)
  else if c.seconds ≠ 0 then some (.second, c.seconds)
  else none

theorem lead_year {c : Comps} (h : c.years ≠ 0) : lead c = some (.year, c.years) := by
  simp [lead, h]
theorem lead_month {c : Comps} (h0 : c.years = 0) (h : c.months ≠ 0) : lead c = some (.month, c.months) := by
  simp [lead, h0, h]
theorem lead_week {c : Comps} (h0 : c.years = 0) (h1 : c.months = 0) (h : c.weeks ≠ 0) :
    lead c = some (.week, c.weeks) := by
  simp [lead, h0, h1, h]
theorem lead_day {c : Comps} (h0 : c.years = 0) (h1 : c.months = 0) (h2 : c.weeks = 0) (h : c.days ≠ 0) :
    lead c = some (.day, c.days) := by
  simp [lead, h0, h1, h2, h]
theorem lead_hour {c : Comps} (h0 : c.years = 0) (h1 : c.months = 0) (h2 : c.weeks = 0) (h3 : c.days = 0)
    (h : c.hours ≠ 0) : lead c = some (.hour, c.hours) := by
  simp [lead, h0, h1, h2, h3, h]
theorem lead_minute {c : Comps} (h0 : c.years = 0) (h1 : c.months = 0) (h2 : c.weeks = 0) (h3 : c.days = 0)
    (h4 : c.hours = 0) (h : c.minutes ≠ 0) : lead c = some (.minute, c.minutes) := by
  simp [lead, h0, h1, h2, h3, h4, h]
theorem lead_second {c : Comps} (h0 : c.years = 0) (h1 : c.months = 0) (h2 : c.weeks = 0) (h3 : c.days = 0)
    (h4 : c.hours = 0) (h5 : c.minutes = 0) (h : c.seconds ≠ 0) : lead c = some (.second, c.seconds) := by
  simp [lead, h0, h1, h2, h3, h4, h5, h]

/-- elapsed seconds of the fixed-length part -/
def elapsed (c : Comps) : Int :=
  ((c.weeks * 7 + c.days) * 24 + c.hours) * 3600 + c.minutes * 60 + c.seconds

/-- length in seconds of the fixed-length units (calendar units: see `within_one_unit_calendar`) -/
def unitSecs : TUnit → Int
  | .week => 604800 | .day => 86400 | .hour => 3600 | .minute => 60 | .second => 1
  | .year => 0 | .month => 0

/-! ### markers are visible: past/future, before/after, ago/from_now templates differ -/

def tmplNe (a b : Step) : Bool :=
  match a, b with
  | .ok x, .ok y => x != y
  | _, _ => false

def optTmplNe (ℓ : Locale) (p q : List String) : Bool :=
  match ℓ.get p, ℓ.get q with
  | .ok none, .ok none => true                    -- neither exists (the locale does not use them)
  | _, _ => tmplNe (tmplAt ℓ p) (tmplAt ℓ q)

def markersOK (ℓ : Locale) : Bool :=
  (unitNames.all fun u => ℓ.pluralClasses.all fun pc =>
    tmplNe (tmplAt ℓ ["translations", "relative", u, "future", pc]) (tmplAt ℓ ["translations", "relative", u, "past", pc]))
  && tmplNe (tmplAt ℓ ["custom", "after"]) (tmplAt ℓ ["custom", "before"])
  && optTmplNe ℓ ["custom", "from_now"] ["custom", "ago"]

/-! ### locale tokens -/

/-- ok and non-empty -/
def Rendered (r : Except Err Str) : Prop := ∃ s, r = .ok s ∧ s ≠ []

def renderedB (r : Except Err Str) : Bool :=
  match r with
  | .ok s => !s.isEmpty
  | .error _ => false

theorem rendered_of_B {r : Except Err Str} (h : renderedB r = true) : Rendered r := by
  cases r with
  | error e => simp [renderedB] at h
  | ok s =>
    refine ⟨s, rfl, ?_⟩
    intro hs; simp [renderedB, hs] at h

def months12 : List Int := [1, 2, 3, 4, 5, 6, 7, 8, 9, 10, 11, 12]
def days7 : List Int := [0, 1, 2, 3, 4, 5, 6]

/-- `custom.ordinal.<class>` is absent / empty / a plain string, for every class the `ordinal` lambda can return -/
def ordOK (ℓ : Locale) : Bool :=
  ℓ.ordinalClasses.all fun oc =>
    match ℓ.get ["custom", "ordinal", oc] with
    | .error _ => false
    | .ok o => falsy o || (match o with | some (.str _) => true | _ => false)

def namesOK (ℓ : Locale) : Bool :=
  (months12.all fun m => renderedB (nameAt ℓ ["translations", "months", "abbreviated"] m)
                       && renderedB (nameAt ℓ ["translations", "months", "wide"] m))
  && (days7.all fun d => renderedB (nameAt ℓ ["translations", "days", "short"] d)
                       && renderedB (nameAt ℓ ["translations", "days", "abbreviated"] d)
                       && renderedB (nameAt ℓ ["translations", "days", "wide"] d))

def tokOK (ℓ : Locale) : Bool :=
  ordOK ℓ && namesOK ℓ
  && (match firstDay ℓ with | .ok _ => true | .error _ => false)
  && (["am", "pm"].all fun k =>
        match ℓ.get ["translations", "day_periods", k] with
        | .ok (some n) => renderedB (nodeStr n)
        | _ => false)

theorem ordinalize_rendered {ℓ : Locale} (hOK : ordOK ℓ = true) (hr : ∀ n, ℓ.ordinal n ∈ ℓ.ordinalClasses) (n : Int) :
    Rendered (ordinalize ℓ n) := by
  have h := List.all_eq_true.mp hOK _ (hr n)
  unfold ordinalize
  cases hg : ℓ.get ["custom", "ordinal", ℓ.ordinal n] with
  | error e => simp [hg] at h
  | ok o =>
    simp only [hg, Bool.or_eq_true] at h
    simp only
    by_cases hf : falsy o = true
    · simp only [hf, if_true]
      exact ⟨_, rfl, showInt_ne_nil n⟩
    · simp only [hf, Bool.false_eq_true, if_false]
      rcases h with h | h
      · exact absurd h hf
      · match o, h with
        | some (.str s), _ =>
          refine ⟨_, rfl, ?_⟩
          simp only [ne_eq, List.append_eq_nil_iff, not_and]
          intro h0; exact absurd h0 (showInt_ne_nil n)

theorem mem_months12 {m : Int} (h : 1 ≤ m ∧ m ≤ 12) : m ∈ months12 := by
  have : m = 1 ∨ m = 2 ∨ m = 3 ∨ m = 4 ∨ m = 5 ∨ m = 6 ∨ m = 7 ∨ m = 8 ∨ m = 9 ∨ m = 10 ∨ m = 11 ∨ m = 12 := by omega
  simp only [months12, List.mem_cons, List.not_mem_nil, or_false]
  exact this

theorem mem_days7 {d : Int} (h : 0 ≤ d ∧ d ≤ 6) : d ∈ days7 := by
  have : d = 0 ∨ d = 1 ∨ d = 2 ∨ d = 3 ∨ d = 4 ∨ d = 5 ∨ d = 6 := by omega
  simp only [days7, List.mem_cons, List.not_mem_nil, or_false]
  exact this

theorem formatToken_rendered {ℓ : Locale} (hOK : tokOK ℓ = true) (hr : ∀ n, ℓ.ordinal n ∈ ℓ.ordinalClasses)
    {tok : String} (ht : tok ∈ locTokens) (a : TokArgs)
    (hm : 1 ≤ a.month ∧ a.month ≤ 12) (hd : 0 ≤ a.dayOfWeek ∧ a.dayOfWeek ≤ 6) :
    Rendered (formatToken ℓ tok a) := by
  simp only [tokOK, Bool.and_eq_true] at hOK
  obtain ⟨⟨⟨hord, hnames⟩, hfd⟩, hap⟩ := hOK
  simp only [namesOK, Bool.and_eq_true] at hnames
  have hmo := List.all_eq_true.mp hnames.1 _ (mem_months12 hm)
  have hda := List.all_eq_true.mp hnames.2 _ (mem_days7 hd)
  simp only [Bool.and_eq_true] at hmo hda
  have hO := fun n => ordinalize_rendered hord hr n
  simp only [locTokens, List.mem_cons, List.not_mem_nil, or_false] at ht
  rcases ht with rfl | rfl | rfl | rfl | rfl | rfl | rfl | rfl | rfl | rfl | rfl | rfl | rfl | rfl
  · exact rendered_of_B hmo.1
  · exact rendered_of_B hmo.2
  · exact rendered_of_B hda.1.1
  · exact rendered_of_B hda.1.2
  · exact rendered_of_B hda.2
  · show Rendered (match firstDay ℓ with | .error e => .error e | .ok fd => .ok (showInt ((a.dayOfWeek % 7 - fd) % 7)))
    cases hf : firstDay ℓ with
    | error e => simp [hf] at hfd
    | ok fd => exact ⟨_, rfl, showInt_ne_nil _⟩
  · exact hO _
  · exact hO _
  · exact hO _
  · exact hO _
  · exact hO _
  · exact hO _
  · show Rendered (match firstDay ℓ with | .error e => .error e | .ok fd => ordinalize ℓ ((a.dayOfWeek % 7 - fd) % 7 + 1))
    cases hf : firstDay ℓ with
    | error e => simp [hf] at hfd
    | ok fd => exact hO _
  · show Rendered (match ℓ.get ["translations", "day_periods", if a.hour ≥ 12 then "pm" else "am"] with
        | .error e => .error e | .ok (some n) => nodeStr n | .ok none => .error .modelGap)
    have hk : (if a.hour ≥ 12 then "pm" else "am") ∈ ["am", "pm"] := by
      by_cases h : a.hour ≥ 12 <;> simp [h]
    have := List.all_eq_true.mp hap _ hk
    cases hg : ℓ.get ["translations", "day_periods", if a.hour ≥ 12 then "pm" else "am"] with
    | error e => simp [hg] at this
    | ok o =>
      cases o with
      | none => simp [hg] at this
      | some n =>
        simp only [hg] at this
        exact rendered_of_B this

/-! ### name tables are injective (needed to parse names back: C08) -/

def isStr (s : String) (n : Node) : Bool :=
  match n with
  | .str t => t == s
  | _ => false

/-- all values are strings and no string occurs twice -/
def valuesNodup : List (String × Node) → Bool
  | [] => true
  | (_, .str s) :: r => !(r.any fun p => isStr s p.2) && valuesNodup r
  | _ => false

theorem any_of_lookup {kvs : List (String × Node)} {k s : String} (h : lookup k kvs = some (.str s)) :
    (kvs.any fun p => isStr s p.2) = true := by
  induction kvs with
  | nil => simp [lookup] at h
  | cons p r ih =>
    obtain ⟨k', v⟩ := p
    simp only [lookup] at h
    simp only [List.any_cons, Bool.or_eq_true]
    by_cases hk : (k' == k) = true
    · simp only [hk, if_true, Option.some.injEq] at h
      left; simp [h, isStr]
    · simp only [hk, Bool.false_eq_true, if_false] at h
      right; exact ih h

theorem lookup_inj {kvs : List (String × Node)} (hn : valuesNodup kvs = true) {k1 k2 s : String}
    (h1 : lookup k1 kvs = some (.str s)) (h2 : lookup k2 kvs = some (.str s)) : k1 = k2 := by
  induction kvs with
  | nil => simp [lookup] at h1
  | cons p r ih =>
    obtain ⟨k, v⟩ := p
    cases v with
    | str t =>
      simp only [valuesNodup, Bool.and_eq_true, Bool.not_eq_true'] at hn
      simp only [lookup] at h1 h2
      by_cases e1 : (k == k1) = true <;> by_cases e2 : (k == k2) = true
      · have a := eq_of_beq e1; have b := eq_of_beq e2; rw [← a, ← b]
      · simp only [e1, if_true, Option.some.injEq, Node.str.injEq] at h1
        simp only [e2, Bool.false_eq_true, if_false] at h2
        have := any_of_lookup h2
        rw [h1] at hn
        rw [hn.1] at this; exact absurd this (by simp)
      · simp only [e2, if_true, Option.some.injEq, Node.str.injEq] at h2
        simp only [e1, Bool.false_eq_true, if_false] at h1
        have := any_of_lookup h1
        rw [h2] at hn
        rw [hn.1] at this; exact absurd this (by simp)
      · simp only [e1, e2, Bool.false_eq_true, if_false] at h1 h2
        exact ih hn.2 h1 h2
    | tmpl _ => simp [valuesNodup] at hn
    | int _ => simp [valuesNodup] at hn
    | dict _ => simp [valuesNodup] at hn

def nameTables : List (List String) :=
  [["translations", "months", "wide"], ["translations", "months", "abbreviated"],
   ["translations", "days", "wide"], ["translations", "days", "abbreviated"], ["translations", "days", "short"]]

def namesInjOK (ℓ : Locale) : Bool :=
  nameTables.all fun path =>
    match ℓ.get path with
    | .ok (some (.dict kvs)) => valuesNodup kvs
    | _ => false

end Pendulum.Loc
