import Pendulum.Gen.StartOf
import Pendulum.Proofs.StartOfCal
import Pendulum.Proofs.GenTie
/-! Tie between the *generated* translation of the unit-boundary methods of datetime.py / date.py
(`Pendulum.Gen.StartOf`, regenerated from the source on every run by tools/gen_startof.py) and the hand model
`Pendulum.StartOf` (Model/StartOf.lean) the C12 theorems are stated about.

`inst` is the reading of the generated parameter record `Inst` for a model value: the fields are the civil fields of
the wall value, `utcoffset` is the zone table's `woff`, `weekday_at` / `date_add_days` are ordinal arithmetic,
`monthrange1` is the reference calendar's `daysInMonth`. Under that reading every generated definition is proved equal
to its model counterpart for ALL wall values, folds, zones and week configurations (the `Date` week units, which run
the `while` loops of `Date.next/previous`, need `0 ≤ _WEEK_STARTS_AT/_WEEK_ENDS_AT ≤ 6` and an iteration bound ≥ 6).
No proof ends in `rfl` over a whole generated body, so a behaviour-preserving rewrite of the source keeps them valid. -/
set_option linter.unusedSimpArgs false
namespace Pendulum.StartOfGen
open Pendulum Pendulum.Cal Pendulum.AddDur Pendulum.Zone Pendulum.DTOps Pendulum.StartOf
open Pendulum.Gen.StartOf

/-- time of day in µs of (hour, minute, second, microsecond) -/
def todOf (h mi s us : Int) : Int := ((h * 60 + mi) * 60 + s) * 1000000 + us

/-- the generated parameter record for an instance with civil fields (y, m, d, time of day t), zone `z`, fold and the
    global week configuration -/
def instF (z : ZRef) (y m d t : Int) (fold : Bool) (wks wke : Int) : Inst where
  year := y
  month := m
  day := d
  hour := t / HOUR
  minute := t % HOUR / MINUTE
  second := t % MINUTE / US
  microsecond := t % US
  fold := fold
  hasTz := match z with | .naive => false | _ => true
  utcoffset := fun fl y' m' d' h mi s us =>
    match z.table with
    | some zt => zt.woff fl (fieldsToWall y' m' d' (todOf h mi s us))
    | none => 0
  weekday_at := fun n => dow (ymd2ord y m d + n)
  monthrange1 := daysInMonth
  date_add_days := fun n => ord2ymd (ymd2ord y m d + n)
  week_starts_at := wks
  week_ends_at := wke

/-- … for a DateTime value of the model (zone, wall µs, fold) -/
def inst (x : V) (wks wke : Int) : Inst :=
  instF x.z (wallToFields x.w).1 (wallToFields x.w).2.1 (wallToFields x.w).2.2.1 (wallToFields x.w).2.2.2 x.fold wks wke

/-- … for a Date given by its proleptic ordinal -/
def instD (o : Int) (wks wke : Int) : Inst :=
  instF .naive (ord2ymd o).1 (ord2ymd o).2.1 (ord2ymd o).2.2 0 false wks wke

/-- the wall value a `create(...)` request denotes -/
def callWall (c : Call) : Int := fieldsToWall c.year c.month c.day (todOf c.hour c.minute c.second c.microsecond)

/-- the wall value (midnight) of the Date a Date-level request denotes, for the instance with ordinal `o` -/
def resWall (o : Int) : DateRes → Int
  | .new y m d => fieldsToWall y m d 0
  | .shift n => ordWall (o + n)

def unitName : U → String
  | .second => "second" | .minute => "minute" | .hour => "hour" | .day => "day" | .week => "week"
  | .month => "month" | .year => "year" | .decade => "decade" | .century => "century"

theorem ofString_unitName (u : U) : U.ofString? (unitName u) = some u := by cases u <;> rfl

/-! ### `set`, `_boundary` -/

/-- `DateTime.set`: every field is the argument when given, the instance's own otherwise; the fold is the instance's -/
theorem set_eq (I : Inst) (oy om od oh omi os ous : Option Int) :
    dt_set I oy om od oh omi os ous =
      ⟨oy.getD I.year, om.getD I.month, od.getD I.day, oh.getD I.hour, omi.getD I.minute, os.getD I.second,
       ous.getD I.microsecond, I.fold⟩ := by
  gen_tie "Pendulum.StartOfGen.set_eq" "Gen/StartOf.lean (regenerated from datetime.py / date.py)" =>
    simp only [dt_set]

theorem fixed_woff (off : Int) (f : Bool) (T : Int) : (fixedZ off).woff f T = off := by
  gen_tie "Pendulum.StartOfGen.fixed_woff" "Gen/StartOf.lean (regenerated from datetime.py / date.py)" =>
    simp only [fixedZ, Z.woff, wallOff]

/-- `_boundary(year, month, day, last)`: the requested wall time is 00:00:00.000000 / 23:59:59.999999 of that day and the
    fold handed to `create` is the model's `edgeFold` -/
theorem boundary_eq (z : ZRef) (y0 m0 d0 t0 : Int) (fold : Bool) (wks wke y m d : Int) (last : Bool) :
    (dt_boundary (instF z y0 m0 d0 t0 fold wks wke) y m d last).year = y ∧
    (dt_boundary (instF z y0 m0 d0 t0 fold wks wke) y m d last).month = m ∧
    (dt_boundary (instF z y0 m0 d0 t0 fold wks wke) y m d last).day = d ∧
    todOf (dt_boundary (instF z y0 m0 d0 t0 fold wks wke) y m d last).hour
          (dt_boundary (instF z y0 m0 d0 t0 fold wks wke) y m d last).minute
          (dt_boundary (instF z y0 m0 d0 t0 fold wks wke) y m d last).second
          (dt_boundary (instF z y0 m0 d0 t0 fold wks wke) y m d last).microsecond = (if last then DAY - 1 else 0) ∧
    (dt_boundary (instF z y0 m0 d0 t0 fold wks wke) y m d last).fold =
      edgeFold z (fieldsToWall y m d (if last then DAY - 1 else 0)) last fold := by
  gen_tie "Pendulum.StartOfGen.boundary_eq" "Gen/StartOf.lean (regenerated from datetime.py / date.py)" =>
    refine ⟨?_, ?_, ?_, ?_, ?_⟩
    · simp only [dt_boundary]
    · simp only [dt_boundary]
    · simp only [dt_boundary]
    · cases last <;> simp [dt_boundary, todOf, DAY]
    · cases last <;> cases z <;>
        simp [dt_boundary, instF, edgeFold, ZRef.table, fixed_woff, todOf, DAY]

theorem boundary_wall (z : ZRef) (y0 m0 d0 t0 : Int) (fold : Bool) (wks wke y m d : Int) (last : Bool) :
    callWall (dt_boundary (instF z y0 m0 d0 t0 fold wks wke) y m d last) =
      fieldsToWall y m d (if last then DAY - 1 else 0) := by
  gen_tie "Pendulum.StartOfGen.boundary_wall" "Gen/StartOf.lean (regenerated from datetime.py / date.py)" =>
    obtain ⟨a, b, c, e, _⟩ := boundary_eq z y0 m0 d0 t0 fold wks wke y m d last
    simp only [callWall, a, b, c, e]

/-! ### the per-unit requests -/

/-- the method the dispatcher reaches for a unit -/
def startCall (I : Inst) : U → Call
  | .second => dt_start_of_second I | .minute => dt_start_of_minute I | .hour => dt_start_of_hour I
  | .day => dt_start_of_day I | .week => dt_start_of_week I | .month => dt_start_of_month I
  | .year => dt_start_of_year I | .decade => dt_start_of_decade I | .century => dt_start_of_century I

def endCall (I : Inst) : U → Call
  | .second => dt_end_of_second I | .minute => dt_end_of_minute I | .hour => dt_end_of_hour I
  | .day => dt_end_of_day I | .week => dt_end_of_week I | .month => dt_end_of_month I
  | .year => dt_end_of_year I | .decade => dt_end_of_decade I | .century => dt_end_of_century I

theorem dow_range' (o : Int) : 0 ≤ StartOf.dow o ∧ StartOf.dow o ≤ 6 := by unfold StartOf.dow; omega

theorem fw_ord (k : Int) (t : Int) :
    fieldsToWall (ord2ymd k).1 (ord2ymd k).2.1 (ord2ymd k).2.2 t = ordWall k + t := by
  gen_tie "Pendulum.StartOfGen.fw_ord" "Gen/StartOf.lean (regenerated from datetime.py / date.py)" =>
    simp only [fieldsToWall, ordWall, (ymd2ord_ord2ymd k).1]

/-- the wall label requested by `_start_of_<unit>` is the model's `lo` -/
theorem start_label (u : U) (z : ZRef) (w : Int) (fold : Bool) (wks wke : Int) :
    callWall (startCall (inst ⟨z, w, fold⟩ wks wke) u) = lo u wks w := by
  gen_tie "Pendulum.StartOfGen.start_label" "Gen/StartOf.lean (regenerated from datetime.py / date.py)" =>
    unfold lo inst
    rw [wallToFields_eq]
    simp only []
    cases u <;> simp only [startCall]
    case second => simp only [dt_start_of_second, set_eq, callWall, instF, Option.getD, todOf]; congr 1; simp only [HOUR, MINUTE, US]; omega
    case minute => simp only [dt_start_of_minute, set_eq, callWall, instF, Option.getD, todOf]; congr 1; simp only [HOUR, MINUTE, US]; omega
    case hour => simp only [dt_start_of_hour, set_eq, callWall, instF, Option.getD, todOf]; congr 1; simp only [HOUR, MINUTE, US]; omega
    case day => simp only [dt_start_of_day, boundary_wall]; simp [instF]
    case month => simp only [dt_start_of_month, boundary_wall]; simp [instF]
    case year => simp only [dt_start_of_year, boundary_wall]; simp [instF]
    case decade => simp only [dt_start_of_decade, boundary_wall]; simp [instF, decadeStart]
    case century => simp only [dt_start_of_century, boundary_wall]; simp [instF, centuryStart]
    case week =>
      simp only [dt_start_of_week, boundary_wall]
      simp only [instF, fw_ord, Bool.false_eq_true, if_false, StartOf.dow]
      simp only [ordWall, DAY, epochOrd]; omega

/-- the wall label requested by `_end_of_<unit>` is the model's `hi` -/
theorem end_label (u : U) (z : ZRef) (w : Int) (fold : Bool) (wks wke : Int) :
    callWall (endCall (inst ⟨z, w, fold⟩ wks wke) u) = hi u wke w := by
  gen_tie "Pendulum.StartOfGen.end_label" "Gen/StartOf.lean (regenerated from datetime.py / date.py)" =>
    unfold hi inst
    rw [wallToFields_eq]
    simp only []
    cases u <;> simp only [endCall]
    case second => simp only [dt_end_of_second, set_eq, callWall, instF, Option.getD, todOf]; congr 1; simp only [HOUR, MINUTE, US]; omega
    case minute => simp only [dt_end_of_minute, set_eq, callWall, instF, Option.getD, todOf]; congr 1; simp only [HOUR, MINUTE, US]; omega
    case hour => simp only [dt_end_of_hour, set_eq, callWall, instF, Option.getD, todOf]; congr 1; simp only [HOUR, MINUTE, US]; omega
    case day => simp only [dt_end_of_day, boundary_wall]; simp [instF]
    case month => simp only [dt_end_of_month, boundary_wall]; simp [instF, days_in_month]
    case year => simp only [dt_end_of_year, boundary_wall]; simp [instF]
    case decade => simp only [dt_end_of_decade, boundary_wall]; simp [instF, decadeStart]; congr 1; omega
    case century => simp only [dt_end_of_century, boundary_wall]; simp [instF, centuryStart]; congr 1; omega
    case week =>
      simp only [dt_end_of_week, boundary_wall]
      simp only [instF, fw_ord, if_true, StartOf.dow]
      simp only [ordWall, DAY, epochOrd]; omega

/-- the fold handed to `create`: the instance's own for the `set`-based units, `edgeFold` for the `_boundary` ones -/
theorem start_fold (u : U) (z : ZRef) (w : Int) (fold : Bool) (wks wke : Int) :
    (startCall (inst ⟨z, w, fold⟩ wks wke) u).fold =
      if u.subDay then fold else edgeFold z (lo u wks w) false fold := by
  gen_tie "Pendulum.StartOfGen.start_fold" "Gen/StartOf.lean (regenerated from datetime.py / date.py)" =>
    have hl := start_label u z w fold wks wke
    unfold inst at *
    cases u <;> simp only [startCall, U.subDay, if_true, Bool.false_eq_true, if_false] at *
    case second => simp only [dt_start_of_second, set_eq, instF]
    case minute => simp only [dt_start_of_minute, set_eq, instF]
    case hour => simp only [dt_start_of_hour, set_eq, instF]
    all_goals
      rw [← hl]
      first
      | (simp only [dt_start_of_day]; rw [boundary_wall]; exact (boundary_eq _ _ _ _ _ _ _ _ _ _ _ _).2.2.2.2)
      | (simp only [dt_start_of_week]; rw [boundary_wall]; exact (boundary_eq _ _ _ _ _ _ _ _ _ _ _ _).2.2.2.2)
      | (simp only [dt_start_of_month]; rw [boundary_wall]; exact (boundary_eq _ _ _ _ _ _ _ _ _ _ _ _).2.2.2.2)
      | (simp only [dt_start_of_year]; rw [boundary_wall]; exact (boundary_eq _ _ _ _ _ _ _ _ _ _ _ _).2.2.2.2)
      | (simp only [dt_start_of_decade]; rw [boundary_wall]; exact (boundary_eq _ _ _ _ _ _ _ _ _ _ _ _).2.2.2.2)
      | (simp only [dt_start_of_century]; rw [boundary_wall]; exact (boundary_eq _ _ _ _ _ _ _ _ _ _ _ _).2.2.2.2)

theorem end_fold (u : U) (z : ZRef) (w : Int) (fold : Bool) (wks wke : Int) :
    (endCall (inst ⟨z, w, fold⟩ wks wke) u).fold =
      if u.subDay then fold else edgeFold z (hi u wke w) true fold := by
  gen_tie "Pendulum.StartOfGen.end_fold" "Gen/StartOf.lean (regenerated from datetime.py / date.py)" =>
    have hl := end_label u z w fold wks wke
    unfold inst at *
    cases u <;> simp only [endCall, U.subDay, if_true, Bool.false_eq_true, if_false] at *
    case second => simp only [dt_end_of_second, set_eq, instF]
    case minute => simp only [dt_end_of_minute, set_eq, instF]
    case hour => simp only [dt_end_of_hour, set_eq, instF]
    all_goals
      rw [← hl]
      first
      | (simp only [dt_end_of_day]; rw [boundary_wall]; exact (boundary_eq _ _ _ _ _ _ _ _ _ _ _ _).2.2.2.2)
      | (simp only [dt_end_of_week]; rw [boundary_wall]; exact (boundary_eq _ _ _ _ _ _ _ _ _ _ _ _).2.2.2.2)
      | (simp only [dt_end_of_month]; rw [boundary_wall]; exact (boundary_eq _ _ _ _ _ _ _ _ _ _ _ _).2.2.2.2)
      | (simp only [dt_end_of_year]; rw [boundary_wall]; exact (boundary_eq _ _ _ _ _ _ _ _ _ _ _ _).2.2.2.2)
      | (simp only [dt_end_of_decade]; rw [boundary_wall]; exact (boundary_eq _ _ _ _ _ _ _ _ _ _ _ _).2.2.2.2)
      | (simp only [dt_end_of_century]; rw [boundary_wall]; exact (boundary_eq _ _ _ _ _ _ _ _ _ _ _ _).2.2.2.2)

/-! ### the dispatchers -/

theorem ofString_none (s : String) (h1 : s ≠ "second") (h2 : s ≠ "minute") (h3 : s ≠ "hour") (h4 : s ≠ "day")
    (h5 : s ≠ "week") (h6 : s ≠ "month") (h7 : s ≠ "year") (h8 : s ≠ "decade") (h9 : s ≠ "century") :
    U.ofString? s = none := by
  gen_tie "Pendulum.StartOfGen.ofString_none" "Gen/StartOf.lean (regenerated from datetime.py / date.py)" =>
    unfold U.ofString?
    split <;> first | rfl | contradiction

/-- case split of a dispatcher statement over the nine unit names and "any other string" -/
syntax "dispatch_cases " ident " with " term,* : tactic
macro_rules
  | `(tactic| dispatch_cases $s with $[$defs],*) => `(tactic|
    (by_cases h1 : $s = "second"
     · subst h1; rfl
     by_cases h2 : $s = "minute"
     · subst h2; rfl
     by_cases h3 : $s = "hour"
     · subst h3; rfl
     by_cases h4 : $s = "day"
     · subst h4; rfl
     by_cases h5 : $s = "week"
     · subst h5; rfl
     by_cases h6 : $s = "month"
     · subst h6; rfl
     by_cases h7 : $s = "year"
     · subst h7; rfl
     by_cases h8 : $s = "decade"
     · subst h8; rfl
     by_cases h9 : $s = "century"
     · subst h9; rfl
     rw [ofString_none $s h1 h2 h3 h4 h5 h6 h7 h8 h9]
     simp [$[$defs:term],*, h1, h2, h3, h4, h5, h6, h7, h8, h9]))

/-- `start_of(unit)`: ValueError for a string outside `_MODIFIERS_VALID_UNITS`, otherwise the unit's own method -/
theorem dt_start_of_eq (I : Inst) (s : String) :
    dt_start_of I s = (match U.ofString? s with | some u => .ok (startCall I u) | none => .error "ValueError") := by
  gen_tie "Pendulum.StartOfGen.dt_start_of_eq" "Gen/StartOf.lean (regenerated from datetime.py / date.py)" =>
    dispatch_cases s with dt_start_of, dt_valid_units

theorem dt_end_of_eq (I : Inst) (s : String) :
    dt_end_of I s = (match U.ofString? s with | some u => .ok (endCall I u) | none => .error "ValueError") := by
  gen_tie "Pendulum.StartOfGen.dt_end_of_eq" "Gen/StartOf.lean (regenerated from datetime.py / date.py)" =>
    dispatch_cases s with dt_end_of, dt_valid_units

/-! ### Date: `replace`/`set`, the `while` loops of `next`/`previous`, the units, the dispatchers -/

theorem date_set_eq (I : Inst) (y m d : Int) : date_set I (some y) (some m) (some d) = .new y m d := by
  gen_tie "Pendulum.StartOfGen.date_set_eq" "Gen/StartOf.lean (regenerated from datetime.py / date.py)" =>
    simp only [date_set, date_replace, Option.getD]

theorem instD_weekday (o wks wke n : Int) : (instD o wks wke).weekday_at n = (o + n + 6) % 7 := by
  gen_tie "Pendulum.StartOfGen.instD_weekday" "Gen/StartOf.lean (regenerated from datetime.py / date.py)" =>
    simp only [instD, instF, (ymd2ord_ord2ymd o).1, StartOf.dow]

/-- the `while dt.day_of_week != day_of_week: dt = dt.subtract(days=1)` loop stops at the first hit, whatever
    iteration bound ≥ the number of steps is supplied -/
theorem previous_loop_hit (I : Inst) (wd : Int) (k : Nat) : ∀ (fuel : Nat) (dt : Int), k ≤ fuel →
    (∀ j : Nat, j < k → I.weekday_at (dt - j) ≠ wd) → I.weekday_at (dt - k) = wd →
    date_previous_loop I wd fuel dt = dt - k := by
  gen_tie "Pendulum.StartOfGen.previous_loop_hit" "Gen/StartOf.lean (regenerated from datetime.py / date.py)" =>
    induction k with
    | zero =>
      intro fuel dt _ _ h
      simp only [Int.natCast_zero, Int.sub_zero] at h
      cases fuel <;> simp [date_previous_loop, h]
    | succ k ih =>
      intro fuel dt hf hne h
      cases fuel with
      | zero => omega
      | succ f =>
        have h0 := hne 0 (by omega)
        simp only [Int.natCast_zero, Int.sub_zero] at h0
        simp only [date_previous_loop, ne_eq, h0, not_false_eq_true, decide_true, if_true]
        rw [ih f (dt - 1) (by omega)
          (by intro j hj; have := hne (j + 1) (by omega); rw [show dt - 1 - (j : Int) = dt - ((j + 1 : Nat) : Int) by omega]; exact this)
          (by rw [show dt - 1 - (k : Int) = dt - ((k + 1 : Nat) : Int) by omega]; exact h)]
        omega

theorem next_loop_hit (I : Inst) (wd : Int) (k : Nat) : ∀ (fuel : Nat) (dt : Int), k ≤ fuel →
    (∀ j : Nat, j < k → I.weekday_at (dt + j) ≠ wd) → I.weekday_at (dt + k) = wd →
    date_next_loop I wd fuel dt = dt + k := by
  gen_tie "Pendulum.StartOfGen.next_loop_hit" "Gen/StartOf.lean (regenerated from datetime.py / date.py)" =>
    induction k with
    | zero =>
      intro fuel dt _ _ h
      simp only [Int.natCast_zero, Int.add_zero] at h
      cases fuel <;> simp [date_next_loop, h]
    | succ k ih =>
      intro fuel dt hf hne h
      cases fuel with
      | zero => omega
      | succ f =>
        have h0 := hne 0 (by omega)
        simp only [Int.natCast_zero, Int.add_zero] at h0
        simp only [date_next_loop, ne_eq, h0, not_false_eq_true, decide_true, if_true]
        rw [ih f (dt + 1) (by omega)
          (by intro j hj; have := hne (j + 1) (by omega); rw [show dt + 1 + (j : Int) = dt + ((j + 1 : Nat) : Int) by omega]; exact this)
          (by rw [show dt + 1 + (k : Int) = dt + ((k + 1 : Nat) : Int) by omega]; exact h)]
        omega

/-- `Date.previous(wd)`: the day shift is `-((day_of_week - wd - 1) % 7 + 1)` (the closed form `DateTime.previous` uses) -/
theorem date_previous_eq (o wks wke wd : Int) (fuel : Nat) (hf : 6 ≤ fuel) (hwd : 0 ≤ wd ∧ wd ≤ 6) :
    date_previous (instD o wks wke) fuel (some wd) = .ok (-((StartOf.dow o - wd - 1) % 7 + 1)) := by
  gen_tie "Pendulum.StartOfGen.date_previous_eq" "Gen/StartOf.lean (regenerated from datetime.py / date.py)" =>
    have hg : ((decide (wd < 0)) || (decide (wd > 6))) = false := by simp; omega
    simp only [date_previous, Option.getD, hg, Bool.false_eq_true, if_false]
    congr 1
    have hk : ∃ k : Nat, k ≤ 6 ∧ (k : Int) = (StartOf.dow o - wd - 1) % 7 :=
      ⟨((StartOf.dow o - wd - 1) % 7).toNat, by omega, by omega⟩
    obtain ⟨k, hk6, hk⟩ := hk
    rw [previous_loop_hit (instD o wks wke) wd k fuel _ (by omega)
      (by intro j hj; rw [instD_weekday]; unfold StartOf.dow at hk; omega)
      (by rw [instD_weekday]; unfold StartOf.dow at hk; omega)]
    omega

theorem date_next_eq (o wks wke wd : Int) (fuel : Nat) (hf : 6 ≤ fuel) (hwd : 0 ≤ wd ∧ wd ≤ 6) :
    date_next (instD o wks wke) fuel (some wd) = .ok ((wd - StartOf.dow o - 1) % 7 + 1) := by
  gen_tie "Pendulum.StartOfGen.date_next_eq" "Gen/StartOf.lean (regenerated from datetime.py / date.py)" =>
    have hg : ((decide (wd < 0)) || (decide (wd > 6))) = false := by simp; omega
    simp only [date_next, Option.getD, hg, Bool.false_eq_true, if_false]
    congr 1
    have hk : ∃ k : Nat, k ≤ 6 ∧ (k : Int) = (wd - StartOf.dow o - 1) % 7 :=
      ⟨((wd - StartOf.dow o - 1) % 7).toNat, by omega, by omega⟩
    obtain ⟨k, hk6, hk⟩ := hk
    rw [next_loop_hit (instD o wks wke) wd k fuel _ (by omega)
      (by intro j hj; rw [instD_weekday]; unfold StartOf.dow at hk; omega)
      (by rw [instD_weekday]; unfold StartOf.dow at hk; omega)]
    omega

/-- the request the Date dispatcher reaches for a unit (ValueError for the sub-day units: they are not in
    `Date._MODIFIERS_VALID_UNITS`) -/
def dateStartRes (I : Inst) (fuel : Nat) : U → Except String DateRes
  | .day => .ok (.shift (date_start_of_day I))
  | .week => (match date_start_of_week I fuel with | .error e => .error e | .ok n => .ok (.shift n))
  | .month => .ok (date_start_of_month I) | .year => .ok (date_start_of_year I)
  | .decade => .ok (date_start_of_decade I) | .century => .ok (date_start_of_century I)
  | _ => .error "ValueError"

def dateEndRes (I : Inst) (fuel : Nat) : U → Except String DateRes
  | .day => .ok (.shift (date_end_of_day I))
  | .week => (match date_end_of_week I fuel with | .error e => .error e | .ok n => .ok (.shift n))
  | .month => .ok (date_end_of_month I) | .year => .ok (date_end_of_year I)
  | .decade => .ok (date_end_of_decade I) | .century => .ok (date_end_of_century I)
  | _ => .error "ValueError"

theorem date_start_of_eq (I : Inst) (fuel : Nat) (s : String) :
    date_start_of I fuel s = (match U.ofString? s with | some u => dateStartRes I fuel u | none => .error "ValueError") := by
  gen_tie "Pendulum.StartOfGen.date_start_of_eq" "Gen/StartOf.lean (regenerated from datetime.py / date.py)" =>
    dispatch_cases s with date_start_of, date_valid_units

theorem date_end_of_eq (I : Inst) (fuel : Nat) (s : String) :
    date_end_of I fuel s = (match U.ofString? s with | some u => dateEndRes I fuel u | none => .error "ValueError") := by
  gen_tie "Pendulum.StartOfGen.date_end_of_eq" "Gen/StartOf.lean (regenerated from datetime.py / date.py)" =>
    dispatch_cases s with date_end_of, date_valid_units

theorem ordOf_ordWall (o : Int) : ordOf (ordWall o) = o ∧ ordWall o % DAY = 0 := by
  gen_tie "Pendulum.StartOfGen.ordOf_ordWall" "Gen/StartOf.lean (regenerated from datetime.py / date.py)" =>
    simp only [ordOf, ordWall, DAY, epochOrd]; omega

/-- `Date._start_of_<unit>` requests the Date whose midnight is the model's `lo` -/
theorem date_start_label (u : U) (hu : u.subDay = false) (o wks wke : Int) (fuel : Nat) (hf : 6 ≤ fuel)
    (hs : 0 ≤ wks ∧ wks ≤ 6) :
    ∃ r, dateStartRes (instD o wks wke) fuel u = .ok r ∧ resWall o r = lo u wks (ordWall o) := by
  gen_tie "Pendulum.StartOfGen.date_start_label" "Gen/StartOf.lean (regenerated from datetime.py / date.py)" =>
    unfold lo
    rw [wallToFields_eq]
    simp only [ordOf_ordWall]
    cases u <;> simp only [U.subDay, reduceCtorEq] at hu <;> simp only [dateStartRes]
    case day => exact ⟨_, rfl, by simp only [date_start_of_day, resWall, Int.add_zero, fw_ord]⟩
    case month => exact ⟨_, rfl, by simp [date_start_of_month, date_set_eq, resWall, instD, instF]⟩
    case year => exact ⟨_, rfl, by simp [date_start_of_year, date_set_eq, resWall, instD, instF]⟩
    case decade => exact ⟨_, rfl, by simp [date_start_of_decade, date_set_eq, resWall, instD, instF, decadeStart]⟩
    case century => exact ⟨_, rfl, by simp [date_start_of_century, date_set_eq, resWall, instD, instF, centuryStart]⟩
    case week =>
      simp only [(ymd2ord_ord2ymd o).1]
      have hw : (instD o wks wke).week_starts_at = wks := rfl
      have hd := dow_range' o
      by_cases c : StartOf.dow o = wks
      · refine ⟨.shift 0, ?_, ?_⟩
        · have c' : (decide ((o + 0 + 6) % 7 ≠ wks)) = false := by unfold StartOf.dow at c; simp; omega
          simp only [date_start_of_week, instD_weekday, hw, c', Bool.false_eq_true, if_false]
        · simp only [resWall, ordWall, DAY, epochOrd]; omega
      · refine ⟨.shift (-((StartOf.dow o - wks - 1) % 7 + 1)), ?_, ?_⟩
        · have c' : (decide ((o + 0 + 6) % 7 ≠ wks)) = true := by unfold StartOf.dow at c; simp; omega
          simp only [date_start_of_week, instD_weekday, hw, c', if_true, date_previous_eq o wks wke wks fuel hf hs]
        · simp only [resWall, ordWall, DAY, epochOrd]; omega

/-- `Date._end_of_<unit>` requests the Date whose last microsecond is the model's `hi` -/
theorem date_end_label (u : U) (hu : u.subDay = false) (o wks wke : Int) (fuel : Nat) (hf : 6 ≤ fuel)
    (he : 0 ≤ wke ∧ wke ≤ 6) :
    ∃ r, dateEndRes (instD o wks wke) fuel u = .ok r ∧ resWall o r = hi u wke (ordWall o) - (DAY - 1) := by
  gen_tie "Pendulum.StartOfGen.date_end_label" "Gen/StartOf.lean (regenerated from datetime.py / date.py)" =>
    unfold hi
    rw [wallToFields_eq]
    simp only [ordOf_ordWall]
    cases u <;> simp only [U.subDay, reduceCtorEq] at hu <;> simp only [dateEndRes]
    case day => exact ⟨_, rfl, by simp only [date_end_of_day, resWall, Int.add_zero, fw_ord]; omega⟩
    case month =>
      exact ⟨_, rfl, by simp [date_end_of_month, date_set_eq, resWall, instD, instF, days_in_month, fieldsToWall]⟩
    case year => exact ⟨_, rfl, by simp [date_end_of_year, date_set_eq, resWall, instD, instF, fieldsToWall]⟩
    case decade =>
      refine ⟨_, rfl, ?_⟩
      simp only [date_end_of_decade, date_set_eq, resWall, instD, instF, decadeStart, fieldsToWall]
      rw [show (ord2ymd o).1 - (ord2ymd o).1 % 10 + 10 - 1 = (ord2ymd o).1 - (ord2ymd o).1 % 10 + 9 by omega]; omega
    case century =>
      refine ⟨_, rfl, ?_⟩
      simp only [date_end_of_century, date_set_eq, resWall, instD, instF, centuryStart, fieldsToWall]
      rw [show (ord2ymd o).1 - 1 - ((ord2ymd o).1 - 1) % 100 + 100 = (ord2ymd o).1 - 1 - ((ord2ymd o).1 - 1) % 100 + 1 + 99 by omega]; omega
    case week =>
      simp only [(ymd2ord_ord2ymd o).1]
      have hw : (instD o wks wke).week_ends_at = wke := rfl
      have hd := dow_range' o
      by_cases c : StartOf.dow o = wke
      · refine ⟨.shift 0, ?_, ?_⟩
        · have c' : (decide ((o + 0 + 6) % 7 ≠ wke)) = false := by unfold StartOf.dow at c; simp; omega
          simp only [date_end_of_week, instD_weekday, hw, c', Bool.false_eq_true, if_false]
        · simp only [resWall, ordWall, DAY, epochOrd]; omega
      · refine ⟨.shift ((wke - StartOf.dow o - 1) % 7 + 1), ?_, ?_⟩
        · have c' : (decide ((o + 0 + 6) % 7 ≠ wke)) = true := by unfold StartOf.dow at c; simp; omega
          simp only [date_end_of_week, instD_weekday, hw, c', if_true, date_next_eq o wks wke wke fuel hf he]
        · simp only [resWall, ordWall, DAY, epochOrd]; omega

end Pendulum.StartOfGen
