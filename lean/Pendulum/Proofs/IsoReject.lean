import Pendulum.Proofs.IsoTop
/-! Week dates without a weekday, and rejection of impossible dates / ordinals / weeks / weekdays. -/
set_option linter.unusedSimpArgs false
namespace Pendulum.Iso
open Pendulum

/-- `YYYY-Www` / `YYYYWww` denotes the Monday of that week -/
theorem parse_week_monday (b : Backend) (ext : Bool) (y m d : Nat) (hv : dateOk y m d)
    (hiso : 1 ≤ (Cal.isoCalendar y m d).1 ∧ (Cal.isoCalendar y m d).1 ≤ 9999) (hmon : (Cal.isoCalendar y m d).2.2 = 1) :
    parseIso b (rWeek ext (Cal.isoCalendar y m d).1.toNat (Cal.isoCalendar y m d).2.1.toNat) = .ok (dateV y m d) := by
  obtain ⟨v1, v2, v3, v4, v5, v6⟩ := hv
  obtain ⟨i1, i2⟩ := hiso
  obtain ⟨w1, w2, _, _, _, _, _⟩ := week_core y m d ⟨v3, v4⟩ ⟨v5, v6⟩
  have hv : dateOk y m d := ⟨v1, v2, v3, v4, v5, v6⟩
  have e1 : (((Cal.isoCalendar y m d).1.toNat : Nat) : Int) = (Cal.isoCalendar y m d).1 := by omega
  have e2 : (((Cal.isoCalendar y m d).2.1.toNat : Nat) : Int) = (Cal.isoCalendar y m d).2.1 := by omega
  cases b with
  | rust =>
    have h := rsParse_year (Cal.isoCalendar y m d).1.toNat (by omega)
      (dash ext ++ ('W' :: (digits 2 (Cal.isoCalendar y m d).2.1.toNat ++ [])))
    rw [rsDateRest_week ext _ _ (by omega) [] (Or.inl rfl), e1, e2] at h
    have hs := rsIso_spec y m d ⟨v3, v4⟩ ⟨v5, v6⟩ v1 i1
    rw [hmon] at hs
    rw [hs] at h
    simp only [List.append_nil] at h
    simp only [parseIso, rWeek, List.append_assoc, h, withRest, rsFinish_date, mkDate, if_pos hv, dateV]
  | py =>
    have hm' := pyMatch_week ext (Cal.isoCalendar y m d).1.toNat (Cal.isoCalendar y m d).2.1.toNat (by omega) (by omega) []
      (Or.inl rfl) (.week _ ext _ false none, none) rfl
    rw [List.append_nil] at hm'
    have hw := pyWeek_spec y m d ⟨v3, v4⟩ ⟨v5, v6⟩ ⟨v1, v2⟩ (Cal.isoCalendar y m d).2.1.toNat 1 (by omega) (by omega)
    have hw' : pyWeek (Cal.isoCalendar y m d).1 ((Cal.isoCalendar y m d).2.1.toNat : Nat) none = .ok ((y : Int), (m : Int), (d : Int)) := by
      rw [← hw]; rfl
    have hG : pyDateFields (.week (Cal.isoCalendar y m d).1.toNat ext (Cal.isoCalendar y m d).2.1.toNat false none) =
        .ok ((y : Int), (m : Int), (d : Int), false) := by
      simp only [pyDateFields]
      rw [if_neg (by simp), if_neg (by simp), if_neg (by simp), e1, hw']
    have hp := pyParse_of_match_date _ (by rw [rWeek, List.append_assoc]; exact head_ne_P _ _)
      (by cases ext <;> simp [rWeek, dash, nl_not_mem_digits]) _ hm' _ _ _ hG
    simp only [parseIso, hp, mkDate, if_pos hv, dateV]

/-- the string is rejected with an exception of the `ValueError` family -/
def Rejected (r : R) : Prop := r = .error .parserError ∨ r = .error .valueError

/-- a calendar date that does not exist (month 0/13, day 0, day beyond the month's length, year 0) is rejected -/
theorem reject_day (b : Backend) (ext : Bool) (y m d : Nat) (hy : y < 10000) (hm : m < 100) (hd : d < 100)
    (hbad : ¬ dateOk y m d) : Rejected (parseIso b (rCalendar ext y m d)) := by
  right
  cases b with
  | rust =>
    have h := rsParse_year y hy (dash ext ++ (digits 2 m ++ (dash ext ++ (digits 2 d ++ []))))
    rw [rsDateRest_cal ext y m d hm hd] at h
    simp only [List.append_nil] at h
    simp only [parseIso, rCalendar, List.append_assoc, h, rsFinish_date, mkDate, if_neg hbad]
  | py =>
    have hm' := pyMatch_cal ext y m d hy hm hd [] (.ymd y ext m ext 2 d, none) rfl
    rw [List.append_nil] at hm'
    have hG : pyDateFields (.ymd y ext m ext 2 d) = .ok ((y : Int), (m : Int), (d : Int), false) := by
      cases ext <;> simp [pyDateFields]
    have hp := pyParse_of_match_date _ (by simp only [rCalendar, List.append_assoc]; exact head_ne_P _ _)
      (by cases ext <;> simp [rCalendar, dash, nl_not_mem_digits]) _ hm' _ _ _ hG
    simp only [parseIso, hp, mkDate, if_neg hbad]

/-- ordinal day 000 or beyond the length of the year is rejected -/
theorem reject_ordinal (b : Backend) (ext : Bool) (y n : Nat) (hy : 1 ≤ y ∧ y < 10000) (hn : n < 1000)
    (hbad : n = 0 ∨ (n : Int) > diy y) : Rejected (parseIso b (rOrdinal ext y n)) := by
  cases b with
  | rust =>
    right
    have h := rsParse_year y hy.2 (dash ext ++ (digits 3 n ++ []))
    rw [rsDateRest_ord ext y n hn [] (Or.inl rfl)] at h
    simp only [List.append_nil] at h
    have he : rsOrdToYmd y n false = .error .valueError := by
      unfold rsOrdToYmd rsOrdToYmdG
      rcases hbad with h0 | hgt
      · subst h0; simp
      · have hn1 : ¬ ((n : Int) < 1) := by have := diy_range y; omega
        rw [if_neg (by simp [hn1])]
        have ha : adj1 Rs.days_in_year (n : Int) (y : Int) = ((n : Int), (y : Int)) := by unfold adj1; rw [if_neg hn1]
        rw [ha]
        dsimp only
        rw [rs_diy y (by omega), if_pos ⟨hgt, rfl⟩]
    simp only [parseIso, rOrdinal, List.append_assoc, h, he, withRest, rsFinish]
  | py =>
    have hm' := pyMatch_ord ext y n hy.2 hn [] (Or.inl rfl) (.ymd y ext (n / 10) false 1 (n % 10), none) rfl
    rw [List.append_nil] at hm'
    have hP : (rOrdinal ext y n).head? ≠ some 'P' := by rw [rOrdinal, List.append_assoc]; exact head_ne_P _ _
    have hnl : '\n' ∉ rOrdinal ext y n := by cases ext <;> simp [rOrdinal, dash, nl_not_mem_digits]
    have hord : (((n / 10 : Nat) : Int) * 10 + ((n % 10 : Nat) : Int)) = (n : Int) := by omega
    rcases hbad with h0 | hgt
    · subst h0
      right
      have hG : pyDateFields (.ymd y ext (0 / 10) false 1 (0 % 10)) = .ok ((y : Int), 0, 1, false) := by
        have h13 : ¬ (0 : Int) > pyOff (Gen.is_leap y) 13 := by rw [pyOff_13]; split <;> omega
        have hw : walk (pyOff (Gen.is_leap y)) false 0 13 1 = some (0, 1) := by
          rw [walk_hit _ _ _ _ (by cases Gen.is_leap y <;> decide)]
          cases Gen.is_leap y <;> rfl
        simp [pyDateFields, h13, hw]
      have hp := pyParse_of_match_date _ hP hnl _ hm' _ _ _ hG
      have : ¬ dateOk (y : Int) 0 1 := by unfold dateOk; omega
      simp only [parseIso, hp, mkDate, if_neg this]
    · left
      have hG : pyDateFields (.ymd y ext (n / 10) false 1 (n % 10)) = .error .parserError := by
        have h13 : (n : Int) > pyOff (Gen.is_leap y) 13 := by
          rw [pyOff_13, Pendulum.Props.C15.is_leap_iff]; unfold diy at hgt; exact hgt
        simp only [pyDateFields, and_self, if_true]
        rw [hord, if_pos h13]
      have hp := pyParse_of_match_err _ hP hnl _ _ hm' _ hG
      simp only [parseIso, hp]

/-- week 00, weeks beyond 53, and week 53 of a year that has only 52 are rejected (with or without weekday) -/
theorem reject_week (b : Backend) (ext : Bool) (y w wd : Nat) (hy : 1 ≤ y ∧ y < 10000) (hw : w < 100) (hwd : wd < 10)
    (hbad : w = 0 ∨ w > 53 ∨ (w = 53 ∧ Gen.is_long_year y = false)) :
    Rejected (parseIso b (rWeekDay ext y w wd)) ∧ Rejected (parseIso b (rWeek ext y w)) := by
  have hcond (ly : Bool) (hl : ly = Gen.is_long_year y) : ((w : Int) < 1 ∨ (w : Int) > 53 ∨ ((w : Int) > 52 ∧ ly = false)) := by
    rcases hbad with h | h | ⟨h1, h2⟩
    · left; omega
    · right; left; omega
    · right; right; exact ⟨by omega, by rw [hl]; exact h2⟩
  cases b with
  | rust =>
    have hiso (d : Int) : rsIsoToYmd (y : Int) (w : Int) d = .error .valueError := by
      unfold rsIsoToYmd
      rw [if_pos (hcond _ (Pendulum.Props.C15.rs_is_long_year_eq y (by omega)))]
    constructor
    · right
      have h := rsParse_year y hy.2 (dash ext ++ ('W' :: (digits 2 w ++ (dash ext ++ (digits 1 wd ++ [])))))
      rw [rsDateRest_weekday ext y w wd hw hwd, hiso] at h
      simp only [List.append_nil] at h
      simp only [parseIso, rWeekDay, List.append_assoc, List.cons_append, h, withRest, rsFinish]
    · right
      have h := rsParse_year y hy.2 (dash ext ++ ('W' :: (digits 2 w ++ [])))
      rw [rsDateRest_week ext y w hw [] (Or.inl rfl), hiso] at h
      simp only [List.append_nil] at h
      simp only [parseIso, rWeek, List.append_assoc, h, withRest, rsFinish]
  | py =>
    have hwk (o : Option Nat) : pyWeek (y : Int) (w : Int) o = .error .parserError := by
      unfold pyWeek
      dsimp only
      rw [if_pos (hcond _ rfl)]
    constructor
    · left
      have hm' := pyMatch_weekday ext y w wd hy.2 hw hwd [] (.week y ext w ext (some wd), none) rfl
      rw [List.append_nil] at hm'
      have hG : pyDateFields (.week y ext w ext (some wd)) = .error .parserError := by
        simp only [pyDateFields]
        rw [if_neg (by cases ext <;> simp), if_neg (by cases ext <;> simp), if_neg (by cases ext <;> simp), hwk]
      have hp := pyParse_of_match_err _ (by simp only [rWeekDay, List.append_assoc]; exact head_ne_P _ _)
        (by cases ext <;> simp [rWeekDay, dash, nl_not_mem_digits]) _ _ hm' _ hG
      simp only [parseIso, hp]
    · left
      have hm' := pyMatch_week ext y w hy.2 hw [] (Or.inl rfl) (.week y ext w false none, none) rfl
      rw [List.append_nil] at hm'
      have hG : pyDateFields (.week y ext w false none) = .error .parserError := by
        simp only [pyDateFields]
        rw [if_neg (by simp), if_neg (by simp), if_neg (by simp), hwk]
      have hp := pyParse_of_match_err _ (by simp only [rWeek, List.append_assoc]; exact head_ne_P _ _)
        (by cases ext <;> simp [rWeek, dash, nl_not_mem_digits]) _ _ hm' _ hG
      simp only [parseIso, hp]

/-- weekday 0, 8 or 9 is rejected -/
theorem reject_weekday (b : Backend) (ext : Bool) (y w wd : Nat) (hy : 1 ≤ y ∧ y < 10000) (hw : w < 100) (hwd : wd < 10)
    (hbad : wd = 0 ∨ wd > 7) : Rejected (parseIso b (rWeekDay ext y w wd)) := by
  have hcond : ((wd : Int) < 1 ∨ (wd : Int) > 7) := by omega
  cases b with
  | rust =>
    right
    have hiso : rsIsoToYmd (y : Int) (w : Int) (wd : Int) = .error .valueError := by
      simp only [rsIsoToYmd, hcond, if_true]
      split <;> rfl
    have h := rsParse_year y hy.2 (dash ext ++ ('W' :: (digits 2 w ++ (dash ext ++ (digits 1 wd ++ [])))))
    rw [rsDateRest_weekday ext y w wd hw hwd, hiso] at h
    simp only [List.append_nil] at h
    simp only [parseIso, rWeekDay, List.append_assoc, List.cons_append, h, withRest, rsFinish]
  | py =>
    left
    have hwk : pyWeek (y : Int) (w : Int) (some wd) = .error .parserError := by
      simp only [pyWeek, hcond, if_true]
      split <;> rfl
    have hm' := pyMatch_weekday ext y w wd hy.2 hw hwd [] (.week y ext w ext (some wd), none) rfl
    rw [List.append_nil] at hm'
    have hG : pyDateFields (.week y ext w ext (some wd)) = .error .parserError := by
      simp only [pyDateFields]
      rw [if_neg (by cases ext <;> simp), if_neg (by cases ext <;> simp), if_neg (by cases ext <;> simp), hwk]
    have hp := pyParse_of_match_err _ (by simp only [rWeekDay, List.append_assoc]; exact head_ne_P _ _)
      (by cases ext <;> simp [rWeekDay, dash, nl_not_mem_digits]) _ _ hm' _ hG
    simp only [parseIso, hp]

/-! ### basic-format times without designator (pure-Python parser) -/

theorem optDash_digits2_nil (n : Nat) : optChar '-' (digits 2 n) = (false, digits 2 n) :=
  optChar_digit _ _ _ (digitChar_ne _).1

/-- pure-Python parser only: a bare six-digit string is first matched as year + month (`ambiguous_date`) and then re-read
    as `hhmmss`; a bare two-digit string is an hour -/
theorem py_bare_basic_time (h mi s : Nat) (hc : h ≤ 23 ∧ mi ≤ 59 ∧ s ≤ 59) :
    parseIso .py (rTime false h mi s .hms) = .ok (timeV h mi s 0 none) ∧
    parseIso .py (rTime false h mi s .h) = .ok (timeV h 0 0 0 none) := by
  obtain ⟨h1, h2, h3⟩ := hc
  constructor
  · have e4 : exactN .py 4 0 (digits 2 h ++ (digits 2 mi ++ digits 2 s)) = some (h * 100 + mi, digits 2 s) := by
      rw [show (4 : Nat) = 2 + 2 from rfl, exactN_add, exactN_digits]
      congr 2
      omega
    have hm : pyMatch (rTime false h mi s .hms) = some (.ym (h * 100 + mi) false s, none) := by
      unfold pyMatch pyClassic
      have e2 := exactN2_nil .py s (by omega)
      have e0 : rTime false h mi s .hms = digits 2 h ++ (digits 2 mi ++ digits 2 s) := by simp [rTime, colon]
      rw [e0, e4]
      simp [e2, exactN, tryCand, optDash_digits2_nil]
    have hG : pyDateFields (.ym (h * 100 + mi) false s) = .ok (((h * 100 + mi : Nat) : Int), (s : Int), 1, true) := by
      simp [pyDateFields]
    have hto : timeOk (h : Int) (mi : Int) (s : Int) 0 := by unfold timeOk; omega
    have e1 : (h * 100 + mi) / 100 = h := by omega
    have e2 : (h * 100 + mi) % 100 = mi := by omega
    show pyParse _ = _
    unfold pyParse
    rw [if_neg (by simp [rTime, digits]), stripNl_id _ (by simp [rTime, colon, nl_not_mem_digits])]
    simp [hm, hG, pyAmbiguousTime, e1, e2, mkTime, hto, timeV]
  · have hb : HmsOk h mi s := by unfold HmsOk; omega
    have hm0 := pyTimeMatch_bare false h mi s .h .naive hb trivial trivial
    have hm : pyMatch (rTime false h mi s .h) = some (.nodate, some (pyGroups false false h mi s .h .naive)) := by
      simp only [rOff, List.append_nil] at hm0
      have e4 : exactN .py 4 0 (rTime false h mi s .h) = none := by
        simp [rTime, digits, exactN]
      have hne : rTime false h mi s .h ≠ [] := by simp [rTime, digits]
      unfold pyMatch pyClassic pyIsoCal
      rw [e4]
      simp only [tryCand, hm0]
      cases hcs : rTime false h mi s .h with
      | nil => exact absurd hcs hne
      | cons c t => simp
    have hto : timeOk (h : Int) 0 0 0 := by unfold timeOk; omega
    have hp := pyParse_of_match_time _ (by simp [rTime, digits]) (by simp [rTime, nl_not_mem_digits]) _ hm _
      (pyTimeFields_spec false false h mi s .h .naive trivial)
    simp [parseIso, hp, precFields, offSeconds, mkTime, hto, timeV]

/-! ### `parse()` on top of `parse_iso8601` -/

theorem public_of_iso (b : Backend) (exact : Bool) (tz : Option Int) (now : Int × Int × Int) (cs : List Char) (v : Value)
    (h : parseIso b cs = .ok v) (hn : cs ≠ ['n', 'o', 'w']) : publicParse b exact tz now cs = wrap exact tz now v := by
  unfold publicParse parseChain
  rw [if_neg hn, h]

theorem rDate_ne_now (f : DForm) (y m d : Nat) (X : List Char) : rDate f y m d ++ X ≠ ['n', 'o', 'w'] := by
  obtain ⟨n, Y, hY⟩ := rDate_digits f y m d
  rw [hY]; simp [digits]

end Pendulum.Iso
