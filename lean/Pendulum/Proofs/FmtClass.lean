import Pendulum.Proofs.FmtMatch
import Pendulum.Proofs.CalRT
import Pendulum.Props.C15
/-! The class 𝓕 of round-trip formats treated by proof: numeric tokens carrying each field at most once per
family, the 12-hour clock with the meridiem word, day of the year, two-digit years, every fraction width,
literal separators, a non-digit after every variable-width token. -/
namespace Pendulum.Fmt

/-- tokens of the class -/
inductive NTok where
  | YYYY | MM | M | DD | D | HH | H | mm | m | ss | s | SSSSSS | Z | ZZ
  | YY | DDDD | DDD | hh | h | A | S | SS | SSS | SSSS | SSSSS
  deriving DecidableEq, Repr

def NTok.str : NTok → String
  | .YYYY => "YYYY" | .MM => "MM" | .M => "M" | .DD => "DD" | .D => "D" | .HH => "HH" | .H => "H"
  | .mm => "mm" | .m => "m" | .ss => "ss" | .s => "s" | .SSSSSS => "SSSSSS" | .Z => "Z" | .ZZ => "ZZ"
  | .YY => "YY" | .DDDD => "DDDD" | .DDD => "DDD" | .hh => "hh" | .h => "h" | .A => "A"
  | .S => "S" | .SS => "SS" | .SSS => "SSS" | .SSSS => "SSSS" | .SSSSS => "SSSSS"

/-- rendered width never exceeds what the recogniser takes greedily, whatever follows -/
def NTok.fixed : NTok → Bool
  | .YYYY | .MM | .DD | .HH | .mm | .ss | .Z | .ZZ | .YY | .DDDD | .hh | .A | .SSS => true
  | _ => false

/-- `dt.day_of_year` as the formatter reads it (generated closed form of `Date.day_of_year`) -/
def doy (v : Val) : Int := Gen.date_day_of_year (Cal.isLeap v.y) v.mo v.d

/-- the hour on the 12-hour clock as the `hh`/`h` rules compute it -/
def h12 (v : Val) : Int := if (v.h % (12 : Int)) != 0 then (v.h % (12 : Int)) else (12 : Int)

/-- the AM word cannot match where the PM word was written: at some position it has a character that is neither the
    regex wildcard `.` nor the PM word's character there -/
def wordsClash : Str → Str → Bool
  | p :: ps, c :: cs => (p != '.' && p != c) || wordsClash ps cs
  | _, _ => false

/-- the locale's meridiem words are told apart by the `A` recogniser (true for the 27 shipped locales:
    `Props.C08.meridiem_words_distinct`) -/
def AmPmOK (L : Loc) : Bool := wordsClash L.am.toList L.pm.toList

/-- values in the property's domain: years 1000..9999, valid clock fields, whole-minute offset below 100 h -/
structure InRange (v : Val) : Prop where
  y : 1000 ≤ v.y ∧ v.y ≤ 9999
  mo : 1 ≤ v.mo ∧ v.mo ≤ 12
  d : 1 ≤ v.d ∧ v.d ≤ 31
  h : 0 ≤ v.h ∧ v.h ≤ 23
  mi : 0 ≤ v.mi ∧ v.mi ≤ 59
  s : 0 ≤ v.s ∧ v.s ≤ 59
  us : 0 ≤ v.us ∧ v.us ≤ 999999
  off : v.off % 60 = 0 ∧ -360000 < v.off ∧ v.off < 360000

/-- what `format()` writes for the token -/
def NTok.render (L : Loc) (v : Val) : NTok → Str
  | .YYYY => pyFmtD 0 v.y | .MM => pyFmtD 2 v.mo | .M => pyFmtD 0 v.mo | .DD => pyFmtD 2 v.d | .D => pyFmtD 0 v.d
  | .HH => pyFmtD 2 v.h | .H => pyFmtD 0 v.h | .mm => pyFmtD 2 v.mi | .m => pyFmtD 0 v.mi
  | .ss => pyFmtD 2 v.s | .s => pyFmtD 0 v.s | .SSSSSS => pyFmtD 6 v.us
  | .Z => offsetStr true v.off | .ZZ => offsetStr false v.off
  | .YY => (pyFmtD 0 v.y).drop 2
  | .DDDD => pyFmtD 3 (doy v) | .DDD => pyFmtD 0 (doy v)
  | .hh => pyFmtD 2 (h12 v) | .h => pyFmtD 0 (h12 v)
  | .A => if v.h ≥ 12 then L.pm.toList else L.am.toList
  | .S => pyFmtD 1 (v.us / (100000 : Int)) | .SS => pyFmtD 2 (v.us / (10000 : Int)) | .SSS => pyFmtD 3 (v.us / (1000 : Int))
  | .SSSS => pyFmtD 4 (v.us / (100 : Int)) | .SSSSS => pyFmtD 5 (v.us / (10 : Int))

theorem formatToken_NTok (L : Loc) (v : Val) (t : NTok) : formatToken L v.toDTF t.str = .ok (t.render L v) := by
  cases t <;> rfl

/-- the recogniser `_replace_tokens` builds for the token -/
def NTok.lens (L : Loc) : NTok → El
  | .YYYY => fun s => lensD 1 4 s ++ lensD 4 4 s
  | .MM | .HH | .mm | .ss | .YY | .hh => fun s => lensD 1 2 s ++ lensD 2 2 s
  | .M | .D | .H | .m | .s | .h => lensD 1 2
  | .DD => fun s => lensPad s ++ lensD 2 2 s
  | .SSSSSS | .SSSS | .SSSSS => lensD 1 0
  | .Z => lensOffset false
  | .ZZ => lensOffset true
  | .DDDD => lensD 3 3
  | .DDD => lensD 1 3
  | .A => lensWords [L.am.toList, L.pm.toList]
  | .S => fun s => lensD 1 3 s ++ lensD 1 1 s
  | .SS => fun s => lensD 1 3 s ++ lensD 2 2 s
  | .SSS => fun s => lensD 1 3 s ++ lensD 3 3 s

theorem groupOf_NTok (L : Loc) (t : NTok) : ∃ f, groupOf L t.str = Group.lens f ∧ f = t.lens L := by
  cases t <;> exact ⟨_, rfl, rfl⟩

end Pendulum.Fmt

namespace Pendulum.Fmt

/-! ### pieces of the digit tokens -/

theorem digitsW_two (n : Nat) : digitsW 2 n = [digitChar (n / 10 % 10), digitChar (n % 10)] := by
  simp [digitsW]

theorem isDigit_ne (c : Char) (h : c.isDigit = true) : c ≠ ' ' ∧ c ≠ '-' ∧ c ≠ '+' := by
  refine ⟨?_, ?_, ?_⟩ <;> (intro e; subst e; revert h; decide)

/-- `int()` of a non-empty run of digits -/
theorem intOf_digits (r : Str) (hne : r ≠ []) (hall : r.all Char.isDigit = true) : intOf r = some (natOfDigits r : Int) := by
  cases r with
  | nil => exact absurd rfl hne
  | cons c cs =>
    simp only [List.all_cons, Bool.and_eq_true] at hall
    obtain ⟨h1, h2, h3⟩ := isDigit_ne c hall.1
    have hall' : (c :: cs).all Char.isDigit = true := by simp [hall.1, hall.2]
    unfold intOf
    have hd : List.dropWhile (fun x => x == ' ') (c :: cs) = c :: cs := by
      have : (c == ' ') = false := by simp [h1]
      simp [List.dropWhile, this]
    simp only [hd]
    split
    · rename_i r heq; injection heq with e _; exact absurd e h2
    · rename_i r heq; injection heq with e _; exact absurd e h3
    · simp [hall']

theorem convInt_digits (mul : Int) (r : Str) (hne : r ≠ []) (hall : r.all Char.isDigit = true) :
    convInt (PKind.int mul 0) r = .ok ((natOfDigits r : Int) * mul) := by
  simp [convInt, intOf_digits r hne hall]

/-- `YY`: the last two digits of a four-digit year -/
theorem yy_drop (y : Int) (h : 1000 ≤ y ∧ y ≤ 9999) : (pyFmtD 0 y).drop 2 = digitsW 2 (y.toNat % 100) := by
  rw [pyFmtD_plain 4 y (by omega) (by decide) (Or.inl (by simp; omega)) (by simp; omega)]
  simp only [digitsW, List.drop]
  have e1 : y.toNat % 100 / 10 ^ 1 % 10 = y.toNat / 10 ^ 1 % 10 := by simp; omega
  have e2 : y.toNat % 100 / 10 ^ 0 % 10 = y.toNat / 10 ^ 0 % 10 := by simp
  rw [e1, e2]

/-- a digit token: the number it writes and the zero-padding width of its rule -/
def NTok.isDigitTok : NTok → Bool
  | .Z | .ZZ | .A => false
  | _ => true

def NTok.value (v : Val) : NTok → Int
  | .YYYY => v.y | .MM | .M => v.mo | .DD | .D => v.d | .HH | .H => v.h | .mm | .m => v.mi | .ss | .s => v.s
  | .SSSSSS => v.us
  | .YY => v.y % 100 | .DDDD | .DDD => doy v | .hh | .h => h12 v
  | .S => v.us / 100000 | .SS => v.us / 10000 | .SSS => v.us / 1000 | .SSSS => v.us / 100 | .SSSSS => v.us / 10
  | _ => 0

def NTok.width : NTok → Nat
  | .MM | .DD | .HH | .mm | .ss | .YY | .hh | .SS => 2
  | .SSSSSS => 6
  | .DDDD | .SSS => 3
  | .S => 1 | .SSSS => 4 | .SSSSS => 5
  | _ => 0

/-- largest number the token can write for a value of the domain -/
def NTok.vmax : NTok → Int
  | .YYYY => 9999 | .MM | .M => 12 | .DD | .D => 31 | .HH | .H => 23 | .mm | .m | .ss | .s => 59
  | .SSSSSS => 999999 | .YY => 99 | .DDDD | .DDD => 366 | .hh | .h => 12
  | .S => 9 | .SS => 99 | .SSS => 999 | .SSSS => 9999 | .SSSSS => 99999
  | _ => 0

theorem doy_bounds (v : Val) (hv : InRange v) : 1 ≤ doy v ∧ doy v ≤ 366 := by
  unfold doy
  rw [Props.C15.day_of_year_spec _ _ _ hv.mo]
  have := Cal.dbm_bounds (Cal.isLeap v.y) v.mo hv.mo
  have := hv.d
  omega

theorem h12_bounds (v : Val) (hv : InRange v) : 1 ≤ h12 v ∧ h12 v ≤ 12 ∧ h12 v % 12 = v.h % 12 := by
  have := hv.h
  unfold h12
  by_cases h0 : v.h % 12 = 0
  · have hb : (v.h % 12 != 0) = false := by simp [h0]
    simp only [hb, Bool.false_eq_true, if_false]; omega
  · have hb : (v.h % 12 != 0) = true := by simp [h0]
    simp only [hb, if_true]; omega

theorem value_bounds (v : Val) (hv : InRange v) (t : NTok) : 0 ≤ t.value v ∧ t.value v ≤ t.vmax := by
  obtain ⟨h1, h2, h3, h4, h5, h6, h7, _⟩ := hv
  have hd := doy_bounds v ⟨h1, h2, h3, h4, h5, h6, h7, by assumption⟩
  have hh := h12_bounds v ⟨h1, h2, h3, h4, h5, h6, h7, by assumption⟩
  cases t <;> simp only [NTok.value, NTok.vmax] <;> omega

theorem value_nonneg (v : Val) (hv : InRange v) (t : NTok) : 0 ≤ t.value v := (value_bounds v hv t).1

theorem render_digit (L : Loc) (v : Val) (hv : InRange v) (t : NTok) (h : t.isDigitTok = true) :
    t.render L v = pyFmtD t.width (t.value v) := by
  cases t <;> first | rfl | simp [NTok.isDigitTok] at h | skip
  -- YY
  show (pyFmtD 0 v.y).drop 2 = pyFmtD 2 (v.y % 100)
  have := hv.y
  rw [yy_drop v.y hv.y, pyFmtD_fixed 2 (v.y % 100) (by omega) (by decide) (by simp; omega)]
  congr 1; omega

/-- a digit token's piece is a non-empty run of digits that reads back as the number it wrote -/
theorem piece_digit (L : Loc) (v : Val) (hv : InRange v) (t : NTok) (h : t.isDigitTok = true) :
    (t.render L v).all Char.isDigit = true ∧ t.render L v ≠ [] ∧ (natOfDigits (t.render L v) : Int) = t.value v := by
  rw [render_digit L v hv t h]
  have h0 := value_nonneg v hv t
  exact ⟨pyFmtD_all_digit _ _ h0, pyFmtD_ne_nil _ _ h0, natOfDigits_pyFmtD _ _ h0⟩

/-! ### first candidate = rendered piece -/

theorem pyFmtD_len_fixed (w : Nat) (n : Int) (h0 : 0 ≤ n) (hw : 1 ≤ w) (h1 : n.toNat < 10 ^ w) : (pyFmtD w n).length = w := by
  rw [pyFmtD_fixed w n h0 hw h1, digitsW_length]

theorem pyFmtD_len_le (k : Nat) (n : Int) (h0 : 0 ≤ n) (hk : 1 ≤ k) (h1 : n.toNat < 10 ^ k) : (pyFmtD 0 n).length ≤ k := by
  rw [pyFmtD_nonneg 0 n h0, digitsW_length]
  have := numDigitsAux_le n.toNat n.toNat k hk h1
  unfold numDigits; omega

theorem pyFmtD_len_pos (w : Nat) (n : Int) (h0 : 0 ≤ n) : 1 ≤ (pyFmtD w n).length := by
  have := pyFmtD_ne_nil w n h0
  cases hh : pyFmtD w n with
  | nil => exact absurd hh this
  | cons _ _ => simp

theorem lens_head_digit (L : Loc) (v : Val) (hv : InRange v) (t : NTok) (h : t.isDigitTok = true) (rest : Str)
    (hsep : t.fixed = true ∨ digitRun rest = 0) :
    ∃ more, t.lens L (t.render L v ++ rest) = (t.render L v).length :: more := by
  obtain ⟨hall, hne, _⟩ := piece_digit L v hv t h
  have hb := value_bounds v hv t
  rw [render_digit L v hv t h] at hall ⊢
  -- `\d{lo,W}` first, on a piece of exactly W digits
  have fixW : ∀ (lo W : Nat) (n : Int), 0 ≤ n → 1 ≤ W → lo ≤ W → n.toNat < 10 ^ W →
      ∃ more, lensD lo W (pyFmtD W n ++ rest) = (pyFmtD W n).length :: more := by
    intro lo W n a hW hlo b
    rw [pyFmtD_fixed W n a hW b]
    obtain ⟨m, hm⟩ := lensD_fixed lo W (digitsW W n.toNat) rest (digitsW_all_digit _ _) (digitsW_length _ _) hlo (by omega)
    rw [hm, digitsW_length]; exact ⟨m, rfl⟩
  -- variable-width piece followed by a non-digit
  have varW : ∀ (lo hi w : Nat) (n : Int), 0 ≤ n → digitRun rest = 0 → lo ≤ 1 → (hi = 0 ∨ (pyFmtD w n).length ≤ hi) →
      ∃ more, lensD lo hi (pyFmtD w n ++ rest) = (pyFmtD w n).length :: more := by
    intro lo hi w n a hr hlo hhi
    exact lensD_sep lo hi _ rest (pyFmtD_all_digit _ _ a) hr (by have := pyFmtD_len_pos w n a; omega) hhi
  have app : ∀ {k : Nat} {l : List Nat} (l2 : List Nat), (∃ more, l = k :: more) → ∃ more, l ++ l2 = k :: more := by
    intro k l l2 ⟨m, hm⟩; rw [hm]; exact head_append _ _ _
  have nosep : t.fixed = false → digitRun rest = 0 := by
    intro hf; rcases hsep with h1 | h1
    · rw [hf] at h1; cases h1
    · exact h1
  cases t
  case Z => simp [NTok.isDigitTok] at h
  case ZZ => simp [NTok.isDigitTok] at h
  case A => simp [NTok.isDigitTok] at h
  case YYYY =>
    simp only [NTok.value, NTok.vmax, NTok.width, NTok.lens] at hb ⊢
    have hy := hv.y
    have e : pyFmtD 0 v.y = digitsW 4 v.y.toNat :=
      pyFmtD_plain 4 v.y (by omega) (by decide) (Or.inl (by simp; omega)) (by simp; omega)
    rw [e]
    obtain ⟨m, hm⟩ := lensD_fixed 1 4 (digitsW 4 v.y.toNat) rest (digitsW_all_digit _ _) (digitsW_length _ _) (by decide) (by decide)
    rw [hm, digitsW_length]
    exact head_append _ _ _
  case DD =>
    simp only [NTok.value, NTok.vmax, NTok.width, NTok.lens] at hb ⊢
    rw [pyFmtD_fixed 2 v.d hb.1 (by decide) (by simp; omega), digitsW_two]
    have a1 := (digitChar_cases (v.d.toNat / 10 % 10) (Nat.mod_lt _ (by decide))).1
    have a2 := (digitChar_cases (v.d.toNat % 10) (Nat.mod_lt _ (by decide))).1
    have : digitRun (digitChar (v.d.toNat % 10) :: rest) ≥ 1 := by
      have := digitRun_append [digitChar (v.d.toNat % 10)] rest (by simp [a2])
      simp at this; omega
    simp only [List.cons_append, List.nil_append, lensPad, a1, Bool.true_or, if_true, this, List.length_cons, List.length_nil]
    exact ⟨_, rfl⟩
  -- two-digit fixed tokens
  case MM => exact app _ (fixW 1 2 _ hb.1 (by decide) (by decide) (by simp [NTok.value, NTok.vmax] at hb ⊢; omega))
  case HH => exact app _ (fixW 1 2 _ hb.1 (by decide) (by decide) (by simp [NTok.value, NTok.vmax] at hb ⊢; omega))
  case mm => exact app _ (fixW 1 2 _ hb.1 (by decide) (by decide) (by simp [NTok.value, NTok.vmax] at hb ⊢; omega))
  case ss => exact app _ (fixW 1 2 _ hb.1 (by decide) (by decide) (by simp [NTok.value, NTok.vmax] at hb ⊢; omega))
  case YY => exact app _ (fixW 1 2 _ hb.1 (by decide) (by decide) (by simp [NTok.value, NTok.vmax] at hb ⊢; omega))
  case hh => exact app _ (fixW 1 2 _ hb.1 (by decide) (by decide) (by simp [NTok.value, NTok.vmax] at hb ⊢; omega))
  case DDDD => exact fixW 3 3 _ hb.1 (by decide) (by decide) (by simp [NTok.value, NTok.vmax] at hb ⊢; omega)
  case SSS => exact app _ (fixW 1 3 _ hb.1 (by decide) (by decide) (by simp [NTok.value, NTok.vmax] at hb ⊢; omega))
  -- variable-width tokens
  case M => exact varW 1 2 0 _ hb.1 (nosep rfl) (by decide) (Or.inr (pyFmtD_len_le 2 _ hb.1 (by decide) (by simp [NTok.value, NTok.vmax] at hb ⊢; omega)))
  case D => exact varW 1 2 0 _ hb.1 (nosep rfl) (by decide) (Or.inr (pyFmtD_len_le 2 _ hb.1 (by decide) (by simp [NTok.value, NTok.vmax] at hb ⊢; omega)))
  case H => exact varW 1 2 0 _ hb.1 (nosep rfl) (by decide) (Or.inr (pyFmtD_len_le 2 _ hb.1 (by decide) (by simp [NTok.value, NTok.vmax] at hb ⊢; omega)))
  case m => exact varW 1 2 0 _ hb.1 (nosep rfl) (by decide) (Or.inr (pyFmtD_len_le 2 _ hb.1 (by decide) (by simp [NTok.value, NTok.vmax] at hb ⊢; omega)))
  case s => exact varW 1 2 0 _ hb.1 (nosep rfl) (by decide) (Or.inr (pyFmtD_len_le 2 _ hb.1 (by decide) (by simp [NTok.value, NTok.vmax] at hb ⊢; omega)))
  case h => exact varW 1 2 0 _ hb.1 (nosep rfl) (by decide) (Or.inr (pyFmtD_len_le 2 _ hb.1 (by decide) (by simp [NTok.value, NTok.vmax] at hb ⊢; omega)))
  case DDD => exact varW 1 3 0 _ hb.1 (nosep rfl) (by decide) (Or.inr (pyFmtD_len_le 3 _ hb.1 (by decide) (by simp [NTok.value, NTok.vmax] at hb ⊢; omega)))
  case SSSSSS => exact varW 1 0 6 _ hb.1 (nosep rfl) (by decide) (Or.inl rfl)
  case SSSS => exact varW 1 0 4 _ hb.1 (nosep rfl) (by decide) (Or.inl rfl)
  case SSSSS => exact varW 1 0 5 _ hb.1 (nosep rfl) (by decide) (Or.inl rfl)
  case S => exact app _ (varW 1 3 1 _ hb.1 (nosep rfl) (by decide) (Or.inr (by rw [pyFmtD_len_fixed 1 _ hb.1 (by decide) (by simp [NTok.value, NTok.vmax] at hb ⊢; omega)]; decide)))
  case SS => exact app _ (varW 1 3 2 _ hb.1 (nosep rfl) (by decide) (Or.inr (by rw [pyFmtD_len_fixed 2 _ hb.1 (by decide) (by simp [NTok.value, NTok.vmax] at hb ⊢; omega)]; decide)))

end Pendulum.Fmt

namespace Pendulum.Fmt

/-! ### offset tokens -/

/-- shape of `Z` / `ZZ` for an offset below 100 h: sign, two hour digits, optional colon, two minute digits -/
theorem offsetStr_form (off : Int) (hb : -360000 < off ∧ off < 360000) :
    ∃ a b c d : Nat, a < 10 ∧ b < 10 ∧ c < 10 ∧ d < 10 ∧
      (∀ sep : Bool, offsetStr sep off = (if off ≥ 0 then '+' else '-') ::
        (digitChar a :: digitChar b :: ((if sep then [':'] else []) ++ [digitChar c, digitChar d]))) ∧
      ((10 * a + b) * 60 + (10 * c + d) : Nat) = off.natAbs / 60 := by
  let m : Nat := off.natAbs / 60
  have hm : m < 6000 := by
    show off.natAbs / 60 < 6000
    omega
  have e1 : pyFmtD 2 (((m : Nat) : Int) / 60) = digitsW 2 (m / 60) := by
    have := pyFmtD_fixed 2 (((m : Nat) : Int) / 60) (by omega) (by decide) (by simp; omega)
    rw [this]; congr 1
  have e2 : pyFmtD 2 (((m : Nat) : Int) % 60) = digitsW 2 (m % 60) := by
    have := pyFmtD_fixed 2 (((m : Nat) : Int) % 60) (by omega) (by decide) (by simp; omega)
    rw [this]; congr 1
  refine ⟨m / 60 / 10 % 10, m / 60 % 10, m % 60 / 10 % 10, m % 60 % 10,
    Nat.mod_lt _ (by decide), Nat.mod_lt _ (by decide), Nat.mod_lt _ (by decide), Nat.mod_lt _ (by decide), ?_, ?_⟩
  · intro sep
    show offsetStr sep off = _
    unfold offsetStr
    simp only [show ((off.natAbs / 60 : Nat) : Int) = ((m : Nat) : Int) from rfl, e1, e2, digitsW_two]
    cases sep <;> simp
  · show _ = m
    omega

theorem digitChar_ne_colon (x : Nat) (h : x < 10) : digitChar x ≠ ':' := (digitChar_cases x h).2.2.2.2.2.1

theorem twoDigits_cons (a b : Nat) (ha : a < 10) (hb : b < 10) (rest : Str) :
    twoDigits (digitChar a :: digitChar b :: rest) = true := by
  have h1 := (digitChar_cases a ha).1
  have h2 := (digitChar_cases b hb).1
  simp [twoDigits, digitRun, List.take, List.takeWhile, h1, h2]

theorem sign_cases (off : Int) : (if off ≥ 0 then '+' else '-') = '+' ∨ (if off ≥ 0 then '+' else '-') = '-' := by
  by_cases h : off ≥ 0 <;> simp [h]

theorem lens_head_Z (off : Int) (hb : -360000 < off ∧ off < 360000) (rest : Str) :
    ∃ more, lensOffset false (offsetStr true off ++ rest) = (offsetStr true off).length :: more := by
  obtain ⟨a, b, c, d, ha, hb', hc, hd, hform, _⟩ := offsetStr_form off hb
  rw [hform true]
  have t1 := twoDigits_cons a b ha hb' (':' :: digitChar c :: digitChar d :: rest)
  have t2 := twoDigits_cons c d hc hd rest
  rcases sign_cases off with hs | hs <;> rw [hs] <;>
    simp [lensOffset, t1, t2, List.drop]

theorem lens_head_ZZ (off : Int) (hb : -360000 < off ∧ off < 360000) (rest : Str) :
    ∃ more, lensOffset true (offsetStr false off ++ rest) = (offsetStr false off).length :: more := by
  obtain ⟨a, b, c, d, ha, hb', hc, hd, hform, _⟩ := offsetStr_form off hb
  rw [hform false]
  have t1 := twoDigits_cons a b ha hb' (digitChar c :: digitChar d :: rest)
  have t2 := twoDigits_cons c d hc hd rest
  have nc := digitChar_ne_colon c hc
  rcases sign_cases off with hs | hs <;> rw [hs] <;>
  · simp only [lensOffset, List.cons_append, List.nil_append, if_false, Bool.false_eq_true]
    simp only [show ('+' == 'Z') = false by decide, show ('+' == 'z') = false by decide, show ('-' == 'Z') = false by decide,
      show ('-' == 'z') = false by decide, show ('+' == '+') = true by decide, show ('-' == '-') = true by decide,
      Bool.or_self, Bool.or_true, Bool.true_or, Bool.true_and, t1, if_true, List.drop, Bool.false_eq_true, if_false]
    split
    · rename_i t heq; injection heq with e _; exact absurd e nc
    · simp [t2]

/-! ### the meridiem word -/

theorem wordMatch_self (w rest : Str) : wordMatch w (w ++ rest) = true := by
  induction w with
  | nil => rfl
  | cons p ps ih =>
    simp only [List.cons_append, wordMatch, ih, Bool.and_true]
    by_cases hp : p = '.'
    · subst hp; decide
    · simp [hp]

theorem wordMatch_clash : ∀ (w x rest : Str), wordsClash w x = true → wordMatch w (x ++ rest) = false := by
  intro w
  induction w with
  | nil => intro x rest h; simp [wordsClash] at h
  | cons p ps ih =>
    intro x rest h
    cases x with
    | nil => simp [wordsClash] at h
    | cons c cs =>
      simp only [wordsClash, Bool.or_eq_true, Bool.and_eq_true, bne_iff_ne, ne_eq] at h
      simp only [List.cons_append, wordMatch]
      rcases h with ⟨h1, h2⟩ | h
      · simp [h1, h2]
      · rw [ih cs rest h]; simp

theorem wordsClash_irrefl (w : Str) : wordsClash w w = false := by
  induction w with
  | nil => rfl
  | cons p ps ih => simp [wordsClash, ih]

theorem ampm_ne (L : Loc) (hL : AmPmOK L = true) : L.pm.toList ≠ L.am.toList := by
  intro e
  unfold AmPmOK at hL
  rw [e, wordsClash_irrefl] at hL
  cases hL

theorem lens_head_A (L : Loc) (hL : AmPmOK L = true) (v : Val) (rest : Str) :
    ∃ more, lensWords [L.am.toList, L.pm.toList] (NTok.A.render L v ++ rest) = (NTok.A.render L v).length :: more := by
  unfold NTok.render
  by_cases hp : v.h ≥ 12
  · simp only [hp, if_true, lensWords, List.flatMap_cons, List.flatMap_nil, List.append_nil,
      wordMatch_clash _ _ rest hL, wordMatch_self, Bool.false_eq_true, if_false, List.nil_append]
    exact ⟨[], rfl⟩
  · simp only [hp, if_false, lensWords, List.flatMap_cons, List.flatMap_nil, List.append_nil, wordMatch_self, if_true]
    exact ⟨_, rfl⟩

theorem lens_head (L : Loc) (v : Val) (hv : InRange v) (t : NTok) (hL : t = NTok.A → AmPmOK L = true) (rest : Str)
    (hsep : t.fixed = true ∨ digitRun rest = 0) :
    ∃ more, t.lens L (t.render L v ++ rest) = (t.render L v).length :: more := by
  cases h : t.isDigitTok with
  | true => exact lens_head_digit L v hv t h rest hsep
  | false =>
    cases t <;> simp [NTok.isDigitTok] at h
    · exact lens_head_Z v.off hv.off.2 rest
    · exact lens_head_ZZ v.off hv.off.2 rest
    · exact lens_head_A L (hL rfl) v rest

end Pendulum.Fmt

namespace Pendulum.Fmt

/-! ### reading a piece back (`_get_parsed_value`) -/

/-- the field assignment a token's group performs when it reads the text `format()` wrote for `v`:
    `YY` applies the pivot (00..68 → 20xx, 69..99 → 19xx), `hh`/`h` store the 12-hour number, `A` the meridiem,
    `S`…`SSSSS` the printed digits scaled back to microseconds -/
def NTok.set (v : Val) : NTok → Parsed → Parsed
  | .YYYY, p => { p with year := some v.y }
  | .MM, p | .M, p => { p with month := some v.mo }
  | .DD, p | .D, p => { p with day := some v.d }
  | .HH, p | .H, p => { p with hour := some v.h }
  | .mm, p | .m, p => { p with minute := some v.mi }
  | .ss, p | .s, p => { p with second := some v.s }
  | .SSSSSS, p => { p with microsecond := some v.us }
  | .Z, p | .ZZ, p => { p with tz := some (TzP.fixed v.off) }
  | .YY, p => { p with year := some (if v.y % 100 ≤ 68 then v.y % 100 + 2000 else v.y % 100 + 1900) }
  | .DDDD, p | .DDD, p => { p with day_of_year := some (doy v) }
  | .hh, p | .h, p => { p with hour := some (h12 v) }
  | .A, p => { p with meridiem := some (decide (v.h ≥ 12)) }
  | .S, p => { p with microsecond := some (v.us / 100000 * 100000) }
  | .SS, p => { p with microsecond := some (v.us / 10000 * 10000) }
  | .SSS, p => { p with microsecond := some (v.us / 1000 * 1000) }
  | .SSSS, p => { p with microsecond := some (v.us / 100 * 100) }
  | .SSSSS, p => { p with microsecond := some (v.us / 10 * 10) }

theorem parseOffset_form (sep : Bool) (neg : Bool) (a b c d : Nat) (ha : a < 10) (hb : b < 10) (hc : c < 10) (hd : d < 10) :
    parseOffset ((if neg then '-' else '+') :: (digitChar a :: digitChar b :: ((if sep then [':'] else []) ++ [digitChar c, digitChar d])))
      = .ok (let o : Int := (((10 * a + b : Nat) : Int) * 60 + ((10 * c + d : Nat) : Int)) * 60
             if neg then -o else o) := by
  have da := digitChar_cases a ha
  have db := digitChar_cases b hb
  have dc := digitChar_cases c hc
  have dd := digitChar_cases d hd
  have nca := digitChar_ne_colon a ha
  have ncb := digitChar_ne_colon b hb
  have ncc := digitChar_ne_colon c hc
  have ncd := digitChar_ne_colon d hd
  have i1 : intOf [digitChar a, digitChar b] = some ((10 * a + b : Nat) : Int) := by
    rw [intOf_digits _ (by simp) (by simp [da.1, db.1])]
    simp [natOfDigits, da.2.1, db.2.1]; omega
  have i2 : intOf [digitChar c, digitChar d] = some ((10 * c + d : Nat) : Int) := by
    rw [intOf_digits _ (by simp) (by simp [dc.1, dd.1])]
    simp [natOfDigits, dc.2.1, dd.2.1]; omega
  have ea : (':' == digitChar a) = false := beq_false_of_ne (Ne.symm nca)
  have eb : (':' == digitChar b) = false := beq_false_of_ne (Ne.symm ncb)
  have ec : (':' == digitChar c) = false := beq_false_of_ne (Ne.symm ncc)
  have ed : (':' == digitChar d) = false := beq_false_of_ne (Ne.symm ncd)
  have ea' : (digitChar a != ':') = true := by simp [nca]
  have eb' : (digitChar b != ':') = true := by simp [ncb]
  have hneg : ((if neg then '-' else '+') == '-') = neg := by cases neg <;> decide
  cases sep
  · -- ZZ: hhmm
    have hc' : List.contains [digitChar a, digitChar b, digitChar c, digitChar d] ':' = false := by
      simp [List.contains, List.elem, ea, eb, ec, ed]
    simp only [parseOffset, offsetParts, List.head?, List.drop, if_false, List.nil_append, List.cons_append, Bool.false_eq_true, hc',
      Bool.not_false, if_true, List.length_cons, List.length_nil]
    simp [hneg]
    cases neg <;> simp [i1, i2]
  · -- Z: hh:mm
    have hc' : List.contains [digitChar a, digitChar b, ':', digitChar c, digitChar d] ':' = true := by
      simp [List.contains, List.elem, ea, eb]
    have tw : List.takeWhile (fun x => x != ':') [digitChar a, digitChar b, ':', digitChar c, digitChar d] = [digitChar a, digitChar b] := by
      simp [List.takeWhile, ea', eb']
    have dw : List.dropWhile (fun x => x != ':') [digitChar a, digitChar b, ':', digitChar c, digitChar d] = [':', digitChar c, digitChar d] := by
      simp [List.dropWhile, ea', eb']
    simp only [parseOffset, offsetParts, List.head?, List.drop, if_true, List.cons_append, List.nil_append, hc', Bool.not_true, Bool.false_eq_true,
      if_false, tw, dw, i1, i2]
    simp [hneg]

theorem applyGroup_NTok (L : Loc) (v : Val) (hv : InRange v) (t : NTok) (hL : t = NTok.A → AmPmOK L = true) (p : Parsed) :
    applyGroup L t.str (t.render L v) p = .ok (t.set v p) := by
  cases h : t.isDigitTok with
  | true =>
    obtain ⟨hall, hne, hval⟩ := piece_digit L v hv t h
    have hc : ∀ mul : Int, convInt (PKind.int mul 0) (t.render L v) = .ok (t.value v * mul) := by
      intro mul; rw [convInt_digits mul _ hne hall, hval]
    have h12 := h12_bounds v hv
    cases t
    case Z => simp [NTok.isDigitTok] at h
    case ZZ => simp [NTok.isDigitTok] at h
    case A => simp [NTok.isDigitTok] at h
    case YY =>
      show applyKind (FKind.year true) (PKind.int 1 0) _ p = _
      simp only [applyKind, hc, NTok.value, Int.mul_one, if_true]; rfl
    case hh =>
      show applyKind FKind.hour12 (PKind.int 1 0) _ p = _
      simp only [applyKind, hc, NTok.value, Int.mul_one]
      rw [if_neg (by omega)]; rfl
    case h =>
      show applyKind FKind.hour12 (PKind.int 1 0) _ p = _
      simp only [applyKind, hc, NTok.value, Int.mul_one]
      rw [if_neg (by omega)]; rfl
    all_goals
      first
      | (show applyKind (FKind.year false) (PKind.int 1 0) _ p = _; simp only [applyKind, hc, Int.mul_one]; rfl)
      | (show applyKind FKind.month (PKind.int 1 0) _ p = _; simp only [applyKind, hc, Int.mul_one]; rfl)
      | (show applyKind FKind.dayOfYear (PKind.int 1 0) _ p = _; simp only [applyKind, hc, Int.mul_one]; rfl)
      | (show applyKind FKind.day (PKind.int 1 0) _ p = _; simp only [applyKind, hc, Int.mul_one]; rfl)
      | (show applyKind FKind.hour (PKind.int 1 0) _ p = _; simp only [applyKind, hc, Int.mul_one]; rfl)
      | (show applyKind FKind.minute (PKind.int 1 0) _ p = _; simp only [applyKind, hc, Int.mul_one]; rfl)
      | (show applyKind FKind.second (PKind.int 1 0) _ p = _; simp only [applyKind, hc, Int.mul_one]; rfl)
      | (show applyKind FKind.micro (PKind.int 1 0) _ p = _; simp only [applyKind, hc, Int.mul_one]; rfl)
      | (show applyKind FKind.micro (PKind.int 100000 0) _ p = _; simp only [applyKind, hc]; rfl)
      | (show applyKind FKind.micro (PKind.int 10000 0) _ p = _; simp only [applyKind, hc]; rfl)
      | (show applyKind FKind.micro (PKind.int 1000 0) _ p = _; simp only [applyKind, hc]; rfl)
      | (show applyKind FKind.micro (PKind.int 100 0) _ p = _; simp only [applyKind, hc]; rfl)
      | (show applyKind FKind.micro (PKind.int 10 0) _ p = _; simp only [applyKind, hc]; rfl)
  | false =>
    have hoff := hv.off
    have key : ∀ sep : Bool, parseOffset (offsetStr sep v.off) = .ok v.off := by
      intro sep
      obtain ⟨a, b, c, d, ha, hb, hc, hd, hform, hsum⟩ := offsetStr_form v.off hoff.2
      have hs : (if v.off ≥ 0 then '+' else '-') = (if decide (v.off < 0) then '-' else '+') := by
        by_cases h0 : v.off ≥ 0
        · simp [h0, Int.not_lt.mpr h0]
        · have : v.off < 0 := by omega
          simp [h0, this]
      rw [hform sep, hs, parseOffset_form sep (decide (v.off < 0)) a b c d ha hb hc hd]
      congr 1
      have e : (((10 * a + b : Nat) : Int) * 60 + ((10 * c + d : Nat) : Int)) = ((v.off.natAbs / 60 : Nat) : Int) := by
        rw [← hsum]; push_cast; omega
      simp only [e]
      by_cases h0 : v.off < 0
      · simp [h0]; omega
      · simp [h0]; omega
    cases t <;> simp [NTok.isDigitTok] at h
    · show applyKind FKind.offset PKind.str (offsetStr true v.off) p = _
      simp only [applyKind, key true]; rfl
    · show applyKind FKind.offset PKind.str (offsetStr false v.off) p = _
      simp only [applyKind, key false]; rfl
    · have hne := ampm_ne L (hL rfl)
      show (if (NTok.A.render L v) == L.am.toList then Except.ok { p with meridiem := some false }
            else if (NTok.A.render L v) == L.pm.toList then Except.ok { p with meridiem := some true }
            else Except.error "ValueError") = _
      unfold NTok.render NTok.set
      by_cases hp : v.h ≥ 12
      · simp [hp, hne]
      · simp [hp]

end Pendulum.Fmt
