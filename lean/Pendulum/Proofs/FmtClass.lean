import Pendulum.Proofs.FmtMatch
/-! The class 𝓕 of round-trip formats treated by proof: numeric tokens carrying each field at most once per
family, literal separators, a non-digit after every variable-width token. -/
namespace Pendulum.Fmt

/-- numeric tokens of the class -/
inductive NTok where
  | YYYY | MM | M | DD | D | HH | H | mm | m | ss | s | SSSSSS | Z | ZZ
  deriving DecidableEq, Repr

def NTok.str : NTok → String
  | .YYYY => "YYYY" | .MM => "MM" | .M => "M" | .DD => "DD" | .D => "D" | .HH => "HH" | .H => "H"
  | .mm => "mm" | .m => "m" | .ss => "ss" | .s => "s" | .SSSSSS => "SSSSSS" | .Z => "Z" | .ZZ => "ZZ"

/-- rendered width never exceeds what the recogniser takes greedily, whatever follows -/
def NTok.fixed : NTok → Bool
  | .YYYY | .MM | .DD | .HH | .mm | .ss | .Z | .ZZ => true
  | _ => false

/-- values in the property's domain: years 1000..9999, valid clock fields, whole-minute offset below 100 h -/
structure InRange (v : Val) : Prop where
  y : 1000 ≤ v.y ∧ v.y ≤ 9999
  mo : 1 ≤ v.mo ∧ v.mo ≤ 12
  d : 1 ≤ v.d ∧ v.d ≤ 31
  h : 0 ≤ v.h ∧ v.h ≤ 23
  mi : 0 ≤ v.mi ∧ v.mi ≤ 59
  s : 0 ≤ v.s ∧ v.s ≤ 59
  us : 0 ≤ v.us ∧ v.us ≤ 999999
  off : v.off % 60 = 0 ∧ -360000 < v.off ∧ v.off < 360000

/-- what `format()` writes for the token -/
def NTok.render (v : Val) : NTok → Str
  | .YYYY => pyFmtD 0 v.y | .MM => pyFmtD 2 v.mo | .M => pyFmtD 0 v.mo | .DD => pyFmtD 2 v.d | .D => pyFmtD 0 v.d
  | .HH => pyFmtD 2 v.h | .H => pyFmtD 0 v.h | .mm => pyFmtD 2 v.mi | .m => pyFmtD 0 v.mi
  | .ss => pyFmtD 2 v.s | .s => pyFmtD 0 v.s | .SSSSSS => pyFmtD 6 v.us
  | .Z => offsetStr true v.off | .ZZ => offsetStr false v.off

theorem formatToken_NTok (L : Loc) (v : Val) (t : NTok) : formatToken L v.toDTF t.str = .ok (t.render v) := by
  cases t <;> rfl

/-- the recogniser `_replace_tokens` builds for the token -/
def NTok.lens : NTok → El
  | .YYYY => fun s => lensD 1 4 s ++ lensD 4 4 s
  | .MM | .HH | .mm | .ss => fun s => lensD 1 2 s ++ lensD 2 2 s
  | .M | .D | .H | .m | .s => lensD 1 2
  | .DD => fun s => lensPad s ++ lensD 2 2 s
  | .SSSSSS => lensD 1 0
  | .Z => lensOffset false
  | .ZZ => lensOffset true

theorem groupOf_NTok (L : Loc) (t : NTok) : ∃ f, groupOf L t.str = Group.lens f ∧ f = t.lens := by
  cases t <;> exact ⟨_, rfl, rfl⟩

end Pendulum.Fmt

namespace Pendulum.Fmt

/-! ### pieces of the digit tokens -/

theorem digitsW_two (n : Nat) : digitsW 2 n = [digitChar (n / 10 % 10), digitChar (n % 10)] := by
  simp [digitsW]

theorem isDigit_ne (c : Char) (h : c.isDigit = true) : c ≠ ' ' ∧ c ≠ '-' ∧ c ≠ '+' := by
  refine ⟨?_, ?_, ?_⟩ <;> (intro e; subst e; revert h; decide)

/-- `int()` of a non-empty run of digits -/
theorem intOf_digits (r : Str) (hne : r ≠ []) (hall : r.all Char.isDigit = true) : intOf r = some (natOfDigits r : Int) := by
  cases r with
  | nil => exact absurd rfl hne
  | cons c cs =>
    simp only [List.all_cons, Bool.and_eq_true] at hall
    obtain ⟨h1, h2, h3⟩ := isDigit_ne c hall.1
    have hall' : (c :: cs).all Char.isDigit = true := by simp [hall.1, hall.2]
    unfold intOf
    have hd : List.dropWhile (fun x => x == ' ') (c :: cs) = c :: cs := by
      have : (c == ' ') = false := by simp [h1]
      simp [List.dropWhile, this]
    simp only [hd]
    split
    · rename_i r heq; injection heq with e _; exact absurd e h2
    · rename_i r heq; injection heq with e _; exact absurd e h3
    · simp [hall']

theorem convInt_digits (r : Str) (hne : r ≠ []) (hall : r.all Char.isDigit = true) :
    convInt (PKind.int 1 0) r = .ok (natOfDigits r : Int) := by
  simp [convInt, intOf_digits r hne hall]

/-- a digit token: the field it carries and the zero-padding width of its rule -/
def NTok.isDigitTok : NTok → Bool
  | .Z | .ZZ => false
  | _ => true

def NTok.value (v : Val) : NTok → Int
  | .YYYY => v.y | .MM | .M => v.mo | .DD | .D => v.d | .HH | .H => v.h | .mm | .m => v.mi | .ss | .s => v.s
  | .SSSSSS => v.us | _ => 0

def NTok.width : NTok → Nat
  | .MM | .DD | .HH | .mm | .ss => 2
  | .SSSSSS => 6
  | _ => 0

theorem render_digit (v : Val) (t : NTok) (h : t.isDigitTok = true) : t.render v = pyFmtD t.width (t.value v) := by
  cases t <;> first | rfl | simp [NTok.isDigitTok] at h

theorem value_nonneg (v : Val) (hv : InRange v) (t : NTok) : 0 ≤ t.value v := by
  obtain ⟨h1, h2, h3, h4, h5, h6, h7, _⟩ := hv
  cases t <;> simp only [NTok.value] <;> omega

/-- a digit token's piece is a non-empty run of digits that reads back as the field -/
theorem piece_digit (v : Val) (hv : InRange v) (t : NTok) (h : t.isDigitTok = true) :
    (t.render v).all Char.isDigit = true ∧ t.render v ≠ [] ∧ (natOfDigits (t.render v) : Int) = t.value v := by
  rw [render_digit v t h]
  have h0 := value_nonneg v hv t
  exact ⟨pyFmtD_all_digit _ _ h0, pyFmtD_ne_nil _ _ h0, natOfDigits_pyFmtD _ _ h0⟩

/-! ### first candidate = rendered piece -/

theorem lens_head_digit (v : Val) (hv : InRange v) (t : NTok) (h : t.isDigitTok = true) (rest : Str)
    (hsep : t.fixed = true ∨ digitRun rest = 0) : ∃ more, t.lens (t.render v ++ rest) = (t.render v).length :: more := by
  obtain ⟨hall, hne, _⟩ := piece_digit v hv t h
  obtain ⟨h1, h2, h3, h4, h5, h6, h7, _⟩ := hv
  have two : ∀ (n : Int), 0 ≤ n → n ≤ 99 → pyFmtD 2 n = digitsW 2 n.toNat := fun n a b =>
    pyFmtD_fixed 2 n a (by decide) (by simp; omega)
  have short : ∀ (n : Int), 0 ≤ n → n ≤ 99 → (pyFmtD 0 n).length ≤ 2 := by
    intro n a b
    rw [pyFmtD_nonneg 0 n a, digitsW_length]
    have := numDigitsAux_le n.toNat n.toNat 2 (by decide) (by simp; omega)
    unfold numDigits; omega
  have pos : ∀ (w : Nat) (n : Int), 0 ≤ n → 1 ≤ (pyFmtD w n).length := by
    intro w n a
    have := pyFmtD_ne_nil w n a
    cases hh : pyFmtD w n with
    | nil => exact absurd hh this
    | cons _ _ => simp
  -- fixed two-digit tokens
  have fix2 : ∀ (n : Int), 0 ≤ n → n ≤ 99 →
      ∃ more, (lensD 1 2 (pyFmtD 2 n ++ rest) ++ lensD 2 2 (pyFmtD 2 n ++ rest)) = (pyFmtD 2 n).length :: more := by
    intro n a b
    rw [two n a b]
    obtain ⟨m, hm⟩ := lensD_fixed 1 2 (digitsW 2 n.toNat) rest (digitsW_all_digit _ _) (digitsW_length _ _) (by decide) (by decide)
    rw [hm, digitsW_length]
    exact head_append _ _ _
  -- variable-width tokens followed by a non-digit
  have var2 : ∀ (n : Int), 0 ≤ n → n ≤ 99 → digitRun rest = 0 →
      ∃ more, lensD 1 2 (pyFmtD 0 n ++ rest) = (pyFmtD 0 n).length :: more := by
    intro n a b hr
    exact lensD_sep 1 2 _ rest (pyFmtD_all_digit _ _ a) hr (pos 0 n a) (Or.inr (short n a b))
  cases t with
  | YYYY =>
    have e : pyFmtD 0 v.y = digitsW 4 v.y.toNat :=
      pyFmtD_plain 4 v.y (by omega) (by decide) (Or.inl (by simp; omega)) (by simp; omega)
    simp only [NTok.lens, NTok.render, e]
    obtain ⟨m, hm⟩ := lensD_fixed 1 4 (digitsW 4 v.y.toNat) rest (digitsW_all_digit _ _) (digitsW_length _ _) (by decide) (by decide)
    rw [hm, digitsW_length]
    exact head_append _ _ _
  | MM => exact fix2 v.mo (by omega) (by omega)
  | HH => exact fix2 v.h (by omega) (by omega)
  | mm => exact fix2 v.mi (by omega) (by omega)
  | ss => exact fix2 v.s (by omega) (by omega)
  | DD =>
    simp only [NTok.lens, NTok.render, two v.d (by omega) (by omega), digitsW_two]
    have a1 := (digitChar_cases (v.d.toNat / 10 % 10) (Nat.mod_lt _ (by decide))).1
    have a2 := (digitChar_cases (v.d.toNat % 10) (Nat.mod_lt _ (by decide))).1
    have : digitRun (digitChar (v.d.toNat % 10) :: rest) ≥ 1 := by
      have := digitRun_append [digitChar (v.d.toNat % 10)] rest (by simp [a2])
      simp at this; omega
    simp only [List.cons_append, List.nil_append, lensPad, a1, Bool.true_or, if_true, this, List.length_cons, List.length_nil]
    exact ⟨_, rfl⟩
  | M => rcases hsep with hf | hr
         · simp [NTok.fixed] at hf
         · exact var2 v.mo (by omega) (by omega) hr
  | D => rcases hsep with hf | hr
         · simp [NTok.fixed] at hf
         · exact var2 v.d (by omega) (by omega) hr
  | H => rcases hsep with hf | hr
         · simp [NTok.fixed] at hf
         · exact var2 v.h (by omega) (by omega) hr
  | m => rcases hsep with hf | hr
         · simp [NTok.fixed] at hf
         · exact var2 v.mi (by omega) (by omega) hr
  | s => rcases hsep with hf | hr
         · simp [NTok.fixed] at hf
         · exact var2 v.s (by omega) (by omega) hr
  | SSSSSS =>
    rcases hsep with hf | hr
    · simp [NTok.fixed] at hf
    · exact lensD_sep 1 0 _ rest (pyFmtD_all_digit _ _ (by omega)) hr (pos 6 v.us (by omega)) (Or.inl rfl)
  | Z => simp [NTok.isDigitTok] at h
  | ZZ => simp [NTok.isDigitTok] at h

end Pendulum.Fmt

namespace Pendulum.Fmt

/-! ### offset tokens -/

/-- shape of `Z` / `ZZ` for an offset below 100 h: sign, two hour digits, optional colon, two minute digits -/
theorem offsetStr_form (off : Int) (hb : -360000 < off ∧ off < 360000) :
    ∃ a b c d : Nat, a < 10 ∧ b < 10 ∧ c < 10 ∧ d < 10 ∧
      (∀ sep : Bool, offsetStr sep off = (if off ≥ 0 then '+' else '-') ::
        (digitChar a :: digitChar b :: ((if sep then [':'] else []) ++ [digitChar c, digitChar d]))) ∧
      ((10 * a + b) * 60 + (10 * c + d) : Nat) = off.natAbs / 60 := by
  let m : Nat := off.natAbs / 60
  have hm : m < 6000 := by
    show off.natAbs / 60 < 6000
    omega
  have e1 : pyFmtD 2 (((m : Nat) : Int) / 60) = digitsW 2 (m / 60) := by
    have := pyFmtD_fixed 2 (((m : Nat) : Int) / 60) (by omega) (by decide) (by simp; omega)
    rw [this]; congr 1
  have e2 : pyFmtD 2 (((m : Nat) : Int) % 60) = digitsW 2 (m % 60) := by
    have := pyFmtD_fixed 2 (((m : Nat) : Int) % 60) (by omega) (by decide) (by simp; omega)
    rw [this]; congr 1
  refine ⟨m / 60 / 10 % 10, m / 60 % 10, m % 60 / 10 % 10, m % 60 % 10,
    Nat.mod_lt _ (by decide), Nat.mod_lt _ (by decide), Nat.mod_lt _ (by decide), Nat.mod_lt _ (by decide), ?_, ?_⟩
  · intro sep
    show offsetStr sep off = _
    unfold offsetStr
    simp only [show ((off.natAbs / 60 : Nat) : Int) = ((m : Nat) : Int) from rfl, e1, e2, digitsW_two]
    cases sep <;> simp
  · show _ = m
    omega

theorem digitChar_ne_colon (x : Nat) (h : x < 10) : digitChar x ≠ ':' := (digitChar_cases x h).2.2.2.2.2.1

theorem twoDigits_cons (a b : Nat) (ha : a < 10) (hb : b < 10) (rest : Str) :
    twoDigits (digitChar a :: digitChar b :: rest) = true := by
  have h1 := (digitChar_cases a ha).1
  have h2 := (digitChar_cases b hb).1
  simp [twoDigits, digitRun, List.take, List.takeWhile, h1, h2]

theorem sign_cases (off : Int) : (if off ≥ 0 then '+' else '-') = '+' ∨ (if off ≥ 0 then '+' else '-') = '-' := by
  by_cases h : off ≥ 0 <;> simp [h]

theorem lens_head_Z (off : Int) (hb : -360000 < off ∧ off < 360000) (rest : Str) :
    ∃ more, lensOffset false (offsetStr true off ++ rest) = (offsetStr true off).length :: more := by
  obtain ⟨a, b, c, d, ha, hb', hc, hd, hform, _⟩ := offsetStr_form off hb
  rw [hform true]
  have t1 := twoDigits_cons a b ha hb' (':' :: digitChar c :: digitChar d :: rest)
  have t2 := twoDigits_cons c d hc hd rest
  rcases sign_cases off with hs | hs <;> rw [hs] <;>
    simp [lensOffset, t1, t2, List.drop]

theorem lens_head_ZZ (off : Int) (hb : -360000 < off ∧ off < 360000) (rest : Str) :
    ∃ more, lensOffset true (offsetStr false off ++ rest) = (offsetStr false off).length :: more := by
  obtain ⟨a, b, c, d, ha, hb', hc, hd, hform, _⟩ := offsetStr_form off hb
  rw [hform false]
  have t1 := twoDigits_cons a b ha hb' (digitChar c :: digitChar d :: rest)
  have t2 := twoDigits_cons c d hc hd rest
  have nc := digitChar_ne_colon c hc
  rcases sign_cases off with hs | hs <;> rw [hs] <;>
  · simp only [lensOffset, List.cons_append, List.nil_append, if_false, Bool.false_eq_true]
    simp only [show ('+' == 'Z') = false by decide, show ('+' == 'z') = false by decide, show ('-' == 'Z') = false by decide,
      show ('-' == 'z') = false by decide, show ('+' == '+') = true by decide, show ('-' == '-') = true by decide,
      Bool.or_self, Bool.or_true, Bool.true_or, Bool.true_and, t1, if_true, List.drop, Bool.false_eq_true, if_false]
    split
    · rename_i t heq; injection heq with e _; exact absurd e nc
    · simp [t2]

theorem lens_head (v : Val) (hv : InRange v) (t : NTok) (rest : Str) (hsep : t.fixed = true ∨ digitRun rest = 0) :
    ∃ more, t.lens (t.render v ++ rest) = (t.render v).length :: more := by
  cases h : t.isDigitTok with
  | true => exact lens_head_digit v hv t h rest hsep
  | false =>
    cases t <;> simp [NTok.isDigitTok] at h
    · exact lens_head_Z v.off hv.off.2 rest
    · exact lens_head_ZZ v.off hv.off.2 rest

end Pendulum.Fmt

namespace Pendulum.Fmt

/-! ### reading a piece back (`_get_parsed_value`) -/

/-- the field assignment a token's group performs when it reads the text `format()` wrote for `v` -/
def NTok.set (v : Val) : NTok → Parsed → Parsed
  | .YYYY, p => { p with year := some v.y }
  | .MM, p | .M, p => { p with month := some v.mo }
  | .DD, p | .D, p => { p with day := some v.d }
  | .HH, p | .H, p => { p with hour := some v.h }
  | .mm, p | .m, p => { p with minute := some v.mi }
  | .ss, p | .s, p => { p with second := some v.s }
  | .SSSSSS, p => { p with microsecond := some v.us }
  | .Z, p | .ZZ, p => { p with tz := some (TzP.fixed v.off) }

theorem parseOffset_form (sep : Bool) (neg : Bool) (a b c d : Nat) (ha : a < 10) (hb : b < 10) (hc : c < 10) (hd : d < 10) :
    parseOffset ((if neg then '-' else '+') :: (digitChar a :: digitChar b :: ((if sep then [':'] else []) ++ [digitChar c, digitChar d])))
      = .ok (let o : Int := (((10 * a + b : Nat) : Int) * 60 + ((10 * c + d : Nat) : Int)) * 60
             if neg then -o else o) := by
  have da := digitChar_cases a ha
  have db := digitChar_cases b hb
  have dc := digitChar_cases c hc
  have dd := digitChar_cases d hd
  have nca := digitChar_ne_colon a ha
  have ncb := digitChar_ne_colon b hb
  have ncc := digitChar_ne_colon c hc
  have ncd := digitChar_ne_colon d hd
  have i1 : intOf [digitChar a, digitChar b] = some ((10 * a + b : Nat) : Int) := by
    rw [intOf_digits _ (by simp) (by simp [da.1, db.1])]
    simp [natOfDigits, da.2.1, db.2.1]; omega
  have i2 : intOf [digitChar c, digitChar d] = some ((10 * c + d : Nat) : Int) := by
    rw [intOf_digits _ (by simp) (by simp [dc.1, dd.1])]
    simp [natOfDigits, dc.2.1, dd.2.1]; omega
  have ea : (':' == digitChar a) = false := beq_false_of_ne (Ne.symm nca)
  have eb : (':' == digitChar b) = false := beq_false_of_ne (Ne.symm ncb)
  have ec : (':' == digitChar c) = false := beq_false_of_ne (Ne.symm ncc)
  have ed : (':' == digitChar d) = false := beq_false_of_ne (Ne.symm ncd)
  have ea' : (digitChar a != ':') = true := by simp [nca]
  have eb' : (digitChar b != ':') = true := by simp [ncb]
  have hneg : ((if neg then '-' else '+') == '-') = neg := by cases neg <;> decide
  cases sep
  · -- ZZ: hhmm
    have hc' : List.contains [digitChar a, digitChar b, digitChar c, digitChar d] ':' = false := by
      simp [List.contains, List.elem, ea, eb, ec, ed]
    simp only [parseOffset, offsetParts, List.head?, List.drop, if_false, List.nil_append, List.cons_append, Bool.false_eq_true, hc',
      Bool.not_false, if_true, List.length_cons, List.length_nil]
    simp [hneg]
    cases neg <;> simp [i1, i2]
  · -- Z: hh:mm
    have hc' : List.contains [digitChar a, digitChar b, ':', digitChar c, digitChar d] ':' = true := by
      simp [List.contains, List.elem, ea, eb]
    have tw : List.takeWhile (fun x => x != ':') [digitChar a, digitChar b, ':', digitChar c, digitChar d] = [digitChar a, digitChar b] := by
      simp [List.takeWhile, ea', eb']
    have dw : List.dropWhile (fun x => x != ':') [digitChar a, digitChar b, ':', digitChar c, digitChar d] = [':', digitChar c, digitChar d] := by
      simp [List.dropWhile, ea', eb']
    simp only [parseOffset, offsetParts, List.head?, List.drop, if_true, List.cons_append, List.nil_append, hc', Bool.not_true, Bool.false_eq_true,
      if_false, tw, dw, i1, i2]
    simp [hneg]

theorem applyGroup_NTok (L : Loc) (v : Val) (hv : InRange v) (t : NTok) (p : Parsed) :
    applyGroup L t.str (t.render v) p = .ok (t.set v p) := by
  cases h : t.isDigitTok with
  | true =>
    obtain ⟨hall, hne, hval⟩ := piece_digit v hv t h
    have hc := convInt_digits _ hne hall
    rw [hval] at hc
    cases t
    case Z => simp [NTok.isDigitTok] at h
    case ZZ => simp [NTok.isDigitTok] at h
    all_goals
      first
      | (show applyKind (FKind.year false) (PKind.int 1 0) _ p = _; simp only [applyKind, hc]; rfl)
      | (show applyKind FKind.month (PKind.int 1 0) _ p = _; simp only [applyKind, hc]; rfl)
      | (show applyKind FKind.day (PKind.int 1 0) _ p = _; simp only [applyKind, hc]; rfl)
      | (show applyKind FKind.hour (PKind.int 1 0) _ p = _; simp only [applyKind, hc]; rfl)
      | (show applyKind FKind.minute (PKind.int 1 0) _ p = _; simp only [applyKind, hc]; rfl)
      | (show applyKind FKind.second (PKind.int 1 0) _ p = _; simp only [applyKind, hc]; rfl)
      | (show applyKind FKind.micro (PKind.int 1 0) _ p = _; simp only [applyKind, hc]; rfl)
  | false =>
    have hoff := hv.off
    have key : ∀ sep : Bool, parseOffset (offsetStr sep v.off) = .ok v.off := by
      intro sep
      obtain ⟨a, b, c, d, ha, hb, hc, hd, hform, hsum⟩ := offsetStr_form v.off hoff.2
      have hs : (if v.off ≥ 0 then '+' else '-') = (if decide (v.off < 0) then '-' else '+') := by
        by_cases h0 : v.off ≥ 0
        · simp [h0, Int.not_lt.mpr h0]
        · have : v.off < 0 := by omega
          simp [h0, this]
      rw [hform sep, hs, parseOffset_form sep (decide (v.off < 0)) a b c d ha hb hc hd]
      congr 1
      have e : (((10 * a + b : Nat) : Int) * 60 + ((10 * c + d : Nat) : Int)) = ((v.off.natAbs / 60 : Nat) : Int) := by
        rw [← hsum]; push_cast; omega
      simp only [e]
      by_cases h0 : v.off < 0
      · simp [h0]; omega
      · simp [h0]; omega
    cases t <;> simp [NTok.isDigitTok] at h
    · show applyKind FKind.offset PKind.str (offsetStr true v.off) p = _
      simp only [applyKind, key true]; rfl
    · show applyKind FKind.offset PKind.str (offsetStr false v.off) p = _
      simp only [applyKind, key false]; rfl

end Pendulum.Fmt
