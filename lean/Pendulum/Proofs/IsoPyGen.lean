import Pendulum.Model.Iso
import Pendulum.Proofs.Iso
import Pendulum.Proofs.GenTie
import Pendulum.Gen.IsoPy
/-! Tie between the *generated* translation of the pure-Python ISO 8601 date/time parser (`Pendulum.Gen.IsoPy`, regenerated from
`parsing/iso8601.py` on every run by tools/gen_isopy.py) and the Python side of the hand model `Model/Iso.lean` (`pyParse`) the
C07 theorems are stated about.

The hand model reads a string in two steps: the regular expression `ISO8601_DT` as a first-match enumeration that yields the
*numbers* of the groups (`pyMatch : … → Option (PyD × Option PyT)`), then the post-processing of those numbers (`pyDateFields`,
`pyWeek`, `pyTimeFields`, `pyTzOffset`, `pyAmbiguousTime`, the assembly inside `pyParse`). The generated code is the source's
post-processing of the group *texts*. Interface between the two (hand-written, small):
* `WD` / `WT` / `WTz`: a match as written — which groups took part and their texts; `valid` = the regex-shape facts (`year` is
  4 decimal digits, `month` 2, `day` 1 or 2, `hour`/`minute`/`second` 1 or 2, the fraction 1–9, an offset `±hh[:][mm]`);
  `dtGroups` = the match object (all 24 named groups) of such a match; `pyDOf` / `pyTOf` = the numbers the model's matcher
  yields for it (`val` = the decimal value of a digit text);
* `pyPost`: the post-processing half of `pyParse`, with `pyParse_eq_post` (by `rfl`) saying so;
* `build`: the standard-library constructor a `Parsed` request stands for (`mkDate` / `mkTime` / `mkDateTime` of the model);
* `ExtOk`: what the model says about the external callees (`digit` = Python's decimal digit table `dv .py`; `date(y, 1, 1) +
  timedelta(days=n)` for `0 ≤ n <` the length of year `y`), satisfiable: `refExt`. -/
set_option linter.unusedSimpArgs false
set_option linter.unusedVariables false
namespace Pendulum.IsoPyGen
open Pendulum Pendulum.Iso
open Pendulum.Gen.IsoPy (Text bindE tryExcept truthy TzInfo Parsed DtGroups Ext)
open Pendulum.GenTie

/-- run the tactics without error recovery and cut the error message short: the check keeps only the tail of the build log,
    and the name of the broken tie theorem (logged by `gen_tie` right after) must stay in it -/
elab "iso_short_err " t:tacticSeq : tactic => do
  try
    Lean.Elab.Tactic.withoutRecover (Lean.Elab.Tactic.evalTactic t)
  catch e =>
    if e.isRuntime || !(e matches .error ..) then throw e
    let msg ← e.toMessageData.toString
    let msg := if msg.length > 600 then (msg.take 600).toString ++ " …" else msg
    throwError "{msg}"

/-- `itie "theorem" "source" => tacs` = `gen_tie` (Proofs/GenTie.lean) around `iso_short_err tacs` -/
macro "itie " n:str src:str " => " t:tacticSeq : tactic => `(tactic| gen_tie $n $src => iso_short_err $t)

/-! ## vocabulary -/

def kx : Kind → String
  | .parserError => "ParserError"
  | .valueError => "ValueError"
  | .other n => n

def liftE {α β : Type} (f : α → β) : Except Kind α → Except String β
  | .ok v => .ok (f v)
  | .error k => .error (kx k)

def tzOff : TzInfo → Option Int
  | .none => none
  | .utc => some 0
  | .fixed o => some o

/-- the standard-library constructor call a `Parsed` request stands for, as the model has it -/
def build : Parsed → Except String Value
  | .date y m d => liftE id (mkDate y m d)
  | .time h mi s us tz => liftE id (mkTime h mi s us (tzOff tz))
  | .datetime y m d h mi s us tz => liftE id (mkDateTime y m d h mi s us (tzOff tz))

@[simp] theorem bindE_ok {α β : Type} (v : α) (f : α → Except String β) : bindE (.ok v) f = f v := rfl
@[simp] theorem bindE_error {α β : Type} (e : String) (f : α → Except String β) :
    bindE (.error e : Except String α) f = .error e := rfl

/-! ## digit texts -/

/-- every character is a decimal digit (what `\d` matches) -/
def IsDigits (cs : Text) : Prop := ∀ c ∈ cs, (dv .py c).isSome = true

/-- `k` decimal digits -/
def Dig (k : Nat) (cs : Text) : Prop := cs.length = k ∧ IsDigits cs

def valFrom (acc : Nat) (cs : Text) : Nat := cs.foldl (fun a c => 10 * a + (dv .py c).getD 0) acc

/-- the decimal value of a digit text -/
def val (cs : Text) : Nat := valFrom 0 cs

/-- the digit values of a digit text -/
def dvals (cs : Text) : List Nat := cs.map fun c => (dv .py c).getD 0

theorem IsDigits_cons {c : Char} {cs : Text} (h : IsDigits (c :: cs)) : (∃ d, dv .py c = some d) ∧ IsDigits cs := by
  refine ⟨?_, fun x hx => h x (List.mem_cons_of_mem _ hx)⟩
  have := h c (List.mem_cons_self ..)
  cases hd : dv .py c with
  | none => simp [hd] at this
  | some d => exact ⟨d, rfl⟩

theorem py_nat_digits (cs : Text) (h : IsDigits cs) (acc : Nat) :
    Gen.IsoPy.py_nat (dv .py) cs (acc : Int) = .ok ((valFrom acc cs : Nat) : Int) := by
  induction cs generalizing acc with
  | nil => rfl
  | cons c cs ih =>
    obtain ⟨⟨d, hd⟩, hr⟩ := IsDigits_cons h
    simp only [Gen.IsoPy.py_nat, hd, valFrom, List.foldl_cons, Option.getD_some]
    have := ih hr (10 * acc + d)
    simp only [valFrom] at this
    rw [← this]
    congr 1
    all_goals simp

theorem dv_minus : dv .py '-' = none := by decide
theorem dv_plus : dv .py '+' = none := by decide
theorem dv_colon : dv .py ':' = none := by decide
theorem dv_zero : dv .py '0' = some 0 := by decide

/-- `int(s)` of a non-empty digit text -/
theorem py_int_digits (cs : Text) (hne : cs ≠ []) (h : IsDigits cs) :
    Gen.IsoPy.py_int (dv .py) cs = .ok ((val cs : Nat) : Int) := by
  cases cs with
  | nil => exact absurd rfl hne
  | cons c cs =>
    obtain ⟨⟨d, hd⟩, hr⟩ := IsDigits_cons h
    have h1 : c ≠ '-' := fun e => by rw [e, dv_minus] at hd; cases hd
    have h2 : c ≠ '+' := fun e => by rw [e, dv_plus] at hd; cases hd
    have := py_nat_digits (c :: cs) h 0
    unfold Gen.IsoPy.py_int
    split
    · rename_i e; cases e
    · rename_i e; injection e with e1; exact absurd e1 h1
    · rename_i e; injection e with e1; exact absurd e1 h2
    · rename_i e; injection e with e1; exact absurd e1 h1
    · rename_i e; injection e with e1; exact absurd e1 h2
    · simpa [val] using this

theorem Dig.ne_nil {k : Nat} {cs : Text} (h : Dig (k + 1) cs) : cs ≠ [] := by
  intro e; rw [e] at h; cases h.1

theorem py_int_dig {k : Nat} {cs : Text} (h : Dig (k + 1) cs) :
    Gen.IsoPy.py_int (dv .py) cs = .ok ((val cs : Nat) : Int) := py_int_digits cs h.ne_nil h.2

theorem truthy_dig {k : Nat} {cs : Text} (h : Dig (k + 1) cs) : truthy (some cs) = true := by
  cases cs with
  | nil => cases h.1
  | cons c cs => rfl

theorem dv_lt (c : Char) (d : Nat) (h : dv .py c = some d) : d < 10 := by
  simp only [dv, ndDigit] at h
  split at h
  · rename_i s hs
    have := List.find?_some hs
    simp only [Bool.and_eq_true, decide_eq_true_eq] at this
    cases h; omega
  · cases h

theorem valFrom_lt (cs : Text) (h : IsDigits cs) (acc : Nat) : valFrom acc cs < (acc + 1) * 10 ^ cs.length := by
  induction cs generalizing acc with
  | nil => simp [valFrom]
  | cons c cs ih =>
    obtain ⟨⟨d, hd⟩, hr⟩ := IsDigits_cons h
    have hlt := dv_lt c d hd
    have := ih hr (10 * acc + d)
    simp only [valFrom, List.foldl_cons, hd, Option.getD_some, List.length_cons] at this ⊢
    calc _ < (10 * acc + d + 1) * 10 ^ cs.length := this
      _ ≤ ((acc + 1) * 10) * 10 ^ cs.length := Nat.mul_le_mul_right _ (by omega)
      _ = (acc + 1) * 10 ^ (cs.length + 1) := by rw [Nat.pow_succ, Nat.mul_assoc, Nat.mul_comm 10]

theorem val_lt {k : Nat} {cs : Text} (h : Dig k cs) : val cs < 10 ^ k := by
  have := valFrom_lt cs h.2 0
  rw [h.1] at this
  simpa [val] using this

/-! ## external callees, `_get_iso_8601_week` -/

structure ExtOk {V : Type} (ext : Ext V) : Prop where
  digit : ext.digit = dv .py
  date_add : ∀ y n : Int, 0 ≤ n → n < Cal.daysInYear y →
    ext.date_add_days y 1 1 n =
      (if 1 ≤ y ∧ y ≤ 9999 then
        .ok (y, Cal.monthOfYday (Cal.isLeap y) n, n + 1 - Cal.daysBeforeMonth (Cal.isLeap y) (Cal.monthOfYday (Cal.isLeap y) n))
       else .error "ValueError")

def WeekRel : Except String (Int × Int × Int) → Except Kind (Int × Int × Int) → Prop
  | .ok a, .ok b => a = b
  | .error e, .error _ => e = "ParserError" ∨ e = "ValueError"
  | _, _ => False

theorem gen_leap (y : Int) : Gen.is_leap y = Cal.isLeap y := rfl
theorem gen_diy (y : Int) : Gen.days_in_year y = Cal.daysInYear y := by
  unfold Gen.days_in_year Cal.daysInYear; rw [gen_leap]
theorem diy_cases (y : Int) : Cal.daysInYear y = 365 ∨ Cal.daysInYear y = 366 := by
  unfold Cal.daysInYear; split <;> simp
theorem week_day_range (y m d : Int) : 1 ≤ Gen.week_day y m d ∧ Gen.week_day y m d ≤ 7 := by
  have key : ∀ t : Int, 1 ≤ (if (t % 7 == 0) = true then (7 : Int) else t % 7) ∧ (if (t % 7 == 0) = true then (7 : Int) else t % 7) ≤ 7 := by
    intro t
    split
    · omega
    · rename_i h
      have : t % 7 ≠ 0 := by simpa using h
      omega
  simp only [Gen.week_day]
  exact key _

def wdOf : Option Nat → Int
  | none => 1
  | some d => d

theorem pyWeek_eq (y w : Int) (o : Option Nat) : pyWeek y w o =
    (if w < 1 ∨ w > 53 ∨ (w > 52 ∧ Gen.is_long_year y = false) then .error .parserError else
     if wdOf o < 1 ∨ wdOf o > 7 then .error .parserError else
     if (adjust Gen.days_in_year (w * 7 + wdOf o - (Gen.week_day y 1 4 + 3)) y).2 < 1 ∨
        (adjust Gen.days_in_year (w * 7 + wdOf o - (Gen.week_day y 1 4 + 3)) y).2 > 9999 then .error .parserError else
     .ok ((adjust Gen.days_in_year (w * 7 + wdOf o - (Gen.week_day y 1 4 + 3)) y).2,
       Cal.monthOfYday (Cal.isLeap (adjust Gen.days_in_year (w * 7 + wdOf o - (Gen.week_day y 1 4 + 3)) y).2)
         ((adjust Gen.days_in_year (w * 7 + wdOf o - (Gen.week_day y 1 4 + 3)) y).1 - 1),
       (adjust Gen.days_in_year (w * 7 + wdOf o - (Gen.week_day y 1 4 + 3)) y).1 -
         Cal.daysBeforeMonth (Cal.isLeap (adjust Gen.days_in_year (w * 7 + wdOf o - (Gen.week_day y 1 4 + 3)) y).2)
           (Cal.monthOfYday (Cal.isLeap (adjust Gen.days_in_year (w * 7 + wdOf o - (Gen.week_day y 1 4 + 3)) y).2)
             ((adjust Gen.days_in_year (w * 7 + wdOf o - (Gen.week_day y 1 4 + 3)) y).1 - 1)))) := by
  cases o <;> rfl

theorem week_core {V : Type} (ext : Ext V) (hx : ExtOk ext) (y w : Int) (o : Option Nat) (C1 C2 : Bool) (Y O : Int)
    (h1 : C1 = true ↔ (w < 1 ∨ w > 53 ∨ (w > 52 ∧ Gen.is_long_year y = false)))
    (h2 : C2 = true ↔ (wdOf o < 1 ∨ wdOf o > 7))
    (hY : Y = (adjust Gen.days_in_year (w * 7 + wdOf o - (Gen.week_day y 1 4 + 3)) y).2)
    (hO : O = (adjust Gen.days_in_year (w * 7 + wdOf o - (Gen.week_day y 1 4 + 3)) y).1) :
    WeekRel
      (if C1 = true then .error "ParserError" else
       if C2 = true then .error "ParserError" else
       bindE (ext.date_add_days Y 1 1 (O - 1)) fun dt => .ok (dt.1, dt.2.1, dt.2.2))
      (pyWeek y w o) := by
  rw [pyWeek_eq]
  by_cases c1 : w < 1 ∨ w > 53 ∨ (w > 52 ∧ Gen.is_long_year y = false)
  · rw [if_pos (h1.mpr c1), if_pos c1]; exact Or.inl rfl
  · rw [if_neg (fun h => c1 (h1.mp h)), if_neg c1]
    by_cases c2 : wdOf o < 1 ∨ wdOf o > 7
    · rw [if_pos (h2.mpr c2), if_pos c2]; exact Or.inl rfl
    · rw [if_neg (fun h => c2 (h2.mp h)), if_neg c2]
      subst hY hO
      -- the ordinal after the year adjustment lies inside its year
      generalize hord : w * 7 + wdOf o - (Gen.week_day y 1 4 + 3) = ord
      have hwdr := week_day_range y 1 4
      have hrange : -2 ≤ ord ∧ ord ≤ 374 := by omega
      have hadj : 1 ≤ (adjust Gen.days_in_year ord y).1 ∧
          (adjust Gen.days_in_year ord y).1 ≤ Cal.daysInYear (adjust Gen.days_in_year ord y).2 := by
        unfold adjust adj1
        simp only [gen_diy]
        have d0 := diy_cases y
        have d1 := diy_cases (y - 1)
        have d2 := diy_cases (y - 1 + 1)
        have d3 := diy_cases (y + 1)
        split <;> split <;> simp_all <;> omega
      generalize adjust Gen.days_in_year ord y = oy at hadj ⊢
      rw [hx.date_add oy.2 (oy.1 - 1) (by omega) (by omega)]
      by_cases c3 : oy.2 < 1 ∨ oy.2 > 9999
      · have : ¬ (1 ≤ oy.2 ∧ oy.2 ≤ 9999) := by omega
        simp only [if_neg this, if_pos c3, bindE_error]; exact Or.inr rfl
      · have : 1 ≤ oy.2 ∧ oy.2 ≤ 9999 := by omega
        simp only [if_pos this, if_neg c3, bindE_ok]
        show (_, _, _) = (_, _, _)
        congr 2
        omega

/-- the year adjustment of the source, in the shape the translator gives it, is the model's `adjust` -/
theorem adjust_snd (dy : Int → Int) (ord y : Int) :
    (if decide ((if decide (ord < 1) = true then ord + dy (y - 1) else ord) > dy (if decide (ord < 1) = true then y - 1 else y)) = true
      then (if decide (ord < 1) = true then y - 1 else y) + 1 else (if decide (ord < 1) = true then y - 1 else y)) =
    (adjust dy ord y).2 := by
  unfold adjust adj1
  by_cases h : ord < 1
  · by_cases h2 : ord + dy (y - 1) > dy (y - 1) <;> simp [h, h2]
  · by_cases h2 : ord > dy y <;> simp [h, h2]

theorem adjust_fst (dy : Int → Int) (ord y : Int) :
    (if decide ((if decide (ord < 1) = true then ord + dy (y - 1) else ord) > dy (if decide (ord < 1) = true then y - 1 else y)) = true
      then (if decide (ord < 1) = true then ord + dy (y - 1) else ord) - dy (if decide (ord < 1) = true then y - 1 else y)
      else (if decide (ord < 1) = true then ord + dy (y - 1) else ord)) =
    (adjust dy ord y).1 := by
  unfold adjust adj1
  by_cases h : ord < 1
  · by_cases h2 : ord + dy (y - 1) > dy (y - 1) <;> simp [h, h2]
  · by_cases h2 : ord > dy y <;> simp [h, h2]

theorem week_tie {V : Type} (ext : Ext V) (hx : ExtOk ext) (ty tw : Text) (twd : Option Text) (hy : Dig 4 ty) (hw : Dig 2 tw)
    (hwd : ∀ t, twd = some t → Dig 1 t) :
    WeekRel (Gen.IsoPy.py_get_iso_8601_week ext (some ty) (some tw) twd) (pyWeek (val ty) (val tw) (twd.map val)) := by
  itie "C07.week_date_source_eq_model" "iso8601.py::_get_iso_8601_week" =>
    unfold Gen.IsoPy.py_get_iso_8601_week
    rw [hx.digit]
    simp only [Gen.IsoPy.py_text, bindE_ok, py_int_dig hy, py_int_dig hw]
    cases twd with
    | none =>
      simp only [truthy, Bool.not_false, if_true, bindE_ok, Option.map_none]
      refine week_core ext hx _ _ none _ _ _ _ ?_ ?_ ?_ ?_
      · first | (simp [wdOf, or_assoc]; done) | (simp only [wdOf, Bool.or_eq_true, Bool.and_eq_true, decide_eq_true_eq, Bool.not_eq_true']; grind)
      · first | (simp [wdOf]; done) | (simp only [wdOf, Bool.or_eq_true, Bool.and_eq_true, decide_eq_true_eq, Bool.not_eq_true']; grind)
      · simp only [wdOf]; first | rfl | (rw [← adjust_snd]) | (simp [adjust, adj1]; done)
      · simp only [wdOf]; first | rfl | (rw [← adjust_fst]) | (simp [adjust, adj1]; done)
    | some t =>
      have ht := hwd t rfl
      simp only [truthy_dig ht, Bool.not_true, Bool.false_eq_true, if_false, Option.getD_some, py_int_dig ht, bindE_ok,
        Option.map_some]
      refine week_core ext hx _ _ (some (val t)) _ _ _ _ ?_ ?_ ?_ ?_
      · first | (simp [wdOf, or_assoc]; done) | (simp only [wdOf, Bool.or_eq_true, Bool.and_eq_true, decide_eq_true_eq, Bool.not_eq_true']; grind)
      · first | (simp [wdOf]; done) | (simp only [wdOf, Bool.or_eq_true, Bool.and_eq_true, decide_eq_true_eq, Bool.not_eq_true']; grind)
      · simp only [wdOf]; first | rfl | (rw [← adjust_snd]) | (simp [adjust, adj1]; done)
      · simp only [wdOf]; first | rfl | (rw [← adjust_fst]) | (simp [adjust, adj1]; done)
/-! ## the offset block -/

/-- an offset as written: `Z`, or sign, two hour digits, optional colon, optional two minute digits -/
inductive WTz
  | z
  | off (neg : Bool) (hh : Text) (colon : Bool) (mm : Option Text)

def WTz.valid : WTz → Prop
  | .z => True
  | .off _ hh _ mm => Dig 2 hh ∧ ∀ t, mm = some t → Dig 2 t

/-- the text of the group `tz` -/
def WTz.text : WTz → Text
  | .z => ['Z']
  | .off neg hh colon mm => (if neg then '-' else '+') :: (hh ++ ((if colon then [':'] else []) ++ mm.getD []))

/-- what the model's matcher yields for it -/
def WTz.py : WTz → PyTz
  | .z => .z
  | .off neg hh colon mm => .off neg (val hh) colon (mm.map val)

theorem dig2_cases {cs : Text} (h : Dig 2 cs) :
    ∃ a b, cs = [a, b] ∧ IsDigits [a, b] ∧ a ≠ ':' ∧ b ≠ ':' ∧ ':' ≠ a ∧ ':' ≠ b := by
  obtain ⟨hl, hd⟩ := h
  rcases cs with _ | ⟨a, _ | ⟨b, _ | ⟨c, r⟩⟩⟩ <;> simp at hl
  have ha : a ≠ ':' := by
    obtain ⟨d, hd'⟩ := (IsDigits_cons hd).1
    intro e; rw [e, dv_colon] at hd'; cases hd'
  have hb : b ≠ ':' := by
    obtain ⟨d, hd'⟩ := (IsDigits_cons (IsDigits_cons hd).2).1
    intro e; rw [e, dv_colon] at hd'; cases hd'
  exact ⟨a, b, rfl, hd, ha, hb, Ne.symm ha, Ne.symm hb⟩

theorem py_int_00 : Gen.IsoPy.py_int (dv .py) ['0', '0'] = .ok 0 := by
  simp [Gen.IsoPy.py_int, Gen.IsoPy.py_nat, dv_zero]

theorem py_int_nil (d : Char → Option Nat) : Gen.IsoPy.py_int d [] = .error "ValueError" := rfl

theorem offset_tie {V : Type} (ext : Ext V) (hx : ExtOk ext) (g : DtGroups) (otz : Option WTz) (hv : ∀ t, otz = some t → t.valid) :
    bindE (Gen.IsoPy.py_iso_offset ext g (otz.map WTz.text)) (fun t => .ok (tzOff t)) = liftE id (pyTzOffset (otz.map WTz.py)) := by
  itie "C07.offset_source_eq_model" "iso8601.py::parse_iso8601 (the `if tz:` block)" =>
    unfold Gen.IsoPy.py_iso_offset
    rw [hx.digit]
    cases otz with
    | none => rfl
    | some t =>
      have htv := hv t rfl
      cases t with
      | z => rfl
      | off neg hh colon mm =>
        obtain ⟨h1, h2⟩ := htv
        obtain ⟨a, b, rfl, hab, ha, hb, ha', hb'⟩ := dig2_cases h1
        have iab := py_int_digits [a, b] (by simp) hab
        cases mm with
        | none =>
          cases colon <;> cases neg <;>
            simp [WTz.text, WTz.py, pyTzOffset, truthy, Gen.IsoPy.py_slice, Gen.IsoPy.py_len, Gen.IsoPy.py_split, ha, hb, ha', hb',
              iab, py_int_00, py_int_nil, tzOff, liftE, kx] <;> omega
        | some t2 =>
          obtain ⟨c, d, rfl, hcd, hc, hd, hc', hd'⟩ := dig2_cases (h2 t2 rfl)
          have icd := py_int_digits [c, d] (by simp) hcd
          cases colon <;> cases neg <;>
            simp [WTz.text, WTz.py, pyTzOffset, truthy, Gen.IsoPy.py_slice, Gen.IsoPy.py_len, Gen.IsoPy.py_split, ha, hb, hc, hd,
              ha', hb', hc', hd', iab, icd, tzOff, liftE, kx] <;> omega
/-! ## matches as written, the date block -/

/-- the date part of a match as written: which alternative matched and the texts of its digit groups -/
inductive WD
  | nodate
  | year (y : Text)
  | ym (y : Text) (msep : Bool) (mo : Text)
  | ymd (y : Text) (msep : Bool) (mo : Text) (dsep : Bool) (d : Text)
  | week (y : Text) (wsep : Bool) (w : Text) (wdsep : Bool) (wd : Option Text)

/-- the regex-shape facts: `\d{4}`, `\d{2}`, `\d{1,2}`, `\d` -/
def WD.valid : WD → Prop
  | .nodate => True
  | .year y => Dig 4 y
  | .ym y _ mo => Dig 4 y ∧ Dig 2 mo
  | .ymd y _ mo _ d => Dig 4 y ∧ Dig 2 mo ∧ (Dig 1 d ∨ Dig 2 d)
  | .week y _ w _ wd => Dig 4 y ∧ Dig 2 w ∧ ∀ t, wd = some t → Dig 1 t

/-- an optional one-character separator: its text, and the group that captures it -/
def sepT (b : Bool) (c : Char) : Text := if b then [c] else []
def sepG (b : Bool) (c : Char) : Option Text := if b then some [c] else none

def WD.text : WD → Text
  | .nodate => []
  | .year y => y
  | .ym y s mo => y ++ (sepT s '-' ++ mo)
  | .ymd y s mo ds d => y ++ (sepT s '-' ++ mo ++ (sepT ds '-' ++ d))
  | .week y ws w wds wd => y ++ (sepT ws '-' ++ 'W' :: w ++ (sepT wds '-' ++ wd.getD []))

def WD.isDate : WD → Bool
  | .nodate => false
  | _ => true

/-- the numbers the model's matcher yields -/
def WD.py : WD → PyD
  | .nodate => .nodate
  | .year y => .year (val y)
  | .ym y s mo => .ym (val y) s (val mo)
  | .ymd y s mo ds d => .ymd (val y) s (val mo) ds d.length (val d)
  | .week y ws w wds wd => .week (val y) ws (val w) wds (wd.map val)

/-- the time part of a match as written -/
structure WT where
  timesep : Option Char
  hour : Text
  minsep : Bool
  minute : Option Text
  secsep : Bool
  second : Option Text
  frac : Option (Char × Text)
  tz : Option WTz

def Dig12 (cs : Text) : Prop := Dig 1 cs ∨ Dig 2 cs

def WT.valid (t : WT) : Prop :=
  (∀ c, t.timesep = some c → c = 'T' ∨ c = ' ') ∧ Dig12 t.hour ∧ (∀ x, t.minute = some x → Dig12 x) ∧
  (∀ x, t.second = some x → Dig12 x) ∧
  (∀ f, t.frac = some f → (f.1 = '.' ∨ f.1 = ',') ∧ 1 ≤ f.2.length ∧ f.2.length ≤ 9 ∧ IsDigits f.2) ∧
  (∀ o, t.tz = some o → o.valid)

def optT (o : Option Text) : Text := o.getD []

def WT.text (t : WT) : Text :=
  (match t.timesep with | some c => [c] | none => []) ++ (t.hour ++ (sepT t.minsep ':' ++ (optT t.minute ++ (sepT t.secsep ':' ++
    (optT t.second ++ ((match t.frac with | some f => f.1 :: f.2 | none => []) ++ optT (t.tz.map WTz.text)))))))

def WT.py (t : WT) : PyT :=
  ⟨t.timesep.isSome, val t.hour, t.minsep, t.minute.map val, t.secsep, t.second.map val, t.frac.map fun f => dvals f.2,
    t.tz.map WTz.py⟩

/-- the match object of `ISO8601_DT` for a string that matched as `d` followed by `t`: all 24 named groups -/
def dtGroups (d : WD) (t : Option WT) : DtGroups where
  date := match d with | .nodate => none | _ => some d.text
  classic := match d with | .year .. | .ym .. | .ymd .. => some d.text | _ => none
  year := match d with | .year y | .ym y .. | .ymd y .. => some y | _ => none
  monthday := match d with
    | .ym _ s mo => some (sepT s '-' ++ mo)
    | .ymd _ s mo ds dd => some (sepT s '-' ++ mo ++ (sepT ds '-' ++ dd))
    | _ => none
  monthsep := match d with | .ym _ s _ | .ymd _ s .. => sepG s '-' | _ => none
  month := match d with | .ym _ _ mo | .ymd _ _ mo .. => some mo | _ => none
  daysep := match d with | .ymd _ _ _ ds _ => sepG ds '-' | _ => none
  day := match d with | .ymd _ _ _ _ dd => some dd | _ => none
  isocalendar := match d with | .week .. => some d.text | _ => none
  isoyear := match d with | .week y .. => some y | _ => none
  weeksep := match d with | .week _ ws .. => sepG ws '-' | _ => none
  isoweek := match d with | .week _ _ w .. => some w | _ => none
  weekdaysep := match d with | .week _ _ _ wds _ => sepG wds '-' | _ => none
  isoweekday := match d with | .week _ _ _ _ wd => wd | _ => none
  time := t.map WT.text
  timesep := t.bind fun t => t.timesep.map fun c => [c]
  hour := t.map (·.hour)
  minsep := t.bind fun t => sepG t.minsep ':'
  minute := t.bind (·.minute)
  secsep := t.bind fun t => sepG t.secsep ':'
  second := t.bind (·.second)
  subsecondsection := t.bind fun t => t.frac.map fun f => f.1 :: f.2
  subsecond := t.bind fun t => t.frac.map (·.2)
  tz := t.bind fun t => t.tz.map WTz.text

/-! ### small facts about texts -/

theorem truthy_sepG (b : Bool) (c : Char) : truthy (sepG b c) = b := by cases b <;> rfl
theorem truthy_sepT (b : Bool) (c : Char) : truthy (some (sepT b c)) = b := by cases b <;> rfl
theorem truthy_none : truthy none = false := rfl
theorem truthy_nil : truthy (some []) = false := rfl
theorem truthy_cons (c : Char) (cs : Text) : truthy (some (c :: cs)) = true := rfl
theorem truthy_append (a b : Text) : truthy (some (a ++ b)) = (truthy (some a) || truthy (some b)) := by
  cases a with
  | nil => simp [truthy_nil]
  | cons c cs => simp [truthy_cons]

theorem valFrom_append (a b : Text) (acc : Nat) : valFrom acc (a ++ b) = valFrom (valFrom acc a) b := by
  simp [valFrom, List.foldl_append]

theorem valFrom_single (c : Char) (acc : Nat) : valFrom acc [c] = 10 * acc + (dv .py c).getD 0 := rfl

theorem IsDigits_append {a b : Text} (ha : IsDigits a) (hb : IsDigits b) : IsDigits (a ++ b) := by
  intro c hc
  rcases List.mem_append.mp hc with h | h
  · exact ha c h
  · exact hb c h

/-- the table walk of the source (`for i in range(1, 14): if ordinal <= months_offsets[i]: …; break`) is the model's `walk` -/
theorem walk_first (off : Int → Int) (ord : Int) (n : Nat) (i : Int) :
    walk off false ord n i =
      (Gen.IsoPy.py_first_go (fun j => decide (ord ≤ off j)) n i).map fun j => (j - 1, ord - off (j - 1)) := by
  induction n generalizing i with
  | zero => rfl
  | succ n ih =>
    simp only [walk, Gen.IsoPy.py_first_go, Bool.false_eq_true, if_false]
    by_cases h : ord ≤ off i
    · simp [h]
    · simp [h, ih]

theorem pyOff_eq (leap : Bool) :
    pyOff leap = fun i => if leap then Gen.py_MONTHS_OFFSETS_1 i else Gen.py_MONTHS_OFFSETS_0 i := rfl

/-- `try: … except ParserError: raise  except ValueError: raise ParserError(…)` around the week conversion -/
theorem week_try (r : Except String (Int × Int × Int)) (m : Except Kind (Int × Int × Int)) (h : WeekRel r m)
    (hs : List (List String × (String → Except String (Int × Int × Int))))
    (hh : ∀ e, e = "ParserError" ∨ e = "ValueError" → tryExcept (.error e) hs = .error "ParserError") :
    tryExcept r hs = liftE id (match m with | .error _ => .error .parserError | .ok v => .ok v) := by
  cases r with
  | ok a =>
    cases m with
    | ok b => simp only [WeekRel] at h; subst h; rfl
    | error k => cases h
  | error e =>
    cases m with
    | ok b => cases h
    | error k => simp only [WeekRel] at h; rw [hh e h]; rfl

theorem date_part_tie {V : Type} (ext : Ext V) (hx : ExtOk ext) (d : WD) (t : Option WT) (hd : d.valid) :
    Gen.IsoPy.py_iso_date_part ext (dtGroups d t) false 0 1 1 false =
      liftE (fun r => (d.isDate, r.1, r.2.1, r.2.2.1, r.2.2.2)) (pyDateFields d.py) := by
  itie "C07.iso_date_part_source_eq_model" "iso8601.py::parse_iso8601 (the `if m.group(\"date\"):` block)" =>
    unfold Gen.IsoPy.py_iso_date_part
    rw [hx.digit]
    cases d with
    | nodate => rfl
    | year y =>
      simp only [WD.valid] at hd
      simp [dtGroups, WD.text, truthy_dig hd, truthy_none, Gen.IsoPy.py_text, py_int_dig hd, WD.py, pyDateFields, liftE, WD.isDate]
    | ym y s mo =>
      obtain ⟨hy, hm⟩ := hd
      simp [dtGroups, WD.text, truthy_append, truthy_dig hy, truthy_dig hm, truthy_none, Gen.IsoPy.py_text, py_int_dig hy,
        py_int_dig hm, WD.py, pyDateFields, liftE, WD.isDate, truthy_sepG]
    | ymd y s mo ds dd =>
      obtain ⟨hy, hm, hdd⟩ := hd
      have hdd1 : ∃ k, Dig (k + 1) dd := by rcases hdd with h | h; exact ⟨0, h⟩; exact ⟨1, h⟩
      obtain ⟨k, hk⟩ := hdd1
      have tdd : truthy (some dd) = true := truthy_dig hk
      by_cases hord : ds = false ∧ dd.length = 1
      · obtain ⟨h1, h2⟩ := hord
        have hd1 : Dig 1 dd := ⟨h2, hk.2⟩
        have hcat : Dig 3 (mo ++ dd) := ⟨by simp [hm.1, h2], IsDigits_append hm.2 hd1.2⟩
        have hval : (val (mo ++ dd) : Int) = (val mo : Int) * 10 + val dd := by
          obtain ⟨c, rfl⟩ : ∃ c, dd = [c] := by
            rcases dd with _ | ⟨c, _ | _⟩ <;> simp at h2
            exact ⟨c, rfl⟩
          simp only [val, valFrom_append, valFrom_single]
          simp [valFrom]
          omega
        subst h1
        have e13 : ((14 : Int) - 1).toNat = 13 := by decide
        simp only [dtGroups, WD.text, WD.py, pyDateFields, WD.isDate, Gen.IsoPy.py_first_in_range, pyOff_eq, walk_first, e13]
        by_cases hbig : (val mo : Int) * 10 + val dd > if Gen.is_leap (val y) = true then Gen.py_MONTHS_OFFSETS_1 13 else Gen.py_MONTHS_OFFSETS_0 13
        · simp [truthy_append, truthy_dig hy, truthy_dig hm, tdd, truthy_sepG, truthy_none, Gen.IsoPy.py_text, py_int_dig hy,
            Gen.IsoPy.py_len, h2, py_int_dig hcat, hval, hbig, liftE, kx]
        · simp [truthy_append, truthy_dig hy, truthy_dig hm, tdd, truthy_sepG, truthy_none, Gen.IsoPy.py_text, py_int_dig hy,
            Gen.IsoPy.py_len, h2, py_int_dig hcat, hval, hbig, liftE, kx]
          generalize Gen.IsoPy.py_first_go _ 13 1 = r
          cases r <;> simp [liftE]
      · have hc : (!(truthy (sepG ds '-')) && (Gen.IsoPy.py_len dd == 1)) = false := by
          rw [truthy_sepG]
          cases ds <;> simp [Gen.IsoPy.py_len] at hord ⊢
          omega
        have hc' : ¬ (ds = false ∧ dd.length = 1) := hord
        simp [dtGroups, WD.text, truthy_append, truthy_dig hy, truthy_dig hm, tdd, truthy_none, Gen.IsoPy.py_text, py_int_dig hy,
          py_int_dig hm, py_int_dig hk, hc, hc', WD.py, pyDateFields, liftE, WD.isDate]
    | week y ws w wds wd =>
      obtain ⟨hy, hw, hwd⟩ := hd
      have hwt := week_tie ext hx y w wd hy hw hwd
      simp only [dtGroups, WD.text, truthy_append, truthy_dig hy, Bool.true_or, if_true, truthy_sepG, WD.py, pyDateFields, WD.isDate]
      have twd : truthy wd = wd.isSome := by
        cases wd with
        | none => rfl
        | some t => simp [truthy_dig (hwd t rfl)]
      rw [twd]
      rw [week_try _ _ hwt _ (by intro e he; rcases he with rfl | rfl <;> first | rfl | decide | simp [tryExcept, Gen.IsoPy.py_isa])]
      cases ws <;> cases wds <;> cases wd <;> simp [liftE, kx] <;> (cases pyWeek (val y) (val w) _ <;> simp [liftE, kx])
/-! ## the whole post-processing -/

/-- the post-processing half of `pyParse` (Model/Iso.lean): everything after the match -/
def pyPost (dg : PyD) (tg : Option PyT) : R :=
  match pyDateFields dg with
  | .error e => .error e
  | .ok (y, m, d, amb) =>
    match tg with
    | none =>
      if amb then
        (match dg with
          | .ym yy _ mo => pyAmbiguousTime yy mo
          | _ => .error .parserError)
      else mkDate y m d
    | some t =>
      if amb then .error .parserError else
      if dg ≠ .nodate ∧ t.timesep = false then .error .parserError else
      match pyTimeFields t with
      | .error e => .error e
      | .ok tr =>
        if dg = .nodate then mkTime tr.h tr.mi tr.s tr.us tr.off
        else mkDateTime y m d tr.h tr.mi tr.s tr.us tr.off

/-- `pyParse` is the match followed by `pyPost` -/
theorem pyParse_eq_post (cs0 : List Char) :
    pyParse cs0 =
      if cs0.head? = some 'P' then .error (.other "Duration") else
      match pyMatch (stripNl cs0) with
      | none => .error .parserError
      | some (dg, tg) => pyPost dg tg := rfl

theorem fmt4 (y : Nat) (h : y < 10000) : Gen.IsoPy.py_fmt_0d 4 (y : Int) = digits 4 y := by
  have : ¬ ((y : Int) < 0) := by omega
  simp [Gen.IsoPy.py_fmt_0d, this, h, Gen.IsoPy.py_digits, digits, digitChar]

theorem fmt2 (y : Nat) (h : y < 100) : Gen.IsoPy.py_fmt_0d 2 (y : Int) = digits 2 y := by
  have : ¬ ((y : Int) < 0) := by omega
  simp [Gen.IsoPy.py_fmt_0d, this, h, Gen.IsoPy.py_digits, digits, digitChar]

theorem py_int_2 (a b : Nat) (ha : a < 10) (hb : b < 10) :
    Gen.IsoPy.py_int (dv .py) [digitChar a, digitChar b] = .ok ((10 * a + b : Nat) : Int) := by
  have h : IsDigits [digitChar a, digitChar b] := by
    intro c hc
    simp only [List.mem_cons, List.mem_nil_iff, or_false] at hc
    rcases hc with rfl | rfl
    · rw [dv_digitChar .py a ha]; rfl
    · rw [dv_digitChar .py b hb]; rfl
  rw [py_int_digits _ (by simp) h]
  simp [val, valFrom, dv_digitChar .py a ha, dv_digitChar .py b hb]

/-- the "ambiguous date is really hhmmss" branch: `f"{year:04d}{month:02d}"` sliced 2/2/2 -/
theorem hhmmss (y mo : Nat) (hy : y < 10000) (hm : mo < 100) :
    Gen.IsoPy.py_int (dv .py) (Gen.IsoPy.py_slice (Gen.IsoPy.py_fmt_0d 4 (y : Int) ++ Gen.IsoPy.py_fmt_0d 2 (mo : Int)) 0 (some 2)) = .ok ((y / 100 : Nat) : Int) ∧
    Gen.IsoPy.py_int (dv .py) (Gen.IsoPy.py_slice (Gen.IsoPy.py_fmt_0d 4 (y : Int) ++ Gen.IsoPy.py_fmt_0d 2 (mo : Int)) 2 (some 4)) = .ok ((y % 100 : Nat) : Int) ∧
    Gen.IsoPy.py_int (dv .py) (Gen.IsoPy.py_slice (Gen.IsoPy.py_fmt_0d 4 (y : Int) ++ Gen.IsoPy.py_fmt_0d 2 (mo : Int)) 4 none) = .ok (mo : Int) := by
  rw [fmt4 y hy, fmt2 mo hm]
  simp only [digits, Gen.IsoPy.py_slice, List.cons_append, List.nil_append, List.take, List.drop, Nat.pow_zero, Nat.div_one]
  refine ⟨?_, ?_, ?_⟩
  · rw [py_int_2 _ _ (Nat.mod_lt _ (by omega)) (Nat.mod_lt _ (by omega))]; congr 1; omega
  · rw [py_int_2 _ _ (Nat.mod_lt _ (by omega)) (Nat.mod_lt _ (by omega))]; congr 1; omega
  · rw [py_int_2 _ _ (Nat.mod_lt _ (by omega)) (Nat.mod_lt _ (by omega))]; congr 1; omega

/-- only `YYYYMM` is ambiguous -/
theorem amb_ym (d : WD) (y m dd : Int) (h : pyDateFields d.py = .ok (y, m, dd, true)) :
    ∃ ty tm, d = .ym ty false tm := by
  cases d with
  | nodate => simp [WD.py, pyDateFields] at h
  | year y => simp [WD.py, pyDateFields] at h
  | ym ty s tm =>
    simp only [WD.py, pyDateFields] at h
    cases s
    · exact ⟨ty, tm, rfl⟩
    · simp at h
  | ymd ty s tm ds td =>
    simp only [WD.py, pyDateFields] at h
    split at h
    · split at h
      · cases h
      · split at h <;> simp at h
    · simp at h
  | week ty ws tw wds twd =>
    simp only [WD.py, pyDateFields] at h
    repeat' split at h
    all_goals simp at h

/-- microseconds: `int(f"{subsecond[:6]:0<6}")` is the model's `microAcc 6 0` -/
theorem micro_val (k : Nat) (f : Text) (acc : Nat) :
    valFrom acc (f.take k ++ List.replicate (k - (f.take k).length) '0') = microAcc k acc (dvals f) := by
  induction k generalizing f acc with
  | zero => simp [valFrom, microAcc]
  | succ k ih =>
    cases f with
    | nil =>
      have := ih [] (acc * 10)
      simp only [List.take_nil, List.length_nil, Nat.sub_zero, List.nil_append, dvals, List.map_nil] at this ⊢
      simp only [List.replicate_succ, valFrom, List.foldl_cons, dv_zero, Option.getD_some, microAcc]
      simp only [valFrom] at this
      rw [← this]; congr 1; omega
    | cons c cs =>
      have := ih cs (acc * 10 + (dv .py c).getD 0)
      simp only [List.take_succ_cons, List.length_cons, Nat.succ_sub_succ, List.cons_append, dvals, List.map_cons, microAcc,
        valFrom, List.foldl_cons] at this ⊢
      rw [← this]; congr 1; omega

theorem micro_tie (f : Text) (hne : f ≠ []) (h : IsDigits f) :
    Gen.IsoPy.py_int (dv .py) (Gen.IsoPy.py_ljust (Gen.IsoPy.py_slice f 0 (some 6)) 6 '0') = .ok ((microAcc 6 0 (dvals f) : Nat) : Int) := by
  have hd : IsDigits (Gen.IsoPy.py_ljust (Gen.IsoPy.py_slice f 0 (some 6)) 6 '0') := by
    intro c hc
    simp only [Gen.IsoPy.py_ljust, Gen.IsoPy.py_slice, List.drop_zero, List.mem_append, List.mem_replicate] at hc
    rcases hc with hc | ⟨_, rfl⟩
    · exact h c (List.mem_of_mem_take hc)
    · rw [dv_zero]; rfl
  have hn : Gen.IsoPy.py_ljust (Gen.IsoPy.py_slice f 0 (some 6)) 6 '0' ≠ [] := by
    cases f with
    | nil => exact absurd rfl hne
    | cons c cs => simp [Gen.IsoPy.py_ljust, Gen.IsoPy.py_slice]
  rw [py_int_digits _ hn hd]
  have := micro_val 6 f 0
  simp only [val, Gen.IsoPy.py_ljust, Gen.IsoPy.py_slice, List.drop_zero]
  rw [this]

theorem offset_cases (r : Except String TzInfo) (m : Except Kind (Option Int))
    (h : bindE r (fun t => .ok (tzOff t)) = liftE id m) :
    (∃ tzv, r = .ok tzv ∧ m = .ok (tzOff tzv)) ∨ (∃ k, r = .error (kx k) ∧ m = .error k) := by
  cases r with
  | ok tzv =>
    cases m with
    | ok o => simp [liftE] at h; exact Or.inl ⟨tzv, rfl, by rw [h]⟩
    | error k => simp [liftE] at h
  | error e =>
    cases m with
    | ok o => simp [liftE] at h
    | error k => simp [liftE] at h; exact Or.inr ⟨k, by rw [h], rfl⟩

theorem dig12_int {cs : Text} (h : Dig12 cs) : Gen.IsoPy.py_int (dv .py) cs = .ok ((val cs : Nat) : Int) := by
  rcases h with h | h <;> exact py_int_dig h

theorem dig12_truthy {cs : Text} (h : Dig12 cs) : truthy (some cs) = true := by
  rcases h with h | h <;> exact truthy_dig h

theorem datetime_tie {V : Type} (ext : Ext V) (hx : ExtOk ext) (d : WD) (t : Option WT) (hd : d.valid)
    (ht : ∀ x, t = some x → x.valid) :
    bindE (Gen.IsoPy.py_iso_datetime ext (dtGroups d t)) build = liftE id (pyPost d.py (t.map WT.py)) := by
  itie "C07.iso_datetime_source_eq_model" "iso8601.py::parse_iso8601 (after the match)" =>
    unfold Gen.IsoPy.py_iso_datetime
    simp only []
    rw [date_part_tie ext hx d t hd, hx.digit]
    unfold pyPost
    cases hdf : pyDateFields d.py with
    | error k => simp [liftE]
    | ok r =>
      obtain ⟨y, m, dd, amb⟩ := r
      simp only [liftE, bindE_ok]
      cases t with
      | none =>
        cases amb with
        | false =>
          simp only [dtGroups, Option.map_none, truthy_none, Bool.not_false, if_true, Bool.false_eq_true, if_false, bindE_ok, build]
          rfl
        | true =>
          obtain ⟨ty, tm, rfl⟩ := amb_ym d y m dd hdf
          obtain ⟨hy, hm⟩ := hd
          simp only [WD.py, pyDateFields] at hdf
          injection hdf with hdf
          simp only [Prod.mk.injEq] at hdf
          obtain ⟨rfl, rfl, rfl, _⟩ := hdf
          obtain ⟨h1, h2, h3⟩ := hhmmss (val ty) (val tm) (val_lt hy) (val_lt hm)
          simp only [dtGroups, Option.map_none, truthy_none, Bool.not_false, if_true, bindE_ok, h1, h2, h3, build, tzOff,
            WD.py, pyAmbiguousTime]
          rfl
      | some wt =>
        obtain ⟨ts, hour, minsep, minute, secsep, second, frac, tz⟩ := wt
        have hv := ht _ rfl
        simp only [WT.valid] at hv
        obtain ⟨hts, hh, hmi, hs, hf, htz⟩ := hv
        have htime : truthy (some (WT.text ⟨ts, hour, minsep, minute, secsep, second, frac, tz⟩)) = true := by
          simp only [WT.text, truthy_append, dig12_truthy hh, Bool.true_or, Bool.or_true]
        cases amb with
        | true => simp [dtGroups, htime, kx]
        | false =>
          have hsep : truthy (ts.map fun c => [c]) = ts.isSome := by cases ts <;> rfl
          have hnd : (d.py ≠ .nodate) = (d.isDate = true) := by cases d <;> simp [WD.py, WD.isDate]
          simp only [dtGroups, Option.map_some, Option.bind_some, htime, Bool.not_true, Bool.false_eq_true, if_false, hsep,
            WT.py, hnd]
          by_cases hc1 : d.isDate = true ∧ ts.isSome = false
          · simp [hc1, kx]
          · have hc1' : ¬ ((d.isDate && !ts.isSome) = true) := by
              intro h; apply hc1; simpa using h
            simp only [hc1', hc1, if_false, Gen.IsoPy.py_text, bindE_ok, dig12_int hh]
            -- the time fields
            unfold pyTimeFields
            simp only [truthy_sepG]
            generalize hoff : Gen.IsoPy.py_iso_offset ext _ _ = roff
            have hot : bindE roff (fun t => .ok (tzOff t)) = liftE id (pyTzOffset (tz.map WTz.py)) := by
              rw [← hoff]; exact offset_tie ext hx _ tz htz
            clear hoff
            rcases offset_cases roff _ hot with ⟨tzv, ho1, ho2⟩ | ⟨k, ho1, ho2⟩
            all_goals
              subst ho1
              simp only [ho2]
              have hmicro : ∀ f, frac = some f → Gen.IsoPy.py_int (dv .py)
                  (Gen.IsoPy.py_ljust (Gen.IsoPy.py_slice f.2 0 (some 6)) 6 '0') = .ok ((microAcc 6 0 (dvals f.2) : Nat) : Int) := by
                intro f hf'
                obtain ⟨_, h1, _, h3⟩ := hf f hf'
                exact micro_tie f.2 (by intro e; rw [e] at h1; simp at h1) h3
              have hMi : ∀ x, minute = some x → truthy (some x) = true ∧ Gen.IsoPy.py_int (dv .py) x = .ok ((val x : Nat) : Int) :=
                fun x hx => ⟨dig12_truthy (hmi x hx), dig12_int (hmi x hx)⟩
              have hSe : ∀ x, second = some x → truthy (some x) = true ∧ Gen.IsoPy.py_int (dv .py) x = .ok ((val x : Nat) : Int) :=
                fun x hx => ⟨dig12_truthy (hs x hx), dig12_int (hs x hx)⟩
              have hnd2 : (d.py = .nodate) = (d.isDate = false) := by cases d <;> simp [WD.py, WD.isDate]
              simp only [hnd2]
              clear hmi hs hf htz hts hh htime hsep hnd hnd2 hdf hd ht ho2 hc1 hc1' hot
              cases d.isDate <;> cases minute <;> cases second <;> cases frac <;> cases minsep <;> cases secsep <;>
                (try have hm1 := hMi _ rfl) <;> (try have hs1 := hSe _ rfl) <;> (try have hf1 := hmicro _ rfl) <;>
                clear hMi hSe hmicro <;>
                simp [*, truthy_none, truthy_cons, Gen.IsoPy.py_text, build, liftE, kx]

end Pendulum.IsoPyGen
