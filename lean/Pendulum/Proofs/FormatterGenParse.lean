import Pendulum.Proofs.FormatterGenCheck
/-! Tie of the generated `Formatter.parse` side (`_get_parsed_value`, `_get_parsed_locale_value`, `_get_parsed_values`,
`_replace_tokens`, `parse`, `from_format`) to `Model/FmtParse.lean`. -/
set_option linter.unusedSimpArgs false
set_option linter.unusedVariables false
namespace Pendulum.FormatterGen
open Pendulum Pendulum.Fmt
open Pendulum.Gen.Formatter (bindE pyFor pyWhile hasKey dictGet FMatch Segs PatEl FPart LocArg PTok PDict VDict Time7 Ops PyQ)

/-! ### strings -/

theorem mem_dropWhile {α : Type} (p : α → Bool) (c : α) (hc : p c = false) : ∀ (s : List α), c ∈ s → c ∈ s.dropWhile p := by
  intro s
  induction s with
  | nil => intro h; exact h
  | cons a s ih =>
    intro h
    simp only [List.dropWhile]
    by_cases ha : p a = true
    · simp only [ha]
      rcases List.mem_cons.1 h with e | e
      · subst e; rw [hc] at ha; cases ha
      · exact ih e
    · have : p a = false := by simpa using ha
      simp only [this]; exact h

theorem intOf_colon (s : Str) (h : s.contains ':' = true) : intOf s = none := by
  have hm : ':' ∈ s := by simpa using h
  have h1 := mem_dropWhile (fun c => c == ' ') ':' (by decide) s hm
  unfold intOf
  generalize s.dropWhile (fun x => x == ' ') = s' at h1
  have key : ∀ body : Str, ':' ∈ body → (body.isEmpty || !body.all Char.isDigit) = true := by
    intro body hb
    have : body.all Char.isDigit = false := by
      rw [List.all_eq_false]
      exact ⟨':', hb, by decide⟩
    simp [this]
  match s', h1 with
  | [], h1 => cases h1
  | c :: r, h1 =>
    by_cases c1 : c = '-'
    · subst c1
      have : ':' ∈ r := by
        rcases List.mem_cons.1 h1 with e | e
        · exact absurd e (by decide)
        · exact e
      simp [key r this]
    · by_cases c2 : c = '+'
      · subst c2
        have : ':' ∈ r := by
          rcases List.mem_cons.1 h1 with e | e
          · exact absurd e (by decide)
          · exact e
        simp [key r this]
      · have := key (c :: r) h1
        simp only []
        split
        · rename_i heq; cases heq; exact absurd rfl c1
        · rename_i heq; cases heq; exact absurd rfl c2
        · rw [if_pos this]

theorem py_split2_colon (tz : Str) (h : tz.contains ':' = true) :
    Gen.Formatter.py_split2 ':' tz =
      if ((tz.dropWhile (· != ':')).drop 1).contains ':' then .error "ValueError"
      else .ok (tz.takeWhile (· != ':'), (tz.dropWhile (· != ':')).drop 1) := by
  have hm : ':' ∈ tz := by simpa using h
  have h1 := mem_dropWhile (fun c => c != ':') ':' (by decide) tz hm
  unfold Gen.Formatter.py_split2
  cases hd : tz.dropWhile (fun x => x != ':') with
  | nil => rw [hd] at h1; cases h1
  | cons c b => rfl

/-- the `ZZ` / `Z` branch of `_get_parsed_value` after the sign: hour and minute digits, then the offset -/
theorem offset_tail (v : Str) (a b : Str) (hab : (a, b) = offsetParts v) (p : PDict (Int × Int) TzP) :
    mapE toParsed
      (bindE (match intOf a with | some n => Except.ok n | none => Except.error "ValueError") fun t_20 =>
        bindE (match intOf b with | some n => Except.ok n | none => Except.error "ValueError") fun t_21 =>
          (Except.ok { p with tz := some (TzP.fixed
            (if Gen.Formatter.py_startswith v "-".toList = true then -1 * ((t_20 * 60 + t_21) * 60) else (t_20 * 60 + t_21) * 60)) }
            : Except String (PDict (Int × Int) TzP))) =
      match parseOffset v with
      | .ok o => .ok { toParsed p with tz := some (TzP.fixed o) }
      | .error e => .error e := by
  unfold parseOffset
  rw [← hab]
  have hs : Gen.Formatter.py_startswith v "-".toList = (v.head? == some '-') := by
    cases v with
    | nil => rfl
    | cons c r =>
      simp [Gen.Formatter.py_startswith, List.isPrefixOf]
      by_cases hc : c = '-'
      · subst hc; rfl
      · have h2 : ¬ '-' = c := fun e => hc e.symm
        have e1 : ('-' == c) = false := by simpa using h2
        have e2 : (c == '-') = false := by simpa using hc
        rw [e1, e2]
  cases intOf a with
  | none => rfl
  | some h =>
    cases intOf b with
    | none => rfl
    | some m =>
      simp only [bindE_ok, mapE_ok, hs]
      by_cases hn : (v.head? == some '-') = true
      · simp only [hn, if_true]
        have : -1 * ((h * 60 + m) * 60) = -((h * 60 + m) * 60) := by omega
        rw [this]; rfl
      · simp only [hn, if_false, Bool.false_eq_true]; rfl

section
variable (re : Str → Segs) (L : Loc) (find : String → Option Loc) (deflt : String) (now : Now)
  (g : PDict (Int × Int) TzP)

theorem natcast_beq2 (n : Nat) : ((n : Int) == 2) = (n == 2) := by
  by_cases h : n = 2
  · subst h; rfl
  · have : ¬ (n : Int) = 2 := by omega
    have e1 : ((n : Int) == 2) = false := by simpa using this
    have e2 : (n == 2) = false := by simpa using h
    rw [e1, e2]

theorem offsetParts_colon (v : Str) (h : (List.drop 1 v).contains ':' = true) :
    (List.takeWhile (fun x => x != ':') (List.drop 1 v),
      List.drop 1 (List.dropWhile (fun x => x != ':') (List.drop 1 v))) = offsetParts v := by
  unfold offsetParts
  simp only [h, Bool.not_true, Bool.false_eq_true, if_false]

theorem offsetParts_nocolon (v : Str) (h : ¬ (List.drop 1 v).contains ':' = true) :
    (Gen.Formatter.py_slice (if ((List.drop 1 v).length == 2) = true then List.drop 1 v ++ "00".toList else List.drop 1 v) 0 2,
      Gen.Formatter.py_slice (if ((List.drop 1 v).length == 2) = true then List.drop 1 v ++ "00".toList else List.drop 1 v) 2 4)
      = offsetParts v := by
  unfold offsetParts
  have h' : (List.drop 1 v).contains ':' = false := by simpa using h
  simp only [h', Bool.not_false, if_true, Gen.Formatter.py_slice, List.drop_zero]
  rfl

theorem parseKind_keys (tok : String) : Gen.Format.parseKind tok = none ∨ tok ∈ Gen.Format.parseTokensKeys := by
  unfold Gen.Format.parseKind
  split <;> simp [Gen.Format.parseTokensKeys]

set_option maxHeartbeats 1000000 in
theorem get_parsed_value_tie (tok : String) (v : Str) :
    mapE toParsed (Gen.Formatter.get_parsed_value (refOps re L find deflt now) tok v g (DV.ofNow now)) =
      match Gen.Format.parseKind tok with
      | none => .error "KeyError"
      | some kind => applyKind (classify tok) kind v (toParsed g) := by
  ftie "Pendulum.Props.C08.parsed_value_source_eq_model" "Formatter._get_parsed_value" =>
    rcases parseKind_keys tok with hk | hk
    · simp [Gen.Formatter.get_parsed_value, hk, Gen.Formatter.py_parse_token]
    · simp only [Gen.Format.parseTokensKeys, List.mem_cons, List.not_mem_nil, or_false] at hk
      rcases hk with h|h|h|h|h|h|h|h|h|h|h|h|h|h|h|h|h|h|h|h|h|h|h|h|h|h|h|h|h|h|h|h|h|h|h|h|h <;> subst h <;>
        simp only [Gen.Formatter.get_parsed_value, Gen.Format.parseKind, Gen.Formatter.py_parse_token, classify, strContains,
          applyKind, convInt, refOps_py_int, refOps_py_float, refOps_timezones_contains, refOps_timezone_of_name,
          refOps_timezone_of_offset] <;>
        simp (config := {decide := true}) only [Bool.false_eq_true, if_false, if_true] <;>
        first
        | (cases intOf v <;> simp [PTok.asInt, toParsed] <;> done)
        | (cases intOf v with
           | none => rfl
           | some n =>
             simp only [bindE_ok, PTok.asInt, mapE_ok]
             by_cases h : n ≤ 68
             · simp [h, toParsed]
             · simp [h, toParsed])
        | (cases intOf v with
           | none => rfl
           | some n =>
             simp only [bindE_ok, PTok.asInt, mapE_ok]
             by_cases h : n > 12
             · simp [h, toParsed]
             · simp [h, toParsed])
        | (simp only [bindE_ok]
           by_cases h : Gen.FormatZones.tzNames.contains (String.ofList v) = true
           · simp only [h, Bool.not_true, Bool.false_eq_true, if_false, if_true, mapE_ok]; rfl
           · simp only [h, Bool.not_false, if_true, if_false, mapE_error]
             have h' : Gen.FormatZones.tzNames.contains (String.ofList v) = false := by simpa using h
             simp [h'])
        | (simp (config := {decide := true}) [PTok.asFloat, toParsed]; done)
        | (simp only [bindE_ok]
           by_cases hcol : (List.drop 1 v).contains ':' = true
           · simp only [hcol, Bool.not_true, Bool.false_eq_true, if_false, py_split2_colon _ hcol]
             by_cases h2 : ((List.dropWhile (fun x => x != ':') (List.drop 1 v)).drop 1).contains ':' = true
             · simp only [h2, if_true, bindE_error, mapE_error, parseOffset, offsetParts, hcol, Bool.not_true,
                 Bool.false_eq_true, if_false, intOf_colon _ h2]
               cases intOf (List.takeWhile (fun x => x != ':') (List.drop 1 v)) <;> rfl
             · simp only [h2, if_false, Bool.false_eq_true, bindE_ok]
               exact offset_tail v _ _ (offsetParts_colon v hcol) g
           · simp only [hcol, Bool.not_false, if_true, natcast_beq2]
             exact offset_tail v _ _ (offsetParts_nocolon v hcol) g)
        | skip

theorem all_takeWhile {α : Type} (p : α → Bool) : ∀ (l : List α), (l.takeWhile p).all p = true := by
  intro l
  induction l with
  | nil => rfl
  | cons a l ih =>
    simp only [List.takeWhile]
    cases h : p a with
    | true => simp [h, ih]
    | false => rfl

theorem mapE_ite {α β : Type} (f : α → β) (c : Prop) [Decidable c] (a b : Except String α) :
    mapE f (if c then a else b) = if c then mapE f a else mapE f b := by
  split <;> rfl

theorem setInt_month (v : Option Int) : mapE toParsed (PDict.setInt g "month" v) = .ok { toParsed g with month := v } := by
  simp (config := {decide := true}) [PDict.setInt, toParsed]

theorem setInt_dow (v : Option Int) :
    mapE toParsed (PDict.setInt g "day_of_week" v) = .ok { toParsed g with day_of_week := v } := by
  simp (config := {decide := true}) [PDict.setInt, toParsed]

theorem bindE_eta_if {α : Type} (x : Except String α) :
    (bindE x fun parsed => if false = true then Except.error "ValueError" else Except.ok parsed) = x := by
  cases x <;> rfl

theorem meridiem_pick (a p v : Str) :
    mapE toParsed
      (if (![a, p].contains v) = true then Except.error "ValueError"
       else bindE (Gen.Formatter.py_index [a, p] v) fun t_4 =>
         bindE (Gen.Formatter.py_getitem ["am".toList, "pm".toList] t_4) fun t_5 =>
           (Except.ok { g with meridiem := some t_5 } : Except String (PDict (Int × Int) TzP))) =
      if v == a then .ok { toParsed g with meridiem := some false }
      else if v == p then .ok { toParsed g with meridiem := some true }
      else .error "ValueError" := by
  by_cases h1 : v = a
  · subst h1
    simp (config := {decide := true}) [Gen.Formatter.py_index, List.findIdx?_cons, Gen.Formatter.py_getitem, toParsed]
  · by_cases h2 : v = p
    · subst h2
      have : ¬ a = v := fun e => h1 e.symm
      simp (config := {decide := true}) [Gen.Formatter.py_index, List.findIdx?_cons, Gen.Formatter.py_getitem, toParsed, h1, this]
    · have e1 : ¬ a = v := fun e => h1 e.symm
      have e2 : ¬ p = v := fun e => h2 e.symm
      simp [h1, h2, e1, e2]

theorem get_parsed_locale_value_tie (tok : String) (v : Str)
    (hlow : tok = "a" → (refOps re L find deflt now).str_lower v = v)
    (hL : L.pm = L.am → L.pmLower = L.amLower)
    (hDo : tok = "Do" → (v.takeWhile Char.isDigit) ≠ []) :
    mapE toParsed (Gen.Formatter.get_parsed_locale_value (refOps re L find deflt now) tok v g L) =
      applyLocalized L tok v (toParsed g) := by
  ftie "Pendulum.Props.C08.parsed_locale_value_source_eq_model" "Formatter._get_parsed_locale_value" =>
    unfold Gen.Formatter.get_parsed_locale_value applyLocalized
    simp only []
    rw [mapE_ite]; ifhead h
    · simp (config := {decide := true}) only [refOps_locale_match_translation, if_true, if_false, ite_false, bindE_ok_eta]
      exact setInt_month g _
    rw [mapE_ite]; ifhead h
    · simp (config := {decide := true}) only [refOps_locale_match_translation, if_true, if_false, ite_false, bindE_ok_eta]
      exact setInt_month g _
    rw [mapE_ite]; ifhead h
    · have hd := hDo (by simpa using h)
      have hne : (List.takeWhile Char.isDigit v).isEmpty = false := by
        cases hh : List.takeWhile Char.isDigit v with
        | nil => exact absurd hh hd
        | cons _ _ => rfl
      have hall : (List.takeWhile Char.isDigit v).all Char.isDigit = true := all_takeWhile _ _
      simp (config := {decide := true}) only [refOps_re_match_group, refOps_py_int, hne, Bool.and_self, if_true, if_false, bindE_ok,
        intOf_digits _ hd hall, mapE_ok, Bool.false_eq_true]
      rfl
    rw [mapE_ite]; ifhead h
    · simp (config := {decide := true}) only [refOps_locale_match_translation, if_true, if_false, ite_false, bindE_ok_eta]
      exact setInt_dow g _
    rw [mapE_ite]; ifhead h
    · simp (config := {decide := true}) only [refOps_locale_match_translation, if_true, if_false, ite_false, bindE_ok_eta]
      exact setInt_dow g _
    rw [mapE_ite]; ifhead h
    · simp (config := {decide := true}) only [refOps_locale_match_translation, if_true, if_false, ite_false, bindE_ok_eta]
      exact setInt_dow g _
    by_cases hA : tok = "A"
    · subst hA
      simp (config := {decide := true}) only [if_true, if_false, Bool.or_true, refOps_locale_translation]
      exact meridiem_pick g _ _ _
    · by_cases ha : tok = "a"
      · subst ha
        have h1 := hlow rfl
        have hpm : (refOps re L find deflt now).str_lower L.pm.toList = L.pmLower.toList := by
          simp only [refOps_str_lower]
          by_cases e : L.pm.toList = L.am.toList
          · have : L.pm = L.am := String.toList_inj.1 e
            simp [e, hL this]
          · simp [e]
        have ham : (refOps re L find deflt now).str_lower L.am.toList = L.amLower.toList := by
          simp [refOps_str_lower]
        simp (config := {decide := true}) only [if_true, if_false, Bool.true_or, refOps_locale_translation, h1, List.map_cons,
          List.map_nil, hpm, ham]
        exact meridiem_pick g _ _ _
      · have e1 : (tok == "A") = false := by simpa using hA
        have e2 : (tok == "a") = false := by simpa using ha
        simp only [e1, e2, Bool.or_self, Bool.false_eq_true, if_false, mapE_error]

/-- hypotheses on the matched group values: an `a` value is lower-case already (it matched the lower-cased words), a `Do`
    value starts with a digit (it matched `\d+<suffix>`) -/
def GroupsOk (m : List (String × Str)) : Prop :=
  ∀ t v, (t, v) ∈ m → (t = "a" → (refOps re L find deflt now).str_lower v = v) ∧
    (t = "Do" → (v.takeWhile Char.isDigit) ≠ [])

theorem get_parsed_values_tie (hL : L.pm = L.am → L.pmLower = L.amLower) :
    ∀ (m : List (String × Str)) (g : PDict (Int × Int) TzP), GroupsOk re L find deflt now m →
      mapE toParsed (Gen.Formatter.get_parsed_values (refOps re L find deflt now) m g L (DV.ofNow now)) =
        applyGroups L m (toParsed g) := by
  ftie "Pendulum.Props.C08.parsed_values_source_eq_model" "Formatter._get_parsed_values" =>
    intro m
    unfold Gen.Formatter.get_parsed_values
    simp only [bindE_ok_eta]
    induction m with
    | nil => intro g _; rfl
    | cons a m ih =>
      intro g hm
      obtain ⟨t, v⟩ := a
      have hstep : mapE toParsed (if hasKey Gen.Format.localizableKeys t = true then
            Gen.Formatter.get_parsed_locale_value (refOps re L find deflt now) t v g L
          else Gen.Formatter.get_parsed_value (refOps re L find deflt now) t v g (DV.ofNow now)) =
          applyGroup L t v (toParsed g) := by
        unfold applyGroup
        have hh := hm t v (by simp)
        by_cases hk : hasKey Gen.Format.localizableKeys t = true
        · have hk' : (List.find? (fun q => q.1 == t) Gen.Format.localizableKeys).isSome = true := hk
          rw [if_pos hk, if_pos hk']
          exact get_parsed_locale_value_tie re L find deflt now g t v hh.1 hL hh.2
        · have hk' : ¬ (List.find? (fun q => q.1 == t) Gen.Format.localizableKeys).isSome = true := hk
          rw [if_neg hk, if_neg hk']
          exact get_parsed_value_tie re L find deflt now g t v
      simp only [pyFor, applyGroups]
      rw [← hstep]
      cases hs : (if hasKey Gen.Format.localizableKeys t = true then
            Gen.Formatter.get_parsed_locale_value (refOps re L find deflt now) t v g L
          else Gen.Formatter.get_parsed_value (refOps re L find deflt now) t v g (DV.ofNow now)) with
      | error e => simp
      | ok g' =>
        simp only [bindE_ok, mapE_ok]
        exact ih g' (fun t' v' h' => hm t' v' (by simp [h']))

def altsOf (L : Loc) (t : String) : List Str := (expectedAlts L t).getD []

/-- what `_replace_tokens` does for a token, against the model's `groupOf` -/
def ReplOk (L : Loc) (t : String) (r : Except String PatEl) : Prop :=
  match groupOf L t with
  | Group.error k => r = .error k
  | Group.lens _ => r = .ok (PatEl.group t (altsOf L t)) ∧ expectedAlts L t = some (altsOf L t)

theorem alts_plain : (Gen.Format.tokenAlts.all fun t =>
    !(Gen.Formatter.py_startswith t.toList "[".toList) && !(Gen.Formatter.py_startswith t.toList "\\".toList)) = true := by
  decide

theorem find_some_key {β : Type} (tbl : List (String × β)) (k : String) (p : String × β)
    (h : tbl.find? (fun q => q.1 == k) = some p) : p.1 = k ∧ p ∈ tbl := by
  have h1 := List.find?_some h
  exact ⟨by simpa using h1, List.mem_of_find?_eq_some h⟩

/-- the name tables of the locale are not empty (else `_replace_tokens` raises "Unsupported token") -/
def NamesOk (L : Loc) : Prop :=
  L.monthsWide ≠ [] ∧ L.monthsAbbr ≠ [] ∧ L.daysWide ≠ [] ∧ L.daysAbbr ≠ [] ∧ L.daysShort ≠ []

theorem replace_tokens_tie (hL : L.pm = L.am → L.pmLower = L.amLower) (hN : NamesOk L) (tok : String) (htok : tok ∈ Gen.Format.tokenAlts) :
    ReplOk L tok (Gen.Formatter.replace_tokens (refOps re L find deflt now) tok L) := by
  ftie "Pendulum.Props.C08.parse_source_eq_model" "Formatter._replace_tokens and the _LOCALIZABLE_TOKENS lambdas" =>
    have hb := List.all_eq_true.1 alts_plain tok htok
    simp only [Bool.and_eq_true, Bool.not_eq_true'] at hb
    unfold ReplOk groupOf Gen.Formatter.replace_tokens
    simp only [hb.1, hb.2, Bool.false_and, Bool.false_eq_true, if_false, hasKey, dictGet]
    cases hloc : Gen.Format.localizableKeys.find? (fun p => p.1 == tok) with
    | some p =>
      obtain ⟨k, kind⟩ := p
      obtain ⟨hk, hmem⟩ := find_some_key _ _ _ hloc
      simp only at hk
      subst hk
      simp only [Option.isSome_some, Bool.not_true, Bool.and_false, Bool.false_eq_true, if_false, if_true, bindE_ok]
      simp only [Gen.Format.localizableKeys, List.mem_cons, Prod.mk.injEq, List.not_mem_nil, or_false] at hmem
      obtain ⟨n1, n2, n3, n4, n5⟩ := hN
      have ne : ∀ (l : List String), l ≠ [] → (List.map String.toList l).isEmpty = false := by
        intro l hl; cases l with
        | nil => exact absurd rfl hl
        | cons _ _ => rfl
      rcases hmem with ⟨rfl, rfl⟩|⟨rfl, rfl⟩|⟨rfl, rfl⟩|⟨rfl, rfl⟩|⟨rfl, rfl⟩|⟨rfl, rfl⟩|⟨rfl, rfl⟩|⟨rfl, rfl⟩|⟨rfl, rfl⟩|⟨rfl, rfl⟩|⟨rfl, rfl⟩|⟨rfl, rfl⟩|⟨rfl, rfl⟩|⟨rfl, rfl⟩|⟨rfl, rfl⟩|⟨rfl, rfl⟩ <;>
        simp (config := {decide := true}) only [if_true, if_false, Bool.false_eq_true, altsOf, expectedAlts, hloc,
          Gen.Formatter.localizable_lambda, refOps_locale_translation_values, refOps_locale_translation, refOps_locale_get_values,
          refOps_str_lower, bindE_ok, bindE_error, Option.getD_some, ne _ n1, ne _ n2, ne _ n3, ne _ n4, ne _ n5, Bool.not_false,
          Bool.not_true, and_self, List.isEmpty_cons]
      · cases hos : L.ordinalSuffix with
        | none => simp
        | some tbl =>
          cases tbl with
          | nil => simp
          | cons a tbl => simp
      · have e1 : (L.am.toList == L.am.toList) = true := by simp
        have e2 : (L.pm.toList == L.pm.toList) = true := by simp
        simp only [e1, e2, if_true]
        by_cases e : L.pm.toList = L.am.toList
        · have : L.pm = L.am := String.toList_inj.1 e
          simp [e, hL this]
        · simp [e]
    | none =>
      simp only [Option.isSome_none, Bool.not_false, Bool.and_true, Bool.false_eq_true, if_false]
      cases hre : Gen.Format.regexTokens.find? (fun p => p.1 == tok) with
      | none => simp
      | some p =>
        obtain ⟨k, cs⟩ := p
        obtain ⟨hk, hmem⟩ := find_some_key _ _ _ hre
        simp only at hk
        subst hk
        simp only [Option.isSome_some, Option.isNone_some, Bool.not_true, Bool.false_eq_true, if_false, if_true, bindE_ok,
          Gen.Formatter.regexCandidates, dictGet, hre]
        simp only [Gen.Format.regexTokens, List.mem_cons, Prod.mk.injEq, List.not_mem_nil, or_false] at hmem
        have htz : tzSegs = some 8 := by decide
        rcases hmem with ⟨rfl, rfl⟩|⟨rfl, rfl⟩|⟨rfl, rfl⟩|⟨rfl, rfl⟩|⟨rfl, rfl⟩|⟨rfl, rfl⟩|⟨rfl, rfl⟩|⟨rfl, rfl⟩|⟨rfl, rfl⟩|⟨rfl, rfl⟩|⟨rfl, rfl⟩|⟨rfl, rfl⟩|⟨rfl, rfl⟩|⟨rfl, rfl⟩|⟨rfl, rfl⟩|⟨rfl, rfl⟩|⟨rfl, rfl⟩|⟨rfl, rfl⟩|⟨rfl, rfl⟩|⟨rfl, rfl⟩|⟨rfl, rfl⟩|⟨rfl, rfl⟩|⟨rfl, rfl⟩|⟨rfl, rfl⟩|⟨rfl, rfl⟩|⟨rfl, rfl⟩|⟨rfl, rfl⟩|⟨rfl, rfl⟩|⟨rfl, rfl⟩|⟨rfl, rfl⟩|⟨rfl, rfl⟩|⟨rfl, rfl⟩|⟨rfl, rfl⟩|⟨rfl, rfl⟩|⟨rfl, rfl⟩|⟨rfl, rfl⟩|⟨rfl, rfl⟩|⟨rfl, rfl⟩|⟨rfl, rfl⟩|⟨rfl, rfl⟩ <;> (try subst_vars) <;>
          first
          | (exact absurd hloc (by decide))
          | (simp (config := {decide := true}) only [if_true, if_false, Bool.false_eq_true, altsOf, expectedAlts, hloc, hre, htz,
              Option.getD_some, Option.map_some, List.map_cons, List.map_nil, List.isEmpty_cons, Bool.not_false, Bool.not_true,
              and_self])
end
end Pendulum.FormatterGen
