import Pendulum.Proofs.CalRT
import Pendulum.Model.StartOf
/-! Calendar half of C12: every unit of `Model/StartOf.lean` is a `WallUnit` — `lo`/`hi` on wall values obey the
eight order/idempotence laws. All laws follow from two facts per unit (`ofBlock`): `lo w ≤ w ≤ hi w`, and every value
between `lo w` and `hi w` has the same `lo` and `hi` (the units are the blocks of a partition into intervals). -/
namespace Pendulum.StartOf
open Pendulum Pendulum.Cal Pendulum.AddDur

/-- an abstract calendar unit on wall-clock values: `lo w` is the first and `hi w` the last wall value of the
    unit containing `w` -/
structure WallUnit where
  lo : Int → Int
  hi : Int → Int
  lo_le : ∀ w, lo w ≤ w
  le_hi : ∀ w, w ≤ hi w
  lo_mono : ∀ v w, v ≤ w → lo v ≤ lo w
  hi_mono : ∀ v w, v ≤ w → hi v ≤ hi w
  lo_lo : ∀ w, lo (lo w) = lo w
  hi_hi : ∀ w, hi (hi w) = hi w
  lo_hi : ∀ w, lo (hi w) = lo w
  hi_lo : ∀ w, hi (lo w) = hi w
  block : ∀ v w, lo w ≤ v → v ≤ hi w → lo v = lo w ∧ hi v = hi w

/-- a pair of functions cutting the integers into intervals is a `WallUnit` -/
def WallUnit.ofBlock (lo hi : Int → Int) (h1 : ∀ w, lo w ≤ w ∧ w ≤ hi w)
    (h2 : ∀ v w, lo w ≤ v → v ≤ hi w → lo v = lo w ∧ hi v = hi w) : WallUnit where
  lo := lo
  hi := hi
  lo_le w := (h1 w).1
  le_hi w := (h1 w).2
  lo_mono v w h := by
    by_cases c : lo w ≤ v
    · have := (h2 v w c (by have := (h1 w).2; omega)).1; omega
    · have := (h1 v).1; omega
  hi_mono v w h := by
    by_cases c : w ≤ hi v
    · have := (h2 w v (by have := (h1 v).1; omega) c).2; omega
    · have := (h1 w).2; omega
  lo_lo w := (h2 (lo w) w (Int.le_refl _) (by have := h1 w; omega)).1
  hi_hi w := (h2 (hi w) w (by have := h1 w; omega) (Int.le_refl _)).2
  lo_hi w := (h2 (hi w) w (by have := h1 w; omega) (Int.le_refl _)).1
  hi_lo w := (h2 (lo w) w (Int.le_refl _) (by have := h1 w; omega)).2
  block := h2

/-! ### years -/

theorem dby_succ (y : Int) : daysBeforeYear (y + 1) = daysBeforeYear y + daysInYear y := by
  unfold daysInYear
  have hy : y - 1 = 400 * ((y - 1) / 400) + 100 * ((y - 1) % 400 / 100) + 4 * ((y - 1) % 100 / 4) + (y - 1) % 4 := by omega
  have hl := isLeap_decomp4 ((y - 1) / 400) ((y - 1) % 400 / 100) ((y - 1) % 100 / 4) ((y - 1) % 4)
    (by omega) (by omega) (by omega)
  rw [← hy, Int.sub_add_cancel] at hl
  rw [hl]
  unfold daysBeforeYear; simp only []
  by_cases c : ((y - 1) % 4 == 3 && ((y - 1) % 100 / 4 != 24 || (y - 1) % 400 / 100 == 3)) = true
  · rw [if_pos c]
    simp only [Bool.and_eq_true, Bool.or_eq_true, beq_iff_eq, bne_iff_ne, ne_eq] at c
    omega
  · rw [if_neg c]
    simp only [Bool.and_eq_true, Bool.or_eq_true, beq_iff_eq, bne_iff_ne, ne_eq] at c
    omega

theorem dby_le (a b : Int) (h : a ≤ b) : daysBeforeYear a ≤ daysBeforeYear b := by
  by_cases e : a = b
  · subst e; exact Int.le_refl _
  · have := dby_mono (a - 1) b (by omega)
    rwa [Int.sub_add_cancel] at this

def yearOf (n : Int) : Int := (ord2ymd n).1

theorem year_bounds (n : Int) : daysBeforeYear (yearOf n) + 1 ≤ n ∧ n ≤ daysBeforeYear (yearOf n + 1) := by
  obtain ⟨e, v⟩ := ymd2ord_ord2ymd n
  have := ord_in_year _ _ _ v
  unfold yearOf; omega

theorem year_in (a b n : Int) (h1 : daysBeforeYear a + 1 ≤ n) (h2 : n ≤ daysBeforeYear (b + 1)) :
    a ≤ yearOf n ∧ yearOf n ≤ b := by
  have hb := year_bounds n
  constructor
  · apply Classical.byContradiction; intro c
    have := dby_mono (yearOf n) a (by omega); omega
  · apply Classical.byContradiction; intro c
    have := dby_mono b (yearOf n) (by omega); omega

theorem ord_jan1 (y : Int) : ymd2ord y 1 1 = daysBeforeYear y + 1 := by
  unfold ymd2ord; simp [daysBeforeMonth]

theorem ord_dec31 (y : Int) : ymd2ord y 12 31 = daysBeforeYear (y + 1) := by
  rw [dby_succ]; unfold ymd2ord daysInYear
  cases isLeap y <;> simp [daysBeforeMonth] <;> omega

/-- units made of whole years `ys y … ye y` -/
theorem year_block (ys ye : Int → Int) (p1 : ∀ y, ys y ≤ y ∧ y ≤ ye y)
    (p2 : ∀ y y', ys y ≤ y' → y' ≤ ye y → ys y' = ys y ∧ ye y' = ye y) :
    (∀ n, daysBeforeYear (ys (yearOf n)) + 1 ≤ n ∧ n ≤ daysBeforeYear (ye (yearOf n) + 1)) ∧
    (∀ k n, daysBeforeYear (ys (yearOf n)) + 1 ≤ k → k ≤ daysBeforeYear (ye (yearOf n) + 1) →
      ys (yearOf k) = ys (yearOf n) ∧ ye (yearOf k) = ye (yearOf n)) := by
  constructor
  · intro n
    have hb := year_bounds n
    have h1 := dby_le _ _ (p1 (yearOf n)).1
    have h2 := dby_le (yearOf n + 1) (ye (yearOf n) + 1) (by have := (p1 (yearOf n)).2; omega)
    omega
  · intro k n h1 h2
    obtain ⟨a, b⟩ := year_in _ _ k h1 h2
    exact p2 _ _ a b

/-! ### day-level first/last day of the unit (units of a day or longer) -/

/-- ordinal of the first day of the unit containing day `n` -/
def loD (u : U) (wks : Int) (n : Int) : Int :=
  match u with
  | .week => n - (dow n - wks) % 7
  | .month => ymd2ord (ord2ymd n).1 (ord2ymd n).2.1 1
  | .year => ymd2ord (yearOf n) 1 1
  | .decade => ymd2ord (decadeStart (yearOf n)) 1 1
  | .century => ymd2ord (centuryStart (yearOf n)) 1 1
  | _ => n

/-- ordinal of the last day of the unit containing day `n` -/
def hiD (u : U) (wke : Int) (n : Int) : Int :=
  match u with
  | .week => n + (wke - dow n) % 7
  | .month => ymd2ord (ord2ymd n).1 (ord2ymd n).2.1 (daysInMonth (ord2ymd n).1 (ord2ymd n).2.1)
  | .year => ymd2ord (yearOf n) 12 31
  | .decade => ymd2ord (decadeStart (yearOf n) + 9) 12 31
  | .century => ymd2ord (centuryStart (yearOf n) + 99) 12 31
  | _ => n

/-- the seven consistent week configurations -/
def weekCfg (wks wke : Int) : Prop := 0 ≤ wks ∧ wks ≤ 6 ∧ wke = (wks + 6) % 7

instance (wks wke : Int) : Decidable (weekCfg wks wke) := by unfold weekCfg; infer_instance

theorem month_block1 (n : Int) : loD .month 0 n ≤ n ∧ n ≤ hiD .month 0 n := by
  obtain ⟨e, v⟩ := ymd2ord_ord2ymd n
  obtain ⟨_, _, v3, v4⟩ := v
  unfold loD hiD
  simp only []
  unfold ymd2ord at e ⊢
  omega

theorem month_block2 (k n : Int) (h1 : loD .month 0 n ≤ k) (h2 : k ≤ hiD .month 0 n) :
    loD .month 0 k = loD .month 0 n ∧ hiD .month 0 k = hiD .month 0 n := by
  obtain ⟨e, v⟩ := ymd2ord_ord2ymd n
  obtain ⟨v1, v2, v3, v4⟩ := v
  generalize hy : (ord2ymd n).1 = y at *
  generalize hm : (ord2ymd n).2.1 = m at *
  have hk : ymd2ord y m (k - ymd2ord y m 0) = k := by unfold ymd2ord; omega
  have hv : validDate y m (k - ymd2ord y m 0) := by
    simp only [loD, hiD, hy, hm] at h1 h2
    unfold ymd2ord at h1 h2 ⊢
    exact ⟨v1, v2, by omega, by omega⟩
  have hr := ord2ymd_ymd2ord y m _ hv
  rw [hk] at hr
  simp only [loD, hiD, hr, hy, hm, and_self]

theorem week_block1 (wks wke n : Int) (hc : weekCfg wks wke) : loD .week wks n ≤ n ∧ n ≤ hiD .week wke n := by
  obtain ⟨a, b, c⟩ := hc
  unfold loD hiD dow; simp only []; omega

theorem week_block2 (wks wke k n : Int) (hc : weekCfg wks wke) (h1 : loD .week wks n ≤ k) (h2 : k ≤ hiD .week wke n) :
    loD .week wks k = loD .week wks n ∧ hiD .week wke k = hiD .week wke n := by
  obtain ⟨a, b, c⟩ := hc
  unfold loD hiD dow at *; simp only [] at *; omega

theorem decade_p1 (y : Int) : decadeStart y ≤ y ∧ y ≤ decadeStart y + 9 := by unfold decadeStart; omega
theorem decade_p2 (y y' : Int) (h1 : decadeStart y ≤ y') (h2 : y' ≤ decadeStart y + 9) :
    decadeStart y' = decadeStart y ∧ decadeStart y' + 9 = decadeStart y + 9 := by
  unfold decadeStart at *; omega
theorem century_p1 (y : Int) : centuryStart y ≤ y ∧ y ≤ centuryStart y + 99 := by unfold centuryStart; omega
theorem century_p2 (y y' : Int) (h1 : centuryStart y ≤ y') (h2 : y' ≤ centuryStart y + 99) :
    centuryStart y' = centuryStart y ∧ centuryStart y' + 99 = centuryStart y + 99 := by
  unfold centuryStart at *; omega

/-- the day-level functions cut the ordinals into intervals, for every unit and week configuration -/
theorem day_block1 (u : U) (wks wke n : Int) (hc : weekCfg wks wke) : loD u wks n ≤ n ∧ n ≤ hiD u wke n := by
  cases u
  case week => exact week_block1 wks wke n hc
  case month => exact month_block1 n
  case year =>
    have := (year_block id id (fun y => ⟨Int.le_refl _, Int.le_refl _⟩) (fun y y' a b => by simp at *; omega)).1 n
    unfold loD hiD; simp only [ord_jan1, ord_dec31]; exact this
  case decade =>
    have := (year_block decadeStart (fun y => decadeStart y + 9) decade_p1 decade_p2).1 n
    unfold loD hiD; simp only [ord_jan1, ord_dec31]; exact this
  case century =>
    have := (year_block centuryStart (fun y => centuryStart y + 99) century_p1 century_p2).1 n
    unfold loD hiD; simp only [ord_jan1, ord_dec31]; exact this
  all_goals (unfold loD hiD; simp)

theorem day_block2 (u : U) (wks wke k n : Int) (hc : weekCfg wks wke) (h1 : loD u wks n ≤ k) (h2 : k ≤ hiD u wke n) :
    loD u wks k = loD u wks n ∧ hiD u wke k = hiD u wke n := by
  cases u
  case week => exact week_block2 wks wke k n hc h1 h2
  case month => exact month_block2 k n h1 h2
  case year =>
    unfold loD hiD at *; simp only [ord_jan1, ord_dec31] at *
    have := (year_block id id (fun y => ⟨Int.le_refl _, Int.le_refl _⟩) (fun y y' a b => by simp at *; omega)).2 k n h1 h2
    simp only [id] at this; rw [this.1]; exact ⟨rfl, rfl⟩
  case decade =>
    unfold loD hiD at *; simp only [ord_jan1, ord_dec31] at *
    have := (year_block decadeStart (fun y => decadeStart y + 9) decade_p1 decade_p2).2 k n h1 h2
    rw [this.1]; exact ⟨rfl, rfl⟩
  case century =>
    unfold loD hiD at *; simp only [ord_jan1, ord_dec31] at *
    have := (year_block centuryStart (fun y => centuryStart y + 99) century_p1 century_p2).2 k n h1 h2
    rw [this.1]; exact ⟨rfl, rfl⟩
  all_goals (unfold loD hiD at *; simp at *; omega)

/-! ### from fields to closed forms on wall values -/

def ordOf (w : Int) : Int := w / DAY + epochOrd

theorem wallToFields_eq (w : Int) : wallToFields w =
    ((ord2ymd (ordOf w)).1, (ord2ymd (ordOf w)).2.1, (ord2ymd (ordOf w)).2.2, w % DAY) := by
  unfold wallToFields ordOf; rfl

theorem fields_ord (w : Int) :
    ymd2ord (ord2ymd (ordOf w)).1 (ord2ymd (ordOf w)).2.1 (ord2ymd (ordOf w)).2.2 = ordOf w :=
  (ymd2ord_ord2ymd _).1

/-- closed form of `lo`: truncation of the time of day, or the first day of the unit at 00:00 -/
def loC (u : U) (wks : Int) (w : Int) : Int :=
  match u with
  | .second => w - w % US
  | .minute => w - w % MINUTE
  | .hour => w - w % HOUR
  | _ => ordWall (loD u wks (ordOf w))

def hiC (u : U) (wke : Int) (w : Int) : Int :=
  match u with
  | .second => w - w % US + (US - 1)
  | .minute => w - w % MINUTE + (MINUTE - 1)
  | .hour => w - w % HOUR + (HOUR - 1)
  | _ => ordWall (hiD u wke (ordOf w)) + (DAY - 1)

theorem lo_eq (u : U) (wks w : Int) : lo u wks w = loC u wks w := by
  unfold lo
  rw [wallToFields_eq]
  have e := fields_ord w
  cases u <;> simp only [loC, loD, fieldsToWall, ordWall, yearOf, e]
  all_goals (try simp only [ordOf, DAY, epochOrd, US, MINUTE, HOUR]); omega

theorem hi_eq (u : U) (wke w : Int) : hi u wke w = hiC u wke w := by
  unfold hi
  rw [wallToFields_eq]
  have e := fields_ord w
  cases u <;> simp only [hiC, hiD, fieldsToWall, ordWall, yearOf, e]
  all_goals (try simp only [ordOf, DAY, epochOrd, US, MINUTE, HOUR]); omega

theorem wall_block1 (u : U) (wks wke w : Int) (hc : weekCfg wks wke) : loC u wks w ≤ w ∧ w ≤ hiC u wke w := by
  have h := day_block1 u wks wke (ordOf w) hc
  cases u <;> simp only [loC, hiC, ordWall]
  all_goals (try simp only [ordOf, DAY, epochOrd, US, MINUTE, HOUR] at *); omega

theorem wall_block2 (u : U) (wks wke v w : Int) (hc : weekCfg wks wke) (h1 : loC u wks w ≤ v) (h2 : v ≤ hiC u wke w) :
    loC u wks v = loC u wks w ∧ hiC u wke v = hiC u wke w := by
  cases u
  case second => simp only [loC, hiC] at *; unfold US at *; omega
  case minute => simp only [loC, hiC] at *; unfold MINUTE at *; omega
  case hour => simp only [loC, hiC] at *; unfold HOUR at *; omega
  all_goals
    simp only [loC, hiC, ordWall] at *
    first
    | (have h := day_block2 .day wks wke (ordOf v) (ordOf w) hc (by unfold ordOf DAY epochOrd at *; omega)
        (by unfold ordOf DAY epochOrd at *; omega); rw [h.1, h.2]; exact ⟨rfl, rfl⟩)
    | (have h := day_block2 .week wks wke (ordOf v) (ordOf w) hc (by unfold ordOf DAY epochOrd at *; omega)
        (by unfold ordOf DAY epochOrd at *; omega); rw [h.1, h.2]; exact ⟨rfl, rfl⟩)
    | (have h := day_block2 .month wks wke (ordOf v) (ordOf w) hc (by unfold ordOf DAY epochOrd at *; omega)
        (by unfold ordOf DAY epochOrd at *; omega); rw [h.1, h.2]; exact ⟨rfl, rfl⟩)
    | (have h := day_block2 .year wks wke (ordOf v) (ordOf w) hc (by unfold ordOf DAY epochOrd at *; omega)
        (by unfold ordOf DAY epochOrd at *; omega); rw [h.1, h.2]; exact ⟨rfl, rfl⟩)
    | (have h := day_block2 .decade wks wke (ordOf v) (ordOf w) hc (by unfold ordOf DAY epochOrd at *; omega)
        (by unfold ordOf DAY epochOrd at *; omega); rw [h.1, h.2]; exact ⟨rfl, rfl⟩)
    | (have h := day_block2 .century wks wke (ordOf v) (ordOf w) hc (by unfold ordOf DAY epochOrd at *; omega)
        (by unfold ordOf DAY epochOrd at *; omega); rw [h.1, h.2]; exact ⟨rfl, rfl⟩)

/-- every unit of the model, under each consistent week configuration, is a `WallUnit` -/
def unit (u : U) (wks wke : Int) (hc : weekCfg wks wke) : WallUnit :=
  WallUnit.ofBlock (lo u wks) (hi u wke)
    (fun w => by rw [lo_eq, hi_eq]; exact wall_block1 u wks wke w hc)
    (fun v w h1 h2 => by
      rw [lo_eq, hi_eq] at *
      rw [lo_eq, hi_eq]
      exact wall_block2 u wks wke v w hc h1 h2)

theorem unit_lo (u : U) (wks wke : Int) (hc : weekCfg wks wke) : (unit u wks wke hc).lo = lo u wks := rfl
theorem unit_hi (u : U) (wks wke : Int) (hc : weekCfg wks wke) : (unit u wks wke hc).hi = hi u wke := rfl

end Pendulum.StartOf
