import Pendulum.Proofs.AddDurCal
import Pendulum.Model.CalOps
/-! helper lemmas for Props/C04: zone preservation of `add`, Duration negation, `dt - d` vs `subtract(components)`,
the pre-fix counterexample, Date results are whole days -/
namespace Pendulum.CalOps
open Pendulum Pendulum.Cal Pendulum.Zone Pendulum.AddDur Pendulum.DTOps

/-! ### zone kept -/

theorem create_zone (z : ZRef) (w : Int) (f r : Bool) (v : V) (h : create z w f r = .ok v) : v.z = z := by
  unfold create at h
  cases z with
  | naive => simp only [Except.ok.injEq] at h; rw [← h]
  | fixed off => simp only [Except.ok.injEq] at h; rw [← h]
  | named zt =>
    simp only [] at h
    split at h
    · cases h
    · cases h
    · split at h
      · simp only [Except.ok.injEq] at h; rw [← h]
      · cases h

theorem add_zone (v r : V) (y mo wk d h mi s us : Int) (hr : add v y mo wk d h mi s us = .ok r) : r.z = v.z := by
  unfold add at hr
  simp only [] at hr
  split at hr
  · cases hr
  · cases hr
  · split at hr
    · exact create_zone _ _ _ _ _ hr
    · split at hr
      · rename_i hz; simp only [Except.ok.injEq] at hr; rw [← hr, hz]
      · rename_i hz
        split at hr
        · simp only [Except.ok.injEq] at hr; rw [← hr, hz]
        · cases hr
      · split at hr
        · simp only [Except.ok.injEq] at hr; rw [← hr]
        · cases hr

/-! ### `add` sees the time units only through their total -/

theorem add_congr (v : V) (y mo wk d h mi s us h' mi' s' us' : Int)
    (e : totalUs 0 h mi s us = totalUs 0 h' mi' s' us') :
    add v y mo wk d h mi s us = add v y mo wk d h' mi' s' us' := by
  have key : ∀ cur, addDuration cur y mo wk d h mi s us = addDuration cur y mo wk d h' mi' s' us' := by
    intro cur; apply addDuration_congr; unfold totalUs at *; omega
  unfold add
  simp only [key]

/-! ### Duration components -/

theorem secs_split (x : Int) (hx : -86400 < x ∧ x < 86400) :
    (if abs' x ≥ 3600 then abs' x / 3600 % 24 * dsign x else 0) * 3600
      + (if abs' x ≥ 60 then abs' x / 60 % 60 * dsign x else 0) * 60 + abs' x % 60 * dsign x = x := by
  unfold abs' dsign
  by_cases h : x < 0
  · simp only [h, if_true]; split <;> split <;> omega
  · simp only [h, if_false]; split <;> split <;> omega

theorem mk_secs_range (s : Sig) : -86400 < (mkDur s).secs ∧ (mkDur s).secs < 86400 := by
  unfold mkDur
  simp only []
  split <;> omega

theorem mk_hms (s : Sig) :
    (mkDur s).hours * 3600 + (mkDur s).minutes * 60 + (mkDur s).rsecs = (mkDur s).secs := by
  unfold Dur.hours Dur.minutes Dur.rsecs
  exact secs_split _ (mk_secs_range s)

/-- sign-magnitude split of an integer µs total, as `Duration.__new__` does it -/
def split (t : Int) : Int × Int × Int × Int × Int :=
  let m : Int := if t < 0 then -1 else 1
  let a := abs' t
  let whole := a / 1000000
  let days := whole / 86400 * m
  (abs' days / 7 * m, abs' days % 7 * m, whole % 86400 * m, a % 1000000 * m, days)

theorem mk_split (s : Sig) :
    ((mkDur s).weeks, (mkDur s).rdays, (mkDur s).secs, (mkDur s).us, (mkDur s).days) = split s.totalUs := rfl

theorem split_total (t : Int) :
    ((((split t).1 * 7 + (split t).2.1) * 24 * 60 * 60) + (split t).2.2.1) * 1000000 + (split t).2.2.2.1 = t := by
  unfold split abs'
  simp only []
  by_cases h : t < 0
  · simp only [h, if_true]; split <;> omega
  · simp only [h, if_false]; split <;> omega

theorem split_neg (t : Int) :
    split (-t) = (-(split t).1, -(split t).2.1, -(split t).2.2.1, -(split t).2.2.2.1, -(split t).2.2.2.2) := by
  unfold split abs'
  simp only []
  rcases Int.lt_trichotomy t 0 with h | h | h
  · have h1 : t < 0 := h
    have h2 : ¬ (-t < 0) := by omega
    simp only [h1, h2, if_true, if_false]
    repeat' split
    all_goals (simp only [Prod.mk.injEq]; omega)
  · subst h; decide
  · have h1 : ¬ t < 0 := by omega
    have h2 : -t < 0 := by omega
    simp only [h1, h2, if_true, if_false]
    repeat' split
    all_goals (simp only [Prod.mk.injEq]; omega)

theorem neg_total (s : Sig) :
    (⟨-(mkDur s).years, -(mkDur s).months, -(mkDur s).weeks, -(mkDur s).rdays, 0, 0, -(mkDur s).secs, -(mkDur s).us⟩ : Sig).totalUs
      = -s.totalUs := by
  have h := split_total s.totalUs
  have e1 : (split s.totalUs).1 = (mkDur s).weeks := rfl
  have e2 : (split s.totalUs).2.1 = (mkDur s).rdays := rfl
  have e3 : (split s.totalUs).2.2.1 = (mkDur s).secs := rfl
  have e4 : (split s.totalUs).2.2.2.1 = (mkDur s).us := rfl
  rw [e1, e2, e3, e4] at h
  simp only [Sig.totalUs] at h ⊢
  omega

theorem neg_comps (s : Sig) :
    (neg (mkDur s)).years = -(mkDur s).years ∧ (neg (mkDur s)).months = -(mkDur s).months ∧
    (neg (mkDur s)).weeks = -(mkDur s).weeks ∧ (neg (mkDur s)).rdays = -(mkDur s).rdays ∧
    (neg (mkDur s)).secs = -(mkDur s).secs ∧ (neg (mkDur s)).us = -(mkDur s).us ∧
    (neg (mkDur s)).days = -(mkDur s).days := by
  have e := mk_split s
  have en := mk_split ⟨-(mkDur s).years, -(mkDur s).months, -(mkDur s).weeks, -(mkDur s).rdays, 0, 0, -(mkDur s).secs, -(mkDur s).us⟩
  rw [neg_total s, split_neg, ← e] at en
  simp only [Prod.mk.injEq] at en
  obtain ⟨a, b, c, d, f⟩ := en
  exact ⟨rfl, rfl, a, b, c, d, f⟩

/-! ### `dt - d` = `dt.subtract(<components of d>)` -/

theorem sub_eq_components (v : V) (s : Sig) : subDur v (mkDur s) = subComponents v (mkDur s) := by
  unfold subDur addDur addSig subComponents subtract neg
  have hs : ∀ x : Sig, (mkDur x).sig = x := fun _ => rfl
  simp only [hs]
  apply add_congr
  have h := mk_hms s
  unfold totalUs
  omega

/-! ### the code before the fix -/

/-- Europe/Paris around 2013: CET, CEST from 2013-03-31T01:00Z, CET from 2013-10-27T01:00Z (µs) -/
def parisZ : Z := ⟨3600000000, [⟨1364691600000000, 7200000000⟩, ⟨1382835600000000, 3600000000⟩]⟩

def obsW : Except DTOps.Err V → Option (Int × Bool)
  | .ok v => some (v.w, v.fold)
  | .error _ => none

theorem paris_counterexample :
    ∃ (z : Z) (v : V) (d : Dur), z.WF ∧ v.z.table = some z ∧
      subDurOld v d ≠ addDur v (neg d) ∧ subDurOld v d ≠ subComponents v d := by
  refine ⟨parisZ, ⟨.named parisZ, 1364783400000000, false⟩, mkDur ⟨0, 0, 0, 1, 0, 0, 0, 0⟩, ?_, rfl, ?_, ?_⟩
  · unfold Z.WF parisZ; simp [Zone.WF, absI]
  · intro h; have := congrArg obsW h; revert this; decide +kernel
  · intro h; have := congrArg obsW h; revert this; decide +kernel

/-- old code: 2013-03-31T01:30+01:00; repaired code: 2013-03-31T03:30+02:00 (the skipped 02:30 moved forward) -/
example :
    obsW (subDurOld ⟨.named parisZ, 1364783400000000, false⟩ (mkDur ⟨0, 0, 0, 1, 0, 0, 0, 0⟩)) = some (1364693400000000, false) ∧
    obsW (subDur ⟨.named parisZ, 1364783400000000, false⟩ (mkDur ⟨0, 0, 0, 1, 0, 0, 0, 0⟩)) = some (1364700600000000, false) := by
  decide +kernel

/-! ### Date -/

theorem date_midnight (n y mo wk d : Int) :
    ∀ w, calSpec (n * DAY) y mo wk d 0 0 0 0 = .ok w → w % DAY = 0 := by
  intro w h
  unfold calSpec at h
  simp only [] at h
  split at h
  · cases h
  · split at h
    · cases h
    · simp only [Except.ok.injEq] at h
      rw [← h]
      unfold fieldsToWall wallToFields DAY HOUR MINUTE US
      simp only []
      omega

end Pendulum.CalOps
