import Pendulum.Model.WeekNav
import Pendulum.Proofs.CalRT
/-! lemmas for C16: loops in closed form, month-calendar lookups as weekday arithmetic, and the
ordinal intervals of month / quarter / year -/
namespace Pendulum.WeekNav
open Pendulum Pendulum.Cal

/-- first ordinal ≥ lo falling on weekday wd -/
def firstIn (lo wd : Int) : Int := lo + (wd - dow lo) % 7
/-- last ordinal ≤ hi falling on weekday wd -/
def lastIn (hi wd : Int) : Int := hi - (dow hi - wd) % 7

theorem dow_range (o : Int) : 0 ≤ dow o ∧ dow o ≤ 6 := by unfold dow; omega

theorem next_spec' (o wd : Int) (hwd : 0 ≤ wd ∧ wd ≤ 6) :
    dow (next o wd) = wd ∧ o < next o wd ∧ next o wd ≤ o + 7 ∧
    (∀ k, o < k → k < next o wd → dow k ≠ wd) := by
  unfold next
  simp only [nextLoop, dow]
  repeat' split
  all_goals (refine ⟨by omega, by omega, by omega, ?_⟩; intro k h1 h2; omega)

theorem previous_spec' (o wd : Int) (hwd : 0 ≤ wd ∧ wd ≤ 6) :
    dow (previous o wd) = wd ∧ previous o wd < o ∧ o - 7 ≤ previous o wd ∧
    (∀ k, previous o wd < k → k < o → dow k ≠ wd) := by
  unfold previous
  simp only [prevLoop, dow]
  repeat' split
  all_goals (refine ⟨by omega, by omega, by omega, ?_⟩; intro k h1 h2; omega)

theorem next_closed (o wd : Int) (hwd : 0 ≤ wd ∧ wd ≤ 6) : next o wd = firstIn (o + 1) wd := by
  obtain ⟨h1, h2, h3, _⟩ := next_spec' o wd hwd
  unfold firstIn dow at *; omega

theorem previous_closed (o wd : Int) (hwd : 0 ≤ wd ∧ wd ≤ 6) : previous o wd = lastIn (o - 1) wd := by
  obtain ⟨h1, h2, h3, _⟩ := previous_spec' o wd hwd
  unfold lastIn dow at *; omega

theorem firstIn_spec (lo wd : Int) (hwd : 0 ≤ wd ∧ wd ≤ 6) :
    lo ≤ firstIn lo wd ∧ firstIn lo wd ≤ lo + 6 ∧ dow (firstIn lo wd) = wd ∧
    (∀ k, lo ≤ k → dow k = wd → firstIn lo wd ≤ k) := by
  unfold firstIn dow
  refine ⟨by omega, by omega, by omega, ?_⟩
  intro k h1 h2; omega

theorem lastIn_spec (hi wd : Int) (hwd : 0 ≤ wd ∧ wd ≤ 6) :
    lastIn hi wd ≤ hi ∧ hi - 6 ≤ lastIn hi wd ∧ dow (lastIn hi wd) = wd ∧
    (∀ k, k ≤ hi → dow k = wd → k ≤ lastIn hi wd) := by
  unfold lastIn dow
  refine ⟨by omega, by omega, by omega, ?_⟩
  intro k h1 h2; omega

theorem iterNext_on (n : Nat) : ∀ (o wd : Int), 0 ≤ wd ∧ wd ≤ 6 → dow o = wd → iterNext n o wd = o + 7 * n := by
  induction n with
  | zero => intro o wd _ _; simp [iterNext]
  | succ n ih =>
    intro o wd hwd ho
    have hn := next_closed o wd hwd
    have : next o wd = o + 7 := by rw [hn]; unfold firstIn dow at *; omega
    simp only [iterNext]
    rw [this, ih (o + 7) wd hwd (by unfold dow at *; omega)]
    omega

/-- the loop of `_nth_of_*`: starting on the first day `lo` of the unit, `nth` (or `nth - 1` when `lo`
    itself falls on `wd`) applications of `next` reach the nth `wd` on or after `lo` -/
theorem iterNext_nth (lo wd : Int) (nth : Nat) (hn : 1 ≤ nth) (hwd : 0 ≤ wd ∧ wd ≤ 6) :
    iterNext (nth - (if dow lo = wd then 1 else 0)) lo wd = firstIn lo wd + 7 * ((nth : Int) - 1) := by
  by_cases hd : dow lo = wd
  · simp only [hd, if_true]
    rw [iterNext_on (nth - 1) lo wd hwd hd]
    have : firstIn lo wd = lo := by unfold firstIn; rw [hd]; omega
    rw [this]; omega
  · simp only [hd, if_false, Nat.sub_zero]
    obtain ⟨k, hk⟩ : ∃ k, nth = k + 1 := ⟨nth - 1, by omega⟩
    subst hk
    have hnx : next lo wd = firstIn lo wd := by
      rw [next_closed lo wd hwd]; unfold firstIn dow at *; omega
    simp only [iterNext]
    rw [hnx, iterNext_on k _ wd hwd (firstIn_spec lo wd hwd).2.2.1]
    omega

/-! month calendar lookups -/

theorem firstDom_eq (y m wd : Int) (hwd : 0 ≤ wd ∧ wd ≤ 6) :
    ymd2ord y m 1 + firstDom y m wd - 1 = firstIn (ymd2ord y m 1) wd ∧
    1 ≤ firstDom y m wd ∧ firstDom y m wd ≤ 7 := by
  have hd := dimL_pos (isLeap y) m
  rw [← daysInMonth_eq] at hd
  have hf := dow_range (ymd2ord y m 1)
  unfold firstDom firstIn mcal
  generalize dow (ymd2ord y m 1) = f at *
  generalize daysInMonth y m = dim at *
  simp only []
  repeat' split
  all_goals omega

theorem lastDom_eq (y m wd : Int) (hwd : 0 ≤ wd ∧ wd ≤ 6) :
    ymd2ord y m 1 + lastDom y m wd - 1 = lastIn (ymd2ord y m 1 + daysInMonth y m - 1) wd ∧
    daysInMonth y m - 6 ≤ lastDom y m wd ∧ lastDom y m wd ≤ daysInMonth y m := by
  have hd := dimL_pos (isLeap y) m
  rw [← daysInMonth_eq] at hd
  have hf := dow_range (ymd2ord y m 1)
  unfold lastDom lastIn mcal mrows
  have hdow : dow (ymd2ord y m 1 + daysInMonth y m - 1) = (dow (ymd2ord y m 1) + daysInMonth y m - 1) % 7 := by
    unfold dow; omega
  rw [hdow]
  generalize dow (ymd2ord y m 1) = f at *
  generalize daysInMonth y m = dim at *
  simp only []
  repeat' split
  all_goals omega

/-! ordinal intervals of the calendar units -/

theorem ord_eq (y m d : Int) : ymd2ord y m d = ymd2ord y m 1 + d - 1 := by unfold ymd2ord; omega

/-- the ordinals whose (year, month) fields are (y, m) are exactly one interval -/
theorem in_month_iff (y m k : Int) (hm : 1 ≤ m ∧ m ≤ 12) :
    ((ord2ymd k).1 = y ∧ (ord2ymd k).2.1 = m) ↔
      (ymd2ord y m 1 ≤ k ∧ k ≤ ymd2ord y m 1 + daysInMonth y m - 1) := by
  obtain ⟨he, hv⟩ := ymd2ord_ord2ymd k
  constructor
  · rintro ⟨h1, h2⟩
    rw [h1, h2] at he hv
    obtain ⟨_, _, h3, h4⟩ := hv
    rw [ord_eq] at he; omega
  · rintro ⟨h1, h2⟩
    have hv' : validDate y m (k - ymd2ord y m 1 + 1) := ⟨hm.1, hm.2, by omega, by omega⟩
    have := ord2ymd_ymd2ord y m _ hv'
    rw [ord_eq] at this
    have e : ymd2ord y m 1 + (k - ymd2ord y m 1 + 1) - 1 = k := by omega
    rw [e] at this
    rw [this]; exact ⟨rfl, rfl⟩

theorem day_in_month (y m k : Int) (hm : 1 ≤ m ∧ m ≤ 12)
    (h : ymd2ord y m 1 ≤ k ∧ k ≤ ymd2ord y m 1 + daysInMonth y m - 1) :
    ord2ymd k = (y, m, k - ymd2ord y m 1 + 1) := by
  have hv' : validDate y m (k - ymd2ord y m 1 + 1) := ⟨hm.1, hm.2, by omega, by omega⟩
  have := ord2ymd_ymd2ord y m _ hv'
  rw [ord_eq] at this
  have e : ymd2ord y m 1 + (k - ymd2ord y m 1 + 1) - 1 = k := by omega
  rw [e] at this; exact this

/-- the ordinals whose year field is y are exactly one interval -/
theorem in_year_iff (y k : Int) :
    (ord2ymd k).1 = y ↔ (daysBeforeYear y + 1 ≤ k ∧ k ≤ daysBeforeYear (y + 1)) := by
  obtain ⟨he, hv⟩ := ymd2ord_ord2ymd k
  have hr := ord_in_year _ _ _ hv
  rw [he] at hr
  constructor
  · intro h; rw [h] at hr; exact hr
  · intro ⟨h1, h2⟩
    rcases Int.lt_trichotomy (ord2ymd k).1 y with h | h | h
    · have := dby_mono _ _ h; omega
    · exact h
    · have := dby_mono _ _ h; omega

theorem valid_first (y m : Int) (hm : 1 ≤ m ∧ m ≤ 12) : validDate y m 1 := by
  have := dimL_pos (isLeap y) m
  rw [← daysInMonth_eq] at this
  exact ⟨hm.1, hm.2, by omega, by omega⟩

theorem valid_last (y m : Int) (hm : 1 ≤ m ∧ m ≤ 12) : validDate y m (daysInMonth y m) := by
  have := dimL_pos (isLeap y) m
  rw [← daysInMonth_eq] at this
  exact ⟨hm.1, hm.2, by omega, by omega⟩

/-- months of one year are laid out in order -/
theorem month_order (y m m' : Int) (hm : 1 ≤ m) (hlt : m < m') (hm' : m' ≤ 12) :
    ymd2ord y m 1 + daysInMonth y m ≤ ymd2ord y m' 1 := by
  have := dbm_mono (isLeap y) m m' hm hlt hm'
  rw [daysInMonth_eq]; unfold ymd2ord; omega

theorem jan1 (y : Int) : ymd2ord y 1 1 = daysBeforeYear y + 1 := by
  unfold ymd2ord daysBeforeMonth; simp

theorem dby_succ (y : Int) : daysBeforeYear (y + 1) = daysBeforeYear y + daysInYear y := by
  unfold daysInYear
  have hy : y - 1 = 400 * ((y - 1) / 400) + 100 * ((y - 1) % 400 / 100) + 4 * ((y - 1) % 100 / 4) + (y - 1) % 4 := by omega
  have hl := isLeap_decomp4 ((y - 1) / 400) ((y - 1) % 400 / 100) ((y - 1) % 100 / 4) ((y - 1) % 4)
    (by omega) (by omega) (by omega)
  rw [← hy, Int.sub_add_cancel] at hl
  rw [hl]
  unfold daysBeforeYear; simp only []
  by_cases c : ((y - 1) % 4 == 3 && ((y - 1) % 100 / 4 != 24 || (y - 1) % 400 / 100 == 3)) = true
  · rw [if_pos c]
    simp only [Bool.and_eq_true, Bool.or_eq_true, beq_iff_eq, bne_iff_ne, ne_eq] at c
    omega
  · rw [if_neg c]
    simp only [Bool.and_eq_true, Bool.or_eq_true, beq_iff_eq, bne_iff_ne, ne_eq] at c
    omega

theorem dec31 (y : Int) : ymd2ord y 12 1 + 30 = daysBeforeYear (y + 1) := by
  rw [dby_succ]; unfold ymd2ord daysBeforeMonth daysInYear
  cases isLeap y <;> simp <;> omega

/-- fields of an ordinal, with what is known about them -/
theorem fields_of (o : Int) : ∃ y m d, ord2ymd o = (y, m, d) ∧ validDate y m d ∧ ymd2ord y m d = o := by
  obtain ⟨he, hv⟩ := ymd2ord_ord2ymd o
  exact ⟨_, _, _, rfl, hv, he⟩

/-! ### the three units as ordinal intervals -/

def uLo (u : Unit') (o : Int) : Int :=
  let (y, m, _) := ord2ymd o
  match u with
  | .month => ymd2ord y m 1
  | .quarter => ymd2ord y (quarter m * 3 - 2) 1
  | .year => ymd2ord y 1 1

def uHi (u : Unit') (o : Int) : Int :=
  let (y, m, _) := ord2ymd o
  match u with
  | .month => ymd2ord y m 1 + daysInMonth y m - 1
  | .quarter => ymd2ord y (quarter m * 3) 1 + daysInMonth y (quarter m * 3) - 1
  | .year => ymd2ord y 12 1 + 30

theorem quarter_bounds (m : Int) (hm : 1 ≤ m ∧ m ≤ 12) :
    1 ≤ quarter m * 3 - 2 ∧ quarter m * 3 ≤ 12 ∧ quarter m * 3 - 2 ≤ m ∧ m ≤ quarter m * 3 := by
  unfold quarter; omega

/-- membership in the quarter (y, months a..a+2) as an interval -/
theorem in_quarter_iff (y a k : Int) (ha : 1 ≤ a ∧ a + 2 ≤ 12) :
    ((ord2ymd k).1 = y ∧ a ≤ (ord2ymd k).2.1 ∧ (ord2ymd k).2.1 ≤ a + 2) ↔
      (ymd2ord y a 1 ≤ k ∧ k ≤ ymd2ord y (a + 2) 1 + daysInMonth y (a + 2) - 1) := by
  obtain ⟨y', m', d', hf, hv, he⟩ := fields_of k
  rw [hf]; simp only []
  have hv' := hv
  obtain ⟨v1, v2, v3, v4⟩ := hv
  rw [ord_eq] at he
  constructor
  · rintro ⟨h1, h2, h3⟩
    subst h1
    constructor
    · rcases (by omega : a < m' ∨ m' ≤ a) with h | h
      · have := month_order y' a m' ha.1 h v2
        have := dimL_pos (isLeap y') a; rw [← daysInMonth_eq] at this; omega
      · have : m' = a := by omega
        subst this; omega
    · rcases (by omega : m' < a + 2 ∨ a + 2 ≤ m') with h | h
      · have := month_order y' m' (a + 2) v1 h ha.2
        have := dimL_pos (isLeap y') (a + 2); rw [← daysInMonth_eq] at this; omega
      · have : m' = a + 2 := by omega
        subst this; omega
  · rintro ⟨h1, h2⟩
    have l1 := ord_in_year y a 1 (valid_first y a (by omega))
    have l2 := ord_in_year y (a + 2) _ (valid_last y (a + 2) (by omega))
    rw [ord_eq y (a + 2)] at l2
    have hy : y' = y := by
      have := (in_year_iff y k).mpr ⟨by omega, by omega⟩
      rw [hf] at this; exact this
    subst hy
    refine ⟨rfl, ?_, ?_⟩
    · rcases (by omega : m' < a ∨ a ≤ m') with h | h
      · have := month_order y' m' a v1 h (by omega); omega
      · exact h
    · rcases (by omega : a + 2 < m' ∨ m' ≤ a + 2) with h | h
      · have := month_order y' (a + 2) m' (by omega) h v2; omega
      · exact h

theorem inUnit_iff (u : Unit') (o k : Int) : inUnit u o k ↔ (uLo u o ≤ k ∧ k ≤ uHi u o) := by
  obtain ⟨y, m, d, hf, hv, he⟩ := fields_of o
  have hm : 1 ≤ m ∧ m ≤ 12 := ⟨hv.1, hv.2.1⟩
  cases u with
  | month =>
    simp only [inUnit, sameMonth, uLo, uHi, hf]
    exact in_month_iff y m k hm
  | quarter =>
    simp only [inUnit, sameQuarter, uLo, uHi, hf]
    have hq := quarter_bounds m hm
    have := in_quarter_iff y (quarter m * 3 - 2) k ⟨hq.1, by omega⟩
    have e : quarter m * 3 - 2 + 2 = quarter m * 3 := by omega
    rw [e] at this
    rw [← this]
    obtain ⟨y', m', d', hf', hv', _⟩ := fields_of k
    rw [hf']; simp only []
    have hm' : 1 ≤ m' ∧ m' ≤ 12 := ⟨hv'.1, hv'.2.1⟩
    unfold quarter at *; constructor <;> (intro h; refine ⟨h.1, ?_⟩ <;> omega)
  | year =>
    simp only [inUnit, sameYear, uLo, uHi, hf]
    rw [in_year_iff, jan1, dec31]

theorem unit_len (u : Unit') (o : Int) : uLo u o + 27 ≤ uHi u o := by
  obtain ⟨y, m, d, hf, hv, he⟩ := fields_of o
  have hm : 1 ≤ m ∧ m ≤ 12 := ⟨hv.1, hv.2.1⟩
  cases u with
  | month =>
    simp only [uLo, uHi, hf]
    have := dimL_pos (isLeap y) m; rw [← daysInMonth_eq] at this; omega
  | quarter =>
    simp only [uLo, uHi, hf]
    have hq := quarter_bounds m hm
    have := month_order y (quarter m * 3 - 2) (quarter m * 3) hq.1 (by omega) hq.2.1
    have := dimL_pos (isLeap y) (quarter m * 3); rw [← daysInMonth_eq] at this
    have := dimL_pos (isLeap y) (quarter m * 3 - 2); rw [← daysInMonth_eq] at this
    omega
  | year =>
    simp only [uLo, uHi, hf]
    have := month_order y 1 12 (by omega) (by omega) (by omega)
    have := dimL_pos (isLeap y) 1; rw [← daysInMonth_eq] at this
    omega

theorem self_in_unit (u : Unit') (o : Int) : inUnit u o o := by
  cases u <;> simp [inUnit, sameMonth, sameQuarter, sameYear]

end Pendulum.WeekNav
