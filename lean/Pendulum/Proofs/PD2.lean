import Pendulum.Proofs.PD
import Pendulum.Props.C15
/-! Field-level facts for C06: time borrow chain, validity, connection with `add_duration`. -/
namespace Pendulum.PreciseDiff
open Pendulum Pendulum.Cal Pendulum.AddDur

def E.timeOK (e : E) : Prop :=
  0 ≤ e.h ∧ e.h ≤ 23 ∧ 0 ≤ e.mi ∧ e.mi ≤ 59 ∧ 0 ≤ e.s ∧ e.s ≤ 59 ∧ 0 ≤ e.us ∧ e.us ≤ 999999

def E.Valid (e : E) : Prop := validDate e.y e.m e.d ∧ e.timeOK

/-- time of day in µs -/
def E.tod (e : E) : Int := e.h * 3600000000 + e.mi * 60000000 + e.s * 1000000 + e.us

/-- naive wall value (µs since 1970-01-01T00:00 on the same clock) -/
def E.wallUs (e : E) : Int := fieldsToWall e.y e.m e.d e.tod

theorem timeDiff_spec (d1 d2 : E) (h1 : d1.timeOK) (h2 : d2.timeOK) :
    let r := timeDiff d1 d2
    (r.1 = 0 ∨ r.1 = -1) ∧ (r.1 = -1 ↔ d2.tod < d1.tod) ∧
    0 ≤ r.2.1 ∧ r.2.1 ≤ 23 ∧ 0 ≤ r.2.2.1 ∧ r.2.2.1 ≤ 59 ∧ 0 ≤ r.2.2.2.1 ∧ r.2.2.2.1 ≤ 59 ∧
    0 ≤ r.2.2.2.2 ∧ r.2.2.2.2 ≤ 999999 ∧
    d2.tod - d1.tod = r.1 * 86400000000 + r.2.1 * 3600000000 + r.2.2.1 * 60000000 + r.2.2.2.1 * 1000000 + r.2.2.2.2 := by
  obtain ⟨a1, a2, a3, a4, a5, a6, a7, a8⟩ := h1
  obtain ⟨b1, b2, b3, b4, b5, b6, b7, b8⟩ := h2
  unfold timeDiff E.tod
  simp only []
  repeat' split
  all_goals omega


theorem wallToFields_fieldsToWall (y m d tod : Int) (hv : validDate y m d) (ht : 0 ≤ tod ∧ tod < 86400000000) :
    wallToFields (fieldsToWall y m d tod) = (y, m, d, tod) := by
  unfold wallToFields fieldsToWall DAY
  have e1 : ((ymd2ord y m d - epochOrd) * 86400000000 + tod) / 86400000000 + epochOrd = ymd2ord y m d := by omega
  have e2 : ((ymd2ord y m d - epochOrd) * 86400000000 + tod) % 86400000000 = tod := by omega
  simp only [e1, e2, ord2ymd_ymd2ord y m d hv]

theorem normTime_canon (dd h mi s us : Int) (hh : 0 ≤ h ∧ h ≤ 23) (hmi : 0 ≤ mi ∧ mi ≤ 59) (hs : 0 ≤ s ∧ s ≤ 59)
    (hus : 0 ≤ us ∧ us ≤ 999999) : normTime dd h mi s us = (dd, h, mi, s, us) := by
  unfold normTime carry abs'
  have a1 : ¬ ((if us < 0 then -us else us) > 999999) := by split <;> omega
  have a2 : ¬ ((if s < 0 then -s else s) > 59) := by split <;> omega
  have a3 : ¬ ((if mi < 0 then -mi else mi) > 59) := by split <;> omega
  have a4 : ¬ ((if h < 0 then -h else h) > 23) := by split <;> omega
  simp only [if_neg a1, if_neg a2, if_neg a3, if_neg a4]

theorem addYM_canon (y m Y M : Int) (hm : 1 ≤ m ∧ m ≤ 12) (hM : 0 ≤ M ∧ M ≤ 11) :
    addYM y m Y M = (if m + M > 12 then y + Y + 1 else y + Y, if m + M > 12 then m + M - 12 else m + M) := by
  unfold addYM AddDur.sgn abs'
  simp only []
  have h0 : ¬ (M < 0) := by omega
  simp only [if_neg h0]
  have h1 : ¬ (M > 11) := by omega
  simp only [if_neg h1]
  by_cases hz : M = 0
  · subst hz
    simp
    omega
  · simp only [ne_eq, hz, not_false_eq_true, if_true]
    by_cases hgt : m + M > 12
    · simp only [if_pos hgt]
    · have hlt : ¬ (m + M < 1) := by omega
      simp only [if_neg hgt, if_neg hlt]

theorem daysPerMonth_eq (y m : Int) (hm : 1 ≤ m ∧ m ≤ 12) : daysPerMonth y m = dimL (isLeap y) m := by
  unfold daysPerMonth
  rw [Pendulum.Props.C15.is_leap_iff]
  rw [(Pendulum.Props.C15.py_tables_correct y m hm).1, daysInMonth_eq]


/-- `add_duration` on a valid wall value with canonical (already normalised) components -/
theorem addDuration_canon (y m d tod Y M W D h mi s us : Int)
    (hv : validDate y m d) (ht : 0 ≤ tod ∧ tod < 86400000000) (hM : 0 ≤ M ∧ M ≤ 11)
    (hh : 0 ≤ h ∧ h ≤ 23) (hmi : 0 ≤ mi ∧ mi ≤ 59) (hs : 0 ≤ s ∧ s ≤ 59) (hus : 0 ≤ us ∧ us ≤ 999999) :
    addDuration (fieldsToWall y m d tod) Y M W D h mi s us =
      (if (addYMc y m d Y M).1 < 1 ∨ (addYMc y m d Y M).1 > 9999 then .error .valueError else
       if fieldsToWall (addYMc y m d Y M).1 (addYMc y m d Y M).2.1 (addYMc y m d Y M).2.2 tod
            + totalUs (D + W * 7) h mi s us < minWall ∨
          fieldsToWall (addYMc y m d Y M).1 (addYMc y m d Y M).2.1 (addYMc y m d Y M).2.2 tod
            + totalUs (D + W * 7) h mi s us > maxWall then .error .overflow
       else .ok (fieldsToWall (addYMc y m d Y M).1 (addYMc y m d Y M).2.1 (addYMc y m d Y M).2.2 tod
            + totalUs (D + W * 7) h mi s us)) := by
  have hm : 1 ≤ m ∧ m ≤ 12 := ⟨hv.1, hv.2.1⟩
  unfold addDuration
  simp only [normTime_canon _ h mi s us hh hmi hs hus, wallToFields_fieldsToWall y m d tod hv ht,
    addYM_canon y m Y M hm hM, addYMc]
  have hm2 : 1 ≤ (if m + M > 12 then m + M - 12 else m + M) ∧ (if m + M > 12 then m + M - 12 else m + M) ≤ 12 := by
    split <;> omega
  rw [daysPerMonth_eq _ _ hm2]
  rfl


/-- `a ≤ b` for values sharing a tzinfo: lexicographic on the date, then time of day -/
def E.le (a b : E) : Prop :=
  dateLe a.y a.m a.d b.y b.m b.d ∧ ((a.y = b.y ∧ a.m = b.m ∧ a.d = b.d) → a.tod ≤ b.tod)

theorem dateDiff_congr (f g : Int → Int → Int) (y1 m1 d1 y2 m2 d2 br : Int)
    (h1 : f (if m2 = 1 then y2 - 1 else y2) (if m2 = 1 then 12 else m2 - 1) = g (if m2 = 1 then y2 - 1 else y2) (if m2 = 1 then 12 else m2 - 1))
    (h2 : f y2 m2 = g y2 m2) : dateDiff f y1 m1 d1 y2 m2 d2 br = dateDiff g y1 m1 d1 y2 m2 d2 br := by
  unfold dateDiff
  simp only [h1, h2]

theorem dateDiff_py (y1 m1 d1 y2 m2 d2 br : Int) (hm : 1 ≤ m2 ∧ m2 ≤ 12) :
    dateDiff dimPy y1 m1 d1 y2 m2 d2 br = dateDiffL y1 m1 d1 y2 m2 d2 br := by
  unfold dateDiffL
  apply dateDiff_congr
  · unfold dimPy; rw [daysPerMonth_eq]; split <;> omega
  · unfold dimPy; rw [daysPerMonth_eq _ _ hm]

theorem dby_nonneg (y : Int) (hy : 1 ≤ y) : 0 ≤ daysBeforeYear y := by
  have := dby_mono 0 y (by omega)
  have e : daysBeforeYear (0 + 1) = 0 := by decide
  omega

theorem dby_10000 : daysBeforeYear 10000 = 3652059 := by decide

theorem wall_in_range (e : E) (hv : e.Valid) (h1 : 1 ≤ e.y) (h2 : e.y ≤ 9999) :
    minWall ≤ e.wallUs ∧ e.wallUs ≤ maxWall := by
  obtain ⟨hd, t1, t2, t3, t4, t5, t6, t7, t8⟩ := hv
  have := ord_in_year e.y e.m e.d hd
  have := dby_nonneg e.y h1
  have := dby_mono e.y 10000 (by omega)
  have := dby_10000
  unfold E.wallUs fieldsToWall minWall maxWall DAY epochOrd E.tod
  constructor <;> omega

end Pendulum.PreciseDiff
