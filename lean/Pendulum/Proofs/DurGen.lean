import Pendulum.Model.Dur
import Pendulum.Proofs.Dur
import Pendulum.Gen.Duration
/-! Tie between the *generated* translation of duration.py (`Pendulum.Gen.Duration`, regenerated from the source on
every run) and the hand model `Pendulum.Dur` the C09/C10 theorems are stated about: each generated definition is
proved equal to its model counterpart for all integers. -/
namespace Pendulum.DurGen
open Pendulum.Dur

theorem sign_eq (x : Int) : Gen.Duration.sign x = sgn x := by
  simp only [Gen.Duration.sign, sgn]
  by_cases h : x < 0 <;> simp [h]

/-- `_divide_and_round` is `divide_nearest` (round half to even) on integers, for every divisor -/
theorem divide_and_round_eq (a b : Int) : Gen.Duration.divide_and_round a b = Td.divNear a b := by
  simp only [Gen.Duration.divide_and_round, Td.divNear]
  have e : (Int.fmod a b * 2 : Int) = 2 * Int.fmod a b := by omega
  rw [e]
  generalize 2 * Int.fmod a b = r
  generalize Int.fdiv a b = q
  by_cases hb : b > 0 <;> by_cases h1 : r > b <;> by_cases h2 : r < b <;> by_cases h3 : r = b <;>
    by_cases h4 : q % 2 = 1 <;> simp [hb, h1, h2, h3, h4] <;> omega

/-- the seven positional arguments handed to `timedelta.__new__` denote the model's native value -/
theorem new_native_eq (a : Args) :
    (let (d, s, us, ms, mi, h, w) := Gen.Duration.new_native_args a.d a.s a.us a.ms a.mi a.h a.w a.y a.mo
     Td.ofArgs d s us ms mi h w) = (mk a).native := by
  simp only [Gen.Duration.new_native_args, mk, Td.ofArgs]
  omega

/-- the slot normalisation of `Duration.__new__` as a function of the total it computes -/
theorem new_slots_shadow (nd ns nus d s us ms mi h w y mo : Int) :
    Gen.Duration.new_slots nd ns nus d s us ms mi h w y mo =
      (let T := ((nd - (y * 365 + mo * 30)) * 86400 + ns) * 1000000 + nus
       (T, y, mo, (shadow T).weeks, (shadow T).days, (shadow T).rdays, (shadow T).seconds, (shadow T).micros)) := by
  simp only [Gen.Duration.new_slots, decide_eq_true_eq]
  generalize ((nd - (y * 365 + mo * 30)) * 86400 + ns) * 1000000 + nus = T
  simp only [shadow, sgn, absI]
  by_cases h : T < 0 <;> simp only [h, if_true, if_false]

/-- the slot normalisation of `Duration.__new__`, run on the native slots of the model's native value,
    yields exactly the model's shadow fields -/
theorem new_slots_eq (a : Args) :
    Gen.Duration.new_slots (Td.days (mk a).native) (Td.seconds (mk a).native) (Td.micros (mk a).native)
      a.d a.s a.us a.ms a.mi a.h a.w a.y a.mo
    = ((mk a).total, (mk a).years, (mk a).months, (mk a).weeks, (mk a).days, (mk a).rdays, (mk a).seconds,
       (mk a).micros) := by
  rw [new_slots_shadow, mk_eq]
  simp only [canon]
  have ht : ((Td.days (a.part + (a.y * 365 + a.mo * 30) * 86400000000) - (a.y * 365 + a.mo * 30)) * 86400 +
      Td.seconds (a.part + (a.y * 365 + a.mo * 30) * 86400000000)) * 1000000 +
      Td.micros (a.part + (a.y * 365 + a.mo * 30) * 86400000000) = a.part := by
    simp only [Td.days, Td.seconds, Td.micros]; omega
  rw [ht]

theorem hours_eq (d : D) : Gen.Duration.hours d.seconds = hours d := by
  simp only [Gen.Duration.hours, hours, sign_eq, absI]
  by_cases h : d.seconds < 0 <;> simp [h]

theorem minutes_eq (d : D) : Gen.Duration.minutes d.seconds = minutes d := by
  simp only [Gen.Duration.minutes, minutes, sign_eq, absI]
  by_cases h : d.seconds < 0 <;> simp [h]

theorem remaining_seconds_eq (d : D) : Gen.Duration.remaining_seconds d.seconds = remainingSeconds d := by
  simp only [Gen.Duration.remaining_seconds, remainingSeconds, sign_eq, absI]

theorem to_microseconds_eq (d : D) : Gen.Duration.to_microseconds d.days d.seconds d.micros = toUs d := by
  simp only [Gen.Duration.to_microseconds, toUs]; omega

/-- `Duration._native_microseconds()` recomputes the native value from the shadow slots -/
theorem native_microseconds_eq (a : Args) :
    Gen.Duration.native_microseconds (mk a).years (mk a).months (mk a).days (mk a).seconds (mk a).micros
      = (mk a).native := by
  rw [mk_eq]
  have h := canon_toUs a.y a.mo a.part
  simp only [toUs] at h
  simp only [Gen.Duration.native_microseconds, canon] at h ⊢
  omega

/-- plain-timedelta branch of the module helpers: slots back to the µs count -/
theorem td_native_microseconds_eq (n : Int) :
    Gen.Duration.td_native_microseconds (Td.days n) (Td.seconds n) (Td.micros n) = n := by
  simp only [Gen.Duration.td_native_microseconds, Td.days, Td.seconds, Td.micros]; omega

theorem td_to_microseconds_eq (n : Int) :
    Gen.Duration.td_to_microseconds (Td.days n) (Td.seconds n) (Td.micros n) = n := by
  simp only [Gen.Duration.td_to_microseconds, Td.days, Td.seconds, Td.micros]; omega

end Pendulum.DurGen
