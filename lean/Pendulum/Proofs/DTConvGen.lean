import Pendulum.Gen.DTConv
import Pendulum.Model.DTOps
import Pendulum.Proofs.AddDur
import Pendulum.Proofs.GenTie
/-! Tie between the *generated* translation of pendulum's construction / conversion glue (`Pendulum.Gen.DTConv`,
regenerated from `__init__.py`, `tz/__init__.py`, `tz/timezone.py`, `datetime.py` on every run by tools/gen_dtconv.py)
and the hand model `Pendulum.DTOps` (Model/DTOps.lean) that the C01 / C02 theorems are stated about.

Reading of the generated types: a `DtVal` denotes the model value `valOf db d` = (zone of its tzinfo, wall µs of its
seven fields, fold); `db : String → Z` is the zone database (name ↦ transition table); a `Tz` denotes the `ZRef`
`tzRef db t` (`UTC` = the table without transitions and offset 0, a `FixedTimezone` = its stored `_utcoffset`).
`EnvOk env db` states what the parameters of the generated code (stdlib datetime arithmetic, `zoneinfo`, the cache dict)
are assumed to do, in terms of the model — the callee-link hypotheses of every tie theorem; `envOf_ok` shows them
satisfiable. No proof ends in `rfl` over a whole generated body. -/
set_option linter.unusedSimpArgs false
set_option linter.unusedVariables false
namespace Pendulum.DTConvGen
open Pendulum Pendulum.Zone Pendulum.Gen.DTConv
open Pendulum.AddDur (fieldsToWall wallToFields fieldsToWall_wallToFields)
open Pendulum.DTOps (ZRef V Err inRange fixedZ)

/-! ### readings -/

/-- time of day in µs of (hour, minute, second, microsecond) -/
def todOf (h mi s us : Int) : Int := ((h * 60 + mi) * 60 + s) * 1000000 + us

/-- wall µs of seven civil fields -/
def wallF (y m d h mi s us : Int) : Int := fieldsToWall y m d (todOf h mi s us)

def wallOf (d : DtVal) : Int := wallF d.year d.month d.day d.hour d.minute d.second d.microsecond

/-- the datetime value with wall µs `w` -/
def mkDt (w : Int) (fold : Bool) (tzinfo : TzArg) : DtVal :=
  ⟨(wallToFields w).1, (wallToFields w).2.1, (wallToFields w).2.2.1,
   (wallToFields w).2.2.2 / 3600000000, (wallToFields w).2.2.2 % 3600000000 / 60000000,
   (wallToFields w).2.2.2 % 60000000 / 1000000, (wallToFields w).2.2.2 % 1000000, fold, tzinfo⟩

theorem tod_split (t : Int) : todOf (t / 3600000000) (t % 3600000000 / 60000000) (t % 60000000 / 1000000) (t % 1000000) = t := by
  unfold todOf; omega

theorem wallOf_mkDt (w : Int) (f : Bool) (t : TzArg) : wallOf (mkDt w f t) = w := by
  simp only [wallOf, wallF, mkDt, tod_split]
  exact fieldsToWall_wallToFields w

theorem mkDt_fold (w : Int) (f : Bool) (t : TzArg) : (mkDt w f t).fold = f := rfl
theorem mkDt_tzinfo (w : Int) (f : Bool) (t : TzArg) : (mkDt w f t).tzinfo = t := rfl

/-- the table a pendulum timezone object stands for -/
def zoneOf (db : String → Z) : Tz → Z
  | .utc => ⟨0, []⟩
  | .named k => db k
  | .fixed o => fixedZ o.utcoffset

def tzRef (db : String → Z) : Tz → ZRef
  | .utc => .named ⟨0, []⟩
  | .named k => .named (db k)
  | .fixed o => .fixed o.utcoffset

def argRef (db : String → Z) : TzArg → ZRef
  | .tz t => tzRef db t
  | _ => .naive

def valOf (db : String → Z) (d : DtVal) : V := ⟨argRef db d.tzinfo, wallOf d, d.fold⟩

def errOf (s : String) : Err :=
  if s = "NonExistingTime" then .nonExisting else if s = "AmbiguousTime" then .ambiguous
  else if s = "OverflowError" then .overflow else .valueError

theorem errOf_name (e : Err) : errOf e.name = e := by cases e <;> rfl

def resOf (db : String → Z) : Except String DtVal → Except Err V
  | .ok d => .ok (valOf db d)
  | .error e => .error (errOf e)

theorem tzRef_table (db : String → Z) (t : Tz) : (tzRef db t).table = some (zoneOf db t) := by
  cases t <;> rfl

/-! ### what the parameters are assumed to do -/

/-- the `_tz_cache` invariant: the entry under `k` is `FixedTimezone(k)` -/
def CacheOk (env : Env) : Prop := ∀ k t, env.tz_cache k = some t → t = .fixed (fixed_init env k none)

structure EnvOk (env : Env) (db : String → Z) : Prop where
  /-- `ZoneInfo.utcoffset(x)` of a naive `x` is the table's wall-clock offset for `x`'s fold -/
  utcoffset : ∀ t d, env.zone_utcoffset t d = (zoneOf db t).woff d.fold (wallOf d)
  /-- `datetime + timedelta`: the wall value moves, fold is reset, tzinfo kept, OverflowError outside years 1..9999 -/
  native_add : ∀ d td, env.native_add d td =
    if inRange (wallOf d + td) then .ok (mkDt (wallOf d + td) false d.tzinfo) else .error "OverflowError"
  /-- pendulum's `DateTime.__add__` on a naive instance: as above, but the result carries the constructor's default fold=1
      (`DTOps.add`, properties C03/C04) -/
  pdt_add : ∀ d td, d.tzinfo = .none → env.pdt_add d td =
    if inRange (wallOf d + td) then .ok (mkDt (wallOf d + td) true .none) else .error "OverflowError"
  /-- `datetime.astimezone(tz)` of an aware value is the model's `inTz` (CPython's identity shortcut included) -/
  astimezone : ∀ d s t, d.tzinfo = .tz s → env.native_astimezone d (.tz t) =
    if s = t then .ok d else
    match DTOps.inTz (valOf db d) (tzRef db t) false with
    | .ok r => .ok (mkDt r.w r.fold (.tz t))
    | .error e => .error e.name
  /-- `x - _EPOCH` is the instant of `x` -/
  sub_epoch : ∀ d, env.sub_epoch d = (valOf db d).instant
  /-- `utcfromtimestamp(t)`: the naive UTC reading of the timestamp -/
  utcfromtimestamp : ∀ ts, env.utcfromtimestamp ts = mkDt ts false .none
  cache : CacheOk env

/-- a concrete environment satisfying the link hypotheses (non-vacuity of every tie theorem below) -/
def envOf (db : String → Z) : Env where
  local_timezone := .utc
  tz_cache := fun _ => none
  zone_utcoffset := fun t d => (zoneOf db t).woff d.fold (wallOf d)
  native_add := fun d td => if inRange (wallOf d + td) then .ok (mkDt (wallOf d + td) false d.tzinfo) else .error "OverflowError"
  pdt_add := fun d td => if inRange (wallOf d + td) then .ok (mkDt (wallOf d + td) true .none) else .error "OverflowError"
  native_astimezone := fun d a =>
    match d.tzinfo, a with
    | .tz s, .tz t =>
      if s = t then .ok d else
      match DTOps.inTz (valOf db d) (tzRef db t) false with
      | .ok r => .ok (mkDt r.w r.fold (.tz t))
      | .error e => .error e.name
    | _, _ => .error "ValueError"
  utcfromtimestamp := fun ts => mkDt ts false .none
  sub_epoch := fun d => (valOf db d).instant

theorem envOf_ok (db : String → Z) : EnvOk (envOf db) db where
  utcoffset := fun _ _ => rfl
  native_add := fun _ _ => rfl
  pdt_add := fun _ _ _ => rfl
  astimezone := by
    intro d s t h
    simp only [envOf, h]
  sub_epoch := fun _ => rfl
  utcfromtimestamp := fun _ => rfl
  cache := by intro k t h; simp [envOf] at h

/-! ### `FixedTimezone.__init__`, the cache, `timezone()`, `_safe_timezone` -/

/-- the name of a fixed offset, stated independently: sign of the offset, |offset| div 3600, |offset| div 60 mod 60 -/
def specName (off : Int) : List NamePart :=
  [.str (if off < 0 then "-" else "+"), .int "02d" ((if off < 0 then -off else off) / 3600), .str ":",
   .int "02d" ((if off < 0 then -off else off) / 60 % 60)]

theorem abs_trunc60 (off : Int) : iabs (ptrunc off 60) = (if off < 0 then -off else off) / 60 := by
  simp only [iabs, ptrunc]
  split <;> split <;> omega

theorem fixed_init_eq (env : Env) (off : Int) (name : Option (List NamePart)) :
    fixed_init env off name = ⟨name.getD (specName off), off, off * 1000000⟩ := by
  gen_tie "Pendulum.DTConvGen.fixed_init_eq" "FixedTimezone.__init__ (Gen/DTConv.lean, regenerated from tz/timezone.py)" =>
    simp only [fixed_init, specName, abs_trunc60, decide_eq_true_eq]
    have h1 : (if off < 0 then -off else off) / 60 / 60 = (if off < 0 then -off else off) / 3600 := by split <;> omega
    rw [h1]
    done

/-- the timezone `fixed_timezone(k)` / `FixedTimezone(k)` builds -/
def fixedTz (k : Int) : Tz := .fixed ⟨specName k, k, k * 1000000⟩

theorem fixed_timezone_eq (env : Env) (hc : CacheOk env) (k : Int) :
    (fixed_timezone env k).1 = fixedTz k ∧ ∀ p ∈ (fixed_timezone env k).2, p.2 = fixedTz p.1 := by
  gen_tie "Pendulum.DTConvGen.fixed_timezone_eq" "fixed_timezone (Gen/DTConv.lean, regenerated from tz/__init__.py)" =>
    simp only [fixed_timezone]
    cases h : env.tz_cache k with
    | none => simp [fixedTz, fixed_init_eq]
    | some t => simp [hc k t h, fixedTz, fixed_init_eq]
    done

/-- `timezone(name)`: an int is a fixed offset in seconds; "utc" in any case is the constant UTC; another name is that zone -/
def nameTz (s : String) : Tz := if s.toLower = "utc" then .utc else .named s

theorem timezone_eq (env : Env) (hc : CacheOk env) (a : NameOrInt) :
    p_timezone env a = (match a with | .int n => fixedTz n | .str s => nameTz s) := by
  gen_tie "Pendulum.DTConvGen.timezone_eq" "pendulum.timezone (Gen/DTConv.lean, regenerated from __init__.py)" =>
    cases a with
    | int n => simp [p_timezone, NameOrInt.isInt, NameOrInt.getInt, (fixed_timezone_eq env hc n).1]
    | str s =>
      simp only [p_timezone, NameOrInt.isInt, NameOrInt.getStr, nameTz]
      by_cases c : s.toLower = "utc" <;> simp [c]
    done

/-- seconds of a number of hours given as the exact rational n/d (d > 0), truncated toward zero: what `int(obj * 60 * 60)` is -/
def hoursToSeconds (n d : Int) : Int := if n < 0 then -((-n * 3600) / d) else (n * 3600) / d

/-- `int(td.total_seconds())` of a timedelta of `us` µs -/
def tdSeconds (us : Int) : Int := if us < 0 then -((-us) / 1000000) else us / 1000000

/-- `_safe_timezone(obj)` per kind of argument (the order of the `isinstance` / `hasattr` tests is part of the statement) -/
def specSafe (env : Env) : TzArg → Tz
  | .tz t => t
  | .none => env.local_timezone
  | .str s => if s = "local" then env.local_timezone else nameTz s
  | .num n d => fixedTz (hoursToSeconds n d)
  | .tzinfo (some k) _ _ _ => nameTz k
  | .tzinfo none (some z) _ _ => nameTz z
  | .tzinfo none none nm off => if nm = some "UTC" then .utc else fixedTz (tdSeconds (off.getD 0))

theorem ptrunc_hours (n d : Int) : ptrunc (n * 60 * 60) d = hoursToSeconds n d := by
  have e : n * 60 * 60 = n * 3600 := by omega
  simp only [ptrunc, hoursToSeconds, e]
  have e2 : -(n * 3600) = -n * 3600 := by omega
  by_cases c : n < 0
  · have c2 : n * 3600 < 0 := by omega
    simp [c, c2, e2]
  · have c2 : ¬ n * 3600 < 0 := by omega
    simp [c, c2]

theorem ptrunc_hours' (m n d : Int) (e : m = n * 3600) : ptrunc m d = hoursToSeconds n d := by
  rw [← ptrunc_hours, e]; congr 1; omega

theorem ptrunc_td (us : Int) : ptrunc us 1000000 = tdSeconds us := by
  simp only [ptrunc, tdSeconds]

/-- a `Timezone` / `FixedTimezone` is returned as is (no cache involved) -/
theorem safe_timezone_tz (env : Env) (t : Tz) : safe_timezone env (.tz t) = t := by
  gen_tie "Pendulum.DTConvGen.safe_timezone_tz" "pendulum._safe_timezone (Gen/DTConv.lean, regenerated from __init__.py)" =>
    simp [safe_timezone, TzArg.isTz, TzArg.getTz, TzArg.isNone, TzArg.eqStr]
    done

theorem safe_timezone_eq (env : Env) (hc : CacheOk env) (a : TzArg) : safe_timezone env a = specSafe env a := by
  gen_tie "Pendulum.DTConvGen.safe_timezone_eq" "pendulum._safe_timezone (Gen/DTConv.lean, regenerated from __init__.py)" =>
    cases a with
    | tz t => simp [safe_timezone, specSafe, TzArg.isTz, TzArg.getTz, TzArg.isNone, TzArg.eqStr]
    | none => simp [safe_timezone, specSafe, TzArg.isTz, TzArg.isNone, TzArg.eqStr]
    | str s =>
      simp only [safe_timezone, specSafe, TzArg.isTz, TzArg.isNone, TzArg.eqStr, TzArg.isNum, TzArg.isTzinfo,
        TzArg.asNameOrInt, timezone_eq env hc]
      by_cases c : s = "local" <;> simp [c]
    | num n d =>
      simp only [safe_timezone, specSafe, TzArg.isTz, TzArg.isNone, TzArg.eqStr, TzArg.isNum, TzArg.numer, TzArg.denom,
        timezone_eq env hc, Bool.false_eq_true, if_false, if_true, Bool.or_self]
      rw [ptrunc_hours' _ n d (by omega)]
    | tzinfo k z nm off =>
      by_cases c : nm = some "UTC" <;> cases k <;> cases z <;>
        simp [safe_timezone, specSafe, TzArg.isTz, TzArg.isNone, TzArg.eqStr, TzArg.isNum, TzArg.isTzinfo, TzArg.hasKey,
          TzArg.hasLocalize, TzArg.key, TzArg.zone, TzArg.tznameOf, TzArg.utcoffsetOf, timezone_eq env hc, ptrunc_td, c]
    done

/-! ### `convert`, `create` -/

theorem bind_ok {α : Type} (x : Except String α) : Except.bind x (fun d => .ok d) = x := by
  cases x <;> rfl

theorem dt_eta (d : DtVal) : DtVal.mk d.year d.month d.day d.hour d.minute d.second d.microsecond d.fold d.tzinfo = d := by
  cases d; rfl

theorem resOf_ok (db : String → Z) (d : DtVal) : resOf db (.ok d) = .ok (valOf db d) := rfl
theorem resOf_error (db : String → Z) (e : String) : resOf db (.error e) = .error (errOf e) := rfl

/-- a `Timezone` (not a `FixedTimezone`): its reference is its table -/
def IsZone (db : String → Z) (t : Tz) : Prop := tzRef db t = .named (zoneOf db t)

theorem isZone_utc (db : String → Z) : IsZone db .utc := rfl
theorem isZone_named (db : String → Z) (k : String) : IsZone db (.named k) := rfl

/-- `Timezone.convert` on a naive native value is the model's `create` in that zone (normalisation of skipped /
    repeated wall times, the two exceptions, OverflowError when the shift leaves years 1..9999) -/
theorem zone_convert_n_naive (env : Env) (db : String → Z) (h : EnvOk env db) (t : Tz) (hz : IsZone db t) (d : DtVal)
    (hn : d.tzinfo = .none) (hw : inRange (wallOf d) = true) (raise : Bool) :
    resOf db (zone_convert_n env t d raise) = DTOps.create (.named (zoneOf db t)) (wallOf d) d.fold raise := by
  gen_tie "Pendulum.DTConvGen.zone_convert_n_naive" "Timezone.convert (Gen/DTConv.lean, regenerated from tz/timezone.py)" =>
    obtain ⟨y, mo, dd, hh, mi, ss, us, fold, tzi⟩ := d
    simp only at hn; subst hn
    simp only [wallOf] at hw
    have hz : tzRef db t = .named (zoneOf db t) := hz
    simp only [zone_convert_n, TzArg.isNone, if_true, h.utcoffset, h.native_add, wallOf, DTOps.create, convertNaive]
    obtain ⟨w, hW⟩ : ∃ w, wallF y mo dd hh mi ss us = w := ⟨_, rfl⟩
    simp only [hW] at hw ⊢
    obtain ⟨a, ha⟩ : ∃ a, (zoneOf db t).woff false w = a := ⟨_, rfl⟩
    obtain ⟨b, hb⟩ : ∃ b, (zoneOf db t).woff true w = b := ⟨_, rfl⟩
    have key : ∀ w', resOf db (Except.bind (if inRange w' = true then Except.ok (mkDt w' false TzArg.none) else Except.error "OverflowError")
        (fun v => Except.ok { v with tzinfo := TzArg.tz t })) =
        if inRange w' = true then .ok ⟨.named (zoneOf db t), w', false⟩ else .error .overflow := by
      intro w'
      by_cases hr : inRange w' = true
      · simp only [hr, if_true, Except.bind, resOf, valOf, argRef, hz]
        have : wallOf { mkDt w' false TzArg.none with tzinfo := TzArg.tz t } = w' := wallOf_mkDt w' false TzArg.none
        simp only [this]; rfl
      · simp only [hr, Except.bind, resOf]; rfl
    have plain : ∀ f, resOf db (Except.ok (DtVal.mk y mo dd hh mi ss us f (TzArg.tz t))) = .ok ⟨.named (zoneOf db t), w, f⟩ := by
      intro f; simp only [resOf, valOf, argRef, hz, wallOf, hW]
    cases fold <;> cases raise <;> by_cases c1 : b > a <;> by_cases c2 : a > b <;>
      simp only [ha, hb, c1, c2, key, plain, hw, decide_true, decide_false, if_true, if_false, Bool.false_eq_true, Bool.and_true,
        Bool.and_false, Bool.true_and, Bool.false_and, resOf_error, and_true, and_false, decide_eq_true_eq, gt_iff_lt] <;>
      first | rfl | omega
    done

theorem bind_eta (x : Except String DtVal) :
    Except.bind x (fun d => .ok (DtVal.mk d.year d.month d.day d.hour d.minute d.second d.microsecond d.fold d.tzinfo)) = x := by
  have : (fun d : DtVal => (Except.ok (DtVal.mk d.year d.month d.day d.hour d.minute d.second d.microsecond d.fold d.tzinfo) : Except String DtVal))
      = fun d => .ok d := by funext d; rw [dt_eta]
  rw [this, bind_ok]

/-- `FixedTimezone.convert` on a naive value: same wall time, that tzinfo, fold 0 -/
theorem fixed_convert_n_naive (env : Env) (o : FixedObj) (d : DtVal) (hn : d.tzinfo = .none) (raise : Bool) :
    fixed_convert_n env o d raise = .ok { d with tzinfo := .tz (.fixed o), fold := false } := by
  gen_tie "Pendulum.DTConvGen.fixed_convert_n_naive" "FixedTimezone.convert (Gen/DTConv.lean, regenerated from tz/timezone.py)" =>
    simp only [fixed_convert_n, hn, TzArg.isNone, if_true]
    done

theorem fixed_convert_p_naive (env : Env) (o : FixedObj) (d : DtVal) (hn : d.tzinfo = .none) (raise : Bool) :
    fixed_convert_p env o d raise = .ok { d with tzinfo := .tz (.fixed o), fold := false } := by
  gen_tie "Pendulum.DTConvGen.fixed_convert_p_naive" "FixedTimezone.convert (Gen/DTConv.lean, regenerated from tz/timezone.py)" =>
    simp only [fixed_convert_p, hn, TzArg.isNone, if_true]
    done

/-- the zone `create(..., tz=tz)` puts the value in -/
def createRef (env : Env) (db : String → Z) (tz : TzArg) : ZRef :=
  if tz.isNone then .naive else tzRef db (safe_timezone env tz)

/-- **`DateTime.create`** is the model's `create`: `_safe_timezone(tz)` unless `tz is None`, the naive native value with the
    given `fold`, `tz.convert(dt, raise_on_unknown_times=…)`, the fields / tzinfo / fold of the result copied -/
theorem create_eq (env : Env) (db : String → Z) (h : EnvOk env db) (y mo dd hh mi ss us : Int) (tz : TzArg) (fold raise : Bool)
    (hw : inRange (wallF y mo dd hh mi ss us) = true) :
    resOf db (dt_create env y mo dd hh mi ss us tz fold raise) =
      DTOps.create (createRef env db tz) (wallF y mo dd hh mi ss us) fold raise := by
  gen_tie "Pendulum.DTConvGen.create_eq" "DateTime.create (Gen/DTConv.lean, regenerated from datetime.py)" =>
    simp only [dt_create, createRef]
    by_cases hn : tz.isNone = true
    · simp only [hn, Bool.not_true, Bool.false_eq_true, if_false, if_true, Option.isNone_none, bind_eta]
      rfl
    · have hn' : tz.isNone = false := by simpa using hn
      simp only [hn', Bool.not_false, if_true, Option.isNone_some, Bool.false_eq_true, if_false, Option.getD_some, bind_ok, bind_eta]
      cases hT : safe_timezone env tz with
      | fixed o =>
        simp only [tz_convert_n, fixed_convert_n_naive, resOf, valOf, argRef, tzRef, DTOps.create, wallOf]
      | utc =>
        have hw' : inRange (wallOf (DtVal.mk y mo dd hh mi ss us fold TzArg.none)) = true := by simpa only [wallOf] using hw
        have := zone_convert_n_naive env db h .utc (isZone_utc db) (DtVal.mk y mo dd hh mi ss us fold TzArg.none) rfl hw' raise
        simpa only [tz_convert_n, wallOf, tzRef, zoneOf] using this
      | named k =>
        have hw' : inRange (wallOf (DtVal.mk y mo dd hh mi ss us fold TzArg.none)) = true := by simpa only [wallOf] using hw
        have := zone_convert_n_naive env db h (.named k) (isZone_named db k) (DtVal.mk y mo dd hh mi ss us fold TzArg.none) rfl hw' raise
        simpa only [tz_convert_n, wallOf, tzRef, zoneOf] using this
    done

/-! ### `set`, `on`, `at`, `replace` -/

/-- `self.tz` as an argument for `create` -/
def selfTz (d : DtVal) : TzArg := match d.tzinfo with | .tz t => .tz t | _ => .none

theorem dt_tz_eq (env : Env) (d : DtVal) : TzArg.ofOptTz (dt_tz env d) = selfTz d := by
  gen_tie "Pendulum.DTConvGen.dt_tz_eq" "DateTime.tz / DateTime.timezone (Gen/DTConv.lean, regenerated from datetime.py)" =>
    simp only [dt_tz, dt_timezone, selfTz]
    cases d.tzinfo <;> simp [TzArg.isTz, TzArg.getTz, TzArg.ofOptTz]
    done

/-- **`DateTime.set`**: every field defaults to the instance's, `tz` to `self.tz`, the fold is the instance's, no raising -/
theorem set_eq (env : Env) (d : DtVal) (oy om od oh omi os ous : Option Int) (tz : TzArg) :
    dt_set env d oy om od oh omi os ous tz =
      dt_create env (oy.getD d.year) (om.getD d.month) (od.getD d.day) (oh.getD d.hour) (omi.getD d.minute) (os.getD d.second)
        (ous.getD d.microsecond) (if tz.isNone then selfTz d else tz) d.fold false := by
  gen_tie "Pendulum.DTConvGen.set_eq" "DateTime.set (Gen/DTConv.lean, regenerated from datetime.py)" =>
    simp only [dt_set, bind_ok, dt_tz_eq]
    done

/-- **`DateTime.on`** = `set(year, month, day)` -/
theorem on_eq (env : Env) (d : DtVal) (y m dd : Int) :
    dt_on env d y m dd = dt_create env y m dd d.hour d.minute d.second d.microsecond (selfTz d) d.fold false := by
  gen_tie "Pendulum.DTConvGen.on_eq" "DateTime.on (Gen/DTConv.lean, regenerated from datetime.py)" =>
    simp only [dt_on, bind_ok, set_eq, Option.getD_some, Option.getD_none, TzArg.isNone, if_true]
    done

/-- **`DateTime.at`** = `set(hour, minute, second, microsecond)` -/
theorem at_eq (env : Env) (d : DtVal) (hh mi ss us : Int) :
    dt_at env d hh mi ss us = dt_create env d.year d.month d.day hh mi ss us (selfTz d) d.fold false := by
  gen_tie "Pendulum.DTConvGen.at_eq" "DateTime.at (Gen/DTConv.lean, regenerated from datetime.py)" =>
    simp only [dt_at, bind_ok, set_eq, Option.getD_some, Option.getD_none, TzArg.isNone, if_true]
    done

/-- the `tz=` argument `replace` hands to `create`: the instance's tzinfo unless one is given, through `_safe_timezone` -/
def replTz (env : Env) (d : DtVal) (tzi : ReplTz) : TzArg :=
  let t := match tzi with | .keep => d.tzinfo | .val v => v
  if t.isNone then .none else .tz (safe_timezone env t)

/-- **`DateTime.replace`**: fields default to the instance's; the fold is the one given, else the instance's -/
theorem replace_eq (env : Env) (d : DtVal) (oy om od oh omi os ous : Option Int) (tzi : ReplTz) (ofold : Option Bool) :
    dt_replace env d oy om od oh omi os ous tzi ofold =
      dt_create env (oy.getD d.year) (om.getD d.month) (od.getD d.day) (oh.getD d.hour) (omi.getD d.minute) (os.getD d.second)
        (ous.getD d.microsecond) (replTz env d tzi) (ofold.getD d.fold) false := by
  gen_tie "Pendulum.DTConvGen.replace_eq" "DateTime.replace (Gen/DTConv.lean, regenerated from datetime.py)" =>
    simp only [dt_replace, bind_ok, replTz]
    cases tzi with
    | keep => cases ht : d.tzinfo <;> simp [ReplTz.isKeep, TzArg.isNone, TzArg.ofOptTz]
    | val v => cases v <;> simp [ReplTz.isKeep, ReplTz.getVal, TzArg.isNone, TzArg.ofOptTz]
    done

/-! ### `astimezone`, `in_timezone`, `from_timestamp`, `int_timestamp` -/

theorem tzRef_ne_naive (db : String → Z) (t : Tz) : tzRef db t ≠ .naive := by cases t <;> simp [tzRef]

/-- the zone of what the model's `inTz` returns for an aware source and a distinct target object -/
theorem inTz_z (v r : V) (target : ZRef) (hv : v.z ≠ .naive) (h : DTOps.inTz v target false = .ok r) : r.z = target := by
  obtain ⟨vz, vw, vf⟩ := v
  unfold DTOps.inTz at h
  simp only [Bool.false_eq_true, if_false] at h
  cases vz with
  | naive => exact absurd rfl hv
  | named z0 =>
    cases ht : target.table with
    | none => simp [ht] at h
    | some zt =>
      simp only [ht] at h
      split at h
      · injection h with h; subst h; rfl
      · cases h
  | fixed o0 =>
    cases ht : target.table with
    | none => simp [ht] at h
    | some zt =>
      simp only [ht] at h
      split at h
      · injection h with h; subst h; rfl
      · cases h

/-- **`DateTime.astimezone(tz)`** for a pendulum timezone: the stdlib conversion, rebuilt field by field with `tz` as tzinfo -/
theorem astimezone_eq (env : Env) (db : String → Z) (h : EnvOk env db) (d : DtVal) (s t : Tz) (hs : d.tzinfo = .tz s) :
    resOf db (dt_astimezone env d (.tz t)) = DTOps.inTz (valOf db d) (tzRef db t) (decide (s = t)) := by
  gen_tie "Pendulum.DTConvGen.astimezone_eq" "DateTime.astimezone (Gen/DTConv.lean, regenerated from datetime.py)" =>
    simp only [dt_astimezone, h.astimezone d s t hs, TzArg.isNone, Bool.false_eq_true, if_false]
    by_cases c : s = t
    · subst c
      have e : DtVal.mk d.year d.month d.day d.hour d.minute d.second d.microsecond d.fold (TzArg.tz s) = d := by
        rw [← hs, dt_eta]
      simp only [if_true, Except.bind, e, resOf, DTOps.inTz, decide_true]
    · simp only [c, if_false, decide_false]
      cases hr : DTOps.inTz (valOf db d) (tzRef db t) false with
      | error e => simp only [Except.bind, resOf, errOf_name]
      | ok r =>
        have hz : r.z = tzRef db t := inTz_z _ r _ (by simp only [valOf, hs, argRef]; exact tzRef_ne_naive db s) hr
        simp only [Except.bind, resOf, valOf, argRef]
        have hw : wallOf (DtVal.mk (mkDt r.w r.fold (TzArg.tz t)).year (mkDt r.w r.fold (TzArg.tz t)).month
            (mkDt r.w r.fold (TzArg.tz t)).day (mkDt r.w r.fold (TzArg.tz t)).hour (mkDt r.w r.fold (TzArg.tz t)).minute
            (mkDt r.w r.fold (TzArg.tz t)).second (mkDt r.w r.fold (TzArg.tz t)).microsecond
            (mkDt r.w r.fold (TzArg.tz t)).fold (TzArg.tz t)) = r.w := wallOf_mkDt r.w r.fold (TzArg.tz t)
        rw [hw, ← hz]
        cases r; rfl
    done

/-- **`DateTime.in_timezone(tz)`** of an instance carrying a pendulum timezone is the model's `inTz`: `_safe_timezone(tz)`,
    then `tz.convert(self)` — whose aware branch is `self.astimezone(tz)` for a `Timezone` and for a `FixedTimezone` -/
theorem in_timezone_eq (env : Env) (db : String → Z) (h : EnvOk env db) (d : DtVal) (s : Tz) (hs : d.tzinfo = .tz s) (tz : TzArg) :
    resOf db (dt_in_timezone env d tz) =
      DTOps.inTz (valOf db d) (tzRef db (safe_timezone env tz)) (decide (s = safe_timezone env tz)) := by
  gen_tie "Pendulum.DTConvGen.in_timezone_eq" "DateTime.in_timezone / Timezone.convert / FixedTimezone.convert (Gen/DTConv.lean)" =>
    simp only [dt_in_timezone, dt_timezone, hs, TzArg.isTz, TzArg.getTz, Bool.not_true, Bool.false_eq_true, if_false,
      Option.isSome_some, Option.isNone_some, bind_ok]
    rw [show (Except.bind (Except.ok d : Except String DtVal) fun dt_5 => tz_convert_p env (safe_timezone env tz) dt_5 false)
        = tz_convert_p env (safe_timezone env tz) d false from rfl]
    cases hT : safe_timezone env tz with
    | fixed o =>
      simp only [tz_convert_p, fixed_convert_p, hs, TzArg.isNone, Bool.false_eq_true, if_false, bind_ok]
      exact astimezone_eq env db h d s (.fixed o) hs
    | utc =>
      simp only [tz_convert_p, zone_convert_p, hs, TzArg.isNone, Bool.false_eq_true, if_false, bind_ok]
      exact astimezone_eq env db h d s .utc hs
    | named k =>
      simp only [tz_convert_p, zone_convert_p, hs, TzArg.isNone, Bool.false_eq_true, if_false, bind_ok]
      exact astimezone_eq env db h d s (.named k) hs
    done

theorem in_tz_eq (env : Env) (d : DtVal) (tz : TzArg) : dt_in_tz env d tz = dt_in_timezone env d tz := by
  gen_tie "Pendulum.DTConvGen.in_tz_eq" "DateTime.in_tz (Gen/DTConv.lean, regenerated from datetime.py)" =>
    simp only [dt_in_tz, bind_ok]
    done

/-- `create(..., tz=None)`: the plain value -/
theorem create_none (env : Env) (y mo dd hh mi ss us : Int) (fold raise : Bool) :
    dt_create env y mo dd hh mi ss us .none fold raise = .ok (DtVal.mk y mo dd hh mi ss us fold .none) := by
  gen_tie "Pendulum.DTConvGen.create_none" "DateTime.create (Gen/DTConv.lean, regenerated from datetime.py)" =>
    simp only [dt_create, TzArg.isNone, Bool.not_true, Bool.false_eq_true, if_false, Option.isNone_none, bind_eta]
    done

/-- **`in_timezone` of a naive instance**: `self.replace(fold=1)` handed to `tz.convert` -/
theorem in_timezone_naive (env : Env) (d : DtVal) (hn : d.tzinfo = .none) (tz : TzArg) :
    dt_in_timezone env d tz = tz_convert_p env (safe_timezone env tz) { d with fold := true } false := by
  gen_tie "Pendulum.DTConvGen.in_timezone_naive" "DateTime.in_timezone (Gen/DTConv.lean, regenerated from datetime.py)" =>
    simp only [dt_in_timezone, dt_timezone, hn, TzArg.isTz, Bool.not_false, if_true, Option.isSome_none, Option.isNone_none, bind_ok,
      replace_eq, replTz, TzArg.isNone, Option.getD_none, Option.getD_some, create_none]
    rfl
    done

/-- `create(..., tz=UTC)`: UTC has no transitions, the value is returned as given -/
theorem create_utc (env : Env) (db : String → Z) (h : EnvOk env db) (y mo dd hh mi ss us : Int) (fold : Bool) :
    dt_create env y mo dd hh mi ss us (.tz .utc) fold false = .ok (DtVal.mk y mo dd hh mi ss us fold (.tz .utc)) := by
  gen_tie "Pendulum.DTConvGen.create_utc" "DateTime.create / Timezone.convert (Gen/DTConv.lean)" =>
    simp only [dt_create, TzArg.isNone, Bool.not_false, if_true, Option.isNone_some, Bool.false_eq_true, if_false,
      Option.getD_some, bind_ok, bind_eta, safe_timezone_tz, tz_convert_n, zone_convert_n,
      h.utcoffset, zoneOf, Z.woff, wallOff, gt_iff_lt, Int.lt_irrefl, decide_false, Bool.false_and, ite_self]
    done

theorem not_utc_or (tz : TzArg) : ((!(TzArg.isUTCObj tz)) || (!(TzArg.eqStr tz "UTC"))) = true := by
  cases tz with
  | tz t => cases t <;> simp [TzArg.isUTCObj, TzArg.eqStr]
  | _ => simp [TzArg.isUTCObj, TzArg.eqStr]

/-- **`from_timestamp(t, tz)`**: the naive UTC reading of `t`, `datetime(…)` of its fields (in UTC, default fold 1), then
    `in_timezone(tz)` -/
theorem from_timestamp_eq (env : Env) (db : String → Z) (h : EnvOk env db) (ts : Int) (tz : TzArg) :
    resOf db (p_from_timestamp env ts tz) =
      DTOps.inTz ⟨.named ⟨0, []⟩, ts, true⟩ (tzRef db (safe_timezone env tz)) (decide (Tz.utc = safe_timezone env tz)) := by
  gen_tie "Pendulum.DTConvGen.from_timestamp_eq" "pendulum.from_timestamp / pendulum.datetime (Gen/DTConv.lean, regenerated from __init__.py)" =>
    simp only [p_from_timestamp, h.utcfromtimestamp, p_datetime, bind_ok, create_utc env db h, not_utc_or, if_true]
    simp only [Except.bind]
    have := in_timezone_eq env db h (DtVal.mk (mkDt ts false TzArg.none).year (mkDt ts false TzArg.none).month
      (mkDt ts false TzArg.none).day (mkDt ts false TzArg.none).hour (mkDt ts false TzArg.none).minute
      (mkDt ts false TzArg.none).second (mkDt ts false TzArg.none).microsecond true (TzArg.tz Tz.utc)) .utc rfl tz
    rw [this]
    have hw : wallOf (DtVal.mk (mkDt ts false TzArg.none).year (mkDt ts false TzArg.none).month
      (mkDt ts false TzArg.none).day (mkDt ts false TzArg.none).hour (mkDt ts false TzArg.none).minute
      (mkDt ts false TzArg.none).second (mkDt ts false TzArg.none).microsecond true (TzArg.tz Tz.utc)) = ts :=
      wallOf_mkDt ts false TzArg.none
    simp only [valOf, hw, argRef, tzRef]
    done

/-- **`int_timestamp`**: the native value is rebuilt with the instance's tzinfo *and fold*; `days * 86400 + seconds` of its
    distance to the epoch is the instant in whole seconds (floor) -/
theorem int_timestamp_eq (env : Env) (db : String → Z) (h : EnvOk env db) (d : DtVal) :
    dt_int_timestamp env d = (valOf db d).instant / 1000000 := by
  gen_tie "Pendulum.DTConvGen.int_timestamp_eq" "DateTime.int_timestamp (Gen/DTConv.lean, regenerated from datetime.py)" =>
    simp only [dt_int_timestamp, dt_eta, h.sub_epoch]
    omega
    done

/-! ### `DateTime.instance`, offsets and names, the remaining entry points -/

theorem fixed_woff (off : Int) (f : Bool) (w : Int) : (fixedZ off).woff f w = off := by
  simp only [fixedZ, Z.woff, wallOff]

/-- `tz.utcoffset(x)` for either class of timezone is the wall-clock offset of its table -/
theorem tz_utcoffset_eq (env : Env) (db : String → Z) (h : EnvOk env db) (t : Tz) (d : DtVal) :
    tz_utcoffset env t d = (zoneOf db t).woff d.fold (wallOf d) := by
  gen_tie "Pendulum.DTConvGen.tz_utcoffset_eq" "FixedTimezone.utcoffset (Gen/DTConv.lean, regenerated from tz/timezone.py)" =>
    cases t with
    | fixed o => simp only [tz_utcoffset, fixed_utcoffset, zoneOf, fixed_woff]
    | utc => simp only [tz_utcoffset, h.utcoffset]
    | named k => simp only [tz_utcoffset, h.utcoffset]
    done

theorem createRef_tz (env : Env) (db : String → Z) (t : Tz) : createRef env db (.tz t) = tzRef db t := by
  gen_tie "Pendulum.DTConvGen.createRef_tz" "pendulum._safe_timezone (Gen/DTConv.lean, regenerated from __init__.py)" =>
    simp only [createRef, TzArg.isNone, Bool.false_eq_true, if_false, safe_timezone_tz]
    done

/-- **`DateTime.instance`** of an aware native value whose own offset is `off`: `_safe_timezone(dt.tzinfo)`, the fold of the
    source unless only the other fold has the source's offset in that zone, then `create` — the model's `instanceAware` -/
theorem instance_eq (env : Env) (db : String → Z) (h : EnvOk env db) (dt : DtVal) (hna : dt.tzinfo.isNone = false) (off : Int)
    (hoff : dt_utcoffset env dt = some off) (tz : TzArg) (hw : inRange (wallOf dt) = true) :
    resOf db (dt_instance env dt tz) =
      DTOps.instanceAware (tzRef db (safe_timezone env dt.tzinfo)) (wallOf dt) dt.fold off := by
  gen_tie "Pendulum.DTConvGen.instance_eq" "DateTime.instance (Gen/DTConv.lean, regenerated from datetime.py)" =>
    have w1 : ∀ f, wallOf { dt with tzinfo := TzArg.none, fold := f } = wallOf dt := fun _ => rfl
    simp only [dt_instance, TzArg.orElse, hna, Bool.false_eq_true, if_false, Bool.not_false, if_true, hoff,
      Option.isNone_some, Bool.and_self, Option.getD_some, TzArg.ofOptTz, bind_ok, tz_utcoffset_eq env db h, w1,
      DTOps.instanceAware, tzRef_table]
    have hw' : inRange (wallF dt.year dt.month dt.day dt.hour dt.minute dt.second dt.microsecond) = true := hw
    rw [create_eq env db h _ _ _ _ _ _ _ _ _ _ hw', createRef_tz]
    simp only [wallOf, decide_eq_true_eq, Bool.and_eq_true, Bool.decide_and, ne_eq, decide_not]
    by_cases c : (zoneOf db (safe_timezone env dt.tzinfo)).woff dt.fold (wallF dt.year dt.month dt.day dt.hour dt.minute dt.second dt.microsecond) = off <;>
      by_cases c2 : (zoneOf db (safe_timezone env dt.tzinfo)).woff (!dt.fold) (wallF dt.year dt.month dt.day dt.hour dt.minute dt.second dt.microsecond) = off <;>
      simp [c, c2]
    done

/-- `DateTime.instance` of a naive native value: `create` in the zone `tz` denotes, with the source's fold -/
theorem instance_naive_eq (env : Env) (db : String → Z) (h : EnvOk env db) (dt : DtVal) (hn : dt.tzinfo = .none)
    (tz : TzArg) (hw : inRange (wallOf dt) = true) :
    resOf db (dt_instance env dt tz) = DTOps.create (createRef env db tz) (wallOf dt) dt.fold false := by
  gen_tie "Pendulum.DTConvGen.instance_naive_eq" "DateTime.instance (Gen/DTConv.lean, regenerated from datetime.py)" =>
    have hw' : inRange (wallF dt.year dt.month dt.day dt.hour dt.minute dt.second dt.microsecond) = true := hw
    have hu : dt_utcoffset env dt = none := by simp only [dt_utcoffset, hn, TzArg.utcoffsetOf]
    have hni : dt.tzinfo.isNone = true := by rw [hn]; rfl
    change _ = DTOps.create (createRef env db tz) (wallF dt.year dt.month dt.day dt.hour dt.minute dt.second dt.microsecond) dt.fold false
    simp only [dt_instance, TzArg.orElse, hni, if_true, hu, Option.isNone_none, Bool.not_true, Bool.false_and,
      Bool.false_eq_true, if_false, bind_ok]
    cases hz : tz.isNone
    · simp only [Bool.not_false, if_true, TzArg.ofOptTz]
      rw [create_eq env db h _ _ _ _ _ _ _ _ _ _ hw', createRef_tz, createRef, hz]
      simp only [Bool.false_eq_true, if_false]
    · have : tz = .none := by cases tz <;> simp [TzArg.isNone] at hz ⊢
      subst this
      simp only [Bool.not_true, Bool.false_eq_true, if_false, TzArg.ofOptTz]
      exact create_eq env db h _ _ _ _ _ _ _ _ _ _ hw'
    done

/-- `offset` / `get_offset()`: the UTC offset in whole seconds (`int(total_seconds())`), `None` for a naive instance -/
theorem offset_eq (env : Env) (db : String → Z) (h : EnvOk env db) (d : DtVal) (t : Tz) (ht : d.tzinfo = .tz t) :
    dt_offset env d = some (tdSeconds (valOf db d).offset) ∧ dt_get_offset env d = dt_offset env d := by
  gen_tie "Pendulum.DTConvGen.offset_eq" "DateTime.offset / get_offset (Gen/DTConv.lean, regenerated from datetime.py)" =>
    simp only [dt_offset, dt_get_offset, dt_utcoffset, ht, tz_utcoffset_eq env db h, Option.isNone_some, Bool.false_eq_true,
      if_false, Option.getD_some, ptrunc_td, V.offset, valOf, argRef, tzRef_table, and_self]
    done

theorem offset_naive (env : Env) (d : DtVal) (hn : d.tzinfo = .none) : dt_offset env d = none := by
  gen_tie "Pendulum.DTConvGen.offset_naive" "DateTime.offset / get_offset (Gen/DTConv.lean, regenerated from datetime.py)" =>
    simp only [dt_offset, dt_get_offset, dt_utcoffset, hn, TzArg.utcoffsetOf, Option.isNone_none, if_true]
    done

/-- `timezone` / `tz` / `timezone_name`: the tzinfo when it is a pendulum timezone, its `key` or stored name -/
theorem timezone_name_eq (env : Env) (d : DtVal) :
    dt_timezone env d = (match d.tzinfo with | .tz t => some t | _ => none) ∧ dt_tz env d = dt_timezone env d ∧
    dt_timezone_name env d = (match d.tzinfo with
      | .tz (.fixed o) => some o.name | .tz .utc => some [.str "UTC"] | .tz (.named k) => some [.str k] | _ => none) := by
  gen_tie "Pendulum.DTConvGen.timezone_name_eq" "DateTime.timezone / tz / timezone_name, Timezone.name, FixedTimezone.name (Gen/DTConv.lean)" =>
    obtain ⟨y, mo, dd, hh, mi, ss, us, fold, tzi⟩ := d
    refine ⟨?_, ?_, ?_⟩
    · simp only [dt_timezone]; cases tzi <;> simp [TzArg.isTz, TzArg.getTz]
    · simp only [dt_tz]
    · simp only [dt_timezone_name, dt_timezone]
      cases tzi with
      | tz t => cases t <;> simp [TzArg.isTz, TzArg.getTz, tz_name, fixed_name, zone_name, Tz.key]
      | _ => simp [TzArg.isTz]
    done

/-- `FixedTimezone.fromutc`: the stdlib sum with the stored offset, tagged with this timezone; `dst()` is zero, `tzname()` the name -/
theorem fixed_fromutc_eq (env : Env) (db : String → Z) (h : EnvOk env db) (o : FixedObj) (d : DtVal) :
    fixed_fromutc env o d = (if inRange (wallOf d + o.utcoffset) then
      .ok { mkDt (wallOf d + o.utcoffset) false d.tzinfo with tzinfo := .tz (.fixed o) } else .error "OverflowError") ∧
    fixed_dst env o = 0 ∧ fixed_tzname env o = o.name ∧ fixed_offset env o = o.offset := by
  gen_tie "Pendulum.DTConvGen.fixed_fromutc_eq" "FixedTimezone.fromutc / dst / tzname / offset (Gen/DTConv.lean, regenerated from tz/timezone.py)" =>
    refine ⟨?_, ?_, ?_, ?_⟩
    · simp only [fixed_fromutc, h.native_add]
      by_cases c : inRange (wallOf d + o.utcoffset) = true <;> simp [c, Except.bind]
    · simp only [fixed_dst]
    · simp only [fixed_tzname]
    · simp only [fixed_offset]
    done

/-- the aware branch of both `convert` methods (native value): `dt.astimezone(self)` -/
theorem convert_aware_eq (env : Env) (t : Tz) (o : FixedObj) (d : DtVal) (ha : d.tzinfo.isNone = false) (raise : Bool) :
    zone_convert_n env t d raise = env.native_astimezone d (.tz t) ∧
    fixed_convert_n env o d raise = env.native_astimezone d (.tz (.fixed o)) := by
  gen_tie "Pendulum.DTConvGen.convert_aware_eq" "Timezone.convert / FixedTimezone.convert (Gen/DTConv.lean, regenerated from tz/timezone.py)" =>
    simp only [zone_convert_n, fixed_convert_n, ha, Bool.false_eq_true, if_false, bind_ok, and_self]
    done

/-- `tz.datetime(y, …)` = `tz.convert(<naive native value, fold=1>)`; `pendulum.datetime/local/naive` -/
theorem entry_points_eq (env : Env) (t : Tz) (o : FixedObj) (y mo dd hh mi ss us : Int) (tz : TzArg) (fold raise : Bool) :
    zone_datetime env t y mo dd hh mi ss us = zone_convert_n env t (DtVal.mk y mo dd hh mi ss us true .none) false ∧
    fixed_datetime env o y mo dd hh mi ss us = fixed_convert_n env o (DtVal.mk y mo dd hh mi ss us true .none) false ∧
    p_datetime env y mo dd hh mi ss us tz fold raise = dt_create env y mo dd hh mi ss us tz fold raise ∧
    p_local env y mo dd hh mi ss us = dt_create env y mo dd hh mi ss us (.tz env.local_timezone) true false ∧
    p_naive env y mo dd hh mi ss us fold = DtVal.mk y mo dd hh mi ss us fold .none ∧
    (∀ d : DtVal, dt_naive env d = DtVal.mk d.year d.month d.day d.hour d.minute d.second d.microsecond false .none) := by
  gen_tie "Pendulum.DTConvGen.entry_points_eq" "Timezone.datetime / FixedTimezone.datetime / pendulum.datetime / local / naive / DateTime.naive (Gen/DTConv.lean)" =>
    simp only [zone_datetime, fixed_datetime, p_datetime, p_local, p_naive, dt_naive, bind_ok, and_self, implies_true]
    done

/-- `pendulum.instance(obj, tz)`: which branch for which kind of object -/
theorem p_instance_eq (env : Env) (k : ObjKind) (v : DtVal) (tz : TzArg) :
    p_instance env k v tz = (match k with
      | .pendulumDateTime | .pendulumDate | .pendulumTime => .same
      | .date => .date v.year v.month v.day
      | .time => .timeInstance tz
      | .datetime => .dt (dt_instance env v tz)) := by
  gen_tie "Pendulum.DTConvGen.p_instance_eq" "pendulum.instance (Gen/DTConv.lean, regenerated from __init__.py)" =>
    cases k <;> simp [p_instance, ObjKind.isa]
    done

end Pendulum.DTConvGen
