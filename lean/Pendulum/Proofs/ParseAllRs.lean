import Pendulum.Model.ParseAll
/-! C17, compiled backend: every failure of `rsParse` is a `ValueError` (the `PyValueError` built from a `ParseError`, or the
range check of a CPython constructor), except the two markers of `Model/Iso.lean` for strings outside that model
(`other "Duration"` for a leading `P`, `other "Interval"` for a `/` after a complete date-time). -/
namespace Pendulum.ParseAll
open Pendulum Pendulum.Iso

/-- only `ValueError` kinds -/
def VE {α : Type} (r : Except Kind α) : Prop := ∀ k, r = .error k → k = .parserError ∨ k = .valueError

theorem VE_ok {α : Type} (a : α) : VE (.ok a : Except Kind α) := by intro k h; cases h
theorem VE_ve {α : Type} : VE (.error .valueError : Except Kind α) := by intro k h; cases h; exact Or.inr rfl
theorem VE_pe {α : Type} : VE (.error .parserError : Except Kind α) := by intro k h; cases h; exact Or.inl rfl

theorem mkDate_VE (y m d : Int) : VE (mkDate y m d) := by
  unfold mkDate; split
  · exact VE_ok _
  · exact VE_ve

theorem mkTime_VE (h mi s us : Int) (off : Option Int) : VE (mkTime h mi s us off) := by
  unfold mkTime; split
  · exact VE_ok _
  · exact VE_ve

theorem mkDateTime_VE (y m d h mi s us : Int) (off : Option Int) : VE (mkDateTime y m d h mi s us off) := by
  unfold mkDateTime; split
  · exact VE_ok _
  · exact VE_ve

theorem rsFracOpt_VE (cs : List Char) : VE (rsFracOpt cs) := by
  intro k h
  unfold rsFracOpt at h
  repeat' split at h
  all_goals first | (cases h; exact Or.inr rfl) | cases h

theorem rsTzFin_VE (neg : Bool) (hh mm : Nat) (r : List Char) : VE (rsTzFin neg hh mm r) := by
  intro k h
  unfold rsTzFin at h
  by_cases c : ((mm : Int) + (hh : Int) * 60) * (if neg = true then -1 else 1) > 24 * 60
  · simp only [if_pos c] at h; cases h; exact Or.inr rfl
  · simp only [if_neg c] at h; cases h

theorem rsTz_VE (cs : List Char) : VE (rsTz cs) := by
  intro k h
  unfold rsTz at h
  repeat' split at h
  all_goals first | (cases h; exact Or.inr rfl) | (exact rsTzFin_VE _ _ _ _ k h) | cases h

theorem rsSecFrac_VE (bad : Bool) (mi : Nat) (r : List Char) : VE (rsSecFrac bad mi r) := by
  intro k h
  unfold rsSecFrac at h
  split at h
  · cases h; exact Or.inr rfl
  · split at h
    · rename_i e heq
      cases h
      exact rsFracOpt_VE _ k heq
    · split at h
      · cases h; exact Or.inr rfl
      · cases h

theorem rsMinSec_VE (hasDate ext : Bool) (cs : List Char) : VE (rsMinSec hasDate ext cs) := by
  intro k h
  unfold rsMinSec at h
  repeat' split at h
  all_goals first
    | (cases h; exact Or.inr rfl)
    | (exact rsSecFrac_VE _ _ _ k h)
    | (rename_i heq; cases h; exact rsSecFrac_VE _ _ _ k heq)
    | cases h

theorem rsTime_VE (hasDate ext : Bool) (skip : Option Nat) (cs : List Char) : VE (rsTime hasDate ext skip cs) := by
  intro k h
  unfold rsTime at h
  simp only at h
  split at h
  · rename_i e heq
    cases h
    repeat' split at heq
    all_goals first | (cases heq; exact Or.inr rfl) | cases heq
  · split at h
    · rename_i heq2; cases h; exact rsMinSec_VE _ _ _ k heq2
    · split at h
      · rename_i heq3; cases h; exact rsTz_VE _ k heq3
      · cases h

theorem withRest_VE (e : Except Kind (Int × Int × Int)) (ext : Bool) (r : List Char) (he : VE e) : VE (withRest e ext r) := by
  intro k h
  unfold withRest at h
  split at h
  · cases h; exact he k rfl
  · cases h

theorem rsOrdToYmdG_VE (strict : Bool) (year ordinal : Int) (allow : Bool) : VE (rsOrdToYmdG strict year ordinal allow) := by
  intro k h
  unfold rsOrdToYmdG at h
  repeat' split at h
  all_goals first | (cases h; exact Or.inr rfl) | cases h

theorem rsIsoToYmd_VE (y w d : Int) : VE (rsIsoToYmd y w d) := by
  intro k h
  unfold rsIsoToYmd at h
  repeat' split at h
  all_goals first | (cases h; exact Or.inr rfl) | (exact rsOrdToYmdG_VE _ _ _ _ k h) | cases h

theorem rsWeekTail_VE (year : Nat) (ext : Bool) (r : List Char) : VE (rsWeekTail year ext r) := by
  intro k h
  unfold rsWeekTail at h
  repeat' split at h
  all_goals first
    | (cases h; exact Or.inr rfl)
    | (exact withRest_VE _ _ _ (rsIsoToYmd_VE _ _ _) k h)
    | cases h

theorem rsMonthTailExt_VE (year : Nat) (r : List Char) : VE (rsMonthTailExt year r) := by
  intro k h
  unfold rsMonthTailExt at h
  repeat' split at h
  all_goals first
    | (cases h; exact Or.inr rfl)
    | (exact withRest_VE _ _ _ (rsOrdToYmdG_VE _ _ _ _) k h)
    | cases h

theorem rsBasicTail_VE (year : Nat) (cs : List Char) : VE (rsBasicTail year cs) := by
  intro k h
  unfold rsBasicTail at h
  repeat' split at h
  all_goals first
    | (cases h; exact Or.inr rfl)
    | (exact withRest_VE _ _ _ (rsOrdToYmdG_VE _ _ _ _) k h)
    | cases h

theorem rsDateRest_VE (year : Nat) (cs : List Char) : VE (rsDateRest year cs) := by
  intro k h
  unfold rsDateRest at h
  repeat' split at h
  all_goals first
    | (exact rsWeekTail_VE _ _ _ k h)
    | (exact rsMonthTailExt_VE _ _ k h)
    | (exact rsBasicTail_VE _ _ k h)

/-- `ValueError` kinds or the marker `other "Interval"` -/
def VEI {α : Type} (r : Except Kind α) : Prop :=
  ∀ k, r = .error k → k = .parserError ∨ k = .valueError ∨ k = .other "Interval"

theorem VEI_of_VE {α : Type} {r : Except Kind α} (h : VE r) : VEI r := by
  intro k hk
  rcases h k hk with h | h
  · exact Or.inl h
  · exact Or.inr (Or.inl h)

theorem rsEnd_VEI (rest : List Char) (v : R) (hv : VE v) : VEI (rsEnd rest v) := by
  intro k h
  unfold rsEnd at h
  split at h
  · exact VEI_of_VE hv k h
  · split at h
    · cases h; exact Or.inr (Or.inr rfl)
    · cases h; exact Or.inr (Or.inl rfl)

theorem rsTimeOnly_VE (ext : Bool) (skip : Option Nat) (cs : List Char) : VE (rsTimeOnly ext skip cs) := by
  intro k h
  unfold rsTimeOnly at h
  split at h
  · rename_i heq; cases h; exact rsTime_VE _ _ _ _ k heq
  · split at h
    · exact mkTime_VE _ _ _ _ _ k h
    · cases h; exact Or.inr rfl

theorem rsFinish_VEI (x : Except Kind ((Int × Int × Int) × Bool × List Char)) (hx : VE x) : VEI (rsFinish x) := by
  intro k h
  unfold rsFinish at h
  split at h
  · cases h; exact VEI_of_VE hx k rfl
  · split at h
    · exact VEI_of_VE (mkDate_VE _ _ _) k h
    · split at h
      · rename_i heq; cases h; exact VEI_of_VE (rsTime_VE _ _ _ _) k heq
      · exact rsEnd_VEI _ _ (mkDateTime_VE _ _ _ _ _ _ _ _) k h

theorem rsMain_VEI (cs : List Char) : VEI (rsMain cs) := by
  intro k h
  unfold rsMain at h
  split at h
  · cases h; exact Or.inr (Or.inl rfl)
  · split at h
    · exact VEI_of_VE (rsTimeOnly_VE _ _ _) k h
    · split at h
      · cases h; exact Or.inr (Or.inl rfl)
      · exact rsFinish_VEI _ (rsDateRest_VE _ _) k h

/-- the compiled date/time parser fails only with `ValueError` (or the interval marker) on strings that do not start with `P` -/
theorem rsParse_VEI (cs : List Char) (hP : cs.head? ≠ some 'P') : VEI (rsParse cs) := by
  intro k h
  unfold rsParse at h
  rw [if_neg hP] at h
  split at h
  · exact VEI_of_VE (rsTimeOnly_VE _ _ _) k h
  · exact rsMain_VEI _ k h

end Pendulum.ParseAll
