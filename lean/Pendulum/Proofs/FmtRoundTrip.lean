import Pendulum.Proofs.FmtClass
/-! Round trip `parse (format v fmt) fmt` for the class 𝓕 (numeric tokens, literal separators). -/
namespace Pendulum.Fmt

/-- a format of the class, already cut into items -/
inductive FItem where
  | lit (c : Char)
  | tok (t : NTok)
  deriving DecidableEq, Repr

def FItem.toItem : FItem → Item
  | .lit c => Item.lit [c]
  | .tok t => Item.tok t.str.toList

def FItem.piece (v : Val) : FItem → Str
  | .lit c => [c]
  | .tok t => t.render v

def FItem.toPEl : FItem → PEl
  | .lit c => PEl.lit c
  | .tok t => PEl.tok t.str

def FItem.toEl : FItem → El
  | .lit c => litEl c
  | .tok t => t.lens

def toks : List FItem → List NTok
  | [] => []
  | .lit _ :: r => toks r
  | .tok t :: r => t :: toks r

/-- what follows a variable-width token must not start with a digit: a non-digit literal, an offset token (its
    text starts with the sign) or the end of the format -/
def startsNonDigit : List FItem → Bool
  | [] => true
  | .lit c :: _ => !c.isDigit
  | .tok t :: _ => t == NTok.Z || t == NTok.ZZ

def WellSep : List FItem → Bool
  | [] => true
  | .lit _ :: r => WellSep r
  | .tok t :: r => (t.fixed || startsNonDigit r) && WellSep r

/-- no token occurs twice (`re` rejects a repeated group name) -/
def NoRepeat (its : List FItem) : Bool := !hasDup ((toks its).map NTok.str)

def rendered (v : Val) (its : List FItem) : Str := (its.map (FItem.piece v)).flatten

theorem ofList_toList (t : NTok) : String.ofList t.str.toList = t.str := by cases t <;> rfl

theorem formatItems_class (L : Loc) (v : Val) : ∀ its : List FItem,
    formatItems L v.toDTF (its.map FItem.toItem) = .ok (rendered v its) := by
  intro its
  induction its with
  | nil => rfl
  | cons i its ih =>
    cases i with
    | lit c => simp only [List.map_cons, FItem.toItem, formatItems, ih]; rfl
    | tok t =>
      simp only [List.map_cons, FItem.toItem, formatItems, ofList_toList, formatToken_NTok, ih]; rfl

theorem pelsOf_class : ∀ its : List FItem, pelsOf (its.map FItem.toItem) = its.map FItem.toPEl := by
  intro its
  induction its with
  | nil => rfl
  | cons i its ih =>
    cases i with
    | lit c => simp [FItem.toItem, FItem.toPEl, pelsOf, ih]
    | tok t => simp [FItem.toItem, FItem.toPEl, pelsOf, ih]

theorem elsOf_class (L : Loc) : ∀ its : List FItem, elsOf L (its.map FItem.toPEl) = .ok (its.map FItem.toEl) := by
  intro its
  induction its with
  | nil => rfl
  | cons i its ih =>
    cases i with
    | lit c => simp only [List.map_cons, FItem.toPEl, elsOf, ih, FItem.toEl]; rfl
    | tok t =>
      obtain ⟨f, hf, he⟩ := groupOf_NTok L t
      simp only [List.map_cons, FItem.toPEl, elsOf, hf, ih, FItem.toEl, he]; rfl

theorem digitRun_rendered (v : Val) (hv : InRange v) : ∀ its : List FItem, startsNonDigit its = true →
    digitRun (rendered v its) = 0 := by
  intro its h
  cases its with
  | nil => rfl
  | cons i its =>
    cases i with
    | lit c =>
      simp only [startsNonDigit, Bool.not_eq_true'] at h
      exact digitRun_cons_nondigit c _ h
    | tok t =>
      have hb := hv.off.2
      have key : ∀ sep, digitRun (offsetStr sep v.off ++ rendered v its) = 0 := by
        intro sep
        obtain ⟨a, b, c, d, _, _, _, _, hform, _⟩ := offsetStr_form v.off hb
        rw [hform sep]
        rcases sign_cases v.off with hs | hs <;> rw [hs] <;> exact digitRun_cons_nondigit _ _ (by decide)
      cases t <;> simp [startsNonDigit] at h
      · exact key true
      · exact key false

theorem good_class (v : Val) (hv : InRange v) : ∀ its : List FItem, WellSep its = true →
    Good (its.map FItem.toEl) (its.map (FItem.piece v)) := by
  intro its
  induction its with
  | nil => intro _; trivial
  | cons i its ih =>
    intro h
    cases i with
    | lit c =>
      simp only [WellSep] at h
      refine ⟨⟨[], ?_⟩, ih h⟩
      simp [FItem.toEl, FItem.piece, litEl]
    | tok t =>
      simp only [WellSep, Bool.and_eq_true, Bool.or_eq_true] at h
      refine ⟨?_, ih h.2⟩
      have hsep : t.fixed = true ∨ digitRun (rendered v its) = 0 := by
        rcases h.1 with hf | hs
        · exact Or.inl hf
        · exact Or.inr (digitRun_rendered v hv its hs)
      exact lens_head v hv t _ hsep

theorem tokPieces_class (v : Val) : ∀ its : List FItem,
    tokPieces (its.map FItem.toPEl) (its.map (FItem.piece v)) = (toks its).map (fun t => (t.str, t.render v)) := by
  intro its
  induction its with
  | nil => rfl
  | cons i its ih => cases i <;> simp [FItem.toPEl, FItem.piece, tokPieces, toks, ih]

theorem applyGroups_class (L : Loc) (v : Val) (hv : InRange v) : ∀ (ts : List NTok) (p : Parsed),
    applyGroups L (ts.map (fun t => (t.str, t.render v))) p = .ok (ts.foldl (fun p t => t.set v p) p) := by
  intro ts
  induction ts with
  | nil => intro p; rfl
  | cons t ts ih => intro p; simp only [List.map_cons, applyGroups, applyGroup_NTok L v hv t p, ih, List.foldl_cons]

theorem tokNames_class : ∀ its : List FItem,
    (its.map FItem.toPEl).filterMap PEl.tokName? = (toks its).map NTok.str := by
  intro its
  induction its with
  | nil => rfl
  | cons i its ih => cases i <;> simp [FItem.toPEl, toks, ← ih, PEl.tokName?, List.filterMap_cons]

/-- **round trip, general form**: for every value in range and every well-separated format of the class,
    parsing what `format` wrote assigns exactly the fields the tokens carry and then applies the defaults -/
theorem parse_format_class (L : Loc) (v : Val) (hv : InRange v) (its : List FItem) (now : Now)
    (hne : its ≠ []) (hsep : WellSep its = true) (hrep : NoRepeat its = true) :
    formatItems L v.toDTF (its.map FItem.toItem) = .ok (rendered v its) ∧
    parseItems L (rendered v its) (its.map FItem.toItem) now =
      checkParsed ((toks its).foldl (fun p t => t.set v p) {}) now := by
  refine ⟨formatItems_class L v its, ?_⟩
  unfold parseItems
  have h1 : (its.map FItem.toItem).isEmpty = false := by cases its <;> simp at hne ⊢
  simp only [h1, pelsOf_class, elsOf_class, tokNames_class, Bool.false_eq_true, if_false]
  have h2 : hasDup ((toks its).map NTok.str) = false := by simpa [NoRepeat] using hrep
  simp only [h2, Bool.false_eq_true, if_false]
  have hg := dfs_good _ _ (good_class v hv its hsep)
  simp only [rendered, hg]
  rw [groupValues_pieces _ _ (by simp), tokPieces_class, applyGroups_class L v hv]

end Pendulum.Fmt

namespace Pendulum.Fmt

/-! ### `_check_parsed` when only plain fields were read -/

/-- the defaulting rules: year from `now`; month from `now` only when no year was given, else 1; day from `now`
    only when neither year nor month was given, else 1; clock fields 0 -/
theorem checkParsed_plain (p : Parsed) (now : Now)
    (h1 : p.timestamp = none) (h2 : p.quarter = none) (h3 : p.day_of_year = none) (h4 : p.day_of_week = none)
    (h5 : p.meridiem = none) :
    checkParsed p now = .ok ⟨p.year.getD now.year,
      (match p.month with | some m => m | none => if p.year.isSome then 1 else now.month),
      (match p.day with | some d => d | none => if p.year.isSome || p.month.isSome then 1 else now.day),
      p.hour.getD 0, p.minute.getD 0, p.second.getD 0, p.microsecond.getD 0, p.tz⟩ := by
  unfold checkParsed
  simp only [h1, h2, h3, h4, h5]
  cases hm : p.month <;> cases hd : p.day <;> simp [orNow, bind, Except.bind, pure, Except.pure]

/-! ### the state after reading all groups -/

theorem fold_field {α : Type} (v : Val) (π : Parsed → Option α) (sets : NTok → Bool) (c : α)
    (h : ∀ t p, π (t.set v p) = if sets t then some c else π p) :
    ∀ (ts : List NTok) (p : Parsed), π (ts.foldl (fun p t => t.set v p) p) = if ts.any sets then some c else π p := by
  intro ts
  induction ts with
  | nil => intro p; simp
  | cons t ts ih =>
    intro p
    rw [List.foldl_cons, ih, h t p]
    by_cases a : ts.any sets = true <;> by_cases b : sets t = true <;> simp [a, b]

/-- the format carries a full date, time, fraction and offset -/
def Full (its : List FItem) : Bool :=
  let ts := toks its
  ts.any (· == NTok.YYYY) && ts.any (fun t => t == NTok.MM || t == NTok.M) && ts.any (fun t => t == NTok.DD || t == NTok.D)
    && ts.any (fun t => t == NTok.HH || t == NTok.H) && ts.any (fun t => t == NTok.mm || t == NTok.m)
    && ts.any (fun t => t == NTok.ss || t == NTok.s) && ts.any (· == NTok.SSSSSS) && ts.any (fun t => t == NTok.Z || t == NTok.ZZ)

theorem state_full (v : Val) (ts : List NTok)
    (hy : ts.any (· == NTok.YYYY) = true) (hmo : ts.any (fun t => t == NTok.MM || t == NTok.M) = true)
    (hd : ts.any (fun t => t == NTok.DD || t == NTok.D) = true) (hh : ts.any (fun t => t == NTok.HH || t == NTok.H) = true)
    (hmi : ts.any (fun t => t == NTok.mm || t == NTok.m) = true) (hs : ts.any (fun t => t == NTok.ss || t == NTok.s) = true)
    (hus : ts.any (· == NTok.SSSSSS) = true) (hz : ts.any (fun t => t == NTok.Z || t == NTok.ZZ) = true) (now : Now) :
    checkParsed (ts.foldl (fun p t => t.set v p) {}) now
      = .ok ⟨v.y, v.mo, v.d, v.h, v.mi, v.s, v.us, some (TzP.fixed v.off)⟩ := by
  have f1 := fold_field v Parsed.year (· == NTok.YYYY) v.y (by intro t p; cases t <;> rfl) ts {}
  have f2 := fold_field v Parsed.month (fun t => t == NTok.MM || t == NTok.M) v.mo (by intro t p; cases t <;> rfl) ts {}
  have f3 := fold_field v Parsed.day (fun t => t == NTok.DD || t == NTok.D) v.d (by intro t p; cases t <;> rfl) ts {}
  have f4 := fold_field v Parsed.hour (fun t => t == NTok.HH || t == NTok.H) v.h (by intro t p; cases t <;> rfl) ts {}
  have f5 := fold_field v Parsed.minute (fun t => t == NTok.mm || t == NTok.m) v.mi (by intro t p; cases t <;> rfl) ts {}
  have f6 := fold_field v Parsed.second (fun t => t == NTok.ss || t == NTok.s) v.s (by intro t p; cases t <;> rfl) ts {}
  have f7 := fold_field v Parsed.microsecond (· == NTok.SSSSSS) v.us (by intro t p; cases t <;> rfl) ts {}
  have f8 := fold_field v Parsed.tz (fun t => t == NTok.Z || t == NTok.ZZ) (TzP.fixed v.off) (by intro t p; cases t <;> rfl) ts {}
  have g1 := fold_field v Parsed.timestamp (fun _ => false) (0, 0) (by intro t p; cases t <;> rfl) ts {}
  have g2 := fold_field v Parsed.quarter (fun _ => false) 0 (by intro t p; cases t <;> rfl) ts {}
  have g3 := fold_field v Parsed.day_of_year (fun _ => false) 0 (by intro t p; cases t <;> rfl) ts {}
  have g4 := fold_field v Parsed.day_of_week (fun _ => false) 0 (by intro t p; cases t <;> rfl) ts {}
  have g5 := fold_field v Parsed.meridiem (fun _ => false) false (by intro t p; cases t <;> rfl) ts {}
  simp only [hy, hmo, hd, hh, hmi, hs, hus, hz, if_true] at f1 f2 f3 f4 f5 f6 f7 f8
  have nofalse : ts.any (fun _ => false) = false := by induction ts <;> simp_all
  simp only [nofalse, Bool.false_eq_true, if_false] at g1 g2 g3 g4 g5
  rw [checkParsed_plain _ now g1 g2 g3 g4 g5, f1, f2, f3, f4, f5, f6, f7, f8]
  rfl

/-- **round trip**: a format of the class carrying a full date, time, fraction and offset reads back every field
    and the offset of every value in the domain, whatever `now` is -/
theorem parse_format_full (L : Loc) (v : Val) (hv : InRange v) (its : List FItem) (now : Now)
    (hsep : WellSep its = true) (hrep : NoRepeat its = true) (hfull : Full its = true) :
    parseItems L (rendered v its) (its.map FItem.toItem) now
      = .ok ⟨v.y, v.mo, v.d, v.h, v.mi, v.s, v.us, some (TzP.fixed v.off)⟩ := by
  have hne : its ≠ [] := by
    intro e; subst e; simp [Full, toks] at hfull
  rw [(parse_format_class L v hv its now hne hsep hrep).2]
  simp only [Full, Bool.and_eq_true] at hfull
  obtain ⟨⟨⟨⟨⟨⟨⟨a1, a2⟩, a3⟩, a4⟩, a5⟩, a6⟩, a7⟩, a8⟩ := hfull
  exact state_full v (toks its) a1 a2 a3 a4 a5 a6 a7 a8 now

end Pendulum.Fmt
