import Pendulum.Proofs.FmtClass
/-! Round trip `parse (format v fmt) fmt` for the class 𝓕 (numeric tokens incl. 12-hour clock + meridiem, day of the year,
two-digit year, every fraction width; literal separators). -/
namespace Pendulum.Fmt

/-- a format of the class, already cut into items -/
inductive FItem where
  | lit (c : Char)
  | tok (t : NTok)
  deriving DecidableEq, Repr

def FItem.toItem : FItem → Item
  | .lit c => Item.lit [c]
  | .tok t => Item.tok t.str.toList

def FItem.piece (L : Loc) (v : Val) : FItem → Str
  | .lit c => [c]
  | .tok t => t.render L v

def FItem.toPEl : FItem → PEl
  | .lit c => PEl.lit c
  | .tok t => PEl.tok t.str

def FItem.toEl (L : Loc) : FItem → El
  | .lit c => litEl c
  | .tok t => t.lens L

def toks : List FItem → List NTok
  | [] => []
  | .lit _ :: r => toks r
  | .tok t :: r => t :: toks r

/-- what follows a variable-width token must not start with a digit: a non-digit literal, an offset token (its
    text starts with the sign) or the end of the format -/
def startsNonDigit : List FItem → Bool
  | [] => true
  | .lit c :: _ => !c.isDigit
  | .tok t :: _ => t == NTok.Z || t == NTok.ZZ

def WellSep : List FItem → Bool
  | [] => true
  | .lit _ :: r => WellSep r
  | .tok t :: r => (t.fixed || startsNonDigit r) && WellSep r

/-- no token occurs twice (`re` rejects a repeated group name) -/
def NoRepeat (its : List FItem) : Bool := !hasDup ((toks its).map NTok.str)

/-- the locale condition of the class: only formats with the `A` token need distinguishable meridiem words -/
def LocOK (L : Loc) (its : List FItem) : Prop := NTok.A ∈ toks its → AmPmOK L = true

def rendered (L : Loc) (v : Val) (its : List FItem) : Str := (its.map (FItem.piece L v)).flatten

theorem ofList_toList (t : NTok) : String.ofList t.str.toList = t.str := by cases t <;> rfl

theorem formatItems_class (L : Loc) (v : Val) : ∀ its : List FItem,
    formatItems L v.toDTF (its.map FItem.toItem) = .ok (rendered L v its) := by
  intro its
  induction its with
  | nil => rfl
  | cons i its ih =>
    cases i with
    | lit c => simp only [List.map_cons, FItem.toItem, formatItems, ih]; rfl
    | tok t =>
      simp only [List.map_cons, FItem.toItem, formatItems, ofList_toList, formatToken_NTok, ih]; rfl

theorem pelsOf_class : ∀ its : List FItem, pelsOf (its.map FItem.toItem) = its.map FItem.toPEl := by
  intro its
  induction its with
  | nil => rfl
  | cons i its ih =>
    cases i with
    | lit c => simp [FItem.toItem, FItem.toPEl, pelsOf, ih]
    | tok t => simp [FItem.toItem, FItem.toPEl, pelsOf, ih]

theorem elsOf_class (L : Loc) : ∀ its : List FItem, elsOf L (its.map FItem.toPEl) = .ok (its.map (FItem.toEl L)) := by
  intro its
  induction its with
  | nil => rfl
  | cons i its ih =>
    cases i with
    | lit c => simp only [List.map_cons, FItem.toPEl, elsOf, ih, FItem.toEl]; rfl
    | tok t =>
      obtain ⟨f, hf, he⟩ := groupOf_NTok L t
      simp only [List.map_cons, FItem.toPEl, elsOf, hf, ih, FItem.toEl, he]; rfl

theorem digitRun_rendered (L : Loc) (v : Val) (hv : InRange v) : ∀ its : List FItem, startsNonDigit its = true →
    digitRun (rendered L v its) = 0 := by
  intro its h
  cases its with
  | nil => rfl
  | cons i its =>
    cases i with
    | lit c =>
      simp only [startsNonDigit, Bool.not_eq_true'] at h
      exact digitRun_cons_nondigit c _ h
    | tok t =>
      have hb := hv.off.2
      have key : ∀ sep, digitRun (offsetStr sep v.off ++ rendered L v its) = 0 := by
        intro sep
        obtain ⟨a, b, c, d, _, _, _, _, hform, _⟩ := offsetStr_form v.off hb
        rw [hform sep]
        rcases sign_cases v.off with hs | hs <;> rw [hs] <;> exact digitRun_cons_nondigit _ _ (by decide)
      cases t <;> simp [startsNonDigit] at h
      · exact key true
      · exact key false

theorem locOK_tail (L : Loc) (i : FItem) (its : List FItem) (h : LocOK L (i :: its)) : LocOK L its := by
  intro hm; apply h
  cases i <;> simp [toks, hm]

theorem good_class (L : Loc) (v : Val) (hv : InRange v) : ∀ its : List FItem, LocOK L its → WellSep its = true →
    Good (its.map (FItem.toEl L)) (its.map (FItem.piece L v)) := by
  intro its
  induction its with
  | nil => intro _ _; trivial
  | cons i its ih =>
    intro hL h
    have hL' := locOK_tail L i its hL
    cases i with
    | lit c =>
      simp only [WellSep] at h
      refine ⟨⟨[], ?_⟩, ih hL' h⟩
      simp [FItem.toEl, FItem.piece, litEl]
    | tok t =>
      simp only [WellSep, Bool.and_eq_true, Bool.or_eq_true] at h
      refine ⟨?_, ih hL' h.2⟩
      have hsep : t.fixed = true ∨ digitRun (rendered L v its) = 0 := by
        rcases h.1 with hf | hs
        · exact Or.inl hf
        · exact Or.inr (digitRun_rendered L v hv its hs)
      exact lens_head L v hv t (fun e => hL (by subst e; simp [toks])) _ hsep

theorem tokPieces_class (L : Loc) (v : Val) : ∀ its : List FItem,
    tokPieces (its.map FItem.toPEl) (its.map (FItem.piece L v)) = (toks its).map (fun t => (t.str, t.render L v)) := by
  intro its
  induction its with
  | nil => rfl
  | cons i its ih => cases i <;> simp [FItem.toPEl, FItem.piece, tokPieces, toks, ih]

theorem applyGroups_class (L : Loc) (v : Val) (hv : InRange v) : ∀ (ts : List NTok) (p : Parsed),
    (NTok.A ∈ ts → AmPmOK L = true) →
    applyGroups L (ts.map (fun t => (t.str, t.render L v))) p = .ok (ts.foldl (fun p t => t.set v p) p) := by
  intro ts
  induction ts with
  | nil => intro p _; rfl
  | cons t ts ih =>
    intro p hL
    simp only [List.map_cons, applyGroups, applyGroup_NTok L v hv t (fun e => hL (by subst e; simp)) p,
      ih _ (fun hm => hL (by simp [hm])), List.foldl_cons]

theorem tokNames_class : ∀ its : List FItem,
    (its.map FItem.toPEl).filterMap PEl.tokName? = (toks its).map NTok.str := by
  intro its
  induction its with
  | nil => rfl
  | cons i its ih => cases i <;> simp [FItem.toPEl, toks, ← ih, PEl.tokName?, List.filterMap_cons]

/-- **round trip, general form**: for every value in range and every well-separated format of the class,
    parsing what `format` wrote assigns exactly the fields the tokens carry and then applies the defaults -/
theorem parse_format_class (L : Loc) (v : Val) (hv : InRange v) (its : List FItem) (now : Now)
    (hne : its ≠ []) (hsep : WellSep its = true) (hrep : NoRepeat its = true) (hL : LocOK L its) :
    formatItems L v.toDTF (its.map FItem.toItem) = .ok (rendered L v its) ∧
    parseItems L (rendered L v its) (its.map FItem.toItem) now =
      checkParsed ((toks its).foldl (fun p t => t.set v p) {}) now := by
  refine ⟨formatItems_class L v its, ?_⟩
  unfold parseItems
  have h1 : (its.map FItem.toItem).isEmpty = false := by cases its <;> simp at hne ⊢
  simp only [h1, pelsOf_class, elsOf_class, tokNames_class, Bool.false_eq_true, if_false]
  have h2 : hasDup ((toks its).map NTok.str) = false := by simpa [NoRepeat] using hrep
  simp only [h2, Bool.false_eq_true, if_false]
  have hg := dfs_good _ _ (good_class L v hv its hL hsep)
  simp only [rendered, hg]
  rw [groupValues_pieces _ _ (by simp), tokPieces_class, applyGroups_class L v hv _ _ hL]

end Pendulum.Fmt

namespace Pendulum.Fmt

/-! ### `_check_parsed` when only plain fields were read -/

/-- the defaulting rules: year from `now`; month from `now` only when no year was given, else 1; day from `now`
    only when neither year nor month was given, else 1; clock fields 0 -/
theorem checkParsed_plain (p : Parsed) (now : Now)
    (h1 : p.timestamp = none) (h2 : p.quarter = none) (h3 : p.day_of_year = none) (h4 : p.day_of_week = none)
    (h5 : p.meridiem = none) :
    checkParsed p now = .ok ⟨p.year.getD now.year,
      (match p.month with | some m => m | none => if p.year.isSome then 1 else now.month),
      (match p.day with | some d => d | none => if p.year.isSome || p.month.isSome then 1 else now.day),
      p.hour.getD 0, p.minute.getD 0, p.second.getD 0, p.microsecond.getD 0, p.tz⟩ := by
  unfold checkParsed checkQuarter checkDayOfYear checkDayOfWeek checkMeridiem checkFinal
  simp only [h1, h2, h3, h4, h5]
  cases hm : p.month <;> cases hd : p.day <;> simp [orNow, bind, Except.bind, pure, Except.pure]

/-! ### `_check_parsed` for the states the class produces -/

theorem doy_rebuild (y mo d : Int) (hv : Cal.validDate y mo d) :
    Cal.ord2ymd (Cal.ymd2ord y 1 1 + Cal.dayOfYear y mo d - 1) = (y, mo, d) ∧
    1 ≤ Cal.dayOfYear y mo d ∧ Cal.dayOfYear y mo d ≤ Cal.daysInYear y := by
  have e : Cal.ymd2ord y 1 1 + Cal.dayOfYear y mo d - 1 = Cal.ymd2ord y mo d := by
    unfold Cal.ymd2ord Cal.dayOfYear; simp [Cal.daysBeforeMonth]; omega
  rw [e, Cal.ord2ymd_ymd2ord y mo d hv]
  refine ⟨rfl, ?_, ?_⟩
  · obtain ⟨h1, h2, h3, _⟩ := hv
    have := Cal.dbm_bounds (Cal.isLeap y) mo ⟨h1, h2⟩
    unfold Cal.dayOfYear; omega
  · obtain ⟨h1, h2, h3, h4⟩ := hv
    have : mo = 1 ∨ mo = 2 ∨ mo = 3 ∨ mo = 4 ∨ mo = 5 ∨ mo = 6 ∨ mo = 7 ∨ mo = 8 ∨ mo = 9 ∨ mo = 10 ∨ mo = 11 ∨ mo = 12 := by omega
    unfold Cal.dayOfYear Cal.daysInYear
    rcases this with h|h|h|h|h|h|h|h|h|h|h|h <;> subst h <;> cases hl : Cal.isLeap y <;>
      simp [Cal.daysBeforeMonth, Cal.daysInMonth, hl] at h4 ⊢ <;> omega

theorem meridiemTooLate_small (k : Int) (mi s us : Option Int) (hk : k ≤ 12) : meridiemTooLate k mi s us = false := by
  unfold meridiemTooLate
  rw [if_neg (by omega), if_pos (by omega)]

/-- `_check_parsed` on a state with a year, a date given by month and day or by the day of the year, and an hour given on
    the 24-hour clock or on the 12-hour clock with the meridiem -/
theorem checkParsed_class (p : Parsed) (now : Now) (y mo d h : Int)
    (h1 : p.timestamp = none) (h2 : p.quarter = none) (h4 : p.day_of_week = none) (hy : p.year = some y)
    (hdate : (p.day_of_year = none ∧ p.month = some mo ∧ p.day = some d) ∨
             (p.day_of_year = some (Cal.dayOfYear y mo d) ∧ Cal.validDate y mo d ∧ 1000 ≤ y ∧ y ≤ 9999))
    (hhour : (p.meridiem = none ∧ p.hour = some h) ∨
             (∃ k, p.meridiem = some (decide (h ≥ 12)) ∧ p.hour = some k ∧ 1 ≤ k ∧ k ≤ 12 ∧ k % 12 = h % 12 ∧ 0 ≤ h ∧ h ≤ 23)) :
    checkParsed p now = .ok ⟨y, mo, d, h, p.minute.getD 0, p.second.getD 0, p.microsecond.getD 0, p.tz⟩ := by
  unfold checkParsed checkQuarter checkDayOfYear checkDayOfWeek checkMeridiem checkFinal
  simp only [h1, h2, h4, hy]
  rcases hdate with ⟨d1, d2, d3⟩ | ⟨d1, dv, dy1, dy2⟩
  · rcases hhour with ⟨m1, m2⟩ | ⟨k, m1, m2, k1, k2, k3, k4, k5⟩
    · simp [d1, d2, d3, m1, m2, bind, Except.bind, pure, Except.pure]
    · simp only [d1, d2, d3, m1, m2, bind, Except.bind, pure, Except.pure, meridiemTooLate_small k _ _ _ k2]
      by_cases hp : h ≥ 12
      · have : k % 12 + 12 = h := by omega
        simp [hp, this]
      · have : k % 12 = h := by omega
        simp [hp, this]
  · obtain ⟨r1, r2, r3⟩ := doy_rebuild y mo d dv
    rcases hhour with ⟨m1, m2⟩ | ⟨k, m1, m2, k1, k2, k3, k4, k5⟩
    · simp [d1, m1, m2, bind, Except.bind, pure, Except.pure, r1, r2, r3, dy1, dy2]
    · simp only [d1, m1, m2, bind, Except.bind, pure, Except.pure, meridiemTooLate_small k _ _ _ k2]
      by_cases hp : h ≥ 12
      · have : k % 12 + 12 = h := by omega
        simp [hp, this, r1, r2, r3, dy1, dy2]
      · have : k % 12 = h := by omega
        simp [hp, this, r1, r2, r3, dy1, dy2]

/-! ### the state after reading all groups -/

theorem fold_field {α : Type} (v : Val) (π : Parsed → Option α) (sets : NTok → Bool) (c : α) :
    ∀ (ts : List NTok) (p : Parsed), (∀ t ∈ ts, ∀ p, π (t.set v p) = if sets t then some c else π p) →
      π (ts.foldl (fun p t => t.set v p) p) = if ts.any sets then some c else π p := by
  intro ts
  induction ts with
  | nil => intro p _; simp
  | cons t ts ih =>
    intro p h
    rw [List.foldl_cons, ih _ (fun t' ht' => h t' (by simp [ht'])), h t (by simp) p]
    by_cases a : ts.any sets = true <;> by_cases b : sets t = true <;> simp [a, b]

def NTok.isYear : NTok → Bool | .YYYY | .YY => true | _ => false
def NTok.isMonth : NTok → Bool | .MM | .M => true | _ => false
def NTok.isDay : NTok → Bool | .DD | .D => true | _ => false
def NTok.isDoy : NTok → Bool | .DDDD | .DDD => true | _ => false
def NTok.is24 : NTok → Bool | .HH | .H => true | _ => false
def NTok.is12 : NTok → Bool | .hh | .h => true | _ => false
def NTok.isMin : NTok → Bool | .mm | .m => true | _ => false
def NTok.isSec : NTok → Bool | .ss | .s => true | _ => false
def NTok.isOff : NTok → Bool | .Z | .ZZ => true | _ => false
def NTok.isFrac : NTok → Bool | .S | .SS | .SSS | .SSSS | .SSSSS | .SSSSSS => true | _ => false
def NTok.isA : NTok → Bool | .A => true | _ => false

/-- microseconds per unit of the last printed fraction digit -/
def NTok.scale : NTok → Int
  | .S => 100000 | .SS => 10000 | .SSS => 1000 | .SSSS => 100 | .SSSSS => 10 | _ => 1

/-- the tokens of the first version of the class (24-hour clock, four-digit year, month and day, six fraction digits) -/
def NTok.basic : NTok → Bool
  | .YYYY | .MM | .M | .DD | .D | .HH | .H | .mm | .m | .ss | .s | .SSSSSS | .Z | .ZZ => true
  | _ => false

/-- the format carries a full date (year + month and day, or year + day of the year), a full time (24-hour clock, or
    12-hour clock with the meridiem), the fraction token `f` and no other, and an offset -/
def FullX (its : List FItem) (f : NTok) : Bool :=
  let ts := toks its
  ts.any NTok.isYear && ((ts.any NTok.isMonth && ts.any NTok.isDay) || ts.any NTok.isDoy)
    && ((ts.any NTok.is24 && !ts.any NTok.is12 && !ts.any NTok.isA) || (ts.any NTok.is12 && !ts.any NTok.is24 && ts.any NTok.isA))
    && ts.any NTok.isMin && ts.any NTok.isSec && ts.any NTok.isOff
    && f.isFrac && ts.any (· == f) && ts.all (fun t => !t.isFrac || t == f)

/-- the format carries a full date, time, fraction and offset, written with the basic tokens -/
def Full (its : List FItem) : Bool :=
  let ts := toks its
  ts.all NTok.basic &&
  ts.any (· == NTok.YYYY) && ts.any (fun t => t == NTok.MM || t == NTok.M) && ts.any (fun t => t == NTok.DD || t == NTok.D)
    && ts.any (fun t => t == NTok.HH || t == NTok.H) && ts.any (fun t => t == NTok.mm || t == NTok.m)
    && ts.any (fun t => t == NTok.ss || t == NTok.s) && ts.any (· == NTok.SSSSSS) && ts.any (fun t => t == NTok.Z || t == NTok.ZZ)

theorem any_congr_mem {α} (l : List α) (p q : α → Bool) (h : ∀ x ∈ l, p x = q x) : l.any p = l.any q := by
  induction l with
  | nil => rfl
  | cons a l ih => simp only [List.any_cons, h a (by simp), ih (fun x hx => h x (by simp [hx]))]

theorem full_fullX (its : List FItem) (h : Full its = true) : FullX its NTok.SSSSSS = true := by
  simp only [Full, Bool.and_eq_true] at h
  obtain ⟨⟨⟨⟨⟨⟨⟨⟨hb, a1⟩, a2⟩, a3⟩, a4⟩, a5⟩, a6⟩, a7⟩, a8⟩ := h
  have hb' : ∀ t ∈ toks its, t.basic = true := by simpa [List.all_eq_true] using hb
  have c1 : (toks its).any NTok.isYear = true := by
    rw [← a1]; exact any_congr_mem _ _ _ (fun t ht => by have := hb' t ht; cases t <;> first | rfl | simp [NTok.basic] at this)
  have c2 : (toks its).any NTok.isMonth = true := by rw [← a2]; exact any_congr_mem _ _ _ (fun t _ => by cases t <;> rfl)
  have c3 : (toks its).any NTok.isDay = true := by rw [← a3]; exact any_congr_mem _ _ _ (fun t _ => by cases t <;> rfl)
  have c4 : (toks its).any NTok.is24 = true := by rw [← a4]; exact any_congr_mem _ _ _ (fun t _ => by cases t <;> rfl)
  have c5 : (toks its).any NTok.isMin = true := by rw [← a5]; exact any_congr_mem _ _ _ (fun t _ => by cases t <;> rfl)
  have c6 : (toks its).any NTok.isSec = true := by rw [← a6]; exact any_congr_mem _ _ _ (fun t _ => by cases t <;> rfl)
  have c8 : (toks its).any NTok.isOff = true := by rw [← a8]; exact any_congr_mem _ _ _ (fun t _ => by cases t <;> rfl)
  have n12 : (toks its).any NTok.is12 = false := by
    rw [List.any_eq_false]; intro t ht; have := hb' t ht; cases t <;> simp [NTok.basic, NTok.is12] at this ⊢
  have nA : (toks its).any NTok.isA = false := by
    rw [List.any_eq_false]; intro t ht; have := hb' t ht; cases t <;> simp [NTok.basic, NTok.isA] at this ⊢
  have cf : (toks its).all (fun t => !t.isFrac || t == NTok.SSSSSS) = true := by
    rw [List.all_eq_true]; intro t ht; have := hb' t ht; cases t <;> simp [NTok.basic, NTok.isFrac] at this ⊢
  have hf : NTok.SSSSSS.isFrac = true := rfl
  simp [FullX, c1, c2, c3, c4, c5, c6, c8, n12, nA, cf, a7, hf]

/-- the state the groups of a full format leave behind passes `_check_parsed` and yields the value's own fields, the
    microsecond truncated to the printed precision -/
theorem state_class (v : Val) (hv : InRange v) (ts : List NTok) (f : NTok) (now : Now)
    (hyy : NTok.YY ∈ ts → 1969 ≤ v.y ∧ v.y ≤ 2068)
    (hvd : ts.any NTok.isDoy = true → Cal.validDate v.y v.mo v.d)
    (hy : ts.any NTok.isYear = true)
    (hdate : (ts.any NTok.isMonth = true ∧ ts.any NTok.isDay = true) ∨ ts.any NTok.isDoy = true)
    (hhour : (ts.any NTok.is24 = true ∧ ts.any NTok.is12 = false ∧ ts.any NTok.isA = false) ∨
             (ts.any NTok.is12 = true ∧ ts.any NTok.is24 = false ∧ ts.any NTok.isA = true))
    (hmi : ts.any NTok.isMin = true) (hs : ts.any NTok.isSec = true) (hz : ts.any NTok.isOff = true)
    (hf1 : f.isFrac = true) (hf2 : ts.any (· == f) = true) (hf3 : ∀ t ∈ ts, t.isFrac = true → t = f) :
    checkParsed (ts.foldl (fun p t => t.set v p) {}) now
      = .ok ⟨v.y, v.mo, v.d, v.h, v.mi, v.s, v.us / f.scale * f.scale, some (TzP.fixed v.off)⟩ := by
  have hY := hv.y
  have f1 := fold_field v Parsed.year NTok.isYear v.y ts {} (by
    intro t ht p
    cases t <;> try rfl
    have := hyy ht
    show some (if v.y % 100 ≤ 68 then v.y % 100 + 2000 else v.y % 100 + 1900) = some v.y
    congr 1; split <;> omega)
  have f2 := fold_field v Parsed.month NTok.isMonth v.mo ts {} (by intro t _ p; cases t <;> rfl)
  have f3 := fold_field v Parsed.day NTok.isDay v.d ts {} (by intro t _ p; cases t <;> rfl)
  have f5 := fold_field v Parsed.minute NTok.isMin v.mi ts {} (by intro t _ p; cases t <;> rfl)
  have f6 := fold_field v Parsed.second NTok.isSec v.s ts {} (by intro t _ p; cases t <;> rfl)
  have f7 := fold_field v Parsed.microsecond (· == f) (v.us / f.scale * f.scale) ts {} (by
    intro t ht p
    by_cases hfr : t.isFrac = true
    · have e := hf3 t ht hfr
      subst e
      cases t <;> simp [NTok.isFrac] at hfr <;> simp [NTok.set, NTok.scale]
    · have hne : (t == f) = false := by
        cases h : t == f
        · rfl
        · have : t = f := by simpa using h
          subst this; exact absurd hf1 hfr
      rw [hne]
      cases t <;> first | rfl | simp [NTok.isFrac] at hfr)
  have f8 := fold_field v Parsed.tz NTok.isOff (TzP.fixed v.off) ts {} (by intro t _ p; cases t <;> rfl)
  have f9 := fold_field v Parsed.day_of_year NTok.isDoy (doy v) ts {} (by intro t _ p; cases t <;> rfl)
  have f10 := fold_field v Parsed.meridiem NTok.isA (decide (v.h ≥ 12)) ts {} (by intro t _ p; cases t <;> rfl)
  have g1 := fold_field v Parsed.timestamp (fun _ => false) (0, 0) ts {} (by intro t _ p; cases t <;> rfl)
  have g2 := fold_field v Parsed.quarter (fun _ => false) 0 ts {} (by intro t _ p; cases t <;> rfl)
  have g4 := fold_field v Parsed.day_of_week (fun _ => false) 0 ts {} (by intro t _ p; cases t <;> rfl)
  have nofalse : ts.any (fun _ => false) = false := by
    clear f1 f2 f3 f5 f6 f7 f8 f9 f10 g1 g2 g4 hyy hvd hy hdate hhour hmi hs hz hf2 hf3
    induction ts <;> simp_all
  simp only [nofalse, Bool.false_eq_true, if_false] at g1 g2 g4
  simp only [hy, hmi, hs, hz, hf2, if_true] at f1 f5 f6 f7 f8
  have hdoy : doy v = Cal.dayOfYear v.y v.mo v.d := Props.C15.day_of_year_spec _ _ _ hv.mo
  have hdate' : ((ts.foldl (fun p t => NTok.set v t p) ({} : Parsed)).day_of_year = none ∧
        (ts.foldl (fun p t => NTok.set v t p) ({} : Parsed)).month = some v.mo ∧ (ts.foldl (fun p t => NTok.set v t p) ({} : Parsed)).day = some v.d) ∨
      ((ts.foldl (fun p t => NTok.set v t p) ({} : Parsed)).day_of_year = some (Cal.dayOfYear v.y v.mo v.d) ∧ Cal.validDate v.y v.mo v.d ∧
        1000 ≤ v.y ∧ v.y ≤ 9999) := by
    by_cases hd : ts.any NTok.isDoy = true
    · right; rw [f9, if_pos hd, hdoy]; exact ⟨rfl, hvd hd, hY.1, hY.2⟩
    · left
      rcases hdate with ⟨a, b⟩ | c
      · rw [f9, f2, f3, if_neg hd, if_pos a, if_pos b]; exact ⟨rfl, rfl, rfl⟩
      · exact absurd c hd
  have hhour' : ((ts.foldl (fun p t => NTok.set v t p) ({} : Parsed)).meridiem = none ∧ (ts.foldl (fun p t => NTok.set v t p) ({} : Parsed)).hour = some v.h) ∨
      (∃ k, (ts.foldl (fun p t => NTok.set v t p) ({} : Parsed)).meridiem = some (decide (v.h ≥ 12)) ∧
        (ts.foldl (fun p t => NTok.set v t p) ({} : Parsed)).hour = some k ∧ 1 ≤ k ∧ k ≤ 12 ∧ k % 12 = v.h % 12 ∧ 0 ≤ v.h ∧ v.h ≤ 23) := by
    rcases hhour with ⟨a, b, c⟩ | ⟨a, b, c⟩
    · left
      have b' : ∀ t ∈ ts, t.is12 = false := by
        intro t ht; have := (List.any_eq_false.mp b) t ht; simpa using this
      have f4 := fold_field v Parsed.hour NTok.is24 v.h ts {} (by
        intro t ht p
        have := b' t ht
        cases t <;> first | rfl | simp [NTok.is12] at this)
      rw [f10, f4, if_pos a]; simp [c]
    · right
      have b' : ∀ t ∈ ts, t.is24 = false := by
        intro t ht; have := (List.any_eq_false.mp b) t ht; simpa using this
      have f4 := fold_field v Parsed.hour NTok.is12 (h12 v) ts {} (by
        intro t ht p
        have := b' t ht
        cases t <;> first | rfl | simp [NTok.is24] at this)
      have hb := h12_bounds v hv
      refine ⟨h12 v, ?_, ?_, hb.1, hb.2.1, hb.2.2, hv.h.1, hv.h.2⟩
      · rw [f10, if_pos c]
      · rw [f4, if_pos a]
  rw [checkParsed_class _ now v.y v.mo v.d v.h g1 g2 g4 f1 hdate' hhour', f5, f6, f7, f8]
  rfl

/-- **round trip**: a format of the class carrying a full date, time, one fraction token and an offset reads back every field
    and the offset of every value in the domain, whatever `now` is; the microsecond comes back truncated to the precision the
    fraction token prints -/
theorem parse_format_fullX (L : Loc) (v : Val) (hv : InRange v) (its : List FItem) (f : NTok) (now : Now)
    (hsep : WellSep its = true) (hrep : NoRepeat its = true) (hL : LocOK L its) (hfull : FullX its f = true)
    (hyy : NTok.YY ∈ toks its → 1969 ≤ v.y ∧ v.y ≤ 2068)
    (hvd : (toks its).any NTok.isDoy = true → Cal.validDate v.y v.mo v.d) :
    parseItems L (rendered L v its) (its.map FItem.toItem) now
      = .ok ⟨v.y, v.mo, v.d, v.h, v.mi, v.s, v.us / f.scale * f.scale, some (TzP.fixed v.off)⟩ := by
  have hne : its ≠ [] := by
    intro e; subst e; simp [FullX, toks] at hfull
  rw [(parse_format_class L v hv its now hne hsep hrep hL).2]
  simp only [FullX, Bool.and_eq_true, Bool.or_eq_true, Bool.not_eq_true'] at hfull
  obtain ⟨⟨⟨⟨⟨⟨⟨⟨a1, a2⟩, a3⟩, a4⟩, a5⟩, a6⟩, a7⟩, a8⟩, a9⟩ := hfull
  refine state_class v hv (toks its) f now hyy hvd a1 a2 ?_ a4 a5 a6 a7 a8 ?_
  · rcases a3 with ⟨⟨x, y⟩, z⟩ | ⟨⟨x, y⟩, z⟩
    · exact Or.inl ⟨x, y, z⟩
    · exact Or.inr ⟨x, y, z⟩
  · intro t ht hfr
    have := (List.all_eq_true.mp a9) t ht
    simpa [hfr] using this

/-- **round trip, basic tokens**: a format of the class carrying a full date, time, six-digit fraction and offset reads
    back every field and the offset of every value in the domain, whatever `now` is -/
theorem parse_format_full (L : Loc) (v : Val) (hv : InRange v) (its : List FItem) (now : Now)
    (hsep : WellSep its = true) (hrep : NoRepeat its = true) (hfull : Full its = true) :
    parseItems L (rendered L v its) (its.map FItem.toItem) now
      = .ok ⟨v.y, v.mo, v.d, v.h, v.mi, v.s, v.us, some (TzP.fixed v.off)⟩ := by
  have hb : ∀ t ∈ toks its, t.basic = true := by
    simp only [Full, Bool.and_eq_true] at hfull
    simpa [List.all_eq_true] using hfull.1.1.1.1.1.1.1.1
  have hx := full_fullX its hfull
  have := parse_format_fullX L v hv its NTok.SSSSSS now hsep hrep
    (fun hm => by have := hb _ hm; simp [NTok.basic] at this) hx
    (fun hm => by have := hb _ hm; simp [NTok.basic] at this)
    (fun hd => by
      obtain ⟨t, ht, h⟩ := List.any_eq_true.mp hd
      have := hb t ht
      cases t <;> simp [NTok.basic, NTok.isDoy] at this h)
  rw [this]
  simp [NTok.scale]

end Pendulum.Fmt
