import Pendulum.Proofs.IntervalGen
/-! Tie of `in_years/in_months/in_days/in_weeks`, `__neg__`, `__abs__` of `Gen.Interval` (C05). -/
set_option linter.unusedSimpArgs false
namespace Pendulum.IntervalGen
open Pendulum Pendulum.DTOps Pendulum.AddDur
open Pendulum.Gen.Interval (Ep Kind Cls Env Ops Self PDt InitRes Method EqRes isinst)

/-- `in_years/in_months/in_weeks/in_days` as written in the source -/
theorem in_units_eq {α : Type} (self : Self α) :
    Gen.Interval.in_years self = self.delta.years ∧
    Gen.Interval.in_months self = PreciseDiff.inMonthsOf ⟨self.delta.years, self.delta.months, self.delta.days, self.delta.hours,
      self.delta.minutes, self.delta.seconds, self.delta.microseconds, self.delta.total_days⟩ ∧
    Gen.Interval.in_days self = self.delta.total_days ∧
    Gen.Interval.in_weeks self = Interval.inWeeks (Gen.Interval.in_days self) := by
  gen_tie "Pendulum.IntervalGen.in_units_eq (under Props.C05.in_units_source_eq_model)" "Gen/Interval.lean in_years / in_months / in_days / in_weeks" =>
    refine ⟨?_, ?_, ?_, ?_⟩
    · simp only [Gen.Interval.in_years, Gen.Interval.p_years]
    · simp only [Gen.Interval.in_months, Gen.Interval.p_years, Gen.Interval.p_months, PreciseDiff.inMonthsOf]
    · simp only [Gen.Interval.in_days]
    · simp only [Gen.Interval.in_weeks, Gen.Interval.in_days, Gen.Interval.intAbs, Interval.inWeeks, decide_eq_true_eq]
      by_cases h : self.delta.total_days < 0 <;> simp [h]
    done


theorem neg_abs_eq {α : Type} (self : Self α) :
    Gen.Interval.op_neg self = (self.end_, self.start, self.absolute) ∧
    Gen.Interval.op_abs self = (self.start, self.end_, true) := by
  gen_tie "Pendulum.IntervalGen.neg_abs_eq (under Props.C05.neg_abs_source_eq_model)" "Gen/Interval.lean `op_neg` / `op_abs` (Interval.__neg__ / __abs__)" =>
    simp only [Gen.Interval.op_neg, Gen.Interval.op_abs, Gen.Interval.p_start, Gen.Interval.p_end, and_self]
    done


end Pendulum.IntervalGen
