import Pendulum.Proofs.Iso
import Pendulum.Props.C15
/-! Calendar side of the ISO parser proofs: day-of-year → (month, day) through the shipped tables, and
ISO week → date through `week_day` / `days_in_year` / `is_long_year`. -/
namespace Pendulum.Iso
open Pendulum

theorem rsOff_eq_pyOff (leap : Bool) (i : Int) : rsOff leap i = pyOff leap i := by cases leap <;> rfl

theorem walk_hit (off : Int → Int) (ord : Int) (n : Nat) (i : Int) (h : ord ≤ off i) :
    walk off false ord (n + 1) i = some (i - 1, ord - off (i - 1)) := by
  simp [walk, h]

theorem walk_skip (off : Int → Int) (ord : Int) (n : Nat) (i : Int) (h : ¬ ord ≤ off i) :
    walk off false ord (n + 1) i = walk off false ord n (i + 1) := by
  simp [walk, h]

/-- the walk stops at the first index whose table entry is ≥ the ordinal -/
theorem walk_to (off : Int → Int) (ord : Int) (k : Nat) : ∀ (n : Nat) (i : Int),
    (∀ j : Int, i ≤ j → j < i + k → ¬ ord ≤ off j) → ord ≤ off (i + k) → k < n →
    walk off false ord n i = some (i + k - 1, ord - off (i + k - 1)) := by
  induction k with
  | zero =>
    intro n i _ hle hn
    obtain ⟨n', rfl⟩ : ∃ n', n = n' + 1 := ⟨n - 1, by omega⟩
    simpa using walk_hit off ord n' i (by simpa using hle)
  | succ k ih =>
    intro n i hlt hle hn
    obtain ⟨n', rfl⟩ : ∃ n', n = n' + 1 := ⟨n - 1, by omega⟩
    rw [walk_skip off ord n' i (hlt i (by omega) (by omega))]
    have := ih n' (i + 1) (fun j h1 h2 => hlt j (by omega) (by omega))
      (by have e : i + 1 + (k : Int) = i + ((k + 1 : Nat) : Int) := by omega
          rw [e]; exact hle) (by omega)
    rw [this]
    have e : i + 1 + (k : Int) = i + ((k + 1 : Nat) : Int) := by omega
    rw [e]

/-- the month table is the reference `daysBeforeMonth` (entries 1..12) followed by the year length -/
theorem pyOff_spec (leap : Bool) (j : Int) (h : 1 ≤ j ∧ j ≤ 12) : pyOff leap j = Cal.daysBeforeMonth leap j := by
  obtain ⟨h1, h2⟩ := h
  have : j = 1 ∨ j = 2 ∨ j = 3 ∨ j = 4 ∨ j = 5 ∨ j = 6 ∨ j = 7 ∨ j = 8 ∨ j = 9 ∨ j = 10 ∨ j = 11 ∨ j = 12 := by omega
  rcases this with h|h|h|h|h|h|h|h|h|h|h|h <;> subst h <;> cases leap <;> rfl

theorem pyOff_13 (leap : Bool) : pyOff leap 13 = if leap then 366 else 365 := by cases leap <;> rfl

theorem dbm_mono (leap : Bool) (j m : Int) (hj : 1 ≤ j) (hjm : j ≤ m) (hm : m ≤ 12) :
    Cal.daysBeforeMonth leap j ≤ Cal.daysBeforeMonth leap m := by
  have : j = 1 ∨ j = 2 ∨ j = 3 ∨ j = 4 ∨ j = 5 ∨ j = 6 ∨ j = 7 ∨ j = 8 ∨ j = 9 ∨ j = 10 ∨ j = 11 ∨ j = 12 := by omega
  have : m = 1 ∨ m = 2 ∨ m = 3 ∨ m = 4 ∨ m = 5 ∨ m = 6 ∨ m = 7 ∨ m = 8 ∨ m = 9 ∨ m = 10 ∨ m = 11 ∨ m = 12 := by omega
  cases leap <;> rcases ‹j = 1 ∨ _› with h|h|h|h|h|h|h|h|h|h|h|h <;> subst h <;>
    rcases ‹m = 1 ∨ _› with h|h|h|h|h|h|h|h|h|h|h|h <;> subst h <;> first | omega | decide


theorem pyOff_next (y m : Int) (h : 1 ≤ m ∧ m ≤ 12) :
    pyOff (Cal.isLeap y) (m + 1) = Cal.daysBeforeMonth (Cal.isLeap y) m + Cal.daysInMonth y m := by
  obtain ⟨h1, h2⟩ := h
  have : m = 1 ∨ m = 2 ∨ m = 3 ∨ m = 4 ∨ m = 5 ∨ m = 6 ∨ m = 7 ∨ m = 8 ∨ m = 9 ∨ m = 10 ∨ m = 11 ∨ m = 12 := by omega
  rcases this with h|h|h|h|h|h|h|h|h|h|h|h <;> subst h <;> cases hl : Cal.isLeap y <;>
    simp [pyOff, Gen.py_MONTHS_OFFSETS_0, Gen.py_MONTHS_OFFSETS_1, Cal.daysBeforeMonth, Cal.daysInMonth, hl]

/-- day-of-year → (month, day) through the shipped month table inverts `daysBeforeMonth + day` -/
theorem walk_spec (y m d : Int) (hm : 1 ≤ m ∧ m ≤ 12) (hd : 1 ≤ d ∧ d ≤ Cal.daysInMonth y m) :
    walk (pyOff (Cal.isLeap y)) false (Cal.daysBeforeMonth (Cal.isLeap y) m + d) 13 1 = some (m, d) := by
  have h := walk_to (pyOff (Cal.isLeap y)) (Cal.daysBeforeMonth (Cal.isLeap y) m + d) m.toNat 13 1
    (by
      intro j h1 h2
      rw [pyOff_spec _ j ⟨h1, by omega⟩]
      have := dbm_mono (Cal.isLeap y) j m h1 (by omega) hm.2
      omega)
    (by
      have e : (1 : Int) + (m.toNat : Int) = m + 1 := by omega
      rw [e, pyOff_next y m hm]; omega)
    (by omega)
  rw [h]
  have e : (1 : Int) + (m.toNat : Int) - 1 = m := by omega
  rw [e, pyOff_spec _ m hm]
  congr 2
  omega

theorem walk_spec_rs (y m d : Int) (hm : 1 ≤ m ∧ m ≤ 12) (hd : 1 ≤ d ∧ d ≤ Cal.daysInMonth y m) :
    walk (rsOff (Cal.isLeap y)) false (Cal.daysBeforeMonth (Cal.isLeap y) m + d) 13 1 = some (m, d) := by
  have : rsOff (Cal.isLeap y) = pyOff (Cal.isLeap y) := funext (rsOff_eq_pyOff _)
  rw [this]; exact walk_spec y m d hm hd


/-! ### ISO week arithmetic on the reference calendar -/

/-- first Monday of ISO year `k` = Monday of the week containing January 4th -/
theorem w1_closed (k : Int) : Cal.isoWeek1Monday k = Cal.daysBeforeYear k + 4 - (Cal.daysBeforeYear k + 3) % 7 := by
  unfold Cal.isoWeek1Monday Cal.ymd2ord
  simp only [Cal.daysBeforeMonth]
  split <;> omega

theorem isoweekday_jan4 (k : Int) : Cal.isoweekday k 1 4 = (Cal.daysBeforeYear k + 3) % 7 + 1 := by
  unfold Cal.isoweekday Cal.isoweekdayOrd Cal.ymd2ord
  simp only [Cal.daysBeforeMonth]
  omega

/-- year length used by both parsers -/
def diy (k : Int) : Int := if Cal.isLeap k then 366 else 365

theorem diy_range (k : Int) : diy k = 365 ∨ diy k = 366 := by unfold diy; split <;> simp

theorem dby_succ (k : Int) : Cal.daysBeforeYear (k + 1) = Cal.daysBeforeYear k + diy k := by
  have h := Pendulum.Props.C15.days_in_year_spec k
  unfold Gen.days_in_year at h
  rw [Pendulum.Props.C15.is_leap_iff] at h
  unfold diy
  split at h <;> simp_all <;> omega

theorem doy_range (y m d : Int) (hm : 1 ≤ m ∧ m ≤ 12) (hd : 1 ≤ d ∧ d ≤ Cal.daysInMonth y m) :
    1 ≤ Cal.daysBeforeMonth (Cal.isLeap y) m + d ∧ Cal.daysBeforeMonth (Cal.isLeap y) m + d ≤ diy y := by
  have h0 := dbm_mono (Cal.isLeap y) 1 m (by omega) hm.1 hm.2
  have h1 : Cal.daysBeforeMonth (Cal.isLeap y) 1 = 0 := rfl
  have h2 := pyOff_next y m hm
  have h3 : pyOff (Cal.isLeap y) (m + 1) ≤ diy y := by
    obtain ⟨a, b⟩ := hm
    have : m = 1 ∨ m = 2 ∨ m = 3 ∨ m = 4 ∨ m = 5 ∨ m = 6 ∨ m = 7 ∨ m = 8 ∨ m = 9 ∨ m = 10 ∨ m = 11 ∨ m = 12 := by omega
    unfold diy
    rcases this with h|h|h|h|h|h|h|h|h|h|h|h <;> subst h <;> cases hl : Cal.isLeap y <;>
      simp [pyOff, Gen.py_MONTHS_OFFSETS_0, Gen.py_MONTHS_OFFSETS_1]
  omega

theorem isoCal_cases (y m d : Int) :
    let T := Cal.ymd2ord y m d
    (T - Cal.isoWeek1Monday y < 0 ∧
      Cal.isoCalendar y m d = (y - 1, (T - Cal.isoWeek1Monday (y - 1)) / 7 + 1, (T - Cal.isoWeek1Monday (y - 1)) % 7 + 1)) ∨
    (¬ T - Cal.isoWeek1Monday y < 0 ∧ ((T - Cal.isoWeek1Monday y) / 7 ≥ 52 ∧ T ≥ Cal.isoWeek1Monday (y + 1)) ∧
      Cal.isoCalendar y m d = (y + 1, 1, (T - Cal.isoWeek1Monday y) % 7 + 1)) ∨
    (¬ T - Cal.isoWeek1Monday y < 0 ∧ ¬ ((T - Cal.isoWeek1Monday y) / 7 ≥ 52 ∧ T ≥ Cal.isoWeek1Monday (y + 1)) ∧
      Cal.isoCalendar y m d = (y, (T - Cal.isoWeek1Monday y) / 7 + 1, (T - Cal.isoWeek1Monday y) % 7 + 1)) := by
  intro T
  unfold Cal.isoCalendar
  simp only []
  by_cases h1 : T - Cal.isoWeek1Monday y < 0
  · left; exact ⟨h1, by simp only [T] at h1 ⊢; rw [if_pos h1]⟩
  · by_cases h2 : (T - Cal.isoWeek1Monday y) / 7 ≥ 52 ∧ T ≥ Cal.isoWeek1Monday (y + 1)
    · right; left; exact ⟨h1, h2, by simp only [T] at h1 h2 ⊢; rw [if_neg h1, if_pos h2]⟩
    · right; right; exact ⟨h1, h2, by simp only [T] at h1 h2 ⊢; rw [if_neg h1, if_neg h2]⟩

theorem week_core (y m d : Int) (hm : 1 ≤ m ∧ m ≤ 12) (hd : 1 ≤ d ∧ d ≤ Cal.daysInMonth y m) :
    1 ≤ (Cal.isoCalendar y m d).2.1 ∧ (Cal.isoCalendar y m d).2.1 ≤ 53 ∧
    ((Cal.isoCalendar y m d).2.1 = 53 → Cal.isoWeeksInYear (Cal.isoCalendar y m d).1 = 53) ∧
    1 ≤ (Cal.isoCalendar y m d).2.2 ∧ (Cal.isoCalendar y m d).2.2 ≤ 7 ∧
    ((Cal.isoCalendar y m d).1 = y - 1 ∨ (Cal.isoCalendar y m d).1 = y ∨ (Cal.isoCalendar y m d).1 = y + 1) ∧
    adjust diy ((Cal.isoCalendar y m d).2.1 * 7 + (Cal.isoCalendar y m d).2.2 -
        (Cal.isoweekday (Cal.isoCalendar y m d).1 1 4 + 3)) (Cal.isoCalendar y m d).1
      = (Cal.daysBeforeMonth (Cal.isLeap y) m + d, y) := by
  obtain ⟨hn1, hn2⟩ := doy_range y m d hm hd
  have e0 : Cal.daysBeforeYear y = Cal.daysBeforeYear (y - 1) + diy (y - 1) := by
    have := dby_succ (y - 1); rwa [show y - 1 + 1 = y by omega] at this
  have e1 := dby_succ y
  have e2 := dby_succ (y + 1)
  have r0 := diy_range (y - 1)
  have r1 := diy_range y
  have r2 := diy_range (y + 1)
  have hc := isoCal_cases y m d
  simp only [Cal.ymd2ord, w1_closed] at hc
  rcases hc with ⟨c1, hiso⟩ | ⟨c1, c2, hiso⟩ | ⟨c1, c2, hiso⟩
  · rw [hiso]
    simp only [adjust, adj1, isoweekday_jan4, Cal.isoWeeksInYear, w1_closed, show y - 1 + 1 = y by omega]
    refine ⟨by omega, by omega, by omega, by omega, by omega, by simp, ?_⟩
    repeat' split
    all_goals (try dsimp only at *)
    all_goals first | omega | (congr 1 <;> omega)
  · rw [hiso]
    have ey : diy (y + 1 - 1) = diy y := by rw [show y + 1 - 1 = y by omega]
    simp only [adjust, adj1, isoweekday_jan4, Cal.isoWeeksInYear, w1_closed, ey]
    refine ⟨by omega, by omega, by omega, by omega, by omega, by simp, ?_⟩
    repeat' split
    all_goals (try dsimp only at *)
    all_goals first | omega | (congr 1 <;> omega)
  · rw [hiso]
    simp only [adjust, adj1, isoweekday_jan4, Cal.isoWeeksInYear, w1_closed]
    refine ⟨by omega, by omega, by omega, by omega, by omega, by simp, ?_⟩
    repeat' split
    all_goals (try dsimp only at *)
    all_goals first | omega | (congr 1 <;> omega)

/-! ### the parsers' helpers on the reference calendar -/

theorem gen_diy (k : Int) : Gen.days_in_year k = diy k := by
  unfold Gen.days_in_year diy; rw [Pendulum.Props.C15.is_leap_iff]

theorem rs_diy (k : Int) (hk : 0 ≤ k) : Rs.days_in_year k = diy k := by
  rw [Pendulum.Props.C15.rs_days_in_year_eq k hk, gen_diy]

theorem rs_leap (k : Int) (hk : 0 ≤ k) : Rs.is_leap k = Cal.isLeap k := by
  rw [Pendulum.Props.C15.rs_is_leap_eq k hk, Pendulum.Props.C15.is_leap_iff]

theorem adjust_congr (dy dy' : Int → Int) (o year : Int) (h1 : dy (year - 1) = dy' (year - 1)) (h2 : dy year = dy' year) :
    adjust dy o year = adjust dy' o year := by
  unfold adjust adj1
  split <;> simp [h1, h2]

theorem monthOfYday_aux (leap : Bool) (m n : Int) (hm : 1 ≤ m ∧ m ≤ 12)
    (h1 : Cal.daysBeforeMonth leap m ≤ n) (h2 : m < 12 → n < Cal.daysBeforeMonth leap (m + 1)) :
    Cal.monthOfYday leap n = m := by
  obtain ⟨a, b⟩ := hm
  have : m = 1 ∨ m = 2 ∨ m = 3 ∨ m = 4 ∨ m = 5 ∨ m = 6 ∨ m = 7 ∨ m = 8 ∨ m = 9 ∨ m = 10 ∨ m = 11 ∨ m = 12 := by omega
  cases leap <;> rcases this with h|h|h|h|h|h|h|h|h|h|h|h <;> subst h <;>
    simp only [Cal.daysBeforeMonth, Bool.false_eq_true, if_false, if_true, Int.reduceAdd, Int.reduceLT, forall_const,
      false_imp_iff] at h1 h2 <;>
    simp only [Cal.monthOfYday, Cal.daysBeforeMonth, Bool.false_eq_true, if_false, if_true, Int.reduceAdd] <;>
    (repeat (first | rw [if_pos (by omega)] | rw [if_neg (by omega)]))

theorem monthOfYday_spec (y m d : Int) (hm : 1 ≤ m ∧ m ≤ 12) (hd : 1 ≤ d ∧ d ≤ Cal.daysInMonth y m) :
    Cal.monthOfYday (Cal.isLeap y) (Cal.daysBeforeMonth (Cal.isLeap y) m + d - 1) = m := by
  apply monthOfYday_aux _ _ _ hm (by omega)
  intro h12
  have h := pyOff_next y m hm
  rw [pyOff_spec _ (m + 1) ⟨by omega, by omega⟩] at h
  omega

/-! ### ordinal and week conversion of the two parsers -/

theorem rsOrd_spec (y m d : Int) (hy : 1 ≤ y) (hm : 1 ≤ m ∧ m ≤ 12) (hd : 1 ≤ d ∧ d ≤ Cal.daysInMonth y m) :
    rsOrdToYmd y (Cal.daysBeforeMonth (Cal.isLeap y) m + d) false = .ok (y, m, d) := by
  obtain ⟨hn1, hn2⟩ := doy_range y m d hm hd
  have ha1 : adj1 Rs.days_in_year (Cal.daysBeforeMonth (Cal.isLeap y) m + d) y = (Cal.daysBeforeMonth (Cal.isLeap y) m + d, y) := by
    unfold adj1; rw [if_neg (by omega)]
  have ha : adjust Rs.days_in_year (Cal.daysBeforeMonth (Cal.isLeap y) m + d) y = (Cal.daysBeforeMonth (Cal.isLeap y) m + d, y) := by
    unfold adjust; rw [ha1]; dsimp only; rw [rs_diy y (by omega), if_neg (by omega)]
  unfold rsOrdToYmd rsOrdToYmdG
  rw [if_neg (by omega), ha1, ha]
  dsimp only
  rw [rs_diy y (by omega), if_neg (by omega), rs_leap y (by omega), walk_spec_rs y m d hm hd]

theorem rsIso_spec (y m d : Int) (hm : 1 ≤ m ∧ m ≤ 12) (hd : 1 ≤ d ∧ d ≤ Cal.daysInMonth y m) (hy : 1 ≤ y)
    (hiy : 1 ≤ (Cal.isoCalendar y m d).1) :
    rsIsoToYmd (Cal.isoCalendar y m d).1 (Cal.isoCalendar y m d).2.1 (Cal.isoCalendar y m d).2.2 = .ok (y, m, d) := by
  obtain ⟨w1, w2, w3, d1, d2, _, hadj⟩ := week_core y m d hm hd
  generalize Cal.isoCalendar y m d = iso at *
  obtain ⟨iy, w, wd⟩ := iso
  dsimp only at *
  have hwd : Rs.week_day iy 1 4 = Cal.isoweekday iy 1 4 := by
    rw [Pendulum.Props.C15.rs_week_day_eq iy 1 4 hiy (by omega) (by omega),
      Pendulum.Props.C15.week_day_correct iy 1 4 (by omega)]
  have hlong : w > 52 → Rs.is_long_year iy = true := by
    intro h
    rw [Pendulum.Props.C15.rs_is_long_year_eq iy hiy]
    exact (Pendulum.Props.C15.is_long_year_iff iy).mpr (w3 (by omega))
  have hadj' : adjust Rs.days_in_year (w * 7 + wd - (Cal.isoweekday iy 1 4 + 3)) iy =
      (Cal.daysBeforeMonth (Cal.isLeap y) m + d, y) := by
    rw [adjust_congr Rs.days_in_year diy _ iy (rs_diy _ (by omega)) (rs_diy _ (by omega))]; exact hadj
  unfold rsIsoToYmd
  rw [if_neg (by
    intro h
    rcases h with h | h | ⟨h1, h2⟩
    · omega
    · omega
    · rw [hlong h1] at h2; cases h2)]
  rw [if_neg (by omega), hwd]
  unfold rsOrdToYmd rsOrdToYmdG
  rw [if_neg (by simp), if_neg (by simp), hadj']
  dsimp only
  rw [rs_leap y (by omega), walk_spec_rs y m d hm hd]

theorem pyWeek_spec (y m d : Int) (hm : 1 ≤ m ∧ m ≤ 12) (hd : 1 ≤ d ∧ d ≤ Cal.daysInMonth y m) (hy : 1 ≤ y ∧ y ≤ 9999)
    (w' wd' : Nat) (hw : (w' : Int) = (Cal.isoCalendar y m d).2.1) (hwd : (wd' : Int) = (Cal.isoCalendar y m d).2.2) :
    pyWeek (Cal.isoCalendar y m d).1 w' (some wd') = .ok (y, m, d) := by
  obtain ⟨w1, w2, w3, d1, d2, _, hadj⟩ := week_core y m d hm hd
  generalize Cal.isoCalendar y m d = iso at *
  obtain ⟨iy, w, wd⟩ := iso
  dsimp only at *
  have hwdy : Gen.week_day iy 1 4 = Cal.isoweekday iy 1 4 := Pendulum.Props.C15.week_day_correct iy 1 4 (by omega)
  have hlong : w > 52 → Gen.is_long_year iy = true := fun h => (Pendulum.Props.C15.is_long_year_iff iy).mpr (w3 (by omega))
  have hadj' : adjust Gen.days_in_year (w * 7 + wd - (Cal.isoweekday iy 1 4 + 3)) iy =
      (Cal.daysBeforeMonth (Cal.isLeap y) m + d, y) := by
    rw [adjust_congr Gen.days_in_year diy _ iy (gen_diy _) (gen_diy _)]; exact hadj
  unfold pyWeek
  dsimp only
  rw [hw, hwd]
  rw [if_neg (by
    intro h
    rcases h with h | h | ⟨h1, h2⟩
    · omega
    · omega
    · rw [hlong h1] at h2; cases h2)]
  rw [if_neg (by omega), hwdy, hadj']
  dsimp only
  rw [if_neg (by omega), monthOfYday_spec y m d hm hd]
  congr 3
  omega

end Pendulum.Iso
