import Pendulum.Proofs.Iso
/-! Time-of-day, fraction and offset productions of the ISO parser model (both backends). -/
set_option linter.unusedSimpArgs false
namespace Pendulum.Iso
open Pendulum

/-- what may follow the seconds / fraction: nothing, or the start of a UTC offset -/
def TzStart (tl : List Char) : Prop := tl = [] ∨ ∃ c r, tl = c :: r ∧ (c = 'Z' ∨ c = '+' ∨ c = '-')

theorem more_TzStart {tl : List Char} (h : TzStart tl) : more tl = false := by
  rcases h with h | ⟨c, r, h, hc | hc | hc⟩ <;> subst h <;> try subst hc
  all_goals simp [more]

theorem more_digit (n : Nat) (r : List Char) : more (digitChar (n % 10) :: r) = true := by
  simp [more]
@[simp] theorem more_digits2 (n : Nat) (r : List Char) : more (digits 2 n ++ r) = true := more_digit _ _
@[simp] theorem more_colon (r : List Char) : more (':' :: r) = true := by simp [more]

/-- digit values of a rendering -/
def digitVals : Nat → Nat → List Nat
  | 0, _ => []
  | k+1, n => (n / 10 ^ k % 10) :: digitVals k n

theorem spanD_nodigit (b : Backend) {tl : List Char} (h : TzStart tl) : spanD b tl = ([], tl) := by
  rcases h with h | ⟨c, r, h, hc | hc | hc⟩ <;> subst h <;> try subst hc
  · rfl
  · simp [spanD, (dv_sep b).2.2.2.2.2.2.2.2.1]
  · simp [spanD, (dv_sep b).2.2.2.2.2.2.2.1]
  · simp [spanD, (dv_sep b).1]

theorem spanD_digits (b : Backend) (k n : Nat) (tl : List Char) (h : TzStart tl) :
    spanD b (digits k n ++ tl) = (digitVals k n, tl) := by
  induction k with
  | zero => simpa [digits, digitVals] using spanD_nodigit b h
  | succ k ih => simp [digits, digitVals, spanD, ih]

theorem digitVals_length (k n : Nat) : (digitVals k n).length = k := by
  induction k with
  | zero => rfl
  | succ k ih => simp [digitVals, ih]

/-- the first six fraction digits, zero-padded, are the fraction truncated to microseconds -/
theorem micro_spec (k n : Nat) (hk : 1 ≤ k ∧ k ≤ 9) (hn : n < 10 ^ k) : microAcc 6 0 (digitVals k n) = fracMicros k n := by
  obtain ⟨h1, h2⟩ := hk
  have : k = 1 ∨ k = 2 ∨ k = 3 ∨ k = 4 ∨ k = 5 ∨ k = 6 ∨ k = 7 ∨ k = 8 ∨ k = 9 := by omega
  rcases this with h|h|h|h|h|h|h|h|h <;> subst h <;>
    simp only [digitVals, microAcc, fracMicros, Nat.reducePow] at hn ⊢ <;> omega



/-- a rendered time after its two hour digits -/
def rTail (ext : Bool) (mi s : Nat) : Prec → List Char
  | .h => []
  | .hm => colon ext ++ digits 2 mi
  | .hms => colon ext ++ (digits 2 mi ++ (colon ext ++ digits 2 s))
  | .frac comma k n => colon ext ++ (digits 2 mi ++ (colon ext ++ (digits 2 s ++ ((if comma then ',' else '.') :: digits k n))))

theorem rTime_eq (ext : Bool) (h mi s : Nat) (p : Prec) : rTime ext h mi s p = digits 2 h ++ rTail ext mi s p := by
  cases p <;> simp [rTime, rTail, List.append_assoc]

/-- well-formed precision: fraction of 1..9 digits -/
def PrecOk : Prec → Prop
  | .frac _ k n => 1 ≤ k ∧ k ≤ 9 ∧ n < 10 ^ k
  | _ => True

/-- well-formed offset: hours ≤ 23, minutes ≤ 59 -/
def OffOk : Off → Prop
  | .hh _ h => h ≤ 23
  | .hhmm _ _ h m => h ≤ 23 ∧ m ≤ 59
  | _ => True

theorem rOff_TzStart (o : Off) : TzStart (rOff o) := by
  cases o with
  | naive => left; rfl
  | z => right; exact ⟨'Z', [], rfl, Or.inl rfl⟩
  | hh neg h => right; cases neg <;> simp [rOff, sign]
  | hhmm neg c h m => right; cases neg <;> simp [rOff, sign]

theorem rsFracOpt_none {tl : List Char} (h : TzStart tl) : rsFracOpt tl = .ok (0, tl) := by
  rcases h with h | ⟨c, r, h, hc | hc | hc⟩ <;> subst h <;> try subst hc
  all_goals simp [rsFracOpt]

theorem rsFracOpt_frac (comma : Bool) (k n : Nat) (hk : 1 ≤ k) (tl : List Char) (h : TzStart tl) :
    rsFracOpt ((if comma then ',' else '.') :: (digits k n ++ tl)) = .ok (microAcc 6 0 (digitVals k n), tl) := by
  have hne : (digitVals k n).isEmpty = false := by
    cases k with
    | zero => omega
    | succ k => rfl
  cases comma <;> simp [rsFracOpt, spanD_digits _ _ _ _ h, hne]

/-- minute / second / fraction of a rendered time, compiled parser: `dateExt` is the format of the preceding date -/
theorem rsMinSec_spec (hasDate dateExt ext : Bool) (mi s : Nat) (p : Prec) (hmi : mi < 100) (hs : s < 100) (hp : PrecOk p)
    (hc : hasDate = true → dateExt = ext) (tl : List Char) (ht : TzStart tl) :
    rsMinSec hasDate dateExt (rTail ext mi s p ++ tl) =
      .ok ((precFields mi s p).1, (precFields mi s p).2.1, (precFields mi s p).2.2, tl) := by
  have hm := more_TzStart ht
  have hb1 : ext = true → (hasDate && !dateExt) = false := by
    intro h; subst h; cases hasDate <;> simp_all
  have hb2 : ext = false → (hasDate && dateExt) = false := by
    intro h; subst h; cases hasDate <;> simp_all
  cases p with
  | h => simp [rTail, rsMinSec, hm, precFields]
  | hm =>
    cases ext
    · simp [rTail, colon, rsMinSec, hm, precFields, exactN2 _ _ _ hmi, hb2 rfl]
    · simp [rTail, colon, rsMinSec, hm, precFields, exactN2 _ _ _ hmi]
  | hms =>
    cases ext
    · simp [rTail, colon, rsMinSec, rsSecFrac, hm, precFields, exactN2 _ _ _ hmi, exactN2 _ _ _ hs, hb2 rfl, rsFracOpt_none ht]
    · simp [rTail, colon, rsMinSec, rsSecFrac, hm, precFields, exactN2 _ _ _ hmi, exactN2 _ _ _ hs, hb1 rfl, rsFracOpt_none ht]
  | frac comma k n =>
    obtain ⟨k1, k2, hn⟩ := hp
    cases ext
    · simp [rTail, colon, rsMinSec, rsSecFrac, hm, precFields, exactN2 _ _ _ hmi, exactN2 _ _ _ hs, hb2 rfl,
        rsFracOpt_frac comma k n k1 tl ht, micro_spec k n ⟨k1, k2⟩ hn]
    · simp [rTail, colon, rsMinSec, rsSecFrac, hm, precFields, exactN2 _ _ _ hmi, exactN2 _ _ _ hs, hb1 rfl,
        rsFracOpt_frac comma k n k1 tl ht, micro_spec k n ⟨k1, k2⟩ hn]


theorem exactN2_nil (b : Backend) (n : Nat) (h : n < 100) : exactN b 2 0 (digits 2 n) = some (n, []) := by
  have := exactN2 b n [] h; rwa [List.append_nil] at this

@[simp] theorem digits2_isEmpty (n : Nat) : (digits 2 n).isEmpty = false := rfl
@[simp] theorem digits2_app_isEmpty (n : Nat) (r : List Char) : (digits 2 n ++ r).isEmpty = false := rfl

@[simp] theorem optColon_digits2_nil (n : Nat) : optChar ':' (digits 2 n) = (false, digits 2 n) :=
  optChar_digit _ _ _ (digitChar_ne _).2.1
@[simp] theorem digits2_ne_nil (n : Nat) : (digits 2 n = []) = False := by simp [digits]

theorem rsTz_spec (o : Off) (ho : OffOk o) : rsTz (rOff o) = .ok (offSeconds o, []) := by
  cases o with
  | naive => rfl
  | z => simp [rOff, rsTz, offSeconds]
  | hh neg h =>
    have hh : h < 100 := by simp [OffOk] at ho; omega
    have h23 : h ≤ 23 := ho
    cases neg <;> simp [rOff, sign, rsTz, exactN2_nil _ _ hh, rsTzFin, offSeconds] <;>
      (rw [if_neg (by omega)]; congr 3; omega)
  | hhmm neg c h m =>
    obtain ⟨h23, m59⟩ := ho
    have hh : h < 100 := by omega
    have hm : m < 100 := by omega
    cases neg <;> cases c <;>
      simp [rOff, sign, colon, rsTz, exactN2 _ _ _ hh, exactN2_nil _ _ hm, rsTzFin, offSeconds] <;>
      (rw [if_neg (by omega)]; congr 3; omega)



/-- well-formed clock fields as rendered (two digits each) -/
def HmsOk (h mi s : Nat) : Prop := h < 100 ∧ mi < 100 ∧ s < 100

theorem rsTime_spec (hasDate dateExt ext : Bool) (sep : Char) (hsep : sep = 'T' ∨ sep = ' ') (h mi s : Nat) (p : Prec) (o : Off)
    (hb : HmsOk h mi s) (hp : PrecOk p) (ho : OffOk o) (hc : hasDate = true → dateExt = ext) :
    rsTime hasDate dateExt none (sep :: (rTime ext h mi s p ++ rOff o)) =
      .ok (⟨h, (precFields mi s p).1, (precFields mi s p).2.1, (precFields mi s p).2.2, offSeconds o⟩, []) := by
  obtain ⟨hh, hmi, hs⟩ := hb
  unfold rsTime
  simp only [hsep, if_true, rTime_eq, List.append_assoc, exactN2 _ _ _ hh,
    rsMinSec_spec hasDate dateExt ext mi s p hmi hs hp hc _ (rOff_TzStart o), rsTz_spec o ho]

/-- a bare extended time `hh:mm…`: the compiled parser has read `hh` as the first half of a year -/
theorem rsTime_skip_spec (h mi s : Nat) (p : Prec) (o : Off) (hb : HmsOk h mi s) (hp : PrecOk p) (ho : OffOk o) :
    rsTime false true (some h) (rTail true mi s p ++ rOff o) =
      .ok (⟨h, (precFields mi s p).1, (precFields mi s p).2.1, (precFields mi s p).2.2, offSeconds o⟩, []) := by
  obtain ⟨hh, hmi, hs⟩ := hb
  unfold rsTime
  simp only [rsMinSec_spec false true true mi s p hmi hs hp (by simp) _ (rOff_TzStart o), rsTz_spec o ho]

end Pendulum.Iso
