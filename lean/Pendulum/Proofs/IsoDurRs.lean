import Pendulum.Proofs.IsoDur
/-! C13: the Rust state machine (`rsFold`) accepts exactly the well-formed token sequences and adds the
components up exactly (`rs_good`, `rs_sound`). -/
namespace Pendulum.IsoDur

def noItem : List Tok → Prop
  | [] => True
  | .T :: ts => noItem ts
  | .item _ :: _ => False

/-- position of a designator in `PnYnMnDTnHnMnS` (W = 8 stands alone), 0 = not a designator of the section -/
def rankOf (gotT : Bool) (u : Char) : Nat :=
  if gotT then (if u = 'H' then 5 else if u = 'M' then 6 else if u = 'S' then 7 else 0)
  else (if u = 'Y' then 1 else if u = 'M' then 2 else if u = 'W' then 8 else if u = 'D' then 3 else 0)

def unitUs (r : Nat) : Nat :=
  if r = 3 then usD else if r = 5 then usH else if r = 6 then usMi else if r = 7 then usS
  else if r = 8 then usW else 0

/-- exact length of a component rounded to the microsecond -/
def itemUs (r : Nat) (i : Item) : Nat :=
  i.int * unitUs r + (match i.frac with | some f => fracUs f (unitUs r) | none => 0)

/-- the token sequences of well-formed durations (what both parsers accept, numbers below 2^64 - 1) -/
def Good (last : Nat) (gotT : Bool) : List Tok → Prop
  | [] => True
  | .T :: ts => gotT = false ∧ last ≤ 3 ∧ Good 4 true ts
  | .item i :: ts =>
    rankOf gotT i.unit ≠ 0 ∧ last < rankOf gotT i.unit ∧ (rankOf gotT i.unit = 8 → last = 0) ∧
    i.int + 1 < 2 ^ 64 ∧
    (∀ f, i.frac = some f → 3 ≤ rankOf gotT i.unit ∧ (∀ d ∈ f, d < 10) ∧ noItem ts) ∧
    Good (rankOf gotT i.unit) gotT ts

def yOf (gotT : Bool) : List Tok → Nat
  | [] => 0
  | .T :: ts => yOf true ts
  | .item i :: ts => (if rankOf gotT i.unit = 1 then i.int else 0) + yOf gotT ts

def moOf (gotT : Bool) : List Tok → Nat
  | [] => 0
  | .T :: ts => moOf true ts
  | .item i :: ts => (if rankOf gotT i.unit = 2 then i.int else 0) + moOf gotT ts

def usOf (gotT : Bool) : List Tok → Nat
  | [] => 0
  | .T :: ts => usOf true ts
  | .item i :: ts => (if 3 ≤ rankOf gotT i.unit then itemUs (rankOf gotT i.unit) i else 0) + usOf gotT ts

structure Inv (st : RsState) : Prop where
  y0 : st.last < 1 → st.p.y = 0
  mo0 : st.last < 2 → st.p.mo = 0
  w0 : st.last = 0 → st.p.w = 0
  d0 : st.last < 3 → st.p.d = 0
  h0 : st.last < 5 → st.p.h = 0
  mi0 : st.last < 6 → st.p.mi = 0
  s0 : st.last < 7 → st.p.s = 0
  bd : st.p.d < 2 ^ 64
  bh : st.p.h < 2 ^ 64
  bmi : st.p.mi < 2 ^ 64
  bs : st.p.s < 2 ^ 64

theorem rsFrac_none (i : Item) (U : Nat) (p : Parsed) (h : i.frac = none) : rsFrac i U p = .ok p := by
  simp [rsFrac, h]

theorem rsFrac_some (i : Item) (U : Nat) (p : Parsed) (f : List Nat) (h : i.frac = some f)
    (hb : p.d + fracUs f U / usD < 2 ^ 64 ∧ p.h + fracUs f U % usD / usH < 2 ^ 64 ∧
      p.mi + fracUs f U % usD % usH / usMi < 2 ^ 64 ∧ p.s + fracUs f U % usD % usH % usMi / usS < 2 ^ 64) :
    rsFrac i U p = .ok (p.addMicros (fracUs f U)) := by
  simp only [rsFrac, h, fracUsRs_eq]
  have : ¬ ((p.addMicros (fracUs f U)).d ≥ 2 ^ 64 ∨ (p.addMicros (fracUs f U)).h ≥ 2 ^ 64 ∨
      (p.addMicros (fracUs f U)).mi ≥ 2 ^ 64 ∨ (p.addMicros (fracUs f U)).s ≥ 2 ^ 64) := by
    simp only [Parsed.addMicros]; omega
  simp [this]


def fracPart (i : Item) (U : Nat) : Nat :=
  match i.frac with | some f => fracUs f U | none => 0

theorem arm (st : RsState) (i : Item) (U r : Nat) (p0 : Parsed)
    (hfr : ∀ f, i.frac = some f → ∀ d ∈ f, d < 10)
    (hb : ∀ m, m ≤ U → p0.d + m / usD < 2 ^ 64 ∧ p0.h + m % usD / usH < 2 ^ 64 ∧
      p0.mi + m % usD % usH / usMi < 2 ^ 64 ∧ p0.s + m % usD % usH % usMi / usS < 2 ^ 64) :
    ∃ p1, rsDone st i.frac.isSome r (rsFrac i U p0) = .ok { st with lastFrac := i.frac.isSome, last := r, p := p1 } ∧
      p1.restUs = p0.restUs + fracPart i U ∧ p1.y = p0.y ∧ p1.mo = p0.mo ∧ p1.w = p0.w ∧
      (i.frac = none → p1 = p0) := by
  cases hf : i.frac with
  | none =>
    refine ⟨p0, ?_, ?_, rfl, rfl, rfl, fun _ => rfl⟩
    · simp [rsFrac_none i U p0 hf, rsDone]
    · simp [fracPart, hf]
  | some f =>
    have hle := fracUs_le f U (hfr f hf)
    refine ⟨p0.addMicros (fracUs f U), ?_, ?_, rfl, rfl, rfl, fun h => by simp at h⟩
    · simp [rsFrac_some i U p0 f hf (hb _ hle), rsDone]
    · simp [fracPart, hf, addMicros_restUs]


theorem rsStep_good (st : RsState) (i : Item) (hlf : st.lastFrac = false) (inv : Inv st)
    (hr0 : rankOf st.gotT i.unit ≠ 0) (hlt : st.last < rankOf st.gotT i.unit)
    (hw : rankOf st.gotT i.unit = 8 → st.last = 0) (hint : i.int + 1 < 2 ^ 64)
    (hfr : ∀ f, i.frac = some f → 3 ≤ rankOf st.gotT i.unit ∧ ∀ d ∈ f, d < 10) :
    ∃ st1, rsStep st (.item i) = .ok st1 ∧ st1.gotT = st.gotT ∧ st1.last = rankOf st.gotT i.unit ∧
      st1.lastFrac = i.frac.isSome ∧
      st1.p.y = st.p.y + (if rankOf st.gotT i.unit = 1 then i.int else 0) ∧
      st1.p.mo = st.p.mo + (if rankOf st.gotT i.unit = 2 then i.int else 0) ∧
      st1.p.restUs = st.p.restUs +
        (if 3 ≤ rankOf st.gotT i.unit then itemUs (rankOf st.gotT i.unit) i else 0) ∧
      (i.frac = none → Inv st1) := by
  have hint' : ¬ (i.int ≥ 2 ^ 64) := by omega
  have hfd : ∀ f, i.frac = some f → ∀ d ∈ f, d < 10 := fun f hf => (hfr f hf).2
  obtain ⟨y0, mo0, w0, d0, h0, mi0, s0, bd, bh, bmi, bs⟩ := inv
  cases hg : st.gotT with
  | true =>
    simp only [hg, rankOf, if_true] at hr0 hlt hw hfr ⊢
    by_cases hH : i.unit = 'H'
    · simp only [hH, if_true] at hlt hfr hw ⊢
      obtain ⟨p1, e, hrest, hy, hmo, hw1, hnone⟩ := arm st i usH 5 { st.p with h := st.p.h + i.int } hfd
        (by intro m hm; simp only [usW, usH, usD, usMi, usS] at *; (try dsimp only); omega)
      dsimp only at hrest hy hmo hw1 hnone
      refine ⟨{ st with lastFrac := i.frac.isSome, last := 5, p := p1 },
        by simp [rsStep, hint', hlf, hg, hH, show ¬ st.last ≥ 5 by omega, e], by simp [hg], rfl, rfl, ?_, ?_, ?_, ?_⟩
      · show p1.y = _
        simp [hy]
      · show p1.mo = _
        simp [hmo]
      · show p1.restUs = _
        rw [hrest]
        simp only [itemUs, unitUs, fracPart, Parsed.restUs, usW, usD, usH, usMi, usS]
        simp
        omega
      · intro hn
        have := hnone hn; subst this
        constructor <;> dsimp only <;> omega
    · by_cases hM : i.unit = 'M'
      · simp only [hM, if_true, show ¬ ('M' = 'H') by decide, if_false] at hlt hfr hw ⊢
        obtain ⟨p1, e, hrest, hy, hmo, hw1, hnone⟩ := arm st i usMi 6 { st.p with mi := st.p.mi + i.int } hfd
          (by intro m hm; simp only [usW, usH, usD, usMi, usS] at *; (try dsimp only); omega)
        dsimp only at hrest hy hmo hw1 hnone
        refine ⟨{ st with lastFrac := i.frac.isSome, last := 6, p := p1 },
          by simp [rsStep, hint', hlf, hg, hM, show ¬ st.last ≥ 6 by omega, e], by simp [hg], rfl, rfl, ?_, ?_, ?_, ?_⟩
        · show p1.y = _
          simp [hy]
        · show p1.mo = _
          simp [hmo]
        · show p1.restUs = _
          rw [hrest]
          simp only [itemUs, unitUs, fracPart, Parsed.restUs, usW, usD, usH, usMi, usS]
          simp
          omega
        · intro hn
          have := hnone hn; subst this
          constructor <;> dsimp only <;> omega
      · by_cases hS : i.unit = 'S'
        · simp only [hS, if_true, show ¬ ('S' = 'H') by decide, show ¬ ('S' = 'M') by decide, if_false] at hlt hfr hw ⊢
          obtain ⟨p1, e, hrest, hy, hmo, hw1, hnone⟩ := arm st i usS 7 { st.p with s := i.int } hfd
            (by intro m hm; simp only [usW, usH, usD, usMi, usS] at *; (try dsimp only); omega)
          dsimp only at hrest hy hmo hw1 hnone
          refine ⟨{ st with lastFrac := i.frac.isSome, last := 7, p := p1 },
            by simp [rsStep, hint', hlf, hg, hS, show ¬ st.last ≥ 7 by omega, e], by simp [hg], rfl, rfl, ?_, ?_, ?_, ?_⟩
          · show p1.y = _
            simp [hy]
          · show p1.mo = _
            simp [hmo]
          · show p1.restUs = _
            rw [hrest]
            simp only [itemUs, unitUs, fracPart, Parsed.restUs, usW, usD, usH, usMi, usS]
            simp
            omega
          · intro hn
            have := hnone hn; subst this
            constructor <;> dsimp only <;> omega
        · simp [hH, hM, hS] at hr0
  | false =>
    simp only [hg, rankOf, Bool.false_eq_true, if_false] at hr0 hlt hw hfr ⊢
    by_cases hY : i.unit = 'Y'
    · simp only [hY, if_true] at hlt hfr hw ⊢
      have hnf : i.frac = none := by
        cases hf : i.frac with
        | none => rfl
        | some f => have := (hfr f hf).1; omega
      refine ⟨{ st with lastFrac := false, last := 1, p := { st.p with y := i.int } },
        by simp [rsStep, rsDone, hint', hlf, hg, hY, hnf, show ¬ st.last ≥ 1 by omega], by simp [hg], rfl, by simp [hnf], ?_, ?_, ?_, ?_⟩
      · dsimp only; simp <;> omega
      · dsimp only; simp <;> omega
      · simp only [Parsed.restUs]; simp
      · intro _
        constructor <;> dsimp only <;> omega
    · by_cases hM : i.unit = 'M'
      · simp only [hM, if_true, show ¬ ('M' = 'Y') by decide, if_false] at hlt hfr hw ⊢
        have hnf : i.frac = none := by
          cases hf : i.frac with
          | none => rfl
          | some f => have := (hfr f hf).1; omega
        refine ⟨{ st with lastFrac := false, last := 2, p := { st.p with mo := i.int } },
          by simp [rsStep, rsDone, hint', hlf, hg, hM, hnf, show ¬ st.last ≥ 2 by omega], by simp [hg], rfl, by simp [hnf], ?_, ?_, ?_, ?_⟩
        · dsimp only; simp <;> omega
        · dsimp only; simp <;> omega
        · simp only [Parsed.restUs]; simp
        · intro _
          constructor <;> dsimp only <;> omega
      · by_cases hW : i.unit = 'W'
        · simp only [hW, if_true, show ¬ ('W' = 'Y') by decide, show ¬ ('W' = 'M') by decide, if_false] at hlt hfr hw ⊢
          have hl0 : st.last = 0 := by simpa using hw
          obtain ⟨p1, e, hrest, hy, hmo, hw1, hnone⟩ := arm st i usW 8 { st.p with w := i.int } hfd
            (by intro m hm; simp only [usW, usH, usD, usMi, usS] at *; (try dsimp only); omega)
          dsimp only at hrest hy hmo hw1 hnone
          refine ⟨{ st with lastFrac := i.frac.isSome, last := 8, p := p1 },
            by simp [rsStep, hint', hlf, hg, hW, hl0, e], by simp [hg], rfl, rfl, ?_, ?_, ?_, ?_⟩
          · show p1.y = _
            simp [hy]
          · show p1.mo = _
            simp [hmo]
          · show p1.restUs = _
            rw [hrest]
            simp only [itemUs, unitUs, fracPart, Parsed.restUs, usW, usD, usH, usMi, usS]
            simp
            omega
          · intro hn
            have := hnone hn; subst this
            constructor <;> dsimp only <;> omega
        · by_cases hD : i.unit = 'D'
          · simp only [hD, if_true, show ¬ ('D' = 'Y') by decide, show ¬ ('D' = 'M') by decide,
              show ¬ ('D' = 'W') by decide, if_false] at hlt hfr hw ⊢
            obtain ⟨p1, e, hrest, hy, hmo, hw1, hnone⟩ := arm st i usD 3 { st.p with d := st.p.d + i.int } hfd
              (by intro m hm; simp only [usW, usH, usD, usMi, usS] at *; (try dsimp only); omega)
            dsimp only at hrest hy hmo hw1 hnone
            refine ⟨{ st with lastFrac := i.frac.isSome, last := 3, p := p1 },
              by simp [rsStep, hint', hlf, hg, hD, show ¬ st.last ≥ 3 by omega, e], by simp [hg], rfl, rfl, ?_, ?_, ?_, ?_⟩
            · show p1.y = _
              simp [hy]
            · show p1.mo = _
              simp [hmo]
            · show p1.restUs = _
              rw [hrest]
              simp only [itemUs, unitUs, fracPart, Parsed.restUs, usW, usD, usH, usMi, usS]
              simp
              omega
            · intro hn
              have := hnone hn; subst this
              constructor <;> dsimp only <;> omega
          · simp [hY, hM, hW, hD] at hr0


theorem rs_noItem (ts : List Tok) (st : RsState) (hn : noItem ts) (hg : Good st.last st.gotT ts) :
    ∃ st', rsFold st ts = .ok st' ∧ st'.p = st.p := by
  cases ts with
  | nil => exact ⟨st, rfl, rfl⟩
  | cons t ts =>
    cases t with
    | item i => exact absurd hn (by simp [noItem])
    | T =>
      obtain ⟨h1, h2, h3⟩ := hg
      cases ts with
      | nil =>
        refine ⟨{ st with gotT := true, last := 4 }, ?_, rfl⟩
        simp [rsFold, rsStep, h1, show ¬ st.last > 3 by omega]
      | cons t2 ts2 =>
        cases t2 with
        | item i => exact absurd hn (by simp [noItem])
        | T => exact absurd h3.1 (by simp)

theorem noItem_sums (ts : List Tok) (hn : noItem ts) (g : Bool) :
    yOf g ts = 0 ∧ moOf g ts = 0 ∧ usOf g ts = 0 := by
  induction ts generalizing g with
  | nil => simp [yOf, moOf, usOf]
  | cons t ts ih =>
    cases t with
    | item i => exact absurd hn (by simp [noItem])
    | T => simpa [yOf, moOf, usOf] using ih hn true

/-- **the Rust loop on a well-formed token sequence**: it succeeds and the components add up exactly -/
theorem rs_good (ts : List Tok) : ∀ (st : RsState), st.lastFrac = false → Inv st → Good st.last st.gotT ts →
    ∃ st', rsFold st ts = .ok st' ∧ st'.p.y = st.p.y + yOf st.gotT ts ∧ st'.p.mo = st.p.mo + moOf st.gotT ts ∧
      st'.p.restUs = st.p.restUs + usOf st.gotT ts := by
  induction ts with
  | nil => intro st _ _ _; exact ⟨st, rfl, by simp [yOf], by simp [moOf], by simp [usOf]⟩
  | cons t ts ih =>
    intro st hlf inv hg
    cases t with
    | T =>
      obtain ⟨h1, h2, h3⟩ := hg
      have inv1 : Inv { st with gotT := true, last := 4 } := by
        obtain ⟨y0, mo0, w0, d0, h0, mi0, s0, bd, bh, bmi, bs⟩ := inv
        constructor <;> dsimp only <;> omega
      obtain ⟨st', e, hy, hmo, hus⟩ := ih { st with gotT := true, last := 4 } hlf inv1 h3
      refine ⟨st', ?_, ?_, ?_, ?_⟩
      · simp [rsFold, rsStep, h1, show ¬ st.last > 3 by omega, e]
      · simpa [yOf, h1] using hy
      · simpa [moOf, h1] using hmo
      · simpa [usOf, h1] using hus
    | item i =>
      obtain ⟨h1, h2, h3, h4, h5, h6⟩ := hg
      obtain ⟨st1, e1, hg1, hl1, hf1, hy1, hmo1, hus1, hinv1⟩ :=
        rsStep_good st i hlf inv h1 h2 h3 h4 (fun f hf => ⟨(h5 f hf).1, (h5 f hf).2.1⟩)
      have h6' : Good st1.last st1.gotT ts := by rw [hl1, hg1]; exact h6
      cases hfr : i.frac with
      | none =>
        have hlf1 : st1.lastFrac = false := by simp [hf1, hfr]
        obtain ⟨st', e, hy, hmo, hus⟩ := ih st1 hlf1 (hinv1 hfr) h6'
        refine ⟨st', by simp [rsFold, e1, e], ?_, ?_, ?_⟩
        · simp only [yOf]; rw [hy, hy1, hg1]; omega
        · simp only [moOf]; rw [hmo, hmo1, hg1]; omega
        · simp only [usOf]; rw [hus, hus1, hg1]; omega
      | some f =>
        have hn := (h5 f hfr).2.2
        obtain ⟨st', e, hp⟩ := rs_noItem ts st1 hn h6'
        obtain ⟨z1, z2, z3⟩ := noItem_sums ts hn st.gotT
        refine ⟨st', by simp [rsFold, e1, e], ?_, ?_, ?_⟩
        · simp only [yOf]; rw [hp, hy1, z1]; omega
        · simp only [moOf]; rw [hp, hmo1, z2]; omega
        · simp only [usOf]; rw [hp, hus1, z3]; omega


/-! ### the exact value: integer part + one rounded fraction -/

/-- length of the integer parts of the D/H/M/S/W components, in µs -/
def intUs (g : Bool) : List Tok → Nat
  | [] => 0
  | .T :: ts => intUs true ts
  | .item i :: ts => (if 3 ≤ rankOf g i.unit then i.int * unitUs (rankOf g i.unit) else 0) + intUs g ts

/-- the (first) fraction: its digits and the length of its unit in µs -/
def fracOf (g : Bool) : List Tok → Option (List Nat × Nat)
  | [] => none
  | .T :: ts => fracOf true ts
  | .item i :: ts => match i.frac with
    | some f => some (f, unitUs (rankOf g i.unit))
    | none => fracOf g ts

theorem noItem_intUs (ts : List Tok) (hn : noItem ts) (g : Bool) : intUs g ts = 0 := by
  induction ts generalizing g with
  | nil => rfl
  | cons t ts ih =>
    cases t with
    | item i => exact absurd hn (by simp [noItem])
    | T => simpa [intUs] using ih hn true

theorem usOf_split (ts : List Tok) : ∀ l g, Good l g ts →
    usOf g ts = intUs g ts + (match fracOf g ts with | some (f, U) => fracUs f U | none => 0) := by
  induction ts with
  | nil => intro _ _ _; rfl
  | cons t ts ih =>
    intro l g h
    cases t with
    | T => simpa [usOf, intUs, fracOf] using ih _ _ h.2.2
    | item i =>
      obtain ⟨a, b, c, d, e, f⟩ := h
      cases hfr : i.frac with
      | none =>
        have := ih _ _ f
        simp only [usOf, intUs, fracOf, hfr, itemUs, this]
        split <;> omega
      | some fr =>
        obtain ⟨h3, _, hn⟩ := e fr hfr
        have z := (noItem_sums ts hn g).2.2
        have z2 := noItem_intUs ts hn g
        simp only [usOf, intUs, fracOf, hfr, itemUs, z, z2, h3, if_true]
        omega

/-! ### what the Rust loop accepts is ordered and has its fraction on the last component -/

def Ordered (last : Nat) (gotT : Bool) : List Tok → Prop
  | [] => True
  | .T :: ts => gotT = false ∧ last ≤ 3 ∧ Ordered 4 true ts
  | .item i :: ts =>
    rankOf gotT i.unit ≠ 0 ∧ last < rankOf gotT i.unit ∧ (rankOf gotT i.unit = 8 → last = 0) ∧
    Ordered (rankOf gotT i.unit) gotT ts

def FracOk (gotT : Bool) : List Tok → Prop
  | [] => True
  | .T :: ts => FracOk true ts
  | .item i :: ts => (i.frac.isSome → 3 ≤ rankOf gotT i.unit ∧ noItem ts) ∧ FracOk gotT ts

theorem fracOk_of_noItem (ts : List Tok) (hn : noItem ts) (g : Bool) : FracOk g ts := by
  induction ts generalizing g with
  | nil => trivial
  | cons t ts ih =>
    cases t with
    | item i => exact absurd hn (by simp [noItem])
    | T => exact ih hn true

theorem rsDone_ok {st st1 : RsState} {lf : Bool} {r : Nat} {x : Except Kind Parsed}
    (h : rsDone st lf r x = .ok st1) : st1.last = r ∧ st1.gotT = st.gotT ∧ st1.lastFrac = lf := by
  unfold rsDone at h
  split at h
  · injection h with h; subst h; exact ⟨rfl, rfl, rfl⟩
  · cases h

theorem rsStep_inv (st st1 : RsState) (i : Item) (h : rsStep st (.item i) = .ok st1) :
    st.lastFrac = false ∧ rankOf st.gotT i.unit ≠ 0 ∧ st.last < rankOf st.gotT i.unit ∧
    (rankOf st.gotT i.unit = 8 → st.last = 0) ∧ st1.last = rankOf st.gotT i.unit ∧ st1.gotT = st.gotT ∧
    st1.lastFrac = i.frac.isSome ∧ (i.frac.isSome = true → 3 ≤ rankOf st.gotT i.unit) := by
  unfold rsStep at h
  by_cases h1 : i.int ≥ 2 ^ 64
  · simp [h1] at h
  by_cases h2 : st.lastFrac = true
  · simp [h1, h2] at h
  have h2' : st.lastFrac = false := by simpa using h2
  simp only [h1, h2, if_false] at h
  cases hg : st.gotT with
  | true =>
    simp only [hg, if_true] at h
    simp only [rankOf, if_true]
    by_cases hH : i.unit = 'H'
    · simp only [hH, if_true] at h ⊢
      by_cases hc : st.last ≥ 5
      · simp [hc] at h
      · simp only [hc, if_false] at h
        obtain ⟨a, b, c⟩ := rsDone_ok h
        exact ⟨h2', by decide, by omega, fun h8 => absurd h8 (by decide), a, by simp [b, hg], c, fun _ => by decide⟩
    · by_cases hM : i.unit = 'M'
      · simp only [hM, show ¬ ('M' = 'H') by decide, if_true, if_false] at h ⊢
        by_cases hc : st.last ≥ 6
        · simp [hc] at h
        · simp only [hc, if_false] at h
          obtain ⟨a, b, c⟩ := rsDone_ok h
          exact ⟨h2', by decide, by omega, fun h8 => absurd h8 (by decide), a, by simp [b, hg], c, fun _ => by decide⟩
      · by_cases hS : i.unit = 'S'
        · simp only [hS, show ¬ ('S' = 'H') by decide, show ¬ ('S' = 'M') by decide, if_true, if_false] at h ⊢
          by_cases hc : st.last ≥ 7
          · simp [hc] at h
          · simp only [hc, if_false] at h
            obtain ⟨a, b, c⟩ := rsDone_ok h
            exact ⟨h2', by decide, by omega, fun h8 => absurd h8 (by decide), a, by simp [b, hg], c, fun _ => by decide⟩
        · simp [hH, hM, hS] at h
  | false =>
    simp only [hg, Bool.false_eq_true, if_false] at h
    simp only [rankOf, Bool.false_eq_true, if_false]
    by_cases hY : i.unit = 'Y'
    · simp only [hY, if_true] at h ⊢
      cases hf : i.frac.isSome with
      | true => simp [hf] at h
      | false =>
        simp only [hf, Bool.false_eq_true, if_false] at h
        by_cases hc : st.last ≥ 1
        · simp [hc] at h
        · simp only [hc, if_false] at h
          obtain ⟨a, b, c⟩ := rsDone_ok h
          exact ⟨h2', by decide, by omega, fun h8 => absurd h8 (by decide), a, by simp [b, hg], c, fun x => by simp at x⟩
    · by_cases hM : i.unit = 'M'
      · simp only [hM, show ¬ ('M' = 'Y') by decide, if_true, if_false] at h ⊢
        cases hf : i.frac.isSome with
        | true => simp [hf] at h
        | false =>
          simp only [hf, Bool.false_eq_true, if_false] at h
          by_cases hc : st.last ≥ 2
          · simp [hc] at h
          · simp only [hc, if_false] at h
            obtain ⟨a, b, c⟩ := rsDone_ok h
            exact ⟨h2', by decide, by omega, fun h8 => absurd h8 (by decide), a, by simp [b, hg], c, fun x => by simp at x⟩
      · by_cases hW : i.unit = 'W'
        · simp only [hW, show ¬ ('W' = 'Y') by decide, show ¬ ('W' = 'M') by decide, if_true, if_false] at h ⊢
          by_cases hc : st.last ≠ 0
          · simp [hc] at h
          · simp only [hc, if_false] at h
            obtain ⟨a, b, c⟩ := rsDone_ok h
            exact ⟨h2', by decide, by omega, fun _ => by omega, a, by simp [b, hg], c, fun _ => by decide⟩
        · by_cases hD : i.unit = 'D'
          · simp only [hD, show ¬ ('D' = 'Y') by decide, show ¬ ('D' = 'M') by decide,
              show ¬ ('D' = 'W') by decide, if_true, if_false] at h ⊢
            by_cases hc : st.last ≥ 3
            · simp only [hc, if_true] at h
              split at h <;> cases h
            · simp only [hc, if_false] at h
              obtain ⟨a, b, c⟩ := rsDone_ok h
              exact ⟨h2', by decide, by omega, fun h8 => absurd h8 (by decide), a, by simp [b, hg], c, fun _ => by decide⟩
          · simp [hY, hM, hW, hD] at h

theorem rs_sound (ts : List Tok) : ∀ (st st' : RsState), rsFold st ts = .ok st' →
    Ordered st.last st.gotT ts ∧ (st.lastFrac = true → noItem ts) ∧ (st.lastFrac = false → FracOk st.gotT ts) := by
  induction ts with
  | nil => intro st st' _; exact ⟨trivial, fun _ => trivial, fun _ => trivial⟩
  | cons t ts ih =>
    intro st st' h
    simp only [rsFold] at h
    split at h
    next st1 e1 =>
      have ih1 := ih st1 st' h
      cases t with
      | T =>
        simp only [rsStep] at e1
        by_cases hg : st.gotT = true
        · simp [hg] at e1
        by_cases hl : st.last > 3
        · simp [hg, hl] at e1
        simp only [hg, hl, if_false] at e1
        injection e1 with e1; subst e1
        have hg' : st.gotT = false := by simpa using hg
        exact ⟨⟨hg', by omega, ih1.1⟩, fun h => ih1.2.1 h, fun h => by simpa [FracOk] using ih1.2.2 h⟩
      | item i =>
        obtain ⟨a, b, c, d, e, f, g, k⟩ := rsStep_inv st st1 i e1
        rw [e, f] at ih1
        refine ⟨⟨b, c, d, ih1.1⟩, fun h => by simp [a] at h, fun _ => ⟨fun hs => ⟨k hs, ih1.2.1 (by rw [g, hs])⟩, ?_⟩⟩
        cases hfr : i.frac.isSome with
        | false => exact ih1.2.2 (by rw [g, hfr])
        | true =>
          have hn := ih1.2.1 (by rw [g, hfr])
          exact fracOk_of_noItem ts hn _
    next => cases h

end Pendulum.IsoDur
