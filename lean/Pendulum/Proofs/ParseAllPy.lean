import Pendulum.Proofs.ParseAllRs
/-! C17, pure-Python parser and the COMMON fallback: every failure is a `ValueError` kind. The `int(None)` branch of
`_parse_common` (`cmBuild`, `other "TypeError"`) is unreachable because the `minute` group of the repaired regular expression
is not optional: whenever `cmTimeMatch` succeeds the minute is present. -/
namespace Pendulum.ParseAll
open Pendulum Pendulum.Iso

theorem pyWeek_VE (y w : Int) (wd : Option Nat) : VE (pyWeek y w wd) := by
  intro k h
  unfold pyWeek at h
  simp only at h
  repeat' split at h
  all_goals first | (cases h; exact Or.inl rfl) | cases h

theorem pyDateFields_VE (g : PyD) : VE (pyDateFields g) := by
  intro k h
  cases g with
  | nodate => cases h
  | year y => cases h
  | ym y ms mo => cases h
  | ymd y ms mo ds len d =>
    simp only [pyDateFields] at h
    by_cases c1 : ds = false ∧ len = 1
    · simp only [if_pos c1] at h
      by_cases c2 : (mo : Int) * 10 + (d : Int) > pyOff (Gen.is_leap (y : Int)) 13
      · simp only [if_pos c2] at h; cases h; exact Or.inl rfl
      · simp only [if_neg c2] at h
        split at h <;> cases h
    · simp only [if_neg c1] at h; cases h
  | week y ws w wds wd =>
    simp only [pyDateFields] at h
    repeat' split at h
    all_goals first | (cases h; exact Or.inl rfl) | cases h

theorem pyTzOffset_VE (t : Option PyTz) : VE (pyTzOffset t) := by
  intro k h
  unfold pyTzOffset at h
  repeat' split at h
  all_goals first | (cases h; exact Or.inr rfl) | cases h

theorem pyTimeFields_VE (t : PyT) : VE (pyTimeFields t) := by
  intro k h
  unfold pyTimeFields at h
  simp only at h
  repeat' split at h
  all_goals first
    | (cases h; exact Or.inl rfl)
    | (rename_i heq; cases h; exact pyTzOffset_VE _ k heq)
    | cases h

/-- the pure-Python date/time parser fails only with `ValueError` kinds on strings that do not start with `P` -/
theorem pyParse_VE (cs : List Char) (hP : cs.head? ≠ some 'P') : VE (pyParse cs) := by
  intro k h
  unfold pyParse at h
  rw [if_neg hP] at h
  split at h
  · cases h; exact Or.inl rfl
  · split at h
    · rename_i heq; cases h; exact pyDateFields_VE _ k heq
    · split at h
      · split at h
        · split at h
          · exact mkTime_VE _ _ _ _ _ k h
          · cases h; exact Or.inl rfl
        · exact mkDate_VE _ _ _ k h
      · repeat' split at h
        all_goals first
          | (cases h; exact Or.inl rfl)
          | (rename_i heq; cases h; exact pyTimeFields_VE _ k heq)
          | (exact mkTime_VE _ _ _ _ _ k h)
          | (exact mkDateTime_VE _ _ _ _ _ _ _ _ k h)

/-! ### COMMON -/

/-- shape fact of the repaired `COMMON` expression: a successful time match has its minute group -/
theorem cmTimeMatch_minute (cs : List Char) (h mi s fr) (hm : cmTimeMatch cs = some (h, mi, s, fr)) : mi.isSome = true := by
  unfold cmTimeMatch at hm
  simp only at hm
  repeat' split at hm
  all_goals cases hm
  all_goals
    simp only [optNum]
    rw [if_neg (by assumption)]
    rfl

theorem cmBuild_VE (dt : Option (Int × Int × Int)) (t : Option (Nat × Option Nat × Option Nat × Option (List Nat)))
    (ht : ∀ h mi s fr, t = some (h, mi, s, fr) → mi.isSome = true) : VE (cmBuild dt t) := by
  intro k h
  unfold cmBuild at h
  split at h
  · split at h
    · exact mkDate_VE _ _ _ k h
    · exact mkDate_VE _ _ _ k h
  · rename_i hh mi s fr
    have := ht hh mi s fr rfl
    split at h
    · simp at this
    · simp only at h
      repeat' split at h
      all_goals first | exact mkDateTime_VE _ _ _ _ _ _ _ _ k h | exact mkTime_VE _ _ _ _ _ k h

theorem cmTry_VE (dt : Option (Int × Int × Int)) (rest : List Char) (r : R) (h : cmTry dt rest = some r) : VE r := by
  unfold cmTry at h
  split at h
  · cases h; exact cmBuild_VE _ _ (by intro _ _ _ _ hc; cases hc)
  · split at h
    · rename_i t heq
      cases h
      exact cmBuild_VE _ _ (by
        intro hh mi s fr hc
        cases hc
        exact cmTimeMatch_minute _ _ _ _ _ heq)
    · cases h

theorem orElse_some {α : Type} (a b : Option α) (r : α) (h : (a <|> b) = some r) : a = some r ∨ b = some r := by
  cases a with
  | none => right; simpa using h
  | some x => left; simpa using h

theorem commonParseDF_VE (df : Bool) (cs : List Char) : VE (commonParseDF df cs) := by
  intro k h
  unfold commonParseDF at h
  simp only at h
  split at h
  · rename_i r heq
    subst h
    rcases orElse_some _ _ _ heq with h1 | h1
    · split at h1
      · cases h1
      · rcases orElse_some _ _ _ h1 with h2 | h2
        · repeat' split at h2
          all_goals first | cases h2 | exact cmTry_VE _ _ _ h2 k rfl
        · exact cmTry_VE _ _ _ h2 k rfl
    · exact cmTry_VE _ _ _ h1 k rfl
  · cases h; exact Or.inl rfl

end Pendulum.ParseAll
