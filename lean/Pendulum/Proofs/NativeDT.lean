import Pendulum.Model.Native
import Pendulum.Proofs.CalRT
/-! helper lemmas for the Date / Time / combine part of C11 -/
namespace Pendulum.Native
open Pendulum Pendulum.Zone Pendulum.DTOps Pendulum.Cal

instance exDecEq {ε α : Type} [DecidableEq ε] [DecidableEq α] : DecidableEq (Except ε α)
  | .ok a, .ok b => if h : a = b then isTrue (by rw [h]) else isFalse (by intro e; cases e; exact h rfl)
  | .error a, .error b => if h : a = b then isTrue (by rw [h]) else isFalse (by intro e; cases e; exact h rfl)
  | .ok _, .error _ => isFalse (by intro e; cases e)
  | .error _, .ok _ => isFalse (by intro e; cases e)

theorem dby_one : daysBeforeYear 1 = 0 := by decide
theorem dby_10000 : daysBeforeYear 10000 = 3652059 := by decide

/-- a valid date of the years 1..9999 has an ordinal in 1..3652059 -/
theorem ymd2ord_range (y m d : Int) (hy : 1 ≤ y ∧ y ≤ 9999) (hv : validDate y m d) :
    1 ≤ ymd2ord y m d ∧ ymd2ord y m d ≤ maxOrd := by
  have a := ord_in_year y m d hv
  have lo : 0 ≤ daysBeforeYear y := by
    by_cases h : y = 1
    · rw [h, dby_one]; omega
    · have := dby_mono 0 y (by omega); rw [show (0:Int) + 1 = 1 from rfl, dby_one] at this; exact this
  have hi : daysBeforeYear (y + 1) ≤ 3652059 := by
    have := dby_mono y 10000 (by omega); rw [dby_10000] at this; exact this
  unfold maxOrd; omega

/-- the year of an ordinal in 1..3652059 is in 1..9999 -/
theorem ord2ymd_year_range (n : Int) (h : 1 ≤ n ∧ n ≤ maxOrd) : 1 ≤ (ord2ymd n).1 ∧ (ord2ymd n).1 ≤ 9999 := by
  obtain ⟨e, v⟩ := ymd2ord_ord2ymd n
  have a := ord_in_year _ _ _ v
  rw [e] at a
  unfold maxOrd at h
  constructor
  · apply Classical.byContradiction; intro hc
    have := dby_mono (ord2ymd n).1 1 (by omega)
    rw [dby_one] at this; omega
  · apply Classical.byContradiction; intro hc
    have := dby_mono 9999 (ord2ymd n).1 (by omega)
    rw [show (9999:Int) + 1 = 10000 from rfl, dby_10000] at this; omega

theorem mkDate_ord2ymd (n : Int) (h : 1 ≤ n ∧ n ≤ maxOrd) :
    mkDate (ord2ymd n).1 (ord2ymd n).2.1 (ord2ymd n).2.2 = .ok n := by
  obtain ⟨e, v⟩ := ymd2ord_ord2ymd n
  have hy := ord2ymd_year_range n h
  unfold mkDate
  rw [if_pos ⟨hy.1, hy.2, v⟩, e]

theorem mkDate_ok (y m d r : Int) (h : mkDate y m d = .ok r) :
    r = ymd2ord y m d ∧ 1 ≤ y ∧ y ≤ 9999 ∧ validDate y m d := by
  unfold mkDate at h
  split at h
  · rename_i hc; cases h; exact ⟨rfl, hc⟩
  · cases h

theorem tod_fields (t : Int) (ht : 0 ≤ t ∧ t < DAY) :
    mkTod (TimeOfDay.fields t).1 (TimeOfDay.fields t).2.1 (TimeOfDay.fields t).2.2.1 (TimeOfDay.fields t).2.2.2 = .ok t := by
  unfold DAY at ht
  unfold mkTod TimeOfDay.fields TimeOfDay.ofFields
  simp only
  rw [if_pos (by omega)]
  congr 1; omega

theorem mkTod_ok (h m s us r : Int) (e : mkTod h m s us = .ok r) :
    r = TimeOfDay.ofFields h m s us ∧ 0 ≤ r ∧ r < DAY ∧ TimeOfDay.fields r = (h, m, s, us) := by
  unfold mkTod at e
  split at e
  · rename_i hc; cases e
    unfold TimeOfDay.fields TimeOfDay.ofFields DAY
    refine ⟨rfl, by omega, by omega, ?_⟩
    rw [Prod.ext_iff, Prod.ext_iff, Prod.ext_iff]
    simp only
    refine ⟨by omega, by omega, by omega, by omega⟩
  · cases e

theorem instanceAware_self (z : ZRef) (w : Int) (fold : Bool) :
    instanceAware z w fold (V.offset ⟨z, w, fold⟩) = create z w fold false := by
  unfold instanceAware V.offset
  cases h : z.table with
  | none => rfl
  | some zt => simp

end Pendulum.Native
