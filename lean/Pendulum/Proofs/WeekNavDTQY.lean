import Pendulum.Proofs.WeekNavDT
/-! DateTime level of C16, quarter and year variants (repaired tree). `first_of/last_of("quarter"|"year")` first build
an *anchor* value with `self._boundary(...)` (first day of the quarter's first / last month, January 1st, December 1st)
and call the month-level function on it; `nth_of` walks from such an anchor with `next()` and finally calls
`self._boundary` on the instance. Every function is shown to return `_boundary` of the Date-level result, provided the
anchor day (and, for `nth_of`, the walked days) is not skipped entirely in the zone (`OnDay`). -/
namespace Pendulum.WeekNav
open Pendulum Pendulum.Cal Pendulum.DTOps

theorem onDay_apply (v : V) (o : Int) (hp : OnDay v.z o) :
    ∃ r, boundaryOrd v o = .ok r ∧ r.z = v.z ∧ dayOrd r.w = o := hp v.w v.fold

theorem firstOfMonth_congr (a b : Int) (wd : Option Int) (hwd : ∀ w, wd = some w → 0 ≤ w ∧ w ≤ 6)
    (h : uLo .month a = uLo .month b) : firstOfMonth a wd = firstOfMonth b wd := by
  have ea := firstOf_eq .month a wd hwd
  have eb := firstOf_eq .month b wd hwd
  simp only [firstOf] at ea eb
  rw [ea, eb, h]

theorem lastOfMonth_congr (a b : Int) (wd : Option Int) (hwd : ∀ w, wd = some w → 0 ≤ w ∧ w ≤ 6)
    (h : uHi .month a = uHi .month b) : lastOfMonth a wd = lastOfMonth b wd := by
  have ea := lastOf_eq .month a wd hwd
  have eb := lastOf_eq .month b wd hwd
  simp only [lastOf] at ea eb
  rw [ea, eb, h]

/-- `self._boundary(anchor).first_of("month", wd)` -/
theorem anchor_first (v : V) (A : Int) (wd : Option Int) (hwd : ∀ w, wd = some w → 0 ≤ w ∧ w ≤ 6)
    (hp : OnDay v.z A) :
    ∃ r0, boundaryOrd v A = .ok r0 ∧ r0.z = v.z ∧ dayOrd r0.w = A ∧
      (boundaryOrd v A).bind (fun dt => dtFirstOfMonth dt wd) = boundaryOrd r0 (firstOfMonth A wd) := by
  obtain ⟨r0, e0, z0, d0⟩ := onDay_apply v A hp
  refine ⟨r0, e0, z0, d0, ?_⟩
  rw [e0, bind_ok, dtFirstOfMonth_eq r0 wd hwd, d0]

theorem anchor_last (v : V) (A : Int) (wd : Option Int) (hwd : ∀ w, wd = some w → 0 ≤ w ∧ w ≤ 6)
    (hp : OnDay v.z A) :
    ∃ r0, boundaryOrd v A = .ok r0 ∧ r0.z = v.z ∧ dayOrd r0.w = A ∧
      (boundaryOrd v A).bind (fun dt => dtLastOfMonth dt wd) = boundaryOrd r0 (lastOfMonth A wd) := by
  obtain ⟨r0, e0, z0, d0⟩ := onDay_apply v A hp
  refine ⟨r0, e0, z0, d0, ?_⟩
  rw [e0, bind_ok, dtLastOfMonth_eq r0 wd hwd, d0]

/-! ### anchors as Date-level expressions -/

/-- first day of the last month of the unit -/
def lastAnchor (u : Unit') (o : Int) : Int := uLo .month (uHi u o)

theorem lastAnchor_quarter (o y m d : Int) (hf : ord2ymd o = (y, m, d)) (hm : 1 ≤ m ∧ m ≤ 12) :
    lastAnchor .quarter o = ymd2ord y (quarter m * 3) 1 := by
  have hq := quarter_bounds m hm
  have hm3 : 1 ≤ quarter m * 3 ∧ quarter m * 3 ≤ 12 := ⟨by omega, hq.2.1⟩
  have e : uHi .quarter o = ymd2ord y (quarter m * 3) (daysInMonth y (quarter m * 3)) := by
    simp only [uHi, hf]; rw [ord_eq y (quarter m * 3) (daysInMonth y (quarter m * 3))]
  unfold lastAnchor
  rw [e, (uLo_month_any y _ _ (valid_last y _ hm3)).1]

theorem lastAnchor_year (o y m d : Int) (hf : ord2ymd o = (y, m, d)) :
    lastAnchor .year o = ymd2ord y 12 1 := by
  have e : uHi .year o = ymd2ord y 12 31 := by
    simp only [uHi, hf]; rw [ord_eq y 12 31]; omega
  have hv : validDate y 12 31 := by
    have e12 : daysInMonth y 12 = 31 := by unfold daysInMonth; rfl
    exact ⟨by omega, by omega, by omega, by omega⟩
  unfold lastAnchor
  rw [e, (uLo_month_any y 12 31 hv).1]

/-! ### first_of / last_of quarter, year -/

theorem dtFirstOfQuarter_eq (v : V) (wd : Option Int) (hwd : ∀ w, wd = some w → 0 ≤ w ∧ w ≤ 6)
    (hp : OnDay v.z (uLo .quarter (dayOrd v.w))) :
    ∃ r0, boundaryOrd v (uLo .quarter (dayOrd v.w)) = .ok r0 ∧ r0.z = v.z ∧
      dayOrd r0.w = uLo .quarter (dayOrd v.w) ∧
      dtFirstOfQuarter v wd = boundaryOrd r0 (firstOfQuarter (dayOrd v.w) wd) := by
  obtain ⟨y, m, d, hf, hv, he⟩ := fields_of (dayOrd v.w)
  have hm : 1 ≤ m ∧ m ≤ 12 := ⟨hv.1, hv.2.1⟩
  have hq := quarter_bounds m hm
  have hA : uLo .quarter (dayOrd v.w) = ymd2ord y (quarter m * 3 - 2) 1 := by simp only [uLo, hf]
  rw [hA] at hp ⊢
  obtain ⟨r0, e0, z0, d0, hb⟩ := anchor_first v _ wd hwd hp
  refine ⟨r0, e0, z0, d0, ?_⟩
  unfold dtFirstOfQuarter firstOfQuarter ymdOf
  simp only [hf]
  rw [boundaryYMD_valid v y _ 1 (valid_first y _ ⟨hq.1, by omega⟩)]
  exact hb

theorem dtLastOfQuarter_eq (v : V) (wd : Option Int) (hwd : ∀ w, wd = some w → 0 ≤ w ∧ w ≤ 6)
    (hp : OnDay v.z (lastAnchor .quarter (dayOrd v.w))) :
    ∃ r0, boundaryOrd v (lastAnchor .quarter (dayOrd v.w)) = .ok r0 ∧ r0.z = v.z ∧
      dayOrd r0.w = lastAnchor .quarter (dayOrd v.w) ∧
      dtLastOfQuarter v wd = boundaryOrd r0 (lastOfQuarter (dayOrd v.w) wd) := by
  obtain ⟨y, m, d, hf, hv, he⟩ := fields_of (dayOrd v.w)
  have hm : 1 ≤ m ∧ m ≤ 12 := ⟨hv.1, hv.2.1⟩
  have hq := quarter_bounds m hm
  rw [lastAnchor_quarter _ y m d hf hm] at hp ⊢
  obtain ⟨r0, e0, z0, d0, hb⟩ := anchor_last v _ wd hwd hp
  refine ⟨r0, e0, z0, d0, ?_⟩
  unfold dtLastOfQuarter lastOfQuarter ymdOf
  simp only [hf]
  rw [boundaryYMD_valid v y _ 1 (valid_first y _ ⟨by omega, hq.2.1⟩)]
  exact hb

theorem dtFirstOfYear_eq (v : V) (wd : Option Int) (hwd : ∀ w, wd = some w → 0 ≤ w ∧ w ≤ 6)
    (hp : OnDay v.z (uLo .year (dayOrd v.w))) :
    ∃ r0, boundaryOrd v (uLo .year (dayOrd v.w)) = .ok r0 ∧ r0.z = v.z ∧
      dayOrd r0.w = uLo .year (dayOrd v.w) ∧
      dtFirstOfYear v wd = boundaryOrd r0 (firstOfYear (dayOrd v.w) wd) := by
  obtain ⟨y, m, d, hf, hv, he⟩ := fields_of (dayOrd v.w)
  have hA : uLo .year (dayOrd v.w) = ymd2ord y 1 1 := by simp only [uLo, hf]
  rw [hA] at hp ⊢
  obtain ⟨r0, e0, z0, d0, hb⟩ := anchor_first v _ wd hwd hp
  refine ⟨r0, e0, z0, d0, ?_⟩
  have hc : firstOfMonth (ymd2ord y 1 d) wd = firstOfMonth (ymd2ord y 1 1) wd :=
    firstOfMonth_congr _ _ wd hwd (by
      rw [(uLo_month_any y 1 d (valid_jan y m d hv).1).1, (uLo_month_first y 1 (by omega)).1])
  unfold dtFirstOfYear firstOfYear ymdOf
  simp only [hf]
  rw [boundaryYMD_valid v y 1 1 (valid_first y 1 (by omega)), hc]
  exact hb

theorem dtLastOfYear_eq (v : V) (wd : Option Int) (hwd : ∀ w, wd = some w → 0 ≤ w ∧ w ≤ 6)
    (hp : OnDay v.z (lastAnchor .year (dayOrd v.w))) :
    ∃ r0, boundaryOrd v (lastAnchor .year (dayOrd v.w)) = .ok r0 ∧ r0.z = v.z ∧
      dayOrd r0.w = lastAnchor .year (dayOrd v.w) ∧
      dtLastOfYear v wd = boundaryOrd r0 (lastOfYear (dayOrd v.w) wd) := by
  obtain ⟨y, m, d, hf, hv, he⟩ := fields_of (dayOrd v.w)
  rw [lastAnchor_year _ y m d hf] at hp ⊢
  obtain ⟨r0, e0, z0, d0, hb⟩ := anchor_last v _ wd hwd hp
  refine ⟨r0, e0, z0, d0, ?_⟩
  have hc : lastOfMonth (ymd2ord y 12 d) wd = lastOfMonth (ymd2ord y 12 1) wd :=
    lastOfMonth_congr _ _ wd hwd (by
      rw [(uLo_month_any y 12 d (valid_jan y m d hv).2).2, (uLo_month_first y 12 (by omega)).2])
  unfold dtLastOfYear lastOfYear ymdOf
  simp only [hf]
  rw [boundaryYMD_valid v y 12 1 (valid_first y 12 (by omega)), hc]
  exact hb

/-! ### nth_of quarter, year (n ≥ 2; n = 1 is `first_of`) -/

theorem nth_final (v : V) (y m' d' : Int) (c : Prop) [Decidable c] (hv : ¬ c → validDate y m' d') :
    (if c then (Except.ok none : Except Err (Option V)) else (boundaryYMD v y m' d').map some) =
      match (if c then none else some (ymd2ord y m' d')) with
      | some r => (boundaryOrd v r).map some
      | none => .ok none := by
  by_cases hc : c
  · simp only [if_pos hc]
  · simp only [if_neg hc]; rw [boundaryYMD_valid v y m' d' (hv hc)]

theorem dtNthOfQuarter_eq (v : V) (nth : Nat) (wd : Int) (hn : 2 ≤ nth) (hwd : 0 ≤ wd ∧ wd ≤ 6)
    (hA : OnDay v.z (lastAnchor .quarter (dayOrd v.w)))
    (hp : ∀ j, uLo .quarter (dayOrd v.w) ≤ j → j ≤ uLo .quarter (dayOrd v.w) + 7 * nth → OnDay v.z j) :
    dtNthOfQuarter v nth wd =
      match nthOfQuarter (dayOrd v.w) nth wd with
      | some r => (boundaryOrd v r).map some
      | none => .ok none := by
  have h1 : ¬ nth = 1 := by omega
  obtain ⟨y, m, d, hf, hv, he⟩ := fields_of (dayOrd v.w)
  have hm : 1 ≤ m ∧ m ≤ 12 := ⟨hv.1, hv.2.1⟩
  have hq := quarter_bounds m hm
  have hBeq : uLo .quarter (dayOrd v.w) = ymd2ord y (quarter m * 3 - 2) 1 := by simp only [uLo, hf]
  rw [lastAnchor_quarter _ y m d hf hm] at hA
  rw [hBeq] at hp
  -- self._boundary(self.year, self.quarter * 3, 1)
  obtain ⟨r1, e1, z1, d1⟩ := onDay_apply v _ hA
  have hl3 := ord2ymd_ymd2ord y (quarter m * 3) 1 (valid_first y _ ⟨by omega, hq.2.1⟩)
  have hqq : quarter (quarter m * 3) = quarter m := by unfold quarter; omega
  have hBr1 : uLo .quarter (dayOrd r1.w) = ymd2ord y (quarter m * 3 - 2) 1 := by
    rw [d1]; simp only [uLo, hl3, hqq]
  -- .first_of("quarter")
  obtain ⟨r2, e2, z2, d2, hfq⟩ := dtFirstOfQuarter_eq r1 none (by intro w hw; cases hw) (by
    rw [hBr1, z1]; exact hp _ (by omega) (by omega))
  have hfqB : firstOfQuarter (dayOrd r1.w) none = ymd2ord y (quarter m * 3 - 2) 1 := by
    rw [firstOfQuarter_eq _ none (by intro w hw; cases hw)]; exact hBr1
  have hfqA : firstOfQuarter (ymd2ord y (quarter m * 3) 1) none = ymd2ord y (quarter m * 3 - 2) 1 := by
    rw [← d1]; exact hfqB
  rw [hfqB] at hfq
  obtain ⟨r3, e3, z3, d3⟩ := onDay_apply r2 (ymd2ord y (quarter m * 3 - 2) 1) (by
    rw [z2, z1]; exact hp _ (by omega) (by omega))
  rw [e3] at hfq
  have hz3 : r3.z = v.z := by rw [z3, z2, z1]
  have hcnt : nth - (if dow (ymd2ord y (quarter m * 3 - 2) 1) = wd then 1 else 0) ≤ nth := by split <;> omega
  obtain ⟨r, e, z, dd⟩ := dtIterNext_onDay (nth - (if dow (ymd2ord y (quarter m * 3 - 2) 1) = wd then 1 else 0))
    r3 wd hwd (by
      intro j a b; rw [hz3]; rw [d3] at a b; exact hp j (by omega) (by omega))
  rw [d3] at dd
  generalize hrr : iterNext (nth - (if dow (ymd2ord y (quarter m * 3 - 2) 1) = wd then 1 else 0))
    (ymd2ord y (quarter m * 3 - 2) 1) wd = R at dd
  obtain ⟨y', m', d', hf', hv', he'⟩ := fields_of R
  unfold dtNthOfQuarter nthOfQuarter
  simp only [h1, if_false, ymdOf, hf, boundaryYMD_valid v y _ 1 (valid_first y _ ⟨by omega, hq.2.1⟩), e1, bind_ok,
    d1, hl3, hfq, hfqA, vdow, d3, hrr, e, dd, hf']
  exact nth_final v y m' d' _ (by intro hc; have : y = y' := by omega
                                  rw [this]; exact hv')

theorem dtNthOfYear_eq (v : V) (nth : Nat) (wd : Int) (hn : 2 ≤ nth) (hwd : 0 ≤ wd ∧ wd ≤ 6)
    (hp : ∀ j, uLo .year (dayOrd v.w) ≤ j → j ≤ uLo .year (dayOrd v.w) + 7 * nth → OnDay v.z j) :
    dtNthOfYear v nth wd =
      match nthOfYear (dayOrd v.w) nth wd with
      | some r => (boundaryOrd v r).map some
      | none => .ok none := by
  have h1 : ¬ nth = 1 := by omega
  obtain ⟨y, m, d, hf, hv, he⟩ := fields_of (dayOrd v.w)
  have hJeq : uLo .year (dayOrd v.w) = ymd2ord y 1 1 := by simp only [uLo, hf]
  -- self.first_of("year")
  obtain ⟨r2, e2, z2, d2, hfy⟩ := dtFirstOfYear_eq v none (by intro w hw; cases hw) (hp _ (by omega) (by omega))
  rw [hJeq] at hp e2 d2
  have hfyJ : firstOfYear (dayOrd v.w) none = ymd2ord y 1 1 := by
    rw [firstOfYear_eq _ none (by intro w hw; cases hw)]; exact hJeq
  rw [hfyJ] at hfy
  obtain ⟨r3, e3, z3, d3⟩ := onDay_apply r2 (ymd2ord y 1 1) (by rw [z2]; exact hp _ (by omega) (by omega))
  rw [e3] at hfy
  have hz3 : r3.z = v.z := by rw [z3, z2]
  have hj := ord2ymd_ymd2ord y 1 1 (valid_first y 1 (by omega))
  have hcnt : nth - (if dow (ymd2ord y 1 1) = wd then 1 else 0) ≤ nth := by split <;> omega
  obtain ⟨r, e, z, dd⟩ := dtIterNext_onDay (nth - (if dow (ymd2ord y 1 1) = wd then 1 else 0)) r3 wd hwd (by
      intro j a b; rw [hz3]; rw [d3] at a b; exact hp j (by omega) (by omega))
  rw [d3] at dd
  generalize hrr : iterNext (nth - (if dow (ymd2ord y 1 1) = wd then 1 else 0)) (ymd2ord y 1 1) wd = R at dd
  obtain ⟨y', m', d', hf', hv', he'⟩ := fields_of R
  unfold dtNthOfYear nthOfYear
  simp only [h1, if_false, ymdOf, hf, hfy, hfyJ, bind_ok, vdow, d3, hj, hrr, e, dd, hf']
  exact nth_final v y m' d' _ (by intro hc; have : y = y' := by omega
                                  rw [this]; exact hv')

/-! ### when the anchor keeps the instance's fold -/

/-- the anchor value built by `_boundary` carries the instance's fold (so that a second `_boundary` from the anchor is
    the same as one from the instance): always for naive values and fixed offsets (fold is ignored there); in a named
    zone when the instance has fold 0 or the anchor's midnight is neither skipped nor repeated -/
def AnchorPlain (v : V) (A : Int) : Prop :=
  match v.z with
  | .named zt => v.fold = false ∨ zt.woff true (wallOf A 0) = zt.woff false (wallOf A 0)
  | _ => True

theorem boundaryOrd_via_anchor (v r0 : V) (A o : Int) (h : boundaryOrd v A = .ok r0) (hpl : AnchorPlain v A) :
    boundaryOrd r0 o = boundaryOrd v o := by
  obtain ⟨z, w, f⟩ := v
  cases z with
  | naive => rw [boundaryOrd_naive] at h; injection h with h; subst h; rfl
  | fixed off => rw [boundaryOrd_fixed] at h; injection h with h; subst h; rfl
  | named zt =>
    rw [boundaryOrd_named] at h
    split at h
    · injection h with h; subst h
      apply boundaryOrd_congr
      · unfold StartOf.startVal; split
        · rfl
        · split <;> rfl
      · simp only [AnchorPlain] at hpl
        unfold StartOf.startVal
        rcases hpl with hpl | hpl
        · subst hpl; split
          · rfl
          · split <;> rfl
        · have c1 : ¬ (zt.woff true (wallOf A 0) > zt.woff false (wallOf A 0)) := by omega
          have c2 : ¬ (zt.woff false (wallOf A 0) > zt.woff true (wallOf A 0)) := by omega
          simp only [if_neg c1, if_neg c2]
    · cases h

/-- two `_boundary` calls for the same day from instances of the same zone denote the same moment: same outcome, same
    zone, same wall time, same UTC offset — the instance's fold only decides the `fold` attribute of an ordinary midnight -/
theorem boundaryOrd_same_moment (v v' : V) (o : Int) (hz : v.z = v'.z) :
    match boundaryOrd v o, boundaryOrd v' o with
    | .ok a, .ok b => a.z = b.z ∧ a.w = b.w ∧ a.offset = b.offset
    | .error e, .error e' => e = e'
    | _, _ => False := by
  obtain ⟨z, w, f⟩ := v
  obtain ⟨z', w', f'⟩ := v'
  simp only at hz; subst hz
  cases z with
  | naive => simp [boundaryOrd_naive, V.offset, ZRef.table]
  | fixed off => simp [boundaryOrd_fixed, V.offset, ZRef.table]
  | named zt =>
    simp only [boundaryOrd_named]
    have hw : (StartOf.startVal zt (wallOf o 0) f).w = (StartOf.startVal zt (wallOf o 0) f').w := by
      rw [startVal_wall, startVal_wall]
    rw [hw]
    by_cases hr : inRange (StartOf.startVal zt (wallOf o 0) f').w = true
    · simp only [if_pos hr]
      refine ⟨?_, hw, ?_⟩
      · unfold StartOf.startVal; split
        · rfl
        · split <;> rfl
      · unfold StartOf.startVal V.offset ZRef.table
        by_cases c1 : zt.woff true (wallOf o 0) > zt.woff false (wallOf o 0)
        · simp only [if_pos c1]
        · by_cases c2 : zt.woff false (wallOf o 0) > zt.woff true (wallOf o 0)
          · simp only [if_neg c1, if_pos c2]
          · simp only [if_neg c1, if_neg c2]
            have e : zt.woff true (wallOf o 0) = zt.woff false (wallOf o 0) := by omega
            cases f <;> cases f' <;> simp only [e]
    · simp only [if_neg hr]

end Pendulum.WeekNav
