import Pendulum.Proofs.IsoCal
import Pendulum.Proofs.IsoPy
/-! Assembly: whole-string results of both parser models on rendered dates, times and date-times. -/
set_option linter.unusedSimpArgs false
namespace Pendulum.Iso
open Pendulum

theorem dim_le (y m : Int) : Cal.daysInMonth y m ≤ 31 := by
  unfold Cal.daysInMonth; split <;> (try split) <;> omega

theorem dateOk_bounds {y m d : Nat} (hv : dateOk y m d) : y < 10000 ∧ m < 100 ∧ d < 100 := by
  obtain ⟨h1, h2, h3, h4, h5, h6⟩ := hv
  have := dim_le y m
  omega

/-- side condition of a date form: the ISO year of a week date must itself have four digits -/
def FormOk (f : DForm) (y m d : Nat) : Prop :=
  match f with
  | .week _ => 1 ≤ (Cal.isoCalendar y m d).1 ∧ (Cal.isoCalendar y m d).1 ≤ 9999
  | _ => True

/-! ### compiled parser -/

theorem rs_prefix (f : DForm) (y m d : Nat) (hv : dateOk y m d) (hf : FormOk f y m d) (rest : List Char) (hr : SepStart rest) :
    rsParse (rDate f y m d ++ rest) = rsFinish (.ok (((y : Int), (m : Int), (d : Int)), f.ext, rest)) := by
  obtain ⟨hy, hm, hd⟩ := dateOk_bounds hv
  obtain ⟨v1, v2, v3, v4, v5, v6⟩ := hv
  cases f with
  | cal e =>
    simp only [rDate, rCalendar, List.append_assoc, DForm.ext]
    rw [rsParse_year y hy, rsDateRest_cal e y m d hm hd]
  | ord e =>
    obtain ⟨n1, n2⟩ := doy_range y m d ⟨v3, v4⟩ ⟨v5, v6⟩
    have n3 := diy_range y
    have hn : ((Cal.dayOfYear y m d).toNat : Int) = Cal.daysBeforeMonth (Cal.isLeap y) m + d := by
      unfold Cal.dayOfYear; omega
    simp only [rDate, rOrdinal, List.append_assoc, DForm.ext]
    rw [rsParse_year y hy, rsDateRest_ord e y _ (by unfold Cal.dayOfYear; omega) rest hr, hn,
      rsOrd_spec y m d v1 ⟨v3, v4⟩ ⟨v5, v6⟩]
    rfl
  | week e =>
    obtain ⟨i1, i2⟩ := hf
    obtain ⟨w1, w2, _, d1, d2, _, _⟩ := week_core y m d ⟨v3, v4⟩ ⟨v5, v6⟩
    have e1 : (((Cal.isoCalendar y m d).1.toNat : Nat) : Int) = (Cal.isoCalendar y m d).1 := by omega
    have e2 : (((Cal.isoCalendar y m d).2.1.toNat : Nat) : Int) = (Cal.isoCalendar y m d).2.1 := by omega
    have e3 : (((Cal.isoCalendar y m d).2.2.toNat : Nat) : Int) = (Cal.isoCalendar y m d).2.2 := by omega
    simp only [rDate, rWeekDay, List.append_assoc, List.cons_append, DForm.ext]
    rw [rsParse_year _ (by omega), rsDateRest_weekday e _ _ _ (by omega) (by omega), e1, e2, e3,
      rsIso_spec y m d ⟨v3, v4⟩ ⟨v5, v6⟩ v1 i1]
    rfl

theorem rsFinish_date (y m d : Int) (ext : Bool) : rsFinish (.ok ((y, m, d), ext, [])) = mkDate y m d := rfl

theorem rsFinish_datetime (y m d : Int) (ext : Bool) (sep : Char) (hsep : sep = 'T' ∨ sep = ' ') (h mi s : Nat) (p : Prec) (o : Off)
    (hb : HmsOk h mi s) (hp : PrecOk p) (ho : OffOk o) :
    rsFinish (.ok ((y, m, d), ext, sep :: (rTime ext h mi s p ++ rOff o))) =
      mkDateTime y m d h (precFields mi s p).1 (precFields mi s p).2.1 (precFields mi s p).2.2 (offSeconds o) := by
  simp only [rsFinish, rsTime_spec true ext ext sep hsep h mi s p o hb hp ho (fun _ => rfl), rsEnd]

/-! ### pure-Python parser -/

theorem nl_not_mem_digits (k n : Nat) : '\n' ∉ digits k n := by
  induction k with
  | zero => simp [digits]
  | succ k ih =>
    simp only [digits, List.mem_cons, not_or]
    exact ⟨fun h => (digitChar_ne (n / 10 ^ k)).2.2.2.2.2.2.2.2.2.2.2 h.symm, ih⟩

theorem stripNl_id (cs : List Char) (h : '\n' ∉ cs) : stripNl cs = cs := by
  unfold stripNl
  rw [if_neg]
  intro hl
  obtain ⟨ys, hys⟩ := List.getLast?_eq_some_iff.mp hl
  apply h; rw [hys]; simp

/-- the date groups matched for a rendered date -/
def pyGroupsOf (f : DForm) (y m d : Nat) : PyD :=
  match f with
  | .cal e => .ymd y e m e 2 d
  | .ord e => .ymd y e ((Cal.dayOfYear y m d).toNat / 10) false 1 ((Cal.dayOfYear y m d).toNat % 10)
  | .week e => .week (Cal.isoCalendar y m d).1.toNat e (Cal.isoCalendar y m d).2.1.toNat e (some (Cal.isoCalendar y m d).2.2.toNat)

theorem py_prefix (f : DForm) (y m d : Nat) (hv : dateOk y m d) (hf : FormOk f y m d) (rest : List Char) (hr : SepStart rest)
    (x : PyD × Option PyT) (hx : tryCand (pyGroupsOf f y m d) rest = some x) :
    pyMatch (rDate f y m d ++ rest) = some x := by
  obtain ⟨hy, hm, hd⟩ := dateOk_bounds hv
  obtain ⟨v1, v2, v3, v4, v5, v6⟩ := hv
  cases f with
  | cal e => exact pyMatch_cal e y m d hy hm hd rest x hx
  | ord e =>
    obtain ⟨n1, n2⟩ := doy_range y m d ⟨v3, v4⟩ ⟨v5, v6⟩
    have n3 := diy_range y
    exact pyMatch_ord e y _ hy (by unfold Cal.dayOfYear; omega) rest hr x hx
  | week e =>
    obtain ⟨i1, i2⟩ := hf
    obtain ⟨w1, w2, _, d1, d2, _, _⟩ := week_core y m d ⟨v3, v4⟩ ⟨v5, v6⟩
    exact pyMatch_weekday e _ _ _ (by omega) (by omega) (by omega) rest x hx

theorem py_fields (f : DForm) (y m d : Nat) (hv : dateOk y m d) (hf : FormOk f y m d) :
    pyDateFields (pyGroupsOf f y m d) = .ok ((y : Int), (m : Int), (d : Int), false) ∧ pyGroupsOf f y m d ≠ .nodate := by
  obtain ⟨v1, v2, v3, v4, v5, v6⟩ := hv
  cases f with
  | cal e => cases e <;> simp [pyGroupsOf, pyDateFields]
  | ord e =>
    obtain ⟨n1, n2⟩ := doy_range y m d ⟨v3, v4⟩ ⟨v5, v6⟩
    have n3 := diy_range y
    refine ⟨?_, by simp [pyGroupsOf]⟩
    have hn : (((Cal.dayOfYear y m d).toNat / 10 : Nat) : Int) * 10 + (((Cal.dayOfYear y m d).toNat % 10 : Nat) : Int)
        = Cal.daysBeforeMonth (Cal.isLeap y) m + d := by
      unfold Cal.dayOfYear; omega
    have h13 : ¬ Cal.daysBeforeMonth (Cal.isLeap y) m + d > pyOff (Cal.isLeap y) 13 := by
      rw [pyOff_13]; unfold diy at n2; omega
    simp only [pyGroupsOf, pyDateFields, and_self, if_true, hn, Pendulum.Props.C15.is_leap_iff, if_neg h13,
      walk_spec y m d ⟨v3, v4⟩ ⟨v5, v6⟩]
  | week e =>
    obtain ⟨i1, i2⟩ := hf
    obtain ⟨w1, w2, _, d1, d2, _, _⟩ := week_core y m d ⟨v3, v4⟩ ⟨v5, v6⟩
    refine ⟨?_, by simp [pyGroupsOf]⟩
    have e1 : (((Cal.isoCalendar y m d).1.toNat : Nat) : Int) = (Cal.isoCalendar y m d).1 := by omega
    have hw := pyWeek_spec y m d ⟨v3, v4⟩ ⟨v5, v6⟩ ⟨v1, v2⟩ (Cal.isoCalendar y m d).2.1.toNat (Cal.isoCalendar y m d).2.2.toNat
      (by omega) (by omega)
    simp only [pyGroupsOf, pyDateFields]
    rw [if_neg (by cases e <;> simp), if_neg (by cases e <;> simp), if_neg (by cases e <;> simp), e1, hw]

/-- result of `parse_iso8601` (python) once the regex match is known: date only -/
theorem pyParse_of_match_date (cs : List Char) (hP : cs.head? ≠ some 'P') (hnl : '\n' ∉ cs) (G : PyD)
    (hmatch : pyMatch cs = some (G, none)) (y m d : Int) (hG : pyDateFields G = .ok (y, m, d, false)) :
    pyParse cs = mkDate y m d := by
  unfold pyParse
  rw [if_neg hP, stripNl_id cs hnl]
  simp [hmatch, hG]

/-- … date and time -/
theorem pyParse_of_match_dt (cs : List Char) (hP : cs.head? ≠ some 'P') (hnl : '\n' ∉ cs) (G : PyD) (t : PyT)
    (hmatch : pyMatch cs = some (G, some t)) (y m d : Int) (hG : pyDateFields G = .ok (y, m, d, false)) (hGn : G ≠ .nodate)
    (hts : t.timesep = true) (tr : TimeRes) (htr : pyTimeFields t = .ok tr) :
    pyParse cs = mkDateTime y m d tr.h tr.mi tr.s tr.us tr.off := by
  unfold pyParse
  rw [if_neg hP, stripNl_id cs hnl]
  simp [hmatch, hG, hGn, hts, htr]

/-- … a failing date conversion -/
theorem pyParse_of_match_err (cs : List Char) (hP : cs.head? ≠ some 'P') (hnl : '\n' ∉ cs) (G : PyD) (tg : Option PyT)
    (hmatch : pyMatch cs = some (G, tg)) (e : Kind) (hG : pyDateFields G = .error e) :
    pyParse cs = .error e := by
  unfold pyParse
  rw [if_neg hP, stripNl_id cs hnl]
  simp [hmatch, hG]

/-! ### whole-string results -/

def dateV (y m d : Nat) : Value := ⟨.date, y, m, d, 0, 0, 0, 0, none⟩
def timeV (h mi s us : Nat) (off : Option Int) : Value := ⟨.time, 0, 0, 0, h, mi, s, us, off⟩
def dateTimeV (y m d h mi s us : Nat) (off : Option Int) : Value := ⟨.datetime, y, m, d, h, mi, s, us, off⟩

/-- a well-formed time of day with its precision -/
def ClockOk (h mi s : Nat) (p : Prec) : Prop := h ≤ 23 ∧ mi ≤ 59 ∧ s ≤ 59 ∧ PrecOk p

theorem fracMicros_le (k n : Nat) (hk : 1 ≤ k ∧ k ≤ 9) (hn : n < 10 ^ k) : fracMicros k n ≤ 999999 := by
  obtain ⟨h1, h2⟩ := hk
  have : k = 1 ∨ k = 2 ∨ k = 3 ∨ k = 4 ∨ k = 5 ∨ k = 6 ∨ k = 7 ∨ k = 8 ∨ k = 9 := by omega
  rcases this with h|h|h|h|h|h|h|h|h <;> subst h <;> simp only [fracMicros, Nat.reducePow] at hn ⊢ <;> omega

theorem clock_timeOk {h mi s : Nat} {p : Prec} (hc : ClockOk h mi s p) :
    timeOk h (precFields mi s p).1 (precFields mi s p).2.1 (precFields mi s p).2.2 ∧ HmsOk h mi s := by
  obtain ⟨a, b, c, d⟩ := hc
  refine ⟨?_, by unfold HmsOk; omega⟩
  cases p with
  | h => simp [precFields, timeOk]; omega
  | hm => simp [precFields, timeOk]; omega
  | hms => simp [precFields, timeOk]; omega
  | frac cm k n =>
    obtain ⟨k1, k2, hn⟩ := d
    have := fracMicros_le k n ⟨k1, k2⟩ hn
    simp [precFields, timeOk]; omega

theorem rDate_digits (f : DForm) (y m d : Nat) : ∃ n X, rDate f y m d = digits 4 n ++ X := by
  cases f <;> simp only [rDate, rCalendar, rOrdinal, rWeekDay, List.append_assoc] <;> exact ⟨_, _, rfl⟩

theorem head_ne_P (n : Nat) (X : List Char) : (digits 4 n ++ X).head? ≠ some 'P' := by
  rw [head_digits4]; simp

theorem nl_dash (e : Bool) : '\n' ∉ dash e := by cases e <;> simp [dash]
theorem nl_colon (e : Bool) : '\n' ∉ colon e := by cases e <;> simp [colon]

theorem nl_rDate (f : DForm) (y m d : Nat) : '\n' ∉ rDate f y m d := by
  cases f <;>
    simp [rDate, rCalendar, rOrdinal, rWeekDay, nl_not_mem_digits, nl_dash]

theorem nl_rTime (e : Bool) (h mi s : Nat) (p : Prec) : '\n' ∉ rTime e h mi s p := by
  cases p with
  | frac c k n => cases c <;> simp [rTime, nl_not_mem_digits, nl_colon]
  | _ => simp [rTime, nl_not_mem_digits, nl_colon]

theorem nl_rOff (o : Off) : '\n' ∉ rOff o := by
  cases o with
  | naive => simp [rOff]
  | z => simp [rOff]
  | hh neg h => cases neg <;> simp [rOff, sign, nl_not_mem_digits]
  | hhmm neg c h m => cases neg <;> simp [rOff, sign, nl_not_mem_digits, nl_colon]

/-- every complete date representation parses to the date it was rendered from, both backends -/
theorem parse_date (b : Backend) (f : DForm) (y m d : Nat) (hv : dateOk y m d) (hf : FormOk f y m d) :
    parseIso b (rDate f y m d) = .ok (dateV y m d) := by
  cases b with
  | rust =>
    have h := rs_prefix f y m d hv hf [] (Or.inl rfl)
    rw [List.append_nil] at h
    simp only [parseIso, h, rsFinish_date, mkDate, if_pos hv, dateV]
  | py =>
    obtain ⟨hG, hGn⟩ := py_fields f y m d hv hf
    have hm := py_prefix f y m d hv hf [] (Or.inl rfl) (pyGroupsOf f y m d, none) rfl
    rw [List.append_nil] at hm
    obtain ⟨n, X, hX⟩ := rDate_digits f y m d
    have hp := pyParse_of_match_date (rDate f y m d) (by rw [hX]; exact head_ne_P n X) (nl_rDate f y m d) _ hm _ _ _ hG
    simp only [parseIso, hp, mkDate, if_pos hv, dateV]

/-- … and so does every date-time: date in any representation, `T` or space, time in the same (basic/extended)
    format with 0–9 fraction digits after `.` or `,`, optional `Z` / `±hh` / `±hhmm` / `±hh:mm` -/
theorem parse_datetime (b : Backend) (f : DForm) (y m d : Nat) (hv : dateOk y m d) (hf : FormOk f y m d)
    (sep : Char) (hsep : sep = 'T' ∨ sep = ' ') (h mi s : Nat) (p : Prec) (hc : ClockOk h mi s p) (o : Off) (ho : OffOk o) :
    parseIso b (rDate f y m d ++ sep :: (rTime f.ext h mi s p ++ rOff o)) =
      .ok (dateTimeV y m d h (precFields mi s p).1 (precFields mi s p).2.1 (precFields mi s p).2.2 (offSeconds o)) := by
  obtain ⟨hto, hb⟩ := clock_timeOk hc
  have hr : SepStart (sep :: (rTime f.ext h mi s p ++ rOff o)) := by
    rcases hsep with e | e <;> subst e
    · exact Or.inr ⟨_, Or.inl rfl⟩
    · exact Or.inr ⟨_, Or.inr rfl⟩
  cases b with
  | rust =>
    have h1 := rs_prefix f y m d hv hf _ hr
    simp only [parseIso, h1, rsFinish_datetime _ _ _ _ sep hsep h mi s p o hb hc.2.2.2 ho, mkDateTime, hv, hto, and_self,
      if_true, dateTimeV]
  | py =>
    obtain ⟨hG, hGn⟩ := py_fields f y m d hv hf
    have ht : tryCand (pyGroupsOf f y m d) (sep :: (rTime f.ext h mi s p ++ rOff o)) =
        some (pyGroupsOf f y m d, some (pyGroups true f.ext h mi s p o)) := by
      simp only [tryCand, pyTimeMatch_sep sep hsep f.ext h mi s p o hb hc.2.2.2 ho]
    have hm := py_prefix f y m d hv hf _ hr _ ht
    obtain ⟨n, X, hX⟩ := rDate_digits f y m d
    have hnl : '\n' ∉ rDate f y m d ++ sep :: (rTime f.ext h mi s p ++ rOff o) := by
      have : sep ≠ '\n' := by rcases hsep with e | e <;> subst e <;> decide
      simp [nl_rDate, nl_rTime, nl_rOff, Ne.symm this]
    have hts : (pyGroups true f.ext h mi s p o).timesep = true := by cases p <;> rfl
    have hp := pyParse_of_match_dt _ (by rw [hX, List.append_assoc]; exact head_ne_P n _) hnl _ _ hm _ _ _ hG hGn hts _
      (pyTimeFields_spec true f.ext h mi s p o hc.2.2.2)
    simp only [parseIso, hp, mkDateTime, hv, hto, and_self, if_true, dateTimeV]

/-! ### stand-alone times -/

theorem exactN_add (b : Backend) (j : Nat) : ∀ (k acc n : Nat) (r : List Char),
    exactN b (j + k) acc (digits j n ++ r) = exactN b k (acc * 10 ^ j + n % 10 ^ j) r := by
  intro k acc n r
  have h := exactN_digits b j acc n r
  induction j generalizing acc with
  | zero => simp [digits, Nat.mod_one]
  | succ j ih =>
    have e : j + 1 + k = (j + k) + 1 := by omega
    rw [e]
    simp only [digits, List.cons_append, exactN, dv_digitChar_mod]
    rw [ih (10 * acc + n / 10 ^ j % 10) (exactN_digits b j _ n r)]
    congr 1
    have h1 : n % 10 ^ (j + 1) = (n / 10 ^ j % 10) * 10 ^ j + n % 10 ^ j := by
      rw [Nat.pow_succ, Nat.mod_mul, Nat.add_comm, Nat.mul_comm]
    rw [h1, Nat.pow_succ, Nat.add_mul]
    have e : 10 * acc * 10 ^ j = acc * (10 ^ j * 10) := by
      rw [Nat.mul_comm 10 acc, Nat.mul_assoc, Nat.mul_comm 10]
    rw [e]
    omega

theorem exactN4_colon (h : Nat) (r : List Char) : exactN .py 4 0 (digits 2 h ++ ':' :: r) = none := by
  rw [show (4 : Nat) = 2 + 2 from rfl, exactN_add]
  simp [exactN, (dv_sep .py).2.1]

theorem exactN4_T (r : List Char) : exactN .py 4 0 ('T' :: r) = none := by
  simp [exactN, (dv_sep .py).2.2.1]

theorem pyParse_of_match_time (cs : List Char) (hP : cs.head? ≠ some 'P') (hnl : '\n' ∉ cs) (t : PyT)
    (hmatch : pyMatch cs = some (.nodate, some t)) (tr : TimeRes) (htr : pyTimeFields t = .ok tr) :
    pyParse cs = mkTime tr.h tr.mi tr.s tr.us tr.off := by
  unfold pyParse
  rw [if_neg hP, stripNl_id cs hnl]
  simp [hmatch, pyDateFields, htr]

/-- a time with the `T` designator, basic or extended, any precision -/
theorem parse_time_T (b : Backend) (ext : Bool) (h mi s : Nat) (p : Prec) (hc : ClockOk h mi s p) (o : Off) (ho : OffOk o) :
    parseIso b ('T' :: (rTime ext h mi s p ++ rOff o)) =
      .ok (timeV h (precFields mi s p).1 (precFields mi s p).2.1 (precFields mi s p).2.2 (offSeconds o)) := by
  obtain ⟨hto, hb⟩ := clock_timeOk hc
  cases b with
  | rust =>
    simp [parseIso, rsParse, rsTimeOnly, rsTime_spec false false ext 'T' (Or.inl rfl) h mi s p o hb hc.2.2.2 ho (by simp),
      mkTime, hto, timeV]
  | py =>
    have hm : pyMatch ('T' :: (rTime ext h mi s p ++ rOff o)) = some (.nodate, some (pyGroups true ext h mi s p o)) := by
      simp [pyMatch, pyClassic, pyIsoCal, exactN4_T, tryCand, pyTimeMatch_sep 'T' (Or.inl rfl) ext h mi s p o hb hc.2.2.2 ho]
    have hnl : '\n' ∉ 'T' :: (rTime ext h mi s p ++ rOff o) := by simp [nl_rTime, nl_rOff]
    have hp := pyParse_of_match_time _ (by simp) hnl _ hm _ (pyTimeFields_spec true ext h mi s p o hc.2.2.2)
    simp only [parseIso, hp, mkTime, hto, if_true, timeV]

/-- a bare extended time `hh:mm[:ss[.f]]` (no `T`) -/
theorem parse_time_ext (b : Backend) (h mi s : Nat) (p : Prec) (hp : p ≠ .h) (hc : ClockOk h mi s p) (o : Off) (ho : OffOk o) :
    parseIso b (rTime true h mi s p ++ rOff o) =
      .ok (timeV h (precFields mi s p).1 (precFields mi s p).2.1 (precFields mi s p).2.2 (offSeconds o)) := by
  obtain ⟨hto, hb⟩ := clock_timeOk hc
  have htail : ∃ r, rTail true mi s p = ':' :: r := by
    cases p with
    | h => exact absurd rfl hp
    | hm => exact ⟨_, rfl⟩
    | hms => exact ⟨_, rfl⟩
    | frac c k n => exact ⟨_, rfl⟩
  obtain ⟨r, hr⟩ := htail
  cases b with
  | rust =>
    have h1 := rsTime_skip_spec h mi s p o hb hc.2.2.2 ho
    have e : rsParse (rTime true h mi s p ++ rOff o) = rsTimeOnly true (some h) (rTail true mi s p ++ rOff o) := by
      rw [rTime_eq, List.append_assoc]
      unfold rsParse rsMain
      simp only [head_digits2, Option.some.injEq, dc_ne_P, dc_ne_T, if_false, exactN2 _ _ _ hb.1, hr, List.cons_append,
        optChar_hit, if_true]
    simp only [parseIso, e, rsTimeOnly, h1, mkTime, hto, if_true, timeV]
  | py =>
    have hm : pyMatch (rTime true h mi s p ++ rOff o) = some (.nodate, some (pyGroups false true h mi s p o)) := by
      have e1 : exactN .py 4 0 (rTime true h mi s p ++ rOff o) = none := by
        rw [rTime_eq, List.append_assoc, hr]; exact exactN4_colon h _
      have hne : rTime true h mi s p ++ rOff o ≠ [] := by rw [rTime_eq]; simp [digits]
      unfold pyMatch pyClassic pyIsoCal
      rw [e1]
      simp only [tryCand, pyTimeMatch_bare true h mi s p o hb hc.2.2.2 ho]
      cases hcs : rTime true h mi s p ++ rOff o with
      | nil => exact absurd hcs hne
      | cons c t => simp
    have hnl : '\n' ∉ rTime true h mi s p ++ rOff o := by simp [nl_rTime, nl_rOff]
    have hp' := pyParse_of_match_time _ (by rw [rTime_eq]; simp [digits]) hnl _ hm _ (pyTimeFields_spec false true h mi s p o hc.2.2.2)
    simp only [parseIso, hp', mkTime, hto, if_true, timeV]

/-! ### reduced-precision dates -/

theorem dim_ge (y m : Int) : 28 ≤ Cal.daysInMonth y m := by
  unfold Cal.daysInMonth; split <;> (try split) <;> omega

theorem parse_year_month (b : Backend) (y m : Nat) (hy : 1 ≤ y ∧ y ≤ 9999) (hm : 1 ≤ m ∧ m ≤ 12) :
    parseIso b (rYearMonth y m) = .ok (dateV y m 1) := by
  have hv : dateOk (y : Int) (m : Int) 1 := by
    have := dim_ge y m
    unfold dateOk; omega
  cases b with
  | rust =>
    have h := rsParse_year y (by omega) ('-' :: (digits 2 m ++ []))
    rw [rsDateRest_ym y m (by omega) [] (Or.inl rfl)] at h
    simp only [List.append_nil] at h
    simp only [parseIso, rYearMonth, h, rsFinish_date, mkDate, if_pos hv]
    rfl
  | py =>
    have hm' := pyMatch_ym y m (by omega) (by omega) [] (Or.inl rfl) (.ym y true m, none) rfl
    rw [List.append_nil] at hm'
    have hp := pyParse_of_match_date (rYearMonth y m) (by rw [rYearMonth, head_digits4]; simp)
      (by simp [rYearMonth, nl_not_mem_digits]) _ hm' y m 1 (by simp [pyDateFields])
    simp only [parseIso, hp, mkDate, if_pos hv]
    rfl

theorem digits4_head_ne_P (y : Nat) : (digits 4 y).head? ≠ some 'P' := by
  have := head_ne_P y []; rwa [List.append_nil] at this

/-- `YYYY` is a date for the pure-Python `parse_iso8601` … -/
theorem py_parse_year (y : Nat) (hy : 1 ≤ y ∧ y ≤ 9999) : parseIso .py (rYear y) = .ok (dateV y 1 1) := by
  have hv : dateOk (y : Int) 1 1 := by unfold dateOk Cal.daysInMonth; simp; omega
  have hm' := pyMatch_y y (by omega) [] (Or.inl rfl) (.year y, none) rfl
  rw [List.append_nil] at hm'
  have hp := pyParse_of_match_date (rYear y) (digits4_head_ne_P y) (by simp [rYear, nl_not_mem_digits]) _ hm'
    y 1 1 (by simp [pyDateFields])
  simp only [parseIso, hp, mkDate, if_pos hv]
  rfl

theorem slash_not_mem_digits (k n : Nat) : '/' ∉ digits k n := by
  induction k with
  | zero => simp [digits]
  | succ k ih =>
    simp only [digits, List.mem_cons, not_or]
    exact ⟨fun h => (digitChar_ne (n / 10 ^ k)).2.2.2.2.2.2.2.2.2.2.1 h.symm, ih⟩

/-- … and for `parse()` of both backends (the compiled `parse_iso8601` rejects it; `_parse_common` accepts it) -/
theorem public_parse_year (b : Backend) (tz : Option Int) (now : Int × Int × Int) (y : Nat) (hy : 1 ≤ y ∧ y ≤ 9999) :
    publicParse b true tz now (rYear y) = .ok (dateV y 1 1) := by
  have hv : dateOk (y : Int) 1 1 := by unfold dateOk Cal.daysInMonth; simp; omega
  have hnow : rYear y ≠ ['n', 'o', 'w'] := by
    simp [rYear, digits]
  unfold publicParse
  rw [if_neg hnow]
  cases b with
  | py => simp [parseChain, py_parse_year y hy, wrap, dateV]
  | rust =>
    have h := rsParse_year y (by omega) []
    rw [List.append_nil] at h
    have h4 := exactN4 .py y [] (by omega)
    rw [List.append_nil] at h4
    have hc : commonParse (digits 4 y) = .ok (dateV y 1 1) := by
      unfold commonParse
      simp only [stripNl_id (digits 4 y) (nl_not_mem_digits 4 y), h4]
      simp [optSep, exactN, cmTry, cmBuild, mkDate, hv, dateV]
    have hr : rsParse (digits 4 y) = .error .valueError := by
      rw [h]; simp [rsDateRest, rsBasicTail, exactN, rsFinish, optChar]
    simp [parseChain, parseIso, rYear, hr, slash_not_mem_digits, hc, wrap, dateV]

end Pendulum.Iso
