import Pendulum.Proofs.Zone3
namespace Pendulum.Zone

/-- between the two thresholds of the head, the two folds give different offsets unless the head is a no-op -/
theorem mid_offsets (init : Int) (a : Tr) (rest : List Tr) (T : Int) (hwf : WF init (a :: rest))
    (hB : ¬ T < thr true init a) (hA : T < thr false init a) :
    wallOff false init (a :: rest) T = init ∧ wallOff true init (a :: rest) T = a.off := by
  constructor
  · exact wallOff_lt false init a rest T hA
  · rw [wallOff_ge true init a rest T hB]
    cases rest with
    | nil => simp [wallOff]
    | cons b r =>
      have := next_thr init a b r hwf
      exact wallOff_lt true a.off b r T (by omega)

/-- order lemma, lower half: every instant before the (unique) instant of T renders strictly before T -/
theorem lt_of_lt_unique (l : List Tr) : ∀ (init T u : Int), WF init l → inGap init l T = false →
    wallOff false init l T = wallOff true init l T →
    u < T - wallOff false init l T → u + offAt init l u < T := by
  induction l with
  | nil => intro init T u _ _ _ h; simp [wallOff, offAt] at *; omega
  | cons a rest ih =>
    intro init T u hwf hg huniq hu
    have hBA := thr_le init a
    by_cases hB : T < thr true init a
    · have hA : T < thr false init a := by omega
      rw [wallOff_lt false init a rest T hA] at hu
      have : u < a.t := by
        unfold thr at hB; simp only [if_true] at hB; omega
      rw [offAt_lt init a rest u this]; omega
    · by_cases hA : T < thr false init a
      · obtain ⟨e0, e1⟩ := mid_offsets init a rest T hwf hB hA
        rw [e0, e1] at huniq
        unfold thr at hB hA
        simp only [if_true, Bool.false_eq_true, if_false] at hB hA
        omega
      · rw [wallOff_ge false init a rest T hA] at hu
        rw [wallOff_ge false init a rest T hA, wallOff_ge true init a rest T hB] at huniq
        by_cases hua : u < a.t
        · rw [offAt_lt init a rest u hua]
          unfold thr at hA; simp only [Bool.false_eq_true, if_false] at hA; omega
        · rw [offAt_ge init a rest u hua]
          have hgt : inGap a.off rest T = false := by
            simp only [inGap, Bool.or_eq_false_iff] at hg; exact hg.2
          exact ih a.off T u (wf_tail hwf) hgt huniq hu

/-- order lemma, upper half -/
theorem gt_of_gt_unique (l : List Tr) : ∀ (init T u : Int), WF init l → inGap init l T = false →
    wallOff false init l T = wallOff true init l T →
    T - wallOff false init l T < u → T < u + offAt init l u := by
  induction l with
  | nil => intro init T u _ _ _ h; simp [wallOff, offAt] at *; omega
  | cons a rest ih =>
    intro init T u hwf hg huniq hu
    have hBA := thr_le init a
    by_cases hB : T < thr true init a
    · have hA : T < thr false init a := by omega
      rw [wallOff_lt false init a rest T hA] at hu
      by_cases hua : u < a.t
      · rw [offAt_lt init a rest u hua]; omega
      · have := wall_lower rest init a u hwf (by omega)
        unfold thr at hB; simp only [if_true] at hB; omega
    · by_cases hA : T < thr false init a
      · obtain ⟨e0, e1⟩ := mid_offsets init a rest T hwf hB hA
        rw [e0, e1] at huniq
        unfold thr at hB hA
        simp only [if_true, Bool.false_eq_true, if_false] at hB hA
        omega
      · have hlow := cand_lower false rest init T a hwf hg hA
        have hua : ¬ u < a.t := by omega
        rw [wallOff_ge false init a rest T hA] at hu
        rw [wallOff_ge false init a rest T hA, wallOff_ge true init a rest T hB] at huniq
        rw [offAt_ge init a rest u hua]
        have hgt : inGap a.off rest T = false := by
          simp only [inGap, Bool.or_eq_false_iff] at hg; exact hg.2
        exact ih a.off T u (wf_tail hwf) hgt huniq hu

end Pendulum.Zone
