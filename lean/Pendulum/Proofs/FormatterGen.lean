import Pendulum.Model.FmtParse
import Pendulum.Proofs.GenTie
import Pendulum.Proofs.FmtDigits
import Pendulum.Proofs.FmtMisc
import Pendulum.Proofs.FmtClass
import Pendulum.Gen.Formatter
/-! Tie between the *generated* translation of the control flow of `Formatter.format` / `Formatter.parse` and of the wrappers
`DateTime.format` / `pendulum.from_format` (`Pendulum.Gen.Formatter`, regenerated from formatter.py, mixins/default.py and
__init__.py on every run by tools/gen_formatter.py) and the hand models `Model/Fmt.lean`, `Model/FmtParse.lean` the C08 theorems
are stated about.

Interface between the two vocabularies (hand-written, small):
* `refOps re L find deflt now`: what the hand model says about every external callee (`Ops`) — the locale object as the
  record `Loc`, `int()` as `intOf`, a float as (floor of the seconds, microseconds of the floor) = `parseTimestamp`,
  timezones as `TzP`, DateTime objects as `DV` (a date with its proleptic ordinal, or a finished result), `re.fullmatch` of
  the assembled pattern as the model's recognisers + depth-first matcher (`refFullmatch`).  The only field left abstract is
  `re` = `_FORMAT_RE` applied to a format string; the hypothesis `SegsOk re fmt` says that the matches read as the model's
  token list (`itemsOfSegs (re fmt) = tokenize fmt`).
* `toParsed` / `ofResult`: the `parsed` / `validated` dictionaries as the model's `Parsed` / `Result`. -/
set_option linter.unusedSimpArgs false
set_option linter.unusedVariables false
namespace Pendulum.FormatterGen
open Pendulum Pendulum.Fmt
open Pendulum.Gen.Formatter (bindE pyFor pyWhile hasKey dictGet FMatch Segs PatEl FPart LocArg PTok PDict VDict Time7 Ops PyQ)
open Pendulum.GenTie

open Lean Elab Tactic in
/-- `ftie "theorem" "source" => tacs`: run `tacs` without error recovery; when they fail — resource limits (heartbeats,
    recursion depth) included — log a short version of the error and then the name of the property theorem whose tie broke
    (the check keeps the `TIE BROKEN` lines of the build log).  Same purpose as `gen_tie` (Proofs/GenTie.lean), which lets
    resource-limit exceptions through. -/
elab "ftie " n:str src:str " => " t:tacticSeq : tactic => do
  let note : MessageData :=
    m!"GENERATED-MODEL TIE BROKEN: theorem {n.getString} — {src.getString} no longer equals the hand model (details: the error just above)"
  let before := (← getThe Core.State).messages.hasErrors
  tryCatchRuntimeEx
    (Lean.Elab.Tactic.withoutRecover (evalTactic t))
    fun e => do
      if e matches .error .. then
        let msg ← e.toMessageData.toString
        let msg := if msg.length > 600 then (msg.take 600).toString ++ " …" else msg
        logError m!"{msg}"
        logError note
        throwAbortTactic
      else
        logError note
        throw e
  if !before && (← getThe Core.State).messages.hasErrors then
    logError note

/-! ## vocabulary -/

/-- a DateTime object as far as `_check_parsed` / `from_format` look at it: a date with its proleptic ordinal, or the
    finished result of `pendulum.datetime(**parts)` -/
inductive DV
  | date (y m d ord : Int)
  | made (v : VDict TzP)

def DV.y : DV → Int
  | .date y _ _ _ => y
  | .made _ => 0
def DV.m : DV → Int
  | .date _ m _ _ => m
  | .made _ => 0
def DV.d : DV → Int
  | .date _ _ d _ => d
  | .made _ => 0
def DV.ord : DV → Int
  | .date _ _ _ o => o
  | .made _ => 0

def DV.ofYMD (y m d : Int) : DV := .date y m d (Cal.ymd2ord y m d)
def DV.ofOrd (o : Int) : DV := .date (Cal.ord2ymd o).1 (Cal.ord2ymd o).2.1 (Cal.ord2ymd o).2.2 o
def DV.ofNow (n : Now) : DV := DV.ofYMD n.year n.month n.day

/-- the matches of `_FORMAT_RE` read as the model's token list: text between matches and escaped text are literal items
    (`m.group(1) or m.group(2) or ""`), group 3 is a token -/
def itemOfMatch (m : FMatch) : Item :=
  match m.g3 with
  | some t => Item.tok t.toList
  | none => Item.lit (Gen.Formatter.optOr m.g1 (Gen.Formatter.optOr m.g2 []))

def itemsOfSegs (s : Segs) : List Item :=
  s.ms.flatMap (fun m => m.before.map (fun c => Item.lit [c]) ++ [itemOfMatch m]) ++ s.tail.map (fun c => Item.lit [c])

/-- hypothesis on the regular-expression engine: `_FORMAT_RE` cuts `fmt` as the model's tokenizer does, and a match through
    the token group has no other group (the three groups are the three alternatives of `_TOKENS`) -/
def SegsOk (re : Str → Segs) (fmt : Str) : Prop :=
  itemsOfSegs (re fmt) = tokenize fmt ∧
  ∀ m ∈ (re fmt).ms, m.g3 = none ∨ (m.g1 = none ∧ m.g2 = none)

/-- a segmentation with the model's items, one match per item (literal items as group 1) -/
def refSegs (items : List Item) : Segs :=
  { ms := items.map (fun it => match it with
      | Item.lit s => { before := [], g1 := some s, g2 := none, g3 := none }
      | Item.tok t => { before := [], g1 := none, g2 := none, g3 := some (String.ofList t) }),
    tail := [] }

/-- the pattern `Formatter.parse` assembles, as the model's pattern elements -/
def pelsOfPat : List PatEl → List PEl
  | [] => []
  | PatEl.esc s :: r => s.map PEl.lit ++ pelsOfPat r
  | PatEl.raw s :: r => s.map PEl.lit ++ pelsOfPat r
  | PatEl.group n _ :: r => PEl.tok n :: pelsOfPat r

/-- the alternatives the model's recogniser of a token stands for (`groupOf`), as `_replace_tokens` computes them -/
def expectedAlts (L : Loc) (tok : String) : Option (List Str) :=
  match Gen.Format.localizableKeys.find? (fun p => p.1 == tok) with
  | some (_, _) =>
    if tok == "MMMM" then some (L.monthsWide.map String.toList)
    else if tok == "MMM" then some (L.monthsAbbr.map String.toList)
    else if tok == "dddd" then some (L.daysWide.map String.toList)
    else if tok == "ddd" then some (L.daysAbbr.map String.toList)
    else if tok == "dd" then some (L.daysShort.map String.toList)
    else if tok == "Do" then L.ordinalSuffix.map (fun tbl => tbl.map (fun p => "\\d+".toList ++ p.2.toList))
    else if tok == "A" then some [L.am.toList, L.pm.toList]
    else if tok == "a" then some [L.amLower.toList, L.pmLower.toList]
    else none
  | none => (Gen.Format.regexTokens.find? (fun p => p.1 == tok)).map (fun p => p.2.map String.toList)

/-- every group of the pattern carries the alternatives the model's recogniser was written for -/
def altsOk (L : Loc) : List PatEl → Bool
  | [] => true
  | PatEl.group n alts :: r => (expectedAlts L n == some alts) && altsOk L r
  | _ :: r => altsOk L r

/-- `re.fullmatch(pattern, time)` as the model has it: recognisers per group, depth-first over the candidate lengths,
    `re.error` for a repeated group name; a pattern whose groups are not the modelled ones is "Unmodelled" -/
def refFullmatch (L : Loc) (pat : List PatEl) (time : Str) : Except String (Option (List (String × Str))) :=
  if !altsOk L pat then .error "Unmodelled" else
  match elsOf L (pelsOfPat pat) with
  | .error k => .error k
  | .ok els =>
    if hasDup ((pelsOfPat pat).filterMap PEl.tokName?) then .error "error" else
    match dfs (fun s => s.isEmpty) els time with
    | none => .ok none
    | some ns => .ok (some (groupValues (pelsOfPat pat) ns time))

/-- the digits after the point of `str(f)` for a float given as (floor, microseconds of the floor) -/
def fracDigits (f : Int × Int) : Int := if f.1 < 0 && f.2 != 0 then 1000000 - f.2 else f.2

/-- what the hand model says about every external callee -/
def refOps (re : Str → Segs) (L : Loc) (find : String → Option Loc) (deflt : String) (now : Now) :
    Ops Loc (Int × Int) TzP DV where
  FORMAT_RE := re
  get_locale := deflt
  Locale_load := fun a =>
    match a with
    | .obj l => .ok l
    | .name s => (match find s with | some l => .ok l | none => .error "ValueError")
    | .absent => .error "TypeError"
  locale_get_item := fun l path i =>
    if path == "translations.months.abbreviated" then nameAt l.monthsAbbr (i - 1)
    else if path == "translations.months.wide" then nameAt l.monthsWide (i - 1)
    else if path == "translations.days.short" then nameAt l.daysShort i
    else if path == "translations.days.abbreviated" then nameAt l.daysAbbr i
    else if path == "translations.days.wide" then nameAt l.daysWide i
    else .error "Unmodelled"
  locale_get_int := fun l path => if path == "translations.week_data.first_day" then l.firstDay else none
  locale_get_str := fun l key =>
    if key == "translations.day_periods.pm" then .ok l.pm.toList
    else if key == "translations.day_periods.am" then .ok l.am.toList
    else .error "Unmodelled"
  locale_get_prefixed := fun l pre k => if pre == "custom.date_formats." then lookupS l.dateFormats k else none
  locale_get_values := fun l path =>
    if path == "custom.ordinal" then
      (match l.ordinalSuffix with
       | none => .error "AttributeError"
       | some tbl => .ok (tbl.map (fun p => p.2.toList)))
    else .error "Unmodelled"
  locale_translation := fun l path =>
    if path == "day_periods.am" then l.am.toList else if path == "day_periods.pm" then l.pm.toList else []
  locale_translation_values := fun l kind =>
    if kind == "path:months.wide" then .ok (l.monthsWide.map String.toList)
    else if kind == "path:months.abbreviated" then .ok (l.monthsAbbr.map String.toList)
    else if kind == "path:days.wide" then .ok (l.daysWide.map String.toList)
    else if kind == "path:days.abbreviated" then .ok (l.daysAbbr.map String.toList)
    else if kind == "path:days.short" then .ok (l.daysShort.map String.toList)
    else if kind == "none" then .error "AttributeError"
    else .error "Unmodelled"
  locale_ordinalize := fun l n => ordinalize l n
  locale_match_translation := fun l key v =>
    if key == "months.wide" then matchTranslation l.monthsWide 1 v
    else if key == "months.abbreviated" then matchTranslation l.monthsAbbr 1 v
    else if key == "days.wide" then matchTranslation l.daysWide 0 v
    else if key == "days.abbreviated" then matchTranslation l.daysAbbr 0 v
    else if key == "days.short" then matchTranslation l.daysShort 0 v
    else none
  str_lower := fun s => if s == L.am.toList then L.amLower.toList else if s == L.pm.toList then L.pmLower.toList else s
  py_int := fun s => match intOf s with | some n => .ok n | none => .error "ValueError"
  py_float := fun ms s => parseTimestamp ms s
  float_str := fun f => '0' :: '.' :: pyFmtD 6 (fracDigits f)
  float_lt0 := fun f => decide (f.1 < 0)
  local_time := fun f off us =>
    let (y, mo, d, h, mi, s) := LocalTime.localTime false LocalTime.pyTbl f.1 off
    ⟨y, mo, d, h, mi, s, us⟩
  re_fullmatch := refFullmatch L
  re_match_group := fun rx i s =>
    if rx == "(\\d+)" && i == 1 then
      (if (s.takeWhile Char.isDigit).isEmpty then .error "AttributeError" else .ok (s.takeWhile Char.isDigit))
    else .error "Unmodelled"
  timezones_contains := fun s => Gen.FormatZones.tzNames.contains (String.ofList s)
  timezone_of_offset := TzP.fixed
  timezone_of_name := TzP.named
  pendulum_datetime := fun y m d => if validYMD y m d then .ok (DV.ofYMD y m d) else .error "ValueError"
  pendulum_parse := fun parts =>
    match parts with
    | [FPart.val (some y) "", FPart.lit "-", FPart.val (some doy) ">03d"] =>
      if decide (1 ≤ doy ∧ doy ≤ Cal.daysInYear y) && decide (1000 ≤ y ∧ y ≤ 9999) then
        .ok (DV.ofOrd (Cal.ymd2ord y 1 1 + doy - 1))
      else .error "ValueError"
    | _ => .error "Unmodelled"
  pendulum_now := fun _ => .ok (DV.ofNow now)
  pendulum_datetime_kw := fun v => .ok (DV.made v)
  dt_year := DV.y
  dt_month := DV.m
  dt_day := DV.d
  dt_quarter := fun v => (v.m + 2) / 3
  dt_start_of := fun v unit =>
    if unit == "year" then .ok (DV.ofYMD v.y 1 1)
    else if unit == "week" then .ok (DV.ofOrd (v.ord - (v.ord + 6) % 7))
    else .error "Unmodelled"
  dt_add_months := fun v n =>
    -- on the first of a month (no day clamping)
    if v.d != 1 then .error "Unmodelled" else
    let y' := v.y + (v.m + n - 1) / 12
    if decide (y' < 1 ∨ y' > 9999) then .error "ValueError" else .ok (DV.ofYMD y' ((v.m + n - 1) % 12 + 1) 1)
  dt_subtract_days := fun v n =>
    -- for n ≥ 0: only the lower end of the calendar can be passed
    if decide (v.ord - n < 1) then .error "OverflowError" else .ok (DV.ofOrd (v.ord - n))
  dt_next := fun v dow =>
    if decide (dow < 0 ∨ dow > 6) then .error "ValueError" else
    let r := v.ord + ((dow - (v.ord + 6) % 7 - 1) % 7 + 1)
    if decide (r > 3652059) then .error "OverflowError" else .ok (DV.ofOrd r)

/-! projections of `refOps` (simp lemmas; unfolding the whole record is too expensive) -/
section proj
variable (re : Str → Segs) (L : Loc) (find : String → Option Loc) (deflt : String) (now : Now)
@[simp] theorem refOps_FORMAT_RE : (refOps re L find deflt now).FORMAT_RE = (re) := rfl
@[simp] theorem refOps_get_locale : (refOps re L find deflt now).get_locale = (deflt) := rfl
@[simp] theorem refOps_Locale_load : (refOps re L find deflt now).Locale_load = (fun a =>
    match a with
    | .obj l => .ok l
    | .name s => (match find s with | some l => .ok l | none => .error "ValueError")
    | .absent => .error "TypeError") := rfl
@[simp] theorem refOps_locale_get_item : (refOps re L find deflt now).locale_get_item = (fun l path i =>
    if path == "translations.months.abbreviated" then nameAt l.monthsAbbr (i - 1)
    else if path == "translations.months.wide" then nameAt l.monthsWide (i - 1)
    else if path == "translations.days.short" then nameAt l.daysShort i
    else if path == "translations.days.abbreviated" then nameAt l.daysAbbr i
    else if path == "translations.days.wide" then nameAt l.daysWide i
    else .error "Unmodelled") := rfl
@[simp] theorem refOps_locale_get_int : (refOps re L find deflt now).locale_get_int = (fun l path => if path == "translations.week_data.first_day" then l.firstDay else none) := rfl
@[simp] theorem refOps_locale_get_str : (refOps re L find deflt now).locale_get_str = (fun l key =>
    if key == "translations.day_periods.pm" then .ok l.pm.toList
    else if key == "translations.day_periods.am" then .ok l.am.toList
    else .error "Unmodelled") := rfl
@[simp] theorem refOps_locale_get_prefixed : (refOps re L find deflt now).locale_get_prefixed = (fun l pre k => if pre == "custom.date_formats." then lookupS l.dateFormats k else none) := rfl
@[simp] theorem refOps_locale_get_values : (refOps re L find deflt now).locale_get_values = (fun l path =>
    if path == "custom.ordinal" then
      (match l.ordinalSuffix with
       | none => .error "AttributeError"
       | some tbl => .ok (tbl.map (fun p => p.2.toList)))
    else .error "Unmodelled") := rfl
@[simp] theorem refOps_locale_translation : (refOps re L find deflt now).locale_translation = (fun l path =>
    if path == "day_periods.am" then l.am.toList else if path == "day_periods.pm" then l.pm.toList else []) := rfl
@[simp] theorem refOps_locale_translation_values : (refOps re L find deflt now).locale_translation_values = (fun l kind =>
    if kind == "path:months.wide" then .ok (l.monthsWide.map String.toList)
    else if kind == "path:months.abbreviated" then .ok (l.monthsAbbr.map String.toList)
    else if kind == "path:days.wide" then .ok (l.daysWide.map String.toList)
    else if kind == "path:days.abbreviated" then .ok (l.daysAbbr.map String.toList)
    else if kind == "path:days.short" then .ok (l.daysShort.map String.toList)
    else if kind == "none" then .error "AttributeError"
    else .error "Unmodelled") := rfl
@[simp] theorem refOps_locale_ordinalize : (refOps re L find deflt now).locale_ordinalize = (fun l n => ordinalize l n) := rfl
@[simp] theorem refOps_locale_match_translation : (refOps re L find deflt now).locale_match_translation = (fun l key v =>
    if key == "months.wide" then matchTranslation l.monthsWide 1 v
    else if key == "months.abbreviated" then matchTranslation l.monthsAbbr 1 v
    else if key == "days.wide" then matchTranslation l.daysWide 0 v
    else if key == "days.abbreviated" then matchTranslation l.daysAbbr 0 v
    else if key == "days.short" then matchTranslation l.daysShort 0 v
    else none) := rfl
@[simp] theorem refOps_str_lower : (refOps re L find deflt now).str_lower = (fun s => if s == L.am.toList then L.amLower.toList else if s == L.pm.toList then L.pmLower.toList else s) := rfl
@[simp] theorem refOps_py_int : (refOps re L find deflt now).py_int = (fun s => match intOf s with | some n => .ok n | none => .error "ValueError") := rfl
@[simp] theorem refOps_py_float : (refOps re L find deflt now).py_float = (fun ms s => parseTimestamp ms s) := rfl
@[simp] theorem refOps_float_str : (refOps re L find deflt now).float_str = (fun f => '0' :: '.' :: pyFmtD 6 (fracDigits f)) := rfl
@[simp] theorem refOps_float_lt0 : (refOps re L find deflt now).float_lt0 = (fun f => decide (f.1 < 0)) := rfl
@[simp] theorem refOps_local_time : (refOps re L find deflt now).local_time = (fun f off us =>
    let (y, mo, d, h, mi, s) := LocalTime.localTime false LocalTime.pyTbl f.1 off
    ⟨y, mo, d, h, mi, s, us⟩) := rfl
@[simp] theorem refOps_re_fullmatch : (refOps re L find deflt now).re_fullmatch = (refFullmatch L) := rfl
@[simp] theorem refOps_re_match_group : (refOps re L find deflt now).re_match_group = (fun rx i s =>
    if rx == "(\\d+)" && i == 1 then
      (if (s.takeWhile Char.isDigit).isEmpty then .error "AttributeError" else .ok (s.takeWhile Char.isDigit))
    else .error "Unmodelled") := rfl
@[simp] theorem refOps_timezones_contains : (refOps re L find deflt now).timezones_contains = (fun s => Gen.FormatZones.tzNames.contains (String.ofList s)) := rfl
@[simp] theorem refOps_timezone_of_offset : (refOps re L find deflt now).timezone_of_offset = (TzP.fixed) := rfl
@[simp] theorem refOps_timezone_of_name : (refOps re L find deflt now).timezone_of_name = (TzP.named) := rfl
@[simp] theorem refOps_pendulum_datetime : (refOps re L find deflt now).pendulum_datetime = (fun y m d => if validYMD y m d then .ok (DV.ofYMD y m d) else .error "ValueError") := rfl
@[simp] theorem refOps_pendulum_parse : (refOps re L find deflt now).pendulum_parse = (fun parts =>
    match parts with
    | [FPart.val (some y) "", FPart.lit "-", FPart.val (some doy) ">03d"] =>
      if decide (1 ≤ doy ∧ doy ≤ Cal.daysInYear y) && decide (1000 ≤ y ∧ y ≤ 9999) then
        .ok (DV.ofOrd (Cal.ymd2ord y 1 1 + doy - 1))
      else .error "ValueError"
    | _ => .error "Unmodelled") := rfl
@[simp] theorem refOps_pendulum_now : (refOps re L find deflt now).pendulum_now = (fun _ => .ok (DV.ofNow now)) := rfl
@[simp] theorem refOps_pendulum_datetime_kw : (refOps re L find deflt now).pendulum_datetime_kw = (fun v => .ok (DV.made v)) := rfl
@[simp] theorem refOps_dt_year : (refOps re L find deflt now).dt_year = (DV.y) := rfl
@[simp] theorem refOps_dt_month : (refOps re L find deflt now).dt_month = (DV.m) := rfl
@[simp] theorem refOps_dt_day : (refOps re L find deflt now).dt_day = (DV.d) := rfl
@[simp] theorem refOps_dt_quarter : (refOps re L find deflt now).dt_quarter = (fun v => (v.m + 2) / 3) := rfl
@[simp] theorem refOps_dt_start_of : (refOps re L find deflt now).dt_start_of = (fun v unit =>
    if unit == "year" then .ok (DV.ofYMD v.y 1 1)
    else if unit == "week" then .ok (DV.ofOrd (v.ord - (v.ord + 6) % 7))
    else .error "Unmodelled") := rfl
@[simp] theorem refOps_dt_add_months : (refOps re L find deflt now).dt_add_months = (fun v n =>
    -- on the first of a month (no day clamping)
    if v.d != 1 then .error "Unmodelled" else
    let y' := v.y + (v.m + n - 1) / 12
    if decide (y' < 1 ∨ y' > 9999) then .error "ValueError" else .ok (DV.ofYMD y' ((v.m + n - 1) % 12 + 1) 1)) := rfl
@[simp] theorem refOps_dt_subtract_days : (refOps re L find deflt now).dt_subtract_days = (fun v n =>
    -- for n ≥ 0: only the lower end of the calendar can be passed
    if decide (v.ord - n < 1) then .error "OverflowError" else .ok (DV.ofOrd (v.ord - n))) := rfl
@[simp] theorem refOps_dt_next : (refOps re L find deflt now).dt_next = (fun v dow =>
    if decide (dow < 0 ∨ dow > 6) then .error "ValueError" else
    let r := v.ord + ((dow - (v.ord + 6) % 7 - 1) % 7 + 1)
    if decide (r > 3652059) then .error "OverflowError" else .ok (DV.ofOrd r)) := rfl
end proj

/-- the `parsed` dictionary as the model's `Parsed` (the meridiem "am"/"pm" as a Boolean) -/
def toParsed (g : PDict (Int × Int) TzP) : Parsed :=
  { year := g.year, month := g.month, day := g.day, hour := g.hour, minute := g.minute, second := g.second,
    microsecond := g.microsecond, tz := g.tz, quarter := g.quarter, day_of_week := g.day_of_week,
    day_of_year := g.day_of_year, meridiem := g.meridiem.map (fun s => s == "pm".toList), timestamp := g.timestamp }

/-- the model's result as the `validated` dictionary -/
def ofResult (r : Result) : VDict TzP :=
  { year := some r.year, month := some r.month, day := some r.day, hour := some r.hour, minute := some r.minute,
    second := some r.second, microsecond := some r.microsecond, tz := r.tz }

def mapE {α β : Type} (f : α → β) : Except String α → Except String β
  | .ok v => .ok (f v)
  | .error e => .error e

/-! ## the exception monad of the generated code -/

@[simp] theorem bindE_ok {α β : Type} (v : α) (f : α → Except String β) : bindE (.ok v) f = f v := rfl
@[simp] theorem bindE_error {α β : Type} (e : String) (f : α → Except String β) :
    bindE (.error e : Except String α) f = .error e := rfl
@[simp] theorem mapE_ok {α β : Type} (f : α → β) (v : α) : mapE f (.ok v : Except String α) = .ok (f v) := rfl
@[simp] theorem mapE_error {α β : Type} (f : α → β) (e : String) : mapE f (.error e : Except String α) = .error e := rfl

theorem bindE_ok_eta {α : Type} (x : Except String α) : bindE x (fun v => .ok v) = x := by
  cases x <;> rfl

/-! ## `format()` -/

open Lean Elab Tactic Meta in
/-- the goal is `(if c then a else b) = rhs`: case split on `c` (hypothesis `h`), rewriting the `if` on the left and, when it
    has the same condition, on the right.  Leaves the two goals (then, else). -/
elab "ifhead " h:ident : tactic => do
  let g ← getMainGoal
  let t := (← instantiateMVars (← g.getType)).consumeMData
  let some (_, lhs, _) := t.eq? | throwError "ifhead: the goal is not an equation"
  match lhs.consumeMData.getAppFnArgs with
  | (``ite, #[_, c, _, _, _]) =>
    let stx ← Term.exprToSyntax c
    evalTactic (← `(tactic| by_cases $h:ident : $stx))
    let gs ← getGoals
    match gs with
    | gp :: gn :: rest =>
      setGoals [gp]
      evalTactic (← `(tactic| (rw [if_pos $h:ident]; try rw [if_pos $h:ident])))
      let gp' ← getGoals
      setGoals [gn]
      evalTactic (← `(tactic| (rw [if_neg $h:ident]; try rw [if_neg $h:ident])))
      let gn' ← getGoals
      setGoals (gp' ++ gn' ++ rest)
    | _ => throwError "ifhead: unexpected goals"
  | _ => throwError "ifhead: the left-hand side does not start with `if`"

theorem format_localizable_tie (re) (L l : Loc) (find deflt now) (dt : DTF) (tok : String) :
    Gen.Formatter.format_localizable_token (refOps re L find deflt now) dt tok l = formatLocalizable l dt tok := by
  ftie "Pendulum.Props.C08.format_token_source_eq_model" "Formatter._format_localizable_token" =>
    unfold Gen.Formatter.format_localizable_token formatLocalizable
    ifhead h; · simp
    ifhead h; · simp
    ifhead h; · simp
    ifhead h; · simp
    ifhead h; · simp
    ifhead h
    · simp only [refOps_locale_get_int, if_true, beq_self_eq_true]
      cases l.firstDay with
      | none => rfl
      | some fd =>
        simp only [Gen.Formatter.py_sub_opt, bindE_ok]
        rw [natStr_eq _ (Int.emod_nonneg _ (by decide))]
    ifhead h; · simp
    ifhead h; · simp
    ifhead h; · simp
    ifhead h; · simp
    ifhead h; · simp
    ifhead h; · simp
    ifhead h
    · simp only [refOps_locale_get_int, refOps_locale_ordinalize, if_true, beq_self_eq_true]
      cases l.firstDay with
      | none => rfl
      | some fd => simp only [Gen.Formatter.py_sub_opt, bindE_ok]
    ifhead h
    · simp only [refOps_locale_get_str]
      by_cases hh : dt.hour ≥ 12
      · simp [hh]
      · simp [hh]

theorem rule_isSome (tok : String) (dt : DTF) :
    Gen.Format.tokensRulesKeys.contains tok = (Gen.Format.rule tok dt).isSome := by
  unfold Gen.Format.rule
  split <;> first | (simp only [Option.isSome_some]; decide) | skip
  simp_all [Gen.Format.tokensRulesKeys]

theorem find_keys {β : Type} (tbl : List (String × β)) (k : String)
    (h : (tbl.find? (fun p => p.1 == k)).isSome = true) : k ∈ tbl.map (·.1) := by
  rw [List.find?_isSome] at h
  obtain ⟨x, hx, he⟩ := h
  have : x.1 = k := by simpa using he
  exact List.mem_map.2 ⟨x, hx, this⟩

theorem dateFormat_default (tok : String) (h : isDateFormat tok = true) :
    dictGet Gen.Format.defaultDateFormats tok = .ok ((lookupS Gen.Format.defaultDateFormats tok).getD "") := by
  have := find_keys _ _ h
  simp [Gen.Format.dateFormats] at this
  rcases this with h|h|h|h|h|h <;> subst h <;> decide

theorem py_abs_tdiv60 (off : Int) : Gen.Formatter.py_abs (Int.tdiv off (1 * 60)) = ((off.natAbs / 60 : Nat) : Int) := by
  have h1 : ∀ x : Int, Gen.Formatter.py_abs x = (x.natAbs : Int) := by
    intro x; unfold Gen.Formatter.py_abs; split <;> omega
  rw [h1, Int.natAbs_tdiv]; rfl

theorem z_render (tok : String) (off : Int) :
    (let separator := if (tok == "Z") = true then ":" else "";
     let offset := if (off != 0) = true then off else 0;
     let minutes := ({ num := offset, den := 1 } : PyQ).div 60;
     let sign := if minutes.ge0 = true then "+" else "-";
     let hour := Gen.Formatter.py_abs minutes.trunc / 60;
     let minute := Gen.Formatter.py_abs minutes.trunc % 60;
     sign.toList ++ pyFmtD 2 hour ++ separator.toList ++ pyFmtD 2 minute) = offsetStr (tok == "Z") off := by
  have ho : (if (off != 0) = true then off else 0) = off := by
    by_cases h : off = 0 <;> simp [h]
  simp only [ho, PyQ.div, PyQ.ge0, PyQ.trunc, py_abs_tdiv60, offsetStr]
  by_cases hs : off ≥ 0 <;> by_cases hz : (tok == "Z") = true <;> simp [hs, hz]

theorem format_token_tie (sf : DTF → Str → LocArg Loc → Except String Str) (re) (L l : Loc) (find deflt now) (dt : DTF)
    (tok : String) :
    Gen.Formatter.format_token sf (refOps re L find deflt now) dt tok l =
      if isDateFormat tok then sf dt (dateFormatOf l tok).toList (LocArg.obj l) else formatToken l dt tok := by
  ftie "Pendulum.Props.C08.format_token_source_eq_model" "Formatter._format_token" =>
    unfold Gen.Formatter.format_token formatToken
    by_cases hd : isDateFormat tok = true
    · have hk : hasKey Gen.Format.dateFormats tok = true := hd
      rw [if_pos hk, if_pos hd]
      simp only [refOps_locale_get_prefixed, beq_self_eq_true, if_true, dateFormatOf]
      cases hl : lookupS l.dateFormats tok with
      | some f => rfl
      | none => simp only [dateFormat_default tok hd, bindE_ok]
    · have hk : ¬ hasKey Gen.Format.dateFormats tok = true := hd
      rw [if_neg hk, if_neg hd, if_neg hd]
      simp only [hasKey]
      ifhead h
      · exact format_localizable_tie re L l find deflt now dt tok
      rw [rule_isSome tok dt]
      cases hr : Gen.Format.rule tok dt with
      | some s => simp [Gen.Formatter.py_call_rule]
      | none =>
        simp only [Option.isSome_none, Bool.false_eq_true, if_false]
        ifhead hz
        · cases ha : dt.aware with
          | false => simp
          | true =>
            simp only [Bool.not_true, Bool.false_eq_true, if_false, if_true]
            exact congrArg Except.ok (z_render tok dt.offset)

/-! ### `Formatter.format` -/

/-- what one item becomes after `n` levels of date-format expansion -/
def expand1 (l : Loc) : Nat → Item → List Item
  | 0, it => [it]
  | n+1, Item.tok t =>
    if isDateFormat (String.ofList t) then expandItems l n (tokenize (dateFormatOf l (String.ofList t)).toList) else [Item.tok t]
  | _+1, it => [it]

theorem expandItems_flatMap (l : Loc) (n : Nat) (its : List Item) : expandItems l n its = its.flatMap (expand1 l n) := by
  cases n with
  | zero =>
    simp only [expandItems]
    induction its with
    | nil => rfl
    | cons it its ih => simp only [List.flatMap_cons, expand1, List.singleton_append, ← ih]
  | succ n =>
    simp only [expandItems]
    congr 1
    funext it
    cases it <;> simp [expand1]

theorem formatItems_append (l : Loc) (dt : DTF) (a b : List Item) :
    formatItems l dt (a ++ b) =
      bindE (formatItems l dt a) fun x => bindE (formatItems l dt b) fun y => .ok (x ++ y) := by
  induction a with
  | nil => simp [formatItems]; cases formatItems l dt b <;> rfl
  | cons it a ih =>
    cases it with
    | lit s =>
      simp only [List.cons_append, formatItems, ih]
      cases formatItems l dt a <;> simp
      cases formatItems l dt b <;> simp
    | tok t =>
      simp only [List.cons_append, formatItems, ih]
      cases formatToken l dt (String.ofList t) <;> cases formatItems l dt a <;> simp <;>
        cases formatItems l dt b <;> simp

theorem formatItems_lits (l : Loc) (dt : DTF) (s : Str) :
    formatItems l dt (s.map (fun c => Item.lit [c])) = .ok s := by
  induction s with
  | nil => rfl
  | cons c s ih => simp [formatItems, ih]


/-- the substitution callback of `format()` on one match = the model on the item the match stands for -/
theorem callback_eq (re) (L l : Loc) (find deflt now) (dt : DTF) (n : Nat) (m : FMatch)
    (hm : m.g3 = none ∨ (m.g1 = none ∧ m.g2 = none))
    (ih : ∀ fmt, Gen.Formatter.format (refOps re L find deflt now) n dt fmt (LocArg.obj l) =
      match n with
      | 0 => .error "RecursionError"
      | k+1 => formatItems l dt (expandItems l k (tokenize fmt))) :
    (if Gen.Formatter.optTruthy m.g1 then .ok (Gen.Formatter.optVal m.g1) else
        if Gen.Formatter.optTruthy m.g2 then .ok (Gen.Formatter.optVal m.g2) else
          match m.g3 with
            | some t => Gen.Formatter.format_token (Gen.Formatter.format (refOps re L find deflt now) n)
                (refOps re L find deflt now) dt t l
            | none => .ok [])
      = formatItems l dt (expand1 l n (itemOfMatch m)) := by
  ftie "Pendulum.Props.C08.format_source_eq_model" "the substitution callback of Formatter.format" =>
    unfold itemOfMatch
    rcases hm with h3 | ⟨h1, h2⟩
    · simp only [h3]
      have e : ∀ k, expand1 l k (Item.lit (Gen.Formatter.optOr m.g1 (Gen.Formatter.optOr m.g2 []))) =
          [Item.lit (Gen.Formatter.optOr m.g1 (Gen.Formatter.optOr m.g2 []))] := by intro k; cases k <;> rfl
      rw [e]
      simp only [formatItems, Gen.Formatter.optOr, List.append_nil]
      by_cases c1 : Gen.Formatter.optTruthy m.g1 = true
      · simp [c1]
      · by_cases c2 : Gen.Formatter.optTruthy m.g2 = true
        · simp [c1, c2]
        · simp [c1, c2]
    · cases h3 : m.g3 with
      | none =>
        simp [h1, h2, Gen.Formatter.optTruthy, Gen.Formatter.optOr, expand1, formatItems]
        cases n <;> simp [expand1, formatItems]
      | some t =>
        simp only [h1, h2, Gen.Formatter.optTruthy, Bool.false_eq_true, if_false]
        rw [format_token_tie]
        cases n with
        | zero =>
          simp only [expand1, formatItems, String.ofList_toList]
          rw [ih]
          by_cases hd : isDateFormat t = true
          · simp [hd, formatToken]
          · simp [hd]; cases formatToken l dt t <;> simp
        | succ k =>
          simp only [expand1, String.ofList_toList]
          by_cases hd : isDateFormat t = true
          · simp only [hd, if_true]; rw [ih]
          · simp [hd, formatItems]; cases formatToken l dt t <;> simp


theorem re_sub_eq (l : Loc) (dt : DTF) (n : Nat) (cb : FMatch → Except String Str) (tail : Str) :
    ∀ (ms : List FMatch), (∀ m ∈ ms, cb m = formatItems l dt (expand1 l n (itemOfMatch m))) →
    Gen.Formatter.py_re_sub_ms ms cb tail =
      formatItems l dt ((ms.flatMap (fun m => m.before.map (fun c => Item.lit [c]) ++ [itemOfMatch m]) ++
        tail.map (fun c => Item.lit [c])).flatMap (expand1 l n)) := by
  have lit1 : ∀ (s : Str), (s.map (fun c => Item.lit [c])).flatMap (expand1 l n) = s.map (fun c => Item.lit [c]) := by
    intro s
    induction s with
    | nil => rfl
    | cons c s ih => simp only [List.map_cons, List.flatMap_cons, ih]; cases n <;> rfl
  intro ms
  induction ms with
  | nil => intro _; simp [Gen.Formatter.py_re_sub_ms, lit1, formatItems_lits]
  | cons m ms ih =>
    intro h
    have hm := h m (by simp)
    have ih' := ih (fun x hx => h x (by simp [hx]))
    simp only [Gen.Formatter.py_re_sub_ms, List.flatMap_cons, List.append_assoc, List.flatMap_append, lit1,
      formatItems_append, formatItems_lits, bindE_ok, List.flatMap_nil, List.append_nil] at ih' ⊢
    rw [hm, ih']
    cases formatItems l dt (expand1 l n (itemOfMatch m)) <;> simp
    cases formatItems l dt (List.flatMap (expand1 l n) (List.flatMap (fun m => List.map (fun c => Item.lit [c]) m.before ++ [itemOfMatch m]) ms)) <;> simp

theorem format_tie (re : Str → Segs) (hre : ∀ f, SegsOk re f) (L l : Loc) (find deflt now) (dt : DTF) :
    ∀ (n : Nat) (fmt : Str), Gen.Formatter.format (refOps re L find deflt now) n dt fmt (LocArg.obj l) =
      match n with
      | 0 => .error "RecursionError"
      | k+1 => formatItems l dt (expandItems l k (tokenize fmt)) := by
  ftie "Pendulum.Props.C08.format_source_eq_model" "Formatter.format" =>
    intro n
    induction n with
    | zero => intro fmt; rfl
    | succ n ih =>
      intro fmt
      simp only [Gen.Formatter.format, refOps_Locale_load, refOps_FORMAT_RE, LocArg.or, bindE_ok, bindE_ok_eta,
        Gen.Formatter.py_re_sub]
      refine (re_sub_eq l dt n _ (re fmt).tail (re fmt).ms (fun m hm => ?_)).trans ?_
      · exact callback_eq re L l find deflt now dt n m ((hre fmt).2 m hm) ih
      · rw [expandItems_flatMap, ← (hre fmt).1]
        rfl

/-- … for any `locale` argument that loads as `l` -/
theorem format_tie_arg (re : Str → Segs) (hre : ∀ f, SegsOk re f) (L l : Loc) (find deflt now) (dt : DTF) (la : LocArg Loc)
    (hla : (refOps re L find deflt now).Locale_load (LocArg.or la (LocArg.name deflt)) = .ok l) (n : Nat) (fmt : Str) :
    Gen.Formatter.format (refOps re L find deflt now) (n + 1) dt fmt la =
      formatItems l dt (expandItems l n (tokenize fmt)) := by
  ftie "Pendulum.Props.C08.format_source_eq_model" "Formatter.format" =>
    simp only [Gen.Formatter.format, refOps_get_locale]
    rw [hla]
    simp only [refOps_FORMAT_RE, bindE_ok, bindE_ok_eta, Gen.Formatter.py_re_sub]
    refine (re_sub_eq l dt n _ (re fmt).tail (re fmt).ms (fun m hm => ?_)).trans ?_
    · exact callback_eq re L l find deflt now dt n m ((hre fmt).2 m hm) (format_tie re hre L l find deflt now dt n)
    · rw [expandItems_flatMap, ← (hre fmt).1]
      rfl

/-- `DateTime.format(fmt, locale)`: the locale named by the argument, else the default one -/
theorem datetime_format_tie (re : Str → Segs) (hre : ∀ f, SegsOk re f) (L l : Loc) (find deflt now) (v : Val)
    (locale : Option String) (hl : find (Gen.Formatter.optStringOr locale deflt) = some l) (fmt : Str) :
    Gen.Formatter.datetime_format (refOps re L find deflt now) 4 v.toDTF fmt locale = Fmt.format l v fmt := by
  ftie "Pendulum.Props.C08.datetime_format_source_eq_model" "FormattableMixin.format (DateTime.format)" =>
    unfold Gen.Formatter.datetime_format Fmt.format
    apply format_tie_arg re hre
    cases locale with
    | none => simp [LocArg.ofOptName, LocArg.or, Gen.Formatter.optStringOr] at hl ⊢; simp [hl]
    | some s =>
      by_cases hs : s = ""
      · subst hs; simp [LocArg.ofOptName, LocArg.or, Gen.Formatter.optStringOr] at hl ⊢; simp [hl]
      · simp [LocArg.ofOptName, LocArg.or, Gen.Formatter.optStringOr, hs] at hl ⊢; simp [hl]


end Pendulum.FormatterGen
