import Pendulum.Proofs.AddDurCal
import Pendulum.Proofs.WeekNav
/-! `add_duration` with years / months only, in closed form over the **month index** `12·year + (month − 1)`:
the result is the start's day of month clamped to the length of the target month (`shiftMonths`), and it is strictly
monotone in the number of months added (consecutive months are laid out in order on the ordinal line).
Used by C19 (`range("months"|"years")`: no drift, strictly increasing) and C06 (a positive year/month component moves
the value by at least a day). -/
namespace Pendulum.AddDur
open Pendulum Pendulum.Cal

/-- ordinal of the first day / number of days of the month with index `K = 12·year + (month − 1)` -/
def mStart (K : Int) : Int := ymd2ord (K / 12) (K % 12 + 1) 1
def mLen (K : Int) : Int := daysInMonth (K / 12) (K % 12 + 1)

theorem mLen_range (K : Int) : 28 ≤ mLen K ∧ mLen K ≤ 31 := by
  unfold mLen; rw [daysInMonth_eq]; exact dimL_pos _ _

theorem mStart_succ (K : Int) : mStart K + mLen K ≤ mStart (K + 1) := by
  by_cases h : K % 12 = 11
  · have e1 : (K + 1) / 12 = K / 12 + 1 := by omega
    have e2 : (K + 1) % 12 + 1 = 1 := by omega
    have e3 : K % 12 + 1 = 12 := by omega
    unfold mStart mLen
    rw [e1, e2, e3, WeekNav.jan1]
    have := WeekNav.dec31 (K / 12)
    have e12 : daysInMonth (K / 12) 12 = 31 := by unfold daysInMonth; rfl
    omega
  · have e1 : (K + 1) / 12 = K / 12 := by omega
    have e2 : (K + 1) % 12 + 1 = K % 12 + 1 + 1 := by omega
    unfold mStart mLen
    rw [e1, e2]
    exact WeekNav.month_order _ _ _ (by omega) (by omega) (by omega)

theorem mStart_mono_nat (K : Int) (n : Nat) : mStart K + mLen K ≤ mStart (K + 1 + n) := by
  induction n with
  | zero => simpa using mStart_succ K
  | succ n ih =>
    have h1 := mStart_succ (K + 1 + n)
    have h2 := mLen_range (K + 1 + n)
    have e : K + 1 + ((n + 1 : Nat) : Int) = K + 1 + (n : Int) + 1 := by omega
    rw [e]; omega

/-- later month index ⇒ the whole earlier month lies before the first day of the later one -/
theorem mStart_lt (K K' : Int) (h : K < K') : mStart K + mLen K ≤ mStart K' := by
  have := mStart_mono_nat K (K' - K - 1).toNat
  have e : K + 1 + (((K' - K - 1).toNat : Nat) : Int) = K' := by omega
  rw [e] at this; exact this

/-- month index of a wall value -/
def monthIdx (w : Int) : Int := (wallToFields w).1 * 12 + ((wallToFields w).2.1 - 1)

/-- the wall value `n` months away from `w`: month-index arithmetic, the day of month of **`w`** clamped to the length of
    the target month, time of day kept -/
def shiftMonths (w n : Int) : Int :=
  fieldsToWall ((monthIdx w + n) / 12) ((monthIdx w + n) % 12 + 1)
    (min (wallToFields w).2.2.1 (mLen (monthIdx w + n))) (wallToFields w).2.2.2

theorem shiftMonths_ord (w n : Int) :
    shiftMonths w n =
      (mStart (monthIdx w + n) + min (wallToFields w).2.2.1 (mLen (monthIdx w + n)) - 1 - epochOrd) * DAY
        + (wallToFields w).2.2.2 := by
  unfold shiftMonths fieldsToWall mStart
  rw [WeekNav.ord_eq]

theorem shiftMonths_zero (w : Int) : shiftMonths w 0 = w := by
  have hv := wallToFields_valid w
  have hrt := fieldsToWall_wallToFields w
  unfold shiftMonths monthIdx mLen
  obtain ⟨h1, h2, h3, h4⟩ := hv
  have e1 : ((wallToFields w).1 * 12 + ((wallToFields w).2.1 - 1) + 0) / 12 = (wallToFields w).1 := by omega
  have e2 : ((wallToFields w).1 * 12 + ((wallToFields w).2.1 - 1) + 0) % 12 + 1 = (wallToFields w).2.1 := by omega
  rw [e1, e2]
  have e3 : min (wallToFields w).2.2.1 (daysInMonth (wallToFields w).1 (wallToFields w).2.1) = (wallToFields w).2.2.1 := by
    omega
  rw [e3]; exact hrt

/-- civil fields of the shifted value: (year, month) by month-index arithmetic, day = min(start day, month length),
    same time of day — whatever the year -/
theorem shiftMonths_fields (w n : Int) :
    wallToFields (shiftMonths w n) =
      ((monthIdx w + n) / 12, (monthIdx w + n) % 12 + 1,
       min (wallToFields w).2.2.1 (daysInMonth ((monthIdx w + n) / 12) ((monthIdx w + n) % 12 + 1)),
       (wallToFields w).2.2.2) := by
  have hv := wallToFields_valid w
  have ht := wallToFields_tod w
  have hl := mLen_range (monthIdx w + n)
  unfold shiftMonths
  unfold mLen at hl ⊢
  apply wallToFields_fieldsToWall _ _ _ _ _ ht
  exact ⟨by omega, by omega, by have := hv.2.2.1; omega, by omega⟩

/-- **monotone in the month count**: more months ⇒ strictly later, by at least one day -/
theorem shiftMonths_lt (w n n' : Int) (h : n < n') : shiftMonths w n + DAY ≤ shiftMonths w n' := by
  have hv := wallToFields_valid w
  have hd := hv.2.2.1
  have h1 := mStart_lt (monthIdx w + n) (monthIdx w + n') (by omega)
  have l1 := mLen_range (monthIdx w + n)
  have l2 := mLen_range (monthIdx w + n')
  rw [shiftMonths_ord, shiftMonths_ord]
  unfold DAY
  omega

/-- `add_duration(dt, years, months)` in closed form -/
theorem addDuration_months (w years months : Int) :
    addDuration w years months 0 0 0 0 0 0 =
      (if (monthIdx w + (years * 12 + months)) / 12 < 1 ∨ (monthIdx w + (years * 12 + months)) / 12 > 9999
       then .error .valueError
       else if shiftMonths w (years * 12 + months) < minWall ∨ shiftMonths w (years * 12 + months) > maxWall
       then .error .overflow else .ok (shiftMonths w (years * 12 + months))) := by
  rw [addDuration_eq_calSpec]
  unfold calSpec addYMspec shiftMonths monthIdx mLen
  simp only []
  have e : (wallToFields w).1 * 12 + ((wallToFields w).2.1 - 1) + years * 12 + months =
      (wallToFields w).1 * 12 + ((wallToFields w).2.1 - 1) + (years * 12 + months) := by omega
  rw [e]
  have z : ∀ a : Int, a + (0 * 7 + 0) * DAY + 0 * HOUR + 0 * MINUTE + 0 * US + 0 = a := by intro a; omega
  simp only [z]

/-- `add_duration` with every component, in closed form: month shift from the start, then one linear amount -/
theorem addDuration_shift (w Y M W D h mi s us : Int) :
    addDuration w Y M W D h mi s us =
      (if (monthIdx w + (Y * 12 + M)) / 12 < 1 ∨ (monthIdx w + (Y * 12 + M)) / 12 > 9999
       then .error .valueError
       else if shiftMonths w (Y * 12 + M) + totalUs (D + W * 7) h mi s us < minWall ∨
               shiftMonths w (Y * 12 + M) + totalUs (D + W * 7) h mi s us > maxWall
       then .error .overflow else .ok (shiftMonths w (Y * 12 + M) + totalUs (D + W * 7) h mi s us)) := by
  rw [addDuration_eq_calSpec]
  unfold calSpec addYMspec shiftMonths monthIdx mLen
  simp only []
  have e : (wallToFields w).1 * 12 + ((wallToFields w).2.1 - 1) + Y * 12 + M =
      (wallToFields w).1 * 12 + ((wallToFields w).2.1 - 1) + (Y * 12 + M) := by omega
  rw [e]
  have z : ∀ a : Int, a + (W * 7 + D) * DAY + h * HOUR + mi * MINUTE + s * US + us
      = a + totalUs (D + W * 7) h mi s us := by
    intro a; unfold totalUs DAY HOUR MINUTE US; omega
  simp only [z]

/-- the year of a representable wall value -/
theorem year_in_range (w : Int) (hw : minWall ≤ w ∧ w ≤ maxWall) :
    1 ≤ (wallToFields w).1 ∧ (wallToFields w).1 ≤ 9999 ∧ monthIdx w / 12 = (wallToFields w).1 := by
  have hv := wallToFields_valid w
  have ho : ymd2ord (wallToFields w).1 (wallToFields w).2.1 (wallToFields w).2.2.1 = w / DAY + epochOrd := by
    unfold wallToFields; exact (ymd2ord_ord2ymd (w / DAY + epochOrd)).1
  have a := ord_in_year _ _ _ hv
  rw [ho] at a
  have hm := hv.1; have hm2 := hv.2.1
  refine ⟨?_, ?_, by unfold monthIdx; omega⟩
  · by_cases c : 1 ≤ (wallToFields w).1
    · exact c
    · have := dby_mono (wallToFields w).1 1 (by omega)
      have e : daysBeforeYear 1 = 0 := by decide
      unfold minWall DAY epochOrd at hw; unfold DAY epochOrd at a; omega
  · by_cases c : (wallToFields w).1 ≤ 9999
    · exact c
    · have e : daysBeforeYear 10000 = 3652059 := by decide
      have := dby_mono 9999 (wallToFields w).1 (by omega)
      have e' : (9999 : Int) + 1 = 10000 := by decide
      rw [e', e] at this
      unfold maxWall DAY epochOrd at hw; unfold DAY epochOrd at a; omega

end Pendulum.AddDur
