import Pendulum.Proofs.MonthIndex
import Pendulum.Proofs.RangeAdd
/-! `Interval.range` with calendar units (`years`, `months`) on naive `DateTime`s and `Date`s, and the direction of
the loop as a sign: `stepOf iv unit i = addUnit iv.start unit (dir iv · i)`. -/
namespace Pendulum.Range
open Pendulum Pendulum.Cal Pendulum.AddDur Pendulum.DTOps Pendulum.IntervalPD

/-- number of months a calendar unit stands for (unit 0 = years, 1 = months) -/
def monthsOf (unit : Nat) (k : Int) : Int := if unit = 0 then k * 12 else k

/-- direction of the loop: −1 for an inverted, non-absolute interval (`subtract`, `>=`), +1 otherwise -/
def dir (iv : Iv) : Int := if !iv.absolute && iv.invert then -1 else 1

theorem stepOf_dir (iv : Iv) (unit : Nat) (i : Int) : stepOf iv unit i = addUnit iv.start unit (dir iv * i) := by
  unfold stepOf dir
  split
  · congr 1; omega
  · congr 1; omega

theorem dir_cases (iv : Iv) : dir iv = 1 ∨ dir iv = -1 := by unfold dir; split <;> simp

/-- the shared part of `DateTime.add(years|months)` on a naive value and `Date.add(years|months)` -/
theorem cal_result (w Y M : Int) (f : Bool) (v : V)
    (h : (match addDuration w Y M 0 0 0 0 0 0 with
          | .ok r => (Except.ok ⟨.naive, r, f⟩ : Except DTOps.Err V)
          | .error .valueError => .error .valueError
          | .error .overflow => .error .overflow) = .ok v) :
    v.w = shiftMonths w (Y * 12 + M) ∧ v.z = .naive := by
  rw [addDuration_months] at h
  by_cases c1 : (monthIdx w + (Y * 12 + M)) / 12 < 1 ∨ (monthIdx w + (Y * 12 + M)) / 12 > 9999
  · rw [if_pos c1] at h; cases h
  · rw [if_neg c1] at h
    by_cases c2 : shiftMonths w (Y * 12 + M) < minWall ∨ shiftMonths w (Y * 12 + M) > maxWall
    · rw [if_pos c2] at h; cases h
    · rw [if_neg c2] at h
      injection h with h; subst h; exact ⟨rfl, rfl⟩

/-- on a naive `DateTime` or a `Date`, `add(years|months = k)` is the month shift with the day clamped from the start -/
theorem addUnit_cal_naive (s : EP) (unit : Nat) (k : Int) (hz : s.v.z = .naive) (hu : unit ≤ 1) (v : V)
    (h : addUnit s unit k = .ok v) : v.w = shiftMonths s.v.w (monthsOf unit k) ∧ v.z = .naive := by
  unfold addUnit at h
  by_cases hk : k = 0
  · rw [if_pos hk] at h
    injection h with h; subst h; subst hk
    have : monthsOf unit 0 = 0 := by unfold monthsOf; split <;> omega
    rw [this, shiftMonths_zero]; exact ⟨rfl, hz⟩
  · rw [if_neg hk] at h
    have hcases : unit = 0 ∨ unit = 1 := by omega
    rcases hcases with rfl | rfl
    · have hm : monthsOf 0 k = k * 12 + 0 := by unfold monthsOf; simp
      rw [hm]
      by_cases hdt : s.isDt = true
      · rw [if_pos hdt] at h
        push_cast at h
        unfold add at h
        simp only [ne_eq, hk, not_false_eq_true, true_or, if_true] at h
        apply cal_result s.v.w k 0 true v
        rw [← h]
        cases addDuration s.v.w k 0 0 0 0 0 0 0 with
        | error e => cases e <;> rfl
        | ok r => simp only [hz, create]
      · rw [if_neg hdt] at h
        push_cast at h
        exact cal_result s.v.w k 0 false v h
    · have hm : monthsOf 1 k = 0 * 12 + k := by unfold monthsOf; simp
      rw [hm]
      by_cases hdt : s.isDt = true
      · rw [if_pos hdt] at h
        push_cast at h
        unfold add at h
        simp only [ne_eq, hk, not_false_eq_true, true_or, or_true, if_true] at h
        apply cal_result s.v.w 0 k true v
        rw [← h]
        cases addDuration s.v.w 0 k 0 0 0 0 0 0 with
        | error e => cases e <;> rfl
        | ok r => simp only [hz, create]
      · rw [if_neg hdt] at h
        push_cast at h
        exact cal_result s.v.w 0 k false v h

end Pendulum.Range
