import Pendulum.Model.Interval
import Pendulum.Model.IntervalPD
import Pendulum.Model.Range
import Pendulum.Model.Pickle
import Pendulum.Proofs.AddDurCal
import Pendulum.Proofs.C05
import Pendulum.Proofs.GenTie
import Pendulum.Gen.Interval
/-! Tie between the *generated* translation of interval.py (`Pendulum.Gen.Interval`, regenerated from the source on every run by
tools/gen_interval.py) and the hand models the C05 / C06 / C19 / C14 theorems are stated about (`Model/Interval.lean`,
`Model/IntervalPD.lean`, `Model/Range.lean`, `Model/Pickle.lean`).

Interface between the two vocabularies (hand-written, small):
* a generated endpoint `Ep` (class, civil fields, fold, tzinfo identity) denotes the wall value `wallOf` (µs since the epoch);
  `offOf env` / `instOf env` read its UTC offset / instant through the parameter `env.utcoffset`;
* `EnvOk env`: what the models assume about the stdlib operations the code calls — `>` compares wall clocks for one tzinfo object and
  instants otherwise, `utcoffset()` does not depend on the Python class of the value, `x - timedelta` is wall-clock arithmetic with the
  OverflowError of `datetime`, `a - b` is the wall-clock difference for one tzinfo object and the difference of the instants otherwise;
  `refEnv` satisfies it (non-vacuity);
* `Rep env A v`: the generated endpoint `A` denotes the model value `v` (same wall clock, same offset, same awareness);
* `liftE`: a model result `Except Err β` as the generated `Except String β` (exception names). -/
set_option linter.unusedSimpArgs false
namespace Pendulum.IntervalGen
open Pendulum Pendulum.DTOps Pendulum.AddDur
open Pendulum.Gen.Interval (Ep Kind Cls Env Ops Self PDt InitRes Method EqRes isinst)

def todOf (a : Ep) : Int := a.hour * HOUR + a.minute * MINUTE + a.second * US + a.microsecond
def wallOf (a : Ep) : Int := fieldsToWall a.year a.month a.day (todOf a)
def offOf (env : Env) (a : Ep) : Int := if a.tz = 0 then 0 else env.utcoffset a
def instOf (env : Env) (a : Ep) : Int := wallOf a - offOf env a

def liftE {β : Type} : Except DTOps.Err β → Except String β
  | .ok v => .ok v
  | .error e => .error e.name

/-- both naive or both aware -/
def Compat (a b : Ep) : Prop := (a.tz = 0 ↔ b.tz = 0)

structure EnvOk (env : Env) : Prop where
  gt_ok : ∀ a b, Compat a b →
    env.gt a b = if a.tz = b.tz then decide (wallOf a > wallOf b) else decide (instOf env a > instOf env b)
  off_kind : ∀ k k' y mo d h mi s us f tz,
    env.utcoffset ⟨k, y, mo, d, h, mi, s, us, f, tz⟩ = env.utcoffset ⟨k', y, mo, d, h, mi, s, us, f, tz⟩
  sub_td_ok : ∀ a us,
    (inRange (wallOf a - us) = true → ∃ r, env.sub_td a us = .ok r ∧ wallOf r = wallOf a - us) ∧
    (inRange (wallOf a - us) = false → env.sub_td a us = .error "OverflowError")
  sub_ok : ∀ a b, Compat a b →
    env.sub a b = .ok (if a.tz = b.tz then wallOf a - wallOf b else instOf env a - instOf env b)

/-- the generated endpoint `A` denotes the model value `v` -/
structure Rep (env : Env) (A : Ep) (v : V) : Prop where
  wall : wallOf A = v.w
  off : offOf env A = v.offset
  aware : decide (A.tz ≠ 0) = Interval.aware v

theorem wallOf_mk (k k' : Kind) (y mo d h mi s us : Int) (f f' : Bool) (tz tz' : Int) :
    wallOf ⟨k, y, mo, d, h, mi, s, us, f, tz⟩ = wallOf ⟨k', y, mo, d, h, mi, s, us, f', tz'⟩ := rfl

theorem wallOf_tz0 (r : Ep) : wallOf ({ r with tz := (0 : Int) } : Ep) = wallOf r := rfl

theorem offOf_kind (env : Env) (ok : EnvOk env) (k k' : Kind) (y mo d h mi s us : Int) (f : Bool) (tz : Int) :
    offOf env ⟨k, y, mo, d, h, mi, s, us, f, tz⟩ = offOf env ⟨k', y, mo, d, h, mi, s, us, f, tz⟩ := by
  unfold offOf
  simp only []
  rw [ok.off_kind k k']

theorem instOf_kind (env : Env) (ok : EnvOk env) (k k' : Kind) (y mo d h mi s us : Int) (f : Bool) (tz : Int) :
    instOf env ⟨k, y, mo, d, h, mi, s, us, f, tz⟩ = instOf env ⟨k', y, mo, d, h, mi, s, us, f, tz⟩ := by
  unfold instOf
  rw [offOf_kind env ok k k', wallOf_mk k k' y mo d h mi s us f f tz tz]

theorem rep_instant (env : Env) (A : Ep) (v : V) (h : Rep env A v) : instOf env A = v.instant := by
  unfold instOf V.instant; rw [h.wall, h.off]

theorem rep_tz0 (env : Env) (A : Ep) (v : V) (h : Rep env A v) : (A.tz = 0 ↔ Interval.aware v = false) := by
  have := h.aware
  by_cases c : A.tz = 0 <;> simp [c] at this ⊢ <;> simp [← this]



def fields7 (w : Int) : Int × Int × Int × Int × Int × Int × Int :=
  ((wallToFields w).1, (wallToFields w).2.1, (wallToFields w).2.2.1, (wallToFields w).2.2.2 / HOUR,
   (wallToFields w).2.2.2 % HOUR / MINUTE, (wallToFields w).2.2.2 % MINUTE / US, (wallToFields w).2.2.2 % US)

/-! ## the hypotheses are satisfiable: reference parameters built from the models -/

/-- the endpoint with class `k`, tzinfo `tz`, fold `f` whose wall clock reads `w` -/
def epOfWall (k : Kind) (w : Int) (f : Bool) (tz : Int) : Ep :=
  ⟨k, (fields7 w).1, (fields7 w).2.1, (fields7 w).2.2.1, (fields7 w).2.2.2.1, (fields7 w).2.2.2.2.1, (fields7 w).2.2.2.2.2.1,
   (fields7 w).2.2.2.2.2.2, f, tz⟩

theorem wallOf_epOfWall (k : Kind) (w : Int) (f : Bool) (tz : Int) : wallOf (epOfWall k w f tz) = w := by
  have ht := wallToFields_tod w
  have hrt := fieldsToWall_wallToFields w
  unfold wallOf todOf epOfWall fields7
  simp only []
  have : (wallToFields w).2.2.2 / HOUR * HOUR + (wallToFields w).2.2.2 % HOUR / MINUTE * MINUTE +
      (wallToFields w).2.2.2 % MINUTE / US * US + (wallToFields w).2.2.2 % US = (wallToFields w).2.2.2 := by
    unfold HOUR MINUTE US; unfold DAY at ht; omega
  rw [this]; exact hrt

/-- the model value a generated endpoint denotes, for a given assignment of zones to tzinfo identities -/
def epV (zoneOf : Int → ZRef) (a : Ep) : V := ⟨zoneOf a.tz, wallOf a, a.fold⟩

def refOff (zoneOf : Int → ZRef) (a : Ep) : Int := if a.tz = 0 then 0 else (epV zoneOf a).offset

/-- stdlib semantics as the models read them -/
def refEnv (zoneOf : Int → ZRef) : Env where
  utcoffset a := (epV zoneOf a).offset
  gt a b := if a.tz = b.tz then decide (wallOf a > wallOf b)
            else decide (wallOf a - refOff zoneOf a > wallOf b - refOff zoneOf b)
  sub_td a us := if inRange (wallOf a - us) = true then .ok (epOfWall a.kind (wallOf a - us) a.fold a.tz) else .error "OverflowError"
  sub a b := .ok (if a.tz = b.tz then wallOf a - wallOf b else (wallOf a - refOff zoneOf a) - (wallOf b - refOff zoneOf b))
  pendulum_instance a := .ok { a with kind := .pdt }

theorem refEnv_ok (zoneOf : Int → ZRef) : EnvOk (refEnv zoneOf) where
  gt_ok := by intro a b _; rfl
  off_kind := by intros; rfl
  sub_td_ok := by
    intro a us
    constructor
    · intro h
      refine ⟨epOfWall a.kind (wallOf a - us) a.fold a.tz, ?_, wallOf_epOfWall _ _ _ _⟩
      simp only [refEnv, h, if_true]
    · intro h
      simp only [refEnv, h, Bool.false_eq_true, if_false]
  sub_ok := by intro a b _; rfl

/-- every endpoint denotes its `epV` under the reference parameters (tzinfo identity 0 ↔ naive) -/
theorem refEnv_rep (zoneOf : Int → ZRef) (h0 : zoneOf 0 = .naive) (h1 : ∀ t, t ≠ 0 → zoneOf t ≠ .naive) (A : Ep) :
    Rep (refEnv zoneOf) A (epV zoneOf A) where
  wall := rfl
  off := by
    unfold offOf
    by_cases h : A.tz = 0
    · rw [if_pos h]
      unfold epV V.offset
      rw [h, h0]; rfl
    · rw [if_neg h]; rfl
  aware := by
    unfold Interval.aware epV
    by_cases h : A.tz = 0
    · simp [h, h0]
    · have := h1 A.tz h
      cases hz : zoneOf A.tz <;> simp_all


/-- zones of the non-vacuity examples: tzinfo identity 1 = Europe/Paris (2013), any other = +01:00 -/
def exZone : Int → ZRef := fun t => if t = 0 then .naive else if t = 1 then .named Interval.parisZ else .fixed 3600000000

end Pendulum.IntervalGen
