import Pendulum.Proofs.Cycle400
import Pendulum.Gen.Helpers
/-! helper lemmas for Props/C15: periodicity of the *generated* helpers and the finite cycle facts -/
namespace Pendulum.C15
open Pendulum.Cal Pendulum

def wdCycle : Bool :=
  (List.range 400).all fun r => (List.range 12).all fun m => (List.range 7).all fun d =>
    let y : Int := (r : Int) + 400
    let m : Int := (m : Int) + 1
    let d : Int := d
    Gen.week_day y m d == isoweekday y m d

theorem wdCycle_true : wdCycle = true := by decide +kernel

theorem wd_periodic_y (y m d k : Int) : Gen.week_day (y + 400 * k) m d = Gen.week_day y m d := by
  unfold Gen.week_day
  simp only []
  by_cases hm : m < 3 <;> simp only [hm, decide_true, decide_false, if_true, if_false, Bool.false_eq_true] <;>
  · generalize Gen.py_DAY_OF_WEEK_TABLE (m - 1) = t
    have e : ∀ z : Int, ((z + 400 * k) + (z + 400 * k) / 4 - (z + 400 * k) / 100 + (z + 400 * k) / 400 + t + d) % 7
        = (z + z / 4 - z / 100 + z / 400 + t + d) % 7 := by intro z; omega
    first
      | (have := e (y - 1); have h2 : y + 400 * k - 1 = (y - 1) + 400 * k := by omega
         rw [h2, this])
      | (rw [e y])

theorem wd_periodic_d (y m d j : Int) : Gen.week_day y m (d + 7 * j) = Gen.week_day y m d := by
  unfold Gen.week_day
  simp only []
  have e : ∀ a : Int, (a + (d + 7 * j)) % 7 = (a + d) % 7 := by intro a; omega
  simp only [e]

theorem long_periodic (y k : Int) : Gen.is_long_year (y + 400 * k) = Gen.is_long_year y := by
  unfold Gen.is_long_year
  simp only []
  have e1 : ∀ z : Int, ((z + 400 * k) + (z + 400 * k) / 4 - (z + 400 * k) / 100 + (z + 400 * k) / 400) % 7
      = (z + z / 4 - z / 100 + z / 400) % 7 := by intro z; omega
  have h2 : y + 400 * k - 1 = (y - 1) + 400 * k := by omega
  rw [h2, e1 y, e1 (y - 1)]

def longCycle : Bool := (List.range 400).all fun r =>
  let y : Int := (r : Int) + 400
  (Gen.is_long_year y) == decide (isoWeeksInYear y = 53)

theorem longCycle_true : longCycle = true := by decide +kernel

theorem dn_shift (y m d k : Int) : Gen.day_number (y + 400 * k) m d = Gen.day_number y m d + 146097 * k := by
  unfold Gen.day_number; simp only []; omega

theorem dn_day (y m d : Int) : Gen.day_number y m d = Gen.day_number y m 0 + d := by
  unfold Gen.day_number; simp only []; omega

def dnCycle : Bool := (List.range 400).all fun r => (List.range 12).all fun m =>
  let y : Int := (r : Int) + 400
  let m : Int := (m : Int) + 1
  Gen.day_number y m 0 == ymd2ord y m 0 + 305

theorem dnCycle_true : dnCycle = true := by decide +kernel

def diyCycle : Bool := (List.range 400).all fun r =>
  let y : Int := (r : Int) + 400
  Gen.days_in_year y == daysBeforeYear (y + 1) - daysBeforeYear y

theorem diyCycle_true : diyCycle = true := by decide +kernel

theorem gen_diy_shift (y k : Int) : Gen.days_in_year (y + 400 * k) = Gen.days_in_year y := by
  unfold Gen.days_in_year Gen.is_leap
  have h4 : (y + 400 * k) % 4 = y % 4 := by omega
  have h100 : (y + 400 * k) % 100 = y % 100 := by omega
  have h400 : (y + 400 * k) % 400 = y % 400 := by omega
  rw [h4, h100, h400]

/-- periodicity of the generated `is_leap`, proved by rewriting the residues (independent of how the boolean
    expression is arranged in the source) -/
theorem gen_leap_shift (y k : Int) : Gen.is_leap (y + 400 * k) = Gen.is_leap y := by
  unfold Gen.is_leap
  have h4 : (y + 400 * k) % 4 = y % 4 := by omega
  have h100 : (y + 400 * k) % 100 = y % 100 := by omega
  have h400 : (y + 400 * k) % 400 = y % 400 := by omega
  simp only [h4, h100, h400]

def leapCycle : Bool := (List.range 400).all fun r =>
  let y : Int := (r : Int) + 400
  Gen.is_leap y == isLeap y

theorem leapCycle_true : leapCycle = true := by decide +kernel

end Pendulum.C15
