import Pendulum.Model.IsoDur
/-! Lemmas for property C13: exact fraction arithmetic, lexer round trip, state-machine invariants. -/
namespace Pendulum.IsoDur

/-! ### digit strings -/

theorem foldl_numVal (ds : List Nat) (a : Nat) :
    ds.foldl (fun a d => 10 * a + d) a = a * 10 ^ ds.length + numVal ds := by
  induction ds generalizing a with
  | nil => simp [numVal]
  | cons d ds ih =>
    simp only [List.foldl_cons, List.length_cons, numVal]
    rw [ih, ih (10 * 0 + d)]
    simp only [Nat.pow_succ, Nat.mul_zero, Nat.zero_add, Nat.add_mul]
    have : 10 * a * 10 ^ ds.length = a * (10 ^ ds.length * 10) := by
      rw [Nat.mul_comm 10 a, Nat.mul_assoc, Nat.mul_comm 10]
    omega

theorem numVal_cons (d : Nat) (ds : List Nat) : numVal (d :: ds) = d * 10 ^ ds.length + numVal ds := by
  have := foldl_numVal ds (10 * 0 + d)
  simpa [numVal] using this

theorem numVal_append_single (ds : List Nat) (d : Nat) : numVal (ds ++ [d]) = 10 * numVal ds + d := by
  simp [numVal, List.foldl_append]

/-! ### the Rust fraction loop computes the Python formula -/

theorem carry_eq (U : Nat) (ds : List Nat) :
    (ds.foldr (rsFracStep U) (0, 0)).1 = numVal ds * U / 10 ^ ds.length := by
  induction ds with
  | nil => simp [numVal]
  | cons d ds ih =>
    simp only [List.foldr_cons, rsFracStep, List.length_cons, ih, numVal_cons]
    rw [Nat.pow_succ, ← Nat.div_div_eq_div_mul, Nat.add_mul]
    congr 1
    have hp : 0 < 10 ^ ds.length := Nat.pow_pos (by decide)
    rw [Nat.mul_right_comm, Nat.add_comm (d * U * _), Nat.add_mul_div_right _ _ hp, Nat.add_comm]

theorem first_eq (U d : Nat) (ds : List Nat) :
    ((d :: ds).foldr (rsFracStep U) (0, 0)).2 = numVal (d :: ds) * U / 10 ^ ds.length % 10 := by
  simp only [List.foldr_cons, rsFracStep, carry_eq, numVal_cons]
  congr 1
  have hp : 0 < 10 ^ ds.length := Nat.pow_pos (by decide)
  rw [Nat.add_mul, Nat.mul_right_comm, Nat.add_comm (d * U * _), Nat.add_mul_div_right _ _ hp, Nat.add_comm]

/-- rounding half up from the quotient and the first dropped digit -/
theorem round_from_digit (P E : Nat) (hE : 0 < E) :
    (2 * P + 10 * E) / (2 * (10 * E)) = P / E / 10 + (if P / E % 10 ≥ 5 then 1 else 0) := by
  have h1 := Nat.div_add_mod P E
  have h2 := Nat.mod_lt P hE
  have h3 := Nat.div_add_mod (P / E) 10
  have h4 := Nat.mod_lt (P / E) (show 0 < 10 by decide)
  generalize P / E = X at *
  generalize P % E = r at *
  generalize X / 10 = q at *
  generalize X % 10 = f at *
  subst h3
  have hB : E * f ≤ E * 9 := Nat.mul_le_mul_left E (by omega)
  by_cases hf : f ≥ 5
  · have hC : E * 5 ≤ E * f := Nat.mul_le_mul_left E hf
    simp only [hf, if_true]
    apply Nat.div_eq_of_lt_le <;> grind
  · have hC : E * f ≤ E * 4 := Nat.mul_le_mul_left E (by omega)
    simp only [hf, if_false, Nat.add_zero]
    apply Nat.div_eq_of_lt_le <;> grind

/-- **Rust `fraction_to_microseconds` = Python `_fraction_to_microseconds`**, for every digit string -/
theorem fracUsRs_eq (ds : List Nat) (U : Nat) : fracUsRs ds U = fracUs ds U := by
  cases ds with
  | nil => simp [fracUsRs, fracUs, numVal]
  | cons d ds =>
    unfold fracUsRs fracUs
    simp only []
    rw [first_eq, carry_eq]
    have hE : 0 < 10 ^ ds.length := Nat.pow_pos (by decide)
    have := round_from_digit (numVal (d :: ds) * U) (10 ^ ds.length) hE
    simp only [List.length_cons, Nat.pow_succ]
    rw [Nat.mul_comm (10 ^ ds.length) 10, this, Nat.div_div_eq_div_mul, Nat.mul_comm (10 ^ ds.length) 10]
    split <;> rfl

/-- the result is the exact value `numVal ds · U / 10^n` rounded to the nearest integer (half up):
`fracUs - ½ ≤ exact < fracUs + ½`, written without division -/
theorem fracUs_nearest (ds : List Nat) (U : Nat) :
    2 * 10 ^ ds.length * fracUs ds U ≤ 2 * (numVal ds * U) + 10 ^ ds.length ∧
    2 * (numVal ds * U) + 10 ^ ds.length < 2 * 10 ^ ds.length * (fracUs ds U + 1) := by
  unfold fracUs
  have hD : 0 < 2 * 10 ^ ds.length := Nat.mul_pos (by decide) (Nat.pow_pos (by decide))
  constructor
  · exact Nat.mul_div_le _ _
  · exact Nat.lt_mul_div_succ _ hD

/-! ### bounds -/

theorem numVal_lt (ds : List Nat) (h : ∀ d ∈ ds, d < 10) : numVal ds < 10 ^ ds.length := by
  induction ds with
  | nil => simp [numVal]
  | cons d ds ih =>
    have hd : d < 10 := h d (by simp)
    have := ih (fun x hx => h x (by simp [hx]))
    rw [numVal_cons, List.length_cons, Nat.pow_succ]
    have h2 : d * 10 ^ ds.length ≤ 9 * 10 ^ ds.length := Nat.mul_le_mul_right _ (by omega)
    omega

theorem fracUs_le (ds : List Nat) (U : Nat) (h : ∀ d ∈ ds, d < 10) : fracUs ds U ≤ U := by
  unfold fracUs
  have hlt := numVal_lt ds h
  have hD : 0 < 2 * 10 ^ ds.length := Nat.mul_pos (by decide) (Nat.pow_pos (by decide))
  apply Nat.le_of_lt_succ
  rw [Nat.div_lt_iff_lt_mul hD]
  have : numVal ds * U ≤ (10 ^ ds.length - 1) * U := Nat.mul_le_mul_right _ (by omega)
  have h3 : (10 ^ ds.length - 1) * U + U = 10 ^ ds.length * U := by
    have : 10 ^ ds.length - 1 + 1 = 10 ^ ds.length := by omega
    rw [← this, Nat.add_mul]; simp
  grind

theorem addMicros_restUs (p : Parsed) (m : Nat) : (p.addMicros m).restUs = p.restUs + m := by
  simp only [Parsed.addMicros, Parsed.restUs, usW, usD, usH, usMi, usS]
  omega

/-! ### written tokens and the lexer round trip -/

def digitChar (d : Nat) : Char := Char.ofNat (48 + d)

theorem digitVal_digitChar (d : Nat) (h : d < 10) : digitVal (digitChar d) = some d := by
  have : d = 0 ∨ d = 1 ∨ d = 2 ∨ d = 3 ∨ d = 4 ∨ d = 5 ∨ d = 6 ∨ d = 7 ∨ d = 8 ∨ d = 9 := by omega
  rcases this with h|h|h|h|h|h|h|h|h|h <;> subst h <;> decide

theorem digitChar_ne_T (d : Nat) (h : d < 10) : digitChar d ≠ 'T' := by
  have : d = 0 ∨ d = 1 ∨ d = 2 ∨ d = 3 ∨ d = 4 ∨ d = 5 ∨ d = 6 ∨ d = 7 ∨ d = 8 ∨ d = 9 := by omega
  rcases this with h|h|h|h|h|h|h|h|h|h <;> subst h <;> decide

def renderDigits (ds : List Nat) : List Char := ds.map digitChar

/-- a component as written: integer digits, separator, fraction digits, designator -/
structure WItem where
  ids : List Nat
  sep : Char
  frac : Option (List Nat)
  unit : Char

inductive WTok
  | T
  | item (w : WItem)

def digitsOk (ds : List Nat) : Prop := ds ≠ [] ∧ ∀ d ∈ ds, d < 10

def WItem.valid (w : WItem) : Prop :=
  digitsOk w.ids ∧ (w.sep = '.' ∨ w.sep = ',') ∧ (∀ f, w.frac = some f → digitsOk f) ∧
  digitVal w.unit = none ∧ w.unit ≠ '.' ∧ w.unit ≠ ','

def WTok.valid : WTok → Prop
  | .T => True
  | .item w => w.valid

def WItem.tok (w : WItem) : Tok := .item ⟨numVal w.ids, w.frac, w.unit⟩

def WTok.tok : WTok → Tok
  | .T => .T
  | .item w => w.tok

def WItem.render (w : WItem) : List Char :=
  renderDigits w.ids ++ (match w.frac with
    | some f => w.sep :: renderDigits f
    | none => []) ++ [w.unit]

def renderW : List WTok → List Char
  | [] => []
  | .T :: ws => 'T' :: renderW ws
  | .item w :: ws => w.render ++ renderW ws

theorem lexGo_int_digits (b : Backend) (ds : List Nat) (h : ∀ d ∈ ds, d < 10) (v : Nat) (rest : List Char) :
    lexGo b (.int v) (renderDigits ds ++ rest) = lexGo b (.int (ds.foldl (fun a d => 10 * a + d) v)) rest := by
  induction ds generalizing v with
  | nil => rfl
  | cons d ds ih =>
    have hd : d < 10 := h d (by simp)
    simp only [renderDigits, List.map_cons, List.cons_append, lexGo, digitVal_digitChar d hd, List.foldl_cons]
    exact ih (fun x hx => h x (by simp [hx])) _

theorem lexGo_frac_digits (b : Backend) (ds : List Nat) (h : ∀ d ∈ ds, d < 10) (v : Nat) (acc : List Nat)
    (rest : List Char) :
    lexGo b (.frac v acc) (renderDigits ds ++ rest) = lexGo b (.frac v (acc ++ ds)) rest := by
  induction ds generalizing acc with
  | nil => simp [renderDigits]
  | cons d ds ih =>
    have hd : d < 10 := h d (by simp)
    simp only [renderDigits, List.map_cons, List.cons_append, lexGo, digitVal_digitChar d hd]
    have := ih (fun x hx => h x (by simp [hx])) (acc ++ [d])
    simp only [renderDigits, List.append_assoc, List.singleton_append] at this
    exact this

theorem lex_item (b : Backend) (w : WItem) (hw : w.valid) (rest : List Char) :
    lexGo b .start (w.render ++ rest) = (lexGo b .start rest).map (w.tok :: ·) := by
  obtain ⟨⟨hne, hid⟩, hsep, hfr, hu, hu1, hu2⟩ := hw
  obtain ⟨ids, sep, frac, unit⟩ := w
  simp only at hne hid hsep hfr hu hu1 hu2
  cases ids with
  | nil => exact absurd rfl hne
  | cons d0 ids =>
    have hd0 : d0 < 10 := hid d0 (by simp)
    have hids : ∀ d ∈ ids, d < 10 := fun x hx => hid x (by simp [hx])
    simp only [WItem.render, renderDigits, List.map_cons, List.cons_append, List.append_assoc, lexGo,
      digitChar_ne_T d0 hd0, if_false, digitVal_digitChar d0 hd0]
    have h1 := lexGo_int_digits b ids hids d0
    simp only [renderDigits] at h1
    rw [h1]
    have hv : ids.foldl (fun a d => 10 * a + d) d0 = numVal (d0 :: ids) := by
      simp [numVal]
    rw [hv]
    cases frac with
    | none =>
      simp only [List.nil_append, List.singleton_append, lexGo, hu, hu1, hu2, or_self, if_false, WItem.tok]
    | some f =>
      obtain ⟨hfne, hfd⟩ := hfr f rfl
      cases f with
      | nil => exact absurd rfl hfne
      | cons f0 fs =>
        have hf0 : f0 < 10 := hfd f0 (by simp)
        have hfs : ∀ d ∈ fs, d < 10 := fun x hx => hfd x (by simp [hx])
        have hsepd : digitVal sep = none := by rcases hsep with h | h <;> subst h <;> decide
        simp only [List.cons_append, List.map_cons, lexGo, hsepd, hsep, if_true, digitVal_digitChar f0 hf0,
          List.append_assoc, List.singleton_append]
        have h2 := lexGo_frac_digits b fs hfs (numVal (d0 :: ids)) [f0] (unit :: rest)
        simp only [renderDigits, List.singleton_append] at h2
        simp only [List.nil_append]
        rw [h2]
        simp only [lexGo, hu, WItem.tok]

theorem lex_renderW (b : Backend) (ws : List WTok) (h : ∀ t ∈ ws, t.valid) :
    lex b (renderW ws) = .ok (ws.map WTok.tok) := by
  unfold lex
  induction ws with
  | nil => rfl
  | cons t ws ih =>
    have ih' := ih (fun x hx => h x (by simp [hx]))
    cases t with
    | T => simp only [renderW, lexGo, if_true, ih', List.map_cons, WTok.tok]; rfl
    | item w =>
      have hw : w.valid := h (.item w) (by simp)
      simp only [renderW, lex_item b w hw, ih', List.map_cons, WTok.tok]; rfl

end Pendulum.IsoDur
