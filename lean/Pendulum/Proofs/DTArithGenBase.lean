import Pendulum.Gen.DTArith
import Pendulum.Model.DTOps
import Pendulum.Model.CalOps
import Pendulum.Model.Interval
import Pendulum.Proofs.AddDur
import Pendulum.Proofs.CalRT
import Pendulum.Proofs.GenTie
/-! Tie between the *generated* translation of the arithmetic entry points of datetime.py / date.py
(`Pendulum.Gen.DTArith`, regenerated from the source on every run by tools/gen_dtarith.py) and the hand models
`DTOps.add` / `DTOps.addChecked` (Model/DTOps.lean), `CalOps` (Model/CalOps.lean) and `Interval` (Model/Interval.lean).

The generated definitions take the callees as parameters (`Inst.sub_td`, `Inst.add_duration`, `Inst.convert_utc`).
`Linked I v` states how those parameters relate to the model value `v` and to the model's `addDuration` / `inTz`
(the callee-link hypotheses); `instOf v` is an instance that satisfies it (`linked_instOf`), so the hypotheses are
satisfiable for every value. A request is read back with the model's `create` (`reqV`).
A float `seconds=` argument worth `t` µs is read as `t` additional microseconds (float bridge, DESIGN §5). -/
set_option linter.unusedSimpArgs false
namespace Pendulum.DTArithGen
open Pendulum Pendulum.Cal Pendulum.AddDur Pendulum.Zone Pendulum.DTOps Pendulum.CalOps
open Pendulum.Gen.DTArith

/-- `gen_tie` for this file; the block must also leave no goal open, so that an incomplete proof is reported under the
    theorem's name too -/
macro "dta_tie " n:str " => " t:tacticSeq : tactic =>
  `(tactic| gen_tie $n "Gen/DTArith.lean (regenerated from datetime.py / date.py)" => (($t); done))

/-! ### reading of the generated types -/

/-- time of day in µs of (hour, minute, second, microsecond) -/
def todOf (h mi s us : Int) : Int := ((h * 60 + mi) * 60 + s) * 1000000 + us

/-- the wall value (µs since 1970-01-01T00:00) seven civil fields denote -/
def toWall (n : N7) : Int := fieldsToWall n.year n.month n.day (todOf n.hour n.minute n.second n.microsecond)

/-- the seven civil fields of a wall value -/
def fromWall (w : Int) : N7 :=
  let f := wallToFields w
  ⟨f.1, f.2.1, f.2.2.1, f.2.2.2 / HOUR, f.2.2.2 % HOUR / MINUTE, f.2.2.2 % MINUTE / US, f.2.2.2 % US⟩

theorem toWall_fromWall (w : Int) : toWall (fromWall w) = w := by
  have h := fieldsToWall_wallToFields w
  have e : todOf ((wallToFields w).2.2.2 / HOUR) ((wallToFields w).2.2.2 % HOUR / MINUTE)
      ((wallToFields w).2.2.2 % MINUTE / US) ((wallToFields w).2.2.2 % US) = (wallToFields w).2.2.2 := by
    unfold todOf HOUR MINUTE US; omega
  unfold toWall fromWall
  simp only [e]
  exact h

/-- whole seconds / additional microseconds of a `seconds=` amount -/
def secS : Sec → Int
  | .int n => n
  | .us _ => 0
def secU : Sec → Int
  | .int _ => 0
  | .us t => t

theorem secS_neg (s : Sec) : secS (Sec.neg s) = -secS s := by cases s <;> simp [Sec.neg, secS]
theorem secU_neg (s : Sec) : secU (Sec.neg s) = -secU s := by cases s <;> simp [Sec.neg, secU]

/-- exception name → the model's error kind -/
def errOf (s : String) : DTOps.Err :=
  if s = "OverflowError" then .overflow
  else if s = "NonExistingTime" then .nonExisting
  else if s = "AmbiguousTime" then .ambiguous
  else .valueError

theorem errOf_name (e : DTOps.Err) : errOf e.name = e := by cases e <;> decide

def liftAD : Except AddDur.Err Int → Except String N7
  | .ok w => .ok (fromWall w)
  | .error .valueError => .error "ValueError"
  | .error .overflow => .error "OverflowError"

def liftConv : Except DTOps.Err V → Except String (N7 × Bool)
  | .ok r => .ok (fromWall r.w, r.fold)
  | .error e => .error e.name

/-- the value a request denotes, for an instance in zone `v.z`: `create` is the model's, the raw constructor keeps the
    fields and the fold as given -/
def reqV (v : V) : Req → Except DTOps.Err V
  | .create y m d h mi s us fold => create v.z (toWall ⟨y, m, d, h, mi, s, us⟩) fold false
  | .construct y m d h mi s us fold => .ok ⟨v.z, toWall ⟨y, m, d, h, mi, s, us⟩, fold⟩
  | .date _ _ _ => .error .valueError

def interp (v : V) : Except String Req → Except DTOps.Err V
  | .ok r => reqV v r
  | .error s => .error (errOf s)

/-- **callee-link hypotheses**: how the parameters of the generated code relate to the model value `v` -/
structure Linked (I : Inst) (v : V) : Prop where
  fields : toWall ⟨I.year, I.month, I.day, I.hour, I.minute, I.second, I.microsecond⟩ = v.w
  fold : I.fold = v.fold
  hasTz : I.hasTz = (match v.z with | .naive => false | _ => true)
  utcoffset : I.utcoffset = (match v.z.table with | some z => some (z.woff v.fold v.w) | none => none)
  /-- native `datetime - timedelta`: OverflowError outside years 1..9999 -/
  sub_td : ∀ n d, I.sub_td n d =
    if inRange (toWall n - d) then .ok (fromWall (toWall n - d)) else .error "OverflowError"
  /-- `helpers.add_duration` is the model's `addDuration` (tied to the source by `C03.add_duration_source_eq_model`) -/
  add_duration : ∀ n y mo wk d h mi s us, I.add_duration n y mo wk d h mi s us =
    liftAD (addDuration (toWall n) y mo wk d h mi (secS s) (us + secU s))
  /-- `self.tz.convert(<UTC datetime>)` is the model's `inTz` from UTC into the instance's zone -/
  convert_utc : ∀ n, I.convert_utc n = liftConv (inTz ⟨.fixed 0, toWall n, false⟩ v.z false)

/-- the instance the generated code runs on, for a model value -/
def instOf (v : V) : Inst where
  year := (fromWall v.w).year
  month := (fromWall v.w).month
  day := (fromWall v.w).day
  hour := (fromWall v.w).hour
  minute := (fromWall v.w).minute
  second := (fromWall v.w).second
  microsecond := (fromWall v.w).microsecond
  fold := v.fold
  hasTz := match v.z with | .naive => false | _ => true
  utcoffset := match v.z.table with | some z => some (z.woff v.fold v.w) | none => none
  sub_td := fun n d => if inRange (toWall n - d) then .ok (fromWall (toWall n - d)) else .error "OverflowError"
  add_duration := fun n y mo wk d h mi s us => liftAD (addDuration (toWall n) y mo wk d h mi (secS s) (us + secU s))
  convert_utc := fun n => liftConv (inTz ⟨.fixed 0, toWall n, false⟩ v.z false)

/-- the hypotheses are satisfiable, for every value -/
theorem linked_instOf (v : V) : Linked (instOf v) v where
  fields := toWall_fromWall v.w
  fold := rfl
  hasTz := rfl
  utcoffset := rfl
  sub_td := fun _ _ => rfl
  add_duration := fun _ _ _ _ _ _ _ _ _ => rfl
  convert_utc := fun _ => rfl

/-! ### `DateTime.add` -/

theorem fromUtc_fixed (off u : Int) : fromUtc (fixedZ off) u = ⟨u + off, false⟩ := by
  simp [fromUtc, fixedZ, Z.off, Z.foldOf, offAt, foldAt]

theorem fixed0_instant (w : Int) (f : Bool) : V.instant ⟨.fixed 0, w, f⟩ = w := by
  simp [V.instant, V.offset, ZRef.table, fixedZ, Z.woff, wallOff]

@[simp] theorem n7_eta (n : N7) : (⟨n.year, n.month, n.day, n.hour, n.minute, n.second, n.microsecond⟩ : N7) = n := rfl

/-- the operand a model Duration is: what `_add_timedelta_` / `_subtract_timedelta` read from it -/
def opOfDur (d : Dur) : Operand where
  kind := .duration
  aware := false
  year := 0
  month := 0
  day := 0
  hour := 0
  minute := 0
  second := 0
  microsecond := 0
  years := d.years
  months := d.months
  weeks := d.weeks
  days := d.days
  remaining_days := d.rdays
  hours := d.hours
  minutes := d.minutes
  remaining_seconds := d.rsecs
  microseconds := d.us
  sig_years := d.sig.years
  sig_months := d.sig.months
  sig_weeks := d.sig.weeks
  sig_days := d.sig.days
  sig_hours := d.sig.hours
  sig_minutes := d.sig.minutes
  sig_seconds := d.sig.seconds
  sig_microseconds := d.sig.micros
  total_seconds := d.sig.totalUs

end Pendulum.DTArithGen
