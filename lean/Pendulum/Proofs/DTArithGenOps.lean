import Pendulum.Proofs.DTArithGenBase
/-! ties for the operator dispatch `__add__/__radd__/__sub__/__rsub__/diff` (split out of the former Proofs/DTArithGen.lean so that a broken tie of one group of methods
does not stop the properties that only depend on another group) -/
set_option linter.unusedSimpArgs false
namespace Pendulum.DTArithGen
open Pendulum Pendulum.Cal Pendulum.AddDur Pendulum.Zone Pendulum.DTOps Pendulum.CalOps
open Pendulum.Gen.DTArith

/-! ### operators -/

def isDelta (k : OKind) : Bool := k = .timedelta || k = .duration || k = .interval

/-- `__add__` / `__radd__`: NotImplemented unless the operand is a timedelta; the native addition when called from
    `astimezone`; otherwise `_add_timedelta_`. `__radd__` is `__add__` seen from a frame that is not `astimezone`. -/
theorem op_add_eq (I : Inst) (caller : String) (o : Operand) :
    dt_op_add I caller o =
      (if !isDelta o.kind then .ok .notImplemented
       else if caller = "astimezone" then .ok .super_add
       else Except.map Res.value (dt_add_timedelta I o)) ∧
    dt_op_radd I o = (if !isDelta o.kind then .ok .notImplemented else Except.map Res.value (dt_add_timedelta I o)) := by
  dta_tie "Pendulum.DTArithGen.op_add_eq" =>
    constructor
    · cases hk : o.kind <;> by_cases hc : caller = "astimezone" <;> simp [dt_op_add, isDelta, hk, hc]
    · cases hk : o.kind <;> simp [dt_op_radd, dt_op_add, isDelta, hk]

/-- the endpoint a datetime operand becomes: itself when it already is an instance of the class, `pendulum.naive(<its
    fields>)` when naive, `self.instance(other)` when aware -/
def rebuilt (o : Operand) : Who :=
  if o.kind = .pendulumDT then .other
  else if o.aware then .instance_other
  else .naive o.year o.month o.day o.hour o.minute o.second o.microsecond

/-- `__sub__`: a timedelta → `_subtract_timedelta`; a datetime → `Interval(<rebuilt other>, self, absolute=False)`;
    anything else → NotImplemented -/
theorem op_sub_eq (I : Inst) (o no : Operand) :
    dt_op_sub I o no =
      (if isDelta o.kind then Except.map Res.value (dt_subtract_timedelta I o no)
       else if o.kind = .datetime ∨ o.kind = .pendulumDT then .ok (.interval (rebuilt o) .self false)
       else .ok .notImplemented) := by
  dta_tie "Pendulum.DTArithGen.op_sub_eq" =>
    cases hk : o.kind <;> cases ha : o.aware <;> simp [dt_op_sub, dt_diff, isDelta, rebuilt, hk, ha]

/-- `__rsub__`: a datetime → `Interval(self, <rebuilt other>, absolute=False)`; anything else → NotImplemented -/
theorem op_rsub_eq (I : Inst) (o : Operand) :
    dt_op_rsub I o =
      (if o.kind = .datetime ∨ o.kind = .pendulumDT then .ok (.interval .self (rebuilt o) false)
       else .ok .notImplemented) := by
  dta_tie "Pendulum.DTArithGen.op_rsub_eq" =>
    cases hk : o.kind <;> cases ha : o.aware <;> simp [dt_op_rsub, dt_diff, rebuilt, hk, ha]

/-- `diff(dt, abs)`: `Interval(self, dt, absolute=abs)`, `dt` defaulting to now in the instance's zone -/
theorem diff_eq (me : Who) (dt : Option Who) (abs : Bool) :
    dt_diff me dt abs = .interval me (dt.getD (.now me)) abs := by
  dta_tie "Pendulum.DTArithGen.diff_eq" =>
    cases dt <;> simp [dt_diff]


end Pendulum.DTArithGen
