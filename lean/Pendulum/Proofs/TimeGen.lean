import Pendulum.Model.TimeOfDay
import Pendulum.Proofs.TimeOfDay
import Pendulum.Gen.TimeOfDay
import Lean.Elab.Tactic
/-! Tie between the *generated* translation of time.py (`Pendulum.Gen.TimeOfDay`, regenerated from the source on every
run by tools/gen_time.py) and the hand model `Pendulum.TimeOfDay` the C20 theorems are stated about: each generated
definition is proved equal to its model counterpart for all inputs.

Interface between the two vocabularies (hand-written, small):
* the model's time of day `t` (µs since 00:00) is the generated code's field tuple `fields t`;
* `klassUs (klass, us)`: the total the model attributes to `klass(microseconds=us)` (`Duration` keeps it,
  `AbsoluteDuration` reports its absolute value) — this is also what stands for `total_seconds()` in `closest`;
* `liftT`: the model's `Except Kind Int` as the generated `Except String F`;
* `DtAddOk dtAdd`: the hypothesis that the abstract carrier `DateTime.EPOCH.at(fields t).add(hours=.., ..)` (no
  years/months/weeks/days) is what the model's `add` says it is. -/
namespace Pendulum.TimeGen
open Pendulum.TimeOfDay
open Pendulum.Gen.TimeOfDay (F Klass OKind Res DtAdd)

/-- `tie "name" => tacs`: run `tacs`; when they fail, say which generated-model tie theorem broke (the check prints
    the build log, and Lean's own messages carry positions only) -/
elab "tie " n:str " => " t:tacticSeq : tactic => do
  try
    Lean.Elab.Tactic.withoutRecover (Lean.Elab.Tactic.evalTactic t)
    unless (← Lean.Elab.Tactic.getGoals).isEmpty do throwError "unsolved goals\n{Lean.Elab.goalsToMessageData (← Lean.Elab.Tactic.getGoals)}"
  catch e =>
    if e.isRuntime || !(e matches .error ..) then throw e
    let msg ← e.toMessageData.toString
    let msg := if msg.length > 900 then (msg.take 900).toString ++ " …" else msg
    throwError "GENERATED-MODEL TIE BROKEN: theorem Pendulum.TimeGen.{n.getString} — Gen/TimeOfDay.lean (regenerated from time.py) no longer equals Model/TimeOfDay.lean:\n{msg}\n(end of broken tie theorem Pendulum.TimeGen.{n.getString})"

def klassUs : Klass × Int → Int
  | (.Duration, x) => x
  | (.AbsoluteDuration, x) => absI x

def liftT : Except Kind Int → Except String F
  | .ok v => .ok (fields v)
  | .error k => .error k.name

/-- what the hand model claims about the carrier `DateTime.add` (tied by the correspondence run) -/
def DtAddOk (dtAdd : DtAdd) : Prop :=
  ∀ t h mi s us, 0 ≤ t → t < DAY → dtAdd (fields t) 0 0 0 0 h mi s us = liftT (TimeOfDay.add t h mi s us)

/-- a carrier satisfying the hypothesis (non-vacuity): the model's `add` on the value the fields denote -/
def dtAddRef : DtAdd := fun f _ _ _ _ h mi s us =>
  liftT (TimeOfDay.add (ofFields f.1 f.2.1 f.2.2.1 f.2.2.2) h mi s us)

theorem ofFields_fields (t : Int) :
    ofFields (fields t).1 (fields t).2.1 (fields t).2.2.1 (fields t).2.2.2 = t := by
  simp only [fields, ofFields]; omega

theorem dtAddRef_ok : DtAddOk dtAddRef := by
  intro t h mi s us _ _
  simp only [dtAddRef, ofFields_fields]

theorem map_eta (r : Except String F) :
    Except.map (fun (c : F) => ((c.1, c.2.1, c.2.2.1, c.2.2.2) : F)) r = r := by
  cases r <;> rfl

/-! ## diff -/

/-- `Time.diff` on arbitrary field values: the class is chosen by `abs`, the `microseconds=` argument is the
    difference of the two totals (hours, minutes, seconds *and* microseconds of both operands) -/
theorem diff_fields (h1 m1 s1 u1 h2 m2 s2 u2 : Int) (abs : Bool) :
    Gen.TimeOfDay.diff h1 m1 s1 u1 h2 m2 s2 u2 abs =
      (if abs then Klass.AbsoluteDuration else Klass.Duration, ofFields h2 m2 s2 u2 - ofFields h1 m1 s1 u1) := by
  tie "diff_fields" =>
    cases abs <;> simp only [Gen.TimeOfDay.diff, ofFields, if_true, if_false, Bool.false_eq_true, Prod.mk.injEq, true_and] <;> omega

/-- the generated `diff` applied to the fields of two times of day -/
def gdiff (a b : Int) (abs : Bool) : Klass × Int :=
  Gen.TimeOfDay.diff (fields a).1 (fields a).2.1 (fields a).2.2.1 (fields a).2.2.2
    (fields b).1 (fields b).2.1 (fields b).2.2.1 (fields b).2.2.2 abs

theorem gdiff_eq (a b : Int) (abs : Bool) :
    gdiff a b abs = (if abs then Klass.AbsoluteDuration else Klass.Duration, b - a) := by
  tie "gdiff_eq" =>
    simp only [gdiff, diff_fields, ofFields_fields]

theorem model_diff (a b : Int) (abs : Bool) : TimeOfDay.diff a b abs = if abs then absI (b - a) else b - a := by
  tie "model_diff" =>
    have e : ((fields b).1 * 3600 + (fields b).2.1 * 60 + (fields b).2.2.1) * 1000000 + (fields b).2.2.2 -
        (((fields a).1 * 3600 + (fields a).2.1 * 60 + (fields a).2.2.1) * 1000000 + (fields a).2.2.2) = b - a := by
      simp only [fields]; omega
    simp only [TimeOfDay.diff, e]

/-- generated `diff` = model `diff`, for all integers (no range needed) -/
theorem diff_eq (a b : Int) (abs : Bool) : klassUs (gdiff a b abs) = TimeOfDay.diff a b abs := by
  tie "diff_eq" =>
    rw [gdiff_eq, model_diff]; cases abs <;> rfl

/-! ## closest / farthest -/

theorem closest_eq (t a b : Int) :
    Gen.TimeOfDay.closest klassUs (fields t).1 (fields t).2.1 (fields t).2.2.1 (fields t).2.2.2
      (fields a).1 (fields a).2.1 (fields a).2.2.1 (fields a).2.2.2
      (fields b).1 (fields b).2.1 (fields b).2.2.1 (fields b).2.2.2 = fields (TimeOfDay.closest t a b) := by
  tie "closest_eq" =>
    have ha := diff_eq t a true
    have hb := diff_eq t b true
    simp only [gdiff] at ha hb
    simp only [Gen.TimeOfDay.closest, TimeOfDay.closest, ha, hb, decide_eq_true_eq]
    split <;> rfl

theorem farthest_eq (t a b : Int) :
    Gen.TimeOfDay.farthest klassUs (fields t).1 (fields t).2.1 (fields t).2.2.1 (fields t).2.2.2
      (fields a).1 (fields a).2.1 (fields a).2.2.1 (fields a).2.2.2
      (fields b).1 (fields b).2.1 (fields b).2.2.1 (fields b).2.2.2 = fields (TimeOfDay.farthest t a b) := by
  tie "farthest_eq" =>
    have ha := diff_eq t a true
    have hb := diff_eq t b true
    simp only [gdiff] at ha hb
    simp only [Gen.TimeOfDay.farthest, TimeOfDay.farthest, ha, hb, decide_eq_true_eq]
    split <;> rfl

/-! ## add / subtract through the carrier -/

theorem add_eq (dtAdd : DtAdd) (ok : DtAddOk dtAdd) (t h mi s us : Int) (ht : 0 ≤ t ∧ t < DAY) :
    Gen.TimeOfDay.add dtAdd (fields t).1 (fields t).2.1 (fields t).2.2.1 (fields t).2.2.2 h mi s us
      = liftT (TimeOfDay.add t h mi s us) := by
  tie "add_eq" =>
    have e : (((fields t).1, (fields t).2.1, (fields t).2.2.1, (fields t).2.2.2) : F) = fields t := rfl
    simp only [Gen.TimeOfDay.add, Gen.TimeOfDay.dt_at, Gen.TimeOfDay.dt_time, e, ok t h mi s us ht.1 ht.2, map_eta]

theorem subtract_eq (dtAdd : DtAdd) (ok : DtAddOk dtAdd) (t h mi s us : Int) (ht : 0 ≤ t ∧ t < DAY) :
    Gen.TimeOfDay.subtract dtAdd (fields t).1 (fields t).2.1 (fields t).2.2.1 (fields t).2.2.2 h mi s us
      = liftT (TimeOfDay.subtract t h mi s us) := by
  tie "subtract_eq" =>
    have e : (((fields t).1, (fields t).2.1, (fields t).2.2.1, (fields t).2.2.2) : F) = fields t := rfl
    simp only [Gen.TimeOfDay.subtract, Gen.TimeOfDay.dt_subtract, Gen.TimeOfDay.dt_at, Gen.TimeOfDay.dt_time, e,
      Int.neg_zero, ok t (-h) (-mi) (-s) (-us) ht.1 ht.2, map_eta, TimeOfDay.subtract]

/-! ## timedelta entry points -/

theorem add_timedelta_eq (dtAdd : DtAdd) (ok : DtAddOk dtAdd) (t : Int) (d : TD) (ht : 0 ≤ t ∧ t < DAY) :
    Gen.TimeOfDay.add_timedelta dtAdd (fields t).1 (fields t).2.1 (fields t).2.2.1 (fields t).2.2.2
      d.days d.seconds d.micros = liftT (addTd t d) := by
  tie "add_timedelta_eq" =>
    simp only [Gen.TimeOfDay.add_timedelta, addTd, add_eq dtAdd ok t _ _ _ _ ht, decide_eq_true_eq]
    split <;> rfl

theorem subtract_timedelta_eq (dtAdd : DtAdd) (ok : DtAddOk dtAdd) (t : Int) (d : TD) (ht : 0 ≤ t ∧ t < DAY) :
    Gen.TimeOfDay.subtract_timedelta dtAdd (fields t).1 (fields t).2.1 (fields t).2.2.1 (fields t).2.2.2
      d.days d.seconds d.micros = liftT (subTd t d) := by
  tie "subtract_timedelta_eq" =>
    simp only [Gen.TimeOfDay.subtract_timedelta, subTd, subtract_eq dtAdd ok t _ _ _ _ ht, decide_eq_true_eq]
    split <;> rfl

/-! ## operators -/

/-- `self + other`: a timedelta goes to `add_timedelta`, every other kind of operand gets `NotImplemented` -/
theorem op_add_eq (dtAdd : DtAdd) (ok : DtAddOk dtAdd) (t : Int) (ht : 0 ≤ t ∧ t < DAY) (sa oa : Bool) (k : OKind)
    (oh om os ou : Int) (d : TD) :
    Gen.TimeOfDay.op_add dtAdd (fields t).1 (fields t).2.1 (fields t).2.2.1 (fields t).2.2.2 sa k oa oh om os ou
      d.days d.seconds d.micros =
    (match k with
     | .timedelta => Except.map Res.time (liftT (addTd t d))
     | _ => .ok .notImplemented) := by
  tie "op_add_eq" =>
    cases k <;> simp [Gen.TimeOfDay.op_add, add_timedelta_eq dtAdd ok t d ht]

/-- `self - other`: timedelta → `subtract_timedelta`; a naive time of either class → `Duration(µs = self − other)`
    (through `other.diff(self, False)`); an aware time → TypeError; anything else → `NotImplemented` -/
theorem op_sub_eq (dtAdd : DtAdd) (ok : DtAddOk dtAdd) (a b : Int) (ha : 0 ≤ a ∧ a < DAY) (sa oa : Bool) (k : OKind)
    (d : TD) :
    Gen.TimeOfDay.op_sub dtAdd (fields a).1 (fields a).2.1 (fields a).2.2.1 (fields a).2.2.2 sa k oa
      (fields b).1 (fields b).2.1 (fields b).2.2.1 (fields b).2.2.2 d.days d.seconds d.micros =
    (match k with
     | .timedelta => Except.map Res.time (liftT (subTd a d))
     | .other => .ok .notImplemented
     | _ => if oa then .error "TypeError" else .ok (.duration (.Duration, TimeOfDay.sub a b))) := by
  tie "op_sub_eq" =>
    have hd := gdiff_eq b a false
    simp only [gdiff] at hd
    have hm : TimeOfDay.sub a b = a - b := by simp only [TimeOfDay.sub, model_diff]; rfl
    cases k <;> cases oa <;>
      simp [Gen.TimeOfDay.op_sub, subtract_timedelta_eq dtAdd ok a d ha, hd, hm]

/-- `other - self` with a plain `datetime.time` on the left (`__rsub__`): rebuilt as a `Time` and handed to `__sub__`;
    does not depend on the carrier -/
theorem op_rsub_eq (dtAdd : DtAdd) (self other : Int) (sa oa : Bool) (k : OKind) (d : TD) :
    Gen.TimeOfDay.op_rsub dtAdd (fields self).1 (fields self).2.1 (fields self).2.2.1 (fields self).2.2.2 sa k oa
      (fields other).1 (fields other).2.1 (fields other).2.2.1 (fields other).2.2.2 d.days d.seconds d.micros =
    (match k with
     | .timedelta => .ok .notImplemented
     | .other => .ok .notImplemented
     | _ => if oa || sa then .error "TypeError" else .ok (.duration (.Duration, TimeOfDay.rsub self other))) := by
  tie "op_rsub_eq" =>
    have hd := gdiff_eq self other false
    simp only [gdiff] at hd
    have hm : TimeOfDay.rsub self other = other - self := by simp only [TimeOfDay.rsub, TimeOfDay.sub, model_diff]; rfl
    cases k <;> cases oa <;> cases sa <;>
      simp [Gen.TimeOfDay.op_rsub, Gen.TimeOfDay.op_sub, hd, hm]

end Pendulum.TimeGen
