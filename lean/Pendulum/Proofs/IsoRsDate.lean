import Pendulum.Proofs.IsoRsStd
import Pendulum.Model.Iso
import Pendulum.Proofs.GenTie
/-! Tie between the regenerated compiled date parser (`Gen/IsoRs.lean`: `parse_integer`, `ordinal_to_ymd`, `iso_to_ymd`, the date
statement of `parse_datetime`) and the hand model `Model/Iso.lean` (`exactN`, `rsOrdToYmd`, `rsIsoToYmd`, `rsDateRest`). -/
namespace Pendulum.IsoRsGen
open Pendulum Pendulum.RsStd Pendulum.Gen.IsoRs Pendulum.Iso Pendulum.GenTie
set_option linter.unusedSimpArgs false

theorem dv_rust (c : Char) : dv .rust c = if isAsciiDigit c then some (c.toNat - 48) else none := by
  simp [dv, isAsciiDigit]

theorem toDigit10_dv (c : Char) : toDigit10 c = (dv .rust c).map (fun d => (d : Int)) := by
  unfold toDigit10
  by_cases h : 48 ≤ c.toNat ∧ c.toNat ≤ 57
  · simp [dv, h]; omega
  · simp [dv, h]

/-- the `for i in 0..length` loop of `parse_integer` reads exactly `n` digits -/
theorem int_loop (n : Nat) : ∀ (rest pre : List Char) (i len : Int) (name : String) (acc : Nat),
    match exactN .rust n acc rest with
    | some (v, rest') => ∃ pre', Parser.parse_integer_loop1 n i len name (stAt pre rest) (acc : Int) = .ok (stAt pre' rest', (v : Int))
    | none => ∃ e, Parser.parse_integer_loop1 n i len name (stAt pre rest) (acc : Int) = .error (.fail e) := by
  gen_tie "Pendulum.IsoRsGen.int_loop" "rust/src/parsing.rs (date part of the datetime parser)" =>
    induction n with
    | zero => intro rest pre i len name acc; exact ⟨pre, by simp [exactN, Parser.parse_integer_loop1]⟩
    | succ n ih =>
      intro rest pre i len name acc
      cases rest with
      | nil =>
        simp only [exactN, Parser.parse_integer_loop1, end_stAt, List.isEmpty_nil, if_true]
        exact ⟨_, rfl⟩
      | cons c cs =>
        cases hd : dv .rust c with
        | none =>
          simp only [exactN, hd, Parser.parse_integer_loop1, end_stAt, toDigit10_dv, List.isEmpty_cons, Bool.false_eq_true, if_false,
            current_stAt, List.headD_cons, Option.map_none]
          exact ⟨_, rfl⟩
        | some d =>
          simp only [exactN, hd]
          have := ih cs (pre ++ [c]) (i + 1) len name (10 * acc + d)
          have e : (10 : Int) * (acc : Int) + (d : Int) = ((10 * acc + d : Nat) : Int) := by simp
          simp only [Parser.parse_integer_loop1, end_stAt, toDigit10_dv, hd, List.isEmpty_cons, Bool.false_eq_true, if_false,
            current_stAt, List.headD_cons, Option.map_some, inc_cons, e]
          exact this

/-- `Parser::parse_integer(k, _)` = the hand model's `exactN .rust k 0` -/
theorem parse_integer_spec (pre rest : List Char) (k : Nat) (name : String) :
    match exactN .rust k 0 rest with
    | some (v, rest') => ∃ pre', Parser.parse_integer (stAt pre rest) (k : Int) name = .ok ((v : Int), stAt pre' rest')
    | none => ∃ e, Parser.parse_integer (stAt pre rest) (k : Int) name = .error (.fail e) := by
  gen_tie "Pendulum.IsoRsGen.parse_integer_spec" "rust/src/parsing.rs (date part of the datetime parser)" =>
    have := int_loop k rest pre 0 (k : Int) name 0
    have e : Int.toNat ((k : Int) - 0) = k := by omega
    cases h : exactN .rust k 0 rest with
    | none =>
      rw [h] at this
      obtain ⟨e', he⟩ := this
      exact ⟨e', by simp [Parser.parse_integer, e]; simp at he; rw [he]⟩
    | some x =>
      obtain ⟨v, rest'⟩ := x
      rw [h] at this
      obtain ⟨pre', he⟩ := this
      exact ⟨pre', by simp [Parser.parse_integer, e]; simp at he; rw [he]⟩


/-- how a `Result<(u32, u32, u32), ParseError>` of the generated code compares with the hand model -/
def YmdAgree (x : Except (Err ParseError) (Int × Int × Int)) (m : Except Kind (Int × Int × Int)) : Prop :=
  match m with
  | .ok t => x = .ok t
  | .error _ => ∃ e, x = .error (.fail e)

def leapI (y : Int) : Int := if Rs.is_leap y then 1 else 0

theorem tbl_eq (y i : Int) :
    (if leapI y == 0 then Gen.rs_MONTHS_OFFSETS_0 i else if leapI y == 1 then Gen.rs_MONTHS_OFFSETS_1 i else 0) = rsOff (Rs.is_leap y) i := by
  unfold leapI rsOff
  cases Rs.is_leap y <;> simp

/-- the `for i in 1..14` table walk of `ordinal_to_ymd` = the hand model's `walk` -/
theorem ord_loop (n : Nat) : ∀ (i ord y : Int),
    Parser.ordinal_to_ymd_loop1 n i ord y (leapI y) =
      (match walk (rsOff (Rs.is_leap y)) false ord n i with
        | some (m, d) => .ok (.ret (y, m, d))
        | none => .ok (.next ())) := by
  gen_tie "Pendulum.IsoRsGen.ord_loop" "rust/src/parsing.rs (date part of the datetime parser)" =>
    induction n with
    | zero => intro i ord y; simp [Parser.ordinal_to_ymd_loop1, walk]
    | succ n ih =>
      intro i ord y
      simp only [Parser.ordinal_to_ymd_loop1, walk, tbl_eq, Bool.false_eq_true, if_false, decide_eq_true_eq]
      by_cases h : ord ≤ rsOff (Rs.is_leap y) i
      · simp [h]
      · simp only [h, if_false]
        exact ih (i + 1) ord y

/-- `Parser::ordinal_to_ymd` = `Iso.rsOrdToYmd` -/
theorem ordinal_to_ymd_eq (self : Parser) (year ordinal : Int) (allow : Bool) :
    YmdAgree (Parser.ordinal_to_ymd self year ordinal allow) (rsOrdToYmd year ordinal allow) := by
  gen_tie "Pendulum.IsoRsGen.ordinal_to_ymd_eq" "rust/src/parsing.rs Parser::ordinal_to_ymd" =>
    unfold rsOrdToYmd rsOrdToYmdG YmdAgree
    have hl : ∀ y : Int, (if Rs.is_leap y = true then (1 : Int) else 0) = leapI y := fun y => rfl
    by_cases h1 : ordinal < 1
    · cases allow with
      | false =>
        simp only [h1, true_and, if_true, Parser.ordinal_to_ymd, Parser.ordinal_to_ymd_top3, decide_true, Bool.not_false]
        exact ⟨_, rfl⟩
      | true =>
        have a1 : adj1 Rs.days_in_year ordinal year = (ordinal + Rs.days_in_year (year - 1), year - 1) := by simp [adj1, h1]
        simp only [h1, Bool.true_eq_false, and_false, if_false, a1]
        by_cases h2 : ordinal + Rs.days_in_year (year - 1) > Rs.days_in_year (year - 1)
        · have a2 : adjust Rs.days_in_year ordinal year =
              (ordinal + Rs.days_in_year (year - 1) - Rs.days_in_year (year - 1), year - 1 + 1) := by simp [adjust, a1, h2]
          simp only [a2, Parser.ordinal_to_ymd, Parser.ordinal_to_ymd_top3, Parser.ordinal_to_ymd_top4, h1, decide_true, Bool.not_true,
            Bool.false_eq_true, if_false, if_true, h2, hl, ord_loop, show Int.toNat (14 - 1) = 13 by rfl]
          cases walk (rsOff (Rs.is_leap (year - 1 + 1))) false (ordinal + Rs.days_in_year (year - 1) - Rs.days_in_year (year - 1)) 13 1 with
          | none => exact ⟨_, rfl⟩
          | some md => rfl
        · have a2 : adjust Rs.days_in_year ordinal year = (ordinal + Rs.days_in_year (year - 1), year - 1) := by simp [adjust, a1, h2]
          simp only [a2, Parser.ordinal_to_ymd, Parser.ordinal_to_ymd_top3, Parser.ordinal_to_ymd_top4, h1, decide_true, Bool.not_true,
            Bool.false_eq_true, if_false, if_true, h2, decide_false, hl, ord_loop, show Int.toNat (14 - 1) = 13 by rfl]
          cases walk (rsOff (Rs.is_leap (year - 1))) false (ordinal + Rs.days_in_year (year - 1)) 13 1 with
          | none => exact ⟨_, rfl⟩
          | some md => rfl
    · have a1 : adj1 Rs.days_in_year ordinal year = (ordinal, year) := by simp [adj1, h1]
      simp only [h1, false_and, if_false, a1]
      by_cases h2 : ordinal > Rs.days_in_year year
      · cases allow with
        | false =>
          simp only [h2, true_and, if_true, Parser.ordinal_to_ymd, Parser.ordinal_to_ymd_top3, Parser.ordinal_to_ymd_top4, h1,
            decide_false, Bool.false_eq_true, if_false, decide_true, Bool.not_false]
          exact ⟨_, rfl⟩
        | true =>
          have a2 : adjust Rs.days_in_year ordinal year = (ordinal - Rs.days_in_year year, year + 1) := by simp [adjust, a1, h2]
          simp only [a2, Bool.true_eq_false, and_false, if_false, Parser.ordinal_to_ymd, Parser.ordinal_to_ymd_top3,
            Parser.ordinal_to_ymd_top4, h1, decide_false, Bool.false_eq_true, h2, decide_true, Bool.not_true, if_true, hl, ord_loop,
            show Int.toNat (14 - 1) = 13 by rfl]
          cases walk (rsOff (Rs.is_leap (year + 1))) false (ordinal - Rs.days_in_year year) 13 1 with
          | none => exact ⟨_, rfl⟩
          | some md => rfl
      · have a2 : adjust Rs.days_in_year ordinal year = (ordinal, year) := by simp [adjust, a1, h2]
        simp only [a2, h2, false_and, if_false, Parser.ordinal_to_ymd, Parser.ordinal_to_ymd_top3, Parser.ordinal_to_ymd_top4, h1,
          decide_false, Bool.false_eq_true, hl, ord_loop, show Int.toNat (14 - 1) = 13 by rfl]
        cases walk (rsOff (Rs.is_leap year)) false ordinal 13 1 with
        | none => exact ⟨_, rfl⟩
        | some md => rfl

/-- `Parser::iso_to_ymd` = `Iso.rsIsoToYmd` -/
theorem iso_to_ymd_eq (self : Parser) (y w d : Int) :
    YmdAgree (Parser.iso_to_ymd self y w d) (rsIsoToYmd y w d) := by
  gen_tie "Pendulum.IsoRsGen.iso_to_ymd_eq" "rust/src/parsing.rs Parser::iso_to_ymd" =>
    unfold rsIsoToYmd
    by_cases h1 : w < 1 ∨ w > 53 ∨ (w > 52 ∧ Rs.is_long_year y = false)
    · have : (decide (w < 1) || decide (w > 53) || decide (w > 52) && !Rs.is_long_year y) = true := by
        simp only [Bool.or_eq_true, Bool.and_eq_true, decide_eq_true_eq, Bool.not_eq_true']
        rcases h1 with h | h | h
        · exact Or.inl (Or.inl h)
        · exact Or.inl (Or.inr h)
        · exact Or.inr h
      simp only [h1, if_true, YmdAgree, Parser.iso_to_ymd, this]
      exact ⟨_, rfl⟩
    · have : (decide (w < 1) || decide (w > 53) || decide (w > 52) && !Rs.is_long_year y) = false := by
        cases hb : (decide (w < 1) || decide (w > 53) || decide (w > 52) && !Rs.is_long_year y) with
        | false => rfl
        | true =>
          exfalso; apply h1
          simp only [Bool.or_eq_true, Bool.and_eq_true, decide_eq_true_eq, Bool.not_eq_true'] at hb
          rcases hb with (h | h) | h
          · exact Or.inl h
          · exact Or.inr (Or.inl h)
          · exact Or.inr (Or.inr h)
      simp only [h1, if_false, Parser.iso_to_ymd, this, Bool.false_eq_true]
      by_cases h2 : d < 1 ∨ d > 7
      · have : (!(decide (1 ≤ d) && decide (d ≤ 7))) = true := by
          simp only [Bool.not_eq_true', Bool.and_eq_false_iff, decide_eq_false_iff_not]; omega
        simp only [h2, if_true, YmdAgree, this]
        exact ⟨_, rfl⟩
      · have : (!(decide (1 ≤ d) && decide (d ≤ 7))) = false := by
          simp only [Bool.not_eq_false', Bool.and_eq_true, decide_eq_true_eq]; omega
        simp only [h2, if_false, this, Bool.false_eq_true]
        exact ordinal_to_ymd_eq self y (w * 7 + d - (Rs.week_day y 1 4 + 3)) true


theorem pi_ok {self : Parser} {r : List Char} (h : At self r) (k : Nat) (name : String) {v : Nat} {r' : List Char}
    (hx : exactN .rust k 0 r = some (v, r')) :
    ∃ self', Parser.parse_integer self (k : Int) name = .ok ((v : Int), self') ∧ At self' r' := by
  obtain ⟨p, rfl⟩ := h
  have := parse_integer_spec p r k name
  rw [hx] at this
  obtain ⟨p', hp⟩ := this
  exact ⟨stAt p' r', hp, p', rfl⟩

theorem pi_err {self : Parser} {r : List Char} (h : At self r) (k : Nat) (name : String)
    (hx : exactN .rust k 0 r = none) : ∃ e, Parser.parse_integer self (k : Int) name = .error (.fail e) := by
  obtain ⟨p, rfl⟩ := h
  have := parse_integer_spec p r k name
  rw [hx] at this
  exact this

theorem ymd_ok {x : Except (Err ParseError) (Int × Int × Int)} {m : Except Kind (Int × Int × Int)} {t : Int × Int × Int}
    (h : YmdAgree x m) (hm : m = .ok t) : x = .ok t := by subst hm; exact h
theorem ymd_err {x : Except (Err ParseError) (Int × Int × Int)} {m : Except Kind (Int × Int × Int)} {k : Kind}
    (h : YmdAgree x m) (hm : m = .error k) : ∃ e, x = .error (.fail e) := by subst hm; exact h

/-- `!self.end() && self.current != ' ' && self.current != 'T'` -/
theorem notSep_eq {self : Parser} {r : List Char} (h : At self r) :
    (((!(Parser.end_ self)) && (self.current != ' ')) && (self.current != 'T')) = !atSep r := by
  rw [h.end_, h.cur]
  cases r with
  | nil => rfl
  | cons c cs => simp [atSep, bne]

theorem isSepG_eq {self : Parser} {r : List Char} (h : At self r) :
    (((Parser.end_ self) || (self.current == ' ')) || (self.current == 'T')) = atSep r := by
  rw [h.end_, h.cur]
  cases r with
  | nil => rfl
  | cons c cs => simp [atSep]

def setYmd (dt : ParsedDateTime) (t : Int × Int × Int) (ext : Bool) : ParsedDateTime :=
  { dt with year := t.1, month := t.2.1, day := t.2.2, extended_date_format := ext }

def DateAgree (x : Except (Err ParseError) (Parser × ParsedDateTime)) (dt : ParsedDateTime)
    (m : Except Kind ((Int × Int × Int) × Bool × List Char)) : Prop :=
  match m with
  | .ok (t, ext, rest') => ∃ self', x = .ok (self', setYmd dt t ext) ∧ At self' rest'
  | .error _ => ∃ e, x = .error (.fail e)


theorem pi_ok2 {self : Parser} {r : List Char} (h : At self r) (name : String) {v : Nat} {r' : List Char}
    (hx : exactN .rust 2 0 r = some (v, r')) :
    ∃ self', Parser.parse_integer self 2 name = .ok ((v : Int), self') ∧ At self' r' := pi_ok h 2 name hx
theorem pi_ok1 {self : Parser} {r : List Char} (h : At self r) (name : String) {v : Nat} {r' : List Char}
    (hx : exactN .rust 1 0 r = some (v, r')) :
    ∃ self', Parser.parse_integer self 1 name = .ok ((v : Int), self') ∧ At self' r' := pi_ok h 1 name hx
theorem pi_err2 {self : Parser} {r : List Char} (h : At self r) (name : String)
    (hx : exactN .rust 2 0 r = none) : ∃ e, Parser.parse_integer self 2 name = .error (.fail e) := pi_err h 2 name hx
theorem pi_err1 {self : Parser} {r : List Char} (h : At self r) (name : String)
    (hx : exactN .rust 1 0 r = none) : ∃ e, Parser.parse_integer self 1 name = .error (.fail e) := pi_err h 1 name hx

theorem optChar_cons (ch c : Char) (r : List Char) : optChar ch (c :: r) = if c = ch then (true, r) else (false, c :: r) := rfl

theorem dateAgree_err {x : Except (Err ParseError) (Parser × ParsedDateTime)} {dt : ParsedDateTime}
    {m : Except Kind ((Int × Int × Int) × Bool × List Char)} (k : Kind) (hm : m = .error k) (e : ParseError)
    (hx : x = .error (.fail e)) : DateAgree x dt m := by subst hm; exact ⟨e, hx⟩

theorem dateAgree_ok {x : Except (Err ParseError) (Parser × ParsedDateTime)} {dt : ParsedDateTime}
    {m : Except Kind ((Int × Int × Int) × Bool × List Char)} (t : Int × Int × Int) (ext : Bool) (r' : List Char)
    (hm : m = .ok (t, ext, r')) (self' : Parser) (hx : x = .ok (self', setYmd dt t ext)) (h : At self' r') : DateAgree x dt m := by
  subst hm; exact ⟨self', hx, h⟩

theorem ymd_finish (X : Except (Err ParseError) (Int × Int × Int)) (M : Except Kind (Int × Int × Int))
    (self : Parser) (r : List Char) (h : At self r) (dt : ParsedDateTime) (ext : Bool) : YmdAgree X M →
    DateAgree (match X with
      | .error e => .error e
      | .ok (y, m, dd) => .ok (self, setYmd dt (y, m, dd) ext)) dt (withRest M ext r) := by
  intro hXM
  cases M with
  | error k => obtain ⟨e, he⟩ := hXM; subst he; exact ⟨e, rfl⟩
  | ok t => obtain ⟨y, m, dd⟩ := t; have : X = .ok (y, m, dd) := hXM; subst this; exact ⟨self, rfl, h⟩

theorem atSep_nil : atSep [] = true := rfl

/-- **the date part of `parse_datetime`** (the statement after the four year digits: calendar / ordinal / week date, basic or
extended) = `Iso.rsDateRest` -/
theorem date_spec (self : Parser) (r : List Char) (h : At self r) (dt : ParsedDateTime) (year : Nat)
    (hy : dt.year = (year : Int)) (hext : dt.extended_date_format = false) :
    DateAgree (Parser.parse_datetime_top6 self dt) dt (rsDateRest year r) := by
  gen_tie "Pendulum.IsoRsGen.date_spec" "rust/src/parsing.rs (date part of the datetime parser)" =>
    have hnW : ¬ ('\x00' = 'W') := by decide
    have hnD : ¬ ('\x00' = '-') := by decide
    obtain ⟨y0, m0, d0, hh0, mi0, s0, us0, off0, ho0, tzn0, hd0, ht0, ext0, mid0⟩ := dt
    simp only at hy hext
    subst hy; subst hext
    let dt : ParsedDateTime := ⟨(year : Int), m0, d0, hh0, mi0, s0, us0, off0, ho0, tzn0, hd0, ht0, false, mid0⟩
    show DateAgree (Parser.parse_datetime_top6 self dt) dt (rsDateRest year r)
    unfold Parser.parse_datetime_top6 rsDateRest
    -- the two copies of the week tail and the month tails, for a parser in front of `q`
    have weekExt : ∀ (s2 : Parser) (q : List Char), At s2 q →
        DateAgree (match (Parser.parse_integer s2 2 "iso week") with
            | .error e => .error e
            | .ok (iso_week, self) =>
            match ((
                if (((!(Parser.end_ self)) && (self.current != ' ')) && (self.current != 'T')) then (
                    if (self.current != '-') then (
                        .error (.fail (Parser.parse_error self ("Invalid character \"" ++ toString self.current ++ "\" while parsing " ++ "date separator")))
                    ) else
                    match (Parser.parse_integer (Parser.inc self).2 1 "iso day") with
                    | .error e => .error e
                    | .ok (t_6, self) => .ok (self, t_6)
                ) else (
                    .ok (self, 1)
                )
                ) : Except (Err ParseError) ((Parser × Int))) with
            | .error e => .error e
            | .ok (self, iso_day) =>
            match (Parser.iso_to_ymd self (year : Int) iso_week iso_day) with
            | .error e => .error e
            | .ok (y, m, dd) => .ok (self, setYmd dt (y, m, dd) true)) dt (rsWeekTail year true q) := by
      intro s2 q h2
      unfold rsWeekTail
      cases hx : exactN .rust 2 0 q with
      | none =>
        obtain ⟨e, he⟩ := pi_err2 h2 "iso week" hx
        simp only [he]
        exact ⟨_, rfl⟩
      | some x =>
        obtain ⟨w, r3⟩ := x
        obtain ⟨s3, he, h3⟩ := pi_ok2 h2 "iso week" hx
        simp only [he, notSep_eq h3]
        by_cases hs : atSep r3 = true
        · simp only [hs, Bool.not_true, Bool.false_eq_true, if_false, if_true]
          exact ymd_finish _ _ s3 r3 h3 dt true (iso_to_ymd_eq s3 year w 1)
        · have hs' : atSep r3 = false := by simpa using hs
          simp only [hs', Bool.not_false, if_true, Bool.false_eq_true, if_false, h3.cur]
          cases r3 with
          | nil => simp [atSep] at hs'
          | cons c3 r4 =>
            simp only [List.headD_cons, optChar_cons]
            by_cases hc3 : c3 = '-'
            · subst hc3
              have h4 := h3.inc
              simp only [bne_self_eq_false, Bool.false_eq_true, if_false, if_true]
              cases hx1 : exactN .rust 1 0 r4 with
              | none =>
                obtain ⟨e, he1⟩ := pi_err1 h4 "iso day" hx1
                simp only [he1]
                exact ⟨_, rfl⟩
              | some x1 =>
                obtain ⟨d, r5⟩ := x1
                obtain ⟨s5, he1, h5⟩ := pi_ok1 h4 "iso day" hx1
                simp only [he1]
                exact ymd_finish _ _ s5 r5 h5 dt true (iso_to_ymd_eq s5 year w d)
            · have : (c3 != '-') = true := by simpa using hc3
              simp only [this, if_true, hc3, if_false, Bool.false_eq_true]
              exact ⟨_, rfl⟩
    have weekBasic : ∀ (s2 : Parser) (q : List Char), At s2 q →
        DateAgree (match (Parser.parse_integer s2 2 "iso week") with
            | .error e => .error e
            | .ok (iso_week, self) =>
            match ((
                if (((!(Parser.end_ self)) && (self.current != ' ')) && (self.current != 'T')) then (
                    match (Parser.parse_integer self 1 "iso day") with
                    | .error e => .error e
                    | .ok (t_12, self) => .ok (self, t_12)
                ) else (
                    .ok (self, 1)
                )
                ) : Except (Err ParseError) ((Parser × Int))) with
            | .error e => .error e
            | .ok (self, iso_day) =>
            match (Parser.iso_to_ymd self (year : Int) iso_week iso_day) with
            | .error e => .error e
            | .ok (y, m, dd) => .ok (self, setYmd dt (y, m, dd) false)) dt (rsWeekTail year false q) := by
      intro s2 q h2
      unfold rsWeekTail
      cases hx : exactN .rust 2 0 q with
      | none =>
        obtain ⟨e, he⟩ := pi_err2 h2 "iso week" hx
        simp only [he]
        exact ⟨_, rfl⟩
      | some x =>
        obtain ⟨w, r3⟩ := x
        obtain ⟨s3, he, h3⟩ := pi_ok2 h2 "iso week" hx
        simp only [he, notSep_eq h3]
        by_cases hs : atSep r3 = true
        · simp only [hs, Bool.not_true, Bool.false_eq_true, if_false, if_true]
          exact ymd_finish _ _ s3 r3 h3 dt false (iso_to_ymd_eq s3 year w 1)
        · have hs' : atSep r3 = false := by simpa using hs
          simp only [hs', Bool.not_false, if_true, Bool.false_eq_true, if_false]
          cases hx1 : exactN .rust 1 0 r3 with
          | none =>
            obtain ⟨e, he1⟩ := pi_err1 h3 "iso day" hx1
            simp only [he1]
            exact ⟨_, rfl⟩
          | some x1 =>
            obtain ⟨d, r5⟩ := x1
            obtain ⟨s5, he1, h5⟩ := pi_ok1 h3 "iso day" hx1
            simp only [he1]
            exact ymd_finish _ _ s5 r5 h5 dt false (iso_to_ymd_eq s5 year w d)
    have monthExt : ∀ (s2 : Parser) (q : List Char), At s2 q →
        DateAgree (match (Parser.parse_integer s2 2 "month") with
            | .error e => .error e
            | .ok (t_7, self) =>
            if (((!(Parser.end_ self)) && (self.current != ' ')) && (self.current != 'T')) then (
                if (self.current == '-') then (
                    match (Parser.parse_integer (Parser.inc self).2 2 "day") with
                    | .error e => .error e
                    | .ok (t_9, self) => .ok (self, setYmd dt ((year : Int), t_7, t_9) true)
                ) else (
                    match (Parser.parse_integer self 1 "ordinal day") with
                    | .error e => .error e
                    | .ok (t_10, self) =>
                    match (Parser.ordinal_to_ymd self (year : Int) ((t_7 * 10) + t_10) false) with
                    | .error e => .error e
                    | .ok (y, m, dd) => .ok (self, setYmd dt (y, m, dd) true)
                )
            ) else (
                .ok (self, setYmd dt ((year : Int), t_7, 1) true)
            )) dt (rsMonthTailExt year q) := by
      intro s2 q h2
      unfold rsMonthTailExt
      cases hx : exactN .rust 2 0 q with
      | none =>
        obtain ⟨e, he⟩ := pi_err2 h2 "month" hx
        simp only [he]
        exact ⟨_, rfl⟩
      | some x =>
        obtain ⟨mo, r3⟩ := x
        obtain ⟨s3, he, h3⟩ := pi_ok2 h2 "month" hx
        simp only [he, notSep_eq h3]
        by_cases hs : atSep r3 = true
        · simp only [hs, Bool.not_true, Bool.false_eq_true, if_false, if_true]
          exact ⟨s3, rfl, h3⟩
        · have hs' : atSep r3 = false := by simpa using hs
          simp only [hs', Bool.not_false, if_true, Bool.false_eq_true, if_false, h3.cur]
          cases r3 with
          | nil => simp [atSep] at hs'
          | cons c3 r4 =>
            simp only [List.headD_cons, optChar_cons]
            by_cases hc3 : c3 = '-'
            · subst hc3
              have h4 := h3.inc
              simp only [beq_self_eq_true, if_true]
              cases hx1 : exactN .rust 2 0 r4 with
              | none =>
                obtain ⟨e, he1⟩ := pi_err2 h4 "day" hx1
                simp only [he1]
                exact ⟨_, rfl⟩
              | some x1 =>
                obtain ⟨d, r5⟩ := x1
                obtain ⟨s5, he1, h5⟩ := pi_ok2 h4 "day" hx1
                simp only [he1]
                exact ⟨s5, rfl, h5⟩
            · have : (c3 == '-') = false := by simpa using hc3
              simp only [this, hc3, if_false, Bool.false_eq_true]
              cases hx1 : exactN .rust 1 0 (c3 :: r4) with
              | none =>
                obtain ⟨e, he1⟩ := pi_err1 h3 "ordinal day" hx1
                simp only [he1]
                exact ⟨_, rfl⟩
              | some x1 =>
                obtain ⟨o, r5⟩ := x1
                obtain ⟨s5, he1, h5⟩ := pi_ok1 h3 "ordinal day" hx1
                simp only [he1]
                exact ymd_finish _ _ s5 r5 h5 dt true (ordinal_to_ymd_eq s5 year ((mo : Int) * 10 + o) false)
    have basicTail : ∀ (s2 : Parser) (q : List Char), At s2 q →
        DateAgree (match (Parser.parse_integer s2 2 "month") with
            | .error e => .error e
            | .ok (t_13, self) =>
            match (Parser.parse_integer self 1 "ordinal day") with
            | .error e => .error e
            | .ok (t_14, self) =>
            match ((if (((Parser.end_ self) || (self.current == ' ')) || (self.current == 'T')) then (
                match (Parser.ordinal_to_ymd self (year : Int) (t_14 + (t_13 * 10)) false) with
                | .error e => .error e
                | .ok (y, m, dd) => .ok (self, setYmd dt (y, m, dd) false, t_14 + (t_13 * 10))
            ) else (
                match (Parser.parse_integer self 1 "day") with
                | .error e => .error e
                | .ok (t_15, self) => .ok (self, setYmd dt ((year : Int), t_13, ((t_14 * 10) + t_15)) false, t_14)
            )) : Except (Err ParseError) (Parser × ParsedDateTime × Int)) with
            | .error e => .error e
            | .ok (self, datetime, ordinal_day) => .ok (self, datetime)) dt (rsBasicTail year q) := by
      intro s2 q h2
      unfold rsBasicTail
      cases hx : exactN .rust 2 0 q with
      | none =>
        obtain ⟨e, he⟩ := pi_err2 h2 "month" hx
        simp only [he]
        exact ⟨_, rfl⟩
      | some x =>
        obtain ⟨mo, r3⟩ := x
        obtain ⟨s3, he, h3⟩ := pi_ok2 h2 "month" hx
        simp only [he]
        cases hx1 : exactN .rust 1 0 r3 with
        | none =>
          obtain ⟨e, he1⟩ := pi_err1 h3 "ordinal day" hx1
          simp only [he1]
          exact ⟨_, rfl⟩
        | some x1 =>
          obtain ⟨o, r4⟩ := x1
          obtain ⟨s4, he1, h4⟩ := pi_ok1 h3 "ordinal day" hx1
          simp only [he1, isSepG_eq h4]
          by_cases hs : atSep r4 = true
          · simp only [hs, if_true]
            have e : (o : Int) + (mo : Int) * 10 = (mo : Int) * 10 + o := by omega
            rw [e]
            have yf := ordinal_to_ymd_eq s4 year ((mo : Int) * 10 + o) false
            cases hm : rsOrdToYmd year ((mo : Int) * 10 + o) false with
            | error k =>
              obtain ⟨e2, he2⟩ := ymd_err yf hm
              simp only [he2, withRest]
              exact ⟨_, rfl⟩
            | ok t =>
              have he2 := ymd_ok yf hm
              obtain ⟨y, m, dd⟩ := t
              simp only [he2, withRest]
              exact ⟨s4, rfl, h4⟩
          · have hs' : atSep r4 = false := by simpa using hs
            simp only [hs', Bool.false_eq_true, if_false]
            cases hx2 : exactN .rust 1 0 r4 with
            | none =>
              obtain ⟨e, he2⟩ := pi_err1 h4 "day" hx2
              simp only [he2]
              exact ⟨_, rfl⟩
            | some x2 =>
              obtain ⟨d2, r5⟩ := x2
              obtain ⟨s5, he2, h5⟩ := pi_ok1 h4 "day" hx2
              simp only [he2]
              refine ⟨s5, ?_, h5⟩
              simp
    have hh := h
    rw [h.cur]
    cases r with
    | nil =>
      simp only [List.headD_nil, optChar, show ('\x00' == '-') = false by decide, show ('\x00' == 'W') = false by decide,
        Bool.false_eq_true, if_false]
      exact basicTail self [] hh
    | cons c r1 =>
      simp only [List.headD_cons, optChar_cons]
      by_cases hc : c = '-'
      · subst hc
        have h1 := hh.inc
        simp only [beq_self_eq_true, if_true, h1.cur]
        cases r1 with
        | nil =>
          simp only [List.headD_nil, optChar, show ('\x00' == 'W') = false by decide, Bool.false_eq_true, if_false]
          exact monthExt _ [] h1
        | cons c2 r2 =>
          simp only [List.headD_cons, optChar_cons]
          by_cases hw : c2 = 'W'
          · subst hw
            simp only [beq_self_eq_true, if_true]
            exact weekExt _ r2 h1.inc
          · have : (c2 == 'W') = false := by simpa using hw
            simp only [this, hw, Bool.false_eq_true, if_false]
            exact monthExt _ (c2 :: r2) h1
      · have hcb : (c == '-') = false := by simpa using hc
        simp only [hcb, hc, Bool.false_eq_true, if_false]
        by_cases hw : c = 'W'
        · subst hw
          simp only [beq_self_eq_true, if_true]
          exact weekBasic _ r1 hh.inc
        · have : (c == 'W') = false := by simpa using hw
          simp only [this, hw, Bool.false_eq_true, if_false]
          exact basicTail self (c :: r1) hh

end Pendulum.IsoRsGen
