import Pendulum.Gen.RsPreciseDiff
import Pendulum.Proofs.PDGen
/-! Tie between the *generated* translation of the compiled `precise_diff` (`Pendulum.Gen.RsPreciseDiff`, regenerated from
rust/src/python/helpers.rs on every run by tools/gen_rust_pd.py) and the hand model `preciseDiffRs`.
Hand-modelled and tied by the correspondence run only: field extraction through pyo3, `helpers::local_time`
(`LocalTime.localTime`, C15), the derived tuple ordering of `DateTimeInfo` (`lexLt` on `E.key`; its source is pinned). -/
namespace Pendulum.PDGen
open Pendulum Pendulum.PreciseDiff

/-- `dtinfo1.tz == dtinfo2.tz && !dtinfo1.tz.is_empty()` is the model's `sameTz` (an unnamed or absent tzinfo has the
    empty name) -/
theorem rs_in_same_tz_eq (t1 t2 : Int) :
    Gen.RsPreciseDiff.in_same_tz (tzName t1) (tzName t2) = (decide (t1 = t2) && decide (t1 > 0)) := by
  first
    | (simp only [Gen.RsPreciseDiff.in_same_tz, tzName]
       by_cases h1 : t1 > 0 <;> by_cases h2 : t2 > 0 <;> by_cases h5 : t1 = t2 <;> simp [h1, h2, h5] <;> omega
       done)
    | (exfalso; fail "TIE BROKEN PDGen.rs_in_same_tz_eq: `in_same_tz` of the compiled precise_diff is no longer the model's sameTz")

theorem rs_total_days_eq (y1 m1 d1 y2 m2 d2 : Int) :
    Gen.RsPreciseDiff.total_days y1 m1 d1 y2 m2 d2 = Rs.day_number y2 m2 d2 - Rs.day_number y1 m1 d1 := by
  first
    | rfl
    | (simp only [Gen.RsPreciseDiff.total_days]; omega)
    | (exfalso; fail "TIE BROKEN PDGen.rs_total_days_eq: `total_days` of the compiled precise_diff changed")

/-- both endpoint blocks shift to UTC exactly when the value is a datetime and
    `!in_same_tz && offset != 0 || total_days == 0` -/
theorem rs_shift_taken_eq (dt same : Bool) (off total : Int) :
    Gen.RsPreciseDiff.shift_taken_1 dt same off total = (dt && ((!same && decide (off ≠ 0)) || decide (total = 0))) ∧
    Gen.RsPreciseDiff.shift_taken_2 dt same off total = (dt && ((!same && decide (off ≠ 0)) || decide (total = 0))) := by
  first
    | (simp only [Gen.RsPreciseDiff.shift_taken_1, Gen.RsPreciseDiff.shift_taken_2]
       cases dt <;> cases same <;> by_cases h : total = 0 <;> by_cases h' : off = 0 <;> simp [h, h']
       done)
    | (exfalso; fail "TIE BROKEN PDGen.rs_shift_taken_eq: condition/position of shift_to_utc in the compiled precise_diff changed")

/-- the unix time `shift_to_utc` computes (`days`, `seconds`, `timestamp`) is the model's -/
theorem rs_shift_timestamp_eq (y m d h mi s off : Int) :
    Gen.RsPreciseDiff.shift_timestamp y m d h mi s off =
      (Rs.day_number y m d - Rs.day_number Gen.rs_EPOCH_YEAR 1 1) * Gen.rs_SECS_PER_DAY +
        (h * Gen.rs_SECS_PER_HOUR + mi * Gen.rs_SECS_PER_MIN + s - off) := by
  first
    | rfl
    | (simp only [Gen.RsPreciseDiff.shift_timestamp, Gen.rs_SECS_PER_DAY, Gen.rs_SECS_PER_HOUR, Gen.rs_SECS_PER_MIN]
       omega)
    | (exfalso; fail "TIE BROKEN PDGen.rs_shift_timestamp_eq: days/seconds/timestamp of DateTimeInfo::shift_to_utc changed")

/-- `shift_to_utc` hands the model's unix time to `local_time` -/
theorem rs_shift_eq (e : E) :
    rsShift e =
      (let (y, m, d, h, mi, s) := LocalTime.localTime true LocalTime.rsTbl
          (Gen.RsPreciseDiff.shift_timestamp e.y e.m e.d e.h e.mi e.s e.off) 0
       { e with y := y, m := m, d := d, h := h, mi := mi, s := s, off := 0 }) := by
  rw [rs_shift_timestamp_eq]
  rfl

/-- everything from `if dtinfo1 > dtinfo2 {` to `Ok(PreciseDiff { … })`: the exchange with `sign = -1` and
    `total_days = -total_days`, borrow cascade, month and year borrow, the signed struct — for ALL integers -/
theorem rs_core_eq (a b : E) (total : Int) :
    Gen.RsPreciseDiff.core (lexLt b.key a.key) total a.y a.m a.d a.h a.mi a.s a.us b.y b.m b.d b.h b.mi b.s b.us =
      (let sw := lexLt b.key a.key
       let d1 := if sw then b else a
       let d2 := if sw then a else b
       let sign : Int := if sw then -1 else 1
       let total := if sw then -total else total
       let (dd0, h, mi, s, us) := timeDiff d1 d2
       let (yd, md, dd) := dateDiff dimRs d1.y d1.m d1.d d2.y d2.m d2.d dd0
       PD.scale sign ⟨yd, md, dd, h, mi, s, us, total⟩).toList := by
  obtain ⟨y1, m1, d1, h1, mi1, s1, us1, off1, tz1, dt1⟩ := a
  obtain ⟨y2, m2, d2, h2, mi2, s2, us2, off2, tz2, dt2⟩ := b
  generalize lexLt _ _ = sw
  first
    | (cases sw <;>
         simp only [Gen.RsPreciseDiff.core, timeDiff, dateDiff, PD.scale, PD.toList, dimRs, ite_fst, ite_snd, if_true,
           if_false, Bool.false_eq_true] <;> grind
       done)
    | (exfalso; fail "TIE BROKEN PDGen.rs_core_eq: the integer core of the compiled precise_diff (Gen.RsPreciseDiff.core) is no longer the model's swap/timeDiff/dateDiff")

/-- the compiled `precise_diff` as assembled from the generated definitions; hand-modelled: `rsShift`'s `local_time`,
    `E.dateOnly` (the struct initialiser leaves the time fields of a `date` at 0), `lexLt` (derived tuple ordering) -/
def sourcePreciseDiffRs (a b : E) : List Int :=
  let same := Gen.RsPreciseDiff.in_same_tz (tzName a.tz) (tzName b.tz)
  let total := Gen.RsPreciseDiff.total_days a.y a.m a.d b.y b.m b.d
  let a' := if Gen.RsPreciseDiff.shift_taken_1 a.isDt same a.off total then rsShift a
            else if a.isDt then a else a.dateOnly
  let b' := if Gen.RsPreciseDiff.shift_taken_2 b.isDt same b.off total then rsShift b
            else if b.isDt then b else b.dateOnly
  Gen.RsPreciseDiff.core (lexLt b'.key a'.key) total a'.y a'.m a'.d a'.h a'.mi a'.s a'.us
    b'.y b'.m b'.d b'.h b'.mi b'.s b'.us

/-- an endpoint block: shift when taken, otherwise the value itself, a `date` with its zero time fields -/
theorem rs_prep_eq (e : E) (same : Bool) (total : Int) :
    (if Gen.RsPreciseDiff.shift_taken_1 e.isDt same e.off total then rsShift e else if e.isDt then e else e.dateOnly) =
      (if e.isDt then (if (!same && decide (e.off ≠ 0)) || decide (total = 0) then rsShift e else e) else e.dateOnly) ∧
    (if Gen.RsPreciseDiff.shift_taken_2 e.isDt same e.off total then rsShift e else if e.isDt then e else e.dateOnly) =
      (if e.isDt then (if (!same && decide (e.off ≠ 0)) || decide (total = 0) then rsShift e else e) else e.dateOnly) := by
  rw [(rs_shift_taken_eq _ _ _ _).1, (rs_shift_taken_eq _ _ _ _).2]
  by_cases h : e.isDt = true
  · simp only [h, Bool.true_and, if_true, and_self]
  · simp only [Bool.not_eq_true] at h
    simp only [h, Bool.false_and, Bool.false_eq_true, if_false, and_self]

theorem source_eq_model_rs (a b : E) : sourcePreciseDiffRs a b = (preciseDiffRs a b).toList := by
  unfold sourcePreciseDiffRs preciseDiffRs
  simp only [rs_in_same_tz_eq, rs_total_days_eq, (rs_prep_eq _ _ _).1, (rs_prep_eq _ _ _).2]
  exact rs_core_eq _ _ _

def expectedRsPrelude : String :=
  "let dt1_tz = get_tz_name ( dt1 ) ? ;\nlet dt2_tz = get_tz_name ( dt2 ) ? ;\nlet mut dtinfo1 = DateTimeInfo { year : dt1 . downcast :: < PyDate > ( ) ? . get_year ( ) , month : i32 :: from ( dt1 . downcast :: < PyDate > ( ) ? . get_month ( ) ) , day : i32 :: from ( dt1 . downcast :: < PyDate > ( ) ? . get_day ( ) ) , hour : 0 , minute : 0 , second : 0 , microsecond : 0 , total_seconds : 0 , tz : dt1_tz . as_str ( ) , offset : get_offset ( dt1 ) ? , is_datetime : PyDateTime :: is_type_of_bound ( dt1 ) , } ;\nlet mut dtinfo2 = DateTimeInfo { year : dt2 . downcast :: < PyDate > ( ) ? . get_year ( ) , month : i32 :: from ( dt2 . downcast :: < PyDate > ( ) ? . get_month ( ) ) , day : i32 :: from ( dt2 . downcast :: < PyDate > ( ) ? . get_day ( ) ) , hour : 0 , minute : 0 , second : 0 , microsecond : 0 , total_seconds : 0 , tz : dt2_tz . as_str ( ) , offset : get_offset ( dt2 ) ? , is_datetime : PyDateTime :: is_type_of_bound ( dt2 ) , } ;"
def expectedRsEndpoint1 : String :=
  "let dt1dt : & Bound < PyDateTime > = dt1 . downcast ( ) ? ;\ndtinfo1 . hour = i32 :: from ( dt1dt . get_hour ( ) ) ;\ndtinfo1 . minute = i32 :: from ( dt1dt . get_minute ( ) ) ;\ndtinfo1 . second = i32 :: from ( dt1dt . get_second ( ) ) ;\ndtinfo1 . microsecond = dt1dt . get_microsecond ( ) as i32 ;\n<<shift>>\ndtinfo1 . total_seconds = dtinfo1 . hour * SECS_PER_HOUR as i32 + dtinfo1 . minute * SECS_PER_MIN as i32 + dtinfo1 . second ;"
def expectedRsEndpoint2 : String :=
  "let dt2dt : & Bound < PyDateTime > = dt2 . downcast ( ) ? ;\ndtinfo2 . hour = i32 :: from ( dt2dt . get_hour ( ) ) ;\ndtinfo2 . minute = i32 :: from ( dt2dt . get_minute ( ) ) ;\ndtinfo2 . second = i32 :: from ( dt2dt . get_second ( ) ) ;\ndtinfo2 . microsecond = dt2dt . get_microsecond ( ) as i32 ;\n<<shift>>\ndtinfo2 . total_seconds = dtinfo2 . hour * SECS_PER_HOUR as i32 + dtinfo2 . minute * SECS_PER_MIN as i32 + dtinfo2 . second ;"
def expectedRsShift : String :=
  "let ( year , month , day , hour , minute , second , _ ) = helpers :: local_time ( timestamp as f64 , 0 , 0 ) ;\nself . year = year as i32 ;\nself . month = month as i32 ;\nself . day = day as i32 ;\nself . hour = hour as i32 ;\nself . minute = minute as i32 ;\nself . second = second as i32 ;\nself . offset = 0 ;"
def expectedRsCmp : String :=
  "( self . year , self . month , self . day , self . hour , self . minute , self . second , self . microsecond , ) . partial_cmp ( & ( other . year , other . month , other . day , other . hour , other . minute , other . second , other . microsecond , ) )"

/-- the statements recorded verbatim are the ones the model was written against -/
theorem rs_verbatim_pinned :
    Gen.RsPreciseDiff.preludeSource = expectedRsPrelude ∧
    Gen.RsPreciseDiff.endpointSource_1 = expectedRsEndpoint1 ∧
    Gen.RsPreciseDiff.endpointSource_2 = expectedRsEndpoint2 ∧
    Gen.RsPreciseDiff.shiftSource = expectedRsShift ∧
    Gen.RsPreciseDiff.cmpSource = expectedRsCmp := by
  first
    | exact ⟨rfl, rfl, rfl, rfl, rfl⟩
    | (exfalso; fail "TIE BROKEN PDGen.rs_verbatim_pinned: an object-level statement of the compiled precise_diff / shift_to_utc / partial_cmp was edited (Gen.RsPreciseDiff.*Source)")

end Pendulum.PDGen
