import Pendulum.Proofs.IsoDurRs
/-! C13: the Python parser (`pyMatch` + `pyEval`) accepts the well-formed token sequences and adds the
components up exactly (`py_good`); what it accepts is ordered with the fraction last (`py_sound`). -/
namespace Pendulum.IsoDur

def optItem : Option Item → List Tok
  | none => []
  | some i => [.item i]

theorem rankOf_inj (g : Bool) (a b : Char) (h : rankOf g a = rankOf g b) (h0 : rankOf g a ≠ 0) : a = b := by
  unfold rankOf at *
  cases g <;> simp only [Bool.false_eq_true, if_true, if_false] at h h0 <;>
    (repeat' split at h) <;> simp_all

/-- one optional group of the regular expression against an ordered token sequence -/
theorem takeUnit_ord (u : Char) (r last : Nat) (g : Bool) (ts : List Tok)
    (hr : rankOf g u = r) (hr0 : r ≠ 0) (hl : last + 1 = r) (hr3 : g = false → r ≤ 3)
    (hW : last = 0 → ∀ i tl, ts = .item i :: tl → rankOf g i.unit ≠ 8)
    (h : Ordered last g ts) :
    ∃ o rest, takeUnit u ts = (o, rest) ∧ ts = optItem o ++ rest ∧ Ordered r g rest ∧
      (∀ i, o = some i → i.unit = u) ∧ (r ≠ 8 → ∀ i tl, rest = .item i :: tl → rankOf g i.unit ≠ 8) := by
  cases ts with
  | nil => exact ⟨none, [], rfl, rfl, trivial, by simp, by simp⟩
  | cons t tl =>
    cases t with
    | T =>
      obtain ⟨a, b, c⟩ := h
      exact ⟨none, .T :: tl, rfl, rfl, ⟨a, hr3 a, c⟩, by simp, by simp⟩
    | item i =>
      obtain ⟨a, b, c, d⟩ := h
      by_cases hu : i.unit = u
      · refine ⟨some i, tl, by simp [takeUnit, hu], rfl, by rw [← hr, ← hu]; exact d, by simp [hu], ?_⟩
        intro h8 j tl' e
        subst e
        obtain ⟨a', b', c', _⟩ := d
        intro h88; have := c' h88; rw [hu, hr] at this; omega
      · refine ⟨none, .item i :: tl, by simp [takeUnit, hu], rfl, ?_, by simp, ?_⟩
        · have hne : rankOf g i.unit ≠ r := by
            intro e; rw [← hr] at e
            exact hu (rankOf_inj g _ _ e a)
          have h8 : rankOf g i.unit ≠ 8 := by
            intro e8
            have l0 := c e8
            exact hW l0 i tl rfl e8
          exact ⟨a, by omega, fun e => absurd e h8, d⟩
        · intro _ j tl' e
          injection e with e1 e2; injection e1 with e1; subst e1
          intro e8
          have l0 := c e8
          exact hW l0 i tl rfl e8


def hmsToks : Option (Option Item × Option Item × Option Item) → List Tok
  | none => []
  | some (h, mi, s) => .T :: (optItem h ++ optItem mi ++ optItem s)

def PyGroups.toks (g : PyGroups) : List Tok :=
  optItem g.w ++ optItem g.y ++ optItem g.mo ++ optItem g.d ++ hmsToks g.hms

theorem takeUnit_miss (u : Char) (ts : List Tok) (h : ∀ i tl, ts = .item i :: tl → i.unit ≠ u) :
    takeUnit u ts = (none, ts) := by
  cases ts with
  | nil => rfl
  | cons t tl =>
    cases t with
    | T => rfl
    | item i => simp [takeUnit, h i tl rfl]

theorem ordered3_cases (ts : List Tok) (h : Ordered 3 false ts) : ts = [] ∨ ∃ tl, ts = .T :: tl ∧ Ordered 4 true tl := by
  cases ts with
  | nil => exact Or.inl rfl
  | cons t tl =>
    cases t with
    | T => exact Or.inr ⟨tl, rfl, h.2.2⟩
    | item i =>
      obtain ⟨a, b, c, _⟩ := h
      have : rankOf false i.unit = 8 := by
        unfold rankOf at *
        simp only [Bool.false_eq_true, if_false] at *
        repeat' split at b
        all_goals simp_all
      have := c this
      omega

theorem ordered7_nil (ts : List Tok) (h : Ordered 7 true ts) : ts = [] := by
  cases ts with
  | nil => rfl
  | cons t tl =>
    cases t with
    | T => exact absurd h.1 (by simp)
    | item i =>
      obtain ⟨a, b, c, _⟩ := h
      unfold rankOf at *
      simp only [if_true] at *
      repeat' split at b
      all_goals omega

/-- the regular expression matches every ordered token sequence that does not start with weeks -/
theorem pyMatch_ordered (ts : List Tok) (hO : Ordered 0 false ts)
    (hW : ∀ i tl, ts = .item i :: tl → rankOf false i.unit ≠ 8) :
    ∃ y mo d hms, pyMatch ts = some ⟨none, y, mo, d, hms⟩ ∧
      ts = optItem y ++ (optItem mo ++ (optItem d ++ hmsToks hms)) ∧
      (∀ i, y = some i → i.unit = 'Y') ∧ (∀ i, mo = some i → i.unit = 'M') ∧ (∀ i, d = some i → i.unit = 'D') ∧
      (∀ h mi s, hms = some (h, mi, s) → (∀ i, h = some i → i.unit = 'H') ∧ (∀ i, mi = some i → i.unit = 'M') ∧
        (∀ i, s = some i → i.unit = 'S')) := by
  have e0 : takeUnit 'W' ts = (none, ts) := takeUnit_miss 'W' ts (by
    intro i tl e hu
    exact hW i tl e (by simp [rankOf, hu]))
  obtain ⟨y, r1, e1, t1, o1, u1, w1⟩ := takeUnit_ord 'Y' 1 0 false ts (by decide) (by decide) rfl (by simp) (fun _ => hW) hO
  obtain ⟨mo, r2, e2, t2, o2, u2, w2⟩ := takeUnit_ord 'M' 2 1 false r1 (by decide) (by decide) rfl (by simp) (by simp) o1
  obtain ⟨d, r3, e3, t3, o3, u3, w3⟩ := takeUnit_ord 'D' 3 2 false r2 (by decide) (by decide) rfl (by simp) (by simp) o2
  rcases ordered3_cases r3 o3 with hnil | ⟨tl, htl, o4⟩
  · subst hnil
    refine ⟨y, mo, d, none, ?_, ?_, u1, u2, u3, by simp⟩
    · simp only [pyMatch, e0, e1, e2, e3]
    · rw [t1, t2, t3]; simp [hmsToks]
  · subst htl
    obtain ⟨h, r5, e5, t5, o5, u5, _⟩ := takeUnit_ord 'H' 5 4 true tl (by decide) (by decide) rfl (by simp) (by simp) o4
    obtain ⟨mi, r6, e6, t6, o6, u6, _⟩ := takeUnit_ord 'M' 6 5 true r5 (by decide) (by decide) rfl (by simp) (by simp) o5
    obtain ⟨s, r7, e7, t7, o7, u7, _⟩ := takeUnit_ord 'S' 7 6 true r6 (by decide) (by decide) rfl (by simp) (by simp) o6
    have hnil := ordered7_nil r7 o7
    subst hnil
    refine ⟨y, mo, d, some (h, mi, s), ?_, ?_, u1, u2, u3, ?_⟩
    · simp only [pyMatch, e0, e1, e2, e3, e5, e6, e7]
    · rw [t1, t2, t3, t5, t6, t7]; simp [hmsToks]
    · intro h' mi' s' e
      injection e with e; injection e with e1 e2; injection e2 with e2 e3
      subst e1 e2 e3
      exact ⟨u5, u6, u7⟩


theorem pyFrac_restUs (i : Item) (U : Nat) (p : Parsed) :
    (pyFrac i U p).restUs = p.restUs + fracPart i U ∧ (pyFrac i U p).y = p.y ∧ (pyFrac i U p).mo = p.mo := by
  unfold pyFrac fracPart
  cases i.frac <;> simp [Parsed.restUs] <;> omega

theorem pyBlock_good (sf : Bool) (U r : Nat) (g : Bool) (upd : Parsed → Nat → Parsed) (o : Option Item)
    (rest : List Tok) (f : Bool) (p : Parsed)
    (hu : ∀ i, o = some i → rankOf g i.unit = r) (hr : 3 ≤ r) (hU : unitUs r = U)
    (hupd : ∀ v, (upd p v).restUs = p.restUs + v * U ∧ (upd p v).y = p.y ∧ (upd p v).mo = p.mo)
    (hF : FracOk g (optItem o ++ rest)) (hflag : f = true → noItem (optItem o ++ rest))
    (hsf : sf = false → rest = []) :
    ∃ f' p', pyBlock sf U upd o (f, p) = .ok (f', p') ∧ p'.restUs = p.restUs + usOf g (optItem o) ∧
      p'.y = p.y ∧ p'.mo = p.mo ∧ (f' = true → noItem rest) := by
  cases o with
  | none => exact ⟨f, p, rfl, by simp [optItem, usOf], rfl, rfl, by simpa [optItem] using hflag⟩
  | some i =>
    have hf : f = false := by
      cases f with
      | false => rfl
      | true => exact absurd (hflag rfl) (by simp [optItem, noItem])
    subst hf
    have hri := hu i rfl
    obtain ⟨a, b, c⟩ := pyFrac_restUs i U (upd p i.int)
    obtain ⟨a', b', c'⟩ := hupd i.int
    refine ⟨sf && i.frac.isSome, pyFrac i U (upd p i.int), by simp [pyBlock], ?_, by rw [b, b'], by rw [c, c'], ?_⟩
    · simp only [optItem, usOf, hri, hr, if_true, itemUs, hU, fracPart] at *
      rw [a, a']; omega
    · intro hh
      cases sf with
      | false => rw [hsf rfl]; trivial
      | true =>
        simp only [Bool.true_and] at hh
        have := hF.1 hh
        exact this.2

theorem pyBlockYM_good (r : Nat) (upd : Parsed → Nat → Parsed) (o : Option Item) (rest : List Tok)
    (f : Bool) (p : Parsed)
    (hu : ∀ i, o = some i → rankOf false i.unit = r) (hr : r < 3)
    (hupd : ∀ v, (upd p v).restUs = p.restUs ∧ (upd p v).y = p.y + (if r = 1 then v else 0) ∧
      (upd p v).mo = p.mo + (if r = 2 then v else 0) ∧ (upd p v).d = p.d)
    (hF : FracOk false (optItem o ++ rest)) :
    ∃ p', pyBlockYM upd o (f, p) = .ok (f, p') ∧ p'.restUs = p.restUs ∧
      p'.y = p.y + yOf false (optItem o) ∧ p'.mo = p.mo + moOf false (optItem o) ∧ p'.d = p.d := by
  cases o with
  | none => exact ⟨p, rfl, rfl, by simp [optItem, yOf], by simp [optItem, moOf], rfl⟩
  | some i =>
    have hri := hu i rfl
    have hnf : i.frac.isSome = false := by
      cases h : i.frac.isSome with
      | false => rfl
      | true => have := (hF.1 h).1; omega
    obtain ⟨a, b, c, d⟩ := hupd i.int
    exact ⟨upd p i.int, by simp [pyBlockYM, hnf], a, by simp [optItem, yOf, hri, b], by simp [optItem, moOf, hri, c], d⟩


theorem good_ordered (ts : List Tok) : ∀ l g, Good l g ts → Ordered l g ts ∧ FracOk g ts := by
  induction ts with
  | nil => intro _ _ _; exact ⟨trivial, trivial⟩
  | cons t ts ih =>
    intro l g h
    cases t with
    | T => exact ⟨⟨h.1, h.2.1, (ih _ _ h.2.2).1⟩, (ih _ _ h.2.2).2⟩
    | item i =>
      obtain ⟨a, b, c, d, e, f⟩ := h
      refine ⟨⟨a, b, c, (ih _ _ f).1⟩, ⟨fun hs => ?_, (ih _ _ f).2⟩⟩
      cases hfr : i.frac with
      | none => simp [hfr] at hs
      | some fr => exact ⟨(e fr hfr).1, (e fr hfr).2.2⟩

theorem fracOk_tail (g : Bool) (o : Option Item) (rest : List Tok) (h : FracOk g (optItem o ++ rest)) :
    FracOk g rest := by
  cases o with
  | none => simpa [optItem] using h
  | some i => exact h.2

theorem sums_opt (g : Bool) (o : Option Item) (rest : List Tok) :
    yOf g (optItem o ++ rest) = yOf g (optItem o) + yOf g rest ∧
    moOf g (optItem o ++ rest) = moOf g (optItem o) + moOf g rest ∧
    usOf g (optItem o ++ rest) = usOf g (optItem o) + usOf g rest := by
  cases o <;> simp [optItem, yOf, moOf, usOf]

theorem sums_time (o : Option Item) (r : Nat) (hr : 3 ≤ r) (hu : ∀ i, o = some i → rankOf true i.unit = r) :
    yOf true (optItem o) = 0 ∧ moOf true (optItem o) = 0 := by
  cases o with
  | none => simp [optItem, yOf, moOf]
  | some i =>
    have := hu i rfl
    simp only [optItem, yOf, moOf, this]
    constructor <;> simp <;> omega

theorem restUs_set_d (p : Parsed) (v : Nat) (h : p.d = 0) :
    ({ p with d := v } : Parsed).restUs = p.restUs + v * usD := by
  simp only [Parsed.restUs, usW, usD, usH, usMi, usS, h]
  omega

theorem py_good_noW (ts : List Tok) (hO : Ordered 0 false ts) (hF : FracOk false ts)
    (hW : ∀ i tl, ts = .item i :: tl → rankOf false i.unit ≠ 8) :
    ∃ p, pyRun ts = .ok p ∧ p.y = yOf false ts ∧ p.mo = moOf false ts ∧ p.restUs = usOf false ts := by
  obtain ⟨y, mo, d, hms, em, hts, uy, umo, ud, uhms⟩ := pyMatch_ordered ts hO hW
  rw [hts] at hF
  have hmoy : moOf false (optItem y) = 0 ∧ usOf false (optItem y) = 0 := by
    cases y with
    | none => simp [optItem, moOf, usOf]
    | some i => simp [optItem, moOf, usOf, rankOf, uy i rfl]
  have hymo : yOf false (optItem mo) = 0 ∧ usOf false (optItem mo) = 0 := by
    cases mo with
    | none => simp [optItem, yOf, usOf]
    | some i => simp [optItem, yOf, usOf, rankOf, umo i rfl]
  have hyd : yOf false (optItem d) = 0 ∧ moOf false (optItem d) = 0 := by
    cases d with
    | none => simp [optItem, yOf, moOf]
    | some i => simp [optItem, yOf, moOf, rankOf, ud i rfl]
  obtain ⟨p1, e1, a1, b1, c1, d1⟩ := pyBlockYM_good 1 (fun p v => { p with y := v }) y _ false {}
    (fun i h => by simp [rankOf, uy i h]) (by decide) (fun v => by simp [Parsed.restUs]) hF
  have hF1 := fracOk_tail _ _ _ hF
  have hp1mo : p1.mo = 0 := by rw [c1, hmoy.1]
  obtain ⟨p2, e2, a2, b2, c2, d2⟩ := pyBlockYM_good 2 (fun p v => { p with mo := v }) mo _ false p1
    (fun i h => by simp [rankOf, umo i h]) (by decide) (fun v => by simp [Parsed.restUs, hp1mo]) hF1
  have hF2 := fracOk_tail _ _ _ hF1
  have hp2 : p2.restUs = 0 := by rw [a2, a1]; rfl
  obtain ⟨f3, p3, e3, a3, b3, c3, n3⟩ := pyBlock_good true usD 3 false (fun p v => { p with d := v }) d
    (hmsToks hms) false p2 (fun i h => by simp [rankOf, ud i h]) (by decide) (by simp [unitUs])
    (fun v => by
      exact ⟨restUs_set_d p2 v (by rw [d2, d1]), rfl, rfl⟩) hF2 (by simp) (by simp)
  have hF3 := fracOk_tail _ _ _ hF2
  obtain ⟨s1, s2, s3⟩ := sums_opt false y (optItem mo ++ (optItem d ++ hmsToks hms))
  obtain ⟨s4, s5, s6⟩ := sums_opt false mo (optItem d ++ hmsToks hms)
  obtain ⟨s7, s8, s9⟩ := sums_opt false d (hmsToks hms)
  cases hms with
  | none =>
    refine ⟨p3, ?_, ?_, ?_, ?_⟩
    · simp only [pyRun, em, pyEval, pyWeeks, e1, e2, e3, bind, Except.bind]
    · rw [hts, s1, s4, s7, b3, b2, b1, hymo.1, hyd.1]; simp [hmsToks, yOf] <;> omega
    · rw [hts, s2, s5, s8, c3, c2, c1, hmoy.1, hyd.2]; simp [hmsToks, moOf] <;> omega
    · rw [hts, s3, s6, s9, a3, hp2, hmoy.2, hymo.2]; simp [hmsToks, usOf] <;> omega
  | some hm =>
    obtain ⟨h, mi, s⟩ := hm
    obtain ⟨uh, umi, us'⟩ := uhms h mi s rfl
    have hF3' : FracOk true (optItem h ++ (optItem mi ++ optItem s)) := by
      simpa [hmsToks, FracOk] using hF3
    have n3' : f3 = true → noItem (optItem h ++ (optItem mi ++ optItem s)) := by
      intro hh; simpa [hmsToks, noItem] using n3 hh
    obtain ⟨f4, p4, e4, a4, b4, c4, n4⟩ := pyBlock_good true usH 5 true (fun p v => { p with h := p.h + v }) h
      (optItem mi ++ optItem s) f3 p3 (fun i hh => by simp [rankOf, uh i hh]) (by decide) (by simp [unitUs])
      (fun v => by
        refine ⟨?_, rfl, rfl⟩
        simp only [Parsed.restUs, usW, usD, usH, usMi, usS]
        omega) hF3' n3' (by simp)
    have hF4 := fracOk_tail _ _ _ hF3'
    obtain ⟨f5, p5, e5, a5, b5, c5, n5⟩ := pyBlock_good true usMi 6 true (fun p v => { p with mi := p.mi + v }) mi
      (optItem s) f4 p4 (fun i hh => by simp [rankOf, umi i hh]) (by decide) (by simp [unitUs])
      (fun v => by
        refine ⟨?_, rfl, rfl⟩
        simp only [Parsed.restUs, usW, usD, usH, usMi, usS]
        omega) hF4 n4 (by simp)
    have hF5 := fracOk_tail _ _ _ hF4
    obtain ⟨f6, p6, e6, a6, b6, c6, _⟩ := pyBlock_good false usS 7 true (fun p v => { p with s := p.s + v }) s
      [] f5 p5 (fun i hh => by simp [rankOf, us' i hh]) (by decide) (by simp [unitUs])
      (fun v => by
        refine ⟨?_, rfl, rfl⟩
        simp only [Parsed.restUs, usW, usD, usH, usMi, usS]
        omega) (by simpa using hF5) (by simpa using n5) (by simp)
    obtain ⟨t1, t2, t3⟩ := sums_opt true h (optItem mi ++ optItem s)
    obtain ⟨t4, t5, t6⟩ := sums_opt true mi (optItem s)
    obtain ⟨z1, z2⟩ := sums_time h 5 (by decide) (fun i hh => by simp [rankOf, uh i hh])
    obtain ⟨z3, z4⟩ := sums_time mi 6 (by decide) (fun i hh => by simp [rankOf, umi i hh])
    obtain ⟨z5, z6⟩ := sums_time s 7 (by decide) (fun i hh => by simp [rankOf, us' i hh])
    refine ⟨p6, ?_, ?_, ?_, ?_⟩
    · simp only [pyRun, em, pyEval, pyWeeks, e1, e2, e3, e4, e5, e6, bind, Except.bind]
    · rw [hts, s1, s4, s7, b6, b5, b4, b3, b2, b1, hymo.1, hyd.1]
      simp only [hmsToks, yOf, List.append_assoc, t1, t4, z1, z3, z5]; omega
    · rw [hts, s2, s5, s8, c6, c5, c4, c3, c2, c1, hmoy.1, hyd.2]
      simp only [hmsToks, moOf, List.append_assoc, t2, t5, z2, z4, z6]; omega
    · rw [hts, s3, s6, s9, a6, a5, a4, a3, hp2, hmoy.2, hymo.2]
      simp only [hmsToks, usOf, List.append_assoc, t3, t6]; omega


theorem good8_nil (g : Bool) (ts : List Tok) (h : Ordered 8 g ts) : ts = [] := by
  cases ts with
  | nil => rfl
  | cons t tl =>
    cases t with
    | T => have := h.2.1; omega
    | item i =>
      obtain ⟨a, b, _⟩ := h
      unfold rankOf at b
      repeat' split at b
      all_goals omega

theorem rank8_unit (u : Char) (h : rankOf false u = 8) : u = 'W' := by
  unfold rankOf at h
  simp only [Bool.false_eq_true, if_false] at h
  repeat' split at h
  all_goals simp_all

/-- **the Python parser on a well-formed token sequence**: it succeeds and the components add up exactly -/
theorem py_good (ts : List Tok) (hO : Ordered 0 false ts) (hF : FracOk false ts) :
    ∃ p, pyRun ts = .ok p ∧ p.y = yOf false ts ∧ p.mo = moOf false ts ∧ p.restUs = usOf false ts := by
  by_cases hW : ∀ i tl, ts = .item i :: tl → rankOf false i.unit ≠ 8
  · exact py_good_noW ts hO hF hW
  · have : ∃ i tl, ts = .item i :: tl ∧ rankOf false i.unit = 8 := by
      false_or_by_contra
      rename_i hc
      apply hW
      intro i tl e h8
      exact hc ⟨i, tl, e, h8⟩
    obtain ⟨i, tl, e, h8⟩ := this
    subst e
    obtain ⟨_, _, _, h6⟩ := hO
    rw [h8] at h6
    have := good8_nil false tl h6
    subst this
    have hu := rank8_unit i.unit h8
    obtain ⟨a, b, c⟩ := pyFrac_restUs i usW { w := i.int }
    refine ⟨pyFrac i usW { w := i.int }, ?_, ?_, ?_, ?_⟩
    · simp [pyRun, pyMatch, takeUnit, hu, pyEval, pyWeeks, pyBlockYM, pyBlock, bind, Except.bind]
    · rw [b]; simp [yOf, h8]
    · rw [c]; simp [moOf, h8]
    · rw [a]; simp [usOf, h8, itemUs, unitUs, fracPart, Parsed.restUs]

theorem takeUnit_inv (u : Char) (ts : List Tok) (o : Option Item) (rest : List Tok)
    (h : takeUnit u ts = (o, rest)) : ts = optItem o ++ rest ∧ ∀ i, o = some i → i.unit = u := by
  cases ts with
  | nil => simp [takeUnit] at h; obtain ⟨a, b⟩ := h; subst a b; simp [optItem]
  | cons t tl =>
    cases t with
    | T => simp [takeUnit] at h; obtain ⟨a, b⟩ := h; subst a b; simp [optItem]
    | item i =>
      by_cases hu : i.unit = u
      · simp [takeUnit, hu] at h; obtain ⟨a, b⟩ := h; subst a b; simp [optItem, hu]
      · simp [takeUnit, hu] at h; obtain ⟨a, b⟩ := h; subst a b; simp [optItem]

structure UnitsOk (g : PyGroups) : Prop where
  w : ∀ i, g.w = some i → i.unit = 'W'
  y : ∀ i, g.y = some i → i.unit = 'Y'
  mo : ∀ i, g.mo = some i → i.unit = 'M'
  d : ∀ i, g.d = some i → i.unit = 'D'
  hms : ∀ h mi s, g.hms = some (h, mi, s) → (∀ i, h = some i → i.unit = 'H') ∧ (∀ i, mi = some i → i.unit = 'M') ∧
    (∀ i, s = some i → i.unit = 'S')

/-- what the regular expression matches is in canonical order -/
theorem pyMatch_inv (ts : List Tok) (g : PyGroups) (h : pyMatch ts = some g) : ts = g.toks ∧ UnitsOk g := by
  unfold pyMatch at h
  rcases e0 : takeUnit 'W' ts with ⟨w, r0⟩
  rcases e1 : takeUnit 'Y' r0 with ⟨y, r1⟩
  rcases e2 : takeUnit 'M' r1 with ⟨mo, r2⟩
  rcases e3 : takeUnit 'D' r2 with ⟨d, r3⟩
  simp only [e0, e1, e2, e3] at h
  obtain ⟨t0, u0⟩ := takeUnit_inv _ _ _ _ e0
  obtain ⟨t1, u1⟩ := takeUnit_inv _ _ _ _ e1
  obtain ⟨t2, u2⟩ := takeUnit_inv _ _ _ _ e2
  obtain ⟨t3, u3⟩ := takeUnit_inv _ _ _ _ e3
  cases r3 with
  | nil =>
    simp only [Option.some.injEq] at h
    subst h
    refine ⟨by rw [t0, t1, t2, t3]; simp [PyGroups.toks, hmsToks], ⟨u0, u1, u2, u3, by simp⟩⟩
  | cons t tl =>
    cases t with
    | item i => simp at h
    | T =>
      simp only at h
      rcases e5 : takeUnit 'H' tl with ⟨hh, r5⟩
      rcases e6 : takeUnit 'M' r5 with ⟨mi, r6⟩
      rcases e7 : takeUnit 'S' r6 with ⟨s, r7⟩
      simp only [e5, e6, e7] at h
      obtain ⟨t5, u5⟩ := takeUnit_inv _ _ _ _ e5
      obtain ⟨t6, u6⟩ := takeUnit_inv _ _ _ _ e6
      obtain ⟨t7, u7⟩ := takeUnit_inv _ _ _ _ e7
      cases r7 with
      | cons _ _ => simp at h
      | nil =>
        simp only [Option.some.injEq] at h
        subst h
        refine ⟨by rw [t0, t1, t2, t3, t5, t6, t7]; simp [PyGroups.toks, hmsToks], ⟨u0, u1, u2, u3, ?_⟩⟩
        intro h' mi' s' e
        simp only [Option.some.injEq, Prod.mk.injEq] at e
        obtain ⟨a, b, c⟩ := e
        subst a b c
        exact ⟨u5, u6, u7⟩



def hasFrac (o : Option Item) : Bool :=
  match o with
  | some i => i.frac.isSome
  | none => false

theorem pyBlock_inv (sf : Bool) (U : Nat) (upd : Parsed → Nat → Parsed) (o : Option Item) (f f' : Bool)
    (p p' : Parsed) (h : pyBlock sf U upd o (f, p) = .ok (f', p')) :
    (o.isSome = true → f = false) ∧ f' = (f || (sf && hasFrac o)) := by
  cases o with
  | none => simp [pyBlock] at h; simp [hasFrac, h.1]
  | some i =>
    cases f with
    | true => simp [pyBlock] at h
    | false => simp [pyBlock] at h; simp [hasFrac, ← h.1]

theorem pyBlockYM_inv (upd : Parsed → Nat → Parsed) (o : Option Item) (f f' : Bool)
    (p p' : Parsed) (h : pyBlockYM upd o (f, p) = .ok (f', p')) : f' = f ∧ hasFrac o = false := by
  cases o with
  | none => simp [pyBlockYM] at h; simp [hasFrac, h.1]
  | some i =>
    cases hf : i.frac.isSome with
    | true => simp [pyBlockYM, hf] at h
    | false => simp [pyBlockYM, hf] at h; simp [hasFrac, hf, ← h.1]

/-- the facts `pyEval` checks, read off a successful evaluation -/
theorem pyEval_inv (g : PyGroups) (p : Parsed) (h : pyEval g = .ok p) :
    (g.w.isSome = true → g.y = none ∧ g.mo = none ∧ g.d = none ∧ g.hms = none) ∧
    hasFrac g.y = false ∧ hasFrac g.mo = false ∧
    (∀ hh mi s, g.hms = some (hh, mi, s) →
      (hasFrac g.d = true → hh = none ∧ mi = none ∧ s = none) ∧
      (hasFrac hh = true → mi = none ∧ s = none) ∧ (hasFrac mi = true → s = none)) := by
  simp only [pyEval, bind, Except.bind] at h
  split at h
  · cases h
  rename_i st0 e0
  split at h
  · cases h
  rename_i st1 e1
  split at h
  · cases h
  rename_i st2 e2
  split at h
  · cases h
  rename_i st3 e3
  obtain ⟨f0, p0⟩ := st0
  obtain ⟨f1, p1⟩ := st1
  obtain ⟨f2, p2⟩ := st2
  obtain ⟨f3, p3⟩ := st3
  have hw : (g.w.isSome = true → g.y = none ∧ g.mo = none ∧ g.d = none ∧ g.hms = none) ∧ f0 = false := by
    unfold pyWeeks at e0
    cases hgw : g.w with
    | none => simp [hgw] at e0; simp [e0.1]
    | some i =>
      simp only [hgw] at e0
      split at e0
      · cases e0
      · rename_i hc
        simp only [not_or, Bool.not_eq_true, Option.isSome_eq_false_iff, Option.isNone_iff_eq_none] at hc
        simp at e0
        exact ⟨fun _ => hc, e0.1⟩
  obtain ⟨a1, b1⟩ := pyBlockYM_inv _ _ _ _ _ _ e1
  obtain ⟨a2, b2⟩ := pyBlockYM_inv _ _ _ _ _ _ e2
  obtain ⟨a3, b3⟩ := pyBlock_inv _ _ _ _ _ _ _ _ e3
  refine ⟨hw.1, b1, b2, ?_⟩
  intro hh mi s ehms
  simp only [ehms] at h
  split at h
  · cases h
  rename_i st4 e4
  split at h
  · cases h
  rename_i st5 e5
  split at h
  · cases h
  rename_i st6 e6
  obtain ⟨f4, p4⟩ := st4
  obtain ⟨f5, p5⟩ := st5
  obtain ⟨f6, p6⟩ := st6
  obtain ⟨a4, b4⟩ := pyBlock_inv _ _ _ _ _ _ _ _ e4
  obtain ⟨a5, b5⟩ := pyBlock_inv _ _ _ _ _ _ _ _ e5
  obtain ⟨a6, b6⟩ := pyBlock_inv _ _ _ _ _ _ _ _ e6
  have hf2 : f2 = false := by rw [a2, a1, hw.2]
  subst hf2
  simp only [Bool.false_or, Bool.true_and] at b3 b4 b5
  refine ⟨?_, ?_, ?_⟩
  · intro hd
    have h3 : f3 = true := by rw [b3, hd]
    have n1 : hh = none := by
      cases hh with
      | none => rfl
      | some i => have := a4 rfl; rw [h3] at this; cases this
    have h4 : f4 = true := by rw [b4, h3]; rfl
    have n2 : mi = none := by
      cases mi with
      | none => rfl
      | some i => have := a5 rfl; rw [h4] at this; cases this
    have h5 : f5 = true := by rw [b5, h4]; rfl
    have n3 : s = none := by
      cases s with
      | none => rfl
      | some i => have := a6 rfl; rw [h5] at this; cases this
    exact ⟨n1, n2, n3⟩
  · intro hd
    have h4 : f4 = true := by rw [b4, hd]; simp
    have n2 : mi = none := by
      cases mi with
      | none => rfl
      | some i => have := a5 rfl; rw [h4] at this; cases this
    have h5 : f5 = true := by rw [b5, h4]; rfl
    have n3 : s = none := by
      cases s with
      | none => rfl
      | some i => have := a6 rfl; rw [h5] at this; cases this
    exact ⟨n2, n3⟩
  · intro hd
    have h5 : f5 = true := by rw [b5, hd]; simp
    cases s with
    | none => rfl
    | some i => have := a6 rfl; rw [h5] at this; cases this


/-- **what the Python parser accepts** is ordered and has its only fraction on the last component -/
theorem py_sound (ts : List Tok) (p : Parsed) (h : pyRun ts = .ok p) :
    Ordered 0 false ts ∧ FracOk false ts := by
  unfold pyRun at h
  split at h
  · cases h
  rename_i g em
  obtain ⟨hts, hu⟩ := pyMatch_inv ts g em
  obtain ⟨hw, fy, fmo, fh⟩ := pyEval_inv g p h
  subst hts
  obtain ⟨uw, uy, umo, ud, uhms⟩ := hu
  obtain ⟨w, y, mo, d, hms⟩ := g
  simp only at hw fy fmo fh uw uy umo ud uhms
  cases w with
  | some iw =>
    obtain ⟨a, b, c, e⟩ := hw rfl
    subst a b c e
    have := uw iw rfl
    simp [PyGroups.toks, optItem, hmsToks, Ordered, FracOk, noItem, rankOf, this]
  | none =>
    clear hw uw
    cases hms with
    | none =>
      clear fh uhms
      cases y <;> cases mo <;> cases d <;>
        simp_all [PyGroups.toks, optItem, hmsToks, Ordered, FracOk, noItem, rankOf, hasFrac]
    | some x =>
      obtain ⟨hh, mi, s⟩ := x
      obtain ⟨uh, umi, us'⟩ := uhms hh mi s rfl
      obtain ⟨f1, f2, f3⟩ := fh hh mi s rfl
      clear fh uhms
      cases y <;> cases mo <;> cases d <;> cases hh <;> cases mi <;> cases s <;>
        simp_all [PyGroups.toks, optItem, hmsToks, Ordered, FracOk, noItem, rankOf, hasFrac]


end Pendulum.IsoDur
