import Pendulum.Proofs.PD2
/-! C06: ranges and rebuild for the decomposition of an ordered pair (after the ordering swap and the shift). -/
namespace Pendulum.PreciseDiff
open Pendulum Pendulum.Cal Pendulum.AddDur

def PD.Canonical (p : PD) : Prop :=
  0 ≤ p.years ∧ 0 ≤ p.months ∧ p.months ≤ 11 ∧ 0 ≤ p.days ∧ p.days ≤ 30 ∧ 0 ≤ p.hours ∧ p.hours ≤ 23 ∧
  0 ≤ p.minutes ∧ p.minutes ≤ 59 ∧ 0 ≤ p.seconds ∧ p.seconds ≤ 59 ∧ 0 ≤ p.micros ∧ p.micros ≤ 999999

theorem weeks_days (p : PD) (el : Int) (hd : 0 ≤ p.days) (hel : 0 ≤ el) :
    remainingDaysOf p el + weeksOf p * 7 = p.days ∧ 0 ≤ weeksOf p ∧ 0 ≤ remainingDaysOf p el ∧ remainingDaysOf p el ≤ 6 := by
  unfold remainingDaysOf weeksOf absI sgn
  have h0 : ¬ (p.days < 0) := by omega
  have h1 : ¬ (el ≤ -86400000000) := by omega
  simp only [if_neg h0, if_neg h1]
  omega

/-- ranges + rebuild for an ordered pair of valid `datetime` field tuples -/
theorem decompose_spec (a b : E) (ha : a.Valid) (hb : b.Valid) (hle : a.le b) (hdt : b.isDt = true)
    (hy1 : 1 ≤ a.y) (hy2 : b.y ≤ 9999) (total el : Int) (hel : 0 ≤ el) :
    let p := decompose dimPy a b total
    p.Canonical ∧
    addDuration a.wallUs p.years p.months (weeksOf p) (remainingDaysOf p el) p.hours p.minutes p.seconds p.micros
      = .ok b.wallUs := by
  obtain ⟨hda, hta⟩ := ha
  obtain ⟨hdb, htb⟩ := hb
  have td := timeDiff_spec a b hta htb
  obtain ⟨hl1, hl2⟩ := hle
  simp only [decompose, hdt, if_true]
  generalize htd : timeDiff a b = t at td
  obtain ⟨br, h, mi, s, us⟩ := t
  simp only [] at td
  obtain ⟨tbr, tiff, th1, th2, tm1, tm2, ts1, ts2, tu1, tu2, tsum⟩ := td
  have hne : br = -1 → ¬ (a.y = b.y ∧ a.m = b.m ∧ a.d = b.d) := by
    intro hb1 hc
    have := hl2 hc
    have := tiff.1 hb1
    omega
  have dd := dateDiff_rebuild a.y a.m a.d b.y b.m b.d br hda hdb tbr hl1 hne
  rw [dateDiff_py _ _ _ _ _ _ _ ⟨hdb.1, hdb.2.1⟩]
  generalize hdd : dateDiffL a.y a.m a.d b.y b.m b.d br = r at dd
  obtain ⟨Y, M, D⟩ := r
  simp only [] at dd
  obtain ⟨r1, r2, r3, r4, r5, rord, ry1, ry2, rm1, rm2⟩ := dd
  simp only []
  refine ⟨⟨r1, r2, r3, r4, r5, th1, th2, tm1, tm2, ts1, ts2, tu1, tu2⟩, ?_⟩
  have wk := weeks_days ⟨Y, M, D, h, mi, s, us, total⟩ el r4 hel
  simp only [] at wk
  obtain ⟨wk1, wk2, wk3, wk4⟩ := wk
  have htod : 0 ≤ a.tod ∧ a.tod < 86400000000 := by
    obtain ⟨t1, t2, t3, t4, t5, t6, t7, t8⟩ := hta
    unfold E.tod; omega
  unfold E.wallUs
  rw [addDuration_canon a.y a.m a.d a.tod Y M _ _ h mi s us hda htod ⟨r2, r3⟩ ⟨th1, th2⟩ ⟨tm1, tm2⟩ ⟨ts1, ts2⟩ ⟨tu1, tu2⟩]
  have hyr : ¬ ((addYMc a.y a.m a.d Y M).1 < 1 ∨ (addYMc a.y a.m a.d Y M).1 > 9999) := by omega
  rw [if_neg hyr]
  have hres : fieldsToWall (addYMc a.y a.m a.d Y M).1 (addYMc a.y a.m a.d Y M).2.1 (addYMc a.y a.m a.d Y M).2.2 a.tod
      + totalUs (remainingDaysOf ⟨Y, M, D, h, mi, s, us, total⟩ el + weeksOf ⟨Y, M, D, h, mi, s, us, total⟩ * 7) h mi s us
      = fieldsToWall b.y b.m b.d b.tod := by
    rw [wk1]
    unfold fieldsToWall totalUs DAY
    omega
  rw [hres]
  have hyb : 1 ≤ b.y := by
    unfold dateLe at hl1; omega
  have hrange := wall_in_range b ⟨hdb, htb⟩ hyb hy2
  unfold E.wallUs at hrange
  have hr : ¬ (fieldsToWall b.y b.m b.d b.tod < minWall ∨ fieldsToWall b.y b.m b.d b.tod > maxWall) := by omega
  rw [if_neg hr]

end Pendulum.PreciseDiff
