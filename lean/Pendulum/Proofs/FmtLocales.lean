import Pendulum.Model.FmtParse
/-! Finite checks over the regenerated locale tables (kernel evaluation of the model): a month / day name written by
`format()` is read back by `Formatter.parse` as that month / weekday, in every shipped locale. -/
namespace Pendulum.Fmt
open Pendulum

/-- parse the `i`-th name of `tbl` with the single-token format `tok`, `now` = Tuesday 2001-05-15:
    the month is `i+1` (year from `now`, day 1 because a month was given) -/
def monthRT (L : Loc) (tok : String) (tbl : List String) (i : Nat) : Bool :=
  match tbl[i]? with
  | none => false
  | some name =>
    match parseItems L name.toList [Item.tok tok.toList] ⟨2001, 5, 15⟩ with
    | .ok r => r.month == (i : Int) + 1 && r.year == 2001 && r.day == 1
    | _ => false

/-- … the date is the day of `now`'s Monday-based week whose ISO weekday is `i+1` -/
def dayRT (L : Loc) (tok : String) (tbl : List String) (i : Nat) : Bool :=
  match tbl[i]? with
  | none => false
  | some name =>
    match parseItems L name.toList [Item.tok tok.toList] ⟨2001, 5, 15⟩ with
    | .ok r => Cal.isoweekday r.year r.month r.day == (i : Int) + 1 && r.year == 2001 && r.month == 5 &&
        decide (14 ≤ r.day ∧ r.day ≤ 20)
    | _ => false

theorem months_wide_rt : (Gen.FormatLocales.all.all fun L => (List.range 12).all (monthRT L "MMMM" L.monthsWide)) = true := by
  decide +kernel
theorem months_abbr_rt : (Gen.FormatLocales.all.all fun L => (List.range 12).all (monthRT L "MMM" L.monthsAbbr)) = true := by
  decide +kernel
theorem days_wide_rt : (Gen.FormatLocales.all.all fun L => (List.range 7).all (dayRT L "dddd" L.daysWide)) = true := by
  decide +kernel
theorem days_abbr_rt : (Gen.FormatLocales.all.all fun L => (List.range 7).all (dayRT L "ddd" L.daysAbbr)) = true := by
  decide +kernel
theorem days_short_rt : (Gen.FormatLocales.all.all fun L => (List.range 7).all (dayRT L "dd" L.daysShort)) = true := by
  decide +kernel

theorem single_token_formats :
    tokenize "MMMM".toList = [Item.tok "MMMM".toList] ∧ tokenize "MMM".toList = [Item.tok "MMM".toList] ∧
    tokenize "dddd".toList = [Item.tok "dddd".toList] ∧ tokenize "ddd".toList = [Item.tok "ddd".toList] ∧
    tokenize "dd".toList = [Item.tok "dd".toList] := by decide

end Pendulum.Fmt
