import Pendulum.Proofs.Zone2
namespace Pendulum.Zone

theorem offAt_lt (init : Int) (a : Tr) (rest : List Tr) (u : Int) (h : u < a.t) :
    offAt init (a :: rest) u = init := by simp [offAt, h]
theorem offAt_ge (init : Int) (a : Tr) (rest : List Tr) (u : Int) (h : ¬ u < a.t) :
    offAt init (a :: rest) u = offAt a.off rest u := by simp [offAt, h]
theorem foldAt_lt (init : Int) (a : Tr) (rest : List Tr) (u : Int) (h : u < a.t) :
    foldAt init (a :: rest) u = false := by simp [foldAt, h]

/-- inside the gap opened by the head transition -/
theorem gap_head_offsets (init : Int) (a : Tr) (rest : List Tr) (w : Int) (hwf : WF init (a :: rest))
    (h1 : init < a.off) (h2 : a.t + init ≤ w) (h3 : w < a.t + a.off) :
    wallOff false init (a :: rest) w = init ∧ wallOff true init (a :: rest) w = a.off := by
  constructor
  · apply wallOff_lt; unfold thr; simp only [Bool.false_eq_true, if_false]; omega
  · rw [wallOff_ge true init a rest w (by unfold thr; simp only [if_true]; omega)]
    cases rest with
    | nil => simp [wallOff]
    | cons b r =>
      have := next_thr init a b r hwf
      apply wallOff_lt
      have : thr false init a = a.t + a.off := by
        unfold thr; simp only [Bool.false_eq_true, if_false]; omega
      omega

def headGap (init : Int) (a : Tr) (w : Int) : Prop := init < a.off ∧ a.t + init ≤ w ∧ w < a.t + a.off

/-- forward and backward resolution of a skipped wall time land on genuine local times -/
theorem gap_shift (l : List Tr) : ∀ (init w : Int), WF init l → inGap init l w = true →
    offAt init l (w - wallOff false init l w) = wallOff true init l w ∧
    foldAt init l (w - wallOff false init l w) = false ∧
    offAt init l (w - wallOff true init l w) = wallOff false init l w ∧
    foldAt init l (w - wallOff true init l w) = false ∧
    (∀ a rest, l = a :: rest → a.t ≤ w - wallOff false init l w) ∧
    (∀ a rest, l = a :: rest → ¬ headGap init a w → a.t ≤ w - wallOff true init l w) := by
  induction l with
  | nil => intro init w _ h; simp [inGap] at h
  | cons a rest ih =>
    intro init w hwf hg
    by_cases hhead : headGap init a w
    · obtain ⟨h1, h2, h3⟩ := hhead
      obtain ⟨e0, e1⟩ := gap_head_offsets init a rest w hwf h1 h2 h3
      rw [e0, e1]
      refine ⟨?_, ?_, ?_, foldAt_lt init a rest _ (by omega), ?_, ?_⟩
      · rw [offAt_ge init a rest _ (by omega)]
        cases rest with
        | nil => simp [offAt]
        | cons b r =>
          have hsp := hwf.1
          have : w - init < b.t := by
            unfold absI at hsp; split at hsp <;> split at hsp <;> omega
          simp [offAt, this]
      · cases rest with
        | nil =>
          have : ¬ (w - init < a.t) := by omega
          simp only [foldAt, this, if_false]
          simp; omega
        | cons b r =>
          have hsp := hwf.1
          have hb : w - init < b.t := by
            unfold absI at hsp; split at hsp <;> split at hsp <;> omega
          have : ¬ (w - init < a.t) := by omega
          simp only [foldAt, this, if_false, hb, if_true]
          simp; omega
      · exact offAt_lt init a rest _ (by omega)
      · intro a' r' h; cases h; omega
      · intro a' r' h hn; cases h; exact absurd ⟨h1, h2, h3⟩ hn
    · have htail : inGap a.off rest w = true := by
        simp only [inGap, Bool.or_eq_true, Bool.and_eq_true, decide_eq_true_eq] at hg
        rcases hg with ⟨⟨h1, h2⟩, h3⟩ | ht
        · exact absurd ⟨h1, h2, h3⟩ hhead
        · exact ht
      have hA : ¬ (w < thr false init a) := by
        intro hlt
        have : inGap a.off rest w = false := by
          apply noGap_before rest a.off w (wf_tail hwf)
          intro b r hb; subst hb
          have := next_thr init a b r hwf
          omega
        rw [this] at htail; cases htail
      have hB : ¬ (w < thr true init a) := by have := thr_le init a; omega
      rw [wallOff_ge false init a rest w hA, wallOff_ge true init a rest w hB]
      cases rest with
      | nil => simp [inGap] at htail
      | cons b r =>
        obtain ⟨i1, i2, i3, i3', i4, i5⟩ := ih a.off w (wf_tail hwf) htail
        have hab := wf_le hwf
        have hb1 : b.t ≤ w - wallOff false a.off (b :: r) w := i4 b r rfl
        have hb2 : a.t ≤ w - wallOff true a.off (b :: r) w := by
          by_cases hgb : headGap a.off b w
          · obtain ⟨g1, g2, g3⟩ := hgb
            obtain ⟨_, e1⟩ := gap_head_offsets a.off b r w (wf_tail hwf) g1 g2 g3
            rw [e1]
            have hsp := hwf.1
            unfold absI at hsp; split at hsp <;> split at hsp <;> omega
          · have := i5 b r rfl hgb; omega
        have hfold' : foldAt init (a :: b :: r) (w - wallOff true a.off (b :: r) w) = false := by
          by_cases hub : w - wallOff true a.off (b :: r) w < b.t
          · -- the gap is the one opened by b
            have hgb : headGap a.off b w := by
              apply Classical.byContradiction; intro hn
              have := i5 b r rfl hn; omega
            obtain ⟨g1, g2, g3⟩ := hgb
            obtain ⟨_, e1⟩ := gap_head_offsets a.off b r w (wf_tail hwf) g1 g2 g3
            have h1 : ¬ (w - wallOff true a.off (b :: r) w < a.t) := by omega
            simp only [foldAt, h1, if_false, hub, if_true]
            rw [e1] at hub ⊢
            have hsp := hwf.1
            simp
            unfold absI at hsp; split at hsp <;> split at hsp <;> omega
          · have h1 : ¬ (w - wallOff true a.off (b :: r) w < a.t) := by omega
            have e : foldAt init (a :: b :: r) (w - wallOff true a.off (b :: r) w)
                = foldAt a.off (b :: r) (w - wallOff true a.off (b :: r) w) := by
              simp [foldAt, h1, hub]
            rw [e]; exact i3'
        refine ⟨?_, ?_, ?_, hfold', ?_, ?_⟩
        · rw [offAt_ge init a _ _ (by omega)]; exact i1
        · have e : foldAt init (a :: b :: r) (w - wallOff false a.off (b :: r) w)
              = foldAt a.off (b :: r) (w - wallOff false a.off (b :: r) w) := by
            have h1 : ¬ (w - wallOff false a.off (b :: r) w < a.t) := by omega
            have h2 : ¬ (w - wallOff false a.off (b :: r) w < b.t) := by omega
            simp [foldAt, h1, h2]
          rw [e]; exact i2
        · rw [offAt_ge init a _ _ (by omega)]; exact i3
        · intro a' r' h; cases h; omega
        · intro a' r' h _; cases h; exact hb2

end Pendulum.Zone
